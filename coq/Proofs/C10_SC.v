(* C10 for Scala, the lexical half: layout layer, decision layer, whole file - for every admissible package name,
   with or without a dot (the /repo fix of C10-scala-package-brace made end_package / end_package_object close a
   block only when begin_package / begin_package_object opened one; before it the statement carried the carve-out
   "package name with a dot, or nothing to print"). *)
From Coq Require Import List Bool Lia ZifyBool ZifyN NArith Permutation.
From TS Require Import Model.Str Model.Outcome Model.Unicode Model.Types Model.Parse Model.Rename Model.TopsortAlgo Model.Topsort
                       Model.Lang.Common Model.Lang.Decl Model.Lang.Scala.
From TS Require Import Spec.C10Spec Proofs.BackCommon Proofs.C10Lex Proofs.C10_TSFile Proofs.C10Common.
Import ListNotations.
Local Open Scope N_scope.
Local Notation length := List.length (only parsing).

(* ------------------------------------------------------------------ layout *)
Lemma sc_tabs_bal n : bal c10_lex_sc (sc_tabs n).
Proof. apply tr_repeat_str. intros st. reflexivity. Qed.

Lemma sc_comments_bal indent docs : forallb c10_line_ok docs = true -> bal c10_lex_sc (sc_write_comments indent docs).
Proof.
  intros H. unfold sc_write_comments. apply tr_concat_map. apply Forall_forall. intros c Hc.
  rewrite forallb_forall in H. pose proof (line_stay c10_lex_sc c (H c Hc)) as Hl.
  pose proof (sc_tabs_bal indent) as Ht. unfold sc_write_comment. intros st. walk. reflexivity.
Qed.

Lemma sc_generic_parameters_bal gs : forallb c10_tok_ok gs = true -> bal c10_lex_sc (sc_generic_parameters gs).
Proof.
  intros H. destruct gs as [|g r]; [apply tr_nil|]. unfold sc_generic_parameters.
  pose proof (tok_bal c10_lex_sc _ (tok_ok_join (lit ", ") (g :: r) eq_refl H)) as Hj.
  intros st. set (J := join _ _) in *. walk. reflexivity.
Qed.

Lemma sc_show_bal x : c10_texp_ok c10_lex_sc x = true -> bal c10_lex_sc (sc_show x).
Proof.
  induction x as [n args IH | e IH | es IH | k v IHk IHv | e IH | t] using texp_ind'; intros H; cbn [c10_texp_ok] in H.
  - apply andb_true_iff in H as [Hn Ha]. pose proof (tok_bal c10_lex_sc n Hn) as Hnb.
    destruct args as [|a l]; [exact Hnb|].
    change (sc_show (XName n (a :: l))) with (n ++ lit "[" ++ join (lit ", ") (map sc_show (a :: l)) ++ lit "]").
    assert (Hj : bal c10_lex_sc (join (lit ", ") (map sc_show (a :: l)))).
    { apply tr_join_map; [intros st; reflexivity|]. exact (Forall_forallb_imp _ _ _ IH Ha). }
    intros st. set (J := join _ _) in *. walk. reflexivity.
  - change (sc_show (XSeq e)) with (lit "Vector[" ++ sc_show e ++ lit "]"). specialize (IH H). intros st. walk. reflexivity.
  - change (sc_show (XFixed es)) with (lit "(" ++ join (lit ", ") (map sc_show es) ++ lit ")").
    assert (Hj : bal c10_lex_sc (join (lit ", ") (map sc_show es))).
    { apply tr_join_map; [intros st; reflexivity|]. exact (Forall_forallb_imp _ _ _ IH H). }
    intros st. set (J := join _ _) in *. walk. reflexivity.
  - apply andb_true_iff in H as [Hk Hv]. specialize (IHk Hk). specialize (IHv Hv).
    change (sc_show (XMap k v)) with (lit "Map[" ++ sc_show k ++ lit ", " ++ sc_show v ++ lit "]").
    intros st. walk. reflexivity.
  - change (sc_show (XOpt e)) with (lit "Option[" ++ sc_show e ++ lit "]"). specialize (IH H). intros st. walk. reflexivity.
  - exact (balanced_bal _ t H).
Qed.

Definition nonnil (s : str) : bool := match s with [] => false | _ => true end.
Lemma nonnil_ne s : nonnil s = true -> s <> [].
Proof. destruct s; [discriminate|discriminate]. Qed.

Definition c10_sc_member_ok (m : sc_member) : bool :=
  forallb c10_line_ok (scm_docs m) && c10_tok_ok (scm_name m) && c10_texp_ok c10_lex_sc (scm_type m).
Definition c10_sc_variant_ok (v : sc_variant) : bool :=
  forallb c10_line_ok (scv_docs v) && c10_tok_ok (scv_name v) && c10_tok_ok (scv_parent v) && forallb c10_tok_ok (scv_parent_generics v) &&
  nonnil (scv_wire v) &&
  match scv_payload v with
  | SCPayUnit => true
  | SCPayTuple gs content ty => forallb c10_tok_ok gs && c10_tok_ok content && c10_texp_ok c10_lex_sc ty
  | SCPayInner gs content inner args => forallb c10_tok_ok gs && c10_tok_ok content && c10_tok_ok inner && forallb c10_tok_ok args
  end.
Definition c10_sc_decl_ok (d : sc_decl) : bool :=
  match d with
  | SCAlias docs name gs ty => forallb c10_line_ok docs && c10_tok_ok name && forallb c10_tok_ok gs && c10_texp_ok c10_lex_sc ty
  | SCCaseClass docs name gs ms => forallb c10_line_ok docs && c10_tok_ok name && forallb c10_tok_ok gs && forallb c10_sc_member_ok ms
  | SCEmptyClass docs name => forallb c10_line_ok docs && c10_tok_ok name
  | SCEnum docs name gs vs => forallb c10_line_ok docs && c10_tok_ok name && forallb c10_tok_ok gs && forallb c10_sc_variant_ok vs
  | SCHelperAliases l => forallb (fun nt => c10_tok_ok (fst nt) && c10_texp_ok c10_lex_sc (snd nt)) l
  end.

Lemma sc_render_member_bal m : c10_sc_member_ok m = true -> bal c10_lex_sc (sc_render_member m).
Proof.
  unfold c10_sc_member_ok. rewrite !andb_true_iff. intros [[Hd Hn] Ht].
  pose proof (sc_comments_bal 1 _ Hd) as H1. pose proof (tok_bal c10_lex_sc _ Hn) as H2. pose proof (sc_show_bal _ Ht) as H3.
  unfold sc_render_member. intros st. destruct (scm_default m); walk; reflexivity.
Qed.

Lemma sc_render_variant_bal v : c10_sc_variant_ok v = true -> bal c10_lex_sc (sc_render_variant v).
Proof.
  unfold c10_sc_variant_ok. rewrite !andb_true_iff. intros [[[[[Hd Hn] Hp] Hpg] Hw] Hpay].
  pose proof (sc_comments_bal 1 _ Hd) as H1. pose proof (tok_bal c10_lex_sc _ Hn) as H2. pose proof (tok_bal c10_lex_sc _ Hp) as H3.
  pose proof (sc_generic_parameters_bal _ Hpg) as H4. pose proof (debug_str_bal_triple c10_lex_sc _ (nonnil_ne _ Hw)) as H5.
  unfold sc_render_variant. destruct (scv_payload v) as [|gs content ty|gs content inner args].
  - intros st. walk. reflexivity.
  - rewrite !andb_true_iff in Hpay. destruct Hpay as [[Hg Hc] Ht].
    pose proof (sc_generic_parameters_bal _ Hg) as H6. pose proof (tok_bal c10_lex_sc _ Hc) as H7. pose proof (sc_show_bal _ Ht) as H8.
    intros st. walk. reflexivity.
  - rewrite !andb_true_iff in Hpay. destruct Hpay as [[[Hg Hc] Hi] Ha].
    pose proof (sc_generic_parameters_bal _ Hg) as H6. pose proof (tok_bal c10_lex_sc _ Hc) as H7. pose proof (tok_bal c10_lex_sc _ Hi) as H8.
    pose proof (sc_generic_parameters_bal _ Ha) as H9. intros st. walk. reflexivity.
Qed.

Theorem sc_render_decl_bal d : c10_sc_decl_ok d = true -> bal c10_lex_sc (sc_render_decl d).
Proof.
  destruct d as [docs name gs ty | docs name gs ms | docs name | docs name gs vs | l];
    cbn [c10_sc_decl_ok sc_render_decl]; rewrite ?andb_true_iff; intros H.
  - destruct H as [[[Hd Hn] Hg] Ht].
    pose proof (sc_comments_bal 0 _ Hd) as H1. pose proof (tok_bal c10_lex_sc _ Hn) as H2.
    pose proof (sc_generic_parameters_bal _ Hg) as H3. pose proof (sc_show_bal _ Ht) as H4. intros st. walk. reflexivity.
  - destruct H as [[[Hd Hn] Hg] Hm].
    pose proof (sc_comments_bal 0 _ Hd) as H1. pose proof (tok_bal c10_lex_sc _ Hn) as H2. pose proof (sc_generic_parameters_bal _ Hg) as H3.
    assert (H4 : bal c10_lex_sc (join (lit "," ++ sc_nl) (map sc_render_member ms))).
    { apply tr_join_map; [intros st; reflexivity|]. apply Forall_forall. intros m Hin. apply sc_render_member_bal.
      rewrite forallb_forall in Hm. exact (Hm m Hin). }
    intros st. set (J := join _ _) in *. walk. reflexivity.
  - destruct H as [Hd Hn]. pose proof (sc_comments_bal 0 _ Hd) as H1. pose proof (tok_bal c10_lex_sc _ Hn) as H2. intros st. walk. reflexivity.
  - destruct H as [[[Hd Hn] Hg] Hv].
    pose proof (sc_comments_bal 0 _ Hd) as H1. pose proof (tok_bal c10_lex_sc _ Hn) as H2. pose proof (sc_generic_parameters_bal _ Hg) as H3.
    assert (H4 : bal c10_lex_sc (List.concat (map sc_render_variant vs))).
    { apply tr_concat_map. apply Forall_forall. intros v Hin. apply sc_render_variant_bal. rewrite forallb_forall in Hv. exact (Hv v Hin). }
    intros st. set (VS := List.concat _) in *. walk. reflexivity.
  - assert (H4 : bal c10_lex_sc (List.concat (map (fun nt : str * texp => lit "type " ++ fst nt ++ lit " = " ++ sc_show (snd nt) ++ sc_nl) l))).
    { apply tr_concat_map. apply Forall_forall. intros nt Hin. rewrite forallb_forall in H. specialize (H nt Hin).
      apply andb_true_iff in H as [Hn Ht]. pose proof (tok_bal c10_lex_sc _ Hn) as G1. pose proof (sc_show_bal _ Ht) as G2.
      intros st. walk. reflexivity. }
    intros st. set (L := List.concat _) in *. walk. reflexivity.
Qed.

(* ================================================================== decisions *)
Definition c10_sc_cfg_ok (cfg : sc_config) : bool :=
  forallb (fun kv => c10_raw_ok c10_lex_sc (snd kv)) (sc_type_mappings cfg) && c10_dotted_ok (sc_version cfg) && c10_dotted_ok (sc_package cfg).

Lemma rsplit_once_some c s a b : sc_rsplit_once c s = Some (a, b) -> s = a ++ c :: b.
Proof.
  revert a b. induction s as [|x r IH]; intros a b H; cbn [sc_rsplit_once] in H; [discriminate|].
  destruct (sc_rsplit_once c r) as [[a' b']|].
  - injection H as <- <-. cbn [app]. f_equal. apply IH. reflexivity.
  - destruct (N.eqb x c) eqn:E; [|discriminate]. injection H as <- <-. apply N.eqb_eq in E. subst. reflexivity.
Qed.
Lemma rsplit_once_some_contains c s a b : sc_rsplit_once c s = Some (a, b) -> contains_char c s = true.
Proof.
  intros H. apply rsplit_once_some in H. subst s. unfold contains_char. rewrite existsb_app. cbn [existsb].
  rewrite N.eqb_refl. cbn [orb]. apply orb_true_r.
Qed.
Lemma rsplit_once_none c s : sc_rsplit_once c s = None -> contains_char c s = false.
Proof.
  induction s as [|x r IH]; intros H; cbn [sc_rsplit_once] in H; [reflexivity|].
  destruct (sc_rsplit_once c r) as [[a' b']|]; [discriminate|]. destruct (N.eqb x c) eqn:E; [discriminate|].
  unfold contains_char in *. cbn [existsb]. rewrite N.eqb_sym, E. exact (IH eq_refl).
Qed.

Section SCDecide.
Variable uc : unicode.
Variable cfg : sc_config.
Hypothesis Hcfg : c10_sc_cfg_ok cfg = true.

Lemma sc_Hmap : forallb (fun kv => c10_raw_ok c10_lex_sc (snd kv)) (sc_type_mappings cfg) = true.
Proof. unfold c10_sc_cfg_ok in Hcfg. rewrite !andb_true_iff in Hcfg. tauto. Qed.

Lemma sc_texp_ok generics t : c10_rtype_ok t = true -> forall x, sc_texp cfg generics t = Ok x -> c10_texp_ok c10_lex_sc x = true.
Proof.
  induction t as [id | id ps IH | t IH | t n IH | t IH | k v IHk IHv | t IH | p] using rtype_ind';
    intros Hok x H; cbn [c10_rtype_ok] in Hok; cbn [sc_texp] in H.
  - injection H as <-. destruct (tmap_get (sc_type_mappings cfg) id) eqn:E; cbn [c10_texp_ok].
    + exact (tmap_get_raw _ _ _ _ sc_Hmap E).
    + rewrite (ident_tok _ Hok). reflexivity.
  - apply andb_true_iff in Hok as [Hid Hps].
    destruct (tmap_get (sc_type_mappings cfg) id) eqn:E.
    + injection H as <-. exact (tmap_get_raw _ _ _ _ sc_Hmap E).
    + apply bind_ok in H as (parts & Hgo & H). injection H as <-. cbn [c10_texp_ok]. rewrite (ident_tok _ Hid). cbn [andb].
      clear E. revert parts Hgo. induction IH as [|a l Ha Hl IHl]; intros parts Hgo.
      * injection Hgo as <-. reflexivity.
      * cbn [forallb] in Hps. apply andb_true_iff in Hps as [Hpa Hpl].
        apply bind_ok in Hgo as (y & Hy & Hgo). apply bind_ok in Hgo as (ys & Hys & Hgo). injection Hgo as <-.
        cbn [forallb]. rewrite (Ha Hpa _ Hy), (IHl Hpl _ Hys). reflexivity.
  - apply bind_ok in H as (e & He & H). injection H as <-. cbn [c10_texp_ok forallb]. rewrite (IH Hok _ He). reflexivity.
  - apply bind_ok in H as (e & He & H). injection H as <-. cbn [c10_texp_ok forallb]. rewrite (IH Hok _ He). reflexivity.
  - apply bind_ok in H as (e & He & H). injection H as <-. cbn [c10_texp_ok forallb]. rewrite (IH Hok _ He). reflexivity.
  - apply andb_true_iff in Hok as [Hk Hv]. apply bind_ok in H as (ks & Hks & H). apply bind_ok in H as (vs & Hvs & H). injection H as <-.
    cbn [c10_texp_ok forallb]. rewrite (IHk Hk _ Hks), (IHv Hv _ Hvs). reflexivity.
  - apply bind_ok in H as (e & He & H). injection H as <-. cbn [c10_texp_ok]. exact (IH Hok _ He).
  - destruct p; try discriminate; injection H as <-; reflexivity.
Qed.

Lemma sc_member_ok gs f m : c10_field_ok CSC f = true -> sc_member_of cfg gs f = Ok m -> c10_sc_member_ok m = true.
Proof.
  intros Hf H. unfold sc_member_of in H. apply bind_ok in H as (ty & Hty & H). injection H as <-.
  pose proof Hf as Hf0. unfold c10_field_ok in Hf. rewrite !andb_true_iff in Hf. destruct Hf as [[[Hid Hrt] Hdocs] _].
  unfold c10_member_id_ok in Hid. apply andb_true_iff in Hid as [_ Hren].
  unfold c10_sc_member_ok. cbn [scm_docs scm_name scm_type]. rewrite (docs_line_ok _ Hdocs), (replace_dash_tok _ (key_tok _ Hren)). cbn [andb].
  destruct (type_override f Scala) as [o|] eqn:Eo.
  - injection Hty as <-. exact (type_override_raw CSC f o Hf0 Eo).
  - exact (sc_texp_ok gs (fty f) Hrt _ Hty).
Qed.

Lemma sc_class_of_ok rs d :
  c10_ident_ok (renamed (sid rs)) = true -> forallb c10_ident_ok (sgenerics rs) = true ->
  forallb (c10_field_ok CSC) (sfields rs) = true -> forallb c10_line_ok (scomments rs) = true ->
  sc_class_of cfg rs = Ok d -> c10_sc_decl_ok d = true.
Proof.
  intros Hren Hg Hf Hd H. unfold sc_class_of in H. destruct (sfields rs) as [|f0 fs] eqn:Ef.
  - injection H as <-. cbn [c10_sc_decl_ok]. rewrite Hd, (ident_tok _ Hren). reflexivity.
  - apply bind_ok in H as (ms & Hms & H). injection H as <-. cbn [c10_sc_decl_ok].
    rewrite Hd, (ident_tok _ Hren), (generics_tok _ Hg). cbn [andb].
    apply Forall_forallb. eapply mapM_Forall_in; [|apply forallb_Forall; exact Hf|exact Hms].
    intros x y Hx Hy. exact (sc_member_ok _ _ _ Hx Hy).
Qed.

Lemma ident_ok_app a b : c10_ident_ok a = true -> forallb c10_ident_char b = true -> c10_ident_ok (a ++ b) = true.
Proof.
  destruct a as [|c r]; [discriminate|]. unfold c10_ident_ok. cbn [app forallb]. rewrite !andb_true_iff. intros [Hc Hr] Hb.
  split; [exact Hc|]. rewrite forallb_app, Hr, Hb. reflexivity.
Qed.

Lemma sc_decl_of_ok it ds : c10_item_ok CSC it = true -> sc_decl_of cfg it = Ok ds -> forallb c10_sc_decl_ok ds = true.
Proof.
  intros Hit H. destruct it as [rs | e | a | c]; cbn [sc_decl_of] in H.
  - apply bind_ok in H as (d & Hd & H). injection H as <-. cbn [forallb]. rewrite andb_true_r.
    cbn [c10_item_ok] in Hit. rewrite !andb_true_iff in Hit. destruct Hit as [[[[Hid Hg] Hf] Hdoc] _].
    unfold c10_type_id_ok in Hid. apply andb_true_iff in Hid as [_ Hren].
    exact (sc_class_of_ok _ _ Hren Hg Hf (docs_line_ok _ Hdoc) Hd).
  - cbn [c10_item_ok] in Hit. rewrite !andb_true_iff in Hit. destruct Hit as [[[[[Hid Hg] Hd] Hv] _] Htc].
    unfold c10_type_id_ok in Hid. apply andb_true_iff in Hid as [Horig Hren].
    apply bind_ok in H as (inner & Hinner & H). apply bind_ok in H as (vs & Hvs & H). injection H as <-.
    rewrite forallb_app. apply andb_true_iff. split.
    + unfold sc_inner_decls_of in Hinner. apply bind_ok in Hinner as (dss & Hdss & Hinner). injection Hinner as <-.
      apply Forall_forallb. apply Forall_concat.
      eapply mapM_Forall_in; [|apply forallb_Forall; exact Hv|exact Hdss].
      intros v ds0 Hv0 Hds0. cbn beta in Hv0. destruct v as [vsh | t vsh | fs vsh]; try (injection Hds0 as <-; constructor).
      apply bind_ok in Hds0 as (d0 & Hd0 & Hds0). injection Hds0 as <-. constructor; [|constructor].
      unfold c10_variant_ok in Hv0. cbn [variant_shared] in Hv0. rewrite !andb_true_iff in Hv0. destruct Hv0 as [[Hvid _] Hfs].
      unfold c10_member_id_ok in Hvid. apply andb_true_iff in Hvid as [Hvo _].
      eapply sc_class_of_ok; [| | | |exact Hd0]; cbn [anon_struct sid sgenerics sfields scomments renamed].
      * apply ident_ok_app; [exact Hren|]. rewrite forallb_app, (ident_ok_chars _ Hvo). reflexivity.
      * apply anon_struct_generics_ok, Hg.
      * exact Hfs.
      * cbn [forallb]. rewrite andb_true_r. apply docsafe_line.
        rewrite !forallb_app, (ident_docsafe _ (ident_ok_chars _ Hvo)), (ident_docsafe _ (ident_ok_chars _ Horig)). reflexivity.
    + cbn [forallb c10_sc_decl_ok]. rewrite andb_true_r, (docs_line_ok _ Hd), (ident_tok _ Hren), (generics_tok _ Hg). cbn [andb].
      destruct e as [sh | tag content sh]; cbn [enum_shared sc_variants_of] in *.
      * apply Forall_forallb. eapply mapM_Forall_in; [|apply forallb_Forall; exact Hv|exact Hvs].
        intros v y Hv0 Hy. cbn beta in Hv0. unfold sc_variant_of_unit_enum in Hy. injection Hy as <-.
        unfold c10_variant_ok in Hv0. rewrite !andb_true_iff in Hv0. destruct Hv0 as [[Hvid Hvd] _].
        unfold c10_member_id_ok in Hvid. apply andb_true_iff in Hvid as [Hvo Hvr].
        unfold c10_sc_variant_ok. cbn [scv_docs scv_name scv_parent scv_parent_generics scv_wire scv_payload forallb].
        rewrite (docs_line_ok _ Hvd), (ident_tok _ Hvo), (ident_tok _ Hren). cbn [andb].
        destruct (renamed (vid (variant_shared v))); [discriminate|reflexivity].
      * apply andb_true_iff in Htc as [_ Hcon].
        apply Forall_forallb. eapply mapM_Forall_in; [|apply forallb_Forall; exact Hv|exact Hvs].
        intros v y Hv0 Hy. cbn beta in Hv0. unfold sc_variant_of_algebraic in Hy. apply bind_ok in Hy as (payload & Hpay & Hy). injection Hy as <-.
        unfold c10_variant_ok in Hv0. rewrite !andb_true_iff in Hv0. destruct Hv0 as [[Hvid Hvd] Hp].
        unfold c10_member_id_ok in Hvid. apply andb_true_iff in Hvid as [Hvo Hvr].
        unfold c10_sc_variant_ok. cbn [scv_docs scv_name scv_parent scv_parent_generics scv_wire scv_payload].
        rewrite (docs_line_ok _ Hvd), (ident_tok _ Horig), (generics_tok _ Hg). cbn [andb].
        assert (Hw : nonnil (renamed (vid (variant_shared v))) = true) by (destruct (renamed (vid (variant_shared v))); [discriminate|reflexivity]).
        rewrite Hw.
        assert (Hname : forall t, t = (match original (vid (variant_shared v)) with
                                       | c :: _ => if is_adigit c then ch_us :: original (vid (variant_shared v)) else original (vid (variant_shared v))
                                       | [] => original (vid (variant_shared v))
                                       end) -> c10_tok_ok t = true).
        { intros t ->. pose proof (ident_ok_chars _ Hvo) as Hc. destruct (original (vid (variant_shared v))) as [|c r] eqn:E; [reflexivity|].
          destruct (is_adigit c); apply ident_chars_tok; [|exact Hc].
          change (forallb c10_ident_char (ch_us :: c :: r)) with (c10_ident_char ch_us && forallb c10_ident_char (c :: r)). rewrite Hc. reflexivity. }
        match goal with |- context [c10_tok_ok ?t && true] => rewrite (Hname t eq_refl) end. cbn [andb].
        destruct v as [vsh | t vsh | fs vsh]; cbn [variant_shared] in *.
        -- injection Hpay as <-. reflexivity.
        -- apply bind_ok in Hpay as (ty & Hty & Hpay). injection Hpay as <-.
           rewrite (generics_tok _ Hg), (key_tok _ Hcon), (sc_texp_ok _ _ Hp _ Hty). reflexivity.
        -- injection Hpay as <-. rewrite (generics_tok _ Hg), (key_tok _ Hcon), (generics_tok _ (anon_struct_generics_ok _ _ Hg)).
           cbn [andb]. rewrite andb_true_r. apply ident_chars_tok.
           rewrite !forallb_app, (ident_ok_chars _ Horig), (ident_ok_chars _ Hvo). reflexivity.
  - cbn [c10_item_ok] in Hit. rewrite !andb_true_iff in Hit. destruct Hit as [[[[Hid Hg] Ht] Hd] _].
    unfold c10_type_id_ok in Hid. apply andb_true_iff in Hid as [Horig _].
    apply bind_ok in H as (ty & Hty & H). injection H as <-. cbn [forallb c10_sc_decl_ok].
    rewrite (docs_line_ok _ Hd), (ident_tok _ Horig), (generics_tok _ Hg), (sc_texp_ok _ _ Ht _ Hty). reflexivity.
  - discriminate.
Qed.

Lemma sc_items_bal (its : list ritem) text : Forall (fun it => c10_item_ok CSC it = true) its ->
  sc_concat (sc_write_item cfg) its = Ok text -> bal c10_lex_sc text.
Proof.
  intros Hits H. unfold sc_concat in H. apply bind_ok in H as (parts & Hp & H). injection H as <-.
  apply tr_concat. eapply mapM_Forall_in; [|exact Hits|exact Hp].
  intros it t Hit Ht. cbn beta in Hit. unfold sc_write_item in Ht. apply bind_ok in Ht as (ds & Hds & Ht). injection Ht as <-.
  apply tr_concat_map. pose proof (sc_decl_of_ok _ _ Hit Hds) as Hok. apply Forall_forall. intros d Hd.
  apply sc_render_decl_bal. rewrite forallb_forall in Hok. exact (Hok d Hd).
Qed.

(* every admissible package name: both blocks are opened (named by the last segment of the package name, the whole
   name when it has no dot) and closed (scala.rs begin_package(_object) / end_package(_object) after the /repo fix
   of C10-scala-toplevel-alias; before it a dotless name opened and closed nothing, before the fix of
   C10-scala-package-brace it closed what it had not opened); the empty package is begin_file's error, so no text
   exists for it *)
Theorem sc_generate_balanced pd text : dom_C10 CSC pd = true ->
  sc_generate uc cfg pd = Ok text -> c10_balanced c10_lex_sc text = true.
Proof.
  intros Hdom H. unfold sc_generate in H.
  apply bind_ok in H as (head & Hhead & H). apply bind_ok in H as (pobj & Hpobj & H). apply bind_ok in H as (pkg & Hpkg & H). injection H as <-.
  pose proof Hcfg as Hc. unfold c10_sc_cfg_ok in Hc. rewrite !andb_true_iff in Hc. destruct Hc as [[_ Hver] Hpack].
  unfold dom_C10 in Hdom. rewrite !forallb_app in Hdom. rewrite !andb_true_iff in Hdom. destruct Hdom as [Hal [Hst [Hen _]]].
  apply forallb_Forall in Hal, Hst, Hen.
  (* header *)
  assert (Bhead : bal c10_lex_sc head).
  { unfold sc_begin_file in Hhead. remember (sc_rsplit_once sc_ch_dot (sc_package cfg)) as rs eqn:Ers.
    destruct (sc_package cfg) as [|p0 pr] eqn:Ep; [discriminate|]. injection Hhead as <-.
    assert (Hh : bal c10_lex_sc (if sc_no_version_header cfg then []
                                 else lit "/**" ++ sc_nl ++ lit " * Generated by typeshare " ++ sc_version cfg ++ sc_nl ++ lit " */" ++ sc_nl)).
    { destruct (sc_no_version_header cfg); [apply tr_nil|].
      pose proof (nostarslash_stay c10_lex_sc 0 _ (dotted_nostarslash _ Hver)) as H2. intros st. walk. reflexivity. }
    eapply tr_app; [exact Hh|]. destruct rs as [[parent last]|]; [|apply tr_nil].
    symmetry in Ers. apply rsplit_once_some in Ers. unfold c10_dotted_ok in Hpack. rewrite Ers, forallb_app in Hpack. apply andb_true_iff in Hpack as [Hpar _].
    pose proof (tok_bal c10_lex_sc parent (dotted_tok _ Hpar)) as Hpb. intros st. walk. reflexivity. }
  assert (Bu : bal c10_lex_sc (if sc_unsigned_integer_used pd then sc_render_decl sc_unsigned_aliases else [])).
  { destruct (sc_unsigned_integer_used pd); [apply sc_render_decl_bal; reflexivity|apply tr_nil]. }
  (* the last segment (the whole name when it has no dot) is a run of plain token characters *)
  assert (Hlb : bal c10_lex_sc (sc_package_last_segment cfg)).
  { unfold sc_package_last_segment. destruct (sc_rsplit_once sc_ch_dot (sc_package cfg)) as [[parent last]|] eqn:Er.
    - pose proof (rsplit_once_some _ _ _ _ Er) as Es. pose proof Hpack as Hpack'. unfold c10_dotted_ok in Hpack'.
      rewrite Es, forallb_app in Hpack'. apply andb_true_iff in Hpack' as [_ Hlast]. cbn [forallb] in Hlast. apply andb_true_iff in Hlast as [_ Hlast].
      exact (tok_bal c10_lex_sc last (dotted_tok _ Hlast)).
    - exact (tok_bal c10_lex_sc _ (dotted_tok _ Hpack)). }
  (* both blocks are opened and closed, whatever the package name (scala.rs after the /repo fix of C10-scala-toplevel-alias) *)
  assert (Bobj : bal c10_lex_sc pobj).
  { destruct (sc_unsigned_integer_used pd || negb (sc_is_empty (p_aliases pd))); [|injection Hpobj as <-; apply tr_nil].
    apply bind_ok in Hpobj as (aliases & Hal' & Hpobj). injection Hpobj as <-.
    pose proof (sc_items_bal _ _ Hal Hal') as Ba.
    unfold sc_begin_package_object, sc_end_package_object. cbv zeta. intros st.
    set (L := sc_package_last_segment cfg) in *.
    set (U := if sc_unsigned_integer_used pd then _ else _) in *. walk. reflexivity. }
  assert (Bpkg : bal c10_lex_sc pkg).
  { destruct (negb (sc_is_empty (p_structs pd)) || negb (sc_is_empty (p_enums pd))); [|injection Hpkg as <-; apply tr_nil].
    apply bind_ok in Hpkg as (structs & Hs' & Hpkg). apply bind_ok in Hpkg as (enums & He' & Hpkg). injection Hpkg as <-.
    pose proof (sc_items_bal _ _ Hst Hs') as Bs.
    pose proof (sc_items_bal _ _ Hen He') as Be.
    unfold sc_begin_package, sc_end_package. cbv zeta. intros st.
    set (L := sc_package_last_segment cfg) in *. walk. reflexivity. }
  apply bal_balanced. eapply tr_app; [exact Bhead|]. eapply tr_app; [exact Bobj|exact Bpkg].
Qed.
End SCDecide.
