(* C10 for Go, the lexical half at the layout layer, for ALL well-formed declarations (struct tags are raw
   strings: the JSON key must not contain a back-tick; printed types are judged as text). *)
From Coq Require Import List Bool Lia ZifyBool ZifyN NArith Permutation.
From TS Require Import Model.Str Model.Outcome Model.Unicode Model.Types Model.Parse Model.Rename Model.TopsortAlgo Model.Topsort
                       Model.Lang.Common Model.Lang.Decl Model.Lang.Go.
From TS Require Import Spec.C10Spec Proofs.BackCommon Proofs.C10Lex Proofs.C10_TSFile Proofs.C10Common Proofs.C10Monad.
Import ListNotations.
Local Open Scope N_scope.
Local Notation length := List.length (only parsing).

(* ------------------------------------------------------------------ raw strings *)
Definition notick (s : str) : bool := forallb (fun c => negb (c =? c10_c_tick)) s.
Lemma notick_stay cfg s : notick s = true -> tr cfg C10LRaw s C10LRaw.
Proof.
  unfold notick. intros H st. induction s as [|c r IH]; [reflexivity|].
  cbn [forallb] in H. apply andb_true_iff in H as [Hc Hr]. rewrite run_cons.
  replace (c10_lex_step cfg (C10LRaw, st) c) with (C10LRaw, st); [exact (IH Hr)|].
  cbn [c10_lex_step]. destruct (c =? c10_c_tick); [discriminate|reflexivity].
Qed.
Definition esc_tick_chk (c : char) : bool := (c =? c10_c_tick) || notick (escape_debug_char c).
Lemma esc_tick_ascii c : c < 128 -> esc_tick_chk c = true.
Proof. revert c. apply below_128. vm_compute. reflexivity. Qed.
Lemma esc_notick c : (c =? c10_c_tick) = false -> notick (escape_debug_char c) = true.
Proof.
  intros Hc. destruct (N.ltb_spec c 128) as [Hlt|Hge].
  - pose proof (esc_tick_ascii c Hlt) as H. unfold esc_tick_chk in H. rewrite Hc in H. exact H.
  - unfold escape_debug_char. unfold_chars. kill_ifs. unfold notick, c10_c_tick. cbn [forallb]. rewrite Hc. reflexivity.
Qed.
Lemma notick_app a b : notick (a ++ b) = notick a && notick b.
Proof. apply forallb_app. Qed.
Lemma esc_str_notick k : notick k = true -> notick (flat_map escape_debug_char k) = true.
Proof.
  induction k as [|c r IH]; [reflexivity|]. unfold notick at 1. cbn [forallb flat_map]. rewrite andb_true_iff. intros [Hc Hr].
  rewrite notick_app, (esc_notick c ltac:(apply negb_true_iff; exact Hc)), (IH Hr). reflexivity.
Qed.
Lemma debug_str_notick k : notick k = true -> notick (debug_str k) = true.
Proof. intros H. unfold debug_str. rewrite !notick_app, (esc_str_notick k H). reflexivity. Qed.
Lemma key_notick k : forallb c10_key_char k = true -> notick k = true.
Proof.
  unfold notick. apply forallb_impl. intros c. unfold c10_key_char, is_aalpha, is_alower, is_aupper, is_adigit, ch_us, ch_dash, c10_c_tick. lia.
Qed.

(* ------------------------------------------------------------------ layout *)
Lemma go_tabs_bal n : bal c10_lex_go (go_tabs n).
Proof. apply tr_repeat_str. intros st. reflexivity. Qed.

Lemma go_comments_bal indent docs : forallb c10_line_ok docs = true -> bal c10_lex_go (go_write_comments indent docs).
Proof.
  intros H. unfold go_write_comments. apply tr_flat_map. apply Forall_forall. intros c Hc.
  rewrite forallb_forall in H. pose proof (line_stay c10_lex_go c (H c Hc)) as Hl.
  pose proof (go_tabs_bal indent) as Ht. unfold go_write_comment. intros st. walk. reflexivity.
Qed.

(* a printed type is judged as text: balanced on its own *)
Definition go_show_ok (t : go_ty) : bool := c10_balanced c10_lex_go (go_show t).

Definition c10_go_member_ok (m : go_member) : bool :=
  forallb c10_line_ok (gm_docs m) && c10_tok_ok (gm_name m) && go_show_ok (gm_type m) && notick (gm_key m).
Definition c10_go_variant_ok (v : go_variant) : bool :=
  forallb c10_line_ok (gv_docs v) && c10_tok_ok (gv_const v) && c10_tok_ok (gv_method v) &&
  match gv_content v with
  | GCNone => true
  | GCType ty _ => go_show_ok ty
  | GCInner ref => c10_tok_ok ref
  end.
Definition c10_go_tagged_ok (e : go_tagged) : bool :=
  forallb c10_line_ok (gt_docs e) && c10_tok_ok (gt_name e) && c10_tok_ok (gt_key_type e) && notick (gt_tag_key e) &&
  notick (gt_content_key e) && c10_tok_ok (gt_tag_field e) && c10_tok_ok (gt_content_field e) && c10_tok_ok (gt_short e) &&
  forallb c10_go_variant_ok (gt_variants e).
Definition c10_go_decl_ok (d : go_decl) : bool :=
  match d with
  | GOStruct docs name gs ms => forallb c10_line_ok docs && c10_tok_ok name && forallb c10_tok_ok gs && forallb c10_go_member_ok ms
  | GOAlias docs name ty => forallb c10_line_ok docs && c10_tok_ok name && go_show_ok ty
  | GOConst name ty value => c10_tok_ok name && go_show_ok ty && c10_tok_ok value
  | GOUnitEnum docs name vs =>
    forallb c10_line_ok docs && c10_tok_ok name &&
    forallb (fun v : list str * str * str => let '(vdocs, const, _) := v in forallb c10_line_ok vdocs && c10_tok_ok const) vs
  | GOTagged e => c10_go_tagged_ok e
  end.

Lemma go_render_member_bal m : c10_go_member_ok m = true -> bal c10_lex_go (go_render_member m).
Proof.
  unfold c10_go_member_ok. rewrite !andb_true_iff. intros [[[Hd Hn] Ht] Hk].
  pose proof (go_comments_bal 1 _ Hd) as H1. pose proof (tok_bal c10_lex_go _ Hn) as H2. pose proof (balanced_bal _ _ Ht) as H3.
  pose proof (notick_stay c10_lex_go _ (esc_str_notick _ Hk)) as H4.
  unfold go_render_member. intros st. destruct (gm_star m), (gm_omitempty m); walk; reflexivity.
Qed.

Lemma go_render_variant_bal e v :
  c10_tok_ok (gt_name e) = true -> c10_tok_ok (gt_key_type e) = true -> c10_tok_ok (gt_tag_field e) = true ->
  c10_tok_ok (gt_content_field e) = true -> c10_tok_ok (gt_short e) = true -> c10_go_variant_ok v = true ->
  bal c10_lex_go (go_vo_written (go_render_variant e v)) /\ bal c10_lex_go (go_vo_decoding (go_render_variant e v)) /\
  bal c10_lex_go (go_vo_accessors (go_render_variant e v)) /\ bal c10_lex_go (go_vo_constructors (go_render_variant e v)).
Proof.
  intros Hn Hkt Htf Hcf Hsh. unfold c10_go_variant_ok. rewrite !andb_true_iff. intros [[[Hd Hc] Hm] Hcon].
  pose proof (tok_bal c10_lex_go _ Hn) as B1. pose proof (tok_bal c10_lex_go _ Hkt) as B2. pose proof (tok_bal c10_lex_go _ Htf) as B3.
  pose proof (tok_bal c10_lex_go _ Hcf) as B4. pose proof (tok_bal c10_lex_go _ Hsh) as B5.
  pose proof (go_comments_bal 1 _ Hd) as B6. pose proof (tok_bal c10_lex_go _ Hc) as B7. pose proof (tok_bal c10_lex_go _ Hm) as B8.
  pose proof (debug_str_bal c10_lex_go (gv_wire v) eq_refl) as B9.
  unfold go_render_variant. destruct (gv_content v) as [|ty is_ptr|ref]; cbn [go_vo_written go_vo_decoding go_vo_accessors go_vo_constructors].
  - repeat split; try apply tr_nil; intros st; walk; reflexivity.
  - pose proof (balanced_bal _ _ Hcon) as B10. repeat split; intros st; destruct is_ptr; walk; reflexivity.
  - pose proof (tok_bal c10_lex_go _ Hcon) as B10. repeat split; intros st; walk; reflexivity.
Qed.

Theorem go_render_decl_bal d : c10_go_decl_ok d = true -> bal c10_lex_go (go_render_decl d).
Proof.
  destruct d as [docs name gs ms | docs name ty | name ty value | docs name vs | e]; cbn [c10_go_decl_ok go_render_decl].
  - rewrite !andb_true_iff. intros [[[Hd Hn] Hg] Hm].
    pose proof (go_comments_bal 0 _ Hd) as H1. pose proof (tok_bal c10_lex_go _ Hn) as H2.
    set (G := match gs with [] => [] | _ => lit "[" ++ join (lit ", ") (map (fun g => g ++ lit " any") gs) ++ lit "]" end).
    assert (H3 : bal c10_lex_go G).
    { subst G. destruct gs as [|g r]; [apply tr_nil|].
      assert (Hj : bal c10_lex_go (join (lit ", ") (map (fun g0 => g0 ++ lit " any") (g :: r)))).
      { apply tr_join_map; [intros st; reflexivity|]. apply Forall_forall. intros x Hx. rewrite forallb_forall in Hg.
        apply tok_bal. rewrite tok_ok_app, (Hg x Hx). reflexivity. }
      intros st. set (J := join _ _) in *. walk. reflexivity. }
    assert (H4 : bal c10_lex_go (List.concat (map go_render_member ms))).
    { apply tr_concat_map. apply Forall_forall. intros m Hin. apply go_render_member_bal. rewrite forallb_forall in Hm. exact (Hm m Hin). }
    intros st. set (MS := List.concat _) in *. walk. reflexivity.
  - rewrite !andb_true_iff. intros [[Hd Hn] Ht].
    pose proof (go_comments_bal 0 _ Hd) as H1. pose proof (tok_bal c10_lex_go _ Hn) as H2. pose proof (balanced_bal _ _ Ht) as H3.
    intros st. walk. reflexivity.
  - rewrite !andb_true_iff. intros [[Hn Ht] Hv].
    pose proof (tok_bal c10_lex_go _ Hn) as H2. pose proof (balanced_bal _ _ Ht) as H3. pose proof (tok_bal c10_lex_go _ Hv) as H4.
    intros st. walk. reflexivity.
  - rewrite !andb_true_iff. intros [[Hd Hn] Hv].
    pose proof (go_comments_bal 0 _ Hd) as H1. pose proof (tok_bal c10_lex_go _ Hn) as H2.
    assert (H4 : bal c10_lex_go (List.concat (map (fun v : list str * str * str => let '(vdocs, const, wire) := v in
                   go_nl ++ go_write_comments 1 vdocs ++ [ch_tab] ++ const ++ lit " " ++ name ++ lit " = " ++ debug_str wire) vs))).
    { apply tr_concat_map. apply Forall_forall. intros [[vdocs const] wire] Hin.
      rewrite forallb_forall in Hv. specialize (Hv _ Hin). cbn in Hv. apply andb_true_iff in Hv as [Hvd Hc].
      pose proof (go_comments_bal 1 _ Hvd) as G1. pose proof (tok_bal c10_lex_go _ Hc) as G2.
      pose proof (debug_str_bal c10_lex_go wire eq_refl) as G3. intros st. walk. reflexivity. }
    intros st. set (VS := List.concat _) in *. walk. reflexivity.
  - unfold c10_go_tagged_ok. rewrite !andb_true_iff. intros [[[[[[[[Hd Hn] Hkt] Htk] Hck] Htf] Hcf] Hsh] Hv].
    pose proof (go_comments_bal 0 _ Hd) as B0.
    pose proof (tok_bal c10_lex_go _ Hn) as B1. pose proof (tok_bal c10_lex_go _ Hkt) as B2. pose proof (tok_bal c10_lex_go _ Htf) as B3.
    pose proof (tok_bal c10_lex_go _ Hcf) as B4. pose proof (tok_bal c10_lex_go _ Hsh) as B5.
    pose proof (notick_stay c10_lex_go _ Htk) as B6. pose proof (notick_stay c10_lex_go _ Hck) as B7.
    pose proof (notick_stay c10_lex_go _ (debug_str_notick _ Htk)) as B8.
    assert (Hvs : Forall (fun v => bal c10_lex_go (go_vo_written (go_render_variant e v)) /\ bal c10_lex_go (go_vo_decoding (go_render_variant e v)) /\
                                   bal c10_lex_go (go_vo_accessors (go_render_variant e v)) /\ bal c10_lex_go (go_vo_constructors (go_render_variant e v)))
                         (gt_variants e)).
    { apply Forall_forall. intros v Hin. apply go_render_variant_bal; auto. rewrite forallb_forall in Hv. exact (Hv v Hin). }
    assert (W : bal c10_lex_go (flat_map go_vo_written (map (go_render_variant e) (gt_variants e)))).
    { apply tr_flat_map. apply Forall_map. revert Hvs. apply Forall_impl. tauto. }
    assert (D : bal c10_lex_go (flat_map go_vo_decoding (map (go_render_variant e) (gt_variants e)))).
    { apply tr_flat_map. apply Forall_map. revert Hvs. apply Forall_impl. tauto. }
    assert (A : bal c10_lex_go (flat_map go_vo_accessors (map (go_render_variant e) (gt_variants e)))).
    { apply tr_flat_map. apply Forall_map. revert Hvs. apply Forall_impl. tauto. }
    assert (C : bal c10_lex_go (flat_map go_vo_constructors (map (go_render_variant e) (gt_variants e)))).
    { apply tr_flat_map. apply Forall_map. revert Hvs. apply Forall_impl. tauto. }
    cbv zeta. intros st.
    set (FW := flat_map go_vo_written _) in *. set (FD := flat_map go_vo_decoding _) in *.
    set (FA := flat_map go_vo_accessors _) in *. set (FC := flat_map go_vo_constructors _) in *.
    walk. reflexivity.
Qed.
