(* C10 for Go, from the IR to the whole file: names and printed types go through the textual acronym conversion
   of go.rs:579 (Proofs/C10_GOAcr.v: for alphanumeric acronyms it only replaces letters / digits by letters / digits,
   which no lexer tells apart), imports are collected in the printing state. *)
From Coq Require Import List Bool Lia ZifyBool ZifyN NArith Permutation.
From TS Require Import Model.Str Model.Outcome Model.Unicode Model.Types Model.Parse Model.Rename Model.TopsortAlgo Model.Topsort
                       Model.Lang.Common Model.Lang.Decl Model.Lang.Go.
From TS Require Import Spec.C10Spec Proofs.BackCommon Proofs.C10Lex Proofs.C10_TSFile Proofs.C10Common Proofs.C10Monad Proofs.C10_GO Proofs.C10_GOAcr.
Import ListNotations.
Local Open Scope N_scope.
Local Notation length := List.length (only parsing).

(* ------------------------------------------------------------------ printed types *)
Section GoTyInd.
  Variable P : go_ty -> Prop.
  Hypothesis HN : forall n args, Forall P args -> P (GName n args).
  Hypothesis HS : forall e, P e -> P (GSlice e).
  Hypothesis HA : forall n e, P e -> P (GArray n e).
  Hypothesis HM : forall k v, P k -> P v -> P (GMap k v).
  Hypothesis HP : forall e, P e -> P (GPtr e).
  Hypothesis HR : forall t, P (GRaw t).
  Fixpoint go_ty_ind' (x : go_ty) : P x :=
    let go := fix go (l : list go_ty) : Forall P l :=
                match l with [] => Forall_nil P | y :: r => Forall_cons y (go_ty_ind' y) (go r) end in
    match x with
    | GName n args => HN n args (go args)
    | GSlice e => HS e (go_ty_ind' e)
    | GArray n e => HA n e (go_ty_ind' e)
    | GMap k v => HM k v (go_ty_ind' k) (go_ty_ind' v)
    | GPtr e => HP e (go_ty_ind' e)
    | GRaw t => HR t
    end.
End GoTyInd.

Fixpoint c10_go_ty_ok (x : go_ty) : bool :=
  match x with
  | GName n args => c10_raw_ok c10_lex_go n && forallb c10_go_ty_ok args     (* builtin names include `struct{}` *)
  | GSlice e | GArray _ e | GPtr e => c10_go_ty_ok e
  | GMap k v => c10_go_ty_ok k && c10_go_ty_ok v
  | GRaw t => c10_raw_ok c10_lex_go t
  end.

Lemma dec_of_N_tok n : c10_tok_ok (dec_of_N n) = true.
Proof. unfold dec_of_N. apply dec_fuel_tok. reflexivity. Qed.

Lemma go_show_bal x : c10_go_ty_ok x = true -> bal c10_lex_go (go_show x).
Proof.
  induction x as [n args IH | e IH | n e IH | k v IHk IHv | e IH | t] using go_ty_ind'; intros H; cbn [c10_go_ty_ok] in H.
  - apply andb_true_iff in H as [Hn Ha]. pose proof (balanced_bal _ n Hn) as Hnb.
    destruct args as [|a l]; [exact Hnb|].
    change (go_show (GName n (a :: l))) with (n ++ lit "[" ++ join (lit ", ") (map go_show (a :: l)) ++ lit "]").
    assert (Hj : bal c10_lex_go (join (lit ", ") (map go_show (a :: l)))).
    { apply tr_join_map; [intros st; reflexivity|]. exact (Forall_forallb_imp _ _ _ IH Ha). }
    intros st. set (J := join _ _) in *. walk. reflexivity.
  - change (go_show (GSlice e)) with (lit "[]" ++ go_show e). specialize (IH H). intros st. walk. reflexivity.
  - change (go_show (GArray n e)) with (lit "[" ++ dec_of_N n ++ lit "]" ++ go_show e). specialize (IH H).
    pose proof (tok_bal c10_lex_go _ (dec_of_N_tok n)) as Hd. intros st. walk. reflexivity.
  - apply andb_true_iff in H as [Hk Hv]. specialize (IHk Hk). specialize (IHv Hv).
    change (go_show (GMap k v)) with (lit "map[" ++ go_show k ++ lit "]" ++ go_show v). intros st. walk. reflexivity.
  - change (go_show (GPtr e)) with (lit "*" ++ go_show e). specialize (IH H). intros st. walk. reflexivity.
  - exact (balanced_bal _ t H).
Qed.
Lemma go_ty_show_ok x : c10_go_ty_ok x = true -> go_show_ok x = true.
Proof. intros H. apply bal_balanced, go_show_bal, H. Qed.

Lemma tok_raw cfg s : c10_tok_ok s = true -> c10_raw_ok cfg s = true.
Proof. intros H. apply bal_balanced, tok_bal, H. Qed.

(* ------------------------------------------------------------------ ASCII renamers keep tokens *)
Lemma special_aupper c : c10_special (aupper c) = c10_special c.
Proof. unfold aupper, is_alower. destruct ((97 <=? c) && (c <=? 122)) eqn:E; [|reflexivity]. unfold_chars. lia. Qed.
Lemma special_alower c : c10_special (alower c) = c10_special c.
Proof. unfold alower, is_aupper. destruct ((65 <=? c) && (c <=? 90)) eqn:E; [|reflexivity]. unfold_chars. lia. Qed.
Lemma pascal_go_tok tolow cap s : c10_tok_ok s = true -> c10_tok_ok (pascal_go tolow cap s) = true.
Proof.
  unfold c10_tok_ok. revert cap. induction s as [|c r IH]; intros cap H; [reflexivity|]. cbn [forallb] in H. apply andb_true_iff in H as [Hc Hr].
  cbn [pascal_go]. destruct (c =? ch_us); [exact (IH true Hr)|].
  destruct cap; cbn [forallb]; [rewrite special_aupper, Hc, (IH false Hr); reflexivity|].
  destruct tolow; [rewrite special_alower|]; rewrite Hc, (IH false Hr); reflexivity.
Qed.
Lemma to_pascal_tok s : c10_tok_ok s = true -> c10_tok_ok (to_pascal_case s) = true.
Proof. apply pascal_go_tok. Qed.
Lemma to_camel_tok s r : c10_tok_ok s = true -> to_camel_case s = Ok r -> c10_tok_ok r = true.
Proof.
  intros H. unfold to_camel_case. pose proof (to_pascal_tok s H) as Hp. destruct (to_pascal_case s) as [|c t]; [intros E; injection E as <-; reflexivity|].
  intros E. injection E as <-. unfold c10_tok_ok in *. cbn [forallb] in *. rewrite special_alower. exact Hp.
Qed.

Definition c10_go_cfg_ok (cfg : go_config) : bool :=
  forallb (fun kv => c10_raw_ok c10_lex_go (snd kv)) (go_type_mappings cfg) && c10_dotted_ok (go_version cfg) && c10_dotted_ok (go_package cfg) &&
  forallb acr_ok (go_uppercase_acronyms cfg).

Section GODecide.
Variable uc : unicode.
Hypothesis Huc : unicode_ok uc.
Variable cfg : go_config.
Hypothesis Hcfg : c10_go_cfg_ok cfg = true.

Lemma go_Hmap : forallb (fun kv => c10_raw_ok c10_lex_go (snd kv)) (go_type_mappings cfg) = true.
Proof. unfold c10_go_cfg_ok in Hcfg. rewrite !andb_true_iff in Hcfg. tauto. Qed.
Lemma go_Hacr : forallb acr_ok (go_uppercase_acronyms cfg) = true.
Proof. unfold c10_go_cfg_ok in Hcfg. rewrite !andb_true_iff in Hcfg. tauto. Qed.

(* the imports collected while printing go unescaped between double quotes *)
Definition go_inv (s : go_state) : Prop := forallb c10_instr_ok s = true.
Notation gpost := (post go_inv).

(* the acronym conversion gives a text that lexes like the original *)
Lemma go_acr_arel name : gpost (fun r => arel name r) (go_acronyms_to_uppercase uc cfg name).
Proof.
  intros s y s' H Hs. unfold go_acronyms_to_uppercase, go_lift in H.
  destruct (go_convert_acronyms_to_uppercase uc (go_uppercase_acronyms cfg) name) as [r| |] eqn:E; try discriminate. injection H as <- <-.
  split; [exact (convert_arel uc Huc _ _ _ go_Hacr E)|exact Hs].
Qed.
Lemma go_acr_tok name : c10_tok_ok name = true -> gpost (fun r => c10_tok_ok r = true) (go_acronyms_to_uppercase uc cfg name).
Proof. intros H. eapply post_weaken; [|apply go_acr_arel]. intros r Hr. exact (tok_arel _ _ Hr H). Qed.

Lemma go_add_import_post name : c10_instr_ok name = true -> gpost (fun _ => True) (go_add_import name).
Proof.
  intros Hn s y s' H Hs. unfold go_add_import in H. apply mbind_ok in H as (st & s1 & Hg & H). unfold mget in Hg. injection Hg as <- <-.
  unfold mput in H. injection H as _ <-. split; [exact I|]. apply sset_insert_ok; assumption.
Qed.

Lemma go_texp_ok generics t : c10_rtype_ok t = true -> gpost (fun x => c10_go_ty_ok x = true) (go_texp cfg generics t).
Proof.
  induction t as [id | id ps IH | t IH | t n IH | t IH | k v IHk IHv | t IH | p] using rtype_ind';
    intros Hok; cbn [c10_rtype_ok] in Hok; cbn [go_texp].
  - apply post_ret. destruct (tmap_get (go_type_mappings cfg) id) eqn:E; cbn [c10_go_ty_ok].
    + exact (tmap_get_raw _ _ _ _ go_Hmap E).
    + rewrite (tok_raw _ _ (ident_tok _ Hok)). reflexivity.
  - apply andb_true_iff in Hok as [Hid Hps]. destruct (tmap_get (go_type_mappings cfg) id) eqn:E.
    + apply post_ret. exact (tmap_get_raw _ _ _ _ go_Hmap E).
    + eapply post_bind with (P := fun parts => forallb c10_go_ty_ok parts = true).
      * clear E. induction IH as [|a l Ha Hl IHl]; [apply post_ret; reflexivity|].
        cbn [forallb] in Hps. apply andb_true_iff in Hps as [Hpa Hpl].
        eapply post_bind; [exact (Ha Hpa)|]. intros y Py. eapply post_bind; [exact (IHl Hpl)|]. intros ys Pys.
        apply post_ret. cbn [forallb]. rewrite Py, Pys. reflexivity.
      * intros parts Pp. apply post_ret. cbn [c10_go_ty_ok]. rewrite (tok_raw _ _ (ident_tok _ Hid)), Pp. reflexivity.
  - destruct (tmap_get (go_type_mappings cfg) _) eqn:E; [apply post_ret; exact (tmap_get_raw _ _ _ _ go_Hmap E)|].
    eapply post_bind; [exact (IH Hok)|]. intros e Pe. apply post_ret. exact Pe.
  - destruct (tmap_get (go_type_mappings cfg) _) eqn:E; [apply post_ret; exact (tmap_get_raw _ _ _ _ go_Hmap E)|].
    eapply post_bind; [exact (IH Hok)|]. intros e Pe. apply post_ret. exact Pe.
  - destruct (tmap_get (go_type_mappings cfg) _) eqn:E; [apply post_ret; exact (tmap_get_raw _ _ _ _ go_Hmap E)|].
    eapply post_bind; [exact (IH Hok)|]. intros e Pe. apply post_ret. exact Pe.
  - apply andb_true_iff in Hok as [Hk Hv].
    destruct (tmap_get (go_type_mappings cfg) _) eqn:E; [apply post_ret; exact (tmap_get_raw _ _ _ _ go_Hmap E)|].
    eapply post_bind; [exact (IHk Hk)|]. intros ks Pk. eapply post_bind; [exact (IHv Hv)|]. intros vs Pv.
    apply post_ret. cbn [c10_go_ty_ok]. rewrite Pk, Pv. reflexivity.
  - destruct (tmap_get (go_type_mappings cfg) _) eqn:E; [apply post_ret; exact (tmap_get_raw _ _ _ _ go_Hmap E)|].
    eapply post_bind; [exact (IH Hok)|]. intros e Pe. apply post_ret.
    destruct (is_vec t && go_no_pointer_slice cfg); exact Pe.
  - destruct (tmap_get (go_type_mappings cfg) _) eqn:E; [apply post_ret; exact (tmap_get_raw _ _ _ _ go_Hmap E)|].
    destruct p; try (apply post_ret; reflexivity).
    eapply post_bind; [apply go_add_import_post; reflexivity|]. intros _ _. apply post_ret. reflexivity.
Qed.

(* acronyms_to_uppercase on the printed type: the converted text lexes like the printed type *)
Lemma go_acronyms_ty_post x : go_show_ok x = true -> gpost (fun y => go_show_ok y = true) (go_acronyms_ty uc cfg x).
Proof.
  intros Hx. unfold go_acronyms_ty. eapply post_bind; [apply go_acr_arel|]. intros text Hrel. apply post_ret.
  assert (Ht : c10_balanced c10_lex_go text = true) by (rewrite (balanced_arel _ _ _ Hrel); exact Hx).
  destruct (go_ty_acronyms uc cfg x) as [t'| |]; try exact Ht.
  destruct (str_eqb (go_show t') text) eqn:E; [|exact Ht]. apply str_eqb_eq in E. unfold go_show_ok. rewrite E. exact Ht.
Qed.

Lemma go_member_post generics f : c10_field_ok CGO f = true -> gpost (fun m => c10_go_member_ok m = true) (go_member_of uc cfg generics f).
Proof.
  intros Hf. pose proof Hf as Hf0. unfold c10_field_ok in Hf. rewrite !andb_true_iff in Hf. destruct Hf as [[[Hid Hrt] Hdocs] _].
  unfold c10_member_id_ok in Hid. apply andb_true_iff in Hid as [Horig Hren].
  unfold go_member_of. eapply post_bind with (P := fun ty => go_show_ok ty = true).
  - destruct (type_override f Go) as [o|] eqn:Eo.
    + apply post_ret. exact (type_override_raw CGO f o Hf0 Eo).
    + eapply post_weaken; [|exact (go_texp_ok generics (fty f) Hrt)]. intros a. apply go_ty_show_ok.
  - intros ty Pty. eapply post_bind; [exact (go_acronyms_ty_post ty Pty)|]. intros gty Pg.
    unfold go_format_field_name. eapply post_bind; [exact (go_acr_tok _ (to_pascal_tok _ (ident_tok _ Horig)))|].
    intros fname Pf. apply post_ret. unfold c10_go_member_ok. cbn [gm_docs gm_name gm_type gm_key].
    rewrite (docs_line_ok _ Hdocs), Pf, Pg. cbn [andb].
    destruct (renamed (fid f)) as [|c r] eqn:E; [discriminate|]. unfold c10_key_ok in Hren. exact (key_notick _ Hren).
Qed.

Lemma go_struct_post rs :
  c10_tok_ok (renamed (sid rs)) = true -> forallb c10_ident_ok (sgenerics rs) = true ->
  forallb (c10_field_ok CGO) (sfields rs) = true -> forallb c10_line_ok (scomments rs) = true ->
  gpost (fun d => c10_go_decl_ok d = true) (go_struct_decl_of uc cfg rs).
Proof.
  intros Hn Hg Hf Hd. unfold go_struct_decl_of.
  eapply post_bind; [exact (go_acr_tok _ Hn)|]. intros name Pn.
  eapply post_bind; [exact (post_mmapM go_inv _ _ _ (go_member_post (sgenerics rs)) _ (forallb_Forall _ _ Hf))|].
  intros ms Pms. apply post_ret. cbn [c10_go_decl_ok]. rewrite Hd, Pn, (generics_tok _ Hg), (Forall_forallb _ _ Pms). reflexivity.
Qed.

Lemma go_decl_post custom it : c10_item_ok CGO it = true -> gpost (fun ds => forallb c10_go_decl_ok ds = true) (go_decl_of uc cfg custom it).
Proof.
  intros Hit. destruct it as [rs | e | a | c]; cbn [go_decl_of].
  - cbn [c10_item_ok] in Hit. rewrite !andb_true_iff in Hit. destruct Hit as [[[[Hid Hg] Hf] Hdoc] _].
    unfold c10_type_id_ok in Hid. apply andb_true_iff in Hid as [_ Hren].
    eapply post_bind; [exact (go_struct_post rs (ident_tok _ Hren) Hg Hf (docs_line_ok _ Hdoc))|].
    intros d Pd. apply post_ret. cbn [forallb]. rewrite Pd. reflexivity.
  - cbn [c10_item_ok] in Hit. rewrite !andb_true_iff in Hit. destruct Hit as [[[[[Hid Hg] Hd] Hv] _] Htc].
    unfold c10_type_id_ok in Hid. apply andb_true_iff in Hid as [Horig Hren].
    unfold go_enum_decls_of.
    (* the helper structs *)
    eapply post_bind with (P := fun anon => forallb c10_go_decl_ok anon = true).
    { unfold go_anonymous_struct_decls.
      eapply post_bind with (P := Forall (fun ds => forallb c10_go_decl_ok ds = true)).
      - eapply (post_mmapM go_inv _ (fun v => c10_variant_ok CGO v = true)); [|exact (forallb_Forall _ _ Hv)].
        intros v Hv0. destruct v as [vsh | t vsh | fs vsh]; try (apply post_ret; reflexivity).
        unfold c10_variant_ok in Hv0. cbn [variant_shared] in Hv0. rewrite !andb_true_iff in Hv0. destruct Hv0 as [[Hvid _] Hfs].
        unfold c10_member_id_ok in Hvid. apply andb_true_iff in Hvid as [Hvo _].
        unfold go_make_anonymous_struct_name.
        eapply post_bind with (P := fun sn => c10_tok_ok sn = true).
        { apply go_acr_tok. rewrite !tok_ok_app, (ident_tok _ Horig), (ident_tok _ Hvo). reflexivity. }
        intros sn Psn. eapply post_bind.
        + apply go_struct_post; cbn [anon_struct sid sgenerics sfields scomments renamed].
          * exact Psn.
          * apply anon_struct_generics_ok, Hg.
          * exact Hfs.
          * cbn [forallb]. rewrite andb_true_r. apply docsafe_line.
            rewrite !forallb_app, (ident_docsafe _ (ident_ok_chars _ Hvo)), (ident_docsafe _ (ident_ok_chars _ Horig)). reflexivity.
        + intros d Pd. apply post_ret. cbn [forallb]. rewrite Pd. reflexivity.
      - intros dss Pdss. apply post_ret. induction Pdss; cbn [List.concat]; [reflexivity|]. rewrite forallb_app, H, IHPdss. reflexivity. }
    intros anon Panon. destruct e as [sh | tag_key content_key sh]; cbn [enum_shared] in *.
    + eapply post_bind; [exact (go_acr_tok _ (ident_tok _ Horig))|]. intros en Pen.
      eapply post_bind with (P := Forall (fun v : list str * str * str => (let '(vdocs, const, _) := v in forallb c10_line_ok vdocs && c10_tok_ok const) = true)).
      * eapply (post_mmapM go_inv _ (fun v => c10_variant_ok CGO v = true)); [|exact (forallb_Forall _ _ Hv)].
        intros v Hv0. unfold go_unit_variant_of. destruct v as [vsh | t vsh | fs vsh]; try apply post_mpanic.
        unfold c10_variant_ok in Hv0. cbn [variant_shared] in Hv0. rewrite !andb_true_iff in Hv0. destruct Hv0 as [[Hvid Hvd] _].
        unfold c10_member_id_ok in Hvid. apply andb_true_iff in Hvid as [Hvo _].
        eapply post_bind; [exact (go_acr_tok _ (ident_tok _ Horig))|]. intros en2 Pen2.
        eapply post_bind; [exact (go_acr_tok _ (ident_tok _ Hvo))|]. intros vn Pvn.
        apply post_ret. rewrite (docs_line_ok _ Hvd), tok_ok_app, Pen2, Pvn. reflexivity.
      * intros vs Pvs. apply post_ret. rewrite forallb_app, Panon. cbn [forallb c10_go_decl_ok].
        rewrite (docs_line_ok _ Hd), Pen, (Forall_forallb _ _ Pvs). reflexivity.
    + apply andb_true_iff in Htc as [Htag Hcon].
      eapply post_bind; [exact (go_acr_tok _ (ident_tok _ Horig))|]. intros struct_name Psn.
      eapply post_bind with (P := fun cf => c10_tok_ok cf = true).
      { intros s y s' H Hs. unfold go_lift in H. destruct (to_camel_case content_key) as [r| |] eqn:Ec; try discriminate.
        injection H as <- <-. split; [exact (to_camel_tok _ _ (key_tok _ Hcon) Ec)|exact Hs]. }
      intros content_field Pcf. unfold go_format_field_name.
      eapply post_bind; [exact (go_acr_tok _ (to_pascal_tok _ (key_tok _ Htag)))|]. intros tag_field Ptf.
      eapply post_bind with (P := fun sn => c10_tok_ok sn = true).
      { apply post_ret. destruct (original (eid sh)) as [|c0 r0] eqn:Eo; [reflexivity|].
        (* the name is identifier-shaped (dom_C10): its first character is ASCII, so char::to_lowercase is the ASCII one *)
        assert (Ha : c0 < 128).
        { unfold c10_ident_ok in Horig. apply andb_true_iff in Horig as [Hs _]. unfold c10_ident_start, is_aalpha, is_alower, is_aupper in Hs. unfold_chars. lia. }
        rewrite (ok_to_lower uc Huc c0 Ha).
        pose proof (ident_tok _ Horig) as Ht. unfold c10_tok_ok in *. cbn [forallb] in *. rewrite special_alower.
        apply andb_true_iff in Ht as [Ht _]. rewrite Ht. reflexivity. }
      intros short Pshort. eapply post_bind; [exact (go_acr_tok _ (key_tok _ Htag))|]. intros tag_acr Pta.
      eapply post_bind with (P := Forall (fun gv => c10_go_variant_ok gv = true)).
      * eapply (post_mmapM go_inv _ (fun v => c10_variant_ok CGO v = true)); [|exact (forallb_Forall _ _ Hv)].
        intros v Hv0. unfold go_variant_of. cbv zeta.
        unfold c10_variant_ok in Hv0. rewrite !andb_true_iff in Hv0. destruct Hv0 as [[Hvid Hvd] Hp].
        unfold c10_member_id_ok in Hvid. apply andb_true_iff in Hvid as [Hvo _].
        eapply post_bind; [exact (go_acr_tok _ (ident_tok _ Hvo))|]. intros vname Pvn.
        eapply post_bind with (P := fun vt => match vt with
                                               | Some (inl x) => go_show_ok x = true
                                               | Some (inr s) => c10_tok_ok s = true
                                               | None => True
                                               end).
        { destruct v as [vsh | t vsh | fs vsh]; cbn [variant_shared] in *.
          - apply post_ret. exact I.
          - eapply post_bind; [exact (go_texp_ok [] t Hp)|]. intros x Px. apply post_ret. apply go_ty_show_ok, Px.
          - unfold go_make_anonymous_struct_name.
            eapply post_bind with (P := fun sn => c10_tok_ok sn = true).
            { apply go_acr_tok. rewrite !tok_ok_app, (ident_tok _ Horig), Pvn. reflexivity. }
            intros sname Psname. apply post_ret. exact Psname. }
        intros vt Pvt. eapply post_bind; [exact (go_acr_tok _ (to_pascal_tok _ (key_tok _ Htag)))|]. intros tag_part Ptp.
        eapply post_bind with (P := fun c => match c with GCNone => True | GCType ty _ => go_show_ok ty = true | GCInner r => c10_tok_ok r = true end).
        { destruct vt as [[x|s]|].
          - eapply post_bind; [exact (go_acronyms_ty_post x Pvt)|]. intros fvt Pf. apply post_ret. exact Pf.
          - eapply post_bind; [exact (go_acr_tok _ Pvt)|]. intros fvt Pf. apply post_ret. exact Pf.
          - apply post_ret. exact I. }
        intros content Pc. apply post_ret. unfold c10_go_variant_ok. cbn [gv_docs gv_const gv_method gv_content].
        rewrite (docs_line_ok _ Hvd), Pvn, !tok_ok_app, Psn, Ptp, Pvn. cbn [andb]. destruct content; auto.
      * intros vs Pvs. apply post_ret. rewrite forallb_app, Panon. cbn [forallb c10_go_decl_ok]. rewrite andb_true_r.
        unfold c10_go_tagged_ok. cbn [gt_docs gt_name gt_key_type gt_tag_key gt_content_key gt_tag_field gt_content_field gt_short gt_variants].
        rewrite (docs_line_ok _ Hd), Psn, !tok_ok_app, Psn, (to_pascal_tok _ Pta), Ptf, Pcf, Pshort, (Forall_forallb _ _ Pvs). cbn [andb].
        destruct tag_key as [|t0 tr]; [discriminate|]. destruct content_key as [|c0 cr]; [discriminate|].
        unfold c10_key_ok in Htag, Hcon. rewrite (key_notick _ Htag), (key_notick _ Hcon). reflexivity.
  - cbn [c10_item_ok] in Hit. rewrite !andb_true_iff in Hit. destruct Hit as [[[[Hid Hg] Ht] Hd] _].
    unfold c10_type_id_ok in Hid. apply andb_true_iff in Hid as [Horig _].
    eapply post_bind; [exact (go_acr_tok _ (ident_tok _ Horig))|]. intros name Pn.
    eapply post_bind; [exact (go_texp_ok [] (atype a) Ht)|]. intros ty Pty. apply post_ret.
    cbn [forallb c10_go_decl_ok]. rewrite (docs_line_ok _ Hd), Pn, (go_ty_show_ok _ Pty). reflexivity.
  - cbn [c10_item_ok] in Hit. rewrite !andb_true_iff in Hit. destruct Hit as [Hid Ht].
    unfold c10_type_id_ok in Hid. apply andb_true_iff in Hid as [_ Hren].
    eapply post_bind; [exact (go_texp_ok [] (ctype c) Ht)|]. intros ty Pty. apply post_ret.
    cbn [forallb c10_go_decl_ok]. rewrite (to_pascal_tok _ (ident_tok _ Hren)), (go_ty_show_ok _ Pty), dec_of_Z_tok. reflexivity.
Qed.

Lemma go_imports_bal imports : go_inv imports -> bal c10_lex_go (go_write_all_imports imports).
Proof.
  unfold go_inv. intros H. unfold go_write_all_imports. destruct imports as [|i0 [|i1 r]]; [apply tr_nil| |].
  - cbn [forallb] in H. rewrite andb_true_r in H. pose proof (instr_stay c10_lex_go _ H) as Hs. intros st. walk. reflexivity.
  - assert (Hf : bal c10_lex_go (flat_map (fun import => [ch_tab] ++ lit """" ++ import ++ lit """" ++ go_nl) (i0 :: i1 :: r))).
    { apply tr_flat_map. apply Forall_forall. intros i Hi. rewrite forallb_forall in H.
      pose proof (instr_stay c10_lex_go _ (H i Hi)) as Hs. intros st. walk. reflexivity. }
    intros st. set (F := flat_map _ _) in *. walk. reflexivity.
Qed.

Theorem go_generate_balanced pd text : dom_C10 CGO pd = true -> go_generate uc cfg pd = Ok text -> c10_balanced c10_lex_go text = true.
Proof.
  intros Hdom H. unfold go_generate in H. apply bind_ok in H as (items & Et & H).
  assert (Hitems : Forall (fun it => c10_item_ok CGO it = true) items).
  { apply forallb_Forall in Hdom. fold (items_of pd) in Hdom.
    eapply Permutation_Forall; [apply Permutation_sym, (topsort_ok_perm _ _ Et)|exact Hdom]. }
  pose proof Hcfg as Hc. unfold c10_go_cfg_ok in Hc. rewrite !andb_true_iff in Hc. destruct Hc as [[[_ Hver] Hpack] _].
  set (custom := go_types_mapping_to_struct items) in *.
  match type of H with match ?run _ with _ => _ end = _ => destruct (run []) as [[out sfin]| |] eqn:Er; try discriminate end.
  injection H as <-.
  apply mbind_ok in Er as (header & s1 & Hh & Er). apply mbind_ok in Er as (body & s2 & Hb & Er).
  apply mbind_ok in Er as (imports & s3 & Hi & Er). unfold mget in Hi. injection Hi as <- <-. unfold ret in Er. injection Er as <- _.
  (* header *)
  assert (Ph : bal c10_lex_go header /\ go_inv s1).
  { unfold go_begin_file in Hh. apply mbind_ok in Hh as (u & s0 & Ha & Hh). unfold ret in Hh. injection Hh as <- <-.
    destruct (go_add_import_post (lit "encoding/json") eq_refl _ _ _ Ha eq_refl) as [_ Hs0]. split; [|exact Hs0].
    pose proof (tok_bal c10_lex_go _ (dotted_tok _ Hpack)) as Hp.
    destruct (go_no_version_header cfg).
    - intros st. walk. reflexivity.
    - pose proof (line_stay c10_lex_go _ (dotted_line _ Hver)) as Hv. intros st. walk. reflexivity. }
  destruct Ph as [Bh Hs1].
  (* body *)
  assert (Pb : bal c10_lex_go body /\ go_inv s2).
  { unfold mconcat in Hb. apply mbind_ok in Hb as (parts & s4 & Hp & Hb). unfold ret in Hb. injection Hb as <- <-.
    assert (Hstep : forall it, c10_item_ok CGO it = true -> gpost (fun t => bal c10_lex_go t) (go_write_item uc cfg custom it)).
    { intros it Hit. unfold go_write_item. eapply post_bind; [exact (go_decl_post custom it Hit)|]. intros ds Pds. apply post_ret.
      apply tr_concat_map. apply Forall_forall. intros d Hd. apply go_render_decl_bal. rewrite forallb_forall in Pds. exact (Pds d Hd). }
    destruct (post_mmapM go_inv _ _ _ Hstep items Hitems _ _ _ Hp Hs1) as [Pparts Hs4]. split; [apply tr_concat, Pparts|exact Hs4]. }
  destruct Pb as [Bb Hs2].
  apply bal_balanced. eapply tr_app; [exact Bh|]. eapply tr_app; [exact (go_imports_bal _ Hs2)|exact Bb].
Qed.
End GODecide.
