(* C10 for Python, the lexical half at the LAYOUT layer: docstrings (between triple double quotes) hold doc lines that contain no
   three double quotes in a row and no backslash; `#` comments hold a line; names are neutral tokens; string
   values are printable; verbatim types are balanced. *)
From Coq Require Import List Bool Lia ZifyBool ZifyN NArith Permutation.
From TS Require Import Model.Str Model.Outcome Model.Unicode Model.Types Model.Parse Model.Rename Model.TopsortAlgo Model.Topsort
                       Model.Lang.Common Model.Lang.Decl Model.Lang.Python.
From TS Require Import Spec.C10Spec Proofs.BackCommon Proofs.C10Lex Proofs.C10_TSFile Proofs.C10Common Proofs.C15_Replace.
Import ListNotations.
Local Open Scope N_scope.
Local Notation length := List.length (only parsing).

Definition nonnil (s : str) : bool := match s with [] => false | _ => true end.
Lemma nonnil_ne s : nonnil s = true -> s <> [].
Proof. destruct s; [discriminate|discriminate]. Qed.

(* ------------------------------------------------------------------ triple-quoted docstrings *)
Definition q3 : str := [ch_dq; ch_dq; ch_dq].
(* a docstring line: no backslash, no three double quotes in a row (line ends are harmless inside a docstring) *)
Definition pydoc_ok (c : str) : bool := forallb (fun x => negb (x =? ch_bs)) c && negb (contains_sub q3 c).

Lemma pydoc_cons a r : pydoc_ok (a :: r) = true ->
  a <> ch_bs /\ pydoc_ok r = true /\ (a = ch_dq -> starts_with [ch_dq; ch_dq] r = false).
Proof.
  unfold pydoc_ok. cbn [forallb]. change (contains_sub q3 (a :: r)) with (starts_with q3 (a :: r) || contains_sub q3 r).
  rewrite !andb_true_iff, !negb_true_iff, orb_false_iff. intros [[Ha Hr] [H1 H2]]. repeat split; try assumption.
  - unfold ch_bs in *. lia.
  - intros ->. unfold q3 in H1. cbn [starts_with] in H1. rewrite N.eqb_refl in H1. exact H1.
Qed.

Definition tri_any (s : c10_lstate) (st : list char) : Prop :=
  s = (C10LTri ch_dq, st) \/ s = (C10LTri1 ch_dq, st) \/ s = (C10LTri2 ch_dq, st).

Lemma tri_run cfg c : forall st, pydoc_ok c = true ->
  tri_any (run cfg (C10LTri ch_dq, st) c) st /\
  (starts_with [ch_dq; ch_dq] c = false -> tri_any (run cfg (C10LTri1 ch_dq, st) c) st) /\
  (starts_with [ch_dq] c = false -> tri_any (run cfg (C10LTri2 ch_dq, st) c) st).
Proof.
  induction c as [|a r IH]; intros st H.
  - unfold tri_any. cbn. repeat split; auto.
  - apply pydoc_cons in H as (Ha & Hr & Hq). destruct (IH st Hr) as (I1 & I2 & I3). rewrite !run_cons. cbn [c10_lex_step].
    destruct (a =? ch_dq) eqn:E.
    + apply N.eqb_eq in E. subst a. specialize (Hq eq_refl). repeat split.
      * apply I2, Hq.
      * intros Hs. cbn [starts_with] in Hs. rewrite N.eqb_refl in Hs. cbn [andb] in Hs. apply I3. exact Hs.
      * intros Hs. cbn [starts_with] in Hs. rewrite N.eqb_refl in Hs. discriminate.
    + destruct (a =? ch_bs) eqn:E2; [apply N.eqb_eq in E2; contradiction|]. repeat split; intros; exact I1.
Qed.

(* a docstring line followed by a character other than a double quote and a backslash leaves the docstring open *)
Lemma tri_doc cfg c x : pydoc_ok c = true -> x <> ch_dq -> x <> ch_bs -> tr cfg (C10LTri ch_dq) (c ++ [x]) (C10LTri ch_dq).
Proof.
  intros Hc Hx1 Hx2 st. rewrite run_app. destruct (proj1 (tri_run cfg c st Hc)) as [E | [E | E]]; rewrite E;
    rewrite run_cons, run_nil; cbn [c10_lex_step];
    (destruct (x =? ch_dq) eqn:E1; [apply N.eqb_eq in E1; contradiction|]);
    (destruct (x =? ch_bs) eqn:E2; [apply N.eqb_eq in E2; contradiction|]); reflexivity.
Qed.

Lemma doc_pydoc c : c10_doc_ok c = true -> pydoc_ok c = true.
Proof.
  unfold c10_doc_ok, pydoc_ok, q3. rewrite !andb_true_iff. intros [[[H _] _] H3]. split; [|exact H3].
  revert H. apply forallb_impl. intros x. lia.
Qed.
Lemma docsafe_pydoc c : forallb docsafe_char c = true -> pydoc_ok c = true.
Proof.
  intros H. unfold pydoc_ok. apply andb_true_iff. split.
  - revert H. apply forallb_impl. intros x. unfold docsafe_char. lia.
  - apply negb_true_iff. induction c as [|a r IH]; [reflexivity|]. cbn [forallb] in H. apply andb_true_iff in H as [Ha Hr].
    unfold q3. cbn [contains_sub starts_with]. fold q3. rewrite (IH Hr), orb_false_r.
    destruct (ch_dq =? a) eqn:E; [|reflexivity]. unfold docsafe_char in Ha. lia.
Qed.

Lemma py_indent_bal n : bal c10_lex_py (py_indent n).
Proof. apply tr_repeat_str. intros st. reflexivity. Qed.
Lemma py_indent_tri n : tr c10_lex_py (C10LTri ch_dq) (py_indent n) (C10LTri ch_dq).
Proof. apply tr_repeat_str. intros st. reflexivity. Qed.

Lemma py_doc_lines n l : l <> [] -> forallb pydoc_ok l = true ->
  tr c10_lex_py (C10LTri ch_dq) (join py_nl (map (fun v => py_indent n ++ v) l) ++ py_nl) (C10LTri ch_dq).
Proof.
  induction l as [|c r IH]; [congruence|]. intros _ H. cbn [forallb] in H. apply andb_true_iff in H as [Hc Hr].
  pose proof (tri_doc c10_lex_py c ch_nl Hc ltac:(discriminate) ltac:(discriminate)) as Hl.
  destruct r as [|c2 r].
  - cbn [map join]. rewrite <- app_assoc. eapply tr_app; [apply py_indent_tri|exact Hl].
  - change (join py_nl (map (fun v => py_indent n ++ v) (c :: c2 :: r)))
      with ((py_indent n ++ c) ++ py_nl ++ join py_nl (map (fun v => py_indent n ++ v) (c2 :: r))).
    rewrite <- !app_assoc. eapply tr_app; [apply py_indent_tri|]. rewrite (app_assoc c py_nl).
    eapply tr_app; [exact Hl|]. apply IH; [discriminate|exact Hr].
Qed.

(* a docstring line without three quotes in a row: python.rs write_comments escapes nothing in it *)
Lemma py_escape_doc_ok docs : forallb pydoc_ok docs = true -> map py_escape_docstring docs = docs.
Proof.
  intros H. apply map_id_on. intros d Hd. apply py_escape_docstring_id.
  rewrite forallb_forall in H. specialize (H d Hd). unfold pydoc_ok in H. apply andb_true_iff in H as [_ H].
  now apply negb_true_iff in H.
Qed.
Lemma py_comments_bal b docs n : forallb pydoc_ok docs = true -> forallb c10_line_ok docs = true -> bal c10_lex_py (py_write_comments b docs n).
Proof.
  intros Hd Hl. unfold py_write_comments. rewrite (py_escape_doc_ok docs Hd). destruct docs as [|c r]; [apply tr_nil|]. cbv zeta.
  pose proof (py_indent_bal n) as Hi. pose proof (py_indent_tri n) as Hit. destruct b.
  - pose proof (py_doc_lines n (c :: r) ltac:(discriminate) Hd) as Hj.
    intros st. set (J := join _ _) in *. rewrite <- !app_assoc. rewrite (app_assoc J py_nl). set (JN := J ++ py_nl) in *. walk. reflexivity.
  - assert (Hj : tr c10_lex_py C10LCode (join py_nl (map (fun v => py_indent n ++ lit "# " ++ v) (c :: r))) C10LLine).
    { clear Hd. revert Hl. generalize c. induction r as [|c2 r IH]; intros c0 Hl; cbn [forallb] in Hl.
      - rewrite andb_true_r in Hl. pose proof (line_stay c10_lex_py _ Hl) as Hs. cbn [map join]. intros st. walk. reflexivity.
      - apply andb_true_iff in Hl as [Hc0 Hr]. pose proof (line_stay c10_lex_py _ Hc0) as Hs.
        change (join py_nl (map (fun v => py_indent n ++ lit "# " ++ v) (c0 :: c2 :: r)))
          with ((py_indent n ++ lit "# " ++ c0) ++ py_nl ++ join py_nl (map (fun v => py_indent n ++ lit "# " ++ v) (c2 :: r))).
        specialize (IH c2 Hr). intros st. set (J := join _ _) in *. walk. reflexivity. }
    intros st. set (J := join _ _) in *. walk. reflexivity.
Qed.

(* ------------------------------------------------------------------ types, names, values *)
Lemma py_show_bal x : c10_texp_ok c10_lex_py x = true -> bal c10_lex_py (py_show x).
Proof.
  induction x as [n args IH | e IH | es IH | k v IHk IHv | e IH | t] using texp_ind'; intros H; cbn [c10_texp_ok] in H.
  - apply andb_true_iff in H as [Hn Ha]. pose proof (tok_bal c10_lex_py n Hn) as Hnb.
    destruct args as [|a l]; [exact Hnb|].
    change (py_show (XName n (a :: l))) with (n ++ lit "[" ++ join (lit ", ") (map py_show (a :: l)) ++ lit "]").
    assert (Hj : bal c10_lex_py (join (lit ", ") (map py_show (a :: l)))).
    { apply tr_join_map; [intros st; reflexivity|]. exact (Forall_forallb_imp _ _ _ IH Ha). }
    intros st. set (J := join _ _) in *. walk. reflexivity.
  - change (py_show (XSeq e)) with (lit "List[" ++ py_show e ++ lit "]"). specialize (IH H). intros st. walk. reflexivity.
  - change (py_show (XFixed es)) with (lit "Tuple[" ++ join (lit ", ") (map py_show es) ++ lit "]").
    assert (Hj : bal c10_lex_py (join (lit ", ") (map py_show es))).
    { apply tr_join_map; [intros st; reflexivity|]. exact (Forall_forallb_imp _ _ _ IH H). }
    intros st. set (J := join _ _) in *. walk. reflexivity.
  - apply andb_true_iff in H as [Hk Hv]. specialize (IHk Hk). specialize (IHv Hv).
    change (py_show (XMap k v)) with (lit "Dict[" ++ py_show k ++ lit ", " ++ py_show v ++ lit "]").
    intros st. walk. reflexivity.
  - change (py_show (XOpt e)) with (lit "Optional[" ++ py_show e ++ lit "]"). specialize (IH H). intros st. walk. reflexivity.
  - exact (balanced_bal _ t H).
Qed.

Lemma py_generics_list_bal gs : forallb c10_tok_ok gs = true -> bal c10_lex_py (py_generics_list gs).
Proof.
  intros H. unfold py_generics_list. pose proof (tok_bal c10_lex_py _ (tok_ok_join (lit ", ") gs eq_refl H)) as Hj.
  intros st. set (J := join _ _) in *. walk. reflexivity.
Qed.

(* a printable, non-empty value between double quotes *)
Definition strval_ok (s : str) : bool := nonnil s && c10_instr_ok s.
Lemma strval_q1 s : strval_ok s = true -> tr c10_lex_py (C10LQ1 ch_dq) s (C10LStr ch_dq).
Proof. unfold strval_ok. rewrite andb_true_iff. intros [H1 H2]. exact (instr_q1 c10_lex_py s (nonnil_ne _ H1) H2). Qed.

Lemma replace_dq_id s : c10_instr_ok s = true -> replace_sub [ch_dq] [ch_bs; ch_dq] s = s.
Proof.
  intros H. unfold replace_sub. generalize (S (length s)). intros fuel. revert s H.
  induction fuel as [|f IH]; intros s H; [reflexivity|]. cbn [replace_sub_fuel]. destruct s as [|c r]; [reflexivity|].
  unfold c10_instr_ok in H. cbn [forallb] in H. apply andb_true_iff in H as [Hc Hr].
  cbn [starts_with]. destruct (ch_dq =? c) eqn:E; [lia|]. cbn [andb]. rewrite (IH r Hr). reflexivity.
Qed.

(* ------------------------------------------------------------------ well-formed declarations *)
Definition docs_ok (docs : list str) : bool := forallb pydoc_ok docs && forallb c10_line_ok docs.
Definition c10_py_member_ok (m : py_member) : bool :=
  docs_ok (pym_docs m) && c10_tok_ok (pym_name m) && match pym_alias m with Some k => strval_ok k | None => true end &&
  c10_texp_ok c10_lex_py (pym_type m) && match pym_annotated m with Some (de, ser) => c10_tok_ok de && c10_tok_ok ser | None => true end.
Definition c10_py_variant_ok (v : py_variant) : bool :=
  docs_ok (pyv_docs v) && c10_tok_ok (pyv_class v) && c10_tok_ok (pyv_types v) && c10_tok_ok (pyv_type_key v) &&
  match pyv_content v with PYCNone => true | PYCType ty => c10_texp_ok c10_lex_py ty | PYCInner inner => c10_tok_ok inner end.
Definition c10_py_decl_ok (d : py_decl) : bool :=
  match d with
  | PYAlias docs name gs ty => docs_ok docs && c10_tok_ok name && forallb c10_tok_ok gs && c10_texp_ok c10_lex_py ty
  | PYConst name ty value => c10_tok_ok name && c10_texp_ok c10_lex_py ty && c10_tok_ok value
  | PYClass docs name gs _ ms => docs_ok docs && c10_tok_ok name && forallb c10_tok_ok gs && forallb c10_py_member_ok ms
  | PYUnitEnum docs name vs =>
    docs_ok docs && c10_tok_ok name &&
    forallb (fun v : list str * str * str => let '(vdocs, case, wire) := v in docs_ok vdocs && c10_tok_ok case && strval_ok wire) vs
  | PYAlgebraic docs name types_name entries tag content vs =>
    docs_ok docs && c10_tok_ok name && c10_tok_ok types_name &&
    forallb (fun kw : str * str => c10_tok_ok (fst kw) && strval_ok (snd kw)) entries &&
    c10_tok_ok tag && c10_tok_ok content && forallb c10_py_variant_ok vs
  end.

Lemma docs_bal b docs n : docs_ok docs = true -> bal c10_lex_py (py_write_comments b docs n).
Proof. unfold docs_ok. rewrite andb_true_iff. intros [H1 H2]. apply py_comments_bal; assumption. Qed.

Lemma py_render_member_bal m : c10_py_member_ok m = true -> bal c10_lex_py (py_render_member m).
Proof.
  unfold c10_py_member_ok. rewrite !andb_true_iff. intros [[[[Hd Hn] Ha] Ht] Hann].
  pose proof (docs_bal true _ 1 Hd) as H1. pose proof (tok_bal c10_lex_py _ Hn) as H2. pose proof (py_show_bal _ Ht) as H3.
  unfold py_render_member. cbv zeta.
  set (FT := match pym_annotated m with
             | Some (de, ser) => lit "Annotated[" ++ py_show (pym_type m) ++ lit ", BeforeValidator(" ++ de ++
                                 lit "), PlainSerializer(" ++ ser ++ lit ")]"
             | None => py_show (pym_type m)
             end).
  assert (Hft : bal c10_lex_py FT).
  { subst FT. destruct (pym_annotated m) as [[de ser]|]; [|exact H3]. apply andb_true_iff in Hann as [Hde Hser].
    pose proof (tok_bal c10_lex_py _ Hde) as G1. pose proof (tok_bal c10_lex_py _ Hser) as G2. intros st. walk. reflexivity. }
  clearbody FT.
  destruct (pym_alias m) as [k|]; destruct (pym_default_none m); cbn [app];
    try pose proof (strval_q1 _ Ha) as Hk; intros st; cbn [join]; walk; reflexivity.
Qed.

Lemma py_render_variant_bal tag content v : c10_tok_ok tag = true -> c10_tok_ok content = true -> c10_py_variant_ok v = true ->
  bal c10_lex_py (py_render_variant tag content v).
Proof.
  intros Htag Hcon. unfold c10_py_variant_ok. rewrite !andb_true_iff. intros [[[[Hd Hc] Hty] Hk] Hp].
  pose proof (docs_bal true _ 1 Hd) as H1. pose proof (tok_bal c10_lex_py _ Hc) as H2. pose proof (tok_bal c10_lex_py _ Hty) as H3.
  pose proof (tok_bal c10_lex_py _ Hk) as H4. pose proof (tok_bal c10_lex_py _ Htag) as H5. pose proof (tok_bal c10_lex_py _ Hcon) as H6.
  unfold py_render_variant. cbv zeta. destruct (pyv_content v) as [|ty|inner].
  - intros st. walk. reflexivity.
  - pose proof (py_show_bal _ Hp) as H7. intros st. walk. reflexivity.
  - pose proof (tok_bal c10_lex_py _ Hp) as H7. intros st. walk. reflexivity.
Qed.

Theorem py_render_decl_bal d : c10_py_decl_ok d = true -> bal c10_lex_py (py_render_decl d).
Proof.
  destruct d as [docs name gs ty | name ty value | docs name gs config ms | docs name vs | docs name types_name entries tag content vs];
    cbn [c10_py_decl_ok py_render_decl]; rewrite ?andb_true_iff; intros H.
  - destruct H as [[[Hd Hn] Hg] Ht].
    pose proof (docs_bal true _ 0 Hd) as H1. pose proof (tok_bal c10_lex_py _ Hn) as H2. pose proof (py_show_bal _ Ht) as H4.
    destruct gs as [|g r].
    + intros st. walk. reflexivity.
    + pose proof (py_generics_list_bal _ Hg) as H3. intros st. walk. reflexivity.
  - destruct H as [[Hn Ht] Hv].
    pose proof (tok_bal c10_lex_py _ Hn) as H2. pose proof (py_show_bal _ Ht) as H4. pose proof (tok_bal c10_lex_py _ Hv) as H5.
    intros st. walk. reflexivity.
  - destruct H as [[[Hd Hn] Hg] Hm].
    pose proof (docs_bal true _ 1 Hd) as H1. pose proof (tok_bal c10_lex_py _ Hn) as H2.
    assert (H4 : bal c10_lex_py (List.concat (map py_render_member ms))).
    { apply tr_concat_map. apply Forall_forall. intros m Hin. apply py_render_member_bal. rewrite forallb_forall in Hm. exact (Hm m Hin). }
    destruct gs as [|g r].
    + intros st. set (MS := List.concat _) in *. destruct config, ms; walk; reflexivity.
    + pose proof (py_generics_list_bal _ Hg) as H3. intros st. set (MS := List.concat _) in *. set (GL := py_generics_list _) in *.
      destruct config, ms; walk; reflexivity.
  - destruct H as [[Hd Hn] Hv].
    pose proof (docs_bal true _ 1 Hd) as H1. pose proof (tok_bal c10_lex_py _ Hn) as H2.
    destruct vs as [|v0 vr]; [intros st; walk; reflexivity|].
    assert (H4 : bal c10_lex_py (List.concat (map (fun v : list str * str * str => let '(vdocs, case, wire) := v in
                   lit "    " ++ case ++ lit " = """ ++ replace_sub [ch_dq] [ch_bs; ch_dq] wire ++ lit """" ++ py_nl ++
                   py_write_comments true vdocs 1) (v0 :: vr)))).
    { apply tr_concat_map. apply Forall_forall. intros [[vdocs case] wire] Hin.
      rewrite forallb_forall in Hv. specialize (Hv _ Hin). cbn beta iota in Hv. rewrite !andb_true_iff in Hv. destruct Hv as [[Hvd Hc] Hw].
      pose proof (docs_bal true _ 1 Hvd) as G1. pose proof (tok_bal c10_lex_py _ Hc) as G2.
      pose proof Hw as Hw'. unfold strval_ok in Hw'. apply andb_true_iff in Hw' as [_ Hi]. rewrite (replace_dq_id _ Hi).
      pose proof (strval_q1 _ Hw) as G3. intros st. walk. reflexivity. }
    intros st. set (VS := List.concat _) in *. walk. reflexivity.
  - destruct H as [[[[[[Hd Hn] Htn] He] Htag] Hcon] Hv].
    pose proof (docs_bal false _ 0 Hd) as H1. pose proof (tok_bal c10_lex_py _ Hn) as H2. pose proof (tok_bal c10_lex_py _ Htn) as H3.
    assert (H4 : bal c10_lex_py (join py_nl (map (fun kw : str * str => lit "    " ++ fst kw ++ lit " = """ ++ snd kw ++ lit """") entries))).
    { apply tr_join_map; [intros st; reflexivity|]. apply Forall_forall. intros kw Hin. rewrite forallb_forall in He. specialize (He kw Hin).
      apply andb_true_iff in He as [Hk Hw]. pose proof (tok_bal c10_lex_py _ Hk) as G1. pose proof (strval_q1 _ Hw) as G2.
      intros st. walk. reflexivity. }
    assert (H5 : bal c10_lex_py (List.concat (map (py_render_variant tag content) vs))).
    { apply tr_concat_map. apply Forall_forall. intros v Hin. apply py_render_variant_bal; auto. rewrite forallb_forall in Hv. exact (Hv v Hin). }
    assert (H6 : bal c10_lex_py (match map pyv_class vs with
                                 | [m] => name ++ lit " = " ++ m ++ py_nl
                                 | union_members => name ++ lit " = Union[" ++ join (lit ", ") union_members ++ lit "]" ++ py_nl
                                 end)).
    { assert (Hcl : forallb c10_tok_ok (map pyv_class vs) = true).
      { rewrite forallb_forall in *. intros x Hx. apply in_map_iff in Hx as (v & <- & Hin). specialize (Hv v Hin).
        unfold c10_py_variant_ok in Hv. rewrite !andb_true_iff in Hv. tauto. }
      pose proof (tok_bal c10_lex_py _ (tok_ok_join (lit ", ") _ eq_refl Hcl)) as Hj.
      destruct (map pyv_class vs) as [|m0 [|m1 mr]] eqn:Em.
      - intros st. walk. reflexivity.
      - cbn [forallb] in Hcl. rewrite andb_true_r in Hcl. pose proof (tok_bal c10_lex_py _ Hcl) as G. intros st. walk. reflexivity.
      - intros st. set (J := join _ _) in *. walk. reflexivity. }
    intros st. set (E := join py_nl _) in *. set (VS := List.concat _) in *. set (U := match map pyv_class vs with [] => _ | _ => _ end) in *.
    walk. reflexivity.
Qed.
