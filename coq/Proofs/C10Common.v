(* C10: lemmas shared by the Kotlin / Scala / Swift / Go / Python proofs: the outcome monad, tokens made
   by the ASCII renamers, version headers, line comments. *)
From Coq Require Import List Bool Lia ZifyBool ZifyN NArith Permutation.
From TS Require Import Model.Str Model.Outcome Model.Unicode Model.Types Model.Parse Model.Rename Model.TopsortAlgo Model.Topsort
                       Model.Lang.Common Model.Lang.Decl.
From TS Require Import Spec.C10Spec Proofs.BackCommon Proofs.C10Lex Proofs.C10_TSFile.
From TS Require Proofs.C11.
Import ListNotations.
Local Open Scope N_scope.
Local Notation length := List.length (only parsing).

Lemma bind_ok {A B} (m : outcome A) (f : A -> outcome B) r : bind m f = Ok r -> exists a, m = Ok a /\ f a = Ok r.
Proof. destruct m; cbn [bind]; try discriminate. eauto. Qed.

Lemma mapM_Forall_in {A B} (f : A -> outcome B) (Q : A -> Prop) (P : B -> Prop) l r :
  (forall x y, Q x -> f x = Ok y -> P y) -> Forall Q l -> mapM f l = Ok r -> Forall P r.
Proof.
  intros HP HQ. apply Proofs.C11.mapM_ok_Forall. intros x y Hin. apply HP. rewrite Forall_forall in HQ. auto.
Qed.

(* ------------------------------------------------------------------ tokens *)
Lemma tok_ok_join sep l : c10_tok_ok sep = true -> forallb c10_tok_ok l = true -> c10_tok_ok (join sep l) = true.
Proof.
  intros Hs. induction l as [|x r IH]; [reflexivity|]. cbn [forallb]. rewrite andb_true_iff. intros [Hx Hr].
  destruct r as [|y r']; [exact Hx|]. change (join sep (x :: y :: r')) with (x ++ sep ++ join sep (y :: r')).
  rewrite !tok_ok_app, Hx, Hs, (IH Hr). reflexivity.
Qed.
Lemma generics_suffix_tok gs : forallb c10_tok_ok gs = true -> c10_tok_ok (generics_suffix gs) = true.
Proof.
  intros H. destruct gs as [|g r]; [reflexivity|]. unfold generics_suffix. rewrite !tok_ok_app.
  rewrite (tok_ok_join (lit ", ") (g :: r) eq_refl H). reflexivity.
Qed.

Lemma replace_dash_tok s : c10_tok_ok s = true -> c10_tok_ok (replace_char ch_dash ch_us s) = true.
Proof.
  unfold c10_tok_ok, replace_char. induction s as [|c r IH]; [reflexivity|]. cbn [map forallb]. rewrite !andb_true_iff. intros [Hc Hr].
  split; [|exact (IH Hr)]. destruct (c =? ch_dash); [reflexivity|exact Hc].
Qed.

Lemma pascal_go_ident tolow cap s : forallb c10_ident_char s = true -> forallb c10_ident_char (pascal_go tolow cap s) = true.
Proof.
  revert cap. induction s as [|c r IH]; intros cap H; [reflexivity|]. cbn [forallb] in H. apply andb_true_iff in H as [Hc Hr].
  cbn [pascal_go]. destruct (c =? ch_us); [exact (IH true Hr)|].
  destruct cap; cbn [forallb]; [rewrite (aupper_ident c Hc), (IH false Hr); reflexivity|].
  destruct tolow; [rewrite (alower_ident c Hc)|rewrite Hc]; rewrite (IH false Hr); reflexivity.
Qed.
Lemma to_pascal_ident s : forallb c10_ident_char s = true -> forallb c10_ident_char (to_pascal_case s) = true.
Proof. apply pascal_go_ident. Qed.

(* ------------------------------------------------------------------ version headers, line comments *)
(* a text without `*` and `/` leaves any block comment as it is (version strings) *)
Definition nostarslash (s : str) : bool := forallb (fun c => negb ((c =? c10_c_star) || (c =? c10_c_slash))) s.
Lemma nostarslash_stay cfg d s : nostarslash s = true -> tr cfg (C10LBlock d) s (C10LBlock d).
Proof.
  unfold nostarslash. intros H st. induction s as [|c r IH]; [reflexivity|].
  cbn [forallb] in H. apply andb_true_iff in H as [Hc Hr]. rewrite run_cons.
  replace (c10_lex_step cfg (C10LBlock d, st) c) with (C10LBlock d, st); [exact (IH Hr)|].
  cbn [c10_lex_step]. destruct (c =? c10_c_star) eqn:E1; [lia|]. destruct (c =? c10_c_slash) eqn:E2; [lia|]. reflexivity.
Qed.
Lemma dotted_nostarslash s : c10_dotted_ok s = true -> nostarslash s = true.
Proof.
  unfold c10_dotted_ok, nostarslash. apply forallb_impl. intros c.
  unfold c10_dotted_char, c10_key_char, is_aalpha, is_alower, is_aupper, is_adigit, ch_us, ch_dash, c10_c_star, c10_c_slash. lia.
Qed.
Lemma dotted_line s : c10_dotted_ok s = true -> c10_line_ok s = true.
Proof.
  unfold c10_dotted_ok, c10_line_ok. apply forallb_impl. intros c.
  unfold c10_dotted_char, c10_key_char, is_aalpha, is_alower, is_aupper, is_adigit, ch_us, ch_dash, ch_nl, ch_cr. lia.
Qed.

Lemma docs_lines docs : forallb c10_doc_ok docs = true -> Forall (fun c => forall cfg, tr cfg C10LLine c C10LLine) docs.
Proof.
  intros H. apply Forall_forall. intros c Hc cfg. apply line_stay, doc_line_ok. rewrite forallb_forall in H. exact (H c Hc).
Qed.

Lemma key_nonempty k : c10_key_ok k = true -> k <> [].
Proof. destruct k; [discriminate|discriminate]. Qed.
Lemma ident_nonempty k : c10_ident_ok k = true -> k <> [].
Proof. destruct k; [discriminate|discriminate]. Qed.

Lemma tok_lit_app a b : c10_tok_ok a = true -> c10_tok_ok b = true -> c10_tok_ok (a ++ b) = true.
Proof. intros Ha Hb. rewrite tok_ok_app, Ha, Hb. reflexivity. Qed.

Lemma docs_line_ok docs : forallb c10_doc_ok docs = true -> forallb c10_line_ok docs = true.
Proof. apply forallb_impl. apply doc_line_ok. Qed.

(* ------------------------------------------------------------------ the helper struct of a struct variant *)
Lemma anon_struct_generics_ok gens fs : forallb c10_ident_ok gens = true -> forallb c10_ident_ok (anon_struct_generics gens fs) = true.
Proof.
  intros Hg. unfold anon_struct_generics.
  assert (Hfl : forallb c10_ident_ok (flat_map (fun f => filter (fun g => contains_type (fty f) g) gens) fs) = true).
  { induction fs as [|f r IH]; cbn [flat_map]; [reflexivity|]. rewrite forallb_app, IH, andb_true_r.
    rewrite forallb_forall in *. intros x Hx. apply filter_In in Hx as [Hx _]. exact (Hg x Hx). }
  revert Hfl. generalize (flat_map (fun f => filter (fun g => contains_type (fty f) g) gens) fs). intros l0.
  generalize (@nil str). induction l0 as [|x r IH]; intros seen H; cbn [unique_strs]; [reflexivity|].
  cbn [forallb] in H. apply andb_true_iff in H as [Hx Hr]. destruct (mem_str x seen); [exact (IH _ Hr)|].
  cbn [forallb]. rewrite Hx, (IH _ Hr). reflexivity.
Qed.

(* characters that are harmless in every comment / docstring form: no line end, backslash or double quote *)
Definition docsafe_char (c : char) : bool := negb ((c =? ch_nl) || (c =? ch_cr) || (c =? ch_bs) || (c =? ch_dq)).
Lemma ident_docsafe s : forallb c10_ident_char s = true -> forallb docsafe_char s = true.
Proof.
  apply forallb_impl. intros c. unfold docsafe_char, c10_ident_char, is_aalpha, is_alower, is_aupper, is_adigit, ch_us, ch_nl, ch_cr, ch_bs, ch_dq. lia.
Qed.
Lemma anon_doc_docsafe (e : eshared) name vname fs :
  forallb c10_ident_char vname = true -> forallb c10_ident_char (original (eid e)) = true ->
  Forall (fun d => forallb docsafe_char d = true) (scomments (anon_struct e name vname fs)).
Proof.
  intros Hv He. cbn [anon_struct scomments]. constructor; [|constructor].
  rewrite !forallb_app, (ident_docsafe _ Hv), (ident_docsafe _ He). reflexivity.
Qed.
Lemma docsafe_line s : forallb docsafe_char s = true -> c10_line_ok s = true.
Proof. unfold c10_line_ok. apply forallb_impl. intros c. unfold docsafe_char. lia. Qed.
