(* C01, front end and composition.
   Part 3  typeshare's reading of the attributes gives every field of a struct and of a struct variant
           the key serde gives it: [ir_groups (parse it) = src_groups it] for every attribute layout;
   Part 4  reconcile does not touch field ids;
   Part 5  composition: source item -> IR -> declarations of each back end -> verdict. *)
From Coq Require Import List Bool Lia ZifyBool ZifyN String Permutation.
From TS Require Import Model.Str Model.Outcome Model.Unicode Model.Syntax Model.Attrs Model.TargetOs Model.Types Model.Parse Model.Reconcile
                       Model.Lang.Common Model.Lang.Decl Model.Lang.TypeScript Model.Lang.Kotlin Model.Lang.Swift
                       Model.Lang.Scala Model.Lang.Go Model.Lang.Python.
From TS Require Import Spec.SerdeCase Spec.C16Spec Spec.Serde Spec.TargetOsRule Spec.C03Spec Spec.C01Spec.
From TS Require Import Proofs.BackCommon Proofs.FrontAttrs Proofs.FrontItems Proofs.C01.
Import ListNotations.
Local Open Scope N_scope.
Local Notation length := List.length (only parsing).

(* ===================================================================================== *)
(* Part 3: the front end                                                                 *)
(* ===================================================================================== *)

(* serde's eight rule names are strings over the key alphabet (so typeshare's trim leaves them alone) *)
Lemma known_rule_key_chars s r : rule_from_str s = Some r -> forallb key_char s = true.
Proof.
  unfold rule_from_str, rule_names. cbn [rule_from_str_in].
  repeat (destruct (str_eqb s _) eqn:E; [apply str_eqb_eq in E; subst s; intros _; vm_compute; reflexivity|clear E]).
  discriminate.
Qed.

Lemma c01_rule_ok_rule_ok o : c01_rule_ok o = true -> rule_ok o = true.
Proof.
  destruct o as [s|]; [|reflexivity]. cbn [c01_rule_ok rule_ok].
  destruct (rule_from_str s) as [r|] eqn:E; [|discriminate]. intros _. exact (known_rule_key_chars s r E).
Qed.

Lemma c01_rename_ok_rule_ok o : c01_rename_ok o = true -> rule_ok o = true.
Proof.
  destruct o as [s|]; [|reflexivity]. cbn [c01_rename_ok rule_ok]. unfold c01_rename_value_ok.
  destruct s as [|c r]; [discriminate|]. intros H. apply andb_true_iff in H as [_ H]. exact H.
Qed.

Lemma c01_opt_all_app {A} (a b : list (option A)) xa xb :
  c01_opt_all a = Some xa -> c01_opt_all b = Some xb -> c01_opt_all (a ++ b) = Some (xa ++ xb).
Proof.
  revert xa. induction a as [|o a IH]; intros xa Ha Hb; cbn [c01_opt_all app] in *.
  - injection Ha as <-. exact Hb.
  - destruct o as [x|]; [|discriminate]. destruct (c01_opt_all a) as [xs|] eqn:E; [|discriminate].
    injection Ha as <-. now rewrite (IH xs eq_refl Hb).
Qed.

Section U.
Variable uc : unicode.
Hypothesis Huc : unicode_ok uc.
Variable tstr : str -> option ty.
Variable T : list str.

(* typeshare's skip decision is the documented one on members whose cfg attributes parse *)
Lemma filter_fields_spec (l : list field) : forallb (fun f => cfg_parsable (f_attrs f)) l = true ->
  filter (fun f => negb (is_skipped T (f_attrs f))) l = kept_fields T l.
Proof.
  unfold kept_fields. induction l as [|f l IH]; cbn [forallb filter]; [reflexivity|].
  intros H. apply andb_true_iff in H as [Hf Hl]. rewrite (is_skipped_spec T (f_attrs f) Hf), (IH Hl). reflexivity.
Qed.
Lemma filter_variants_spec (vs : list variant) : forallb (fun v => cfg_parsable (v_attrs v)) vs = true ->
  filter (fun v => negb (is_skipped T (v_attrs v))) vs = kept_variants T vs.
Proof.
  unfold kept_variants. induction vs as [|v l IH]; cbn [forallb filter]; [reflexivity|].
  intros H. apply andb_true_iff in H as [Hf Hl]. rewrite (is_skipped_spec T (v_attrs v) Hf), (IH Hl). reflexivity.
Qed.

(* one member list: a struct's fields under the container's rename_all, a struct variant's under
   the VARIANT's; any number, order and splitting of the serde attributes *)
Lemma fields_keys cf cattrs l rfs :
  mapM (parse_field uc tstr cf (serde_rename_all uc cattrs)) (filter (fun f => negb (is_skipped T (f_attrs f))) l) = Ok rfs ->
  src_fields_dom T cattrs l = true ->
  src_field_keys T (serde_nv cattrs (lit "rename_all")) l = Some (ir_field_keys rfs).
Proof.
  intros Hm Hd. unfold src_fields_dom in Hd. apply andb_true_iff in Hd as [Hd Hf]. apply andb_true_iff in Hd as [Hra Hcfg].
  rewrite (filter_fields_spec l Hcfg) in Hm. unfold src_field_keys.
  apply mapM_Forall2 in Hm. revert Hf. induction Hm as [|f rf fs rs Hp _ IH]; cbn [forallb map c01_opt_all ir_field_keys]; [reflexivity|].
  intros Hf. apply andb_true_iff in Hf as [Hf1 Hf2]. fold (ir_field_keys rs). rewrite (IH Hf2).
  unfold src_field_dom in Hf1. unfold src_field_key. destruct (f_ident f) as [i|] eqn:Ei; [|discriminate].
  apply andb_true_iff in Hf1 as [Hconv Hrn].
  rewrite <- (field_key_agrees uc Huc tstr cf cattrs f i rf Hp Ei Hconv (c01_rule_ok_rule_ok _ Hra) (c01_rename_ok_rule_ok _ Hrn)).
  reflexivity.
Qed.

(* a struct with named fields *)
Theorem front_struct attrs ident gens l s :
  parse_struct uc tstr T attrs ident gens (FNamed l) = Ok (ItStruct s) ->
  src_dom T (IStruct attrs ident gens (FNamed l)) = true ->
  src_groups T (IStruct attrs ident gens (FNamed l)) = Some (ir_groups (ItStruct s)).
Proof.
  unfold parse_struct. destruct (get_serialized_as_type uc attrs).
  - destruct (get_ident _ _ _ _); cbn [bind]; try discriminate. destruct (parse_ty_str _ _); cbn [bind]; discriminate.
  - destruct (mapM _ _) as [fields| |] eqn:Em; cbn [bind]; try discriminate.
    destruct (get_ident _ _ _ _) as [i| |]; cbn [bind]; try discriminate.
    intros [= <-] Hd. cbn [src_dom] in Hd. cbn [src_groups src_struct_groups ir_groups sfields].
    now rewrite (fields_keys _ _ _ _ Em Hd).
Qed.

(* a unit struct declares an empty member list *)
Theorem front_unit_struct attrs ident gens s :
  parse_struct uc tstr T attrs ident gens FUnit = Ok (ItStruct s) ->
  src_groups T (IStruct attrs ident gens FUnit) = Some (ir_groups (ItStruct s)).
Proof.
  unfold parse_struct. destruct (get_serialized_as_type uc attrs).
  - destruct (get_ident _ _ _ _); cbn [bind]; try discriminate. destruct (parse_ty_str _ _); cbn [bind]; discriminate.
  - destruct (get_ident _ _ _ _) as [i| |]; cbn [bind]; try discriminate. intros [= <-]. reflexivity.
Qed.

(* one variant: the VARIANT's rename_all governs the fields of a struct variant *)
Lemma variant_keys ra v rv :
  parse_enum_variant uc tstr T ra v = Ok rv ->
  match v_fields v with FNamed l => src_fields_dom T (v_attrs v) l | _ => true end = true ->
  c01_opt_all (src_variant_groups T v) = Some (variant_groups rv).
Proof.
  unfold parse_enum_variant, src_variant_groups.
  destruct (get_ident _ _ _ _) as [i| |]; cbn [bind]; try discriminate.
  destruct (v_fields v) as [l|l|].
  - destruct (mapM _ _) as [fields| |] eqn:Em; cbn [bind]; try discriminate.
    intros [= <-] Hd. cbn [variant_groups c01_opt_all]. now rewrite (fields_keys _ _ _ _ Em Hd).
  - destruct l as [|f [|? ?]]; try discriminate.
    destruct (field_type uc tstr f); cbn [bind]; try discriminate. intros [= <-] _. reflexivity.
  - intros [= <-] _. reflexivity.
Qed.

(* an enum: one member list per (non-skipped) struct variant, in source order *)
Theorem front_enum attrs ident gens vs e :
  parse_enum uc tstr T attrs ident gens vs = Ok (ItEnum e) ->
  src_dom T (IEnum attrs ident gens vs) = true ->
  src_groups T (IEnum attrs ident gens vs) = Some (ir_groups (ItEnum e)).
Proof.
  intros Hp Hd. cbn [src_dom] in Hd. apply andb_true_iff in Hd as [Hcfg Hd].
  assert (Hv : exists variants, mapM (parse_enum_variant uc tstr T (serde_rename_all uc attrs)) (kept_variants T vs) = Ok variants /\
                                evariants (enum_shared e) = variants).
  { unfold parse_enum in Hp. destruct (get_serialized_as_type uc attrs).
    - destruct (get_ident _ _ _ _); cbn [bind] in Hp; try discriminate. destruct (parse_ty_str _ _); cbn [bind] in Hp; discriminate.
    - rewrite (filter_variants_spec vs Hcfg) in Hp.
      destruct (mapM _ _) as [variants| |] eqn:Em; cbn [bind] in Hp; try discriminate.
      destruct (get_ident _ _ _ _) as [i| |]; cbn [bind] in Hp; try discriminate.
      exists variants. split; [reflexivity|].
      destruct (forallb _ variants).
      + destruct (get_tag_key uc attrs); try discriminate. destruct (get_content_key uc attrs); try discriminate.
        injection Hp as <-. reflexivity.
      + destruct (get_tag_key uc attrs); try discriminate. destruct (get_content_key uc attrs); try discriminate.
        injection Hp as <-. reflexivity. }
  destruct Hv as (variants & Hm & He). cbn [src_groups]. unfold src_enum_groups. rewrite ir_groups_enum, He. clear He Hp.
  apply mapM_Forall2 in Hm. revert Hd. induction Hm as [|v rv l rl Hpv _ IH]; cbn [forallb flat_map]; [reflexivity|].
  intros Hd. apply andb_true_iff in Hd as [Hd1 Hd2].
  apply c01_opt_all_app; [exact (variant_keys _ _ _ Hpv Hd1)|exact (IH Hd2)].
Qed.
End U.

(* ===================================================================================== *)
(* Part 4: reconcile rewrites types only                                                 *)
(* ===================================================================================== *)
Lemma check_fields_keys cn rn im fs : ir_field_keys (map (check_field cn rn im) fs) = ir_field_keys fs.
Proof. unfold ir_field_keys. rewrite map_map. reflexivity. Qed.

Lemma check_eshared_groups cn rn im sh :
  flat_map variant_groups (evariants (check_eshared cn rn im sh)) = flat_map variant_groups (evariants sh).
Proof.
  cbn [check_eshared evariants]. induction (evariants sh) as [|v vs IH]; cbn [map flat_map]; [reflexivity|].
  rewrite IH. f_equal. destruct v; cbn [check_variant variant_groups]; try reflexivity.
  now rewrite check_fields_keys.
Qed.

(* the per-item maps reconcile_crate applies (the sorts only permute the items) *)
Definition reconcile_struct cn rn im (s : rstruct) : rstruct :=
  {| sid := sid s; sgenerics := sgenerics s; sfields := map (check_field cn rn im) (sfields s);
     scomments := scomments s; sdecs := sdecs s; sredacted := sredacted s |}.
Definition reconcile_enum cn rn im (e : renum) : renum :=
  match e with
  | EUnit sh => EUnit (check_eshared cn rn im sh)
  | EAlgebraic t c sh => EAlgebraic t c (check_eshared cn rn im sh)
  end.

Theorem reconcile_struct_groups cn rn im s : ir_groups (ItStruct (reconcile_struct cn rn im s)) = ir_groups (ItStruct s).
Proof. cbn [ir_groups reconcile_struct sfields]. now rewrite check_fields_keys. Qed.
Theorem reconcile_enum_groups cn rn im e : ir_groups (ItEnum (reconcile_enum cn rn im e)) = ir_groups (ItEnum e).
Proof. rewrite !ir_groups_enum. destruct e; cbn [reconcile_enum enum_shared]; apply check_eshared_groups. Qed.

Lemma In_insert_stable {A} (key : A -> str) x y l : In y (insert_stable key x l) -> y = x \/ In y l.
Proof.
  induction l as [|z l IH]; cbn [insert_stable].
  - intros [<-|[]]. now left.
  - destruct (str_ltb (key x) (key z)).
    + intros [<-|H]; [now left|now right].
    + intros [<-|H]; [right; now left|]. destruct (IH H) as [->|H']; [now left|right; now right].
Qed.
Lemma In_stable_sort {A} (key : A -> str) y l : In y (stable_sort key l) -> In y l.
Proof.
  unfold stable_sort. assert (G : forall acc, In y (fold_left (fun acc x => insert_stable key x acc) l acc) -> In y acc \/ In y l).
  { induction l as [|x l IH]; intros acc H; cbn [fold_left] in H; [now left|].
    destruct (IH _ H) as [H'|H']; [|right; now right]. destruct (In_insert_stable _ _ _ _ H') as [->|H'']; [right; now left|now left]. }
  intros H. destruct (G [] H) as [[]|H']. exact H'.
Qed.

(* every struct / enum of the reconciled crate is the image of a parsed one with the same member keys *)
Theorem reconcile_crate_structs rn cn pd s' : In s' (p_structs (reconcile_crate rn cn pd)) ->
  exists s, In s (p_structs pd) /\ sid s' = sid s /\ ir_groups (ItStruct s') = ir_groups (ItStruct s).
Proof.
  cbn [reconcile_crate p_structs]. intros H. apply In_stable_sort in H. apply in_map_iff in H as (s & <- & Hs).
  exists s. repeat split; auto. exact (reconcile_struct_groups cn rn (p_imports pd) s).
Qed.
Theorem reconcile_crate_enums rn cn pd e' : In e' (p_enums (reconcile_crate rn cn pd)) ->
  exists e, In e (p_enums pd) /\ eid (enum_shared e') = eid (enum_shared e) /\ ir_groups (ItEnum e') = ir_groups (ItEnum e).
Proof.
  cbn [reconcile_crate p_enums]. intros H. apply In_stable_sort in H. apply in_map_iff in H as (e & <- & He).
  exists e. repeat split; auto.
  - destruct e; reflexivity.
  - exact (reconcile_enum_groups cn rn (p_imports pd) e).
Qed.

(* ===================================================================================== *)
(* Part 5: composition                                                                   *)
(* ===================================================================================== *)
(* the observation a back end produces for one IR item, or None when it produces none (error / panic) *)
Section Compose.
Variable uc : unicode.
Hypothesis Huc : unicode_ok uc.
Variable tstr : str -> option ty.
Variable T : list str.

(* [parses it rit]: typeshare's front end turns the source item into the IR item *)
Definition parses (it : item) (rit : ritem) : Prop :=
  match it with
  | IStruct attrs ident gens fs => parse_struct uc tstr T attrs ident gens fs = Ok rit
  | IEnum attrs ident gens vs => parse_enum uc tstr T attrs ident gens vs = Ok rit
  | _ => False
  end.

(* a struct with named fields / a unit struct / an enum whose front-end result is a struct or an enum
   (not re-typed by #[typeshare(serialized_as)]) *)
Definition c01_shape (it : item) (rit : ritem) : Prop :=
  match it, rit with
  | IStruct _ _ _ (FNamed _), ItStruct _ | IStruct _ _ _ FUnit, ItStruct _ | IEnum _ _ _ _, ItEnum _ => True
  | _, _ => False
  end.

Theorem front_item it rit : parses it rit -> c01_shape it rit -> src_dom T it = true ->
  src_groups T it = Some (ir_groups rit).
Proof.
  destruct it as [attrs ident gens fs|attrs ident gens vs| | | |]; cbn [parses]; try tauto.
  - destruct fs as [l|l|]; destruct rit as [s|e|a|c]; cbn [c01_shape]; try tauto; intros Hp _ Hd.
    + exact (front_struct uc Huc tstr T attrs ident gens l s Hp Hd).
    + exact (front_unit_struct uc tstr T attrs ident gens s Hp).
  - destruct rit as [s|e|a|c]; cbn [c01_shape]; try tauto; intros Hp _ Hd.
    exact (front_enum uc Huc tstr T attrs ident gens vs e Hp Hd).
Qed.

(* End to end, per item and per language: for every source struct / enum in the property's domain,
   whatever declarations the back end decides on for its IR (also after reconcile's per-item map,
   which leaves the keys alone) satisfy the verdict the check evaluates, with serde's keys of the
   SOURCE as the expectation. *)
Theorem C01_end_to_end (l : lang) it rit expected (gs : list (list member)) :
  parses it rit -> c01_shape it rit -> src_dom T it = true ->
  src_groups T it = Some expected -> dom_C01 l expected = true ->
  groups_fit l (ir_groups rit) gs ->
  good_groups_C01 l expected gs = true.
Proof.
  intros Hp Hs Hd He Hk Hf. rewrite (front_item it rit Hp Hs Hd) in He. injection He as <-.
  exact (groups_good l _ _ Hf Hk).
Qed.
End Compose.

(* ===================================================================================== *)
(* Non-vacuity: an adjacently tagged enum with a struct variant under the VARIANT's        *)
(* rename_all, raw identifiers and a keyword rename satisfies every hypothesis             *)
(* ===================================================================================== *)
Definition c01_ex_serde (name value : string) : attr :=
  {| a_inner := false; a_meta := MList [lit "serde"] (Some [MNV [lit name] (VStr (lit value))]) None |}.
Definition c01_ex_item : item :=
  IEnum [ {| a_inner := false; a_meta := MPath [lit "typeshare"] |};
          {| a_inner := false;
             a_meta := MList [lit "serde"] (Some [MNV [lit "tag"] (VStr (lit "t")); MNV [lit "content"] (VStr (lit "c"))]) None |} ]
        (lit "Ev") []
        [ {| v_attrs := [c01_ex_serde "rename_all" "kebab-case"]; v_ident := lit "B";
             v_fields := FNamed [ {| f_attrs := []; f_ident := Some (lit "user_id"); f_ty := TPath [] (lit "u8") [] |};
                                  {| f_attrs := [c01_ex_serde "rename" "class"]; f_ident := Some (lit "r#type");
                                     f_ty := TPath [] (lit "String") [] |};
                                  {| f_attrs := []; f_ident := Some (lit "r#in"); f_ty := TPath [] (lit "bool") [] |} ] |} ].

Example C01_nonvacuous :
  exists rit, parses uc_exec (fun _ => None) [] c01_ex_item rit /\ c01_shape c01_ex_item rit /\
              src_dom [] c01_ex_item = true /\
              src_groups [] c01_ex_item = Some [[lit "user-id"; lit "class"; lit "in"]] /\
              dom_C01 Kotlin [[lit "user-id"; lit "class"; lit "in"]] = true /\
              dom_C01 Scala [[lit "user-id"; lit "class"; lit "in"]] = false.
Proof.
  eexists. split; [vm_compute; reflexivity|]. split; [exact I|]. repeat split; vm_compute; reflexivity.
Qed.

(* ===================================================================================== *)
(* Part 6: serde's keys of conventional fields lie in the key domain                      *)
(* (so the key-domain hypothesis of the end-to-end theorem follows from the source-side   *)
(* quantifier for the five languages that bind keys; Scala additionally needs "no '-'")   *)
(* ===================================================================================== *)
Local Ltac kc := unfold c01_key_char, snake_char, is_aalpha, is_alower, is_aupper, is_adigit, aupper, alower, ch_us, ch_dash in *.

Lemma kc_upper c : c01_key_char c = true -> c01_key_char (aupper c) = true.
Proof. unfold aupper. destruct (is_alower c) eqn:E; [|auto]. intros _. kc. lia. Qed.
Lemma kc_lower c : c01_key_char c = true -> c01_key_char (alower c) = true.
Proof. unfold alower. destruct (is_aupper c) eqn:E; [|auto]. intros _. kc. lia. Qed.
Lemma kc_snake c : snake_char c = true -> c01_key_char c = true.
Proof. kc. lia. Qed.

Lemma forallb_map_pres {A} (p : A -> bool) (f : A -> A) l : (forall x, p x = true -> p (f x) = true) ->
  forallb p l = true -> forallb p (map f l) = true.
Proof.
  intros Hf. induction l as [|x r IH]; cbn [forallb map]; [reflexivity|]. intros H. apply andb_true_iff in H as [Hx Hr].
  now rewrite (Hf x Hx), (IH Hr).
Qed.

Lemma kc_pascal s : forall cap, forallb c01_key_char s = true -> forallb c01_key_char (sd_pascal_go cap s) = true.
Proof.
  induction s as [|c r IH]; intros cap H; cbn [sd_pascal_go forallb] in *; [reflexivity|].
  apply andb_true_iff in H as [Hc Hr]. destruct (c =? ch_us); [now apply IH|].
  destruct cap; cbn [forallb]; rewrite (IH false Hr), ?(kc_upper c Hc), ?Hc; reflexivity.
Qed.

Lemma pascal_nonempty s : forall cap, existsb (fun c => negb (c =? ch_us)) s = true -> sd_pascal_go cap s <> [].
Proof.
  induction s as [|c r IH]; intros cap H; cbn [sd_pascal_go existsb] in *; [discriminate|].
  destruct (c =? ch_us); cbn [negb orb] in H; [now apply IH|]. destruct cap; discriminate.
Qed.

Lemma map_nonempty {A B} (f : A -> B) l : l <> [] -> map f l <> [].
Proof. destruct l; [congruence|discriminate]. Qed.

Lemma key_ok_intro k : k <> [] -> forallb c01_key_char k = true -> c01_key_ok k = true.
Proof. destruct k; [congruence|]. intros _ H. exact H. Qed.

Lemma apply_to_field_key_ok r s k : conv_field s = true -> apply_to_field r s = Some k -> c01_key_ok k = true.
Proof.
  unfold conv_field. intros H. apply andb_true_iff in H as [Hs Hne].
  assert (Hk : forallb c01_key_char s = true).
  { clear Hne. induction s as [|c t IH]; cbn [forallb] in *; [reflexivity|]. apply andb_true_iff in Hs as [Hc Ht].
    now rewrite (kc_snake c Hc), (IH Ht). }
  assert (Hn : s <> []) by (destruct s; [discriminate|discriminate]).
  assert (Hrep : forall t, forallb c01_key_char t = true -> forallb c01_key_char (replace_char ch_us ch_dash t) = true).
  { intros t. unfold replace_char. apply forallb_map_pres. intros x Hx. destruct (x =? ch_us); [reflexivity|exact Hx]. }
  assert (Hup : forall t, forallb c01_key_char t = true -> forallb c01_key_char (str_upper_ascii t) = true).
  { intros t. unfold str_upper_ascii. apply forallb_map_pres. exact kc_upper. }
  destruct r; cbn [apply_to_field]; try (intros [= <-]).
  - now apply key_ok_intro.
  - apply key_ok_intro; [now apply map_nonempty|now apply Hup].
  - apply key_ok_intro; [now apply pascal_nonempty|now apply kc_pascal].
  - unfold lower_first. pose proof (pascal_nonempty s true Hne) as Hp. pose proof (kc_pascal s true Hk) as Hq.
    destruct (sd_pascal_go true s) as [|c t]; [congruence|]. destruct (c <? 128); [|discriminate]. intros [= <-].
    cbn [forallb] in Hq. apply andb_true_iff in Hq as [Hc Ht]. cbn [c01_key_ok forallb]. now rewrite (kc_lower c Hc), Ht.
  - now apply key_ok_intro.
  - apply key_ok_intro; [now apply map_nonempty|now apply Hup].
  - apply key_ok_intro; [unfold replace_char; now apply map_nonempty|now apply Hrep].
  - apply key_ok_intro; [unfold replace_char, str_upper_ascii; now apply map_nonempty, map_nonempty|now apply Hrep, Hup].
Qed.

Lemma field_key_key_ok ra attrs ident k : conv_field (unraw ident) = true ->
  c01_rename_ok (serde_nv attrs (lit "rename")) = true ->
  field_key ra attrs ident = Some k -> c01_key_ok k = true.
Proof.
  intros Hc Hr. unfold field_key. destruct (serde_nv attrs (lit "rename")) as [r|].
  - intros [= <-]. cbn [c01_rename_ok] in Hr. unfold c01_rename_value_ok in Hr. destruct r as [|c t]; [discriminate|].
    apply andb_true_iff in Hr as [_ Hr]. exact Hr.
  - unfold serde_field_name. destruct ra as [rs|].
    + destruct (rule_from_str rs) as [r|].
      * exact (apply_to_field_key_ok r _ k Hc).
      * intros [= <-]. exact (apply_to_field_key_ok SnakeCase _ _ Hc eq_refl).
    + intros [= <-]. exact (apply_to_field_key_ok SnakeCase _ _ Hc eq_refl).
Qed.

Section DomT.
Variable T : list str.

Lemma src_field_keys_ok ra l ks : forallb (src_field_dom) (kept_fields T l) = true ->
  src_field_keys T ra l = Some ks -> forallb c01_key_ok ks = true.
Proof.
  unfold src_field_keys. generalize (kept_fields T l) as fs. intros fs. revert ks.
  induction fs as [|f fs IH]; intros ks Hd; cbn [map c01_opt_all forallb] in *.
  - intros [= <-]. reflexivity.
  - apply andb_true_iff in Hd as [Hf Hfs]. unfold src_field_key at 1. unfold src_field_dom in Hf.
    destruct (f_ident f) as [i|]; [|discriminate]. apply andb_true_iff in Hf as [Hc Hr].
    destruct (field_key ra (f_attrs f) i) as [k|] eqn:Ek; [|discriminate].
    destruct (c01_opt_all _) as [xs|] eqn:Ex; [|discriminate]. intros [= <-]. cbn [forallb].
    now rewrite (field_key_key_ok ra _ i k Hc Hr Ek), (IH xs Hfs eq_refl).
Qed.

Lemma c01_opt_all_app_inv {A} (a b : list (option A)) xs : c01_opt_all (a ++ b) = Some xs ->
  exists xa xb, c01_opt_all a = Some xa /\ c01_opt_all b = Some xb /\ xs = xa ++ xb.
Proof.
  revert xs. induction a as [|o a IH]; intros xs H; cbn [app c01_opt_all] in *.
  - exists [], xs. auto.
  - destruct o as [x|]; [|discriminate]. destruct (c01_opt_all (a ++ b)) as [ys|] eqn:E; [|discriminate].
    injection H as <-. destruct (IH ys eq_refl) as (xa & xb & -> & Hb & ->). exists (x :: xa), xb. auto.
Qed.

(* the source-side quantifier implies the key domain for every language that binds keys *)
Theorem src_dom_key_dom (l : lang) it expected : l <> Scala -> src_dom T it = true -> src_groups T it = Some expected ->
  dom_C01 l expected = true.
Proof.
  intros Hl Hd He.
  assert (G : forallb (forallb c01_key_ok) expected = true -> dom_C01 l expected = true).
  { unfold dom_C01, dom_group. clear -Hl. induction expected as [|g r IH]; cbn [forallb]; [reflexivity|]. intros H.
    apply andb_true_iff in H as [Hg Hr]. rewrite Hg, (IH Hr). destruct l; try reflexivity. congruence. }
  apply G. clear G. destruct it as [attrs ident gens fs|attrs ident gens vs| | | |]; cbn [src_groups src_dom] in *;
    try (injection He as <-; reflexivity).
  - destruct fs as [fl|fl|]; cbn [src_struct_groups] in He; try (injection He as <-; reflexivity).
    unfold src_fields_dom in Hd. apply andb_true_iff in Hd as [_ Hd].
    destruct (src_field_keys T _ fl) as [ks|] eqn:Ek; [|discriminate]. injection He as <-. cbn [forallb].
    now rewrite (src_field_keys_ok _ _ _ Hd Ek).
  - apply andb_true_iff in Hd as [_ Hd]. unfold src_enum_groups in He. revert expected He Hd.
    generalize (kept_variants T vs) as kv. induction kv as [|v kv IH]; intros expected He Hd; cbn [flat_map forallb] in *.
    + injection He as <-. reflexivity.
    + apply andb_true_iff in Hd as [Hv Hkv]. apply c01_opt_all_app_inv in He as (xa & xb & Ha & Hb & ->).
      rewrite forallb_app, (IH xb Hb Hkv), andb_true_r. unfold src_variant_groups in Ha.
      destruct (v_fields v) as [fl|fl|]; try (injection Ha as <-; reflexivity).
      cbn [c01_opt_all] in Ha. destruct (src_field_keys T _ fl) as [ks|] eqn:Ek; [|discriminate]. injection Ha as <-.
      unfold src_fields_dom in Hv. apply andb_true_iff in Hv as [_ Hv]. cbn [forallb]. now rewrite (src_field_keys_ok _ _ _ Hv Ek).
Qed.
End DomT.

(* End to end without a key-domain hypothesis, for the five languages that bind keys *)
Theorem C01_end_to_end_binding (uc : unicode) (Huc : unicode_ok uc) (tstr : str -> option ty) (T : list str)
    (l : lang) it rit expected (gs : list (list member)) :
  l <> Scala ->
  parses uc tstr T it rit -> c01_shape it rit -> src_dom T it = true ->
  src_groups T it = Some expected ->
  groups_fit l (ir_groups rit) gs ->
  good_groups_C01 l expected gs = true.
Proof.
  intros Hl Hp Hs Hd He Hf.
  exact (C01_end_to_end uc Huc tstr T l it rit expected gs Hp Hs Hd He (src_dom_key_dom T l it expected Hl Hd He) Hf).
Qed.
