(* C09 in folder mode, Swift: the declarations sw_decl_of returns for the items of ANY program pd', from ANY state of the
   CodableVoid flag, have the shape of Proofs/C09MultiLang.v (every definition - the ...Inner helper included - under
   prefix + id.renamed; every mentioned id prefix + id unless it is a generic parameter of the item); hence the file
   sw_generate_multi writes for a crate of a folder-mode run satisfies good_C09_multi. *)
From Coq Require Import List Bool String Permutation.
From TS Require Import Model.Str Model.Outcome Model.Unicode Model.Types Model.Parse Model.Reconcile Model.Collect Model.TopsortAlgo Model.Topsort
                       Model.Lang.Common Model.Lang.Decl Model.Lang.Swift Model.MultiFile.
From TS Require Import Spec.C09Spec Spec.C09MultiSpec Spec.C09MultiLangSpec.
From TS Require Import Proofs.C14Front Proofs.C09Common Proofs.C09Recon Proofs.C09Refs Proofs.C09Lang Proofs.C09_Swift
                       Proofs.C09Multi Proofs.C09MultiLang Proofs.C12MultiSwift.
Import ListNotations.

Section SWL.
Variable uc : unicode.
Variable cfg : sw_config.
Let pfx := sw_prefix cfg.
Variable pd' : parsed.

Notation shape := (c9l_ref_shape Swift pfx pd').
Notation decl_ok := (c9l_decl_ok Swift pfx pd').
Notation defname := (c09_def_name Swift pfx).

Lemma swl_defines e : c09_defines Swift e = true.
Proof. unfold c09_defines. now destruct (c9e_kind e). Qed.

Lemma swl_refs tp' gs owner x :
  In tp' (c09_tposs pd') -> sw_names_ok cfg gs x (c9t_type tp') ->
  (forall form i', In (form, i') (c09_type_ids (c9t_type tp')) -> mem_str i' gs = mem_str i' (c9t_generics tp')) ->
  forall r, In r (c09_type_refs Swift owner (c9t_pos tp') x) -> shape r.
Proof. intros Htp Hn Hgs. eapply (c9l_names_refs Swift pfx pd' tp' gs); eauto. Qed.

(* write_struct: a source struct or the helper struct of a struct variant *)
Lemma swl_struct_shape rs ss sa sb (mk : rfield -> c09_tpos) :
  sw_struct_of uc cfg rs sa = Ok (ss, sb) ->
  (forall f, In f (sfields rs) -> In (mk f) (c09_tposs pd') /\ c9t_pos (mk f) = C9Field /\ c9t_type (mk f) = fty f /\
     (forall form i', In (form, i') (c09_type_ids (fty f)) -> mem_str i' (sgenerics rs) = mem_str i' (c9t_generics (mk f)))) ->
  d_name (sw_obs_struct ss) = pfx ++ renamed (sid rs) /\ c09_is_def (sw_obs_struct ss) = true /\
  forall r, In r (c09_decl_refs Swift (sw_obs_struct ss)) -> shape r.
Proof.
  unfold sw_struct_of. intros Hd Hmk. cbv zeta in Hd. c09_bind Hd tys s1 E1. c09_bind Hd itys s2 E2. c09_ret Hd.
  cbn [sw_obs_struct d_name sws_name]. repeat split.
  intros r Hr. unfold c09_decl_refs in Hr. cbn [d_kind d_name d_members d_variants flat_map sws_members] in Hr. rewrite app_nil_r in Hr.
  apply in_flat_map in Hr as (m' & Hm' & Hr). apply in_map_iff in Hm' as (m & <- & Hm). apply in_map_iff in Hm as ([f [ty ity]] & <- & Hx).
  cbn [fst snd] in Hr. apply c09_combine_fst in Hx. apply c09_mmapM_Forall2 in E1.
  destruct (c09_Forall2_combine _ _ _ _ _ E1 Hx) as (sc & sd & Ef). apply in_combine_l in Hx.
  destruct (Hmk f Hx) as (Htp & Hpos & Hty & Hgs).
  unfold c09_type_refs in Hr. rewrite sw_names_strip in Hr. fold (c09_type_refs Swift (sw_prefix cfg ++ renamed (sid rs)) C9Field ty) in Hr.
  rewrite <- Hpos in Hr. eapply (swl_refs (mk f) (sgenerics rs)); [exact Htp| | |exact Hr]; rewrite Hty.
  - exact (sw_field_names cfg _ _ _ _ _ Ef).
  - exact Hgs.
Qed.

(* the helper structs of an enum come from its struct variants *)
Lemma swl_inner_structs sh vs : forall s cs s', sw_inner_structs_of uc cfg sh vs s = Ok (cs, s') ->
  forall c, In c cs -> exists fs vsh sa sb, In (VAnon fs vsh) vs /\
      sw_struct_of uc cfg (anon_struct sh (sw_make_anonymous_struct_name sh (original (vid vsh))) (original (vid vsh)) fs) sa = Ok (c, sb).
Proof.
  induction vs as [|v vs IH]; intros s cs s' H; cbn [sw_inner_structs_of] in H.
  - c09_ret H. intros c [].
  - destruct v as [vsh|t vsh|fs vsh].
    + intros c Hc. destruct (IH _ _ _ H c Hc) as (fs & vsh0 & sa & sb & Hv & E). exists fs, vsh0, sa, sb. split; [right; exact Hv|exact E].
    + intros c Hc. destruct (IH _ _ _ H c Hc) as (fs & vsh0 & sa & sb & Hv & E). exists fs, vsh0, sa, sb. split; [right; exact Hv|exact E].
    + c09_bind H c0 s1 E0. c09_bind H cs0 s2 E1. c09_ret H.
      intros c [<-|Hc]; [exists fs, vsh, s, s1; split; [left; reflexivity|exact E0]|].
      destruct (IH _ _ _ E1 c Hc) as (fs1 & vsh0 & sa & sb & Hv & E). exists fs1, vsh0, sa, sb. split; [right; exact Hv|exact E].
Qed.

Lemma swl_item it d s1 s2 : In it (items_of pd') -> sw_decl_of uc cfg it s1 = Ok (d, s2) -> forall o, In o (sw_obs d) -> decl_ok o.
Proof.
  intros Hit Hd. unfold items_of in Hit. rewrite !in_app_iff, !in_map_iff in Hit.
  destruct Hit as [(a & <- & Ha)|[(s & <- & Hs)|[(e & <- & He)|(c & <- & _)]]]; cbn [sw_decl_of] in Hd.
  - (* alias *)
    cbv zeta in Hd. c09_bind Hd ty s3 E. c09_ret Hd.
    assert (Hn : defname (c09_ent_alias a) = pfx ++ renamed (aid a)) by (unfold c09_def_name; cbn; rewrite app_nil_r; reflexivity).
    cbn [sw_obs]. intros o [<-|[]]. split.
    + intros _. exists (c09_ent_alias a). split; [exact (c09_in_alias pd' a Ha)|]. split; [apply swl_defines|]. rewrite Hn. reflexivity.
    + intros r Hr. unfold c09_decl_refs in Hr. cbn [d_kind d_name d_type] in Hr.
      eapply (swl_refs {| c9t_owner := aid a; c9t_generics := agenerics a; c9t_pos := C9Alias; c9t_type := atype a |} (agenerics a));
        [exact (c09_tp_alias pd' a Ha)| |reflexivity|exact Hr].
      exact (sw_texp_names cfg _ _ _ _ _ E).
  - (* struct *)
    c09_bind Hd ss s3 E. c09_ret Hd.
    assert (Hn : defname (c09_ent_struct s) = pfx ++ renamed (sid s)) by (unfold c09_def_name; cbn; rewrite app_nil_r; reflexivity).
    destruct (swl_struct_shape s ss _ _
                (fun f => {| c9t_owner := sid s; c9t_generics := sgenerics s; c9t_pos := C9Field; c9t_type := fty f |}) E)
      as (Hname & Hdef & Hrefs).
    { intros f Hf. split; [exact (c09_tp_struct pd' s f Hs Hf)|]. repeat split. }
    cbn [sw_obs]. intros o [<-|[]]. split; [|exact Hrefs].
    intros _. exists (c09_ent_struct s). split; [exact (c09_in_struct pd' s Hs)|]. split; [apply swl_defines|]. rewrite Hn. exact Hname.
  - (* enum: helper structs, then the enum *)
    set (j := c09_ent_enum e).
    assert (Hj : In j (c09_entities pd')) by exact (c09_in_enum pd' e He).
    assert (Hnj : defname j = pfx ++ renamed (eid (enum_shared e))) by (unfold c09_def_name; destruct e; cbn; rewrite app_nil_r; reflexivity).
    c09_bind Hd se s3 Ee. c09_ret Hd. unfold sw_enum_of in Ee. cbv zeta in Ee.
    c09_bind Ee inners s4 Ei. c09_bind Ee vs s5 Ev. apply c09_ret_ok in Ee as [Ese _].
    assert (Hse : swe_inner se = inners /\ swe_name se = pfx ++ renamed (eid (enum_shared e)) /\ swe_variants se = vs)
      by (rewrite Ese; cbn [swe_inner swe_name swe_variants]; auto).
    clear Ese. destruct Hse as (HseI & HseN & HseV).
    pose proof (swl_inner_structs _ _ _ _ _ Ei) as Hanon.
    cbn [sw_obs]. rewrite HseI. intros o Ho. apply in_app_iff in Ho as [Ho|[<-|[]]].
    + apply in_map_iff in Ho as (ss & <- & Hss). destruct (Hanon ss Hss) as (fs & vsh & sa & sb & Hv & Ec).
      destruct (swl_struct_shape _ ss sa sb
                  (fun f => {| c9t_owner := eid (enum_shared e); c9t_generics := egenerics (enum_shared e); c9t_pos := C9Field; c9t_type := fty f |}) Ec)
        as (A & B & C).
      { intros f Hf. cbn [anon_struct sfields] in Hf. split; [exact (c09_tp_anon pd' e fs vsh f He Hv Hf)|]. repeat split.
        intros form i' Hi. cbn [anon_struct sgenerics c9t_generics]. eapply c09_anon_generics_mem; [exact Hf|exact Hi]. }
      split; [|exact C]. intros _. exists (c09_ent_inner e vsh). split; [exact (c09_in_inner pd' e fs vsh He Hv)|]. split; [apply swl_defines|].
      rewrite A. reflexivity.
    + split.
      * intros _. exists j. split; [exact Hj|]. split; [apply swl_defines|]. cbn [sw_obs_enum d_name]. rewrite HseN, Hnj. reflexivity.
      * intros r Hr. unfold c09_decl_refs in Hr. cbn [sw_obs_enum d_kind d_name d_members d_variants flat_map app] in Hr. rewrite HseN, HseV in Hr.
        apply in_flat_map in Hr as (vd & Hvd & Hr). apply in_map_iff in Hvd as (sv & <- & Hsv).
        destruct e as [sh|tag content sh]; cbn [enum_shared] in *.
        -- apply c09_mmapM_Forall2 in Ev. destruct (c09_Forall2_in_r _ _ _ _ Ev Hsv) as (v' & Hv' & sc & sd & Ev').
           unfold sw_unit_variant_of in Ev'. cbv zeta in Ev'. c09_bind Ev' vn sx E0. c09_ret Ev'. cbn in Hr. destruct Hr.
        -- apply c09_mmapM_Forall2 in Ev.
           destruct (c09_Forall2_in_r _ _ _ _ Ev Hsv) as (v & Hv & sc & sd & Ev').
           unfold sw_variant_of in Ev'. cbv zeta in Ev'.
           c09_bind Ev' camel sx E0. c09_bind Ev' pl sf Ep. c09_ret Ev'. cbn [sw_obs_variant vd_parent vd_payload swv_payload app] in Hr.
           destruct v as [vsh|t vsh|fs vsh].
           ++ c09_ret Ep. destruct Hr.
           ++ c09_bind Ep ty sg Et. c09_ret Ep.
              assert (Hr' : In r (c09_type_refs Swift (sw_prefix cfg ++ renamed (eid sh)) C9Payload ty)) by (destruct ty; exact Hr).
              eapply (swl_refs {| c9t_owner := eid sh; c9t_generics := egenerics sh; c9t_pos := C9Payload; c9t_type := t |} (egenerics sh));
                [exact (c09_tp_tuple pd' (EAlgebraic tag content sh) t vsh He Hv)| |reflexivity|exact Hr'].
              exact (sw_texp_names cfg _ _ _ _ _ Et).
           ++ c09_ret Ep. destruct Hr as [<-|Hr].
              ** eapply C9L_inner with (e := c09_ent_inner (EAlgebraic tag content sh) vsh); cbn [c9_in c9_pos c9_name]; try reflexivity.
                 exact (c09_in_inner pd' (EAlgebraic tag content sh) fs vsh He Hv).
              ** apply in_map_iff in Hr as (g & <- & Hg).
                 eapply C9L_arg with (e := c09_ent_inner (EAlgebraic tag content sh) vsh); cbn [c9_in c9_pos c9_name]; try reflexivity.
                 --- exact (c09_in_inner pd' (EAlgebraic tag content sh) fs vsh He Hv).
                 --- unfold anon_struct_generics in Hg. apply c09_unique_strs_in in Hg as [Hg _]. apply in_flat_map in Hg as (f0 & _ & Hg).
                     apply filter_In in Hg as [Hg _]. exact Hg.
  - discriminate.
Qed.

(* the declarations of one folder-mode file, from any state *)
Theorem swl_decls st ds st' : sw_multi_decls uc cfg st pd' = Ok (ds, st') -> forall o, In o (flat_map sw_obs ds) -> decl_ok o.
Proof.
  unfold sw_multi_decls. intros H.
  destruct (topsort (items_of pd')) as [items| |] eqn:Et; cbn [bind] in H; try discriminate.
  pose proof (c09_topsort_in' _ _ Et) as Hperm. apply c09_mmapM_Forall2 in H.
  intros o Ho. apply in_flat_map in Ho as (d & Hd & Ho). destruct (c09_Forall2_in_r _ _ _ _ H Hd) as (it & Hit & s1 & s2 & E).
  apply Hperm in Hit. exact (swl_item it d s1 s2 Hit E o Ho).
Qed.
End SWL.

(* the file of crate b in a folder-mode run, whatever state the Swift value is in when the crate is reached *)
Theorem c9m_sw_file (uc : unicode) (cfg : sw_config) (ho : list imported -> list imported) (l : list (str * parsed)) :
  oracle_ok ho -> c9m_ids_wf l = true ->
  forall b pd', In (b, pd') (multi_crates ho l) ->
  forall st text st', sw_generate_multi uc cfg st pd' = Ok (text, st') ->
  exists ds,
    sw_multi_decls uc cfg st pd' = Ok (ds, st') /\
    text = sw_begin_file cfg ++ List.concat (map sw_render_decl ds) /\
    Forall (fun d => (c09_is_def d = true -> c9m_ldef_ok Swift l b (sw_prefix cfg) (d_name d)) /\
                     (forall r, In r (c09_decl_refs Swift d) -> c9m_lref_ok Swift l b (sw_prefix cfg) r)) (flat_map sw_obs ds) /\
    good_C09_multi Swift (sw_prefix cfg) l b (c9m_observe_decls Swift (flat_map sw_obs ds)) = true.
Proof.
  intros Hho Hwf b pd' Hin st text st' Hg. apply sw_multi_layout in Hg as (ds & Ed & Et).
  exists ds. split; [exact Ed|]. split; [exact Et|].
  pose proof (swl_decls uc cfg pd' st ds st' Ed) as Hall. split.
  - exact (c9l_forall_judged Swift (sw_prefix cfg) ho l b pd' _ Hho Hwf Hin Hall).
  - exact (c9l_decls_good Swift (sw_prefix cfg) ho l b pd' _ Hho Hwf Hin Hall).
Qed.
