(* C10, grammar half for Scala, part 3: the LAYOUT layer of Model/Lang/Scala.v produces text that tokenises, after the
   newline rule, to statements of the grammar.
     - [TyText t]: the text t is an (open) fragment whose tokens are a type of the grammar; closed under the type formers
       of [sc_show];
     - doc comments are line comments: one raw line end each;
     - [PS top text cooked ns]: the text is a closed fragment whose raw tokens the newline automaton turns - from "nothing
       can end" as well as from "a line end is pending" - into the statements [cooked] separated by one nl each, each of
       them accepted by the parser ([StatOk]) with its count; pieces compose ([ps_app], [ps_concat]);
     - members, case classes, plain classes, aliases, helper aliases, variants, sealed trait + companion object:
       [sc_render_decl_gram]. *)
From Coq Require Import List Bool Lia ZifyBool ZifyN NArith String.
From TS Require Import Model.Str Model.Outcome Model.Unicode Model.Types Model.Parse Model.Lang.Common Model.Lang.Decl Model.Lang.Scala.
From TS Require Import Spec.C10Spec Spec.C10TsGrammar Spec.C10ScGrammar Proofs.C10_SCGrammarTok Proofs.C10_SCGrammarParse.
From TS Require Proofs.C10Lex Proofs.C10_TSGrammarTok Proofs.C10_TSGrammar.
Import ListNotations.
Local Open Scope N_scope.
Local Notation length := List.length (only parsing).

Ltac lit_cfrag := apply cfrag_compute; vm_compute; reflexivity.
Ltac lit_frag := apply frag_compute; vm_compute; reflexivity.

(* ------------------------------------------------------------------ names *)
Lemma ident_sc_ident s : c10_ident_ok s = true -> c10_sc_ident_ok s = true.
Proof.
  destruct s as [|c r]; [discriminate|]. unfold c10_ident_ok, c10_sc_ident_ok. rewrite !andb_true_iff. intros [Hc Hr]. split.
  - unfold c10_ident_start, c10_sc_letter in *. lia.
  - revert Hr. apply Proofs.C10Lex.forallb_impl. intros x Hx.
    unfold c10_ident_char, c10_sc_id_char, c10_sc_letter in *. lia.
Qed.

(* a name of the grammar: identifier-shaped and not a reserved word *)
Definition gname (n : str) : Prop := c10_sc_ident_ok n = true /\ nm n.

Lemma gname_lit w : c10_sc_ident_ok (lit w) = true -> c10_sc_kw (lit w) = false -> gname (lit w).
Proof. intros H1 H2. split; assumption. Qed.

(* literal pieces, in cons form *)
Definition Lit (a : str) (ta : list c10_utok) : Prop := forall b tb, Tk b tb -> Tk (a ++ b) (ta ++ tb).
Lemma lit_of a ta : CFrag a ta -> Lit a ta.
Proof. intros H. exact H. Qed.

(* ------------------------------------------------------------------ type expressions *)
Definition TyText (t : str) : Prop := exists tx, Frag t tx /\ Gt TTy tx.

Lemma tytext_ident n : gname n -> TyText n.
Proof. intros [H1 H2]. exists [UId n]. split; [apply frag_ident, H1|apply Gt_name, H2]. Qed.

Lemma tylist_text l : l <> [] -> Forall TyText l -> exists tl, Frag (join (lit ", ") l) tl /\ Gt TTys tl.
Proof.
  induction l as [|x r IH]; [congruence|]. intros _ H. inversion H as [|x0 r0 (tx & Hf & Hg) Hr]; subst.
  destruct r as [|y r].
  - exists tx. split; [exact Hf|apply Gt_one, Hg].
  - destruct (IH ltac:(discriminate) Hr) as (tl & Hfl & Hgl). exists (tx ++ [UP 44] ++ tl). split.
    + change (join (lit ", ") (x :: y :: r)) with (x ++ lit ", " ++ join (lit ", ") (y :: r)).
      apply frag_frag_app; [exact Hf| |reflexivity]. apply cfrag_frag_app; [lit_cfrag|exact Hfl].
    + apply Gt_cons; assumption.
Qed.

Lemma tytext_app n args : gname n -> args <> [] -> Forall TyText args ->
  TyText (n ++ lit "[" ++ join (lit ", ") args ++ lit "]").
Proof.
  intros [Hn1 Hn2] Hne Ha. destruct (tylist_text args Hne Ha) as (tl & Hfl & Hgl).
  exists ([UId n] ++ [UP 91] ++ tl ++ [UP 93]). split.
  - apply frag_frag_app; [apply frag_ident, Hn1| |reflexivity]. apply cfrag_frag_app; [lit_cfrag|].
    apply cfrag_frag. apply frag_cfrag_app; [exact Hfl|lit_cfrag|reflexivity].
  - exact (Gt_app n tl Hn2 Hgl).
Qed.

Lemma tytext_tuple es : es <> [] -> Forall TyText es -> TyText (lit "(" ++ join (lit ", ") es ++ lit ")").
Proof.
  intros Hne Ha. destruct (tylist_text es Hne Ha) as (tl & Hfl & Hgl).
  exists ([UP 40] ++ tl ++ [UP 41]). split.
  - apply cfrag_frag_app; [lit_cfrag|]. apply cfrag_frag. apply frag_cfrag_app; [exact Hfl|lit_cfrag|reflexivity].
  - exact (Gt_tuple tl Hgl).
Qed.

Lemma gname_Option : gname (lit "Option"). Proof. apply gname_lit; reflexivity. Qed.
Lemma gname_Vector : gname (lit "Vector"). Proof. apply gname_lit; reflexivity. Qed.
Lemma gname_Map : gname (lit "Map"). Proof. apply gname_lit; reflexivity. Qed.

Lemma tytext_map k v : TyText k -> TyText v -> TyText (lit "Map[" ++ k ++ lit ", " ++ v ++ lit "]").
Proof.
  intros (tk & Hfk & Hgk) (tv & Hfv & Hgv). exists ([UId (lit "Map"); UP 91] ++ tk ++ [UP 44] ++ tv ++ [UP 93]). split.
  - apply cfrag_frag_app; [lit_cfrag|]. apply frag_frag_app; [exact Hfk| |reflexivity].
    apply cfrag_frag_app; [lit_cfrag|]. apply cfrag_frag. apply frag_cfrag_app; [exact Hfv|lit_cfrag|reflexivity].
  - change ([UId (lit "Map"); UP 91] ++ tk ++ [UP 44] ++ tv ++ [UP 93]) with (UId (lit "Map") :: UP 91 :: tk ++ [UP 44] ++ tv ++ [UP 93]).
    replace (tk ++ [UP 44] ++ tv ++ [UP 93]) with ((tk ++ UP 44 :: tv) ++ [UP 93]) by (rewrite <- app_assoc; reflexivity).
    apply Gt_app; [reflexivity|]. apply Gt_cons; [exact Hgk|apply Gt_one, Hgv].
Qed.

(* a type tree all of whose names are names of the grammar and whose verbatim leaves are types of the grammar; a tuple
   form is never empty *)
Inductive c10_scg_texp : texp -> Prop :=
| SG_name n args : gname n -> Forall c10_scg_texp args -> c10_scg_texp (XName n args)
| SG_seq e : c10_scg_texp e -> c10_scg_texp (XSeq e)
| SG_fixed es : es <> [] -> Forall c10_scg_texp es -> c10_scg_texp (XFixed es)
| SG_map k v : c10_scg_texp k -> c10_scg_texp v -> c10_scg_texp (XMap k v)
| SG_opt e : c10_scg_texp e -> c10_scg_texp (XOpt e)
| SG_raw t : TyText t -> c10_scg_texp (XRaw t).

Lemma sc_show_tytext x : c10_scg_texp x -> TyText (sc_show x).
Proof.
  induction x as [n args IH | e IH | es IH | k v IHk IHv | e IH | t] using Proofs.C10Lex.texp_ind'; intros H; inversion H; subst.
  - assert (Ha : Forall TyText (map sc_show args)).
    { apply Forall_map. rewrite Forall_forall in *. intros a Ha. apply IH; auto. }
    destruct args as [|a l]; [apply tytext_ident; assumption|].
    change (sc_show (XName n (a :: l))) with (n ++ lit "[" ++ join (lit ", ") (map sc_show (a :: l)) ++ lit "]").
    apply tytext_app; [assumption|discriminate|exact Ha].
  - change (sc_show (XSeq e)) with (lit "Vector" ++ lit "[" ++ join (lit ", ") [sc_show e] ++ lit "]").
    apply tytext_app; [apply gname_Vector|discriminate|]. constructor; [auto|constructor].
  - change (sc_show (XFixed es)) with (lit "(" ++ join (lit ", ") (map sc_show es) ++ lit ")"). apply tytext_tuple.
    + destruct es; [congruence|discriminate].
    + apply Forall_map. rewrite Forall_forall in *. intros a Ha. apply IH; auto.
  - change (sc_show (XMap k v)) with (lit "Map[" ++ sc_show k ++ lit ", " ++ sc_show v ++ lit "]"). apply tytext_map; auto.
  - change (sc_show (XOpt e)) with (lit "Option" ++ lit "[" ++ join (lit ", ") [sc_show e] ++ lit "]").
    apply tytext_app; [apply gname_Option|discriminate|]. constructor; [auto|constructor].
  - assumption.
Qed.

(* ------------------------------------------------------------------ doc comments: one line comment per line *)
Definition docs_raw (docs : list str) : list c10_utok := repeat UNl (List.length docs).

Lemma tabs_blank n : forallb c10_sc_blank (sc_tabs n) = true.
Proof. unfold sc_tabs. induction n as [|n IH]; [reflexivity|]. cbn [repeat_str app forallb]. exact IH. Qed.

Lemma line_notnl c : Proofs.C10Lex.c10_line_ok c = true -> forallb notnl c = true.
Proof. unfold Proofs.C10Lex.c10_line_ok. apply Proofs.C10Lex.forallb_impl. intros x. unfold notnl. lia. Qed.

Lemma sc_comment_cfrag indent c : Proofs.C10Lex.c10_line_ok c = true -> CFrag (sc_write_comment indent c) [UNl].
Proof.
  intros H. unfold sc_write_comment. change [UNl] with ([] ++ [UNl]). apply cfrag_app; [apply cfrag_blank, tabs_blank|].
  change (lit "// " ++ c ++ sc_nl) with (47 :: 47 :: (32 :: c) ++ [ch_nl]). apply cfrag_line_comment.
  cbn [forallb]. rewrite (line_notnl c H). reflexivity.
Qed.

Lemma sc_comments_cfrag indent docs : forallb Proofs.C10Lex.c10_line_ok docs = true -> CFrag (sc_write_comments indent docs) (docs_raw docs).
Proof.
  unfold sc_write_comments, docs_raw. induction docs as [|c r IH]; intros H; [apply cfrag_nil|].
  cbn [forallb] in H. apply andb_true_iff in H as [Hc Hr]. cbn [map List.concat List.length repeat].
  change (UNl :: repeat UNl (List.length r)) with ([UNl] ++ repeat UNl (List.length r)).
  apply cfrag_app; [apply sc_comment_cfrag, Hc|exact (IH Hr)].
Qed.

(* ------------------------------------------------------------------ the newline automaton on the recurring raw shapes *)
Definition sepnl (p : bool) : list c10_utok := if p then [UNl] else [].

Lemma nr_docs docs regs p : NR regs p p (docs_raw docs) [] regs p p.
Proof. apply nr_nls_idle. Qed.
Lemma nr_off k regs ce : NR (false :: regs) ce false (repeat UNl k) [] (false :: regs) ce false.
Proof.
  induction k as [|k IH]; intros rest; [reflexivity|]. cbn [repeat app c10_sc_nls c10_sc_enabled]. rewrite andb_false_r. apply IH.
Qed.
Lemma nr_run a regs ce : forallb nonl a = true -> Bal a -> NR regs ce false a a regs (ce_after ce a) false.
Proof. intros H1 H2. pose proof (nr_nonl a H1 regs ce) as G. rewrite H2 in G. exact G. Qed.
Lemma nr_kw k regs ce p : c10_sc_can_begin (UId k) = true -> NR regs ce p [UId k] (sepnl p ++ [UId k]) regs (c10_sc_can_end (UId k)) false.
Proof. intros H. pose proof (nr_first (UId k) regs ce p eq_refl) as G. rewrite H, andb_true_r in G. exact G. Qed.
Lemma nr_open40 regs ce : NR regs ce false [UP 40] [UP 40] (false :: regs) false false.
Proof. intros rest. reflexivity. Qed.
Lemma nr_close41 regs ce : NR (false :: regs) ce false [UP 41] [UP 41] regs true false.
Proof. intros rest. reflexivity. Qed.
Lemma nr_open123 regs ce : NR regs ce false [UP 123] [UP 123] (true :: regs) false false.
Proof. intros rest. reflexivity. Qed.
Lemma nr_close125 regs ce pend : NR (true :: regs) ce pend [UP 125] [UP 125] regs true false.
Proof. intros rest. cbn [app c10_sc_nls c10_sc_can_begin]. change (negb _) with false. rewrite andb_false_r. reflexivity. Qed.
Lemma nr_two_nl regs : c10_sc_enabled regs = true -> NR regs true false [UNl; UNl] [] regs true true.
Proof. intros He. exact (nr_nls_pend 1 regs He). Qed.
Lemma nr_one_nl regs : c10_sc_enabled regs = true -> NR regs true false [UNl] [] regs true true.
Proof. intros He. exact (nr_nls_pend 0 regs He). Qed.

Lemma bal_p c : c <> 123 -> c <> 40 -> c <> 91 -> c <> 125 -> c <> 41 -> c <> 93 -> Bal [UP c].
Proof.
  intros. intros regs. unfold regs_after. cbn [fold_left c10_sc_region].
  replace (c =? 123) with false by lia. replace ((c =? 40) || (c =? 91)) with false by lia.
  replace ((c =? 125) || (c =? 41) || (c =? 93)) with false by lia. reflexivity.
Qed.
Lemma bal_cons_id n a : Bal a -> Bal (UId n :: a).
Proof. intros H. change (UId n :: a) with ([UId n] ++ a). apply bal_app; [apply bal_id|exact H]. Qed.
Lemma bal_cons_p c a : c <> 123 -> c <> 40 -> c <> 91 -> c <> 125 -> c <> 41 -> c <> 93 -> Bal a -> Bal (UP c :: a).
Proof. intros. change (UP c :: a) with ([UP c] ++ a). apply bal_app; [apply bal_p; assumption|assumption]. Qed.
Lemma bal_str : Bal [UStr].
Proof. intros regs. reflexivity. Qed.

Lemma gt_nonl t : Gt TTy t -> forallb nonl t = true.
Proof. intros H. exact (proj1 (gt_shape _ _ H)). Qed.
Lemma gt_bal t : Gt TTy t -> Bal t.
Proof. intros H. exact (proj1 (proj2 (gt_shape _ _ H))). Qed.
Lemma gt_ce t ce : Gt TTy t -> ce_after ce t = true.
Proof. intros H. exact (proj2 (proj2 (gt_shape _ _ H)) eq_refl ce). Qed.
Lemma ce_after_app2 ce a b : ce_after ce (a ++ b) = ce_after (ce_after ce a) b.
Proof. unfold ce_after. apply fold_left_app. Qed.

(* ------------------------------------------------------------------ pieces: text -> raw tokens -> statements *)
Definition pre (p : bool) (cooked : list (list c10_utok)) : list c10_utok :=
  match cooked with [] => [] | _ => sepnl p ++ seq_toks cooked end.
Definition ne {A} (l : list A) : bool := match l with [] => false | _ => true end.

Definition PS (top : bool) (text : str) (cooked : list (list c10_utok)) (ns : list nat) : Prop :=
  exists raw, CFrag text raw /\
    (forall regs p, c10_sc_enabled regs = true -> NR regs p p raw (pre p cooked) regs (p || ne cooked) (p || ne cooked)) /\
    Forall2 (StatOk top) cooked ns.

Lemma seq_toks_app ca cb : ca <> [] -> cb <> [] -> seq_toks (ca ++ cb) = seq_toks ca ++ UNl :: seq_toks cb.
Proof.
  induction ca as [|d r IH]; intros Ha Hb; [congruence|]. destruct r as [|d2 r].
  - cbn [app]. destruct cb as [|c cb]; [congruence|]. reflexivity.
  - change ((d :: d2 :: r) ++ cb) with (d :: d2 :: r ++ cb).
    change (seq_toks (d :: d2 :: r ++ cb)) with (d ++ UNl :: seq_toks ((d2 :: r) ++ cb)). rewrite IH by (discriminate || exact Hb).
    change (seq_toks (d :: d2 :: r)) with (d ++ UNl :: seq_toks (d2 :: r)). rewrite <- app_assoc. reflexivity.
Qed.

Lemma ps_nil top : PS top [] [] [].
Proof.
  exists []. split; [apply cfrag_nil|]. split; [|constructor]. intros regs p _. cbn [pre ne]. rewrite orb_false_r. apply nr_nil.
Qed.

Lemma ps_app top a ca na b cb nb : PS top a ca na -> PS top b cb nb -> PS top (a ++ b) (ca ++ cb) (na ++ nb).
Proof.
  intros (ra & Fa & Na & Sa) (rb & Fb & Nb & Sb). exists (ra ++ rb). split; [apply cfrag_app; assumption|].
  split; [|apply Forall2_app; assumption]. intros regs p He.
  assert (Eo : pre p ca ++ pre (p || ne ca) cb = pre p (ca ++ cb)).
  { destruct ca as [|d ca]; [cbn [pre ne app]; rewrite orb_false_r; reflexivity|]. destruct cb as [|e cb].
    - rewrite !app_nil_r. cbn [pre]. rewrite ?app_nil_r. reflexivity.
    - cbn [ne]. rewrite orb_true_r. change (pre true (e :: cb)) with (UNl :: seq_toks (e :: cb)).
      change (pre p ((d :: ca) ++ e :: cb)) with (sepnl p ++ seq_toks ((d :: ca) ++ e :: cb)).
      rewrite seq_toks_app by discriminate. cbn [pre]. rewrite <- app_assoc. reflexivity. }
  assert (Es : (p || ne ca) || ne cb = p || ne (ca ++ cb)).
  { destruct ca; [cbn [ne app]; rewrite orb_false_r; reflexivity|]. cbn [ne app]. rewrite !orb_true_r. reflexivity. }
  rewrite <- Eo, <- Es. eapply nr_app; [apply Na, He|apply Nb, He].
Qed.

(* a piece with at least one statement, every statement counting at least one definition *)
Definition NoPkg (d : list c10_utok) : Prop := exists k r, d = UId k :: r /\ c10_sc_is_kw "package" (UId k) = false.
Definition PSd (top : bool) (text : str) : Prop :=
  exists cooked ns, PS top text cooked ns /\ cooked <> [] /\ Forall (fun n => (1 <= n)%nat) ns /\ Forall NoPkg cooked.
Lemma nopkg_kw w r : str_eqb (lit w) (lit "package") = false -> NoPkg (kwt w :: r).
Proof. intros H. exists (lit w), r. split; [reflexivity|exact H]. Qed.

Lemma sum_ge ns : Forall (fun n => (1 <= n)%nat) ns -> (List.length ns <= fold_right plus O ns)%nat.
Proof. induction 1 as [|n ns Hn _ IH]; cbn [fold_right List.length]; lia. Qed.

Lemma f2_length {A B} (R : A -> B -> Prop) l l' : Forall2 R l l' -> List.length l = List.length l'.
Proof. induction 1; cbn [List.length]; congruence. Qed.

Lemma ps_concat top parts : Forall (PSd top) parts ->
  exists cooked ns, PS top (List.concat parts) cooked ns /\ (List.length parts <= fold_right plus O ns)%nat /\ Forall NoPkg cooked /\
                    (parts <> [] -> cooked <> []) /\ Forall (fun n => (1 <= n)%nat) ns.
Proof.
  induction 1 as [|t r (c & n & Hps & Hne & Hn & Hk) _ (cs & ns & Hpss & Hlen & Hks & _ & Hns)].
  - exists [], []. split; [apply ps_nil|]. split; [cbn; lia|]. split; [constructor|split; [congruence|constructor]].
  - exists (c ++ cs), (n ++ ns). split; [cbn [List.concat]; apply ps_app; assumption|].
    split; [|split; [apply Forall_app; split; assumption|split; [intros _; destruct c; [congruence|discriminate]|apply Forall_app; split; assumption]]].
    assert (G : fold_right plus O (n ++ ns) = (fold_right plus O n + fold_right plus O ns)%nat).
    { clear. induction n as [|x n IH]; [reflexivity|]. cbn [app fold_right]. rewrite IH. lia. }
    rewrite G. pose proof (sum_ge n Hn) as G2. destruct Hps as (_ & _ & _ & F2). pose proof (f2_length _ _ _ F2) as G3.
    destruct c; [congruence|]. cbn [List.length] in *. lia.
Qed.

(* a statement without a line end inside: docs, the statement, one or more line ends *)
Lemma ps_simple top text docs k D' n j :
  CFrag text (docs_raw docs ++ (UId k :: D') ++ repeat UNl (S j)) ->
  c10_sc_can_begin (UId k) = true -> forallb nonl D' = true -> Bal D' -> ce_after false (UId k :: D') = true ->
  StatOk top (UId k :: D') n -> PS top text [UId k :: D'] [n].
Proof.
  intros Hf Hb Hnl Hbal Hce Hst. eexists. split; [exact Hf|]. split; [|constructor; [exact Hst|constructor]].
  intros regs p He rest. rewrite <- !app_assoc. rewrite (nr_docs docs regs p _).
  change ((UId k :: D') ++ ?x) with ([UId k] ++ D' ++ x). rewrite (nr_kw k regs p p Hb _). rewrite (nr_run D' regs _ Hnl Hbal _).
  change (ce_after (c10_sc_can_end (UId k)) D') with (ce_after false (UId k :: D')). rewrite Hce.
  rewrite (nr_nls_pend j regs He _). cbn [pre ne seq_toks app]. rewrite orb_true_r. rewrite <- !app_assoc. reflexivity.
Qed.

(* ------------------------------------------------------------------ names with generic parameters / type arguments *)
Lemma names_frag gs : gs <> [] -> Forall gname gs -> Frag (join (lit ", ") gs) (names_toks gs).
Proof.
  induction gs as [|g r IH]; [congruence|]. intros _ H. inversion H as [|g0 r0 [Hg _] Hr]; subst. destruct r as [|g2 r].
  - cbn [join names_toks]. apply frag_ident, Hg.
  - change (join (lit ", ") (g :: g2 :: r)) with (g ++ lit ", " ++ join (lit ", ") (g2 :: r)).
    change (names_toks (g :: g2 :: r)) with ([UId g] ++ [UP 44] ++ names_toks (g2 :: r)).
    apply frag_frag_app; [apply frag_ident, Hg| |reflexivity]. apply cfrag_frag_app; [lit_cfrag|]. apply IH; [discriminate|exact Hr].
Qed.

Lemma gens_cfrag gs : Forall gname gs -> CFrag (sc_generic_parameters gs) (gens_toks gs).
Proof.
  intros H. destruct gs as [|g r]; [apply cfrag_nil|]. unfold sc_generic_parameters, gens_toks.
  change (UP 91 :: names_toks (g :: r) ++ [UP 93]) with ([UP 91] ++ names_toks (g :: r) ++ [UP 93]).
  apply cfrag_app; [lit_cfrag|]. apply frag_cfrag_app; [apply names_frag; [discriminate|exact H]|lit_cfrag|reflexivity].
Qed.

Lemma gnames_nm gs : Forall gname gs -> Forall nm gs.
Proof. apply Forall_impl. intros g [_ H]. exact H. Qed.

(* name[G, H] followed by something that starts with a separator *)
Lemma name_gens_tk name gs b tb : gname name -> Forall gname gs -> ssep b = true -> Tk b tb ->
  Tk (name ++ sc_generic_parameters gs ++ b) (UId name :: gens_toks gs ++ tb).
Proof.
  intros [Hn _] Hg Hs Hb. change (UId name :: ?x) with ([UId name] ++ x). apply (frag_ident name Hn).
  - destruct gs as [|g r]; [cbn [sc_generic_parameters app]; destruct b; [discriminate|exact Hs]|reflexivity].
  - apply (gens_cfrag gs Hg), Hb.
Qed.

Lemma name_gens_type name gs : gname name -> Forall gname gs -> Gt TTy (UId name :: gens_toks gs).
Proof. intros [_ Hn] Hg. apply name_args_gt; [exact Hn|apply gnames_nm, Hg]. Qed.

Lemma nonl_cons_id n a : forallb nonl a = true -> forallb nonl (UId n :: a) = true.
Proof. intros H. exact H. Qed.

(* ------------------------------------------------------------------ aliases, plain classes, helper aliases *)
Lemma L_nl : forall b tb, Tk b tb -> Tk (sc_nl ++ b) (UNl :: tb).
Proof. assert (H : CFrag sc_nl [UNl]) by lit_cfrag. exact H. Qed.
Lemma L_type : forall b tb, Tk b tb -> Tk (lit "type " ++ b) (kwt "type" :: tb).
Proof. assert (H : CFrag (lit "type ") [kwt "type"]) by lit_cfrag. exact H. Qed.
Lemma L_eq : forall b tb, Tk b tb -> Tk (lit " = " ++ b) (UP 61 :: tb).
Proof. assert (H : CFrag (lit " = ") [UP 61]) by lit_cfrag. exact H. Qed.

Lemma alias_shape name gs tx : Gt TTy tx ->
  forallb nonl (UId name :: gens_toks gs ++ UP 61 :: tx) = true /\ Bal (UId name :: gens_toks gs ++ UP 61 :: tx) /\
  forall k, ce_after false (UId k :: UId name :: gens_toks gs ++ UP 61 :: tx) = true.
Proof.
  intros Ht. split; [|split].
  - cbn [forallb nonl]. rewrite forallb_app, gens_nonl. cbn [forallb nonl]. exact (gt_nonl _ Ht).
  - apply bal_cons_id. apply bal_app; [apply gens_bal|]. apply bal_cons_p; try lia. apply gt_bal, Ht.
  - intros k. change (UId k :: UId name :: gens_toks gs ++ UP 61 :: tx) with ((UId k :: UId name :: gens_toks gs ++ [UP 61]) ++ tx) || idtac.
    replace (UId k :: UId name :: gens_toks gs ++ UP 61 :: tx) with ((UId k :: UId name :: gens_toks gs ++ [UP 61]) ++ tx)
      by (cbn [app]; rewrite <- app_assoc; reflexivity).
    rewrite ce_after_app2. apply gt_ce, Ht.
Qed.

Lemma alias_line_tk name gs ty b tb : gname name -> Forall gname gs -> forall tx, Frag (sc_show ty) tx ->
  Tk b tb -> Tk (lit "type " ++ name ++ sc_generic_parameters gs ++ lit " = " ++ sc_show ty ++ sc_nl ++ b)
               (kwt "type" :: UId name :: gens_toks gs ++ UP 61 :: tx ++ UNl :: tb).
Proof.
  intros Hn Hg tx Hf Hb. apply L_type. apply name_gens_tk; [exact Hn|exact Hg|reflexivity|]. apply L_eq.
  apply Hf; [reflexivity|]. apply L_nl, Hb.
Qed.

Lemma ps_alias docs name gs ty : forallb Proofs.C10Lex.c10_line_ok docs = true -> gname name -> Forall gname gs -> c10_scg_texp ty ->
  PSd false (sc_render_decl (SCAlias docs name gs ty)).
Proof.
  intros Hd Hn Hg Hty. destruct (sc_show_tytext _ Hty) as (tx & Hf & Hgt).
  destruct (alias_shape name gs tx Hgt) as (S1 & S2 & S3).
  exists [kwt "type" :: UId name :: gens_toks gs ++ UP 61 :: tx], [1%nat].
  split; [|split; [discriminate|split; [constructor; [lia|constructor]|constructor; [apply nopkg_kw; reflexivity|constructor]]]].
  apply (ps_simple false _ docs (lit "type") _ 1 1); [|reflexivity|exact S1|exact S2|apply S3|apply stat_alias; [exact (proj2 Hn)|apply gnames_nm, Hg|exact Hgt]].
  intros b tb Hb. cbn [sc_render_decl]. rewrite <- !app_assoc. apply (sc_comments_cfrag 0 docs Hd).
  match goal with |- Tk _ ?t => replace t with (kwt "type" :: UId name :: gens_toks gs ++ UP 61 :: tx ++ UNl :: UNl :: tb)
    by (cbn [app repeat]; rewrite <- ?app_assoc; reflexivity) end.
  apply alias_line_tk; [exact Hn|exact Hg|exact Hf|]. apply L_nl, Hb.
Qed.

(* the block of helper aliases: one line each, then an empty line *)
Lemma ps_helper_lines l : Forall (fun nt : str * texp => gname (fst nt) /\ c10_scg_texp (snd nt)) l ->
  exists cooked ns, PS false (List.concat (map (fun nt : str * texp => lit "type " ++ fst nt ++ lit " = " ++ sc_show (snd nt) ++ sc_nl) l)) cooked ns /\
                    List.length cooked = List.length l /\ Forall (fun n => (1 <= n)%nat) ns /\ Forall NoPkg cooked.
Proof.
  induction 1 as [|[n t] l [Hn Ht] _ (cs & ns & Hps & Hl & Hns & Hks)].
  - exists [], []. split; [apply ps_nil|]. split; [reflexivity|split; constructor].
  - cbn [fst snd] in *. destruct (sc_show_tytext _ Ht) as (tx & Hf & Hgt). destruct (alias_shape n [] tx Hgt) as (S1 & S2 & S3).
    exists ([kwt "type" :: UId n :: gens_toks [] ++ UP 61 :: tx] ++ cs), ([1%nat] ++ ns).
    split; [|split; [cbn [List.length app]; rewrite Hl; reflexivity|split; [constructor; [lia|exact Hns]|constructor; [apply nopkg_kw; reflexivity|exact Hks]]]].
    cbn [map List.concat]. apply ps_app; [|exact Hps].
    apply (ps_simple false _ [] (lit "type") _ 1 0); [|reflexivity|exact S1|exact S2|apply S3|apply stat_alias; [exact (proj2 Hn)|constructor|exact Hgt]].
    intros b tb Hb.
    match goal with |- Tk _ ?t => replace t with (kwt "type" :: UId n :: gens_toks [] ++ UP 61 :: tx ++ UNl :: tb)
      by (cbn [docs_raw List.length app repeat gens_toks]; rewrite <- ?app_assoc; reflexivity) end.
    rewrite <- !app_assoc. exact (alias_line_tk n [] t b tb Hn (Forall_nil _) tx Hf Hb).
Qed.

Lemma ps_blank_line top : PS top sc_nl [] [].
Proof.
  exists [UNl]. split; [lit_cfrag|]. split; [|constructor]. intros regs p _. cbn [pre ne]. rewrite orb_false_r. exact (nr_nls_idle 1 regs p).
Qed.

Lemma L_class : forall b tb, Tk b tb -> Tk (lit "class " ++ b) (kwt "class" :: tb).
Proof. assert (H : CFrag (lit "class ") [kwt "class"]) by lit_cfrag. exact H. Qed.
Lemma L_ext_ser : forall b tb, Tk b tb -> Tk (lit " extends Serializable" ++ sc_nl ++ sc_nl ++ b) (kwt "extends" :: UId (lit "Serializable") :: UNl :: UNl :: tb).
Proof.
  assert (H : CFrag (lit " extends Serializable" ++ sc_nl ++ sc_nl) [kwt "extends"; UId (lit "Serializable"); UNl; UNl]) by lit_cfrag.
  intros b tb Hb. specialize (H b tb Hb). rewrite <- !app_assoc in H. exact H.
Qed.

Lemma ps_empty_class top docs name : forallb Proofs.C10Lex.c10_line_ok docs = true -> gname name ->
  PSd top (sc_render_decl (SCEmptyClass docs name)).
Proof.
  intros Hd [Hn1 Hn2].
  exists [kwt "class" :: UId name :: kwt "extends" :: [UId (lit "Serializable")]], [1%nat].
  split; [|split; [discriminate|split; [constructor; [lia|constructor]|constructor; [apply nopkg_kw; reflexivity|constructor]]]].
  apply (ps_simple top _ docs (lit "class") _ 1 1); [|reflexivity|reflexivity| | |].
  - intros b tb Hb. cbn [sc_render_decl]. rewrite <- !app_assoc. apply (sc_comments_cfrag 0 docs Hd). cbn [repeat app].
    apply L_class. change (UId name :: ?x) with ([UId name] ++ x). apply (frag_ident name Hn1); [reflexivity|]. apply L_ext_ser, Hb.
  - apply bal_cons_id, bal_cons_id, bal_id.
  - reflexivity.
  - apply (stat_class top name _ O); [exact Hn2|]. apply templ_ext, Gt_name. reflexivity.
Qed.

(* ------------------------------------------------------------------ members and case classes *)
Definition c10_scg_member_ok (m : sc_member) : Prop :=
  forallb Proofs.C10Lex.c10_line_ok (scm_docs m) = true /\ gname (scm_name m) /\ c10_scg_texp (scm_type m) /\ scm_default m <> SCDefUnderscore.

Definition member_dflt (m : sc_member) : option str := match scm_default m with SCDefNone => Some (lit "None") | _ => None end.

Lemma L_tab : forall b tb, Tk b tb -> Tk ([ch_tab] ++ b) tb.
Proof. assert (H : CFrag [ch_tab] []) by lit_cfrag. exact H. Qed.
Lemma L_colon : forall b tb, Tk b tb -> Tk (lit ": " ++ b) (UP 58 :: tb).
Proof. assert (H : CFrag (lit ": ") [UP 58]) by lit_cfrag. exact H. Qed.

(* a member: docs, then name: type [= None]; an OPEN fragment (a comma or a line end follows) *)
Lemma member_text m : c10_scg_member_ok m -> exists tx, Gt TTy tx /\
  Frag (sc_render_member m) (docs_raw (scm_docs m) ++ member_toks (scm_name m) tx (member_dflt m)).
Proof.
  intros (Hd & [Hn1 Hn2] & Hty & Hdef). destruct (sc_show_tytext _ Hty) as (tx & Hf & Hgt). exists tx. split; [exact Hgt|].
  intros b tb Hs Hb. unfold sc_render_member, member_toks, member_dflt. rewrite <- !app_assoc.
  apply (sc_comments_cfrag 1 _ Hd). apply L_tab. cbn [app].
  change (UId (scm_name m) :: ?x) with ([UId (scm_name m)] ++ x). apply (frag_ident _ Hn1); [reflexivity|]. apply L_colon.
  rewrite <- app_assoc. destruct (scm_default m); [| |congruence].
  - cbn [dflt_toks app]. apply Hf; [exact Hs|exact Hb].
  - assert (L : Frag (lit " = None") [UP 61; UId (lit "None")]) by lit_frag.
    apply Hf; [reflexivity|]. exact (L b tb Hs Hb).
Qed.

Lemma member_shape name tx d : Gt TTy tx -> forallb nonl (member_toks name tx d) = true /\ Bal (member_toks name tx d).
Proof.
  intros Ht. unfold member_toks. split.
  - cbn [forallb nonl]. rewrite forallb_app, (gt_nonl _ Ht). destruct d; reflexivity.
  - apply bal_cons_id. apply bal_cons_p; try lia. apply bal_app; [apply gt_bal, Ht|]. destruct d; [|apply bal_nil].
    cbn [dflt_toks]. apply bal_cons_p; try lia. apply bal_id.
Qed.

Lemma nr_off_docs docs regs ce : NR (false :: regs) ce false (docs_raw docs) [] (false :: regs) ce false.
Proof. apply nr_off. Qed.

Lemma L_comma_nl : forall b tb, Tk b tb -> Tk ((lit "," ++ sc_nl) ++ b) (UP 44 :: UNl :: tb).
Proof. assert (H : CFrag (lit "," ++ sc_nl) [UP 44; UNl]) by lit_cfrag. exact H. Qed.
Lemma L_nl_rparen : forall b tb, Tk b tb -> Tk (sc_nl ++ lit ")" ++ b) (UNl :: UP 41 :: tb).
Proof.
  assert (H : CFrag (sc_nl ++ lit ")") [UNl; UP 41]) by lit_cfrag. intros b tb Hb. specialize (H b tb Hb). rewrite <- !app_assoc in H. exact H.
Qed.

(* the members of a case class up to and including the closing parenthesis, inside the (disabled) parenthesis region *)
Lemma members_text ms : ms <> [] -> Forall c10_scg_member_ok ms ->
  exists raw cooked, CFrag (join (lit "," ++ sc_nl) (map sc_render_member ms) ++ sc_nl ++ lit ")") raw /\
    (forall regs ce, NR (false :: regs) ce false raw (params_toks cooked) regs true false) /\
    Forall MemberToks cooked /\ cooked <> [].
Proof.
  induction ms as [|m r IH]; [congruence|]. intros _ H. inversion H as [|m0 r0 Hm Hr]; subst.
  destruct (member_text m Hm) as (tx & Hgt & Hfm). destruct (member_shape (scm_name m) tx (member_dflt m) Hgt) as [S1 S2].
  assert (Hmt : MemberToks (member_toks (scm_name m) tx (member_dflt m))).
  { apply param_ok; [exact (proj2 (proj1 (proj2 Hm)))|exact Hgt|]. unfold member_dflt. destruct (scm_default m); try exact I. reflexivity. }
  destruct r as [|m2 r].
  - exists ((docs_raw (scm_docs m) ++ member_toks (scm_name m) tx (member_dflt m)) ++ [UNl; UP 41]), [member_toks (scm_name m) tx (member_dflt m)].
    split; [|split; [|split; [constructor; [exact Hmt|constructor]|discriminate]]].
    + cbn [map join]. apply frag_cfrag_app; [exact Hfm| |reflexivity]. intros b tb Hb. rewrite <- app_assoc. apply L_nl_rparen, Hb.
    + intros regs ce rest. rewrite <- !app_assoc. rewrite (nr_off_docs (scm_docs m) regs ce _). rewrite (nr_run _ (false :: regs) ce S1 S2 _).
      change ([UNl; UP 41] ++ rest) with (repeat UNl 1 ++ [UP 41] ++ rest). rewrite (nr_off 1 regs _ _). rewrite (nr_close41 regs _ _).
      cbn [app params_toks]. rewrite <- app_assoc. reflexivity.
  - destruct (IH ltac:(discriminate) Hr) as (raw & cooked & Hf & Hn & Hc & Hne).
    exists ((docs_raw (scm_docs m) ++ member_toks (scm_name m) tx (member_dflt m)) ++ [UP 44; UNl] ++ raw), (member_toks (scm_name m) tx (member_dflt m) :: cooked).
    split; [|split; [|split; [constructor; assumption|discriminate]]].
    + change (join (lit "," ++ sc_nl) (map sc_render_member (m :: m2 :: r)))
        with (sc_render_member m ++ (lit "," ++ sc_nl) ++ join (lit "," ++ sc_nl) (map sc_render_member (m2 :: r))).
      rewrite <- !app_assoc. intros b tb Hb. rewrite <- !app_assoc. rewrite (app_assoc (docs_raw (scm_docs m))). apply Hfm; [reflexivity|].
      change ([UP 44; UNl] ++ raw ++ tb) with (UP 44 :: UNl :: raw ++ tb).
      rewrite (app_assoc (lit ",")). apply L_comma_nl. specialize (Hf b tb Hb). rewrite <- !app_assoc in Hf. exact Hf.
    + intros regs ce rest. rewrite <- !app_assoc. rewrite (nr_off_docs (scm_docs m) regs ce _). rewrite (nr_run _ (false :: regs) ce S1 S2 _).
      change ([UP 44; UNl] ++ raw ++ rest) with ([UP 44] ++ repeat UNl 1 ++ raw ++ rest).
      rewrite (nr_run [UP 44] (false :: regs) _ eq_refl bal_comma _). rewrite (nr_off 1 regs _ _). rewrite (Hn regs _ rest). cbn [app].
      destruct cooked as [|c0 cs]; [congruence|].
      change (params_toks (member_toks (scm_name m) tx (member_dflt m) :: c0 :: cs))
        with (member_toks (scm_name m) tx (member_dflt m) ++ UP 44 :: params_toks (c0 :: cs)).
      rewrite <- app_assoc. reflexivity.
Qed.

Lemma L_case_class : forall b tb, Tk b tb -> Tk (lit "case class " ++ b) (kwt "case" :: kwt "class" :: tb).
Proof. assert (H : CFrag (lit "case class ") [kwt "case"; kwt "class"]) by lit_cfrag. exact H. Qed.
Lemma L_lparen_nl : forall b tb, Tk b tb -> Tk (lit " (" ++ sc_nl ++ b) (UP 40 :: UNl :: tb).
Proof.
  assert (H : CFrag (lit " (" ++ sc_nl) [UP 40; UNl]) by lit_cfrag. intros b tb Hb. specialize (H b tb Hb). rewrite <- !app_assoc in H. exact H.
Qed.

Lemma name_gens_shape name gs : forallb nonl (UId name :: gens_toks gs) = true /\ Bal (UId name :: gens_toks gs).
Proof. split; [cbn [forallb nonl]; apply gens_nonl|apply bal_cons_id, gens_bal]. Qed.

Lemma ps_case_class top docs name gs ms : forallb Proofs.C10Lex.c10_line_ok docs = true -> gname name -> Forall gname gs ->
  ms <> [] -> Forall c10_scg_member_ok ms -> PSd top (sc_render_decl (SCCaseClass docs name gs ms)).
Proof.
  intros Hd Hn Hg Hne Hms. destruct (members_text ms Hne Hms) as (raw & cooked & Hf & Hnr & Hc & Hcne).
  set (D := kwt "case" :: kwt "class" :: UId name :: gens_toks gs ++ UP 40 :: params_toks cooked ++ []).
  exists [D], [1%nat]. split; [|split; [discriminate|split; [constructor; [lia|constructor]|constructor; [apply nopkg_kw; reflexivity|constructor]]]].
  exists (docs_raw docs ++ kwt "case" :: kwt "class" :: UId name :: gens_toks gs ++ UP 40 :: UNl :: raw ++ [UNl; UNl]).
  split; [|split].
  - intros b tb Hb. cbn [sc_render_decl]. rewrite <- !app_assoc. apply (sc_comments_cfrag 0 docs Hd). cbn [app].
    apply L_case_class. rewrite <- !app_assoc. apply name_gens_tk; [exact Hn|exact Hg|reflexivity|]. cbn [app]. apply L_lparen_nl.
    rewrite <- !app_assoc. specialize (Hf (sc_nl ++ sc_nl ++ b) ([UNl; UNl] ++ tb)). rewrite <- !app_assoc in Hf. apply Hf.
    cbn [app]. apply L_nl. apply L_nl, Hb.
  - intros regs p He rest. rewrite <- !app_assoc. rewrite (nr_docs docs regs p _). cbn [app].
    change (kwt "case" :: ?x) with ([kwt "case"] ++ x). rewrite (nr_kw (lit "case") regs p p eq_refl _).
    change (kwt "class" :: UId name :: ?x) with ([kwt "class"] ++ UId name :: x).
    rewrite (nr_run [kwt "class"] regs _ eq_refl (bal_id _) _).
    destruct (name_gens_shape name gs) as [S1 S2].
    rewrite <- !app_assoc. change (UId name :: gens_toks gs ++ ?x) with ((UId name :: gens_toks gs) ++ x).
    rewrite (nr_run _ regs _ S1 S2 _).
    cbn [app]. rewrite <- !app_assoc.
    change (UP 40 :: UNl :: ?x) with ([UP 40] ++ repeat UNl 1 ++ x). rewrite (nr_open40 regs _ _). rewrite (nr_off 1 regs _ _).
    rewrite (Hnr regs _ _). rewrite (nr_two_nl regs He _).
    cbn [pre ne seq_toks]. rewrite orb_true_r. unfold D. rewrite app_nil_r. cbn [app]. rewrite <- !app_assoc. cbn [app]. rewrite <- !app_assoc. reflexivity.
  - constructor; [|constructor]. unfold D. apply (stat_case_class top name gs cooked [] O); [exact (proj2 Hn)|apply gnames_nm, Hg|exact Hcne|exact Hc|apply templ_none].
Qed.

(* ------------------------------------------------------------------ variants: case objects / case classes of the companion object *)
Definition val_stat : list c10_utok := kwt "val" :: UId (lit "serialName") :: UP 58 :: [UId (lit "String")] ++ [UP 61; UStr].
Definition def_stat : list c10_utok := kwt "def" :: UId (lit "serialName") :: UP 58 :: [UId (lit "String")].

Lemma gname_serialName : gname (lit "serialName"). Proof. apply gname_lit; reflexivity. Qed.
Lemma gt_String : Gt TTy [UId (lit "String")]. Proof. apply Gt_name. reflexivity. Qed.

Lemma val_stat_ok : StatOk false val_stat 1.
Proof. apply stat_val_str; [exact (proj2 gname_serialName)|exact gt_String]. Qed.
Lemma def_stat_ok : StatOk false def_stat 1.
Proof. apply stat_def; [exact (proj2 gname_serialName)|exact gt_String]. Qed.

Lemma L_extends : forall b tb, Tk b tb -> Tk (lit " extends " ++ b) (kwt "extends" :: tb).
Proof. assert (H : CFrag (lit " extends ") [kwt "extends"]) by lit_cfrag. exact H. Qed.
Lemma L_val_open : forall b tb, Tk b tb ->
  Tk (lit " {" ++ sc_nl ++ [ch_tab; ch_tab] ++ lit "val serialName: String = " ++ b)
     (UP 123 :: UNl :: kwt "val" :: UId (lit "serialName") :: UP 58 :: UId (lit "String") :: UP 61 :: tb).
Proof.
  assert (H : CFrag (lit " {" ++ sc_nl ++ [ch_tab; ch_tab] ++ lit "val serialName: String = ")
                    [UP 123; UNl; kwt "val"; UId (lit "serialName"); UP 58; UId (lit "String"); UP 61]) by lit_cfrag.
  intros b tb Hb. specialize (H b tb Hb). rewrite <- ?app_assoc in H. exact H.
Qed.
Lemma L_val_close : forall b tb, Tk b tb -> Tk (sc_nl ++ [ch_tab] ++ lit "}" ++ sc_nl ++ b) (UNl :: UP 125 :: UNl :: tb).
Proof.
  assert (H : CFrag (sc_nl ++ [ch_tab] ++ lit "}" ++ sc_nl) [UNl; UP 125; UNl]) by lit_cfrag.
  intros b tb Hb. specialize (H b tb Hb). rewrite <- ?app_assoc in H. exact H.
Qed.

Ltac norm_app := repeat (progress (rewrite <- ?app_assoc; cbn [app])).

Lemma cfrag_wire w : forallb c10_key_char w = true -> CFrag (debug_str w) [UStr].
Proof. intros H. destruct (Proofs.C10_TSGrammar.debug_key w H) as [-> Hp]. apply cfrag_quoted, Hp. Qed.

Lemma pre_false c : pre false c = seq_toks c.
Proof. destruct c; reflexivity. Qed.

(* the common part: a head (case object N / case class N[G](content: T)), extends P[G], the one-member body *)
Lemma variant_piece docs ht hr parent pg wire :
  forallb Proofs.C10Lex.c10_line_ok docs = true -> gname parent -> Forall gname pg -> forallb c10_key_char wire = true ->
  (forall b tb, ssep b = true -> Tk b tb -> Tk (ht ++ b) (kwt "case" :: hr ++ tb)) ->
  forallb nonl hr = true -> Bal hr ->
  (forall tm n, TemplOk tm n -> StatOk false (kwt "case" :: hr ++ tm) 1) ->
  PSd false (sc_write_comments 1 docs ++ [ch_tab] ++ ht ++ lit " extends " ++ parent ++ sc_generic_parameters pg ++ lit " {" ++ sc_nl ++
             [ch_tab; ch_tab] ++ lit "val serialName: String = " ++ debug_str wire ++ sc_nl ++ [ch_tab] ++ lit "}" ++ sc_nl).
Proof.
  intros Hd Hp Hpg Hw Hht Hnl Hbal Hst.
  set (body := seq_toks [val_stat] ++ [UP 125]).
  set (tm := kwt "extends" :: (UId parent :: gens_toks pg) ++ UP 123 :: body).
  assert (Htm : TemplOk tm 1).
  { apply (templ_ext_body (UId parent :: gens_toks pg) body (fold_right plus O [1%nat])); [apply name_gens_type; assumption|].
    apply body_ok. constructor; [exact val_stat_ok|constructor]. }
  exists [kwt "case" :: hr ++ tm], [1%nat]. split; [|split; [discriminate|split; [constructor; [lia|constructor]|constructor; [apply nopkg_kw; reflexivity|constructor]]]].
  exists (docs_raw docs ++ (kwt "case" :: hr) ++ kwt "extends" :: (UId parent :: gens_toks pg) ++
          UP 123 :: UNl :: kwt "val" :: UId (lit "serialName") :: UP 58 :: UId (lit "String") :: UP 61 :: UStr :: UNl :: UP 125 :: [UNl]).
  split; [|split; [|constructor; [exact (Hst tm 1%nat Htm)|constructor]]].
  - intros b tb Hb. rewrite <- ?app_assoc. apply (sc_comments_cfrag 1 docs Hd). apply L_tab. cbn [app]. rewrite <- ?app_assoc.
    apply Hht; [reflexivity|]. cbn [app]. apply L_extends. rewrite <- ?app_assoc. cbn [app].
    apply name_gens_tk; [exact Hp|exact Hpg|reflexivity|]. apply L_val_open.
    change (UStr :: ?x) with ([UStr] ++ x). apply (cfrag_wire wire Hw). apply L_val_close, Hb.
  - intros regs p He rest. rewrite <- ?app_assoc. rewrite (nr_docs docs regs p _). cbn [app].
    change (kwt "case" :: ?x) with ([kwt "case"] ++ x). rewrite (nr_kw (lit "case") regs p p eq_refl _).
    rewrite <- ?app_assoc. rewrite (nr_run hr regs _ Hnl Hbal _). cbn [app].
    change (kwt "extends" :: UId parent :: ?x) with ([kwt "extends"] ++ UId parent :: x).
    rewrite (nr_run [kwt "extends"] regs _ eq_refl (bal_id _) _).
    destruct (name_gens_shape parent pg) as [S1 S2]. rewrite <- ?app_assoc.
    change (UId parent :: gens_toks pg ++ ?x) with ((UId parent :: gens_toks pg) ++ x). rewrite (nr_run _ regs _ S1 S2 _).
    change (UP 123 :: UNl :: kwt "val" :: ?x) with ([UP 123] ++ repeat UNl 1 ++ [kwt "val"] ++ x).
    rewrite (nr_open123 regs _ _). rewrite (nr_nls_idle 1 (true :: regs) false _).
    rewrite (nr_kw (lit "val") (true :: regs) false false eq_refl _).
    change (UId (lit "serialName") :: UP 58 :: UId (lit "String") :: UP 61 :: UStr :: UNl :: UP 125 :: UNl :: rest)
      with ([UId (lit "serialName"); UP 58; UId (lit "String"); UP 61; UStr] ++ [UNl] ++ [UP 125] ++ [UNl] ++ rest).
    rewrite (nr_run [UId (lit "serialName"); UP 58; UId (lit "String"); UP 61; UStr] (true :: regs) _ eq_refl).
    2:{ apply bal_cons_id. apply bal_cons_p; try lia. apply bal_cons_id. apply bal_cons_p; try lia. apply bal_str. }
    change (ce_after _ [UId (lit "serialName"); UP 58; UId (lit "String"); UP 61; UStr]) with true.
    rewrite (nr_one_nl (true :: regs) eq_refl _). rewrite (nr_close125 regs true true _). rewrite (nr_one_nl regs He _).
    cbn [pre ne seq_toks]. rewrite orb_true_r. unfold tm, body, val_stat. cbn [seq_toks]. norm_app. reflexivity.
Qed.

Definition c10_scg_variant_ok (v : sc_variant) : Prop :=
  forallb Proofs.C10Lex.c10_line_ok (scv_docs v) = true /\ gname (scv_name v) /\ gname (scv_parent v) /\ Forall gname (scv_parent_generics v) /\
  forallb c10_key_char (scv_wire v) = true /\
  match scv_payload v with
  | SCPayUnit => True
  | SCPayTuple gs content ty => Forall gname gs /\ gname content /\ c10_scg_texp ty
  | SCPayInner gs content inner args => Forall gname gs /\ gname content /\ gname inner /\ Forall gname args
  end.

Lemma L_case_object : forall b tb, Tk b tb -> Tk (lit "case object " ++ b) (kwt "case" :: kwt "object" :: tb).
Proof. assert (H : CFrag (lit "case object ") [kwt "case"; kwt "object"]) by lit_cfrag. exact H. Qed.
Lemma L_lparen : forall b tb, Tk b tb -> Tk (lit "(" ++ b) (UP 40 :: tb).
Proof. assert (H : CFrag (lit "(") [UP 40]) by lit_cfrag. exact H. Qed.
Lemma L_rparen : forall b tb, Tk b tb -> Tk (lit ")" ++ b) (UP 41 :: tb).
Proof. assert (H : CFrag (lit ")") [UP 41]) by lit_cfrag. exact H. Qed.

(* case class N[G](content: T) *)
Definition class_hr (name : str) (gs : list str) (content : str) (tx : list c10_utok) : list c10_utok :=
  kwt "class" :: UId name :: gens_toks gs ++ UP 40 :: params_toks [member_toks content tx None].
Lemma class_head name gs content t tx : gname name -> Forall gname gs -> gname content -> Frag t tx -> Gt TTy tx ->
  (forall b tb, ssep b = true -> Tk b tb ->
     Tk ((lit "case class " ++ name ++ sc_generic_parameters gs ++ lit "(" ++ content ++ lit ": " ++ t ++ lit ")") ++ b)
        (kwt "case" :: class_hr name gs content tx ++ tb)) /\
  forallb nonl (class_hr name gs content tx) = true /\ Bal (class_hr name gs content tx) /\
  (forall tm n, TemplOk tm n -> StatOk false (kwt "case" :: class_hr name gs content tx ++ tm) 1).
Proof.
  intros Hn Hg Hc Hf Hgt. destruct (member_shape content tx None Hgt) as [S1 S2]. split; [|split; [|split]].
  - intros b tb _ Hb. unfold class_hr. cbn [app]. rewrite <- ?app_assoc. apply L_case_class.
    apply name_gens_tk; [exact Hn|exact Hg|reflexivity|]. cbn [app]. apply L_lparen. cbn [params_toks member_toks dflt_toks app].
    change (UId content :: ?x) with ([UId content] ++ x). apply (frag_ident content (proj1 Hc)); [reflexivity|]. apply L_colon.
    rewrite <- ?app_assoc. apply Hf; [reflexivity|]. cbn [app]. apply L_rparen, Hb.
  - unfold class_hr. cbn [forallb nonl]. rewrite forallb_app, gens_nonl. cbn [forallb nonl params_toks]. rewrite forallb_app, S1. reflexivity.
  - unfold class_hr. apply bal_cons_id, bal_cons_id. apply bal_app; [apply gens_bal|]. cbn [params_toks]. apply bal_wrap; [right; split; reflexivity|exact S2].
  - intros tm n Htm. unfold class_hr. cbn [app]. rewrite <- ?app_assoc. cbn [app]. rewrite <- ?app_assoc.
    apply (stat_case_class false name gs [member_toks content tx None] tm n); [exact (proj2 Hn)|apply gnames_nm, Hg|discriminate| |exact Htm].
    constructor; [|constructor]. apply param_ok; [exact (proj2 Hc)|exact Hgt|exact I].
Qed.

Lemma ps_variant v : c10_scg_variant_ok v -> PSd false (sc_render_variant v).
Proof.
  intros (Hd & Hn & Hp & Hpg & Hw & Hpay). unfold sc_render_variant.
  destruct (scv_payload v) as [|gs content ty|gs content inner args].
  - apply (variant_piece _ _ [kwt "object"; UId (scv_name v)]); try assumption.
    + intros b tb Hs Hb. rewrite <- ?app_assoc. apply L_case_object. cbn [app].
      change (UId (scv_name v) :: ?x) with ([UId (scv_name v)] ++ x). apply (frag_ident _ (proj1 Hn)); [destruct b; [discriminate|exact Hs]|exact Hb].
    + reflexivity.
    + apply bal_cons_id, bal_id.
    + intros tm n Htm. exact (stat_object false true (scv_name v) tm n (proj2 Hn) Htm).
  - destruct Hpay as (Hg & Hc & Hty). destruct (sc_show_tytext _ Hty) as (tx & Hf & Hgt).
    destruct (class_head (scv_name v) gs content (sc_show ty) tx Hn Hg Hc Hf Hgt) as (H1 & H2 & H3 & H4).
    exact (variant_piece _ _ _ _ _ _ Hd Hp Hpg Hw H1 H2 H3 H4).
  - destruct Hpay as (Hg & Hc & Hi & Ha).
    assert (Hf : Frag (inner ++ sc_generic_parameters args) (UId inner :: gens_toks args)).
    { intros b tb Hs Hb. rewrite <- app_assoc. cbn [app].
      destruct args as [|a0 ar].
      - cbn [sc_generic_parameters gens_toks app]. change (UId inner :: tb) with ([UId inner] ++ tb). apply (frag_ident inner (proj1 Hi)); assumption.
      - change (UId inner :: ?x) with ([UId inner] ++ x). apply (frag_ident inner (proj1 Hi)); [reflexivity|].
        apply (gens_cfrag (a0 :: ar) Ha), Hb. }
    destruct (class_head (scv_name v) gs content (inner ++ sc_generic_parameters args) _ Hn Hg Hc Hf (name_gens_type inner args Hi Ha)) as (H1 & H2 & H3 & H4).
    refine (variant_piece _ _ _ _ _ _ Hd Hp Hpg Hw _ H2 H3 H4).
    intros b tb Hs Hb. specialize (H1 b tb Hs Hb). rewrite <- ?app_assoc in *. exact H1.
Qed.

(* ------------------------------------------------------------------ sealed trait + companion object *)
Lemma L_sealed_trait : forall b tb, Tk b tb -> Tk (lit "sealed trait " ++ b) (kwt "sealed" :: kwt "trait" :: tb).
Proof. assert (H : CFrag (lit "sealed trait ") [kwt "sealed"; kwt "trait"]) by lit_cfrag. exact H. Qed.
Lemma L_trait_body : forall b tb, Tk b tb ->
  Tk (lit " {" ++ sc_nl ++ [ch_tab] ++ lit "def serialName: String" ++ sc_nl ++ lit "}" ++ sc_nl ++ lit "object " ++ b)
     (UP 123 :: UNl :: kwt "def" :: UId (lit "serialName") :: UP 58 :: UId (lit "String") :: UNl :: UP 125 :: UNl :: kwt "object" :: tb).
Proof.
  assert (H : CFrag (lit " {" ++ sc_nl ++ [ch_tab] ++ lit "def serialName: String" ++ sc_nl ++ lit "}" ++ sc_nl ++ lit "object ")
                    [UP 123; UNl; kwt "def"; UId (lit "serialName"); UP 58; UId (lit "String"); UNl; UP 125; UNl; kwt "object"]) by lit_cfrag.
  intros b tb Hb. specialize (H b tb Hb). rewrite <- ?app_assoc in H. exact H.
Qed.
Lemma L_obj_open : forall b tb, Tk b tb -> Tk (lit " {" ++ sc_nl ++ b) (UP 123 :: UNl :: tb).
Proof.
  assert (H : CFrag (lit " {" ++ sc_nl) [UP 123; UNl]) by lit_cfrag. intros b tb Hb. specialize (H b tb Hb). rewrite <- ?app_assoc in H. exact H.
Qed.
Lemma L_obj_close : forall b tb, Tk b tb -> Tk (lit "}" ++ sc_nl ++ sc_nl ++ b) (UP 125 :: UNl :: UNl :: tb).
Proof.
  assert (H : CFrag (lit "}" ++ sc_nl ++ sc_nl) [UP 125; UNl; UNl]) by lit_cfrag. intros b tb Hb. specialize (H b tb Hb). rewrite <- ?app_assoc in H. exact H.
Qed.

Lemma ps_enum top docs name gs vs : forallb Proofs.C10Lex.c10_line_ok docs = true -> gname name -> Forall gname gs ->
  Forall c10_scg_variant_ok vs -> PSd top (sc_render_decl (SCEnum docs name gs vs)).
Proof.
  intros Hd Hn Hg Hvs.
  assert (Hparts : Forall (PSd false) (map sc_render_variant vs)).
  { apply Forall_map. revert Hvs. apply Forall_impl. apply ps_variant. }
  destruct (ps_concat false _ Hparts) as (vc & vn & (vraw & Hvf & Hvn & Hvst) & _ & _ & _ & _).
  set (tm1 := UP 123 :: seq_toks [def_stat] ++ [UP 125]).
  set (tm2 := UP 123 :: seq_toks vc ++ [UP 125]).
  set (D1 := kwt "sealed" :: kwt "trait" :: UId name :: gens_toks gs ++ tm1).
  set (D2 := [] ++ kwt "object" :: UId name :: tm2).
  exists [D1; D2], [1%nat; 1%nat]. split; [|split; [discriminate|split; [repeat constructor|]]].
  2:{ constructor; [apply nopkg_kw; reflexivity|]. constructor; [|constructor]. exists (lit "object"), (UId name :: tm2). split; reflexivity. }
  exists (docs_raw docs ++ kwt "sealed" :: kwt "trait" :: UId name :: gens_toks gs ++
          UP 123 :: UNl :: kwt "def" :: UId (lit "serialName") :: UP 58 :: UId (lit "String") :: UNl :: UP 125 :: UNl :: kwt "object" :: UId name ::
          UP 123 :: UNl :: vraw ++ [UP 125; UNl; UNl]).
  split; [|split].
  - intros b tb Hb. cbn [sc_render_decl]. rewrite <- ?app_assoc. apply (sc_comments_cfrag 0 docs Hd). cbn [app].
    apply L_sealed_trait. rewrite <- ?app_assoc. apply name_gens_tk; [exact Hn|exact Hg|reflexivity|]. cbn [app]. apply L_trait_body.
    change (UId name :: ?x) with ([UId name] ++ x). apply (frag_ident name (proj1 Hn)); [reflexivity|]. apply L_obj_open.
    rewrite <- ?app_assoc. apply Hvf. cbn [app]. apply L_obj_close, Hb.
  - intros regs p He rest. rewrite <- ?app_assoc. rewrite (nr_docs docs regs p _). cbn [app].
    change (kwt "sealed" :: ?x) with ([kwt "sealed"] ++ x). rewrite (nr_kw (lit "sealed") regs p p eq_refl _).
    change (kwt "trait" :: UId name :: ?x) with ([kwt "trait"] ++ UId name :: x). rewrite (nr_run [kwt "trait"] regs _ eq_refl (bal_id _) _).
    destruct (name_gens_shape name gs) as [S1 S2]. rewrite <- ?app_assoc.
    change (UId name :: gens_toks gs ++ ?x) with ((UId name :: gens_toks gs) ++ x). rewrite (nr_run _ regs _ S1 S2 _). cbn [app]. rewrite <- ?app_assoc.
    change (UP 123 :: UNl :: kwt "def" :: UId (lit "serialName") :: UP 58 :: UId (lit "String") :: UNl :: UP 125 :: UNl :: kwt "object" :: UId name :: UP 123 :: UNl :: ?x)
      with ([UP 123] ++ repeat UNl 1 ++ [kwt "def"] ++ [UId (lit "serialName"); UP 58; UId (lit "String")] ++ [UNl] ++ [UP 125] ++ [UNl] ++
            [kwt "object"] ++ [UId name] ++ [UP 123] ++ repeat UNl 1 ++ x).
    rewrite (nr_open123 regs _ _). rewrite (nr_nls_idle 1 (true :: regs) false _).
    rewrite (nr_kw (lit "def") (true :: regs) false false eq_refl _).
    rewrite (nr_run [UId (lit "serialName"); UP 58; UId (lit "String")] (true :: regs) _ eq_refl).
    2:{ apply bal_cons_id. apply bal_cons_p; try lia. apply bal_id. }
    change (ce_after _ [UId (lit "serialName"); UP 58; UId (lit "String")]) with true.
    rewrite (nr_one_nl (true :: regs) eq_refl _). rewrite (nr_close125 regs true true _). rewrite (nr_one_nl regs He _).
    rewrite (nr_kw (lit "object") regs true true eq_refl _). rewrite (nr_run [UId name] regs _ eq_refl (bal_id _) _).
    rewrite (nr_open123 regs _ _). rewrite (nr_nls_idle 1 (true :: regs) false _).
    rewrite (Hvn (true :: regs) false eq_refl _). rewrite pre_false. cbn [orb].
    change ([UP 125; UNl; UNl] ++ rest) with ([UP 125] ++ [UNl; UNl] ++ rest). rewrite (nr_close125 regs _ _ _). rewrite (nr_two_nl regs He _).
    cbn [pre ne]. rewrite orb_true_r. unfold D1, D2, tm1, tm2, def_stat. cbn [seq_toks]. norm_app. reflexivity.
  - constructor; [|constructor; [|constructor]].
    + unfold D1. apply (stat_trait top name gs tm1 (fold_right plus O [1%nat])); [exact (proj2 Hn)|apply gnames_nm, Hg|].
      apply templ_body, body_ok. constructor; [exact def_stat_ok|constructor].
    + unfold D2. apply (stat_object top false name tm2 (fold_right plus O vn)); [exact (proj2 Hn)|]. apply templ_body, body_ok. exact Hvst.
Qed.

(* ------------------------------------------------------------------ all declarations *)
Definition c10_scg_decl_ok (d : sc_decl) : Prop :=
  match d with
  | SCAlias docs name gs ty => forallb Proofs.C10Lex.c10_line_ok docs = true /\ gname name /\ Forall gname gs /\ c10_scg_texp ty
  | SCCaseClass docs name gs ms => forallb Proofs.C10Lex.c10_line_ok docs = true /\ gname name /\ Forall gname gs /\ ms <> [] /\ Forall c10_scg_member_ok ms
  | SCEmptyClass docs name => forallb Proofs.C10Lex.c10_line_ok docs = true /\ gname name
  | SCEnum docs name gs vs => forallb Proofs.C10Lex.c10_line_ok docs = true /\ gname name /\ Forall gname gs /\ Forall c10_scg_variant_ok vs
  | SCHelperAliases l => l <> [] /\ Forall (fun nt : str * texp => gname (fst nt) /\ c10_scg_texp (snd nt)) l
  end.
(* members of the package object (top = false) or statements of the packaging / the unit (top = true) *)
Definition decl_top (d : sc_decl) : bool := match d with SCAlias _ _ _ _ | SCHelperAliases _ => false | _ => true end.

Theorem sc_render_decl_gram d : c10_scg_decl_ok d -> PSd (decl_top d) (sc_render_decl d).
Proof.
  destruct d as [docs name gs ty | docs name gs ms | docs name | docs name gs vs | l]; cbn [c10_scg_decl_ok decl_top].
  - intros (H1 & H2 & H3 & H4). apply ps_alias; assumption.
  - intros (H1 & H2 & H3 & H4 & H5). apply ps_case_class; assumption.
  - intros (H1 & H2). apply ps_empty_class; assumption.
  - intros (H1 & H2 & H3 & H4). apply ps_enum; assumption.
  - intros (Hne & Hl). destruct (ps_helper_lines l Hl) as (c & n & Hps & Hlen & Hn & Hk).
    exists (c ++ []), (n ++ []). split; [cbn [sc_render_decl]; apply ps_app; [exact Hps|apply ps_blank_line]|].
    rewrite !app_nil_r. split; [|split; [exact Hn|exact Hk]]. destruct c; [destruct l; [congruence|discriminate]|discriminate].
Qed.
