(* C10, grammar half for Scala, part 3: the LAYOUT layer of Model/Lang/Scala.v produces text that tokenises, after the
   newline rule, to statements of the grammar.
     - [TyText t]: the text t is an (open) fragment whose tokens are a type of the grammar; closed under the type formers
       of [sc_show];
     - doc comments are line comments: one raw line end each;
     - [PS top text cooked ns]: the text is a closed fragment whose raw tokens the newline automaton turns - from "nothing
       can end" as well as from "a line end is pending" - into the statements [cooked] separated by one nl each, each of
       them accepted by the parser ([StatOk]) with its count; pieces compose ([ps_app], [ps_concat]);
     - members, case classes, plain classes, aliases, helper aliases, variants, sealed trait + companion object:
       [sc_render_decl_gram]. *)
From Coq Require Import List Bool Lia ZifyBool ZifyN NArith String.
From TS Require Import Model.Str Model.Outcome Model.Unicode Model.Types Model.Parse Model.Lang.Common Model.Lang.Decl Model.Lang.Scala.
From TS Require Import Spec.C10Spec Spec.C10TsGrammar Spec.C10ScGrammar Proofs.C10_SCGrammarTok Proofs.C10_SCGrammarParse.
From TS Require Proofs.C10Lex Proofs.C10_TSGrammarTok Proofs.C10_TSGrammar.
Import ListNotations.
Local Open Scope N_scope.
Local Notation length := List.length (only parsing).

Ltac lit_cfrag := apply cfrag_compute; vm_compute; reflexivity.
Ltac lit_frag := apply frag_compute; vm_compute; reflexivity.

(* ------------------------------------------------------------------ names *)
Lemma ident_sc_ident s : c10_ident_ok s = true -> c10_sc_ident_ok s = true.
Proof.
  destruct s as [|c r]; [discriminate|]. unfold c10_ident_ok, c10_sc_ident_ok. rewrite !andb_true_iff. intros [Hc Hr]. split.
  - unfold c10_ident_start, c10_sc_letter in *. lia.
  - revert Hr. apply Proofs.C10Lex.forallb_impl. intros x Hx.
    unfold c10_ident_char, c10_sc_id_char, c10_sc_letter in *. lia.
Qed.

(* a name of the grammar: identifier-shaped and not a reserved word *)
Definition gname (n : str) : Prop := c10_sc_ident_ok n = true /\ nm n.

Lemma gname_lit w : c10_sc_ident_ok (lit w) = true -> c10_sc_kw (lit w) = false -> gname (lit w).
Proof. intros H1 H2. split; assumption. Qed.

(* literal pieces, in cons form *)
Definition Lit (a : str) (ta : list c10_utok) : Prop := forall b tb, Tk b tb -> Tk (a ++ b) (ta ++ tb).
Lemma lit_of a ta : CFrag a ta -> Lit a ta.
Proof. intros H. exact H. Qed.

(* ------------------------------------------------------------------ type expressions *)
Definition TyText (t : str) : Prop := exists tx, Frag t tx /\ Gt TTy tx.

Lemma tytext_ident n : gname n -> TyText n.
Proof. intros [H1 H2]. exists [UId n]. split; [apply frag_ident, H1|apply Gt_name, H2]. Qed.

Lemma tylist_text l : l <> [] -> Forall TyText l -> exists tl, Frag (join (lit ", ") l) tl /\ Gt TTys tl.
Proof.
  induction l as [|x r IH]; [congruence|]. intros _ H. inversion H as [|x0 r0 (tx & Hf & Hg) Hr]; subst.
  destruct r as [|y r].
  - exists tx. split; [exact Hf|apply Gt_one, Hg].
  - destruct (IH ltac:(discriminate) Hr) as (tl & Hfl & Hgl). exists (tx ++ [UP 44] ++ tl). split.
    + change (join (lit ", ") (x :: y :: r)) with (x ++ lit ", " ++ join (lit ", ") (y :: r)).
      apply frag_frag_app; [exact Hf| |reflexivity]. apply cfrag_frag_app; [lit_cfrag|exact Hfl].
    + apply Gt_cons; assumption.
Qed.

Lemma tytext_app n args : gname n -> args <> [] -> Forall TyText args ->
  TyText (n ++ lit "[" ++ join (lit ", ") args ++ lit "]").
Proof.
  intros [Hn1 Hn2] Hne Ha. destruct (tylist_text args Hne Ha) as (tl & Hfl & Hgl).
  exists ([UId n] ++ [UP 91] ++ tl ++ [UP 93]). split.
  - apply frag_frag_app; [apply frag_ident, Hn1| |reflexivity]. apply cfrag_frag_app; [lit_cfrag|].
    apply cfrag_frag. apply frag_cfrag_app; [exact Hfl|lit_cfrag|reflexivity].
  - exact (Gt_app n tl Hn2 Hgl).
Qed.

Lemma tytext_tuple es : es <> [] -> Forall TyText es -> TyText (lit "(" ++ join (lit ", ") es ++ lit ")").
Proof.
  intros Hne Ha. destruct (tylist_text es Hne Ha) as (tl & Hfl & Hgl).
  exists ([UP 40] ++ tl ++ [UP 41]). split.
  - apply cfrag_frag_app; [lit_cfrag|]. apply cfrag_frag. apply frag_cfrag_app; [exact Hfl|lit_cfrag|reflexivity].
  - exact (Gt_tuple tl Hgl).
Qed.

Lemma gname_Option : gname (lit "Option"). Proof. apply gname_lit; reflexivity. Qed.
Lemma gname_Vector : gname (lit "Vector"). Proof. apply gname_lit; reflexivity. Qed.
Lemma gname_Map : gname (lit "Map"). Proof. apply gname_lit; reflexivity. Qed.

Lemma tytext_map k v : TyText k -> TyText v -> TyText (lit "Map[" ++ k ++ lit ", " ++ v ++ lit "]").
Proof.
  intros (tk & Hfk & Hgk) (tv & Hfv & Hgv). exists ([UId (lit "Map"); UP 91] ++ tk ++ [UP 44] ++ tv ++ [UP 93]). split.
  - apply cfrag_frag_app; [lit_cfrag|]. apply frag_frag_app; [exact Hfk| |reflexivity].
    apply cfrag_frag_app; [lit_cfrag|]. apply cfrag_frag. apply frag_cfrag_app; [exact Hfv|lit_cfrag|reflexivity].
  - change ([UId (lit "Map"); UP 91] ++ tk ++ [UP 44] ++ tv ++ [UP 93]) with (UId (lit "Map") :: UP 91 :: tk ++ [UP 44] ++ tv ++ [UP 93]).
    replace (tk ++ [UP 44] ++ tv ++ [UP 93]) with ((tk ++ UP 44 :: tv) ++ [UP 93]) by (rewrite <- app_assoc; reflexivity).
    apply Gt_app; [reflexivity|]. apply Gt_cons; [exact Hgk|apply Gt_one, Hgv].
Qed.

(* a type tree all of whose names are names of the grammar and whose verbatim leaves are types of the grammar; a tuple
   form is never empty *)
Inductive c10_scg_texp : texp -> Prop :=
| SG_name n args : gname n -> Forall c10_scg_texp args -> c10_scg_texp (XName n args)
| SG_seq e : c10_scg_texp e -> c10_scg_texp (XSeq e)
| SG_fixed es : es <> [] -> Forall c10_scg_texp es -> c10_scg_texp (XFixed es)
| SG_map k v : c10_scg_texp k -> c10_scg_texp v -> c10_scg_texp (XMap k v)
| SG_opt e : c10_scg_texp e -> c10_scg_texp (XOpt e)
| SG_raw t : TyText t -> c10_scg_texp (XRaw t).

Lemma sc_show_tytext x : c10_scg_texp x -> TyText (sc_show x).
Proof.
  induction x as [n args IH | e IH | es IH | k v IHk IHv | e IH | t] using Proofs.C10Lex.texp_ind'; intros H; inversion H; subst.
  - assert (Ha : Forall TyText (map sc_show args)).
    { apply Forall_map. rewrite Forall_forall in *. intros a Ha. apply IH; auto. }
    destruct args as [|a l]; [apply tytext_ident; assumption|].
    change (sc_show (XName n (a :: l))) with (n ++ lit "[" ++ join (lit ", ") (map sc_show (a :: l)) ++ lit "]").
    apply tytext_app; [assumption|discriminate|exact Ha].
  - change (sc_show (XSeq e)) with (lit "Vector" ++ lit "[" ++ join (lit ", ") [sc_show e] ++ lit "]").
    apply tytext_app; [apply gname_Vector|discriminate|]. constructor; [auto|constructor].
  - change (sc_show (XFixed es)) with (lit "(" ++ join (lit ", ") (map sc_show es) ++ lit ")"). apply tytext_tuple.
    + destruct es; [congruence|discriminate].
    + apply Forall_map. rewrite Forall_forall in *. intros a Ha. apply IH; auto.
  - change (sc_show (XMap k v)) with (lit "Map[" ++ sc_show k ++ lit ", " ++ sc_show v ++ lit "]"). apply tytext_map; auto.
  - change (sc_show (XOpt e)) with (lit "Option" ++ lit "[" ++ join (lit ", ") [sc_show e] ++ lit "]").
    apply tytext_app; [apply gname_Option|discriminate|]. constructor; [auto|constructor].
  - assumption.
Qed.

(* ------------------------------------------------------------------ doc comments: one line comment per line *)
Definition docs_raw (docs : list str) : list c10_utok := repeat UNl (List.length docs).

Lemma tabs_blank n : forallb c10_sc_blank (sc_tabs n) = true.
Proof. unfold sc_tabs. induction n as [|n IH]; [reflexivity|]. cbn [repeat_str app forallb]. exact IH. Qed.

Lemma line_notnl c : Proofs.C10Lex.c10_line_ok c = true -> forallb notnl c = true.
Proof. unfold Proofs.C10Lex.c10_line_ok. apply Proofs.C10Lex.forallb_impl. intros x. unfold notnl. lia. Qed.

Lemma sc_comment_cfrag indent c : Proofs.C10Lex.c10_line_ok c = true -> CFrag (sc_write_comment indent c) [UNl].
Proof.
  intros H. unfold sc_write_comment. change [UNl] with ([] ++ [UNl]). apply cfrag_app; [apply cfrag_blank, tabs_blank|].
  change (lit "// " ++ c ++ sc_nl) with (47 :: 47 :: (32 :: c) ++ [ch_nl]). apply cfrag_line_comment.
  cbn [forallb]. rewrite (line_notnl c H). reflexivity.
Qed.

Lemma sc_comments_cfrag indent docs : forallb Proofs.C10Lex.c10_line_ok docs = true -> CFrag (sc_write_comments indent docs) (docs_raw docs).
Proof.
  unfold sc_write_comments, docs_raw. induction docs as [|c r IH]; intros H; [apply cfrag_nil|].
  cbn [forallb] in H. apply andb_true_iff in H as [Hc Hr]. cbn [map List.concat List.length repeat].
  change (UNl :: repeat UNl (List.length r)) with ([UNl] ++ repeat UNl (List.length r)).
  apply cfrag_app; [apply sc_comment_cfrag, Hc|exact (IH Hr)].
Qed.

(* ------------------------------------------------------------------ the newline automaton on the recurring raw shapes *)
Definition sepnl (p : bool) : list c10_utok := if p then [UNl] else [].

Lemma nr_docs docs regs p : NR regs p p (docs_raw docs) [] regs p p.
Proof. apply nr_nls_idle. Qed.
Lemma nr_off k regs ce : NR (false :: regs) ce false (repeat UNl k) [] (false :: regs) ce false.
Proof.
  induction k as [|k IH]; intros rest; [reflexivity|]. cbn [repeat app c10_sc_nls c10_sc_enabled]. rewrite andb_false_r. apply IH.
Qed.
Lemma nr_run a regs ce : forallb nonl a = true -> Bal a -> NR regs ce false a a regs (ce_after ce a) false.
Proof. intros H1 H2. pose proof (nr_nonl a H1 regs ce) as G. rewrite H2 in G. exact G. Qed.
Lemma nr_kw k regs ce p : c10_sc_can_begin (UId k) = true -> NR regs ce p [UId k] (sepnl p ++ [UId k]) regs (c10_sc_can_end (UId k)) false.
Proof. intros H. pose proof (nr_first (UId k) regs ce p eq_refl) as G. rewrite H, andb_true_r in G. exact G. Qed.
Lemma nr_open40 regs ce : NR regs ce false [UP 40] [UP 40] (false :: regs) false false.
Proof. intros rest. reflexivity. Qed.
Lemma nr_close41 regs ce : NR (false :: regs) ce false [UP 41] [UP 41] regs true false.
Proof. intros rest. reflexivity. Qed.
Lemma nr_open123 regs ce : NR regs ce false [UP 123] [UP 123] (true :: regs) false false.
Proof. intros rest. reflexivity. Qed.
Lemma nr_close125 regs ce pend : NR (true :: regs) ce pend [UP 125] [UP 125] regs true false.
Proof. intros rest. cbn [app c10_sc_nls c10_sc_can_begin]. change (negb _) with false. rewrite andb_false_r. reflexivity. Qed.
Lemma nr_two_nl regs : c10_sc_enabled regs = true -> NR regs true false [UNl; UNl] [] regs true true.
Proof. intros He. exact (nr_nls_pend 1 regs He). Qed.
Lemma nr_one_nl regs : c10_sc_enabled regs = true -> NR regs true false [UNl] [] regs true true.
Proof. intros He. exact (nr_nls_pend 0 regs He). Qed.

Lemma bal_p c : c <> 123 -> c <> 40 -> c <> 91 -> c <> 125 -> c <> 41 -> c <> 93 -> Bal [UP c].
Proof.
  intros. intros regs. unfold regs_after. cbn [fold_left c10_sc_region].
  replace (c =? 123) with false by lia. replace ((c =? 40) || (c =? 91)) with false by lia.
  replace ((c =? 125) || (c =? 41) || (c =? 93)) with false by lia. reflexivity.
Qed.
Lemma bal_cons_id n a : Bal a -> Bal (UId n :: a).
Proof. intros H. change (UId n :: a) with ([UId n] ++ a). apply bal_app; [apply bal_id|exact H]. Qed.
Lemma bal_cons_p c a : c <> 123 -> c <> 40 -> c <> 91 -> c <> 125 -> c <> 41 -> c <> 93 -> Bal a -> Bal (UP c :: a).
Proof. intros. change (UP c :: a) with ([UP c] ++ a). apply bal_app; [apply bal_p; assumption|assumption]. Qed.
Lemma bal_str : Bal [UStr].
Proof. intros regs. reflexivity. Qed.

Lemma gt_nonl t : Gt TTy t -> forallb nonl t = true.
Proof. intros H. exact (proj1 (gt_shape _ _ H)). Qed.
Lemma gt_bal t : Gt TTy t -> Bal t.
Proof. intros H. exact (proj1 (proj2 (gt_shape _ _ H))). Qed.
Lemma gt_ce t ce : Gt TTy t -> ce_after ce t = true.
Proof. intros H. exact (proj2 (proj2 (gt_shape _ _ H)) eq_refl ce). Qed.
Lemma ce_after_app2 ce a b : ce_after ce (a ++ b) = ce_after (ce_after ce a) b.
Proof. unfold ce_after. apply fold_left_app. Qed.

(* ------------------------------------------------------------------ pieces: text -> raw tokens -> statements *)
Definition pre (p : bool) (cooked : list (list c10_utok)) : list c10_utok :=
  match cooked with [] => [] | _ => sepnl p ++ seq_toks cooked end.
Definition ne {A} (l : list A) : bool := match l with [] => false | _ => true end.

Definition PS (top : bool) (text : str) (cooked : list (list c10_utok)) (ns : list nat) : Prop :=
  exists raw, CFrag text raw /\
    (forall regs p, c10_sc_enabled regs = true -> NR regs p p raw (pre p cooked) regs (p || ne cooked) (p || ne cooked)) /\
    Forall2 (StatOk top) cooked ns.

Lemma seq_toks_app ca cb : ca <> [] -> cb <> [] -> seq_toks (ca ++ cb) = seq_toks ca ++ UNl :: seq_toks cb.
Proof.
  induction ca as [|d r IH]; intros Ha Hb; [congruence|]. destruct r as [|d2 r].
  - cbn [app]. destruct cb as [|c cb]; [congruence|]. reflexivity.
  - change ((d :: d2 :: r) ++ cb) with (d :: d2 :: r ++ cb).
    change (seq_toks (d :: d2 :: r ++ cb)) with (d ++ UNl :: seq_toks ((d2 :: r) ++ cb)). rewrite IH by (discriminate || exact Hb).
    change (seq_toks (d :: d2 :: r)) with (d ++ UNl :: seq_toks (d2 :: r)). rewrite <- app_assoc. reflexivity.
Qed.

Lemma ps_nil top : PS top [] [] [].
Proof.
  exists []. split; [apply cfrag_nil|]. split; [|constructor]. intros regs p _. cbn [pre ne]. rewrite orb_false_r. apply nr_nil.
Qed.

Lemma ps_app top a ca na b cb nb : PS top a ca na -> PS top b cb nb -> PS top (a ++ b) (ca ++ cb) (na ++ nb).
Proof.
  intros (ra & Fa & Na & Sa) (rb & Fb & Nb & Sb). exists (ra ++ rb). split; [apply cfrag_app; assumption|].
  split; [|apply Forall2_app; assumption]. intros regs p He.
  assert (Eo : pre p ca ++ pre (p || ne ca) cb = pre p (ca ++ cb)).
  { destruct ca as [|d ca]; [cbn [pre ne app]; rewrite orb_false_r; reflexivity|]. destruct cb as [|e cb].
    - rewrite !app_nil_r. cbn [pre]. rewrite ?app_nil_r. reflexivity.
    - cbn [ne]. rewrite orb_true_r. change (pre true (e :: cb)) with (UNl :: seq_toks (e :: cb)).
      change (pre p ((d :: ca) ++ e :: cb)) with (sepnl p ++ seq_toks ((d :: ca) ++ e :: cb)).
      rewrite seq_toks_app by discriminate. cbn [pre]. rewrite <- app_assoc. reflexivity. }
  assert (Es : (p || ne ca) || ne cb = p || ne (ca ++ cb)).
  { destruct ca; [cbn [ne app]; rewrite orb_false_r; reflexivity|]. cbn [ne app]. rewrite !orb_true_r. reflexivity. }
  rewrite <- Eo, <- Es. eapply nr_app; [apply Na, He|apply Nb, He].
Qed.

(* a piece with at least one statement, every statement counting at least one definition *)
Definition PSd (top : bool) (text : str) : Prop :=
  exists cooked ns, PS top text cooked ns /\ cooked <> [] /\ Forall (fun n => (1 <= n)%nat) ns.

Lemma sum_ge ns : Forall (fun n => (1 <= n)%nat) ns -> (List.length ns <= fold_right plus O ns)%nat.
Proof. induction 1 as [|n ns Hn _ IH]; cbn [fold_right List.length]; lia. Qed.

Lemma f2_length {A B} (R : A -> B -> Prop) l l' : Forall2 R l l' -> List.length l = List.length l'.
Proof. induction 1; cbn [List.length]; congruence. Qed.

Lemma ps_concat top parts : Forall (PSd top) parts ->
  exists cooked ns, PS top (List.concat parts) cooked ns /\ (List.length parts <= fold_right plus O ns)%nat.
Proof.
  induction 1 as [|t r (c & n & Hps & Hne & Hn) _ (cs & ns & Hpss & Hlen)].
  - exists [], []. split; [apply ps_nil|cbn; lia].
  - exists (c ++ cs), (n ++ ns). split; [cbn [List.concat]; apply ps_app; assumption|].
    assert (G : fold_right plus O (n ++ ns) = (fold_right plus O n + fold_right plus O ns)%nat).
    { clear. induction n as [|x n IH]; [reflexivity|]. cbn [app fold_right]. rewrite IH. lia. }
    rewrite G. pose proof (sum_ge n Hn) as G2. destruct Hps as (_ & _ & _ & F2). pose proof (f2_length _ _ _ F2) as G3.
    destruct c; [congruence|]. cbn [List.length] in *. lia.
Qed.

(* a statement without a line end inside: docs, the statement, one or more line ends *)
Lemma ps_simple top text docs k D' n j :
  CFrag text (docs_raw docs ++ (UId k :: D') ++ repeat UNl (S j)) ->
  c10_sc_can_begin (UId k) = true -> forallb nonl D' = true -> Bal D' -> ce_after false (UId k :: D') = true ->
  StatOk top (UId k :: D') n -> PS top text [UId k :: D'] [n].
Proof.
  intros Hf Hb Hnl Hbal Hce Hst. eexists. split; [exact Hf|]. split; [|constructor; [exact Hst|constructor]].
  intros regs p He rest. rewrite <- !app_assoc. rewrite (nr_docs docs regs p _).
  change ((UId k :: D') ++ ?x) with ([UId k] ++ D' ++ x). rewrite (nr_kw k regs p p Hb _). rewrite (nr_run D' regs _ Hnl Hbal _).
  change (ce_after (c10_sc_can_end (UId k)) D') with (ce_after false (UId k :: D')). rewrite Hce.
  rewrite (nr_nls_pend j regs He _). cbn [pre ne seq_toks app]. rewrite orb_true_r. rewrite <- !app_assoc. reflexivity.
Qed.

(* ------------------------------------------------------------------ names with generic parameters / type arguments *)
Lemma names_frag gs : gs <> [] -> Forall gname gs -> Frag (join (lit ", ") gs) (names_toks gs).
Proof.
  induction gs as [|g r IH]; [congruence|]. intros _ H. inversion H as [|g0 r0 [Hg _] Hr]; subst. destruct r as [|g2 r].
  - cbn [join names_toks]. apply frag_ident, Hg.
  - change (join (lit ", ") (g :: g2 :: r)) with (g ++ lit ", " ++ join (lit ", ") (g2 :: r)).
    change (names_toks (g :: g2 :: r)) with ([UId g] ++ [UP 44] ++ names_toks (g2 :: r)).
    apply frag_frag_app; [apply frag_ident, Hg| |reflexivity]. apply cfrag_frag_app; [lit_cfrag|]. apply IH; [discriminate|exact Hr].
Qed.

Lemma gens_cfrag gs : Forall gname gs -> CFrag (sc_generic_parameters gs) (gens_toks gs).
Proof.
  intros H. destruct gs as [|g r]; [apply cfrag_nil|]. unfold sc_generic_parameters, gens_toks.
  change (UP 91 :: names_toks (g :: r) ++ [UP 93]) with ([UP 91] ++ names_toks (g :: r) ++ [UP 93]).
  apply cfrag_app; [lit_cfrag|]. apply frag_cfrag_app; [apply names_frag; [discriminate|exact H]|lit_cfrag|reflexivity].
Qed.

Lemma gnames_nm gs : Forall gname gs -> Forall nm gs.
Proof. apply Forall_impl. intros g [_ H]. exact H. Qed.

(* name[G, H] followed by something that starts with a separator *)
Lemma name_gens_tk name gs b tb : gname name -> Forall gname gs -> ssep b = true -> Tk b tb ->
  Tk (name ++ sc_generic_parameters gs ++ b) (UId name :: gens_toks gs ++ tb).
Proof.
  intros [Hn _] Hg Hs Hb. change (UId name :: ?x) with ([UId name] ++ x). apply (frag_ident name Hn).
  - destruct gs as [|g r]; [cbn [sc_generic_parameters app]; destruct b; [discriminate|exact Hs]|reflexivity].
  - apply (gens_cfrag gs Hg), Hb.
Qed.

Lemma name_gens_type name gs : gname name -> Forall gname gs -> Gt TTy (UId name :: gens_toks gs).
Proof. intros [_ Hn] Hg. apply name_args_gt; [exact Hn|apply gnames_nm, Hg]. Qed.

Lemma nonl_cons_id n a : forallb nonl a = true -> forallb nonl (UId n :: a) = true.
Proof. intros H. exact H. Qed.

(* ------------------------------------------------------------------ aliases, plain classes, helper aliases *)
Lemma L_nl : forall b tb, Tk b tb -> Tk (sc_nl ++ b) (UNl :: tb).
Proof. assert (H : CFrag sc_nl [UNl]) by lit_cfrag. exact H. Qed.
Lemma L_type : forall b tb, Tk b tb -> Tk (lit "type " ++ b) (kwt "type" :: tb).
Proof. assert (H : CFrag (lit "type ") [kwt "type"]) by lit_cfrag. exact H. Qed.
Lemma L_eq : forall b tb, Tk b tb -> Tk (lit " = " ++ b) (UP 61 :: tb).
Proof. assert (H : CFrag (lit " = ") [UP 61]) by lit_cfrag. exact H. Qed.

Lemma alias_shape name gs tx : Gt TTy tx ->
  forallb nonl (UId name :: gens_toks gs ++ UP 61 :: tx) = true /\ Bal (UId name :: gens_toks gs ++ UP 61 :: tx) /\
  forall k, ce_after false (UId k :: UId name :: gens_toks gs ++ UP 61 :: tx) = true.
Proof.
  intros Ht. split; [|split].
  - cbn [forallb nonl]. rewrite forallb_app, gens_nonl. cbn [forallb nonl]. exact (gt_nonl _ Ht).
  - apply bal_cons_id. apply bal_app; [apply gens_bal|]. apply bal_cons_p; try lia. apply gt_bal, Ht.
  - intros k. change (UId k :: UId name :: gens_toks gs ++ UP 61 :: tx) with ((UId k :: UId name :: gens_toks gs ++ [UP 61]) ++ tx) || idtac.
    replace (UId k :: UId name :: gens_toks gs ++ UP 61 :: tx) with ((UId k :: UId name :: gens_toks gs ++ [UP 61]) ++ tx)
      by (cbn [app]; rewrite <- app_assoc; reflexivity).
    rewrite ce_after_app2. apply gt_ce, Ht.
Qed.

Lemma alias_line_tk name gs ty b tb : gname name -> Forall gname gs -> forall tx, Frag (sc_show ty) tx ->
  Tk b tb -> Tk (lit "type " ++ name ++ sc_generic_parameters gs ++ lit " = " ++ sc_show ty ++ sc_nl ++ b)
               (kwt "type" :: UId name :: gens_toks gs ++ UP 61 :: tx ++ UNl :: tb).
Proof.
  intros Hn Hg tx Hf Hb. apply L_type. apply name_gens_tk; [exact Hn|exact Hg|reflexivity|]. apply L_eq.
  apply Hf; [reflexivity|]. apply L_nl, Hb.
Qed.

Lemma ps_alias docs name gs ty : forallb Proofs.C10Lex.c10_line_ok docs = true -> gname name -> Forall gname gs -> c10_scg_texp ty ->
  PSd false (sc_render_decl (SCAlias docs name gs ty)).
Proof.
  intros Hd Hn Hg Hty. destruct (sc_show_tytext _ Hty) as (tx & Hf & Hgt).
  destruct (alias_shape name gs tx Hgt) as (S1 & S2 & S3).
  exists [kwt "type" :: UId name :: gens_toks gs ++ UP 61 :: tx], [1%nat]. split; [|split; [discriminate|constructor; [lia|constructor]]].
  apply (ps_simple false _ docs (lit "type") _ 1 1); [|reflexivity|exact S1|exact S2|apply S3|apply stat_alias; [exact (proj2 Hn)|apply gnames_nm, Hg|exact Hgt]].
  intros b tb Hb. cbn [sc_render_decl]. rewrite <- !app_assoc. apply (sc_comments_cfrag 0 docs Hd).
  match goal with |- Tk _ ?t => replace t with (kwt "type" :: UId name :: gens_toks gs ++ UP 61 :: tx ++ UNl :: UNl :: tb)
    by (cbn [app repeat]; rewrite <- ?app_assoc; reflexivity) end.
  apply alias_line_tk; [exact Hn|exact Hg|exact Hf|]. apply L_nl, Hb.
Qed.

(* the block of helper aliases: one line each, then an empty line *)
Lemma ps_helper_lines l : Forall (fun nt : str * texp => gname (fst nt) /\ c10_scg_texp (snd nt)) l ->
  exists cooked ns, PS false (List.concat (map (fun nt : str * texp => lit "type " ++ fst nt ++ lit " = " ++ sc_show (snd nt) ++ sc_nl) l)) cooked ns /\
                    List.length cooked = List.length l /\ Forall (fun n => (1 <= n)%nat) ns.
Proof.
  induction 1 as [|[n t] l [Hn Ht] _ (cs & ns & Hps & Hl & Hns)].
  - exists [], []. split; [apply ps_nil|]. split; [reflexivity|constructor].
  - cbn [fst snd] in *. destruct (sc_show_tytext _ Ht) as (tx & Hf & Hgt). destruct (alias_shape n [] tx Hgt) as (S1 & S2 & S3).
    exists ([kwt "type" :: UId n :: gens_toks [] ++ UP 61 :: tx] ++ cs), ([1%nat] ++ ns).
    split; [|split; [cbn [List.length app]; rewrite Hl; reflexivity|constructor; [lia|exact Hns]]].
    cbn [map List.concat]. apply ps_app; [|exact Hps].
    apply (ps_simple false _ [] (lit "type") _ 1 0); [|reflexivity|exact S1|exact S2|apply S3|apply stat_alias; [exact (proj2 Hn)|constructor|exact Hgt]].
    intros b tb Hb.
    match goal with |- Tk _ ?t => replace t with (kwt "type" :: UId n :: gens_toks [] ++ UP 61 :: tx ++ UNl :: tb)
      by (cbn [docs_raw List.length app repeat gens_toks]; rewrite <- ?app_assoc; reflexivity) end.
    rewrite <- !app_assoc. exact (alias_line_tk n [] t b tb Hn (Forall_nil _) tx Hf Hb).
Qed.

Lemma ps_blank_line top : PS top sc_nl [] [].
Proof.
  exists [UNl]. split; [lit_cfrag|]. split; [|constructor]. intros regs p _. cbn [pre ne]. rewrite orb_false_r. exact (nr_nls_idle 1 regs p).
Qed.

Lemma L_class : forall b tb, Tk b tb -> Tk (lit "class " ++ b) (kwt "class" :: tb).
Proof. assert (H : CFrag (lit "class ") [kwt "class"]) by lit_cfrag. exact H. Qed.
Lemma L_ext_ser : forall b tb, Tk b tb -> Tk (lit " extends Serializable" ++ sc_nl ++ sc_nl ++ b) (kwt "extends" :: UId (lit "Serializable") :: UNl :: UNl :: tb).
Proof.
  assert (H : CFrag (lit " extends Serializable" ++ sc_nl ++ sc_nl) [kwt "extends"; UId (lit "Serializable"); UNl; UNl]) by lit_cfrag.
  intros b tb Hb. specialize (H b tb Hb). rewrite <- !app_assoc in H. exact H.
Qed.

Lemma ps_empty_class top docs name : forallb Proofs.C10Lex.c10_line_ok docs = true -> gname name ->
  PSd top (sc_render_decl (SCEmptyClass docs name)).
Proof.
  intros Hd [Hn1 Hn2].
  exists [kwt "class" :: UId name :: kwt "extends" :: [UId (lit "Serializable")]], [1%nat]. split; [|split; [discriminate|constructor; [lia|constructor]]].
  apply (ps_simple top _ docs (lit "class") _ 1 1); [|reflexivity|reflexivity| | |].
  - intros b tb Hb. cbn [sc_render_decl]. rewrite <- !app_assoc. apply (sc_comments_cfrag 0 docs Hd). cbn [repeat app].
    apply L_class. change (UId name :: ?x) with ([UId name] ++ x). apply (frag_ident name Hn1); [reflexivity|]. apply L_ext_ser, Hb.
  - apply bal_cons_id, bal_cons_id, bal_id.
  - reflexivity.
  - apply (stat_class top name _ O); [exact Hn2|]. apply templ_ext, Gt_name. reflexivity.
Qed.

(* ------------------------------------------------------------------ members and case classes *)
Definition c10_scg_member_ok (m : sc_member) : Prop :=
  forallb Proofs.C10Lex.c10_line_ok (scm_docs m) = true /\ gname (scm_name m) /\ c10_scg_texp (scm_type m) /\ scm_default m <> SCDefUnderscore.

Definition member_dflt (m : sc_member) : option str := match scm_default m with SCDefNone => Some (lit "None") | _ => None end.

Lemma L_tab : forall b tb, Tk b tb -> Tk ([ch_tab] ++ b) tb.
Proof. assert (H : CFrag [ch_tab] []) by lit_cfrag. exact H. Qed.
Lemma L_colon : forall b tb, Tk b tb -> Tk (lit ": " ++ b) (UP 58 :: tb).
Proof. assert (H : CFrag (lit ": ") [UP 58]) by lit_cfrag. exact H. Qed.

(* a member: docs, then name: type [= None]; an OPEN fragment (a comma or a line end follows) *)
Lemma member_text m : c10_scg_member_ok m -> exists tx, Gt TTy tx /\
  Frag (sc_render_member m) (docs_raw (scm_docs m) ++ member_toks (scm_name m) tx (member_dflt m)).
Proof.
  intros (Hd & [Hn1 Hn2] & Hty & Hdef). destruct (sc_show_tytext _ Hty) as (tx & Hf & Hgt). exists tx. split; [exact Hgt|].
  intros b tb Hs Hb. unfold sc_render_member, member_toks, member_dflt. rewrite <- !app_assoc.
  apply (sc_comments_cfrag 1 _ Hd). apply L_tab. cbn [app].
  change (UId (scm_name m) :: ?x) with ([UId (scm_name m)] ++ x). apply (frag_ident _ Hn1); [reflexivity|]. apply L_colon.
  rewrite <- app_assoc. destruct (scm_default m); [| |congruence].
  - cbn [dflt_toks app]. apply Hf; [exact Hs|exact Hb].
  - assert (L : Frag (lit " = None") [UP 61; UId (lit "None")]) by lit_frag.
    apply Hf; [reflexivity|]. exact (L b tb Hs Hb).
Qed.

Lemma member_shape name tx d : Gt TTy tx -> forallb nonl (member_toks name tx d) = true /\ Bal (member_toks name tx d).
Proof.
  intros Ht. unfold member_toks. split.
  - cbn [forallb nonl]. rewrite forallb_app, (gt_nonl _ Ht). destruct d; reflexivity.
  - apply bal_cons_id. apply bal_cons_p; try lia. apply bal_app; [apply gt_bal, Ht|]. destruct d; [|apply bal_nil].
    cbn [dflt_toks]. apply bal_cons_p; try lia. apply bal_id.
Qed.

Lemma nr_off_docs docs regs ce : NR (false :: regs) ce false (docs_raw docs) [] (false :: regs) ce false.
Proof. apply nr_off. Qed.

Lemma L_comma_nl : forall b tb, Tk b tb -> Tk ((lit "," ++ sc_nl) ++ b) (UP 44 :: UNl :: tb).
Proof. assert (H : CFrag (lit "," ++ sc_nl) [UP 44; UNl]) by lit_cfrag. exact H. Qed.
Lemma L_nl_rparen : forall b tb, Tk b tb -> Tk (sc_nl ++ lit ")" ++ b) (UNl :: UP 41 :: tb).
Proof.
  assert (H : CFrag (sc_nl ++ lit ")") [UNl; UP 41]) by lit_cfrag. intros b tb Hb. specialize (H b tb Hb). rewrite <- !app_assoc in H. exact H.
Qed.

(* the members of a case class up to and including the closing parenthesis, inside the (disabled) parenthesis region *)
Lemma members_text ms : ms <> [] -> Forall c10_scg_member_ok ms ->
  exists raw cooked, CFrag (join (lit "," ++ sc_nl) (map sc_render_member ms) ++ sc_nl ++ lit ")") raw /\
    (forall regs ce, NR (false :: regs) ce false raw (params_toks cooked) regs true false) /\
    Forall MemberToks cooked /\ cooked <> [].
Proof.
  induction ms as [|m r IH]; [congruence|]. intros _ H. inversion H as [|m0 r0 Hm Hr]; subst.
  destruct (member_text m Hm) as (tx & Hgt & Hfm). destruct (member_shape (scm_name m) tx (member_dflt m) Hgt) as [S1 S2].
  assert (Hmt : MemberToks (member_toks (scm_name m) tx (member_dflt m))).
  { apply param_ok; [exact (proj2 (proj1 (proj2 Hm)))|exact Hgt|]. unfold member_dflt. destruct (scm_default m); try exact I. reflexivity. }
  destruct r as [|m2 r].
  - exists ((docs_raw (scm_docs m) ++ member_toks (scm_name m) tx (member_dflt m)) ++ [UNl; UP 41]), [member_toks (scm_name m) tx (member_dflt m)].
    split; [|split; [|split; [constructor; [exact Hmt|constructor]|discriminate]]].
    + cbn [map join]. apply frag_cfrag_app; [exact Hfm| |reflexivity]. intros b tb Hb. rewrite <- app_assoc. apply L_nl_rparen, Hb.
    + intros regs ce rest. rewrite <- !app_assoc. rewrite (nr_off_docs (scm_docs m) regs ce _). rewrite (nr_run _ (false :: regs) ce S1 S2 _).
      change ([UNl; UP 41] ++ rest) with (repeat UNl 1 ++ [UP 41] ++ rest). rewrite (nr_off 1 regs _ _). rewrite (nr_close41 regs _ _).
      cbn [app params_toks]. rewrite <- app_assoc. reflexivity.
  - destruct (IH ltac:(discriminate) Hr) as (raw & cooked & Hf & Hn & Hc & Hne).
    exists ((docs_raw (scm_docs m) ++ member_toks (scm_name m) tx (member_dflt m)) ++ [UP 44; UNl] ++ raw), (member_toks (scm_name m) tx (member_dflt m) :: cooked).
    split; [|split; [|split; [constructor; assumption|discriminate]]].
    + change (join (lit "," ++ sc_nl) (map sc_render_member (m :: m2 :: r)))
        with (sc_render_member m ++ (lit "," ++ sc_nl) ++ join (lit "," ++ sc_nl) (map sc_render_member (m2 :: r))).
      rewrite <- !app_assoc. intros b tb Hb. rewrite <- !app_assoc. rewrite (app_assoc (docs_raw (scm_docs m))). apply Hfm; [reflexivity|].
      change ([UP 44; UNl] ++ raw ++ tb) with (UP 44 :: UNl :: raw ++ tb).
      rewrite (app_assoc (lit ",")). apply L_comma_nl. specialize (Hf b tb Hb). rewrite <- !app_assoc in Hf. exact Hf.
    + intros regs ce rest. rewrite <- !app_assoc. rewrite (nr_off_docs (scm_docs m) regs ce _). rewrite (nr_run _ (false :: regs) ce S1 S2 _).
      change ([UP 44; UNl] ++ raw ++ rest) with ([UP 44] ++ repeat UNl 1 ++ raw ++ rest).
      rewrite (nr_run [UP 44] (false :: regs) _ eq_refl bal_comma _). rewrite (nr_off 1 regs _ _). rewrite (Hn regs _ rest). cbn [app].
      destruct cooked as [|c0 cs]; [congruence|].
      change (params_toks (member_toks (scm_name m) tx (member_dflt m) :: c0 :: cs))
        with (member_toks (scm_name m) tx (member_dflt m) ++ UP 44 :: params_toks (c0 :: cs)).
      rewrite <- app_assoc. reflexivity.
Qed.

Lemma L_case_class : forall b tb, Tk b tb -> Tk (lit "case class " ++ b) (kwt "case" :: kwt "class" :: tb).
Proof. assert (H : CFrag (lit "case class ") [kwt "case"; kwt "class"]) by lit_cfrag. exact H. Qed.
Lemma L_lparen_nl : forall b tb, Tk b tb -> Tk (lit " (" ++ sc_nl ++ b) (UP 40 :: UNl :: tb).
Proof.
  assert (H : CFrag (lit " (" ++ sc_nl) [UP 40; UNl]) by lit_cfrag. intros b tb Hb. specialize (H b tb Hb). rewrite <- !app_assoc in H. exact H.
Qed.

Lemma name_gens_shape name gs : forallb nonl (UId name :: gens_toks gs) = true /\ Bal (UId name :: gens_toks gs).
Proof. split; [cbn [forallb nonl]; apply gens_nonl|apply bal_cons_id, gens_bal]. Qed.

Lemma ps_case_class top docs name gs ms : forallb Proofs.C10Lex.c10_line_ok docs = true -> gname name -> Forall gname gs ->
  ms <> [] -> Forall c10_scg_member_ok ms -> PSd top (sc_render_decl (SCCaseClass docs name gs ms)).
Proof.
  intros Hd Hn Hg Hne Hms. destruct (members_text ms Hne Hms) as (raw & cooked & Hf & Hnr & Hc & Hcne).
  set (D := kwt "case" :: kwt "class" :: UId name :: gens_toks gs ++ UP 40 :: params_toks cooked ++ []).
  exists [D], [1%nat]. split; [|split; [discriminate|constructor; [lia|constructor]]].
  exists (docs_raw docs ++ kwt "case" :: kwt "class" :: UId name :: gens_toks gs ++ UP 40 :: UNl :: raw ++ [UNl; UNl]).
  split; [|split].
  - intros b tb Hb. cbn [sc_render_decl]. rewrite <- !app_assoc. apply (sc_comments_cfrag 0 docs Hd). cbn [app].
    apply L_case_class. rewrite <- !app_assoc. apply name_gens_tk; [exact Hn|exact Hg|reflexivity|]. cbn [app]. apply L_lparen_nl.
    rewrite <- !app_assoc. specialize (Hf (sc_nl ++ sc_nl ++ b) ([UNl; UNl] ++ tb)). rewrite <- !app_assoc in Hf. apply Hf.
    cbn [app]. apply L_nl. apply L_nl, Hb.
  - intros regs p He rest. rewrite <- !app_assoc. rewrite (nr_docs docs regs p _). cbn [app].
    change (kwt "case" :: ?x) with ([kwt "case"] ++ x). rewrite (nr_kw (lit "case") regs p p eq_refl _).
    change (kwt "class" :: UId name :: ?x) with ([kwt "class"] ++ UId name :: x).
    rewrite (nr_run [kwt "class"] regs _ eq_refl (bal_id _) _).
    destruct (name_gens_shape name gs) as [S1 S2].
    rewrite <- !app_assoc. change (UId name :: gens_toks gs ++ ?x) with ((UId name :: gens_toks gs) ++ x).
    rewrite (nr_run _ regs _ S1 S2 _).
    cbn [app]. rewrite <- !app_assoc.
    change (UP 40 :: UNl :: ?x) with ([UP 40] ++ repeat UNl 1 ++ x). rewrite (nr_open40 regs _ _). rewrite (nr_off 1 regs _ _).
    rewrite (Hnr regs _ _). rewrite (nr_two_nl regs He _).
    cbn [pre ne seq_toks]. rewrite orb_true_r. unfold D. rewrite app_nil_r. cbn [app]. rewrite <- !app_assoc. cbn [app]. rewrite <- !app_assoc. reflexivity.
  - constructor; [|constructor]. unfold D. apply (stat_case_class top name gs cooked [] O); [exact (proj2 Hn)|apply gnames_nm, Hg|exact Hcne|exact Hc|apply templ_none].
Qed.
