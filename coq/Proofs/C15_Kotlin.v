(* C15 for Kotlin at renderer level: what kt_write_item prints for an IR item is code parts and `/// `
   comment fragments whose doc strings are the item's doc strings in Kotlin's print order (helper data
   classes of struct variants first, each under the comment typeshare generates for it, then the
   enum's own doc, then the variants' docs). *)
From Coq Require Import List NArith Bool Lia ZifyBool ZifyN String.
From TS Require Import Model.Str Model.Outcome Model.Unicode Model.Types Model.Parse Model.Rename
                       Model.Lang.Common Model.Lang.Decl Model.Lang.TypeScript Model.Lang.Kotlin.
From TS Require Import Spec.Lexers Spec.C15Spec Spec.C15Render Proofs.C15 Proofs.C15_Render.
Import ListNotations.
Local Open Scope N_scope.

Ltac c15_sites_norm :=
  unfold c15_sites; cbn [app]; rewrite ?app_nil_r, ?map_app, ?c15_map_flat_map; cbn [app map]; rewrite ?app_nil_r; reflexivity.

(* the doc strings of a declaration, in print order *)
Definition kt_decl_docs (d : kt_decl) : list str :=
  match d with
  | KTObject docs _ | KTTypeAlias docs _ _ _ => docs
  | KTDataClass docs _ _ ms _ => docs ++ flat_map km_docs ms
  | KTValueClass docs _ m _ => docs ++ km_docs m
  | KTEnumClass docs _ _ es => docs ++ flat_map ke_docs es
  | KTSealedClass docs _ _ _ vs => docs ++ flat_map kv_docs vs
  end.

Section KTLayout.
Variable P : str -> Prop.
Hypothesis P_all : forall s, P s.
Notation D := (Decomp C15kt P).

Lemma kt_comments_decomp i ds : D (kt_write_comments i ds) (c15_sites false ds).
Proof. rewrite <- (proj1 (C15_fragment_kt i ds)). exact (Decomp_frag C15kt P false i ds). Qed.

Ltac kt_decomp tac :=
  repeat first [ apply kt_comments_decomp | tac | apply Decomp_app | apply Decomp_code; apply P_all ].

Lemma kt_member_decomp m : D (kt_render_member m) (c15_sites false (km_docs m)).
Proof. unfold kt_render_member. eapply Decomp_eq; [kt_decomp ltac:(fail)|]. c15_sites_norm. Qed.

Lemma kt_entry_decomp e : D (kt_render_entry e) (c15_sites false (ke_docs e)).
Proof. unfold kt_render_entry. eapply Decomp_eq; [kt_decomp ltac:(fail)|]. c15_sites_norm. Qed.

Lemma kt_variant_decomp content gs v : D (kt_render_variant content gs v) (c15_sites false (kv_docs v)).
Proof. unfold kt_render_variant. eapply Decomp_eq; [kt_decomp ltac:(fail)|]. c15_sites_norm. Qed.

Theorem kt_decl_decomp d : D (kt_render_decl d) (c15_sites false (kt_decl_docs d)).
Proof.
  destruct d as [docs name|docs name gs ms ts|docs name gs ty|docs name m red|docs name gs es|docs name gs content vs];
    cbn [kt_render_decl kt_decl_docs].
  - eapply Decomp_eq; [kt_decomp ltac:(fail)|]. c15_sites_norm.
  - eapply Decomp_eq;
      [kt_decomp ltac:(apply (Decomp_join C15kt P) with (g := fun m => c15_sites false (km_docs m));
                       [apply P_all|intros; apply kt_member_decomp])|].
    c15_sites_norm.
  - eapply Decomp_eq; [kt_decomp ltac:(fail)|]. c15_sites_norm.
  - eapply Decomp_eq; [kt_decomp ltac:(apply kt_member_decomp)|]. c15_sites_norm.
  - eapply Decomp_eq;
      [kt_decomp ltac:(apply (Decomp_concat_map C15kt P) with (g := fun e => c15_sites false (ke_docs e));
                       intros; apply kt_entry_decomp)|].
    c15_sites_norm.
  - eapply Decomp_eq;
      [kt_decomp ltac:(apply (Decomp_concat_map C15kt P) with (g := fun v => c15_sites false (kv_docs v));
                       intros; apply kt_variant_decomp)|].
    c15_sites_norm.
Qed.
End KTLayout.

(* ---- decisions: the declarations keep the IR's doc strings ---- *)
Section KTDocs.
Variable cfg : kt_config.

Lemma kt_member_docs_ir f gs rsn vis m : kt_member_of cfg f gs rsn vis = Ok m -> km_docs m = fcomments f.
Proof.
  unfold kt_member_of. intros H. apply c15_bind_ok in H as (ty & _ & H). injection H as <-. reflexivity.
Qed.

Lemma kt_struct_docs_ir rs d : kt_struct_decl cfg rs = Ok d ->
  kt_decl_docs d = scomments rs ++ flat_map fcomments (sfields rs).
Proof.
  unfold kt_struct_decl. destruct (sfields rs) as [|f fs] eqn:E.
  - intros H. injection H as <-. cbn. now rewrite app_nil_r.
  - intros H. apply c15_bind_ok in H as (ms & Hm & H). injection H as <-. cbn [kt_decl_docs]. f_equal.
    apply c15_Forall2_flat_map. eapply c15_mapM_Forall2; [|exact Hm].
    intros x y Hx. exact (kt_member_docs_ir _ _ _ _ _ Hx).
Qed.

Lemma kt_inner_docs_ir e ds : kt_inner_decls cfg e = Ok ds ->
  flat_map kt_decl_docs ds = flat_map (c15_helper_docs (enum_shared e)) (evariants (enum_shared e)).
Proof.
  unfold kt_inner_decls. intros H. apply c15_bind_ok in H as (dss & Hm & H). injection H as <-.
  rewrite c15_flat_map_concat. apply c15_Forall2_flat_map. eapply c15_mapM_Forall2; [|exact Hm].
  intros v ds Hv. destruct v as [vsh|t vsh|fs vsh]; try (injection Hv as <-; reflexivity).
  apply c15_bind_ok in Hv as (d & Hd & Hv). injection Hv as <-. cbn [flat_map]. rewrite app_nil_r.
  rewrite (kt_struct_docs_ir _ _ Hd). reflexivity.
Qed.

Theorem kt_decl_docs_ir it ds : kt_decl_of cfg it = Ok ds ->
  flat_map kt_decl_docs ds = c15_item_docs_helpers_first it.
Proof.
  destruct it as [s|e|a|c]; cbn [kt_decl_of c15_item_docs_helpers_first c15_item_docs]; intros H.
  - apply c15_bind_ok in H as (d & Hd & H). injection H as <-. cbn [flat_map]. rewrite app_nil_r.
    exact (kt_struct_docs_ir _ _ Hd).
  - unfold kt_enum_decls in H. apply c15_bind_ok in H as (anon & Ha & H). apply c15_bind_ok in H as (d & Hd & H).
    injection H as <-. rewrite flat_map_app, (kt_inner_docs_ir _ _ Ha). f_equal. cbn [flat_map]. rewrite app_nil_r.
    destruct e as [sh|tag content sh]; cbn [enum_shared] in *.
    + apply c15_bind_ok in Hd as (es & He & Hd). injection Hd as <-. cbn [kt_decl_docs]. f_equal.
      apply c15_Forall2_flat_map. eapply c15_mapM_Forall2; [|exact He].
      intros v x Hv. unfold kt_entry_of in Hv. injection Hv as <-. reflexivity.
    + apply c15_bind_ok in Hd as (vs & Hv & Hd). injection Hd as <-. cbn [kt_decl_docs]. f_equal.
      apply c15_Forall2_flat_map. eapply c15_mapM_Forall2; [|exact Hv].
      intros v x Hx. unfold kt_variant_of in Hx. apply c15_bind_ok in Hx as (pl & _ & Hx). injection Hx as <-. reflexivity.
  - apply c15_bind_ok in H as (d & Hd & H). injection H as <-. cbn [flat_map]. rewrite app_nil_r.
    unfold kt_alias_decl in Hd. destruct (kt_is_inline (adecs a)).
    + apply c15_bind_ok in Hd as (m & Hm & Hd). injection Hd as <-. cbn [kt_decl_docs].
      rewrite (kt_member_docs_ir _ _ _ _ _ Hm). cbn. now rewrite app_nil_r.
    + apply c15_bind_ok in Hd as (ty & _ & Hd). injection Hd as <-. reflexivity.
  - discriminate.
Qed.

(* one item through write_struct / write_enum (with write_types_for_anonymous_structs) / write_type_alias *)
Theorem kt_item_decomp it text : kt_write_item cfg it = Ok text ->
  Decomp C15kt (fun _ => True) text (c15_sites false (c15_item_docs_helpers_first it)).
Proof.
  unfold kt_write_item. intros H. apply c15_bind_ok in H as (ds & Hd & H). injection H as <-.
  rewrite <- (kt_decl_docs_ir _ _ Hd). eapply Decomp_eq.
  - apply Decomp_concat_map with (g := fun d => c15_sites false (kt_decl_docs d)).
    intros d _. apply kt_decl_decomp. auto.
  - unfold c15_sites. now rewrite c15_map_flat_map.
Qed.

Theorem C15_kt_render_partial it text : kt_write_item cfg it = Ok text ->
  exists parts,
    text = text_of (c15_file_pieces C15kt parts) /\
    docs_of (c15_file_pieces C15kt parts) = c15_item_docs_helpers_first it /\
    (Forall (c15_code_neutral C15kt) parts ->
     c15_contained C15kt LCode (mark (c15_file_pieces C15kt parts)) =
     forallb safe_kt (c15_item_docs_helpers_first it)).
Proof.
  intros H. destruct (Decomp_partial _ _ _ (kt_item_decomp _ _ H)) as (ps & Ht & Hd & Hc).
  exists ps. rewrite c15_sites_text_line in Hd by discriminate. rewrite c15_sites_ok_false in Hc by discriminate. auto.
Qed.
End KTDocs.

(* ================================================================================================
   Kotlin WITHOUT the neutrality hypothesis: for items whose identifiers are non-empty strings without
   comment / literal openers, backslashes and control characters (c15_item_strict), with a plain prefix
   and plain type_mappings targets, the code kt_write_item prints around the `/// ` fragments keeps the
   reference lexer in code mode.
   ================================================================================================ *)
Notation NK := (c15_neutral C15kt).
Notation plain := (c15_plain C15kt).

Lemma kt_plain_char_iff c : c15_plain_char C15kt c = negb (c =? 47) && negb (c =? 34) && negb (c =? 39).
Proof.
  unfold c15_plain_char, lex_code. cbn [c15_cfg cfg_kt lc_slash lc_hash lc_triple lc_quotes lc_long andb].
  unfold isin, ch_slash, ch_dq, ch_sq. cbn [existsb].
  destruct (c =? 47), (c =? 34), (c =? 39); reflexivity.
Qed.

(* ---- quoted strings under the Kotlin lexer (a quote may open a raw string: LOpen) ---- *)
Definition kt_quoted_ok (s : str) : bool := match s with [] => false | _ => c15_lit_str s end.
Definition kt_raw_char (c : char) : bool := c15_lit_char c && negb (c =? ch_dq) && negb (c =? ch_bs).
Definition kt_raw_ok (s : str) : bool := match s with [] => false | _ => forallb kt_raw_char s end.

Definition kt_in_str (S : lstate) : Prop := S = LOpen ch_dq false \/ S = LStr ch_dq false.

Lemma kt_escape_lex S c : kt_in_str S -> c15_lit_char c = true ->
  lex_str_gen cfg_kt S (escape_debug_char c) = LStr ch_dq false.
Proof.
  unfold c15_lit_char, escape_debug_char, ch_dq, ch_bs, ch_nl, ch_cr, ch_tab, ch_sq. intros HS H.
  repeat match goal with |- context [if ?b then _ else _] =>
           let E := fresh in destruct b eqn:E; [try (destruct HS as [-> | ->]; reflexivity); lia|] end.
  destruct HS as [-> | ->]; cbn [lex_str_gen fold_left lex_gen lex_quoted cfg_kt lc_eol]; unfold ch_bs, ch_dq, eol_lf_cr, ch_nl, ch_cr.
  - replace (c =? 34) with false by lia. replace (c =? 92) with false by lia.
    replace (false || ((c =? 10) || (c =? 13))) with false by lia. reflexivity.
  - replace (c =? 92) with false by lia. replace ((c =? 34) || ((c =? 10) || (c =? 13))) with false by lia. reflexivity.
Qed.

Lemma kt_escapes_lex S s : kt_in_str S -> s <> [] -> c15_lit_str s = true ->
  lex_str_gen cfg_kt S (flat_map escape_debug_char s) = LStr ch_dq false.
Proof.
  unfold c15_lit_str. revert S. induction s as [|c r IH]; intros S HS Hne H; [congruence|].
  cbn [forallb] in H. apply andb_true_iff in H as [Hc Hr]. cbn [flat_map]. rewrite lex_str_app, (kt_escape_lex S c HS Hc).
  destruct r as [|c2 r2]; [reflexivity|]. apply IH; [now right|discriminate|exact Hr].
Qed.

Lemma kt_debug_neutral s : kt_quoted_ok s = true -> NK (debug_str s).
Proof.
  intros H. unfold c15_neutral, debug_str. rewrite lex_str_app.
  change (lex_str_gen (c15_cfg C15kt) LCode [ch_dq]) with (LOpen ch_dq false). rewrite lex_str_app.
  change (c15_cfg C15kt) with cfg_kt. rewrite (kt_escapes_lex (LOpen ch_dq false) s); [reflexivity|now left| |].
  - intros ->. discriminate.
  - destruct s; [discriminate|exact H].
Qed.

Lemma kt_raw_char_lex S c : kt_in_str S -> kt_raw_char c = true -> lex_gen cfg_kt S c = LStr ch_dq false.
Proof.
  unfold kt_raw_char, c15_lit_char, ch_dq, ch_bs. intros HS H.
  destruct HS as [-> | ->]; cbn [lex_gen lex_quoted cfg_kt lc_eol]; unfold ch_bs, ch_dq, eol_lf_cr, ch_nl, ch_cr.
  - replace (c =? 34) with false by lia. replace (c =? 92) with false by lia.
    replace (false || ((c =? 10) || (c =? 13))) with false by lia. reflexivity.
  - replace (c =? 92) with false by lia. replace ((c =? 34) || ((c =? 10) || (c =? 13))) with false by lia. reflexivity.
Qed.

Lemma kt_raw_neutral s : kt_raw_ok s = true -> NK ([ch_dq] ++ s ++ [ch_dq]).
Proof.
  intros H. unfold c15_neutral. rewrite lex_str_app.
  change (lex_str_gen (c15_cfg C15kt) LCode [ch_dq]) with (LOpen ch_dq false). rewrite lex_str_app.
  change (c15_cfg C15kt) with cfg_kt.
  assert (E : forall S, kt_in_str S -> s <> [] -> forallb kt_raw_char s = true -> lex_str_gen cfg_kt S s = LStr ch_dq false).
  { clear H. induction s as [|c r IH]; intros S HS Hne Hr; [congruence|].
    cbn [forallb] in Hr. apply andb_true_iff in Hr as [Hc Hr]. cbn [lex_str_gen fold_left]. rewrite (kt_raw_char_lex S c HS Hc).
    destruct r as [|c2 r2]; [reflexivity|]. apply IH; [now right|discriminate|exact Hr]. }
  destruct s as [|c r]; [discriminate|]. rewrite E; [reflexivity|now left|discriminate|exact H].
Qed.

(* ---- the strict identifiers give plain / quoted / raw-quoted strings ---- *)
Lemma kt_ident_parts s : c15_ident_ok C15kt s = true ->
  plain s = true /\ kt_quoted_ok s = true /\ kt_raw_ok s = true /\ c15_lit_str s = true.
Proof.
  unfold c15_ident_ok, kt_quoted_ok, kt_raw_ok, c15_lit_str, c15_plain. destruct s as [|c r]; [discriminate|].
  generalize (c :: r). intros l H.
  assert (E : forall p : char -> bool, (forall x, c15_ident_char C15kt x = true -> p x = true) -> forallb p l = true).
  { intros p Hp. rewrite forallb_forall in H |- *. intros x Hx. apply Hp, H, Hx. }
  repeat split; apply E; intros x Hx; unfold c15_ident_char, kt_raw_char in *; rewrite kt_plain_char_iff in *; unfold ch_dq, ch_bs in *; lia.
Qed.

(* ================= layout ================= *)
Definition kt_member_ok (m : kt_member) : bool :=
  match km_serial_name m with Some k => kt_quoted_ok k | None => true end &&
  plain (km_name m) && plain (kt_show (km_type m)).
Definition kt_entry_ok (e : kt_entry) : bool := plain (ke_name e) && kt_quoted_ok (ke_wire e).
Definition kt_variant_ok (v : kt_variant) : bool :=
  kt_raw_ok (kv_wire v) && plain (kv_name v) && plain (kv_parent v) &&
  match kv_payload v with
  | KTPUnit => true
  | KTPNewtype ty => plain (kt_show ty)
  | KTPInner inner gs => plain inner && forallb plain gs
  end.
Definition kt_decl_ok (d : kt_decl) : bool :=
  match d with
  | KTObject _ name => plain name
  | KTDataClass _ name gs ms ts =>
    plain name && forallb plain gs && forallb kt_member_ok ms &&
    match ts with Some s => kt_quoted_ok s | None => true end
  | KTTypeAlias _ name gs ty => plain name && forallb plain gs && plain (kt_show ty)
  | KTValueClass _ name m _ => plain name && kt_member_ok m
  | KTEnumClass _ name gs es => plain name && forallb plain gs && forallb kt_entry_ok es
  | KTSealedClass _ name gs content vs => plain name && forallb plain gs && plain content && forallb kt_variant_ok vs
  end.

Notation DK := (Decomp C15kt NK).

Ltac kt_atom :=
  first [ apply c15_neutral_plain; assumption
        | match goal with |- c15_neutral _ (if ?b then _ else _) => destruct b end; vm_compute; reflexivity
        | vm_compute; reflexivity ].
Ltac kt_quoted :=
  apply Decomp_code;
  first [ apply kt_debug_neutral; assumption
        | apply kt_raw_neutral; assumption
        | apply c15_neutral_plain; apply c15_plain_generics_suffix; assumption ].
Ltac ktn_decomp tac :=
  c15_decomp ltac:(apply (kt_comments_decomp NK)) ltac:(first [tac | kt_quoted]) kt_atom.

Lemma ktn_member_decomp m : kt_member_ok m = true -> DK (kt_render_member m) (c15_sites false (km_docs m)).
Proof.
  unfold kt_member_ok, kt_render_member. intros H. c15_split_andb.
  destruct (km_serial_name m), (km_visibility m), (km_default m);
    (eapply Decomp_eq; [ktn_decomp ltac:(fail)|]; c15_sites_norm).
Qed.

Lemma ktn_entry_decomp e : kt_entry_ok e = true -> DK (kt_render_entry e) (c15_sites false (ke_docs e)).
Proof.
  unfold kt_entry_ok, kt_render_entry. intros H. c15_split_andb.
  eapply Decomp_eq; [ktn_decomp ltac:(fail)|]. c15_sites_norm.
Qed.

Lemma ktn_variant_decomp content gs v : plain content = true -> forallb plain gs = true -> kt_variant_ok v = true ->
  DK (kt_render_variant content gs v) (c15_sites false (kv_docs v)).
Proof.
  unfold kt_variant_ok, kt_render_variant. cbv zeta. intros Hc Hg H. c15_split_andb.
  destruct (kv_payload v); c15_split_andb; (eapply Decomp_eq; [ktn_decomp ltac:(fail)|]; c15_sites_norm).
Qed.

Theorem ktn_decl_decomp d : kt_decl_ok d = true -> DK (kt_render_decl d) (c15_sites false (kt_decl_docs d)).
Proof.
  intros H.
  destruct d as [docs name|docs name gs ms ts|docs name gs ty|docs name m red|docs name gs es|docs name gs content vs];
    cbn [kt_decl_ok kt_render_decl kt_decl_docs] in *; c15_split_andb.
  - eapply Decomp_eq; [ktn_decomp ltac:(fail)|]. c15_sites_norm.
  - match goal with Hm : forallb kt_member_ok ms = true |- _ => rename Hm into Hms end.
    destruct ts;
      (eapply Decomp_eq;
       [ktn_decomp ltac:(apply (Decomp_join C15kt NK) with (g := fun m => c15_sites false (km_docs m));
                         [vm_compute; reflexivity
                         |intros m Hin; rewrite forallb_forall in Hms; apply ktn_member_decomp, Hms, Hin])|];
       c15_sites_norm).
  - eapply Decomp_eq; [ktn_decomp ltac:(fail)|]. c15_sites_norm.
  - destruct red; (eapply Decomp_eq; [ktn_decomp ltac:(apply ktn_member_decomp; assumption)|]; c15_sites_norm).
  - match goal with Hm : forallb kt_entry_ok es = true |- _ => rename Hm into Hes end.
    eapply Decomp_eq;
      [ktn_decomp ltac:(apply (Decomp_concat_map C15kt NK) with (g := fun e => c15_sites false (ke_docs e));
                        intros e Hin; rewrite forallb_forall in Hes; apply ktn_entry_decomp, Hes, Hin)|].
    c15_sites_norm.
  - match goal with Hm : forallb kt_variant_ok vs = true |- _ => rename Hm into Hvs end.
    eapply Decomp_eq;
      [ktn_decomp ltac:(apply (Decomp_concat_map C15kt NK) with (g := fun v => c15_sites false (kv_docs v));
                        intros v Hin; rewrite forallb_forall in Hvs; apply ktn_variant_decomp; auto)|].
    c15_sites_norm.
Qed.

(* ================= decisions: strict IR items give declarations with neutral code ================= *)
Lemma c15_go_is_mapM {A B} (f : A -> outcome B) (l : list A) :
  (fix go (l : list A) : outcome (list B) :=
     match l with
     | [] => Ok []
     | x :: r => bind (f x) (fun y => bind (go r) (fun ys => Ok (y :: ys)))
     end) l = mapM f l.
Proof. induction l as [|x r IH]; cbn [mapM]; [reflexivity|]. rewrite IH. reflexivity. Qed.

Lemma c15_mapM_Forall {A B} (f : A -> outcome B) (Q : B -> Prop) l :
  Forall (fun x => forall y, f x = Ok y -> Q y) l -> forall ys, mapM f l = Ok ys -> Forall Q ys.
Proof.
  induction 1 as [|x l Hx _ IH]; intros ys H; cbn [mapM] in H.
  - injection H as <-. constructor.
  - apply c15_bind_ok in H as (y & Hy & H). apply c15_bind_ok in H as (ys' & Hys & H). injection H as <-.
    constructor; eauto.
Qed.

Lemma kt_plain_chars s : plain s = true <-> forallb (fun c => negb (c =? 47) && negb (c =? 34) && negb (c =? 39)) s = true.
Proof.
  unfold c15_plain. induction s as [|c r IH]; [tauto|]. cbn [forallb]. rewrite kt_plain_char_iff, !andb_true_iff, IH. tauto.
Qed.

Definition kt_plain_c (c : char) : bool := negb (c =? 47) && negb (c =? 34) && negb (c =? 39).
Lemma kt_pascal_go_plain tolow cap s : forallb kt_plain_c s = true -> forallb kt_plain_c (pascal_go tolow cap s) = true.
Proof.
  revert cap. induction s as [|c r IH]; intros cap H; [reflexivity|].
  cbn [forallb] in H. apply andb_true_iff in H as [Hc Hr]. cbn [pascal_go].
  destruct (c =? ch_us); [now apply IH|].
  destruct cap; [|destruct tolow]; cbn [forallb]; rewrite (IH _ Hr), andb_true_r;
    unfold kt_plain_c, aupper, alower, is_alower, is_aupper in *;
    repeat match goal with |- context [if ?b then _ else _] => destruct b eqn:? end; lia.
Qed.
Lemma kt_plain_pascal s : plain s = true -> plain (to_pascal_case s) = true.
Proof. intros H. apply kt_plain_chars. apply kt_pascal_go_plain. now apply kt_plain_chars. Qed.

Lemma kt_plain_replace_dash s : plain s = true -> plain (kt_remove_dash_from_identifier s) = true.
Proof.
  unfold kt_remove_dash_from_identifier, replace_char. rewrite !kt_plain_chars, c15_forallb_map.
  intros H. rewrite forallb_forall in H |- *. intros x Hx. specialize (H x Hx). unfold ch_dash, ch_us.
  destruct (x =? 45); [reflexivity|exact H].
Qed.

Lemma c15_forallb_unique_strs (p : str -> bool) l seen : forallb p l = true -> forallb p (unique_strs l seen) = true.
Proof.
  revert seen. induction l as [|x r IH]; intros seen H; [reflexivity|].
  cbn [forallb] in H. apply andb_true_iff in H as [Hx Hr]. cbn [unique_strs].
  destruct (mem_str x seen); [now apply IH|]. cbn [forallb]. rewrite Hx. now apply IH.
Qed.

Lemma c15_forallb_filter {A} (p q : A -> bool) l : forallb p l = true -> forallb p (filter q l) = true.
Proof.
  induction l as [|x r IH]; intros H; [reflexivity|]. cbn [forallb] in H. apply andb_true_iff in H as [Hx Hr].
  cbn [filter]. destruct (q x); [cbn [forallb]; rewrite Hx|]; now apply IH.
Qed.

Lemma c15_forallb_flat_map {A B} (p : B -> bool) (f : A -> list B) l :
  (forall x, forallb p (f x) = true) -> forallb p (flat_map f l) = true.
Proof. intros H. induction l as [|x r IH]; [reflexivity|]. cbn [flat_map]. now rewrite forallb_app, H, IH. Qed.

Lemma c15_anon_generics_plain (p : str -> bool) gs fields : forallb p gs = true -> forallb p (anon_struct_generics gs fields) = true.
Proof.
  intros H. unfold anon_struct_generics. apply c15_forallb_unique_strs, c15_forallb_flat_map.
  intros f. now apply c15_forallb_filter.
Qed.

Lemma kt_quoted_app a b : kt_quoted_ok a = true -> c15_lit_str b = true -> kt_quoted_ok (a ++ b) = true.
Proof.
  unfold kt_quoted_ok, c15_lit_str. destruct a as [|c r]; [discriminate|]. cbn [app]. intros Ha Hb.
  change (c :: r ++ b) with ((c :: r) ++ b). now rewrite forallb_app, Ha, Hb.
Qed.

Section KTStrict.
Variable cfg : kt_config.
Hypothesis Hprefix : plain (kt_prefix cfg) = true.
Hypothesis Hmap : c15_mappings_plain C15kt (kt_type_mappings cfg) = true.

Lemma kt_type_name_plain base gs : plain base = true -> plain (kt_type_name cfg base gs) = true.
Proof. intros H. unfold kt_type_name. destruct (mem_str base gs); [exact H|]. now rewrite c15_plain_app, Hprefix, H. Qed.

Lemma kt_texp_plain gs t : c15_rtype_plain C15kt t = true -> forall x, kt_texp cfg gs t = Ok x -> plain (kt_show x) = true.
Proof.
  induction t as [id|id ps IH|t IH|t n IH|t IH|k v IHk IHv|t IH|p] using rtype_ind'; intros Hp x H;
    cbn [kt_texp c15_rtype_plain] in *.
  - injection H as <-. unfold kt_format_simple_type. destruct (tmap_get (kt_type_mappings cfg) id) eqn:E; cbn [kt_show].
    + eapply c15_tmap_get_plain; eauto.
    + now apply kt_type_name_plain.
  - apply andb_true_iff in Hp as [Hid Hps]. destruct (tmap_get (kt_type_mappings cfg) id) eqn:E.
    + injection H as <-. cbn [kt_show]. eapply c15_tmap_get_plain; eauto.
    + rewrite c15_go_is_mapM in H. apply c15_bind_ok in H as (params & Hparams & H). injection H as <-.
      assert (HQ : Forall (fun y => plain (kt_show y) = true) params).
      { eapply c15_mapM_Forall; [|exact Hparams]. rewrite Forall_forall in IH |- *. intros t Ht.
        apply IH; [exact Ht|]. rewrite forallb_forall in Hps. now apply Hps. }
      cbn [kt_show]. destruct params as [|y r]; [now apply kt_type_name_plain|].
      rewrite !c15_plain_app, kt_type_name_plain by exact Hid. cbn [andb].
      rewrite c15_plain_join; [reflexivity|reflexivity|]. rewrite c15_forallb_map. now apply c15_Forall_forallb.
  - apply c15_bind_ok in H as (e & He & H). injection H as <-. cbn [kt_show map join].
    rewrite !c15_plain_app, (IH Hp _ He). reflexivity.
  - apply c15_bind_ok in H as (e & He & H). injection H as <-. cbn [kt_show map join].
    rewrite !c15_plain_app, (IH Hp _ He). reflexivity.
  - apply c15_bind_ok in H as (e & He & H). injection H as <-. cbn [kt_show map join].
    rewrite !c15_plain_app, (IH Hp _ He). reflexivity.
  - apply andb_true_iff in Hp as [Hk Hv].
    apply c15_bind_ok in H as (ks & Hks & H). apply c15_bind_ok in H as (vs & Hvs & H). injection H as <-.
    cbn [kt_show map join]. rewrite !c15_plain_app, (IHk Hk _ Hks), (IHv Hv _ Hvs). reflexivity.
  - apply c15_bind_ok in H as (e & He & H). injection H as <-. cbn [kt_show].
    rewrite c15_plain_app, (IH Hp _ He). reflexivity.
  - destruct p; try discriminate; injection H as <-; reflexivity.
Qed.

Lemma kt_member_ok_ir f gs rsn vis m : c15_field_strict C15kt Kotlin f = true ->
  kt_member_of cfg f gs rsn vis = Ok m -> kt_member_ok m = true.
Proof.
  unfold c15_field_strict, kt_member_of. intros Hf H. apply andb_true_iff in Hf as [Hid Hty].
  destruct (kt_ident_parts _ Hid) as (Hpl & Hq & _ & _).
  apply c15_bind_ok in H as (ty & Ety & H). injection H as <-. unfold kt_member_ok. cbn [km_serial_name km_name km_type].
  repeat (apply andb_true_iff; split).
  - now destruct rsn.
  - now apply kt_plain_replace_dash.
  - destruct (type_override f Kotlin); [injection Ety as <-; exact Hty|eapply kt_texp_plain; eauto].
Qed.

Lemma kt_struct_ok_ir rs d :
  plain (renamed (sid rs)) = true -> kt_quoted_ok (renamed (sid rs)) = true ->
  forallb plain (sgenerics rs) = true -> forallb (c15_field_strict C15kt Kotlin) (sfields rs) = true ->
  kt_struct_decl cfg rs = Ok d -> kt_decl_ok d = true.
Proof.
  intros Hn Hq Hg Hf H. unfold kt_struct_decl in H. destruct (sfields rs) as [|f fs] eqn:E.
  - injection H as <-. cbn [kt_decl_ok]. now rewrite c15_plain_app, Hprefix, Hn.
  - apply c15_bind_ok in H as (ms & Hm & H). injection H as <-. cbn [kt_decl_ok].
    rewrite c15_plain_app, Hprefix, Hn, Hg. cbn [andb]. apply andb_true_iff. split; [|now destruct (sredacted rs)].
    apply (c15_Forall2_forallb (fun f m => c15_field_strict C15kt Kotlin f = true -> kt_member_ok m = true)
             (c15_field_strict C15kt Kotlin) _ (f :: fs) ms); [|auto|exact Hf].
    eapply c15_mapM_Forall2; [|exact Hm]. intros x y Hx Hs. exact (kt_member_ok_ir _ _ _ _ _ Hs Hx).
Qed.

Lemma kt_inner_ok_ir e ds : c15_item_strict C15kt Kotlin (ItEnum e) = true ->
  kt_inner_decls cfg e = Ok ds -> forallb kt_decl_ok ds = true.
Proof.
  cbn [c15_item_strict]. intros Hs H. c15_split_andb.
  destruct (kt_ident_parts (renamed (eid (enum_shared e))) ltac:(eassumption)) as (Hrp & Hrq & _ & Hrl).
  unfold kt_inner_decls in H. apply c15_bind_ok in H as (dss & Hm & H). injection H as <-.
  match goal with Hv : forallb (c15_variant_strict _ _) _ = true |- _ => rename Hv into Hvs end.
  assert (HF : Forall (fun ds => forallb kt_decl_ok ds = true) dss).
  { rewrite forallb_forall in Hvs.
    assert (Forall (fun v => c15_variant_strict C15kt Kotlin v = true) (evariants (enum_shared e))) as HV
      by (rewrite Forall_forall; exact Hvs).
    clear Hvs. revert dss Hm. induction HV as [|v vs Hv _ IH]; intros dss Hm; cbn [mapM] in Hm.
    - injection Hm as <-. constructor.
    - apply c15_bind_ok in Hm as (d1 & Hd1 & Hm). apply c15_bind_ok in Hm as (dr & Hdr & Hm). injection Hm as <-.
      constructor; [|now apply IH].
      destruct v as [vsh|t vsh|fs vsh]; try (injection Hd1 as <-; reflexivity).
      apply c15_bind_ok in Hd1 as (d & Hd & Hd1). injection Hd1 as <-. cbn [forallb]. rewrite andb_true_r.
      unfold c15_variant_strict in Hv. cbn [variant_shared] in Hv. c15_split_andb.
      destruct (kt_ident_parts (original (vid vsh)) ltac:(eassumption)) as (Hop & _ & _ & Hol).
      eapply kt_struct_ok_ir; [| | | |exact Hd]; cbn [anon_struct sid renamed sgenerics sfields].
      + now rewrite !c15_plain_app, Hrp, Hop.
      + apply kt_quoted_app; [exact Hrq|]. unfold c15_lit_str in *. now rewrite forallb_app, Hol.
      + now apply c15_anon_generics_plain.
      + assumption. }
  clear Hm. induction HF as [|d r Hd _ IH]; [reflexivity|]. cbn [List.concat]. now rewrite forallb_app, Hd, IH.
Qed.

Theorem kt_decl_ok_ir it ds : c15_item_strict C15kt Kotlin it = true ->
  kt_decl_of cfg it = Ok ds -> forallb kt_decl_ok ds = true.
Proof.
  destruct it as [s|e|a|c]; intros Hs H; cbn [kt_decl_of] in H.
  - cbn [c15_item_strict] in Hs. c15_split_andb. apply c15_bind_ok in H as (d & Hd & H). injection H as <-.
    cbn [forallb]. rewrite andb_true_r. destruct (kt_ident_parts _ ltac:(eassumption)) as (Hp & Hq & _ & _).
    eapply kt_struct_ok_ir; eauto.
  - unfold kt_enum_decls in H. apply c15_bind_ok in H as (anon & Ha & H). apply c15_bind_ok in H as (d & Hd & H).
    injection H as <-. rewrite forallb_app, (kt_inner_ok_ir _ _ Hs Ha). cbn [forallb andb]. rewrite andb_true_r.
    cbn [c15_item_strict] in Hs. c15_split_andb.
    destruct (kt_ident_parts (renamed (eid (enum_shared e))) ltac:(eassumption)) as (Hrp & _ & _ & _).
    destruct (kt_ident_parts (original (eid (enum_shared e))) ltac:(eassumption)) as (Hop & _ & _ & _).
    match goal with Hv : forallb (c15_variant_strict _ _) _ = true |- _ => rename Hv into Hvs end.
    destruct e as [sh|tag content sh]; cbn [enum_shared] in *.
    + apply c15_bind_ok in Hd as (es & He & Hd). injection Hd as <-. cbn [kt_decl_ok].
      rewrite c15_plain_app, Hprefix, Hrp. cbn [andb]. apply andb_true_iff. split; [assumption|].
      apply (c15_Forall2_forallb (fun v x => c15_variant_strict C15kt Kotlin v = true -> kt_entry_ok x = true)
               (c15_variant_strict C15kt Kotlin) _ (evariants sh) es); [|auto|exact Hvs].
      eapply c15_mapM_Forall2; [|exact He]. intros v x Hx Hv. unfold kt_entry_of in Hx. injection Hx as <-.
      unfold c15_variant_strict in Hv. c15_split_andb. unfold kt_entry_ok. cbn [ke_name ke_wire].
      destruct (kt_ident_parts (renamed (vid (variant_shared v))) ltac:(eassumption)) as (_ & Hq & _ & _).
      destruct (kt_ident_parts (original (vid (variant_shared v))) ltac:(eassumption)) as (Hp & _ & _ & _).
      now rewrite Hp, Hq.
    + apply c15_bind_ok in Hd as (vs & Hv & Hd). injection Hd as <-. cbn [kt_decl_ok].
      rewrite c15_plain_app, Hprefix, Hrp. cbn [andb]. repeat (apply andb_true_iff; split); try assumption.
      apply (c15_Forall2_forallb (fun v x => c15_variant_strict C15kt Kotlin v = true -> kt_variant_ok x = true)
               (c15_variant_strict C15kt Kotlin) _ (evariants sh) vs); [|auto|exact Hvs].
      eapply c15_mapM_Forall2; [|exact Hv]. intros v x Hx Hsv. unfold kt_variant_of in Hx.
      apply c15_bind_ok in Hx as (pl & Hpl & Hx). injection Hx as <-.
      unfold c15_variant_strict in Hsv. c15_split_andb.
      destruct (kt_ident_parts (renamed (vid (variant_shared v))) ltac:(eassumption)) as (_ & _ & Hraw & _).
      destruct (kt_ident_parts (original (vid (variant_shared v))) ltac:(eassumption)) as (Hvp & _ & _ & _).
      unfold kt_variant_ok. cbn [kv_wire kv_name kv_parent kv_payload].
      repeat (apply andb_true_iff; split).
      * exact Hraw.
      * pose proof (kt_plain_pascal _ Hvp) as Hpc. destruct (to_pascal_case (original (vid (variant_shared v)))) as [|c0 r0]; [reflexivity|].
        destruct (is_adigit c0); [|exact Hpc]. change (plain ([95] ++ c0 :: r0) = true). now rewrite c15_plain_app, Hpc.
      * now rewrite c15_plain_app, Hprefix, Hop.
      * destruct v as [vsh|t vsh|fs vsh]; cbn [variant_shared] in *.
        -- injection Hpl as <-. reflexivity.
        -- apply c15_bind_ok in Hpl as (ty & Hty & Hpl). injection Hpl as <-. eapply kt_texp_plain; eauto.
        -- injection Hpl as <-. rewrite !c15_plain_app, Hprefix, Hop, Hvp. cbn [andb].
           now apply c15_anon_generics_plain.
  - cbn [c15_item_strict] in Hs. c15_split_andb. apply c15_bind_ok in H as (d & Hd & H). injection H as <-.
    cbn [forallb]. rewrite andb_true_r.
    destruct (kt_ident_parts (renamed (aid a)) ltac:(eassumption)) as (Hrp & _ & _ & _).
    destruct (kt_ident_parts (original (aid a)) ltac:(eassumption)) as (Hop & _ & _ & _).
    unfold kt_alias_decl in Hd. destruct (kt_is_inline (adecs a)).
    + apply c15_bind_ok in Hd as (m & Hm & Hd). injection Hd as <-. cbn [kt_decl_ok].
      rewrite c15_plain_app, Hprefix, Hrp. cbn [andb]. eapply kt_member_ok_ir; [|exact Hm].
      unfold c15_field_strict. cbn [fid renamed fty]. apply andb_true_iff. split; [reflexivity|].
      cbn. assumption.
    + apply c15_bind_ok in Hd as (ty & Hty & Hd). injection Hd as <-. cbn [kt_decl_ok].
      rewrite c15_plain_app, Hprefix, Hop. cbn [andb]. apply andb_true_iff. split; [assumption|]. eapply kt_texp_plain; eauto.
  - discriminate.
Qed.

(* one item, no neutrality hypothesis *)
Theorem ktn_item_decomp it text : c15_item_strict C15kt Kotlin it = true ->
  kt_write_item cfg it = Ok text -> DK text (c15_sites false (c15_item_docs_helpers_first it)).
Proof.
  unfold kt_write_item. intros Hs H. apply c15_bind_ok in H as (ds & Hd & H). injection H as <-.
  rewrite <- (kt_decl_docs_ir _ _ _ Hd). pose proof (kt_decl_ok_ir _ _ Hs Hd) as Hok. eapply Decomp_eq.
  - apply Decomp_concat_map with (g := fun d => c15_sites false (kt_decl_docs d)).
    intros d Hin. apply ktn_decl_decomp. rewrite forallb_forall in Hok. now apply Hok.
  - unfold c15_sites. now rewrite c15_map_flat_map.
Qed.

Theorem C15_kt_item it text : c15_item_strict C15kt Kotlin it = true ->
  kt_write_item cfg it = Ok text ->
  exists parts,
    text = text_of (c15_file_pieces C15kt parts) /\
    docs_of (c15_file_pieces C15kt parts) = c15_item_docs_helpers_first it /\
    c15_contained C15kt LCode (mark (c15_file_pieces C15kt parts)) =
    forallb safe_kt (c15_item_docs_helpers_first it).
Proof.
  intros Hs H. destruct (Decomp_contained _ _ _ (ktn_item_decomp _ _ Hs H)) as (ps & Ht & Hd & Hc).
  exists ps. rewrite c15_sites_text_line in Hd by discriminate. rewrite c15_sites_ok_false in Hc by discriminate. auto.
Qed.
End KTStrict.

(* non-vacuity: an algebraic enum with the three variant kinds (a struct variant with a dashed key, hence a
   helper data class with @SerialName lines) and a generic struct satisfy the hypotheses, and the text the
   model prints for the enum - docs full of comment openers, quotes and backslashes - is contained *)
Definition c15_ktnv_id (o r : string) : id := {| original := lit o; renamed := lit r; via_serde_rename := false |}.
Definition c15_ktnv_field (o r : string) (t : rtype) (docs : list str) : rfield :=
  {| fid := c15_ktnv_id o r; fty := t; fcomments := docs; has_default := false; fdecs := [] |}.
Definition c15_ktnv_vsh (o r : string) (docs : list str) : vshared := {| vid := c15_ktnv_id o r; vcomments := docs |}.
Definition c15_ktnv_enum : ritem :=
  ItEnum (EAlgebraic (lit "type") (lit "content")
            {| eid := c15_ktnv_id "E" "E"; egenerics := [lit "T"]; ecomments := [c15_doc_nasty_line];
               evariants := [VUnit (c15_ktnv_vsh "A" "a" [lit "unit"]);
                             VTuple (ROption (RVec (RSimple (lit "T")))) (c15_ktnv_vsh "B" "b-b" [c15_doc_nasty_line]);
                             VAnon [c15_ktnv_field "x_y" "x-y" (RHashMap (RPrim PString) (RPrim PBool)) [lit "field doc"]]
                                   (c15_ktnv_vsh "C" "c" [lit "struct variant"])];
               edecs := []; erecursive := false; eredacted := true |}).
Definition c15_ktnv_struct : ritem :=
  ItStruct {| sid := c15_ktnv_id "Foo" "Foo"; sgenerics := [lit "T"];
              sfields := [c15_ktnv_field "a" "a" (RGeneric (lit "Bar") [RSimple (lit "T")]) [c15_doc_nasty_line]];
              scomments := [lit "first"; lit "second"]; sdecs := []; sredacted := true |}.
Example C15_kt_item_nonvacuous :
  forallb (c15_item_strict C15kt Kotlin) [c15_ktnv_enum; c15_ktnv_struct] = true /\
  plain (kt_prefix c15_kt_cfg) = true /\ c15_mappings_plain C15kt (kt_type_mappings c15_kt_cfg) = true /\
  match kt_write_item c15_kt_cfg c15_ktnv_enum with
  | Ok text => good_C15 C15kt (c15_item_docs_helpers_first c15_ktnv_enum) text
  | _ => false
  end = true.
Proof. repeat split; vm_compute; reflexivity. Qed.
