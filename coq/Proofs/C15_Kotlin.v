(* C15 for Kotlin at renderer level: what kt_write_item prints for an IR item is code parts and `/// `
   comment fragments whose doc strings are the item's doc strings in Kotlin's print order (helper data
   classes of struct variants first, each under the comment typeshare generates for it, then the
   enum's own doc, then the variants' docs). *)
From Coq Require Import List NArith Bool Lia String.
From TS Require Import Model.Str Model.Outcome Model.Unicode Model.Types Model.Parse
                       Model.Lang.Common Model.Lang.Decl Model.Lang.TypeScript Model.Lang.Kotlin.
From TS Require Import Spec.Lexers Spec.C15Spec Spec.C15Render Proofs.C15 Proofs.C15_Render.
Import ListNotations.
Local Open Scope N_scope.

Ltac c15_sites_norm :=
  unfold c15_sites; cbn [app]; rewrite ?app_nil_r, ?map_app, ?c15_map_flat_map; cbn [app map]; rewrite ?app_nil_r; reflexivity.

(* the doc strings of a declaration, in print order *)
Definition kt_decl_docs (d : kt_decl) : list str :=
  match d with
  | KTObject docs _ | KTTypeAlias docs _ _ _ => docs
  | KTDataClass docs _ _ ms _ => docs ++ flat_map km_docs ms
  | KTValueClass docs _ m _ => docs ++ km_docs m
  | KTEnumClass docs _ _ es => docs ++ flat_map ke_docs es
  | KTSealedClass docs _ _ _ vs => docs ++ flat_map kv_docs vs
  end.

Section KTLayout.
Variable P : str -> Prop.
Hypothesis P_all : forall s, P s.
Notation D := (Decomp C15kt P).

Lemma kt_comments_decomp i ds : D (kt_write_comments i ds) (c15_sites false ds).
Proof. rewrite <- (proj1 (C15_fragment_kt i ds)). exact (Decomp_frag C15kt P false i ds). Qed.

Ltac kt_decomp tac :=
  repeat first [ apply kt_comments_decomp | tac | apply Decomp_app | apply Decomp_code; apply P_all ].

Lemma kt_member_decomp m : D (kt_render_member m) (c15_sites false (km_docs m)).
Proof. unfold kt_render_member. eapply Decomp_eq; [kt_decomp ltac:(fail)|]. c15_sites_norm. Qed.

Lemma kt_entry_decomp e : D (kt_render_entry e) (c15_sites false (ke_docs e)).
Proof. unfold kt_render_entry. eapply Decomp_eq; [kt_decomp ltac:(fail)|]. c15_sites_norm. Qed.

Lemma kt_variant_decomp content gs v : D (kt_render_variant content gs v) (c15_sites false (kv_docs v)).
Proof. unfold kt_render_variant. eapply Decomp_eq; [kt_decomp ltac:(fail)|]. c15_sites_norm. Qed.

Theorem kt_decl_decomp d : D (kt_render_decl d) (c15_sites false (kt_decl_docs d)).
Proof.
  destruct d as [docs name|docs name gs ms ts|docs name gs ty|docs name m red|docs name gs es|docs name gs content vs];
    cbn [kt_render_decl kt_decl_docs].
  - eapply Decomp_eq; [kt_decomp ltac:(fail)|]. c15_sites_norm.
  - eapply Decomp_eq;
      [kt_decomp ltac:(apply (Decomp_join C15kt P) with (g := fun m => c15_sites false (km_docs m));
                       [apply P_all|intros; apply kt_member_decomp])|].
    c15_sites_norm.
  - eapply Decomp_eq; [kt_decomp ltac:(fail)|]. c15_sites_norm.
  - eapply Decomp_eq; [kt_decomp ltac:(apply kt_member_decomp)|]. c15_sites_norm.
  - eapply Decomp_eq;
      [kt_decomp ltac:(apply (Decomp_concat_map C15kt P) with (g := fun e => c15_sites false (ke_docs e));
                       intros; apply kt_entry_decomp)|].
    c15_sites_norm.
  - eapply Decomp_eq;
      [kt_decomp ltac:(apply (Decomp_concat_map C15kt P) with (g := fun v => c15_sites false (kv_docs v));
                       intros; apply kt_variant_decomp)|].
    c15_sites_norm.
Qed.
End KTLayout.

(* ---- decisions: the declarations keep the IR's doc strings ---- *)
Section KTDocs.
Variable cfg : kt_config.

Lemma kt_member_docs_ir f gs rsn vis m : kt_member_of cfg f gs rsn vis = Ok m -> km_docs m = fcomments f.
Proof.
  unfold kt_member_of. intros H. apply c15_bind_ok in H as (ty & _ & H). injection H as <-. reflexivity.
Qed.

Lemma kt_struct_docs_ir rs d : kt_struct_decl cfg rs = Ok d ->
  kt_decl_docs d = scomments rs ++ flat_map fcomments (sfields rs).
Proof.
  unfold kt_struct_decl. destruct (sfields rs) as [|f fs] eqn:E.
  - intros H. injection H as <-. cbn. now rewrite app_nil_r.
  - intros H. apply c15_bind_ok in H as (ms & Hm & H). injection H as <-. cbn [kt_decl_docs]. f_equal.
    apply c15_Forall2_flat_map. eapply c15_mapM_Forall2; [|exact Hm].
    intros x y Hx. exact (kt_member_docs_ir _ _ _ _ _ Hx).
Qed.

Lemma kt_inner_docs_ir e ds : kt_inner_decls cfg e = Ok ds ->
  flat_map kt_decl_docs ds = flat_map (c15_helper_docs (enum_shared e)) (evariants (enum_shared e)).
Proof.
  unfold kt_inner_decls. intros H. apply c15_bind_ok in H as (dss & Hm & H). injection H as <-.
  rewrite c15_flat_map_concat. apply c15_Forall2_flat_map. eapply c15_mapM_Forall2; [|exact Hm].
  intros v ds Hv. destruct v as [vsh|t vsh|fs vsh]; try (injection Hv as <-; reflexivity).
  apply c15_bind_ok in Hv as (d & Hd & Hv). injection Hv as <-. cbn [flat_map]. rewrite app_nil_r.
  rewrite (kt_struct_docs_ir _ _ Hd). reflexivity.
Qed.

Theorem kt_decl_docs_ir it ds : kt_decl_of cfg it = Ok ds ->
  flat_map kt_decl_docs ds = c15_item_docs_helpers_first it.
Proof.
  destruct it as [s|e|a|c]; cbn [kt_decl_of c15_item_docs_helpers_first c15_item_docs]; intros H.
  - apply c15_bind_ok in H as (d & Hd & H). injection H as <-. cbn [flat_map]. rewrite app_nil_r.
    exact (kt_struct_docs_ir _ _ Hd).
  - unfold kt_enum_decls in H. apply c15_bind_ok in H as (anon & Ha & H). apply c15_bind_ok in H as (d & Hd & H).
    injection H as <-. rewrite flat_map_app, (kt_inner_docs_ir _ _ Ha). f_equal. cbn [flat_map]. rewrite app_nil_r.
    destruct e as [sh|tag content sh]; cbn [enum_shared] in *.
    + apply c15_bind_ok in Hd as (es & He & Hd). injection Hd as <-. cbn [kt_decl_docs]. f_equal.
      apply c15_Forall2_flat_map. eapply c15_mapM_Forall2; [|exact He].
      intros v x Hv. unfold kt_entry_of in Hv. injection Hv as <-. reflexivity.
    + apply c15_bind_ok in Hd as (vs & Hv & Hd). injection Hd as <-. cbn [kt_decl_docs]. f_equal.
      apply c15_Forall2_flat_map. eapply c15_mapM_Forall2; [|exact Hv].
      intros v x Hx. unfold kt_variant_of in Hx. apply c15_bind_ok in Hx as (pl & _ & Hx). injection Hx as <-. reflexivity.
  - apply c15_bind_ok in H as (d & Hd & H). injection H as <-. cbn [flat_map]. rewrite app_nil_r.
    unfold kt_alias_decl in Hd. destruct (kt_is_inline (adecs a)).
    + apply c15_bind_ok in Hd as (m & Hm & Hd). injection Hd as <-. cbn [kt_decl_docs].
      rewrite (kt_member_docs_ir _ _ _ _ _ Hm). cbn. now rewrite app_nil_r.
    + apply c15_bind_ok in Hd as (ty & _ & Hd). injection Hd as <-. reflexivity.
  - discriminate.
Qed.

(* one item through write_struct / write_enum (with write_types_for_anonymous_structs) / write_type_alias *)
Theorem kt_item_decomp it text : kt_write_item cfg it = Ok text ->
  Decomp C15kt (fun _ => True) text (c15_sites false (c15_item_docs_helpers_first it)).
Proof.
  unfold kt_write_item. intros H. apply c15_bind_ok in H as (ds & Hd & H). injection H as <-.
  rewrite <- (kt_decl_docs_ir _ _ Hd). eapply Decomp_eq.
  - apply Decomp_concat_map with (g := fun d => c15_sites false (kt_decl_docs d)).
    intros d _. apply kt_decl_decomp. auto.
  - unfold c15_sites. now rewrite c15_map_flat_map.
Qed.

Theorem C15_kt_render_partial it text : kt_write_item cfg it = Ok text ->
  exists parts,
    text = text_of (c15_file_pieces C15kt parts) /\
    docs_of (c15_file_pieces C15kt parts) = c15_item_docs_helpers_first it /\
    (Forall (c15_code_neutral C15kt) parts ->
     c15_contained C15kt LCode (mark (c15_file_pieces C15kt parts)) =
     forallb safe_kt (c15_item_docs_helpers_first it)).
Proof.
  intros H. destruct (Decomp_partial _ _ _ (kt_item_decomp _ _ H)) as (ps & Ht & Hd & Hc).
  exists ps. rewrite c15_sites_docs in Hd. rewrite c15_sites_ok_false in Hc by discriminate. auto.
Qed.
End KTDocs.
