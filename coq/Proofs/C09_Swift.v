(* C09 for Swift: every definition under prefix + id.renamed (the ...Inner helper struct included),
   every mentioned id spelled prefix + id unless it is a generic parameter of the item (verbatim); the
   helper struct is referred to as prefix + renamed + variant + Inner with the enum's generic
   parameters it uses.  write_const returns Err(Unsupported): a program with consts generates nothing. *)
From Coq Require Import List Bool String Permutation.
From TS Require Import Model.Str Model.Outcome Model.Unicode Model.Types Model.Parse Model.Reconcile Model.TopsortAlgo Model.Topsort
                       Model.Lang.Common Model.Lang.Decl Model.Lang.Swift Spec.C09Spec.
From TS Require Import Proofs.C09Common Proofs.C09Recon Proofs.C09Refs Proofs.C09Lang.
Import ListNotations.
Local Notation length := List.length (only parsing).

Lemma c09_combine_fst {A B C} (la : list A) : forall (lb : list B) (lc : list C) a b c,
  In (a, (b, c)) (combine la (combine lb lc)) -> In (a, b) (combine la lb).
Proof.
  induction la as [|x la IH]; intros lb lc a b c H; [destruct H|]. destruct lb as [|y lb]; [destruct H|]. destruct lc as [|z lc]; [destruct H|].
  cbn [combine] in H |- *. destruct H as [H|H]; [injection H as <- <- <-; left; reflexivity|right; eapply IH; exact H].
Qed.
Lemma c09_Forall2_combine {A B} (R : A -> B -> Prop) l r x y : Forall2 R l r -> In (x, y) (combine l r) -> R x y.
Proof. induction 1; intros Hin; [destruct Hin|]. destruct Hin as [Hin|Hin]; [injection Hin as <- <-; assumption|auto]. Qed.

Section SWN.
Variable uc : unicode.
Variable cfg : sw_config.
Let pfx := sw_prefix cfg.

Definition sw_ref_name (gs : list str) (i : str) : str := if mem_str i gs then i else pfx ++ i.

Definition sw_names_ok (gs : list str) (x : texp) (t : rtype) : Prop :=
  forall n, In n (texp_names x) -> c09_builtin Swift n = true \/ exists form i, In (form, i) (c09_type_ids t) /\ n = sw_ref_name gs i.

Lemma sw_texp_names gs t : forall s x s', sw_texp cfg gs t s = Ok (x, s') -> sw_names_ok gs x t.
Proof.
  induction t using rtype_ind'; intros s x s' Hx; cbn [sw_texp] in Hx.
  - c09_ret Hx. intros nm Hn. unfold sw_simple_texp in Hn. destruct (tmap_get (sw_type_mappings cfg) id); cbn [texp_names flat_map] in Hn; [destruct Hn|].
    destruct Hn as [<-|[]]. right. exists C9Simple, id. split; [left; reflexivity|reflexivity].
  - destruct (tmap_get (sw_type_mappings cfg) id) eqn:Em; [c09_ret Hx; intros nm []|].
    c09_bind Hx parts s1 E. c09_ret Hx. apply c09_mgo_Forall2 in E. intros nm Hn. unfold sw_simple_texp in Hn. rewrite Em in Hn.
    cbn [texp_names] in Hn. destruct Hn as [<-|Hn].
    + right. exists C9Generic, id. split; [left; reflexivity|reflexivity].
    + apply in_flat_map in Hn as (y & Hy & Hn). destruct (c09_Forall2_in_r _ _ _ _ E Hy) as (p & Hp & sa & sb & Ep).
      rewrite Forall_forall in H. destruct (H p Hp sa y sb Ep nm Hn) as [B|(form & i & Hi & ->)]; [left; exact B|].
      right. exists form, i. split; [|reflexivity]. cbn [c09_type_ids]. right. apply in_flat_map. exists p. split; assumption.
  - c09_bind Hx e s1 E. c09_ret Hx. exact (IHt _ _ _ E).
  - c09_bind Hx e s1 E. c09_ret Hx. exact (IHt _ _ _ E).
  - c09_bind Hx e s1 E. c09_ret Hx. exact (IHt _ _ _ E).
  - c09_bind Hx ke s1 E1. c09_bind Hx ve s2 E2. c09_ret Hx. intros nm Hn. cbn [texp_names] in Hn. apply in_app_iff in Hn as [Hn|Hn].
    + destruct (IHt1 _ _ _ E1 nm Hn) as [B|(form & i & Hi & ->)]; [left; exact B|]. right. exists form, i. split; [cbn [c09_type_ids]; apply in_app_iff; auto|reflexivity].
    + destruct (IHt2 _ _ _ E2 nm Hn) as [B|(form & i & Hi & ->)]; [left; exact B|]. right. exists form, i. split; [cbn [c09_type_ids]; apply in_app_iff; auto|reflexivity].
  - c09_bind Hx e s1 E. c09_ret Hx. exact (IHt _ _ _ E).
  - intros nm Hn. left. destruct p; try discriminate; try (c09_bind Hx u sa E0); c09_ret Hx; destruct Hn as [<-|[]]; reflexivity.
Qed.

Lemma sw_field_names gs f s ty s' : sw_field_texp cfg gs f s = Ok (ty, s') -> sw_names_ok gs ty (fty f).
Proof. unfold sw_field_texp. destruct (type_override f Swift); intros H; [c09_ret H; intros n []|]. exact (sw_texp_names gs _ _ _ _ H). Qed.

Lemma sw_names_strip f ty ity : texp_names (mb_type (sw_obs_member (sw_member_of uc f ty ity))) = texp_names ty.
Proof. unfold sw_obs_member, sw_member_of. cbn [mb_type swm_default_opt swm_type]. destruct (has_default f && negb (is_optional (fty f))), ty; reflexivity. Qed.
End SWN.

Section SWI.
Variable uc : unicode.
Variable cfg : sw_config.
Let pfx := sw_prefix cfg.
Variable pd : parsed.
Hypothesis Hdom : dom_C09 Swift pfx pd = true.
Let rn := c09_rn pd.
Let pd' := c09_reconciled pd.
Notation shape := (c09_ref_shape Swift pfx pd).
Notation ownercond := (c09_ownercond pd Swift pfx).
Notation defname := (c09_def_name Swift pfx).
Notation has_def := (c09_has_def Swift pfx).

Lemma sw_refs tp gs owner x :
  In tp (c09_tposs pd) -> sw_names_ok cfg gs x (c09_recon_type pd tp) ->
  (forall form i', In (form, i') (c09_type_ids (c09_recon_type pd tp)) -> mem_str i' gs = mem_str i' (c9t_generics tp)) ->
  ownercond tp owner ->
  forall r, In r (c09_type_refs Swift owner (c9t_pos tp) x) -> shape r.
Proof. intros Htp Hn Hgs Hown. eapply (c09_names_refs pd Swift pfx Hdom tp gs); eauto. Qed.

(* write_struct: a source struct or the helper struct of a struct variant *)
Lemma sw_struct_shape rs ss sa sb owner (mk : rfield -> c09_tpos) fs :
  sw_struct_of uc cfg rs sa = Ok (ss, sb) -> sfields rs = map (check_field [] rn []) fs -> owner = pfx ++ renamed (sid rs) ->
  (forall f, In f fs -> In (mk f) (c09_tposs pd) /\ c9t_pos (mk f) = C9Field /\ c9t_type (mk f) = fty f /\ ownercond (mk f) owner /\
     (forall form i', In (form, i') (c09_type_ids (check_type [] rn [] (fty f))) -> mem_str i' (sgenerics rs) = mem_str i' (c9t_generics (mk f)))) ->
  d_name (sw_obs_struct ss) = owner /\ c09_is_def (sw_obs_struct ss) = true /\ forall r, In r (c09_decl_refs Swift (sw_obs_struct ss)) -> shape r.
Proof.
  unfold sw_struct_of. intros Hd Hfs -> Hmk. cbv zeta in Hd. c09_bind Hd tys s1 E1. c09_bind Hd itys s2 E2. c09_ret Hd.
  cbn [sw_obs_struct d_name sws_name]. repeat split.
  intros r Hr. unfold c09_decl_refs in Hr. cbn [d_kind d_name d_members d_variants flat_map sws_members] in Hr. rewrite app_nil_r in Hr.
  apply in_flat_map in Hr as (m' & Hm' & Hr). apply in_map_iff in Hm' as (m & <- & Hm). apply in_map_iff in Hm as ([f' [ty ity]] & <- & Hx).
  cbn [fst snd] in Hr. apply c09_combine_fst in Hx. apply c09_mmapM_Forall2 in E1.
  destruct (c09_Forall2_combine _ _ _ _ _ E1 Hx) as (sc & sd & Ef). apply in_combine_l in Hx. rewrite Hfs in Hx.
  apply in_map_iff in Hx as (f & <- & Hf). destruct (Hmk f Hf) as (Htp & Hpos & Hty & Hown & Hgs).
  unfold c09_type_refs in Hr. rewrite sw_names_strip in Hr. fold (c09_type_refs Swift (pfx ++ renamed (sid rs)) C9Field ty) in Hr.
  rewrite <- Hpos in Hr. eapply (sw_refs (mk f) (sgenerics rs)); [exact Htp| | |exact Hown|exact Hr]; unfold c09_recon_type; rewrite Hty.
  - exact (sw_field_names cfg _ _ _ _ _ Ef).
  - exact Hgs.
Qed.

(* the helper structs of an enum: exactly one per struct variant *)
Lemma sw_inner_structs sh vs : forall s cs s', sw_inner_structs_of uc cfg sh vs s = Ok (cs, s') ->
  (forall c, In c cs -> exists fs vsh sa sb, In (VAnon fs vsh) vs /\
      sw_struct_of uc cfg (anon_struct sh (sw_make_anonymous_struct_name sh (original (vid vsh))) (original (vid vsh)) fs) sa = Ok (c, sb)) /\
  (forall fs vsh, In (VAnon fs vsh) vs -> exists c sa sb, In c cs /\
      sw_struct_of uc cfg (anon_struct sh (sw_make_anonymous_struct_name sh (original (vid vsh))) (original (vid vsh)) fs) sa = Ok (c, sb)).
Proof.
  induction vs as [|v vs IH]; intros s cs s' H; cbn [sw_inner_structs_of] in H.
  - c09_ret H. split; [intros c []|intros fs vsh []].
  - destruct v as [vsh|t vsh|fs vsh].
    + destruct (IH _ _ _ H) as (A & B). split.
      * intros c Hc. destruct (A c Hc) as (fs & vsh0 & sa & sb & Hv & E). exists fs, vsh0, sa, sb. split; [right; exact Hv|exact E].
      * intros fs vsh0 [C|Hv]; [discriminate|]. exact (B fs vsh0 Hv).
    + destruct (IH _ _ _ H) as (A & B). split.
      * intros c Hc. destruct (A c Hc) as (fs & vsh0 & sa & sb & Hv & E). exists fs, vsh0, sa, sb. split; [right; exact Hv|exact E].
      * intros fs vsh0 [C|Hv]; [discriminate|]. exact (B fs vsh0 Hv).
    + c09_bind H c0 s1 E0. c09_bind H cs0 s2 E1. c09_ret H. destruct (IH _ _ _ E1) as (A & B). split.
      * intros c [<-|Hc]; [exists fs, vsh, s, s1; split; [left; reflexivity|exact E0]|].
        destruct (A c Hc) as (fs1 & vsh0 & sa & sb & Hv & E). exists fs1, vsh0, sa, sb. split; [right; exact Hv|exact E].
      * intros fs1 vsh0 [C|Hv]; [injection C as <- <-; exists c0, s, s1; split; [left; reflexivity|exact E0]|].
        destruct (B fs1 vsh0 Hv) as (c & sa & sb & Hc & E). exists c, sa, sb. split; [right; exact Hc|exact E].
Qed.

Lemma sw_has_def_1 g d en : In d g -> c09_is_def d = true -> d_name d = defname en -> has_def g en.
Proof. intros. exists d. auto. Qed.

Lemma sw_item it' d s1 s2 : In it' (items_of pd') -> sw_decl_of uc cfg it' s1 = Ok (d, s2) ->
  c09_item_ok pd Swift pfx it' (sw_obs d).
Proof.
  intros Hit Hd. destruct (c09_items_cases pd Swift pfx Hdom it' Hit) as [(a & Ha & ->)|[(s & Hs & ->)|[(e & He & ->)|(c & Hc & ->)]]];
    cbn [sw_decl_of] in Hd.
  - (* alias *)
    cbn [c09_ra agenerics atype acomments aid] in Hd. cbv zeta in Hd. c09_bind Hd ty s3 E. c09_ret Hd.
    assert (Hn : defname (c09_ent_alias a) = pfx ++ renamed (aid a)) by (unfold c09_def_name; cbn; rewrite app_nil_r; reflexivity).
    cbn [sw_obs]. split.
    + intros d [<-|[]]. split.
      * intros _. exists (c09_ent_alias a). split; [apply c09_in_alias; exact Ha|]. rewrite Hn. reflexivity.
      * intros r Hr. unfold c09_decl_refs in Hr. cbn [d_kind d_name d_type] in Hr.
        eapply (sw_refs {| c9t_owner := aid a; c9t_generics := agenerics a; c9t_pos := C9Alias; c9t_type := atype a |} (agenerics a));
          [apply c09_tp_alias; exact Ha| |reflexivity| |exact Hr].
        -- exact (sw_texp_names cfg _ _ _ _ _ E).
        -- right. exists (c09_ent_alias a). split; [apply c09_in_alias; exact Ha|]. split; [rewrite Hn; reflexivity|reflexivity].
    + intros a0 Ha0 Ea. eexists. split; [left; reflexivity|]. split; [reflexivity|]. cbn [d_name].
      assert (aid a0 = aid a) as <- by (apply (f_equal aid) in Ea; cbn in Ea; congruence).
      unfold c09_def_name. cbn. rewrite app_nil_r. reflexivity.
  - (* struct *)
    c09_bind Hd ss s3 E. c09_ret Hd.
    assert (Hn : defname (c09_ent_struct s) = pfx ++ renamed (sid s)) by (unfold c09_def_name; cbn; rewrite app_nil_r; reflexivity).
    destruct (sw_struct_shape (c09_rs rn s) ss _ _ (pfx ++ renamed (sid s))
                (fun f => {| c9t_owner := sid s; c9t_generics := sgenerics s; c9t_pos := C9Field; c9t_type := fty f |}) (sfields s) E eq_refl eq_refl)
      as (Hname & Hdef & Hrefs).
    { intros f Hf. split; [apply c09_tp_struct; assumption|]. repeat split.
      right. exists (c09_ent_struct s). split; [apply c09_in_struct; exact Hs|]. split; [rewrite Hn; reflexivity|reflexivity]. }
    cbn [sw_obs]. split.
    + intros d0 [<-|[]]. split; [|exact Hrefs]. intros _. exists (c09_ent_struct s). split; [apply c09_in_struct; exact Hs|]. rewrite Hn. exact Hname.
    + intros s0 Hs0 Es. apply (sw_has_def_1 _ (sw_obs_struct ss)); [left; reflexivity|exact Hdef|]. rewrite Hname.
      assert (sid s0 = sid s) as <- by (apply (f_equal sid) in Es; cbn in Es; congruence).
      unfold c09_def_name. cbn. rewrite app_nil_r. reflexivity.
  - (* enum: helper structs, then the enum *)
    destruct (c09_sh_recon pd e) as (Hid & Hgs & Hvs). fold rn in Hid, Hgs, Hvs.
    set (j := c09_ent_enum e).
    assert (Hj : In j (c09_entities pd)) by (apply c09_in_enum; exact He).
    assert (Hnj : defname j = pfx ++ renamed (eid (enum_shared e))) by (unfold c09_def_name; destruct e; cbn; rewrite app_nil_r; reflexivity).
    c09_bind Hd se s3 Ee. c09_ret Hd. unfold sw_enum_of in Ee. cbv zeta in Ee. fold rn in Ee.
    c09_bind Ee inners s4 Ei. c09_bind Ee vs s5 Ev. apply c09_ret_ok in Ee as [Ese _].
    assert (Hse : swe_inner se = inners /\ swe_name se = pfx ++ renamed (eid (enum_shared e)) /\ swe_variants se = vs)
      by (rewrite Ese; cbn [swe_inner swe_name swe_variants]; rewrite Hid; auto).
    clear Ese. destruct Hse as (HseI & HseN & HseV).
    destruct (sw_inner_structs _ _ _ _ _ Ei) as (Hanon0 & Hanon0'). rewrite Hvs in Hanon0, Hanon0'.
    assert (Hinner : forall fs vsh ss sa sb, In (VAnon fs vsh) (evariants (enum_shared e)) ->
              sw_struct_of uc cfg (anon_struct (enum_shared (c09_re rn e)) (sw_make_anonymous_struct_name (enum_shared (c09_re rn e)) (original (vid vsh)))
                                     (original (vid vsh)) (map (check_field [] rn []) fs)) sa = Ok (ss, sb) ->
              d_name (sw_obs_struct ss) = defname (c09_ent_inner e vsh) /\ c09_is_def (sw_obs_struct ss) = true /\
              forall r, In r (c09_decl_refs Swift (sw_obs_struct ss)) -> shape r).
    { intros fs vsh ss sa sb Hv Ec.
      assert (Hnm : defname (c09_ent_inner e vsh) = pfx ++ sw_make_anonymous_struct_name (enum_shared (c09_re rn e)) (original (vid vsh)))
        by (unfold sw_make_anonymous_struct_name; rewrite Hid; reflexivity).
      rewrite Hnm.
      eapply (sw_struct_shape _ ss sa sb _ (fun f => {| c9t_owner := eid (enum_shared e); c9t_generics := egenerics (enum_shared e); c9t_pos := C9Field; c9t_type := fty f |}) fs Ec);
        [reflexivity|reflexivity|].
      intros f Hf. split; [apply (c09_tp_anon pd e fs vsh f He Hv Hf)|]. repeat split.
      - right. exists (c09_ent_inner e vsh). split; [eapply c09_in_inner; eassumption|]. split; [symmetry; exact Hnm|reflexivity].
      - intros form i' Hi. cbn [anon_struct sgenerics c9t_generics]. rewrite Hgs.
        eapply (c09_anon_generics_mem _ _ (check_field [] rn [] f)); [apply in_map; exact Hf|exact Hi]. }
    assert (Hanon : forall ss, In ss inners -> exists fs vsh sa sb, In (VAnon fs vsh) (evariants (enum_shared e)) /\
              sw_struct_of uc cfg (anon_struct (enum_shared (c09_re rn e)) (sw_make_anonymous_struct_name (enum_shared (c09_re rn e)) (original (vid vsh)))
                                     (original (vid vsh)) (map (check_field [] rn []) fs)) sa = Ok (ss, sb)).
    { intros ss Hss. destruct (Hanon0 ss Hss) as (fs' & vsh & sa & sb & Hv' & Ec). apply in_map_iff in Hv' as (v & Ev0 & Hv).
      destruct v as [?|? ?|fs vsh1]; try discriminate. injection Ev0 as <- <-. exists fs, vsh1, sa, sb. auto. }
    assert (Hanon' : forall fs vsh, In (VAnon fs vsh) (evariants (enum_shared e)) -> exists ss sa sb, In ss inners /\
              sw_struct_of uc cfg (anon_struct (enum_shared (c09_re rn e)) (sw_make_anonymous_struct_name (enum_shared (c09_re rn e)) (original (vid vsh)))
                                     (original (vid vsh)) (map (check_field [] rn []) fs)) sa = Ok (ss, sb)).
    { intros fs vsh Hv. apply (Hanon0' (map (check_field [] rn []) fs) vsh). apply in_map_iff. exists (VAnon fs vsh). auto. }
    (* the enum itself *)
    set (dE := sw_obs_enum se).
    assert (Hself : d_name dE = defname j /\ c09_is_def dE = true /\ forall r, In r (c09_decl_refs Swift dE) -> shape r).
    { unfold dE. cbn [sw_obs_enum d_name]. rewrite HseN, Hnj. repeat split.
      intros r Hr. unfold c09_decl_refs in Hr. cbn [sw_obs_enum d_kind d_name d_members d_variants flat_map app] in Hr. rewrite HseN, HseV in Hr.
      apply in_flat_map in Hr as (vd & Hvd & Hr). apply in_map_iff in Hvd as (sv & <- & Hsv).
      destruct e as [sh|tag content sh]; cbn [c09_re enum_shared] in *.
      - apply c09_mmapM_Forall2 in Ev. destruct (c09_Forall2_in_r _ _ _ _ Ev Hsv) as (v' & Hv' & sc & sd & Ev').
        unfold sw_unit_variant_of in Ev'. cbv zeta in Ev'. c09_bind Ev' vn sx E0. c09_ret Ev'. cbn in Hr. destruct Hr.
      - apply c09_mmapM_Forall2 in Ev. cbn [check_eshared evariants] in Ev.
        destruct (c09_Forall2_in_r _ _ _ _ Ev Hsv) as (v' & Hv' & sc & sd & Ev'). apply in_map_iff in Hv' as (v & <- & Hv).
        unfold sw_variant_of in Ev'. cbv zeta in Ev'. cbn [check_eshared eid egenerics] in Ev'.
        c09_bind Ev' camel sx E0. c09_bind Ev' pl sf Ep. c09_ret Ev'. cbn [sw_obs_variant vd_parent vd_payload swv_payload app] in Hr.
        destruct v as [vsh|t vsh|fs vsh]; cbn [check_variant] in Ep.
        + c09_ret Ep. destruct Hr.
        + c09_bind Ep ty sg Et. c09_ret Ep.
          assert (Hr' : In r (c09_type_refs Swift (sw_prefix cfg ++ renamed (eid sh)) C9Payload ty)) by (destruct ty; exact Hr).
          eapply (sw_refs {| c9t_owner := eid sh; c9t_generics := egenerics sh; c9t_pos := C9Payload; c9t_type := t |} (egenerics sh));
            [apply (c09_tp_tuple pd (EAlgebraic tag content sh) t vsh He Hv)| |reflexivity| |exact Hr'].
          * exact (sw_texp_names cfg _ _ _ _ _ Et).
          * right. exists j. split; [exact Hj|]. split; [rewrite Hnj; reflexivity|reflexivity].
        + c09_ret Ep. destruct Hr as [<-|Hr].
          * eapply C9S_inner with (i := c09_ent_inner (EAlgebraic tag content sh) vsh); cbn [c9_in c9_pos c9_name]; try reflexivity.
            eapply c09_in_inner; [exact He|exact Hv].
          * apply in_map_iff in Hr as (g & <- & Hg).
            eapply C9S_generic with (j := j); cbn [c9_in c9_pos c9_name]; try assumption; try discriminate.
            -- rewrite Hnj. reflexivity.
            -- unfold anon_struct_generics in Hg. apply c09_unique_strs_in in Hg as [Hg _]. apply in_flat_map in Hg as (f0 & _ & Hg).
               apply filter_In in Hg as [Hg _]. exact Hg. }
    destruct Hself as (HnameS & HdefS & HrefsS).
    assert (Hg : forall d, In d (sw_obs (SWEnum se)) <-> (exists ss, In ss inners /\ d = sw_obs_struct ss) \/ d = dE).
    { intros d. cbn [sw_obs]. rewrite HseI, in_app_iff, in_map_iff. split.
      - intros [(ss & <- & Hss)|[<-|[]]]; [left; eauto|right; reflexivity].
      - intros [(ss & Hss & ->)| ->]; [left; eauto|right; left; reflexivity]. }
    split.
    + intros d Hd0. apply Hg in Hd0 as [(ss & Hss & ->)| ->].
      * destruct (Hanon ss Hss) as (fs & vsh & sa & sb & Hv & Ec). destruct (Hinner fs vsh ss sa sb Hv Ec) as (A & B & C).
        split; [|exact C]. intros _. exists (c09_ent_inner e vsh). split; [eapply c09_in_inner; eassumption|exact A].
      * split; [|exact HrefsS]. intros _. exists j. split; [exact Hj|exact HnameS].
    + intros e0 He0 Ee0.
      assert (eid (enum_shared e0) = eid (enum_shared e) /\ egenerics (enum_shared e0) = egenerics (enum_shared e) /\ c09_enum_kind e0 = c09_enum_kind e) as (Ei0 & Eg0 & Ek0).
      { pose proof (f_equal (fun x => eid (enum_shared x)) Ee0) as A. pose proof (f_equal (fun x => egenerics (enum_shared x)) Ee0) as B.
        pose proof (f_equal c09_enum_kind Ee0) as C. destruct e, e0; cbn in A, B, C |- *; try discriminate; repeat split; congruence. }
      split.
      * apply (sw_has_def_1 _ dE); [apply Hg; right; reflexivity|exact HdefS|]. rewrite HnameS. unfold j, c09_ent_enum. rewrite Ei0, Eg0, Ek0. reflexivity.
      * intros _ fs vsh Hv0.
        assert (evariants (enum_shared (c09_re rn e)) = map (check_variant [] rn []) (evariants (enum_shared e0))) as Hv1eq.
        { destruct (c09_sh_recon pd e0) as (_ & _ & A). transitivity (evariants (enum_shared (c09_re rn e0))); [f_equal; f_equal; exact Ee0|exact A]. }
        assert (In (check_variant [] rn [] (VAnon fs vsh)) (map (check_variant [] rn []) (evariants (enum_shared e)))) as Hv1.
        { rewrite <- Hvs, Hv1eq. apply in_map. exact Hv0. }
        apply in_map_iff in Hv1 as (v & Ev1 & Hv1). destruct v as [?|? ?|fs1 vsh1]; try discriminate. injection Ev1 as Efs <-.
        destruct (Hanon' fs1 vsh1 Hv1) as (ss & sa & sb & Hss & Ec). destruct (Hinner fs1 vsh1 ss sa sb Hv1 Ec) as (A & B & C).
        apply (sw_has_def_1 _ (sw_obs_struct ss)); [apply Hg; left; eauto|exact B|]. rewrite A.
        unfold c09_ent_inner. rewrite Ei0, Eg0. reflexivity.
  - discriminate.
Qed.

Theorem sw_shape fd : sw_file_decls uc cfg pd' = Ok fd -> c09_shape Swift pfx pd (c09_observe Swift fd).
Proof.
  unfold sw_file_decls, sw_decls. intros H.
  destruct (topsort (items_of pd')) as [items| |] eqn:Et; cbn [bind] in H; try discriminate.
  destruct (mmapM (sw_decl_of uc cfg) items false) as [[ds st]| |] eqn:Em; cbn [bind] in H; try discriminate.
  injection H as <-. pose proof (c09_topsort_in' _ _ Et) as Hperm. apply c09_mmapM_Forall2 in Em.
  apply (c09_shape_of_items pd Swift pfx Hdom
           (fun it' g => exists d s1 s2, sw_decl_of uc cfg it' s1 = Ok (d, s2) /\ g = sw_obs d)
           (flat_map sw_obs (sw_trailing_decls cfg st)) (map sw_obs ds)); cbn [fd_decls].
  - intros d. rewrite flat_map_app, in_app_iff, in_flat_map. split.
    + intros [(x & Hx & Hd)|Hd]; [right; exists (sw_obs x); split; [apply in_map; exact Hx|exact Hd]|left; exact Hd].
    + intros [Hd|(g & Hg & Hd)]; [right; exact Hd|]. apply in_map_iff in Hg as (x & <- & Hx). left. eauto.
  - intros d Hd. unfold sw_trailing_decls in Hd. destruct st; [|destruct Hd]. cbn in Hd. destruct Hd as [<-|[]]. reflexivity.
  - intros it' Hit _. apply Hperm in Hit. destruct (c09_Forall2_in_l _ _ _ _ Em Hit) as (d & Hd & s1 & s2 & E).
    exists (sw_obs d). split; [apply in_map; exact Hd|]. exists d, s1, s2. auto.
  - intros g Hg. apply in_map_iff in Hg as (d & <- & Hd). destruct (c09_Forall2_in_r _ _ _ _ Em Hd) as (it' & Hit & s1 & s2 & E).
    exists it'. split; [apply Hperm; exact Hit|]. exists d, s1, s2. auto.
  - intros it' g Hit (d & s1 & s2 & E & ->). exact (sw_item it' d s1 s2 Hit E).
Qed.

Theorem c09_swift (acrs : list str) fd :
  known_C09 Swift pfx acrs pd = None -> sw_file_decls uc cfg pd' = Ok fd ->
  good_C09 Swift pfx pd (c09_observe Swift fd) = true.
Proof. intros Hknown H. exact (c09_shape_good Swift pfx acrs pd _ Hdom Hknown (sw_shape fd H)). Qed.
End SWI.

Theorem c09_swift_all (uc : unicode) (cfg : sw_config) (acrs : list str) (pd : parsed) :
  dom_C09 Swift (sw_prefix cfg) pd = true -> known_C09 Swift (sw_prefix cfg) acrs pd = None ->
  forall fd : file_decls, sw_file_decls uc cfg (c09_reconciled pd) = Ok fd ->
    good_C09 Swift (sw_prefix cfg) pd (c09_observe Swift fd) = true.
Proof. intros Hd Hk fd H. exact (c09_swift uc cfg pd Hd acrs fd Hk H). Qed.
