(* C04 (optional markers) and C05 (type expressions at their use sites) in folder mode, for the stateful back ends:
   corollaries of <l>_multi_decls_items (Proofs/MultiSameDecls.v) and the single-file site theorems.
   Each statement walks the (item, declaration) pairs of a folder-mode file generated from ANY state. *)
From Coq Require Import List Bool String Permutation.
From TS Require Import Model.Str Model.Outcome Model.Unicode Model.Types Model.Parse Model.TopsortAlgo Model.Topsort
                       Model.Lang.Common Model.Lang.Decl Model.Lang.TypeScript Model.Lang.Swift
                       Model.Lang.Go Model.Lang.Python Model.MultiFile.
From TS Require Import Spec.C04Spec Spec.C04Readers Spec.C05Spec.
From TS Require Import Proofs.BackCommon Proofs.C12Multi Proofs.C12MultiTS Proofs.C12MultiSwift
                       Proofs.C12MultiGo Proofs.MultiSameDecls Proofs.MultiSameItems.
From TS Require Proofs.C04 Proofs.C04_Back Proofs.C05 Proofs.C05_Back Proofs.C05_Sites.
Import ListNotations.
Local Open Scope list_scope.

(* a site theorem "from every state the writer returns some d0 with Q d0" speaks about THE declaration of the file *)
Lemma wfa_total {St A D} (f : A -> M St D) (Q : D -> Prop) (s0 : St) it d :
  writes_from_any f it d -> (forall st, exists d0 st', f it st = Ok (d0, st') /\ Q d0) -> Q d.
Proof. intros W T. destruct (W s0) as (s' & E). destruct (T s0) as (d0 & s0' & E0 & HQ). rewrite E in E0. injection E0 as <- _. exact HQ. Qed.

Ltac wfa_use Wd s0 T :=
  let s' := fresh "s'" in let E := fresh "E" in let d0 := fresh "d0" in let s0' := fresh "s0'" in
  let E0 := fresh "E0" in let HQ := fresh "HQ" in
  destruct (Wd s0) as (s' & E); destruct (T s0) as (d0 & s0' & E0 & HQ); rewrite E in E0; injection E0 as <- _; exact HQ.

(* item writers of the form  d <- g; ret (h d) *)
Lemma wfa_bind_ret {St D E} (g : M St D) (h : D -> E) (e : E) :
  (forall s, exists s', mbind g (fun d => ret (h d)) s = Ok (e, s')) ->
  forall s, exists d s', g s = Ok (d, s') /\ e = h d.
Proof.
  intros W s. destruct (W s) as (s' & E0). apply mbind_ok in E0 as (d & s1 & Eg & Er). unfold ret in Er. injection Er as <- <-.
  exists d, s1. split; [exact Eg|reflexivity].
Qed.

(* ================================================================== C05, TypeScript *)
Theorem c05_multi_sites_ts uc cfg st pd ds st' :
  ts_multi_decls uc cfg st pd = Ok (ds, st') ->
  exists items, topsort (items_of pd) = Ok items /\
    Forall2 (fun it d =>
      (forall s, it = ItStruct s ->
         Forall (Proofs.C05_Sites.c05_field_ok TypeScript (Proofs.C05.c05_ts_cfg cfg) (sgenerics s)) (sfields s) ->
         exists docs name ms, d = TSInterface docs name (sgenerics s) ms /\
           map tm_type ms = map (fun f => c05_erase TypeScript (Proofs.C05.c05_ts_cfg cfg) (sgenerics s) (fty f)) (sfields s)) /\
      (forall a, it = ItAlias a ->
         dom_C05 (atype a) = true -> known_C05 TypeScript (Proofs.C05.c05_ts_cfg cfg) (agenerics a) (atype a) = None ->
         exists docs name u n, d = TSAlias docs name (agenerics a) (c05_erase TypeScript (Proofs.C05.c05_ts_cfg cfg) (agenerics a) (atype a)) u n) /\
      (forall k, it = ItConst k ->
         dom_C05 (ctype k) = true -> known_C05 TypeScript (Proofs.C05.c05_ts_cfg cfg) [] (ctype k) = None ->
         exists name v, d = TSConst name (c05_erase TypeScript (Proofs.C05.c05_ts_cfg cfg) [] (ctype k)) v)) items ds.
Proof.
  intros H. destruct (ts_multi_decls_items _ _ _ _ _ _ H) as (items & Et & W). exists items. split; [exact Et|].
  eapply Forall2_impl; [|exact W]. intros it d Wd. split; [|split].
  - intros s -> Hf. wfa_use Wd ([] : ts_state) (Proofs.C05_Sites.C05_site_ts_struct uc cfg s Hf).
  - intros a -> Hd Hk. wfa_use Wd ([] : ts_state) (Proofs.C05_Sites.C05_site_ts_alias uc cfg a Hd Hk).
  - intros k -> Hd Hk. wfa_use Wd ([] : ts_state) (Proofs.C05_Sites.C05_site_ts_const uc cfg k Hd Hk).
Qed.

(* ================================================================== C05, Swift (consts are an error in Swift) *)
Theorem c05_multi_sites_sw uc cfg st pd ds st' :
  sw_multi_decls uc cfg st pd = Ok (ds, st') ->
  exists items, topsort (items_of pd) = Ok items /\
    Forall2 (fun it d =>
      (forall rs, it = ItStruct rs ->
         Forall (Proofs.C05_Sites.c05_field_ok Swift (Proofs.C05_Back.c05_sw_cfg cfg) (sgenerics rs)) (sfields rs) ->
         exists sd, d = SWStruct sd /\
           map swm_type (sws_members sd) = map (fun f => c05_erase Swift (Proofs.C05_Back.c05_sw_cfg cfg) (sgenerics rs) (fty f)) (sfields rs) /\
           map swm_init_type (sws_members sd) = map (fun f => c05_erase Swift (Proofs.C05_Back.c05_sw_cfg cfg) (sgenerics rs) (fty f)) (sfields rs)) /\
      (forall a, it = ItAlias a ->
         dom_C05 (atype a) = true -> known_C05 Swift (Proofs.C05_Back.c05_sw_cfg cfg) (agenerics a) (atype a) = None ->
         exists docs name esc, d = SWAlias docs name esc (agenerics a) (c05_erase Swift (Proofs.C05_Back.c05_sw_cfg cfg) (agenerics a) (atype a)))) items ds.
Proof.
  intros H. destruct (sw_multi_decls_items _ _ _ _ _ _ H) as (items & Et & W). exists items. split; [exact Et|].
  eapply Forall2_impl; [|exact W]. intros it d Wd. split.
  - intros rs -> Hf. unfold writes_from_any in Wd. cbn [sw_decl_of] in Wd.
    destruct (wfa_bind_ret _ _ _ Wd false) as (sd & s1 & Eg & ->). exists sd. split; [reflexivity|].
    destruct (Proofs.C05_Sites.C05_site_sw_struct uc cfg rs Hf false) as (d0 & s0' & E0 & HQ). rewrite Eg in E0. injection E0 as <- _. exact HQ.
  - intros a -> Hd Hk. wfa_use Wd (false : sw_state) (Proofs.C05_Sites.C05_site_sw_alias uc cfg a Hd Hk).
Qed.

(* ================================================================== C05, Python *)
Theorem c05_multi_sites_py uc cfg st pd ds st' :
  py_multi_decls uc cfg st pd = Ok (ds, st') ->
  exists items dss, topsort (items_of pd) = Ok items /\ ds = List.concat dss /\
    Forall2 (fun it dl =>
      (forall s, it = ItStruct s ->
         Forall (Proofs.C05_Sites.c05_field_ok Python (Proofs.C05_Back.c05_py_cfg cfg) (sgenerics s)) (sfields s) ->
         exists docs name pbn ms, dl = [PYClass docs name (sgenerics s) pbn ms] /\
           map pym_type ms = map (Proofs.C05_Sites.py_field_type cfg (sgenerics s)) (sfields s)) /\
      (forall a, it = ItAlias a ->
         dom_C05 (atype a) = true -> known_C05 Python (Proofs.C05_Back.c05_py_cfg cfg) (agenerics a) (atype a) = None ->
         exists docs name, dl = [PYAlias docs name (agenerics a) (c05_erase Python (Proofs.C05_Back.c05_py_cfg cfg) (agenerics a) (atype a))]) /\
      (forall k, it = ItConst k ->
         dom_C05 (ctype k) = true -> known_C05 Python (Proofs.C05_Back.c05_py_cfg cfg) [] (ctype k) = None ->
         exists name v, dl = [PYConst name (c05_erase Python (Proofs.C05_Back.c05_py_cfg cfg) [] (ctype k)) v])) items dss.
Proof.
  intros H. destruct (py_multi_decls_items _ _ _ _ _ _ H) as (items & dss & Et & Ec & W). exists items, dss.
  split; [exact Et|]. split; [exact Ec|].
  eapply Forall2_impl; [|exact W]. intros it dl Wd. split; [|split].
  - intros s -> Hf. unfold writes_from_any in Wd. cbn [py_decl_of] in Wd.
    destruct (wfa_bind_ret _ (fun d => [d]) _ Wd py_empty_state) as (c & s1 & Eg & ->).
    destruct (Proofs.C05_Sites.C05_site_py_struct uc cfg s Hf py_empty_state) as (d0 & s0' & E0 & docs & name & pbn & ms & -> & HQ).
    rewrite Eg in E0. injection E0 as -> _. exists docs, name, pbn, ms. split; [reflexivity|exact HQ].
  - intros a -> Hd Hk. wfa_use Wd py_empty_state (Proofs.C05_Sites.C05_site_py_alias uc cfg a Hd Hk).
  - intros k -> Hd Hk. wfa_use Wd py_empty_state (Proofs.C05_Sites.C05_site_py_const uc cfg k Hd Hk).
Qed.

(* ================================================================== C05, Go (struct members: without uppercase_acronyms, as C05_site_go_struct) *)
Theorem c05_multi_sites_go uc cfg st pd ds st' :
  go_multi_decls uc cfg st pd = Ok (ds, st') ->
  exists items dss, topsort (items_of pd) = Ok items /\ ds = List.concat dss /\
    Forall2 (fun it dl =>
      (forall rs, it = ItStruct rs -> go_uppercase_acronyms cfg = [] ->
         Forall (Proofs.C05_Sites.c05_field_ok Go (Proofs.C05_Back.c05_go_cfg cfg) (sgenerics rs)) (sfields rs) ->
         exists docs name ms, dl = [GOStruct docs name (sgenerics rs) ms] /\
           map (fun mm => go_obs_ty (gm_type mm)) ms = map (fun f => c05_erase Go (Proofs.C05_Back.c05_go_cfg cfg) (sgenerics rs) (fty f)) (sfields rs)) /\
      (forall a, it = ItAlias a ->
         dom_C05 (atype a) = true -> known_C05 Go (Proofs.C05_Back.c05_go_cfg cfg) [] (atype a) = None ->
         exists docs name ty, dl = [GOAlias docs name ty] /\
           go_obs_ty ty = c05_erase Go (Proofs.C05_Back.c05_go_cfg cfg) (agenerics a) (atype a)) /\
      (forall k, it = ItConst k ->
         dom_C05 (ctype k) = true -> known_C05 Go (Proofs.C05_Back.c05_go_cfg cfg) [] (ctype k) = None ->
         exists name ty v, dl = [GOConst name ty v] /\ go_obs_ty ty = c05_erase Go (Proofs.C05_Back.c05_go_cfg cfg) [] (ctype k))) items dss.
Proof.
  intros H. destruct (go_multi_decls_items _ _ _ _ _ _ H) as (items & dss & Et & Ec & W). exists items, dss.
  split; [exact Et|]. split; [exact Ec|].
  eapply Forall2_impl; [|exact W]. intros it dl Wd. split; [|split].
  - intros rs -> Ha Hf. unfold writes_from_any in Wd. cbn [go_decl_of] in Wd.
    destruct (wfa_bind_ret _ (fun d => [d]) _ Wd ([] : go_state)) as (c & s1 & Eg & ->).
    destruct (Proofs.C05_Sites.C05_site_go_struct uc cfg Ha rs Hf ([] : go_state)) as (d0 & s0' & E0 & docs & name & ms & -> & HQ).
    rewrite Eg in E0. injection E0 as -> _. exists docs, name, ms. split; [reflexivity|exact HQ].
  - intros a -> Hd Hk. destruct (Wd ([] : go_state)) as (s' & E).
    exact (Proofs.C05_Sites.C05_site_go_alias uc cfg _ a _ _ _ Hd Hk E).
  - intros k -> Hd Hk. wfa_use Wd ([] : go_state) (Proofs.C05_Sites.C05_site_go_const uc cfg (go_types_mapping_to_struct items) k Hd Hk).
Qed.

(* ================================================================== C04, TypeScript: members of structs, alias targets *)
Theorem c04_multi_back_ts uc cfg st pd ds st' :
  ts_multi_decls uc cfg st pd = Ok (ds, st') ->
  exists items, topsort (items_of pd) = Ok items /\
    Forall2 (fun it d =>
      (forall s, it = ItStruct s ->
         exists docs name ms, d = TSInterface docs name (sgenerics s) ms /\
           Forall2 (fun f m =>
             type_override f TypeScript = None ->
             (is_optional (fty f) = true -> tmap_get (ts_type_mappings cfg) (rtype_display (fty f)) = None) ->
             forall decl pos, c04_fieldlike pos = true ->
             exists y s1 s2, ts_texp cfg (sgenerics s) (Proofs.C04.c04_strip (fty f)) s1 = Ok (y, s2) /\
               good_C04 TypeScript (Proofs.C04_Back.c04_expect_of pos (fty f) (has_default f) (ts_show y))
                        (c04r_seen (ts_c04_member decl pos m)) = true) (sfields s) ms) /\
      (forall a, it = ItAlias a ->
         (is_optional (atype a) = true -> tmap_get (ts_type_mappings cfg) (rtype_display (atype a)) = None) ->
         exists y s1 s2, ts_texp cfg (agenerics a) (Proofs.C04.c04_strip (atype a)) s1 = Ok (y, s2) /\
           ts_c04_rows d = [c04_mk (renamed (aid a)) [] C04Alias (is_optional (atype a)) (is_optional (atype a)) (is_double_optional (atype a)) (ts_show y) (ts_show y)] /\
           good_C04 TypeScript (Proofs.C04_Back.c04_expect_of C04Alias (atype a) false (ts_show y))
                    (c04r_seen (c04_mk (renamed (aid a)) [] C04Alias (is_optional (atype a)) (is_optional (atype a)) (is_double_optional (atype a)) (ts_show y) (ts_show y))) = true)) items ds.
Proof.
  intros H. destruct (ts_multi_decls_items _ _ _ _ _ _ H) as (items & Et & W). exists items. split; [exact Et|].
  eapply Forall2_impl; [|exact W]. intros it d Wd. split.
  - intros s ->. destruct (Wd ([] : ts_state)) as (s' & E). cbn [ts_decl_of] in E.
    apply mbind_ok in E as (ms & s1 & Em & Er). unfold ret in Er. injection Er as <- _.
    do 3 eexists. split; [reflexivity|].
    eapply mmapM_Forall2; [|exact Em]. cbv beta. intros f sa m sb Ef Ho Hm decl pos Hp.
    destruct (Proofs.C04_Back.ts_field_good cfg f (sgenerics s) sa m sb decl pos Hp Ho Hm Ef) as (y & s2 & Ey & Hg).
    exists y, sa, s2. split; [exact Ey|exact Hg].
  - intros a -> Hm. destruct (Wd ([] : ts_state)) as (s' & E).
    destruct (Proofs.C04_Back.ts_alias_good cfg uc a _ _ _ Hm E) as (y & Ey & Hr & Hg).
    exists y, ([] : ts_state), s'. split; [exact Ey|]. split; [exact Hr|exact Hg].
Qed.

(* ================================================================== C04, Swift / Python / Go: alias targets *)
Theorem c04_multi_back_sw_alias uc cfg st pd ds st' :
  sw_multi_decls uc cfg st pd = Ok (ds, st') ->
  exists items, topsort (items_of pd) = Ok items /\
    Forall2 (fun it d => forall a, it = ItAlias a ->
      exists x y s3 s4, sw_c04_rows d = [c04_typed sw_show (sw_prefix cfg ++ renamed (aid a)) [] C04Alias x] /\
        sw_texp cfg (agenerics a) (Proofs.C04.c04_strip (atype a)) s3 = Ok (y, s4) /\
        good_C04 Swift (Proofs.C04_Back.c04_expect_of C04Alias (atype a) false (sw_show y))
                 (c04r_seen (c04_typed sw_show (sw_prefix cfg ++ renamed (aid a)) [] C04Alias x)) = true) items ds.
Proof.
  intros H. destruct (sw_multi_decls_items _ _ _ _ _ _ H) as (items & Et & W). exists items. split; [exact Et|].
  eapply Forall2_impl; [|exact W]. intros it d Wd a ->. destruct (Wd false) as (s' & E).
  exact (Proofs.C04_Back.sw_alias_good uc cfg a _ _ _ E).
Qed.

Theorem c04_multi_back_py_alias uc cfg st pd ds st' :
  py_multi_decls uc cfg st pd = Ok (ds, st') ->
  exists items dss, topsort (items_of pd) = Ok items /\ ds = List.concat dss /\
    Forall2 (fun it dl => forall a, it = ItAlias a ->
      (is_optional (atype a) = true -> tmap_get (py_type_mappings cfg) (rtype_display (atype a)) = None) ->
      exists x y s3 s4, flat_map py_c04_rows dl = [c04_typed py_show (renamed (aid a)) [] C04Alias x] /\
        py_texp cfg (agenerics a) (Proofs.C04.c04_strip (atype a)) s3 = Ok (y, s4) /\
        good_C04 Python (Proofs.C04_Back.c04_expect_of C04Alias (atype a) false (py_show y))
                 (c04r_seen (c04_typed py_show (renamed (aid a)) [] C04Alias x)) = true) items dss.
Proof.
  intros H. destruct (py_multi_decls_items _ _ _ _ _ _ H) as (items & dss & Et & Ec & W). exists items, dss.
  split; [exact Et|]. split; [exact Ec|].
  eapply Forall2_impl; [|exact W]. intros it dl Wd a -> Hm. destruct (Wd py_empty_state) as (s' & E).
  exact (Proofs.C04_Back.py_alias_good uc cfg a _ _ _ Hm E).
Qed.

Theorem c04_multi_back_go_alias uc cfg st pd ds st' :
  go_no_pointer_slice cfg = false ->
  go_multi_decls uc cfg st pd = Ok (ds, st') ->
  exists items dss, topsort (items_of pd) = Ok items /\ ds = List.concat dss /\
    Forall2 (fun it dl => forall a, it = ItAlias a ->
      (is_optional (atype a) = true -> tmap_get (go_type_mappings cfg) (rtype_display (atype a)) = None) ->
      exists name x y s3 s4, flat_map go_c04_rows dl = [go_c04_typed name [] C04Alias x] /\
        go_texp cfg [] (Proofs.C04.c04_strip (atype a)) s3 = Ok (y, s4) /\
        good_C04 Go (Proofs.C04_Back.c04_expect_of C04Alias (atype a) false (go_show y)) (c04r_seen (go_c04_typed name [] C04Alias x)) = true) items dss.
Proof.
  intros Hn H. destruct (go_multi_decls_items _ _ _ _ _ _ H) as (items & dss & Et & Ec & W). exists items, dss.
  split; [exact Et|]. split; [exact Ec|].
  eapply Forall2_impl; [|exact W]. intros it dl Wd a -> Hm. destruct (Wd ([] : go_state)) as (s' & E).
  exact (Proofs.C04_Back.go_alias_good uc cfg Hn _ a _ _ _ Hm E).
Qed.
