(* C10, grammar half for Swift, part 4: the LAYOUT layer of Model/Lang/Swift.v produces text that tokenises to declarations
   of the grammar.  Covered here: the header (version comment, import line), type aliases, String-backed (unit) enums, the
   CodableVoid helper; type expressions ([TyText], closed under the formers of [sw_show]); doc comments; names with their
   back-tick decision; generic-parameter clauses with constraints; conformance lists.
   NOT covered here (their parser side is proved in C10_SWGrammarDecl.v: decl_struct_ok, decl_init_ok, clause_ok, block_ok):
   the text of structs (stored properties, CodingKeys, init) and of algebraic enums (cases, CodingKeys, init(from:), encode(to:)). *)
From Coq Require Import List Bool Lia ZifyBool ZifyN NArith String.
From TS Require Import Model.Str Model.Outcome Model.Unicode Model.Types Model.Parse Model.Lang.Common Model.Lang.Decl Model.Lang.Swift.
From TS Require Import Spec.C10Spec Spec.C10TsGrammar Spec.C10SwGrammar Proofs.C10_SWGrammarTok Proofs.C10_SWGrammarParse Proofs.C10_SWGrammarDecl.
From TS Require Proofs.C10Lex Proofs.C10_TSGrammar.
Import ListNotations.
Local Open Scope N_scope.
Local Notation length := List.length (only parsing).

Ltac lit_cfrag := apply cfrag_compute; vm_compute; reflexivity.
Ltac lit_frag := apply frag_compute; vm_compute; reflexivity.

(* ------------------------------------------------------------------ names *)
Definition nametok (name : str) (esc : bool) : c10_wtok := if esc then WTick name else WId name.
(* a declared name: an identifier of the language, back-ticked or not a reserved word *)
Definition c10_swg_name_ok (name : str) (esc : bool) : bool := c10_sw_ident_ok name && (esc || negb (c10_sw_res name)).

Lemma nametok_name name esc : c10_swg_name_ok name esc = true -> c10_sw_is_name (nametok name esc) = true.
Proof. unfold c10_swg_name_ok, nametok. rewrite andb_true_iff. intros [_ H]. destruct esc; [reflexivity|exact H]. Qed.

Lemma name_frag name esc : c10_swg_name_ok name esc = true -> Frag (sw_show_name name esc) [nametok name esc].
Proof.
  unfold c10_swg_name_ok, nametok, sw_show_name. rewrite andb_true_iff. intros [Hi _]. destruct esc.
  - apply cfrag_frag. exact (cfrag_ticked name Hi).
  - exact (frag_ident name Hi).
Qed.

(* ------------------------------------------------------------------ type expressions *)
Definition TyText (t : str) : Prop := exists tx, Frag t tx /\ WGr STy tx.
Definition IdText (t : str) : Prop := exists tx, Frag t tx /\ WGr STyId tx.
(* a type name: an identifier that is not a reserved word (Any and Self are allowed) *)
Definition c10_swg_tyname_ok (n : str) : bool := c10_sw_ident_ok n && c10_sw_is_tyname (WId n).

Lemma idtext_name n : c10_swg_tyname_ok n = true -> IdText n.
Proof. unfold c10_swg_tyname_ok. rewrite andb_true_iff. intros [Hi Ht]. exists [WId n]. split; [apply frag_ident, Hi|apply W_id, Ht]. Qed.
Lemma idtext_tytext t : IdText t -> TyText t.
Proof. intros (tx & Hf & Hg). exists tx. split; [exact Hf|apply wgr_id_ty, Hg]. Qed.
Lemma tytext_name n : c10_swg_tyname_ok n = true -> TyText n.
Proof. intros H. apply idtext_tytext, idtext_name, H. Qed.

Lemma L_comma_sp : CFrag (lit ", ") [WP 44]. Proof. lit_cfrag. Qed.

Lemma tylist_text l : l <> [] -> Forall TyText l -> exists tl, Frag (join (lit ", ") l) tl /\ WGr SArgs tl.
Proof.
  induction l as [|x r IH]; [congruence|]. intros _ H. inversion H as [|x0 r0 (tx & Hf & Hg) Hr]; subst.
  destruct r as [|y r].
  - exists tx. split; [exact Hf|apply W_args1, Hg].
  - destruct (IH ltac:(discriminate) Hr) as (tl & Hfl & Hgl). exists (tx ++ [WP 44] ++ tl). split.
    + change (join (lit ", ") (x :: y :: r)) with (x ++ lit ", " ++ join (lit ", ") (y :: r)).
      apply frag_frag_app; [exact Hf| |reflexivity]. apply cfrag_frag_app; [exact L_comma_sp|exact Hfl].
    + apply W_args; assumption.
Qed.

Lemma tytext_app n args : c10_swg_tyname_ok n = true -> args <> [] -> Forall TyText args ->
  TyText (n ++ lit "<" ++ join (lit ", ") args ++ lit ">").
Proof.
  unfold c10_swg_tyname_ok. rewrite andb_true_iff. intros [Hi Ht] Hne Ha. destruct (tylist_text args Hne Ha) as (tl & Hfl & Hgl).
  exists ([WId n] ++ [WP 60] ++ tl ++ [WP 62]). split.
  - apply frag_frag_app; [apply frag_ident, Hi| |reflexivity]. apply cfrag_frag_app; [lit_cfrag|].
    apply cfrag_frag. apply frag_cfrag_app; [exact Hfl|lit_cfrag|reflexivity].
  - apply wgr_id_ty. exact (W_id_app (WId n) tl Ht Hgl).
Qed.

Lemma tytext_seq e : TyText e -> TyText (lit "[" ++ e ++ lit "]").
Proof.
  intros (tx & Hf & Hg). exists ([WP 91] ++ tx ++ [WP 93]). split.
  - apply cfrag_frag_app; [lit_cfrag|]. apply cfrag_frag. apply frag_cfrag_app; [exact Hf|lit_cfrag|reflexivity].
  - apply wgr_pre_ty. exact (W_arr tx Hg).
Qed.

Lemma tytext_map k v : TyText k -> TyText v -> TyText (lit "[" ++ k ++ lit ": " ++ v ++ lit "]").
Proof.
  intros (tk & Hfk & Hgk) (tv & Hfv & Hgv). exists ([WP 91] ++ tk ++ [WP 58] ++ tv ++ [WP 93]). split.
  - apply cfrag_frag_app; [lit_cfrag|]. apply frag_frag_app; [exact Hfk| |reflexivity].
    apply cfrag_frag_app; [lit_cfrag|]. apply cfrag_frag. apply frag_cfrag_app; [exact Hfv|lit_cfrag|reflexivity].
  - apply wgr_pre_ty. exact (W_dict tk tv Hgk Hgv).
Qed.

Lemma tytext_opt e : TyText e -> TyText (e ++ lit "?").
Proof.
  intros (tx & Hf & Hg). exists (tx ++ [WP 63]). split.
  - apply cfrag_frag. apply frag_cfrag_app; [exact Hf|lit_cfrag|reflexivity].
  - apply wgr_ty_quest, Hg.
Qed.

(* a type tree all of whose names are type names and whose verbatim leaves are types of the grammar ([sw_texp] builds no XFixed) *)
Inductive c10_swg_texp : texp -> Prop :=
| SG_name n args : c10_swg_tyname_ok n = true -> Forall c10_swg_texp args -> c10_swg_texp (XName n args)
| SG_seq e : c10_swg_texp e -> c10_swg_texp (XSeq e)
| SG_map k v : c10_swg_texp k -> c10_swg_texp v -> c10_swg_texp (XMap k v)
| SG_opt e : c10_swg_texp e -> c10_swg_texp (XOpt e)
| SG_raw t : TyText t -> c10_swg_texp (XRaw t).

Lemma sw_show_tytext x : c10_swg_texp x -> TyText (sw_show x).
Proof.
  induction x as [n args IH | e IH | es IH | k v IHk IHv | e IH | t] using Proofs.C10Lex.texp_ind'; intros H; inversion H; subst.
  - assert (Ha : Forall TyText (map sw_show args)).
    { apply Forall_map. rewrite Forall_forall in *. intros a Ha. apply IH; auto. }
    destruct args as [|a l]; [apply tytext_name; assumption|].
    change (sw_show (XName n (a :: l))) with (n ++ lit "<" ++ join (lit ", ") (map sw_show (a :: l)) ++ lit ">").
    apply tytext_app; [assumption|discriminate|exact Ha].
  - change (sw_show (XSeq e)) with (lit "[" ++ sw_show e ++ lit "]"). apply tytext_seq. auto.
  - change (sw_show (XMap k v)) with (lit "[" ++ sw_show k ++ lit ": " ++ sw_show v ++ lit "]"). apply tytext_map; auto.
  - change (sw_show (XOpt e)) with (sw_show e ++ lit "?"). apply tytext_opt. auto.
  - assumption.
Qed.

(* ------------------------------------------------------------------ doc comments *)
Lemma tabs_blank n : forallb c10_sw_blank (sw_tabs n) = true.
Proof. unfold sw_tabs. induction n as [|n IH]; [reflexivity|]. cbn [repeat_str app forallb]. exact IH. Qed.

Lemma sw_comments_cfrag indent docs : forallb Proofs.C10Lex.c10_line_ok docs = true ->
  exists nls, AllNl nls /\ CFrag (sw_render_comments indent docs) nls.
Proof.
  unfold sw_render_comments. induction docs as [|c r IH]; intros H.
  - exists []. split; [apply allnl_nil|apply cfrag_nil].
  - cbn [forallb] in H. apply andb_true_iff in H as [Hc Hr]. destruct (IH Hr) as (nls & Hn & Hf). exists ([] ++ [WNl] ++ nls). split.
    + apply allnl_app; [apply allnl_nil|]. apply allnl_app; [apply allnl_one|exact Hn].
    + cbn [flat_map]. rewrite <- app_assoc. apply cfrag_app; [apply cfrag_blank, tabs_blank|].
      replace ((lit "/// " ++ c ++ sw_nl) ++ flat_map (fun c0 => sw_tabs indent ++ lit "/// " ++ c0 ++ sw_nl) r)
        with ((47 :: 47 :: (47 :: 32 :: c) ++ [ch_nl]) ++ flat_map (fun c0 => sw_tabs indent ++ lit "/// " ++ c0 ++ sw_nl) r)
        by (cbn [lit app]; repeat (rewrite <- ?app_assoc; cbn [app]); reflexivity).
      apply cfrag_app; [|exact Hf]. apply cfrag_line_comment. unfold Proofs.C10Lex.c10_line_ok in *. cbn [forallb]. exact Hc.
Qed.

(* ------------------------------------------------------------------ separated lists of type-identifiers *)
Lemma ssep_pre a b : ssep a = true -> ssep (a ++ b) = true.
Proof. destruct a; [discriminate|]. intros H. exact H. Qed.
Lemma sepids_text (sepstr : str) (sepc : char) l : CFrag sepstr [WP sepc] -> ssep sepstr = true -> l <> [] -> Forall IdText l ->
  exists ids, Frag (join sepstr l) (sep_toks sepc ids) /\ Forall (WGr STyId) ids /\ ids <> [].
Proof.
  intros Hsep Hss. induction l as [|x r IH]; [congruence|]. intros _ H. inversion H as [|x0 r0 (tx & Hf & Hg) Hr]; subst.
  destruct r as [|y r].
  - exists [tx]. split; [exact Hf|]. split; [constructor; [exact Hg|constructor]|discriminate].
  - destruct (IH ltac:(discriminate) Hr) as (ids & Hfl & Hgl & Hne). exists (tx :: ids). split; [|split; [constructor; assumption|discriminate]].
    change (join sepstr (x :: y :: r)) with (x ++ sepstr ++ join sepstr (y :: r)).
    destruct ids as [|i0 ir]; [congruence|]. change (sep_toks sepc (tx :: i0 :: ir)) with (tx ++ [WP sepc] ++ sep_toks sepc (i0 :: ir)).
    apply frag_frag_app; [exact Hf| |apply ssep_pre, Hss]. apply cfrag_frag_app; [exact Hsep|exact Hfl].
Qed.

(* the conformance list after the name: [: A, B] *)
Lemma L_colon_sp : CFrag (lit ": ") [WP 58]. Proof. lit_cfrag. Qed.
Lemma inherit_text decs : decs <> [] -> Forall IdText decs ->
  exists ids, Frag (lit ": " ++ join (lit ", ") decs) (inherit_toks ids) /\ Forall (WGr STyId) ids /\ ids <> [].
Proof.
  intros Hne H. destruct (sepids_text (lit ", ") 44 decs L_comma_sp eq_refl Hne H) as (ids & Hf & Hg & Hn).
  exists ids. split; [|split; assumption]. destruct ids as [|i r]; [congruence|].
  change (inherit_toks (i :: r)) with ([WP 58] ++ sep_toks 44 (i :: r)). apply cfrag_frag_app; [exact L_colon_sp|exact Hf].
Qed.

(* ------------------------------------------------------------------ generic-parameter clauses *)
(* <T: A & B, U: C> *)
Definition c10_swg_gparam_ok (g : str * list str) : Prop :=
  c10_swg_name_ok (fst g) false = true /\ snd g <> [] /\ Forall IdText (snd g).

Lemma L_amp : CFrag (lit " & ") [WP 38]. Proof. lit_cfrag. Qed.
Lemma L_gt : CFrag (lit ">") [WP 62]. Proof. lit_cfrag. Qed.
Lemma L_lt : CFrag (lit "<") [WP 60]. Proof. lit_cfrag. Qed.

Lemma gparam_text g : c10_swg_gparam_ok g ->
  exists gp, Frag (fst g ++ lit ": " ++ join (lit " & ") (snd g)) (gparam_toks gp) /\ gparam_ok gp.
Proof.
  intros (Hn & Hne & Hc). destruct (sepids_text (lit " & ") 38 (snd g) L_amp eq_refl Hne Hc) as (ids & Hf & Hg & Hn2).
  exists (WId (fst g), ids). split; [|split; [exact (nametok_name _ false Hn)|exact Hg]].
  unfold gparam_toks. cbn [fst snd]. destruct ids as [|i r]; [congruence|].
  change (WId (fst g) :: WP 58 :: sep_toks 38 (i :: r)) with ([WId (fst g)] ++ [WP 58] ++ sep_toks 38 (i :: r)).
  apply frag_frag_app; [exact (name_frag (fst g) false Hn)| |reflexivity]. apply cfrag_frag_app; [exact L_colon_sp|exact Hf].
Qed.

Lemma gparams_text gs : gs <> [] -> Forall c10_swg_gparam_ok gs ->
  exists gps, CFrag (join (lit ", ") (map (fun g : str * list str => fst g ++ lit ": " ++ join (lit " & ") (snd g)) gs) ++ lit ">") (gparams_body gps) /\
              Forall gparam_ok gps /\ gps <> [].
Proof.
  induction gs as [|g r IH]; [congruence|]. intros _ H. inversion H as [|g0 r0 Hg Hr]; subst.
  destruct (gparam_text g Hg) as (gp & Hf & Hgp). destruct r as [|g2 r].
  - exists [gp]. split; [|split; [constructor; [exact Hgp|constructor]|discriminate]]. cbn [map join gparams_body].
    apply frag_cfrag_app; [exact Hf|exact L_gt|reflexivity].
  - destruct (IH ltac:(discriminate) Hr) as (gps & Hfs & Hgs & Hne). exists (gp :: gps). split; [|split; [constructor; assumption|discriminate]].
    destruct gps as [|gp2 gpr]; [congruence|].
    change (gparams_body (gp :: gp2 :: gpr)) with (gparam_toks gp ++ [WP 44] ++ gparams_body (gp2 :: gpr)).
    set (F := fun g0 : str * list str => fst g0 ++ lit ": " ++ join (lit " & ") (snd g0)) in *.
    change (join (lit ", ") (map F (g :: g2 :: r))) with (F g ++ lit ", " ++ join (lit ", ") (map F (g2 :: r))). rewrite <- !app_assoc.
    apply frag_cfrag_app; [exact Hf| |reflexivity]. apply cfrag_app; [exact L_comma_sp|exact Hfs].
Qed.

Lemma generic_header_text gs : Forall c10_swg_gparam_ok gs ->
  exists gps, CFrag (sw_render_generic_header gs) (gparams_toks gps) /\ Forall gparam_ok gps.
Proof.
  intros H. unfold sw_render_generic_header. destruct gs as [|g r].
  - exists []. split; [apply cfrag_nil|constructor].
  - destruct (gparams_text (g :: r) ltac:(discriminate) H) as (gps & Hf & Hg & Hne). exists gps. split; [|exact Hg].
    destruct gps as [|gp gpr]; [congruence|]. change (gparams_toks (gp :: gpr)) with ([WP 60] ++ gparams_body (gp :: gpr)).
    apply cfrag_app; [exact L_lt|exact Hf].
Qed.

(* <T, U> : the parameters of a type alias (no constraints) *)
Lemma alias_gens_text gs : Forall (fun g => c10_swg_name_ok g false = true) gs ->
  exists gps, CFrag (generics_suffix gs) (gparams_toks gps) /\ Forall gparam_ok gps.
Proof.
  intros H. unfold generics_suffix. destruct gs as [|g0 r0]; [exists []; split; [apply cfrag_nil|constructor]|].
  assert (G : forall gs, gs <> [] -> Forall (fun g => c10_swg_name_ok g false = true) gs ->
              exists gps, CFrag (join (lit ", ") gs ++ lit ">") (gparams_body gps) /\ Forall gparam_ok gps /\ gps <> []).
  { clear. induction gs as [|g r IH]; [congruence|]. intros _ H. inversion H as [|g1 r1 Hg Hr]; subst.
    assert (Hgp : gparam_ok (WId g, [])) by (split; [exact (nametok_name _ false Hg)|constructor]).
    destruct r as [|g2 r].
    - exists [(WId g, [])]. split; [|split; [constructor; [exact Hgp|constructor]|discriminate]]. cbn [join gparams_body gparam_toks fst snd app].
      change [WId g; WP 62] with ([WId g] ++ [WP 62]). apply frag_cfrag_app; [exact (name_frag g false Hg)|exact L_gt|reflexivity].
    - destruct (IH ltac:(discriminate) Hr) as (gps & Hfs & Hgs & Hne). exists ((WId g, []) :: gps). split; [|split; [constructor; assumption|discriminate]].
      destruct gps as [|gp2 gpr]; [congruence|].
      change (gparams_body ((WId g, []) :: gp2 :: gpr)) with ([WId g] ++ [WP 44] ++ gparams_body (gp2 :: gpr)).
      change (join (lit ", ") (g :: g2 :: r)) with (g ++ lit ", " ++ join (lit ", ") (g2 :: r)). rewrite <- !app_assoc.
      apply frag_cfrag_app; [exact (name_frag g false Hg)| |reflexivity]. apply cfrag_app; [exact L_comma_sp|exact Hfs]. }
  destruct (G (g0 :: r0) ltac:(discriminate) H) as (gps & Hf & Hg & Hne). exists gps. split; [|exact Hg].
  destruct gps as [|gp gpr]; [congruence|]. change (gparams_toks (gp :: gpr)) with ([WP 60] ++ gparams_body (gp :: gpr)).
  rewrite <- ?app_assoc. apply cfrag_app; [exact L_lt|exact Hf].
Qed.

(* ------------------------------------------------------------------ declarations *)
(* the declarations whose text is covered: aliases, String-backed enums without helper structs, CodableVoid *)
Definition c10_swg_unit_case_ok (v : sw_variant) : Prop :=
  forallb Proofs.C10Lex.c10_line_ok (swv_docs v) = true /\ c10_swg_name_ok (swv_name v) (swv_escaped v) = true /\
  match swv_raw v with Some w => forallb c10_key_char w = true | None => True end.

Definition c10_swg_decl_ok (d : sw_decl) : Prop :=
  match d with
  | SWAlias docs name esc gs ty =>
    forallb Proofs.C10Lex.c10_line_ok docs = true /\ c10_swg_name_ok name esc = true /\
    Forall (fun g => c10_swg_name_ok g false = true) gs /\ c10_swg_texp ty
  | SWEnum e =>
    swe_inner e = [] /\ swe_tagged e = None /\ swe_indirect e = false /\
    forallb Proofs.C10Lex.c10_line_ok (swe_docs e) = true /\ c10_swg_name_ok (swe_name e) (swe_escaped e) = true /\
    Forall c10_swg_gparam_ok (swe_generics e) /\ swe_decs e <> [] /\ Forall IdText (swe_decs e) /\
    Forall c10_swg_unit_case_ok (swe_variants e)
  | SWCodableVoid decs => decs <> [] /\ Forall IdText decs
  | SWStruct _ => False
  end.

Lemma L_nl : CFrag sw_nl [WNl]. Proof. lit_cfrag. Qed.
Lemma L_eq : CFrag (lit " = ") [WP 61]. Proof. lit_cfrag. Qed.
Lemma L_pub_alias : CFrag (lit "public typealias ") [kw "public"; kw "typealias"]. Proof. lit_cfrag. Qed.
Lemma L_pub_enum : CFrag (lit "public enum ") [kw "public"; kw "enum"]. Proof. lit_cfrag. Qed.
Lemma L_lbrace_nl : CFrag (lit " {" ++ sw_nl) [WP 123; WNl]. Proof. lit_cfrag. Qed.
Lemma L_rbrace_nl : CFrag (lit "}" ++ sw_nl) [WP 125; WNl]. Proof. lit_cfrag. Qed.
Lemma L_case : CFrag (lit "case ") [kw "case"]. Proof. lit_cfrag. Qed.
Lemma L_void : Frag (lit "public struct CodableVoid") [kw "public"; kw "struct"; WId (lit "CodableVoid")]. Proof. lit_frag. Qed.
Lemma L_void_end : CFrag (lit " {}" ++ sw_nl) [WP 123; WP 125; WNl]. Proof. lit_cfrag. Qed.

(* a rendered declaration: line breaks, then one declaration of the grammar, then a line break *)
Definition DeclText (text : str) : Prop :=
  exists nls d, AllNl nls /\ CFrag text (nls ++ d ++ [WNl]) /\ DeclOk PTop d.

Lemma cfrag_debug_key k : forallb c10_key_char k = true -> CFrag (debug_str k) [WStr].
Proof. intros H. destruct (Proofs.C10_TSGrammar.debug_key k H) as [-> Hp]. apply cfrag_quoted, Hp. Qed.

(* the cases of a String-backed enum, up to the closing brace: a body of the raw-value flavour *)
Lemma unit_cases_text vs : Forall c10_swg_unit_case_ok vs ->
  exists body, CFrag (flat_map sw_render_unit_case vs ++ lit "}") body /\ Body (PEnum true) body.
Proof.
  induction 1 as [|v vs (Hd & Hn & Hr) _ (body & Hfb & Hb)].
  - exists ([] ++ [WP 125]). split; [cbn [flat_map app]; lit_cfrag|apply B_end, allnl_nil].
  - destruct (sw_comments_cfrag 1 _ Hd) as (nls & Hnls & Hfc).
    set (c := match swv_raw v with Some _ => [nametok (swv_name v) (swv_escaped v); WP 61; WStr] | None => [nametok (swv_name v) (swv_escaped v)] end).
    assert (Hc : CaseToks true c).
    { subst c. destruct (swv_raw v); [apply C_raw; [reflexivity|apply nametok_name, Hn]|apply C_plain, nametok_name, Hn]. }
    exists (nls ++ (kw "case" :: cases_toks false [c]) ++ WNl :: body). split.
    + intros b tb Hb0. cbn [flat_map]. unfold sw_render_unit_case, sw_variant_ident. cbn [cases_toks]. repeat (rewrite <- !app_assoc; cbn [app]).
      apply Hfc. apply (cfrag_blank (sw_tabs 1) (tabs_blank 1)).
      change (kw "case" :: ?x) with ([kw "case"] ++ x). apply L_case.
      pose proof (name_frag _ _ Hn) as Hnf. subst c. destruct (swv_raw v) as [w|].
      * cbn [app]. change (nametok (swv_name v) (swv_escaped v) :: WP 61 :: WStr :: ?x) with ([nametok (swv_name v) (swv_escaped v)] ++ [WP 61] ++ [WStr] ++ x).
        apply Hnf; [reflexivity|]. apply L_eq. apply (cfrag_debug_key w Hr). change (WNl :: ?x) with ([WNl] ++ x). apply L_nl. pose proof (Hfb b tb Hb0) as G. rewrite <- app_assoc in G. exact G.
      * cbn [app]. change (nametok (swv_name v) (swv_escaped v) :: WNl :: ?x) with ([nametok (swv_name v) (swv_escaped v)] ++ [WNl] ++ x).
        apply Hnf; [reflexivity|]. apply L_nl. pose proof (Hfb b tb Hb0) as G. rewrite <- app_assoc in G. exact G.
    + apply B_mem; [exact Hnls| |exact Hb]. apply clause_ok; [constructor; [exact Hc|constructor]|discriminate].
Qed.

Theorem sw_render_decl_gram d : c10_swg_decl_ok d -> DeclText (sw_render_decl d).
Proof.
  destruct d as [s | docs name esc gs ty | e | decs]; cbn [c10_swg_decl_ok]; [intros []| | |].
  - (* alias *) intros (Hd & Hn & Hg & Hty). destruct (sw_comments_cfrag 0 _ Hd) as (nls & Hnls & Hfc).
    destruct (alias_gens_text gs Hg) as (gps & Hfg & Hgp). destruct (sw_show_tytext ty Hty) as (tx & Hft & Hgt).
    exists ([WNl] ++ nls), ([kw "public"] ++ kw "typealias" :: nametok name esc :: gparams_toks gps ++ WP 61 :: tx).
    split; [apply allnl_app; [apply allnl_one|exact Hnls]|]. split; [|apply decl_alias_ok; [right; left; reflexivity|apply nametok_name, Hn|exact Hgp|exact Hgt]].
    intros b tb Hb. cbn [sw_render_decl]. repeat (rewrite <- !app_assoc; cbn [app]).
    change (WNl :: ?x) with ([WNl] ++ x). apply L_nl. apply Hfc.
    change (kw "public" :: kw "typealias" :: ?x) with ([kw "public"; kw "typealias"] ++ x). apply L_pub_alias.
    change (nametok name esc :: ?x) with ([nametok name esc] ++ x). apply (name_frag _ _ Hn).
    { destruct gs; cbn [generics_suffix app]; reflexivity. }
    apply Hfg. change (WP 61 :: ?x) with ([WP 61] ++ x). apply L_eq. apply Hft; [reflexivity|]. apply L_nl, Hb.
  - (* String-backed enum *) intros (Hin & Htag & Hind & Hd & Hn & Hg & Hne & Hdec & Hvs).
    destruct (sw_comments_cfrag 0 _ Hd) as (nls & Hnls & Hfc). destruct (generic_header_text _ Hg) as (gps & Hfg & Hgp).
    destruct (inherit_text _ Hne Hdec) as (ids & Hfi & Hgi & Hni). destruct (unit_cases_text _ Hvs) as (body & Hfb & Hb).
    exists ([WNl] ++ nls), ([kw "public"] ++ kw "enum" :: nametok (swe_name e) (swe_escaped e) :: gparams_toks gps ++ inherit_toks ids ++ WP 123 :: ([WNl] ++ body)).
    split; [apply allnl_app; [apply allnl_one|exact Hnls]|]. split.
    + intros b tb Hb0. unfold sw_render_decl, sw_render_enum. rewrite Hin, Htag, Hind. cbv zeta. cbn [flat_map]. repeat (rewrite <- !app_assoc; cbn [app]).
      change (WNl :: ?x) with ([WNl] ++ x). apply L_nl. apply Hfc.
      change (lit "public " ++ lit "enum " ++ ?x) with (lit "public enum " ++ x).
      change (kw "public" :: kw "enum" :: ?x) with ([kw "public"; kw "enum"] ++ x). apply L_pub_enum.
      change (nametok (swe_name e) (swe_escaped e) :: ?x) with ([nametok (swe_name e) (swe_escaped e)] ++ x). apply (name_frag _ _ Hn).
      { destruct (swe_generics e); cbn [sw_render_generic_header app]; reflexivity. }
      apply Hfg. rewrite (app_assoc (lit ": ")). apply Hfi; [reflexivity|].
      change (WP 123 :: WNl :: ?x) with ([WP 123; WNl] ++ x). apply L_lbrace_nl. rewrite (app_assoc (flat_map _ _)). apply Hfb. apply L_nl, Hb0.
    + apply (decl_enum_ok PTop true); [right; left; reflexivity|apply nametok_name, Hn|exact Hgp|exact Hgi|exact Hni|].
      destruct Hb as [nl0 Hn0 | nl0 m b0 Hn0 Hm Hb0]; [rewrite app_assoc; apply B_end|rewrite app_assoc; apply B_mem; try assumption]; apply allnl_app; try apply allnl_one; assumption.
  - (* CodableVoid *) intros (Hne & Hdec). destruct (inherit_text _ Hne Hdec) as (ids & Hfi & Hgi & Hni).
    assert (Hc : forallb Proofs.C10Lex.c10_line_ok [sw_CODABLE_VOID_DOC] = true) by (vm_compute; reflexivity).
    destruct (sw_comments_cfrag 0 _ Hc) as (nls & Hnls & Hfc).
    exists ([WNl] ++ nls), ([kw "public"] ++ kw "struct" :: WId (lit "CodableVoid") :: gparams_toks [] ++ inherit_toks ids ++ WP 123 :: ([] ++ [WP 125])).
    split; [apply allnl_app; [apply allnl_one|exact Hnls]|]. split.
    + intros b tb Hb0. cbn [sw_render_decl]. repeat (rewrite <- !app_assoc; cbn [app]).
      change (WNl :: ?x) with ([WNl] ++ x). apply L_nl. apply Hfc.
      change (lit "public struct " ++ sw_CODABLE_VOID ++ ?x) with (lit "public struct CodableVoid" ++ x).
      change (kw "public" :: kw "struct" :: WId (lit "CodableVoid") :: ?x) with ([kw "public"; kw "struct"; WId (lit "CodableVoid")] ++ x). apply L_void; [reflexivity|].
      rewrite (app_assoc (lit ": ")). apply Hfi; [reflexivity|].
      change (WP 123 :: WP 125 :: WNl :: tb) with ([WP 123; WP 125; WNl] ++ tb). apply L_void_end, Hb0.
    + apply (decl_struct_ok PTop); [right; left; reflexivity|reflexivity|constructor|exact Hgi|apply B_end, allnl_nil].
Qed.
