(* C09 in folder mode, Python (no prefix): the declarations py_decl_of returns for the items of ANY program pd', from ANY
   printer state (it only collects imports, TypeVars and translated types), have the shape of Proofs/C09MultiLang.v
   (every definition - the ...Inner helper class included - under id.renamed, every mentioned id verbatim); hence the
   file py_generate_multi writes for a crate of a folder-mode run satisfies good_C09_multi. *)
From Coq Require Import List Bool String Permutation.
From TS Require Import Model.Str Model.Outcome Model.Unicode Model.Types Model.Parse Model.Reconcile Model.Collect Model.TopsortAlgo Model.Topsort
                       Model.Lang.Common Model.Lang.Decl Model.Lang.Python Model.MultiFile.
From TS Require Import Spec.C09Spec Spec.C09MultiSpec Spec.C09MultiLangSpec.
From TS Require Import Proofs.C14Front Proofs.C09Common Proofs.C09Recon Proofs.C09Refs Proofs.C09Lang Proofs.C09_Python
                       Proofs.C09Multi Proofs.C09MultiLang Proofs.C12Multi.
Import ListNotations.

Local Notation py_names_ok x t :=
  (forall n, In n (texp_names x) -> c09_builtin Python n = true \/ exists form i, In (form, i) (c09_type_ids t) /\ n = i).

Section PYL.
Variable uc : unicode.
Variable cfg : py_config.
Variable pd' : parsed.

Notation shape := (c9l_ref_shape Python [] pd').
Notation decl_ok := (c9l_decl_ok Python [] pd').
Notation defname := (c09_def_name Python []).

Lemma pyl_defines e : c09_defines Python e = true.
Proof. unfold c09_defines. now destruct (c9e_kind e). Qed.

Lemma pyl_refs tp' owner x :
  In tp' (c09_tposs pd') -> py_names_ok x (c9t_type tp') ->
  forall r, In r (c09_type_refs Python owner (c9t_pos tp') x) -> shape r.
Proof. intros Htp Hn. eapply (c9l_names_refs_plain Python pd'); eauto. Qed.

(* write_struct: a source struct or the helper class of a struct variant *)
Lemma pyl_class_shape s d sa sb (mk : rfield -> c09_tpos) :
  py_class_of uc cfg s sa = Ok (d, sb) ->
  (forall f, In f (sfields s) -> In (mk f) (c09_tposs pd') /\ c9t_pos (mk f) = C9Field /\ c9t_type (mk f) = fty f) ->
  exists d1, py_obs d = [d1] /\ d_name d1 = renamed (sid s) /\ c09_is_def d1 = true /\ forall r, In r (c09_decl_refs Python d1) -> shape r.
Proof.
  unfold py_class_of. intros Hd Hmk.
  c09_bind Hd u1 s1 E1. c09_bind Hd u2 s2 E2. c09_bind Hd u3 s3 E3. c09_bind Hd config s4 E4. c09_bind Hd ms s5 E. c09_ret Hd.
  eexists. split; [reflexivity|]. cbn [d_name]. repeat split.
  intros r Hr. unfold c09_decl_refs in Hr. cbn [d_kind d_name d_members d_variants flat_map] in Hr. rewrite app_nil_r in Hr.
  apply in_flat_map in Hr as (m' & Hm' & Hr). apply in_map_iff in Hm' as (m & <- & Hm).
  apply c09_mmapM_Forall2 in E. destruct (c09_Forall2_in_r _ _ _ _ E Hm) as (f & Hf & sc & sd & Em).
  destruct (Hmk f Hf) as (Htp & Hpos & Hty).
  rewrite <- Hpos in Hr. eapply pyl_refs; [exact Htp| |exact Hr].
  rewrite Hty. exact (py_member_names uc cfg _ _ _ _ _ Em).
Qed.

(* the helper classes of an enum come from its struct variants *)
Lemma pyl_inner_classes sh vs : forall s cs s', py_inner_classes_of uc cfg sh vs s = Ok (cs, s') ->
  forall c, In c cs -> exists fs vsh sa sb, In (VAnon fs vsh) vs /\
      py_class_of uc cfg (anon_struct sh (py_anonymous_struct_name sh (original (vid vsh))) (original (vid vsh)) fs) sa = Ok (c, sb).
Proof.
  induction vs as [|v vs IH]; intros s cs s' H; cbn [py_inner_classes_of] in H.
  - c09_ret H. intros c [].
  - destruct v as [vsh|t vsh|fs vsh].
    + intros c Hc. destruct (IH _ _ _ H c Hc) as (fs & vsh0 & sa & sb & Hv & E). exists fs, vsh0, sa, sb. split; [right; exact Hv|exact E].
    + intros c Hc. destruct (IH _ _ _ H c Hc) as (fs & vsh0 & sa & sb & Hv & E). exists fs, vsh0, sa, sb. split; [right; exact Hv|exact E].
    + c09_bind H c0 s1 E0. c09_bind H cs0 s2 E1. c09_ret H.
      intros c [<-|Hc]; [exists fs, vsh, s, s1; split; [left; reflexivity|exact E0]|].
      destruct (IH _ _ _ E1 c Hc) as (fs1 & vsh0 & sa & sb & Hv & E). exists fs1, vsh0, sa, sb. split; [right; exact Hv|exact E].
Qed.

Lemma pyl_item it ds s1 s2 : In it (items_of pd') -> py_decl_of uc cfg it s1 = Ok (ds, s2) -> forall o, In o (flat_map py_obs ds) -> decl_ok o.
Proof.
  intros Hit Hd. unfold items_of in Hit. rewrite !in_app_iff, !in_map_iff in Hit.
  destruct Hit as [(a & <- & Ha)|[(s & <- & Hs)|[(e & <- & He)|(c & <- & Hc)]]]; cbn [py_decl_of] in Hd.
  - (* alias *)
    c09_bind Hd ty s3 E. c09_bind Hd utv s4 Etv. c09_ret Hd.
    assert (Hn : defname (c09_ent_alias a) = renamed (aid a)) by (unfold c09_def_name; cbn; apply app_nil_r).
    cbn [flat_map py_obs app]. intros o [<-|[]]. split.
    + intros _. exists (c09_ent_alias a). split; [exact (c09_in_alias pd' a Ha)|]. split; [apply pyl_defines|]. rewrite Hn. reflexivity.
    + intros r Hr. unfold c09_decl_refs in Hr. cbn [d_kind d_name d_type] in Hr.
      eapply (pyl_refs {| c9t_owner := aid a; c9t_generics := agenerics a; c9t_pos := C9Alias; c9t_type := atype a |}); [exact (c09_tp_alias pd' a Ha)| |exact Hr].
      exact (py_texp_names cfg _ _ _ _ _ E).
  - (* struct *)
    c09_bind Hd d s3 E. c09_ret Hd.
    assert (Hn : defname (c09_ent_struct s) = renamed (sid s)) by (unfold c09_def_name; cbn; apply app_nil_r).
    destruct (pyl_class_shape s d _ _ (fun f => {| c9t_owner := sid s; c9t_generics := sgenerics s; c9t_pos := C9Field; c9t_type := fty f |}) E)
      as (d1 & Hobs & Hname & Hdef & Hrefs).
    { intros f Hf. split; [exact (c09_tp_struct pd' s f Hs Hf)|]. repeat split. }
    cbn [flat_map]. rewrite Hobs. cbn [app]. intros o [<-|[]]. split; [|exact Hrefs].
    intros _. exists (c09_ent_struct s). split; [exact (c09_in_struct pd' s Hs)|]. split; [apply pyl_defines|]. rewrite Hn. exact Hname.
  - (* enum: helper classes, then the enum *)
    set (j := c09_ent_enum e).
    assert (Hj : In j (c09_entities pd')) by exact (c09_in_enum pd' e He).
    assert (Hnj : defname j = renamed (eid (enum_shared e))) by (unfold c09_def_name; destruct e; cbn; apply app_nil_r).
    c09_bind Hd inners s3 Ei.
    pose proof (pyl_inner_classes _ _ _ _ _ Ei) as Hanon.
    assert (Hself : exists dE, ds = inners ++ [dE] /\
              forall d, In d (py_obs dE) -> (d_kind d = DHelper) \/
                (d_name d = defname j /\ c09_is_def d = true /\ forall r, In r (c09_decl_refs Python d) -> shape r)).
    { destruct e as [sh|tag content sh]; cbn [enum_shared] in *.
      - c09_bind Hd u s4 E0. c09_bind Hd vs s5 Ev. c09_ret Hd. eexists. split; [reflexivity|].
        intros d [<-|[]]. right. cbn [d_name eid]. rewrite Hnj. repeat split.
        intros r Hr. unfold c09_decl_refs in Hr. cbn [d_kind d_name d_members d_variants flat_map app] in Hr.
        apply in_flat_map in Hr as (v & Hv & Hr). apply in_map_iff in Hv as ([[vd vc] vw] & <- & _). cbn in Hr. destruct Hr.
      - c09_bind Hd dE s4 Ea. c09_ret Hd. exists dE. split; [reflexivity|].
        unfold py_algebraic_of in Ea. c09_bind Ea u1 sa1 E1. c09_bind Ea u2 sa2 E2. cbv zeta in Ea. c09_bind Ea u3 sa3 E3.
        c09_bind Ea vs sa4 Ev. c09_bind Ea u4 sa5 E4. c09_ret Ea.
        cbn [py_obs eid]. intros d [<-|[<-|[]]]; [left; reflexivity|right].
        cbn [d_name]. rewrite Hnj. repeat split.
        intros r Hr. unfold c09_decl_refs in Hr. cbn [d_kind d_name d_members d_variants flat_map app] in Hr.
        apply in_flat_map in Hr as (vd & Hvd & Hr). apply in_map_iff in Hvd as (pv & <- & Hpv).
        apply c09_mmapM_Forall2 in Ev.
        destruct (c09_Forall2_in_r _ _ _ _ Ev Hpv) as (v & Hv & sc & sd & Ev').
        destruct v as [vsh|t vsh|fs vsh]; cbn [py_variant_of] in Ev'.
        + c09_bind Ev' u5 se E5. c09_ret Ev'. cbn in Hr. destruct Hr.
        + c09_bind Ev' ty se Et. c09_bind Ev' u5 sf E5. c09_ret Ev'. cbn [py_obs_variant vd_parent vd_payload pyv_content app egenerics] in Hr, Et.
          eapply (pyl_refs {| c9t_owner := eid sh; c9t_generics := egenerics sh; c9t_pos := C9Payload; c9t_type := t |});
            [exact (c09_tp_tuple pd' (EAlgebraic tag content sh) t vsh He Hv)| |exact Hr].
          exact (py_texp_names cfg _ _ _ _ _ Et).
        + c09_bind Ev' u5 se E5. c09_ret Ev'. cbn [py_obs_variant vd_parent vd_payload pyv_content app map] in Hr. destruct Hr as [<-|[]].
          eapply C9L_inner with (e := c09_ent_inner (EAlgebraic tag content sh) vsh); cbn [c9_in c9_pos c9_name]; try reflexivity.
          exact (c09_in_inner pd' (EAlgebraic tag content sh) fs vsh He Hv). }
    destruct Hself as (dE & -> & HselfE).
    intros o Ho. rewrite flat_map_app, in_app_iff in Ho. cbn [flat_map] in Ho. rewrite app_nil_r in Ho. destruct Ho as [Ho|Ho].
    + apply in_flat_map in Ho as (d0 & Hd0 & Ho). destruct (Hanon d0 Hd0) as (fs & vsh & sa & sb & Hv & Ec).
      destruct (pyl_class_shape _ d0 sa sb (fun f => {| c9t_owner := eid (enum_shared e); c9t_generics := egenerics (enum_shared e); c9t_pos := C9Field; c9t_type := fty f |}) Ec)
        as (d1 & Hobs & A & B & C).
      { intros f Hf. cbn [anon_struct sfields] in Hf. split; [exact (c09_tp_anon pd' e fs vsh f He Hv Hf)|]. repeat split. }
      rewrite Hobs in Ho. destruct Ho as [<-|[]]. split; [|exact C].
      intros _. exists (c09_ent_inner e vsh). split; [exact (c09_in_inner pd' e fs vsh He Hv)|]. split; [apply pyl_defines|]. rewrite A. reflexivity.
    + destruct (HselfE o Ho) as [K|(A & B & C)]; [exact (c9l_decl_ok_helper Python [] pd' o K)|].
      split; [|exact C]. intros _. exists j. split; [exact Hj|]. split; [apply pyl_defines|exact A].
  - (* const: not a definition *)
    c09_bind Hd ty s3 E. c09_ret Hd.
    cbn [flat_map py_obs app]. intros o [<-|[]]. split; [cbn; discriminate|].
    intros r Hr. unfold c09_decl_refs in Hr. cbn [d_kind d_name d_type] in Hr.
    eapply (pyl_refs {| c9t_owner := cid c; c9t_generics := []; c9t_pos := C9Const; c9t_type := ctype c |}); [exact (c09_tp_const pd' c Hc)| |exact Hr].
    exact (py_texp_names cfg _ _ _ _ _ E).
Qed.

(* the declarations of one folder-mode file, from any state *)
Theorem pyl_decls st ds st' : py_multi_decls uc cfg st pd' = Ok (ds, st') -> forall o, In o (flat_map py_obs ds) -> decl_ok o.
Proof.
  unfold py_multi_decls. intros H.
  destruct (topsort (items_of pd')) as [items| |] eqn:Et; cbn [bind] in H; try discriminate.
  destruct (mmapM (py_decl_of uc cfg) items st) as [[dss st1]| |] eqn:Em; try discriminate. injection H as <- <-.
  pose proof (c09_topsort_in' _ _ Et) as Hperm. apply c09_mmapM_Forall2 in Em.
  intros o Ho. apply in_flat_map in Ho as (d & Hd & Ho). apply in_concat in Hd as (dsi & Hdsi & Hd).
  destruct (c09_Forall2_in_r _ _ _ _ Em Hdsi) as (it & Hit & s1 & s2 & E).
  apply Hperm in Hit. apply (pyl_item it dsi s1 s2 Hit E). apply in_flat_map. eauto.
Qed.
End PYL.

(* the file of crate b in a folder-mode run, whatever state the Python value is in when the crate is reached *)
Theorem c9m_py_file (uc : unicode) (cfg : py_config) (ho : list imported -> list imported) (l : list (str * parsed)) :
  oracle_ok ho -> c9m_ids_wf l = true ->
  forall b pd', In (b, pd') (multi_crates ho l) ->
  forall st text st', py_generate_multi uc cfg st pd' = Ok (text, st') ->
  exists ds,
    py_multi_decls uc cfg st pd' = Ok (ds, st') /\
    text = py_begin_file cfg ++ py_write_all_imports st' ++ py_write_custom_translations st' ++ List.concat (map py_render_decl ds) /\
    Forall (fun d => (c09_is_def d = true -> c9m_ldef_ok Python l b [] (d_name d)) /\
                     (forall r, In r (c09_decl_refs Python d) -> c9m_lref_ok Python l b [] r)) (flat_map py_obs ds) /\
    good_C09_multi Python [] l b (c9m_observe_decls Python (flat_map py_obs ds)) = true.
Proof.
  intros Hho Hwf b pd' Hin st text st' Hg. apply py_multi_layout in Hg as (ds & Ed & Et).
  exists ds. split; [exact Ed|]. split; [exact Et|].
  pose proof (pyl_decls uc cfg pd' st ds st' Ed) as Hall. split.
  - exact (c9l_forall_judged Python [] ho l b pd' _ Hho Hwf Hin Hall).
  - exact (c9l_decls_good Python [] ho l b pd' _ Hho Hwf Hin Hall).
Qed.
