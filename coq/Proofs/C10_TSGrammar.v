(* C10, grammar half for TypeScript, part 3: the LAYOUT layer of Model/Lang/TypeScript.v produces text that
   tokenises to declarations of the grammar.
     - [TyText t]: the text t is an (open) fragment whose tokens are a union type of the grammar; closed under
       the type formers of [ts_show] (names, type application, T[], tuples, Record<K, V>) and under the
       [ | null], [ | undefined] suffixes;
     - [ts_comments_cfrag]: a doc comment is a closed fragment without tokens;
     - members, object bodies, the five declaration forms: [ts_render_decl_gram];
     - header and ReviverFunc / ReplacerFunc trailer. *)
From Coq Require Import List Bool Lia ZifyBool ZifyN NArith String.
From TS Require Import Model.Str Model.Outcome Model.Unicode Model.Types Model.Parse Model.Lang.Common Model.Lang.Decl Model.Lang.TypeScript.
From TS Require Import Spec.C10Spec Spec.C10TsGrammar Proofs.C10_TSGrammarTok Proofs.C10_TSGrammarParse.
From TS Require Proofs.C10Lex Proofs.C10_TS.
Import ListNotations.
Local Open Scope N_scope.
Local Notation length := List.length (only parsing).

Ltac lit_cfrag := apply cfrag_compute; vm_compute; reflexivity.
Ltac lit_frag := apply frag_compute; vm_compute; reflexivity.

(* ------------------------------------------------------------------ names *)
Lemma ident_ts_ident s : c10_ident_ok s = true -> c10_ts_ident_ok s = true.
Proof.
  destruct s as [|c r]; [discriminate|]. unfold c10_ident_ok, c10_ts_ident_ok. rewrite !andb_true_iff. intros [Hc Hr]. split.
  - unfold c10_ident_start, c10_ts_id_start in *. lia.
  - revert Hr. apply Proofs.C10Lex.forallb_impl. intros x Hx.
    unfold c10_ident_char, c10_ts_id_char, c10_ts_id_start in *. lia.
Qed.

(* ------------------------------------------------------------------ type expressions *)
Definition TyText (t : str) : Prop := exists tx, Frag t tx /\ Gr SUn tx.

Lemma tytext_ident n : c10_ts_ident_ok n = true -> TyText n.
Proof. intros H. exists [KIdent n]. split; [apply frag_ident, H|apply gr_prim_un, G_ident]. Qed.

Lemma tytext_arr t : TyText t -> TyText (t ++ lit "[]").
Proof.
  intros (tx & Hf & Hg). exists (tx ++ [KP 91; KP 93]). split; [|apply gr_un_arr, Hg].
  apply cfrag_frag. apply frag_cfrag_app; [exact Hf|lit_cfrag|reflexivity].
Qed.

Lemma tytext_or t w : c10_ts_ident_ok w = true -> TyText t -> TyText (t ++ lit " | " ++ w).
Proof.
  intros Hw (tx & Hf & Hg). exists (tx ++ [KP 124] ++ [KIdent w]). split.
  - apply frag_frag_app; [exact Hf| |reflexivity]. apply cfrag_frag_app; [lit_cfrag|apply frag_ident, Hw].
  - apply gr_un_app; [exact Hg|apply gr_prim_un, G_ident].
Qed.
Lemma tytext_or_null t : TyText t -> TyText (t ++ lit " | null").
Proof. apply (tytext_or t (lit "null")). reflexivity. Qed.
Lemma tytext_or_undefined t : TyText t -> TyText (t ++ lit " | undefined").
Proof. apply (tytext_or t (lit "undefined")). reflexivity. Qed.

(* comma-separated lists *)
Lemma tylist_text l : l <> [] -> Forall TyText l -> exists tl, Frag (join (lit ", ") l) tl /\ Gr STyList tl.
Proof.
  induction l as [|x r IH]; [congruence|]. intros _ H. inversion H as [|x0 r0 (tx & Hf & Hg) Hr]; subst.
  destruct r as [|y r].
  - exists tx. split; [exact Hf|apply G_tl1, G_ty, Hg].
  - destruct (IH ltac:(discriminate) Hr) as (tl & Hfl & Hgl). exists (tx ++ [KP 44] ++ tl). split.
    + change (join (lit ", ") (x :: y :: r)) with (x ++ lit ", " ++ join (lit ", ") (y :: r)).
      apply frag_frag_app; [exact Hf| |reflexivity]. apply cfrag_frag_app; [lit_cfrag|exact Hfl].
    + apply G_tl; [apply G_ty, Hg|exact Hgl].
Qed.

Lemma tytext_app n args : c10_ts_ident_ok n = true -> args <> [] -> Forall TyText args ->
  TyText (n ++ lit "<" ++ join (lit ", ") args ++ lit ">").
Proof.
  intros Hn Hne Ha. destruct (tylist_text args Hne Ha) as (tl & Hfl & Hgl).
  exists ([KIdent n] ++ [KP 60] ++ tl ++ [KP 62]). split.
  - apply frag_frag_app; [apply frag_ident, Hn| |reflexivity]. apply cfrag_frag_app; [lit_cfrag|].
    apply cfrag_frag. apply frag_cfrag_app; [exact Hfl|lit_cfrag|reflexivity].
  - apply gr_prim_un. exact (G_app n tl Hgl).
Qed.

Lemma tytext_tuple es : Forall TyText es -> TyText (lit "[" ++ join (lit ", ") es ++ lit "]").
Proof.
  intros Ha. destruct es as [|e r].
  - exists [KP 91; KP 93]. split; [lit_frag|apply gr_prim_un, G_tuple0].
  - destruct (tylist_text (e :: r) ltac:(discriminate) Ha) as (tl & Hfl & Hgl).
    exists ([KP 91] ++ tl ++ [KP 93]). split.
    + apply cfrag_frag_app; [lit_cfrag|]. apply cfrag_frag. apply frag_cfrag_app; [exact Hfl|lit_cfrag|reflexivity].
    + apply gr_prim_un. exact (G_tuple tl Hgl).
Qed.

Lemma tytext_record k v : TyText k -> TyText v -> TyText (lit "Record<" ++ k ++ lit ", " ++ v ++ lit ">").
Proof.
  intros (tk & Hfk & Hgk) (tv & Hfv & Hgv). exists ([KIdent (lit "Record"); KP 60] ++ tk ++ [KP 44] ++ tv ++ [KP 62]). split.
  - apply cfrag_frag_app; [lit_cfrag|]. apply frag_frag_app; [exact Hfk| |reflexivity].
    apply cfrag_frag_app; [lit_cfrag|]. apply cfrag_frag. apply frag_cfrag_app; [exact Hfv|lit_cfrag|reflexivity].
  - apply gr_prim_un. change ([KIdent (lit "Record"); KP 60] ++ tk ++ [KP 44] ++ tv ++ [KP 62])
      with (KIdent (lit "Record") :: KP 60 :: tk ++ [KP 44] ++ tv ++ [KP 62]).
    replace (tk ++ [KP 44] ++ tv ++ [KP 62]) with ((tk ++ KP 44 :: tv) ++ [KP 62]) by (rewrite <- app_assoc; reflexivity).
    apply G_app. apply G_tl; [apply G_ty, Hgk|apply G_tl1, G_ty, Hgv].
Qed.

(* a type tree all of whose names are identifiers and whose verbatim leaves are types of the grammar *)
Inductive c10_tsg_texp : texp -> Prop :=
| TG_name n args : c10_ts_ident_ok n = true -> Forall c10_tsg_texp args -> c10_tsg_texp (XName n args)
| TG_seq e : c10_tsg_texp e -> c10_tsg_texp (XSeq e)
| TG_fixed es : Forall c10_tsg_texp es -> c10_tsg_texp (XFixed es)
| TG_map k v : c10_tsg_texp k -> c10_tsg_texp v -> c10_tsg_texp (XMap k v)
| TG_opt e : c10_tsg_texp e -> c10_tsg_texp (XOpt e)
| TG_raw t : TyText t -> c10_tsg_texp (XRaw t).

Lemma ts_show_tytext x : c10_tsg_texp x -> TyText (ts_show x).
Proof.
  induction x as [n args IH | e IH | es IH | k v IHk IHv | e IH | t] using Proofs.C10Lex.texp_ind'; intros H; inversion H; subst.
  - assert (Ha : Forall TyText (map ts_show args)).
    { apply Forall_map. rewrite Forall_forall in *. intros a Ha. apply IH; auto. }
    destruct args as [|a l]; [apply tytext_ident; assumption|].
    change (ts_show (XName n (a :: l))) with (n ++ lit "<" ++ join (lit ", ") (map ts_show (a :: l)) ++ lit ">").
    apply tytext_app; [assumption|discriminate|exact Ha].
  - change (ts_show (XSeq e)) with (ts_show e ++ lit "[]"). apply tytext_arr. auto.
  - change (ts_show (XFixed es)) with (lit "[" ++ join (lit ", ") (map ts_show es) ++ lit "]"). apply tytext_tuple.
    apply Forall_map. rewrite Forall_forall in *. intros a Ha. apply IH; auto.
  - change (ts_show (XMap k v)) with (lit "Record<" ++ ts_show k ++ lit ", " ++ ts_show v ++ lit ">"). apply tytext_record; auto.
  - change (ts_show (XOpt e)) with (ts_show e). auto.
  - assumption.
Qed.

(* ------------------------------------------------------------------ doc comments *)
(* a piece of comment text the scanner of block comments walks through, whatever follows *)
Definition PassAny (x : str) : Prop := forall rest, c10_skip_block (x ++ rest) = c10_skip_block rest.

Lemma pass_nil : PassAny [].
Proof. intros rest. reflexivity. Qed.
Lemma pass_app x y : PassAny x -> PassAny y -> PassAny (x ++ y).
Proof. intros Hx Hy rest. rewrite <- app_assoc, Hx, Hy. reflexivity. Qed.

Lemma pass_gnss x : gnss x = true -> last x 0 <> 42 -> PassAny x.
Proof.
  intros Hx Hl rest. induction x as [|a r IH]; [reflexivity|]. apply gnss_cons in Hx as [Hx Ha]. cbn [app c10_skip_block].
  destruct r as [|d r].
  - cbn [last] in Hl. cbn [app]. replace (a =? 42) with false by lia. reflexivity.
  - rewrite (IH Hx Hl). cbn [app]. destruct (a =? 42) eqn:E; [|reflexivity]. specialize (Ha ltac:(lia)). cbn in Ha.
    replace (d =? 47) with false by lia. reflexivity.
Qed.

Ltac lit_pass := apply pass_gnss; [vm_compute; reflexivity|vm_compute; discriminate].

Lemma pass_tabs n : PassAny (tabs n).
Proof. unfold tabs. induction n as [|n IH]; [apply pass_nil|]. cbn [repeat_str]. apply pass_app; [lit_pass|exact IH]. Qed.

Lemma doc_gnss c : c10_doc_ok c = true -> gnss c = true.
Proof. intros H. exact (Proofs.C10_TS.doc_nss c H). Qed.

(* a safe doc line followed by a blank or a line end *)
Lemma pass_doc c x : c10_doc_ok c = true -> x <> 42 -> x <> 47 -> PassAny (c ++ [x]).
Proof.
  intros H H1 H2. apply pass_gnss.
  - apply gnss_app; [apply doc_gnss, H| |exact H2]. unfold gnss. cbn [contains_sub starts_with]. rewrite andb_false_r. reflexivity.
  - rewrite last_last. exact H1.
Qed.

Lemma cfrag_comment_pass body : PassAny body -> CFrag (47 :: 42 :: body ++ [42; 47]) [].
Proof.
  intros H b tb Hb. change ([] ++ tb) with (otl None ++ tb). apply (tk_step _ None b); [|exact Hb].
  change ((47 :: 42 :: body ++ [42; 47]) ++ b) with (47 :: 42 :: (body ++ [42; 47]) ++ b). rewrite <- app_assoc.
  cbn [c10_next tl]. change (c10_ts_space 47) with false. cbv beta iota. change ((47 =? 47) && (42 =? 42)) with true. cbv beta iota.
  rewrite H. reflexivity.
Qed.

Lemma tabs_blank n : forallb c10_ts_space (tabs n) = true.
Proof. unfold tabs. induction n as [|n IH]; [reflexivity|]. cbn [repeat_str app forallb]. exact IH. Qed.

Lemma pass_doc_lines indent l : l <> [] -> forallb c10_doc_ok l = true ->
  PassAny (join (nl ++ tabs indent ++ lit " * ") l ++ nl).
Proof.
  induction l as [|c r IH]; [congruence|]. intros _ H. cbn [forallb] in H. apply andb_true_iff in H as [Hc Hr].
  destruct r as [|c2 r].
  - cbn [join]. apply pass_doc; [exact Hc|discriminate|discriminate].
  - change (join (nl ++ tabs indent ++ lit " * ") (c :: c2 :: r))
      with (c ++ (nl ++ tabs indent ++ lit " * ") ++ join (nl ++ tabs indent ++ lit " * ") (c2 :: r)).
    rewrite <- !app_assoc. rewrite (app_assoc c nl).
    apply pass_app; [apply pass_doc; [exact Hc|discriminate|discriminate]|]. apply pass_app; [apply pass_tabs|].
    apply pass_app; [lit_pass|]. apply IH; [discriminate|exact Hr].
Qed.

Lemma ts_comments_cfrag indent docs : forallb c10_doc_ok docs = true -> CFrag (ts_comments indent docs) [].
Proof.
  intros H. unfold ts_comments. rewrite (Proofs.C10_TS.ts_escape_doc_ok docs H).
  destruct docs as [|c [|c2 r]]; cbn [ts_comments_raw].
  - apply cfrag_nil.
  - cbn [forallb] in H. rewrite andb_true_r in H.
    change (@nil c10_tok) with (@nil c10_tok ++ [] ++ []). apply cfrag_app; [apply cfrag_blank, tabs_blank|].
    replace (lit "/** " ++ c ++ lit " */" ++ nl) with ((47 :: 42 :: (lit "* " ++ c ++ [32]) ++ [42; 47]) ++ nl).
    2:{ cbn [lit app]. repeat (rewrite <- ?app_assoc; cbn [app]). reflexivity. }
    apply cfrag_app; [|lit_cfrag]. apply cfrag_comment_pass. apply pass_app; [lit_pass|].
    apply pass_doc; [exact H|discriminate|discriminate].
  - set (J := join _ _).
    change (@nil c10_tok) with (@nil c10_tok ++ [] ++ []). apply cfrag_app; [apply cfrag_blank, tabs_blank|].
    replace (lit "/**" ++ nl ++ tabs indent ++ lit " * " ++ J ++ nl ++ tabs indent ++ lit " */" ++ nl)
      with ((47 :: 42 :: ([42; 10] ++ tabs indent ++ lit " * " ++ (J ++ nl) ++ tabs indent ++ [32]) ++ [42; 47]) ++ nl).
    2:{ cbn [lit app]. repeat (rewrite <- ?app_assoc; cbn [app]). reflexivity. }
    apply cfrag_app; [|lit_cfrag]. apply cfrag_comment_pass.
    apply pass_app; [lit_pass|]. apply pass_app; [apply pass_tabs|]. apply pass_app; [lit_pass|].
    apply pass_app; [apply pass_doc_lines; [discriminate|exact H]|]. apply pass_app; [apply pass_tabs|lit_pass].
Qed.

(* ------------------------------------------------------------------ property keys *)
(* a key with a dash is printed as a string literal ({:?}: key characters need no escape); any other key must be an identifier *)
Definition c10_tsg_key_ok (k : str) : bool :=
  if contains_char ch_dash k then forallb c10_key_char k else c10_ts_ident_ok k.

Lemma escape_key_char c : c10_key_char c = true -> escape_debug_char c = [c] /\ c10_plain_char c = true.
Proof.
  intros H. unfold c10_key_char, is_aalpha, is_alower, is_aupper, is_adigit, ch_us, ch_dash in H.
  unfold escape_debug_char, c10_plain_char, ch_dq, ch_bs, ch_nl, ch_cr, ch_tab, ch_sq.
  replace (c =? 34) with false by lia. replace (c =? 92) with false by lia. replace (c =? 10) with false by lia.
  replace (c =? 13) with false by lia. replace (c =? 9) with false by lia. replace (c =? 0) with false by lia.
  replace (c =? 39) with false by lia. replace ((c <? 32) || (c =? 127)) with false by lia. split; reflexivity.
Qed.

Lemma debug_key k : forallb c10_key_char k = true -> debug_str k = ch_dq :: k ++ [ch_dq] /\ forallb c10_plain_char k = true.
Proof.
  intros H. unfold debug_str. cbn [app].
  assert (G : flat_map escape_debug_char k = k /\ forallb c10_plain_char k = true).
  { induction k as [|c r IH]; [split; reflexivity|]. cbn [forallb] in H. apply andb_true_iff in H as [Hc Hr].
    destruct (escape_key_char c Hc) as [E1 E2]. destruct (IH Hr) as [I1 I2]. cbn [flat_map forallb]. rewrite E1, E2, I1, I2. split; reflexivity. }
  destruct G as [-> G2]. split; [reflexivity|exact G2].
Qed.

Lemma cfrag_debug_key k : forallb c10_key_char k = true -> CFrag (debug_str k) [KStr].
Proof. intros H. destruct (debug_key k H) as [-> Hp]. apply cfrag_quoted, Hp. Qed.

Lemma key_frag k : c10_tsg_key_ok k = true -> exists t, is_key t = true /\ Frag (typescript_property_aware_rename k) [t].
Proof.
  unfold c10_tsg_key_ok, typescript_property_aware_rename. destruct (contains_char ch_dash k); intros H.
  - exists KStr. split; [reflexivity|]. apply cfrag_frag, cfrag_debug_key, H.
  - exists (KIdent k). split; [reflexivity|]. apply frag_ident, H.
Qed.

Lemma cfrag_if (c : bool) a ta : CFrag a ta -> CFrag (if c then a else []) (if c then ta else []).
Proof. destruct c; [auto|intros _; apply cfrag_nil]. Qed.

Lemma tytext_if (c : bool) t w : c10_ts_ident_ok w = true -> TyText t -> TyText (t ++ (if c then lit " | " ++ w else [])).
Proof. intros Hw H. destruct c; [apply tytext_or; assumption|rewrite app_nil_r; exact H]. Qed.

(* ------------------------------------------------------------------ members and object bodies *)
Definition c10_tsg_member_ok (m : ts_member) : Prop :=
  forallb c10_doc_ok (tm_docs m) = true /\ c10_tsg_key_ok (tm_key m) = true /\ c10_tsg_texp (tm_type m).

Lemma L_tab : CFrag [ch_tab] []. Proof. lit_cfrag. Qed.
Lemma L_readonly : CFrag (lit "readonly ") [kw "readonly"]. Proof. lit_cfrag. Qed.
Lemma L_quest : CFrag (lit "?") [KP 63]. Proof. lit_cfrag. Qed.
Lemma L_colon : CFrag (lit ": ") [KP 58]. Proof. lit_cfrag. Qed.
Lemma L_semi_nl : CFrag (lit ";" ++ nl) [KP 59]. Proof. lit_cfrag. Qed.

Lemma member_text m : c10_tsg_member_ok m -> exists tm, CFrag (ts_render_member m) (tm ++ [KP 59]) /\ Gr SMem tm.
Proof.
  intros (Hd & Hk & Ht). destruct (key_frag _ Hk) as (kt & Hkt & Hkf).
  destruct (tytext_if (tm_null_union m) _ (lit "null") eq_refl (ts_show_tytext _ Ht)) as (tx & Hf & Hg).
  exists ((if tm_readonly m then [kw "readonly"] else []) ++ kt :: (if tm_optional m then [KP 63] else []) ++ KP 58 :: tx).
  split; [|apply G_mem; [exact Hkt|apply G_ty, Hg]].
  intros b tb Hb. unfold ts_render_member. rewrite <- !app_assoc. cbn [app]. rewrite <- !app_assoc. cbn [app].
  apply (ts_comments_cfrag 1 _ Hd). apply L_tab. apply (cfrag_if (tm_readonly m) _ _ L_readonly).
  change (kt :: ?x) with ([kt] ++ x). apply Hkf; [destruct (tm_optional m); reflexivity|].
  apply (cfrag_if (tm_optional m) _ _ L_quest). change (KP 58 :: ?x) with ([KP 58] ++ x). apply L_colon.
  rewrite (app_assoc (ts_show (tm_type m))). apply Hf; [reflexivity|]. change (lit ";" ++ nl ++ b) with ((lit ";" ++ nl) ++ b).
  apply L_semi_nl, Hb.
Qed.

Lemma L_rbrace : CFrag (lit "}") [KP 125]. Proof. lit_cfrag. Qed.

(* the members of an interface / an anonymous struct, up to and including the closing brace *)
Lemma members_text ms : Forall c10_tsg_member_ok ms ->
  exists body, CFrag (List.concat (map ts_render_member ms) ++ lit "}") body /\ Gr SObj body.
Proof.
  induction 1 as [|m ms Hm _ (body & Hfb & Hgb)].
  - exists [KP 125]. split; [exact L_rbrace|apply G_obj_end].
  - destruct (member_text m Hm) as (tm & Hfm & Hgm). exists (tm ++ KP 59 :: body). split.
    + cbn [map List.concat]. rewrite <- app_assoc. replace (tm ++ KP 59 :: body) with ((tm ++ [KP 59]) ++ body) by (rewrite <- app_assoc; reflexivity).
      apply cfrag_app; assumption.
    + apply G_obj_cons; [exact Hgm|left; reflexivity|exact Hgb].
Qed.

(* ------------------------------------------------------------------ names with generic parameters *)
Lemma gens_frag gs : gs <> [] -> forallb c10_ts_ident_ok gs = true -> CFrag (join (lit ", ") gs ++ lit ">") (gens_body gs).
Proof.
  induction gs as [|g r IH]; [congruence|]. intros _ H. cbn [forallb] in H. apply andb_true_iff in H as [Hg Hr].
  destruct r as [|g2 r].
  - cbn [join gens_body]. change [KIdent g; KP 62] with ([KIdent g] ++ [KP 62]).
    apply frag_cfrag_app; [apply frag_ident, Hg|lit_cfrag|reflexivity].
  - change (join (lit ", ") (g :: g2 :: r)) with (g ++ lit ", " ++ join (lit ", ") (g2 :: r)). rewrite <- !app_assoc.
    change (gens_body (g :: g2 :: r)) with ([KIdent g] ++ [KP 44] ++ gens_body (g2 :: r)).
    apply frag_cfrag_app; [apply frag_ident, Hg| |reflexivity]. apply cfrag_app; [lit_cfrag|]. apply IH; [discriminate|exact Hr].
Qed.

(* name<G, H> followed by something that starts with a separator *)
Lemma name_gens_tk name gs b tb : c10_ts_ident_ok name = true -> forallb c10_ts_ident_ok gs = true -> ssep b = true -> Tk b tb ->
  Tk (name ++ generics_suffix gs ++ b) (KIdent name :: gens_toks gs ++ tb).
Proof.
  intros Hn Hg Hs Hb. change (KIdent name :: ?x) with ([KIdent name] ++ x). destruct gs as [|g r].
  - cbn [generics_suffix gens_toks app]. apply (frag_ident name Hn); [destruct b; [discriminate|exact Hs]|exact Hb].
  - unfold generics_suffix, gens_toks. rewrite <- !app_assoc. apply (frag_ident name Hn); [reflexivity|].
    change (KP 60 :: ?x) with ([KP 60] ++ x). assert (L : CFrag (lit "<") [KP 60]) by lit_cfrag. apply L.
    rewrite app_assoc. apply (gens_frag (g :: r)); [discriminate|exact Hg|exact Hb].
Qed.

(* ------------------------------------------------------------------ declarations *)
Definition c10_tsg_num (v : str) : Prop :=
  exists (neg : bool) d, v = (if neg then [45] else []) ++ d /\ d <> [] /\ forallb is_adigit d = true.

Definition c10_tsg_variant_ok (v : ts_variant) : Prop :=
  match v with
  | TVUnit docs wire => forallb c10_doc_ok docs = true /\ forallb c10_key_char wire = true
  | TVTuple docs wire ty _ _ => forallb c10_doc_ok docs = true /\ forallb c10_key_char wire = true /\ c10_tsg_texp ty
  | TVStruct docs wire ms => forallb c10_doc_ok docs = true /\ forallb c10_key_char wire = true /\ Forall c10_tsg_member_ok ms
  end.

Definition c10_tsg_case_ok (v : list str * str * str) : Prop :=
  let '(vdocs, case, wire) := v in
  forallb c10_doc_ok vdocs = true /\ c10_ts_ident_ok case = true /\ forallb c10_key_char wire = true.

(* the declarations whose text the recogniser accepts: names and generic parameters are identifiers, doc lines safe,
   keys identifiers or dashed, wire names key-shaped, type trees in the grammar, a union has at least one variant
   and identifier-shaped tag / content keys, a constant's value is a decimal number *)
Definition c10_tsg_decl_ok (d : ts_decl) : Prop :=
  match d with
  | TSInterface docs name gs ms =>
    forallb c10_doc_ok docs = true /\ c10_ts_ident_ok name = true /\ forallb c10_ts_ident_ok gs = true /\ Forall c10_tsg_member_ok ms
  | TSAlias docs name gs ty _ _ =>
    forallb c10_doc_ok docs = true /\ c10_ts_ident_ok name = true /\ forallb c10_ts_ident_ok gs = true /\ c10_tsg_texp ty
  | TSConst name ty value => c10_ts_ident_ok name = true /\ c10_tsg_texp ty /\ c10_tsg_num value
  | TSUnitEnum docs name gs vs =>
    forallb c10_doc_ok docs = true /\ c10_ts_ident_ok name = true /\ forallb c10_ts_ident_ok gs = true /\ Forall c10_tsg_case_ok vs
  | TSUnion docs name gs tag content vs =>
    forallb c10_doc_ok docs = true /\ c10_ts_ident_ok name = true /\ forallb c10_ts_ident_ok gs = true /\
    c10_ts_ident_ok tag = true /\ c10_ts_ident_ok content = true /\ vs <> [] /\ Forall c10_tsg_variant_ok vs
  end.

Lemma L_nl : CFrag nl []. Proof. lit_cfrag. Qed.
Lemma L_eq : CFrag (lit " = ") [KP 61]. Proof. lit_cfrag. Qed.
Lemma L_semi : CFrag (lit ";") [KP 59]. Proof. lit_cfrag. Qed.
Lemma L_comma : CFrag (lit ",") [KP 44]. Proof. lit_cfrag. Qed.
Lemma L_comma_sp : CFrag (lit ", ") [KP 44]. Proof. lit_cfrag. Qed.
Lemma L_lbrace : CFrag (lit " {") [KP 123]. Proof. lit_cfrag. Qed.
Lemma L_exp_interface : CFrag (lit "export interface ") [kw "export"; kw "interface"]. Proof. lit_cfrag. Qed.
Lemma L_exp_type : CFrag (lit "export type ") [kw "export"; kw "type"]. Proof. lit_cfrag. Qed.
Lemma L_exp_enum : CFrag (lit "export enum ") [kw "export"; kw "enum"]. Proof. lit_cfrag. Qed.
Lemma L_exp_const : CFrag (lit "export const ") [kw "export"; kw "const"]. Proof. lit_cfrag. Qed.
Lemma L_variant_open : CFrag (lit "| { ") [KP 124; KP 123]. Proof. lit_cfrag. Qed.
Lemma L_unit_tail : CFrag (lit "?: undefined }") [KP 63; KP 58; KIdent (lit "undefined"); KP 125]. Proof. lit_cfrag. Qed.
Lemma L_sp_rbrace : CFrag (lit " }") [KP 125]. Proof. lit_cfrag. Qed.
Lemma L_colon_lbrace : CFrag (lit ": {") [KP 58; KP 123]. Proof. lit_cfrag. Qed.
Lemma L_minus : CFrag [45] [KP 45]. Proof. lit_cfrag. Qed.

Lemma gr_prim_post p : Gr SPrim p -> Gr SPost p.
Proof. intros H. rewrite <- (app_nil_r p). exact (G_post p 0 H). Qed.
Lemma gr_str_ty : Gr STy [KStr].
Proof. apply G_ty, gr_prim_un, G_str. Qed.

Lemma num_frag v : c10_tsg_num v -> exists neg : bool, Frag v ((if neg then [KP 45] else []) ++ [KNum]).
Proof.
  intros (neg & d & -> & Hne & Hd). exists neg. apply cfrag_frag_app; [apply (cfrag_if neg _ _ L_minus)|apply frag_digits; assumption].
Qed.

(* one variant of a tagged union: [| { tag: "wire", content ... }] *)
Lemma variant_text tag content v : c10_ts_ident_ok tag = true -> c10_ts_ident_ok content = true -> c10_tsg_variant_ok v ->
  exists tv, CFrag (ts_render_variant tag content v) (KP 124 :: tv) /\ Gr SPost tv.
Proof.
  intros Htag Hcon Hv.
  pose proof (G_mem false false (KIdent tag) [KStr] eq_refl gr_str_ty) as Hm1. cbn [app] in Hm1.
  destruct v as [docs wire | docs wire ty opt nullu | docs wire ms]; cbn [c10_tsg_variant_ok] in Hv.
  - destruct Hv as (Hd & Hw).
    pose proof (G_mem false true (KIdent content) [KIdent (lit "undefined")] eq_refl (G_ty _ (gr_prim_un _ (G_ident _)))) as Hm2. cbn [app] in Hm2.
    exists (KP 123 :: [KIdent tag; KP 58; KStr] ++ KP 44 :: [KIdent content; KP 63; KP 58; KIdent (lit "undefined")] ++ [KP 125]). split.
    + intros b tb Hb. cbn [ts_render_variant]. rewrite <- !app_assoc. cbn [app].
      apply L_nl. apply (ts_comments_cfrag 1 _ Hd). apply L_tab. apply L_variant_open.
      change (KIdent tag :: ?x) with ([KIdent tag] ++ x). apply (frag_ident _ Htag); [reflexivity|]. apply L_colon.
      apply (cfrag_debug_key _ Hw). apply L_comma_sp.
      change (KIdent content :: ?x) with ([KIdent content] ++ x). apply (frag_ident _ Hcon); [reflexivity|]. apply L_unit_tail, Hb.
    + apply gr_prim_post, G_obj. apply G_obj_cons; [exact Hm1|right; reflexivity|]. apply G_obj_last, Hm2.
  - destruct Hv as (Hd & Hw & Hty).
    destruct (tytext_if nullu _ (lit "null") eq_refl (ts_show_tytext _ Hty)) as (tx & Hf & Hg).
    pose proof (G_mem false opt (KIdent content) tx eq_refl (G_ty _ Hg)) as Hm2. cbn [app] in Hm2.
    exists (KP 123 :: [KIdent tag; KP 58; KStr] ++ KP 44 :: (KIdent content :: (if opt then [KP 63] else []) ++ KP 58 :: tx) ++ [KP 125]). split.
    + intros b tb Hb. cbn [ts_render_variant]. repeat (rewrite <- !app_assoc; cbn [app]).
      apply L_nl. apply (ts_comments_cfrag 1 _ Hd). apply L_tab. apply L_variant_open.
      change (KIdent tag :: ?x) with ([KIdent tag] ++ x). apply (frag_ident _ Htag); [reflexivity|]. apply L_colon.
      apply (cfrag_debug_key _ Hw). apply L_comma_sp.
      change (KIdent content :: ?x) with ([KIdent content] ++ x). apply (frag_ident _ Hcon); [destruct opt; reflexivity|].
      apply (cfrag_if opt _ _ L_quest). change (KP 58 :: ?x) with ([KP 58] ++ x). apply L_colon.
      rewrite (app_assoc (ts_show ty)). apply Hf; [reflexivity|]. apply L_sp_rbrace, Hb.
    + apply gr_prim_post, G_obj. apply G_obj_cons; [exact Hm1|right; reflexivity|]. apply G_obj_last, Hm2.
  - destruct Hv as (Hd & Hw & Hms). destruct (members_text ms Hms) as (body & Hfb & Hgb).
    pose proof (G_mem false false (KIdent content) (KP 123 :: body) eq_refl (G_ty _ (gr_prim_un _ (G_obj _ Hgb)))) as Hm2. cbn [app] in Hm2.
    exists (KP 123 :: [KIdent tag; KP 58; KStr] ++ KP 44 :: (KIdent content :: KP 58 :: KP 123 :: body) ++ [KP 125]). split.
    + intros b tb Hb. cbn [ts_render_variant]. repeat (rewrite <- !app_assoc; cbn [app]).
      apply L_nl. apply (ts_comments_cfrag 1 _ Hd). apply L_tab. apply L_variant_open.
      change (KIdent tag :: ?x) with ([KIdent tag] ++ x). apply (frag_ident _ Htag); [reflexivity|]. apply L_colon.
      apply (cfrag_debug_key _ Hw). apply L_comma_sp.
      change (KIdent content :: ?x) with ([KIdent content] ++ x). apply (frag_ident _ Hcon); [reflexivity|]. apply L_colon_lbrace.
      apply L_nl. rewrite (app_assoc (List.concat _)). apply Hfb. apply L_rbrace, Hb.
    + apply gr_prim_post, G_obj. apply G_obj_cons; [exact Hm1|right; reflexivity|]. apply G_obj_last, Hm2.
Qed.

Lemma variants_text tag content vs : c10_ts_ident_ok tag = true -> c10_ts_ident_ok content = true -> vs <> [] ->
  Forall c10_tsg_variant_ok vs ->
  exists u, CFrag (List.concat (map (ts_render_variant tag content) vs)) (KP 124 :: u) /\ Gr SUn u.
Proof.
  intros Htag Hcon. induction vs as [|v r IH]; [congruence|]. intros _ H. inversion H as [|v0 r0 Hv Hr]; subst.
  destruct (variant_text tag content v Htag Hcon Hv) as (tv & Hfv & Hgv). destruct r as [|v2 r].
  - exists tv. split; [cbn [map List.concat]; rewrite app_nil_r; exact Hfv|apply G_un1, Hgv].
  - destruct (IH ltac:(discriminate) Hr) as (u & Hfu & Hgu). exists (tv ++ KP 124 :: u). split.
    + change (List.concat (map (ts_render_variant tag content) (v :: v2 :: r)))
        with (ts_render_variant tag content v ++ List.concat (map (ts_render_variant tag content) (v2 :: r))).
      change (KP 124 :: tv ++ KP 124 :: u) with ((KP 124 :: tv) ++ KP 124 :: u). apply cfrag_app; assumption.
    + apply G_un; assumption.
Qed.

Lemma cfrag5 a b1 b2 b3 b4 t : CFrag (a ++ b1 ++ b2 ++ b3 ++ b4) t ->
  forall b tb, Tk b tb -> Tk (a ++ b1 ++ b2 ++ b3 ++ b4 ++ b) (t ++ tb).
Proof. intros H b tb Hb. specialize (H b tb Hb). rewrite <- !app_assoc in H. exact H. Qed.

Definition case_name (v : list str * str * str) : str := let '(_, case, _) := v in case.

Lemma enum_cases_text vs : Forall c10_tsg_case_ok vs ->
  CFrag (List.concat (map (fun v : list str * str * str => let '(vdocs, case, wire) := v in
                             nl ++ ts_comments 1 vdocs ++ [ch_tab] ++ case ++ lit " = " ++ debug_str wire ++ lit ",") vs) ++
         nl ++ lit "}" ++ nl ++ nl) (enum_toks (map case_name vs)).
Proof.
  induction 1 as [|[[vdocs case] wire] vs (Hd & Hc & Hw) _ IH].
  - cbn [map List.concat app enum_toks]. lit_cfrag.
  - intros b tb Hb. cbn [map List.concat case_name enum_toks]. rewrite <- !app_assoc. cbn [app].
    apply L_nl. apply (ts_comments_cfrag 1 _ Hd). apply L_tab.
    change (KIdent case :: ?x) with ([KIdent case] ++ x). apply (frag_ident _ Hc); [reflexivity|]. apply L_eq.
    apply (cfrag_debug_key _ Hw). apply L_comma. apply (cfrag5 _ _ _ _ _ _ IH), Hb.
Qed.

Theorem ts_render_decl_gram d : c10_tsg_decl_ok d -> exists td, CFrag (ts_render_decl d) td /\ DeclToks td.
Proof.
  destruct d as [docs name gs ms | docs name gs ty undef nullu | name ty value | docs name gs vs | docs name gs tag content vs];
    cbn [c10_tsg_decl_ok].
  - intros (Hd & Hn & Hg & Hms). destruct (members_text ms Hms) as (body & Hfb & Hgb).
    exists (kw "export" :: kw "interface" :: KIdent name :: gens_toks gs ++ KP 123 :: body). split; [|split; [discriminate|]].
    + intros b tb Hb. cbn [ts_render_decl]. repeat (rewrite <- !app_assoc; cbn [app]).
      apply (ts_comments_cfrag 0 _ Hd). apply L_exp_interface. apply name_gens_tk; [exact Hn|exact Hg|reflexivity|].
      apply L_lbrace. apply L_nl. rewrite (app_assoc (List.concat _)). apply Hfb. apply L_nl. apply L_nl, Hb.
    + intros rest. cbn [app]. rewrite <- !app_assoc. cbn [app]. apply decl_interface, Hgb.
  - intros (Hd & Hn & Hg & Hty).
    destruct (tytext_if undef _ (lit "undefined") eq_refl (tytext_if nullu _ (lit "null") eq_refl (ts_show_tytext _ Hty))) as (tx & Hf & Hgx).
    exists (kw "export" :: kw "type" :: KIdent name :: gens_toks gs ++ KP 61 :: tx ++ [KP 59]). split; [|split; [discriminate|]].
    + intros b tb Hb. cbn [ts_render_decl]. repeat (rewrite <- !app_assoc; cbn [app]).
      apply (ts_comments_cfrag 0 _ Hd). apply L_exp_type. apply name_gens_tk; [exact Hn|exact Hg|reflexivity|].
      change (KP 61 :: ?x) with ([KP 61] ++ x). apply L_eq.
      rewrite (app_assoc (ts_show ty)), (app_assoc (ts_show ty ++ _)). apply Hf; [reflexivity|]. apply L_semi. apply L_nl. apply L_nl, Hb.
    + intros rest. cbn [app]. repeat (rewrite <- !app_assoc; cbn [app]). apply decl_alias, G_ty, Hgx.
  - intros (Hn & Hty & Hv). destruct (ts_show_tytext _ Hty) as (tx & Hf & Hgx). destruct (num_frag _ Hv) as (neg & Hfv).
    exists (kw "export" :: kw "const" :: KIdent name :: KP 58 :: tx ++ KP 61 :: (if neg then [KP 45] else []) ++ [KNum; KP 59]). split; [|split; [discriminate|]].
    + intros b tb Hb. cbn [ts_render_decl]. repeat (rewrite <- !app_assoc; cbn [app]).
      apply L_exp_const. change (KIdent name :: ?x) with ([KIdent name] ++ x). apply (frag_ident _ Hn); [reflexivity|].
      change (KP 58 :: ?x) with ([KP 58] ++ x). apply L_colon. apply Hf; [reflexivity|].
      change (KP 61 :: ?x) with ([KP 61] ++ x). apply L_eq.
      change ((if neg then [KP 45] else []) ++ KNum :: KP 59 :: tb) with ((if neg then [KP 45] else []) ++ [KNum] ++ KP 59 :: tb).
      rewrite (app_assoc (if neg then [KP 45] else [])). apply Hfv; [reflexivity|]. apply L_semi. apply L_nl, Hb.
    + intros rest. cbn [app]. repeat (rewrite <- !app_assoc; cbn [app]). apply decl_const, G_ty, Hgx.
  - intros (Hd & Hn & Hg & Hvs).
    exists (kw "export" :: kw "enum" :: KIdent name :: gens_toks gs ++ KP 123 :: enum_toks (map case_name vs)). split; [|split; [discriminate|]].
    + intros b tb Hb. cbn [ts_render_decl]. repeat (rewrite <- !app_assoc; cbn [app]).
      apply (ts_comments_cfrag 0 _ Hd). apply L_exp_enum. apply name_gens_tk; [exact Hn|exact Hg|reflexivity|].
      apply L_lbrace. apply (cfrag5 _ _ _ _ _ _ (enum_cases_text vs Hvs)), Hb.
    + intros rest. cbn [app]. rewrite <- !app_assoc. cbn [app]. apply decl_enum.
  - intros (Hd & Hn & Hg & Htag & Hcon & Hne & Hvs). destruct (variants_text tag content vs Htag Hcon Hne Hvs) as (u & Hfu & Hgu).
    exists (kw "export" :: kw "type" :: KIdent name :: gens_toks gs ++ KP 61 :: (KP 124 :: u) ++ [KP 59]). split; [|split; [discriminate|]].
    + intros b tb Hb. cbn [ts_render_decl]. repeat (rewrite <- !app_assoc; cbn [app]).
      apply (ts_comments_cfrag 0 _ Hd). apply L_exp_type. apply name_gens_tk; [exact Hn|exact Hg|reflexivity|].
      change (KP 61 :: KP 124 :: ?x) with ([KP 61] ++ KP 124 :: x). apply L_eq.
      change (KP 124 :: u ++ ?x) with ((KP 124 :: u) ++ x). apply Hfu. apply L_semi. apply L_nl. apply L_nl, Hb.
    + intros rest. cbn [app]. repeat (rewrite <- !app_assoc; cbn [app]).
      change (KP 124 :: u ++ KP 59 :: rest) with ((KP 124 :: u) ++ KP 59 :: rest). apply decl_alias, G_ty_bar, Hgu.
Qed.
