(* C10, grammar half for Go, part 1: the TOKENIZER of Spec/C10GoGrammar.v and the semicolon insertion.
     - [Tk s ts]: "s tokenises to the raw tokens ts (line ends as QNl) with every sufficient fuel";
     - [tk_frame]: the FRAME lemma - the raw tokens of a text do not depend on what follows it as soon as the junction is
       a token boundary ([glue]) and the text does not end inside a line comment ([lcok]);
     - [RFrag] / [RCFrag]: open / closed raw fragments; literal text by computation;
     - [semis_app]: semicolon insertion distributes over concatenation, given the flag the left part ends with;
     - [TkS fl s ts]: the token stream the parser sees (semicolons inserted, the end of the text counting as a line end);
       [Seg] / [CSeg]: open / closed fragments of that stream, with the flag "a line end here becomes a semicolon"
       before and after; the holes: identifiers, quoted keys, raw-string tags, numbers, comment lines, blanks. *)
From Coq Require Import List Bool Lia ZifyBool ZifyN NArith.
From TS Require Import Model.Str Spec.C10TsGrammar Spec.C10GoGrammar.
From TS Require Import Proofs.C10_TSGrammarTok.
From TS Require Proofs.C10Lex.
Import ListNotations.
Local Open Scope N_scope.
Local Notation length := List.length (only parsing).

Definition gotl (o : option c10_gtok) : list c10_gtok := match o with Some t => [t] | None => [] end.

Lemma go_tokens_unfold f s : c10_go_tokens (S f) s =
  match s with
  | [] => Some []
  | _ => match c10_go_next s with
         | None => None
         | Some (ot, r) => match c10_go_tokens f r with Some ts => Some (gotl ot ++ ts) | None => None end
         end
  end.
Proof.
  destruct s as [|c r]; [reflexivity|]. cbn [c10_go_tokens]. destruct (c10_go_next (c :: r)) as [[ot r']|]; [|reflexivity].
  destruct (c10_go_tokens f r'); [|reflexivity]. destruct ot; reflexivity.
Qed.

(* ------------------------------------------------------------------ the scanners: what they consume *)
Lemma go_skip_block_frame s : forall seen seen' r, c10_go_skip_block seen s = Some (seen', r) ->
  (exists p, s = p ++ r) /\ forall b, c10_go_skip_block seen (s ++ b) = Some (seen', r ++ b).
Proof.
  induction s as [|c s IH]; intros seen seen' r H; [discriminate|]. cbn [c10_go_skip_block] in H.
  destruct s as [|d s'].
  - rewrite andb_false_r in H. discriminate.
  - destruct ((c =? 42) && (d =? 47)) eqn:E.
    + injection H as <- <-. split; [exists [c; d]; reflexivity|]. intros b. cbn [c10_go_skip_block app]. rewrite E. reflexivity.
    + destruct (IH _ _ r H) as [[p Hp] Hb]. split; [exists (c :: p); rewrite Hp; reflexivity|].
      intros b. change ((c :: d :: s') ++ b) with (c :: (d :: s') ++ b). cbn [c10_go_skip_block].
      change ((d :: s') ++ b) with (d :: s' ++ b) at 1. cbv beta iota. rewrite E. apply Hb.
Qed.

Lemma go_skip_string_frame q s : forall st r, c10_go_skip_string q st s = Some r ->
  (exists p, p <> [] /\ s = p ++ r) /\ forall b, c10_go_skip_string q st (s ++ b) = Some (r ++ b).
Proof.
  induction s as [|c s IH]; intros st r H; [discriminate|].
  assert (Step : forall st', c10_go_skip_string q st' s = Some r ->
            (exists p, p <> [] /\ c :: s = p ++ r) /\ forall b, c10_go_skip_string q st' (s ++ b) = Some (r ++ b)).
  { intros st' H'. destruct (IH _ _ H') as [(p & _ & Hp) Hb]. split; [exists (c :: p); split; [discriminate|rewrite Hp; reflexivity]|exact Hb]. }
  cbn [c10_go_skip_string app] in *. destruct st as [| |n|n].
  - destruct (c =? q). { injection H as <-. split; [exists [c]; split; [discriminate|reflexivity]|reflexivity]. }
    destruct (c =? ch_bs); [exact (Step _ H)|]. destruct (c =? ch_nl); [discriminate|exact (Step _ H)].
  - destruct ((c =? 97) || (c =? 98) || (c =? 102) || (c =? 110) || (c =? 114) || (c =? 116) || (c =? 118) || (c =? ch_bs) || (c =? q)); [exact (Step _ H)|].
    destruct (c =? 120); [exact (Step _ H)|]. destruct (c =? 117); [exact (Step _ H)|]. destruct (c =? 85); [exact (Step _ H)|].
    destruct (c10_go_oct c); [exact (Step _ H)|discriminate].
  - destruct (c10_go_hex c); [exact (Step _ H)|discriminate].
  - destruct (c10_go_oct c); [exact (Step _ H)|discriminate].
Qed.

Lemma go_skip_raw_frame s : forall r, c10_go_skip_raw s = Some r ->
  (exists p, p <> [] /\ s = p ++ r) /\ forall b, c10_go_skip_raw (s ++ b) = Some (r ++ b).
Proof.
  induction s as [|c s IH]; intros r H; [discriminate|]. cbn [c10_go_skip_raw app] in *. destruct (c =? 96).
  - injection H as <-. split; [exists [c]; split; [discriminate|reflexivity]|reflexivity].
  - destruct (IH _ H) as [(p & _ & Hp) Hb]. split; [exists (c :: p); split; [discriminate|rewrite Hp; reflexivity]|exact Hb].
Qed.

Definition notnl (x : char) : bool := negb (x =? ch_nl).

(* one step consumes a non-empty prefix *)
Lemma go_next_suffix s ot r : c10_go_next s = Some (ot, r) -> exists p, p <> [] /\ s = p ++ r.
Proof.
  destruct s as [|c s]; [discriminate|]. cbn [c10_go_next].
  destruct (c10_go_blank c); [intros H; injection H as <- <-; exists [c]; split; [discriminate|reflexivity]|].
  destruct (c =? ch_nl); [intros H; injection H as <- <-; exists [c]; split; [discriminate|reflexivity]|].
  destruct ((c =? 47) && match s with d :: _ => d =? 47 | [] => false end) eqn:Ec.
  { destruct (c10_take_while (fun x => negb (x =? ch_nl)) s) as [a b] eqn:E. intros H. injection H as <- <-.
    destruct (take_while_spec _ _ _ _ E) as (H1 & _ & _). exists (c :: a). split; [discriminate|rewrite H1; reflexivity]. }
  destruct ((c =? 47) && match s with d :: _ => d =? 42 | [] => false end) eqn:Ec2.
  { destruct (c10_go_skip_block false (tl s)) as [[seen r']|] eqn:E; [|discriminate]. intros H. injection H as <- <-.
    destruct (proj1 (go_skip_block_frame _ _ _ _ E)) as [p Hp]. destruct s as [|d s']; [rewrite andb_false_r in Ec2; discriminate|].
    cbn [tl] in Hp. exists (c :: d :: p). split; [discriminate|]. rewrite Hp. reflexivity. }
  destruct (c =? ch_dq).
  { destruct (c10_go_skip_string ch_dq GSNorm s) as [r'|] eqn:E; [|discriminate]. intros H. injection H as <- <-.
    destruct (proj1 (go_skip_string_frame _ _ _ _ E)) as (p & _ & Hp). exists (c :: p). split; [discriminate|]. rewrite Hp. reflexivity. }
  destruct (c =? ch_sq).
  { destruct (c10_go_skip_string ch_sq GSNorm s) as [r'|] eqn:E; [|discriminate]. intros H. injection H as <- <-.
    destruct (proj1 (go_skip_string_frame _ _ _ _ E)) as (p & _ & Hp). exists (c :: p). split; [discriminate|]. rewrite Hp. reflexivity. }
  destruct (c =? 96).
  { destruct (c10_go_skip_raw s) as [r'|] eqn:E; [|discriminate]. intros H. injection H as <- <-.
    destruct (proj1 (go_skip_raw_frame _ _ E)) as (p & _ & Hp). exists (c :: p). split; [discriminate|]. rewrite Hp. reflexivity. }
  destruct (c10_go_letter c) eqn:Ei.
  { destruct (c10_take_while c10_go_id_char (c :: s)) as [a b] eqn:E. intros H. injection H as <- <-.
    destruct (take_while_spec _ _ _ _ E) as (H1 & _ & _). exists a. split; [|exact H1].
    cbn [c10_take_while] in E. unfold c10_go_id_char at 1 in E. rewrite Ei in E. cbn [orb] in E.
    destruct (c10_take_while c10_go_id_char s). injection E as <- _. discriminate. }
  destruct (is_adigit c) eqn:Ed.
  { destruct (c10_take_while c10_go_num_char (c :: s)) as [a b] eqn:E. intros H. injection H as <- <-.
    destruct (take_while_spec _ _ _ _ E) as (H1 & _ & _). exists a. split; [|exact H1].
    cbn [c10_take_while] in E. unfold c10_go_num_char at 1, c10_go_id_char at 1 in E. rewrite Ed in E. rewrite orb_true_r in E. cbn [orb] in E.
    destruct (c10_take_while c10_go_num_char s). injection E as <- _. discriminate. }
  intros H. injection H as <- <-. exists [c]. split; [discriminate|reflexivity].
Qed.

Lemma go_next_shorter s ot r : c10_go_next s = Some (ot, r) -> (List.length r < List.length s)%nat.
Proof. intros H. destruct (go_next_suffix _ _ _ H) as (p & Hp & ->). apply app_len_lt, Hp. Qed.

(* ------------------------------------------------------------------ the fuel-free view *)
Definition Tk (s : str) (ts : list c10_gtok) : Prop := forall f, (List.length s < f)%nat -> c10_go_tokens f s = Some ts.

Lemma tk_nil : Tk [] [].
Proof. intros f Hf. destruct f; [cbn in Hf; lia|reflexivity]. Qed.

Lemma tk_step s ot r ts : c10_go_next s = Some (ot, r) -> Tk r ts -> Tk s (gotl ot ++ ts).
Proof.
  intros H Hr f Hf. destruct f as [|f]; [lia|]. rewrite go_tokens_unfold. destruct s as [|c s]; [discriminate|].
  rewrite H, (Hr f); [reflexivity|]. pose proof (go_next_shorter _ _ _ H). lia.
Qed.

Lemma tokens_tk f : forall s ts, c10_go_tokens f s = Some ts -> Tk s ts.
Proof.
  induction f as [|f IH]; intros s ts H; [discriminate|]. rewrite go_tokens_unfold in H.
  destruct s as [|c s]; [injection H as <-; apply tk_nil|].
  destruct (c10_go_next (c :: s)) as [[ot r]|] eqn:E; [|discriminate].
  destruct (c10_go_tokens f r) as [ts'|] eqn:E2; [|discriminate]. injection H as <-.
  exact (tk_step _ _ _ _ E (IH _ _ E2)).
Qed.

Lemma tk_run s ts : Tk s ts -> c10_go_tokens (S (List.length s)) s = Some ts.
Proof. intros H. apply H. lia. Qed.

(* ------------------------------------------------------------------ the frame lemma *)
(* the follower cannot extend an identifier / a number, nor turn a final slash into a comment opener *)
Definition gsepb (b : str) : bool := match b with [] => true | c :: _ => negb (c10_go_num_char c) && negb (c =? 42) && negb (c =? 47) end.
(* a character that ends a token whatever follows *)
Definition gclosedc (c : char) : bool := negb (c10_go_num_char c) && negb (c =? 47).
Definition gglue (a b : str) : bool := gsepb b || gclosedc (last a 32).
(* the text opens no line comment, or the follower starts a new line *)
Definition lc_free (a : str) : bool := negb (contains_sub [47; 47] a).
Definition headnl (b : str) : bool := match b with [] => true | c :: _ => c =? ch_nl end.
Definition lcok (a b : str) : bool := lc_free a || headnl b.

Lemma contains_sub_suffix p pre r : contains_sub p r = true -> contains_sub p (pre ++ r) = true.
Proof.
  intros H. induction pre as [|x pre IH]; [exact H|]. cbn [app contains_sub]. rewrite IH. apply orb_true_r.
Qed.
Lemma lc_free_suffix pre r : lc_free (pre ++ r) = true -> lc_free r = true.
Proof.
  unfold lc_free. rewrite !negb_true_iff. intros H. destruct (contains_sub [47; 47] r) eqn:E; [|reflexivity].
  rewrite (contains_sub_suffix _ pre r E) in H. discriminate.
Qed.
Lemma lcok_suffix pre r b : lcok (pre ++ r) b = true -> lcok r b = true.
Proof. unfold lcok. rewrite !orb_true_iff. intros [H|H]; [left; exact (lc_free_suffix _ _ H)|right; exact H]. Qed.

Lemma id_num_char c : c10_go_id_char c = true -> c10_go_num_char c = true.
Proof. unfold c10_go_num_char. intros ->. reflexivity. Qed.

Lemma go_next_frame a b ot r : c10_go_next a = Some (ot, r) -> gglue a b = true -> lcok a b = true ->
  c10_go_next (a ++ b) = Some (ot, r ++ b).
Proof.
  destruct a as [|c s]; [discriminate|]. intros H G L. cbn [c10_go_next app] in *.
  destruct (c10_go_blank c); [injection H as <- <-; reflexivity|].
  destruct (c =? ch_nl); [injection H as <- <-; reflexivity|].
  assert (Ec : forall k, k = 42 \/ k = 47 -> ((c =? 47) && match s ++ b with d :: _ => d =? k | [] => false end) =
               ((c =? 47) && match s with d :: _ => d =? k | [] => false end)).
  { intros k Hk. destruct s as [|d s']; [|reflexivity]. cbn [app]. rewrite andb_false_r.
    unfold gglue in G. cbn [last] in G. destruct b as [|d b]; [apply andb_false_r|].
    unfold gsepb, gclosedc in G. destruct (c =? 47); [|reflexivity]. destruct (d =? k) eqn:Ek; [|reflexivity].
    rewrite !andb_false_r, orb_false_r in G. destruct Hk as [-> | ->]; rewrite Ek in G; cbn in G; rewrite ?andb_false_r in G; discriminate. }
  rewrite (Ec 47 ltac:(auto)), (Ec 42 ltac:(auto)).
  destruct ((c =? 47) && match s with d :: _ => d =? 47 | [] => false end) eqn:Ec1.
  { destruct (c10_take_while (fun x => negb (x =? ch_nl)) s) as [x y] eqn:E. injection H as <- <-.
    destruct (take_while_spec _ _ _ _ E) as (H1 & H2 & H3). rewrite H1, <- app_assoc.
    rewrite take_while_app; [reflexivity|exact H2|]. destruct y as [|d y]; [|exact H3]. cbn [app].
    destruct b as [|d b]; [exact I|]. unfold lcok in L. apply orb_true_iff in L as [L|L].
    - exfalso. unfold lc_free in L. apply negb_true_iff in L. destruct s as [|d0 s']; [rewrite andb_false_r in Ec1; discriminate|].
      apply andb_true_iff in Ec1 as [E1 E2]. cbn [contains_sub starts_with] in L. replace (47 =? c) with true in L by lia.
      replace (47 =? d0) with true in L by lia. discriminate.
    - cbn [headnl] in L. rewrite L. reflexivity. }
  destruct ((c =? 47) && match s with d :: _ => d =? 42 | [] => false end) eqn:Ec2.
  { destruct s as [|d s']; [rewrite andb_false_r in Ec2; discriminate|]. cbn [tl app] in *.
    destruct (c10_go_skip_block false s') as [[seen r']|] eqn:E; [|discriminate]. injection H as <- <-.
    rewrite (proj2 (go_skip_block_frame _ _ _ _ E) b). reflexivity. }
  destruct (c =? ch_dq).
  { destruct (c10_go_skip_string ch_dq GSNorm s) as [r'|] eqn:E; [|discriminate]. injection H as <- <-.
    rewrite (proj2 (go_skip_string_frame _ _ _ _ E) b). reflexivity. }
  destruct (c =? ch_sq).
  { destruct (c10_go_skip_string ch_sq GSNorm s) as [r'|] eqn:E; [|discriminate]. injection H as <- <-.
    rewrite (proj2 (go_skip_string_frame _ _ _ _ E) b). reflexivity. }
  destruct (c =? 96).
  { destruct (c10_go_skip_raw s) as [r'|] eqn:E; [|discriminate]. injection H as <- <-.
    rewrite (proj2 (go_skip_raw_frame _ _ E) b). reflexivity. }
  assert (Gen : forall p, (forall x, p x = true -> c10_go_num_char x = true) -> p c = true ->
                forall x y, c10_take_while p (c :: s) = (x, y) -> c10_take_while p (c :: s ++ b) = (x, y ++ b)).
  { intros p Hp Hc x y E. destruct (take_while_spec _ _ _ _ E) as (H1 & H2 & H3).
    change (c :: s ++ b) with ((c :: s) ++ b). rewrite H1, <- app_assoc. apply take_while_app; [exact H2|].
    destruct y as [|d y]; [|exact H3]. cbn [app]. destruct b as [|d b]; [exact I|].
    rewrite app_nil_r in H1. unfold gglue in G. apply orb_true_iff in G as [G | G].
    - unfold gsepb in G. rewrite !andb_true_iff in G. destruct G as [[G _] _]. apply negb_true_iff in G.
      destruct (p d) eqn:Epd; [|reflexivity]. rewrite (Hp d Epd) in G. discriminate.
    - exfalso. unfold gclosedc in G. apply andb_true_iff in G as [G _]. apply negb_true_iff in G.
      rewrite H1 in G. rewrite (Hp _ (forallb_last p x 32 ltac:(rewrite <- H1; discriminate) H2)) in G. discriminate. }
  destruct (c10_go_letter c) eqn:Ei.
  { destruct (c10_take_while c10_go_id_char (c :: s)) as [x y] eqn:E. injection H as <- <-.
    rewrite (Gen c10_go_id_char id_num_char ltac:(unfold c10_go_id_char; rewrite Ei; reflexivity) x y E). reflexivity. }
  destruct (is_adigit c) eqn:Ed.
  { destruct (c10_take_while c10_go_num_char (c :: s)) as [x y] eqn:E. injection H as <- <-.
    rewrite (Gen c10_go_num_char (fun x H => H) ltac:(unfold c10_go_num_char, c10_go_id_char; rewrite Ed, orb_true_r; reflexivity) x y E). reflexivity. }
  injection H as <- <-. reflexivity.
Qed.

Lemma tk_frame f : forall a ta, c10_go_tokens f a = Some ta ->
  forall b tb, a = [] \/ (gglue a b = true /\ lcok a b = true) -> Tk b tb -> Tk (a ++ b) (ta ++ tb).
Proof.
  induction f as [|f IH]; intros a ta H b tb G Hb; [discriminate|]. rewrite go_tokens_unfold in H.
  destruct a as [|c s]; [injection H as <-; exact Hb|]. destruct G as [G|[G L]]; [discriminate|].
  destruct (c10_go_next (c :: s)) as [[ot r]|] eqn:E; [|discriminate].
  destruct (c10_go_tokens f r) as [ts'|] eqn:E2; [|discriminate]. injection H as <-.
  rewrite <- app_assoc. apply (tk_step _ ot (r ++ b)); [exact (go_next_frame _ _ _ _ E G L)|].
  apply IH; [exact E2| |exact Hb]. destruct r as [|d r]; [left; reflexivity|right].
  destruct (go_next_suffix _ _ _ E) as (p & _ & Hp). rewrite Hp in G, L. split; [|exact (lcok_suffix _ _ _ L)].
  unfold gglue in *. rewrite last_app_ne in G by discriminate. exact G.
Qed.

(* the frame lemma in terms of the function the recogniser runs *)
Theorem go_tokens_frame a ta b tb :
  c10_go_tokens (S (List.length a)) a = Some ta -> c10_go_tokens (S (List.length b)) b = Some tb ->
  gglue a b = true -> lcok a b = true ->
  c10_go_tokens (S (List.length (a ++ b))) (a ++ b) = Some (ta ++ tb).
Proof. intros Ha Hb G L. apply tk_run. apply (tk_frame _ _ _ Ha); [right; split; assumption|exact (tokens_tk _ _ _ Hb)]. Qed.

(* ------------------------------------------------------------------ raw fragments *)
Definition RFrag (a : str) (ta : list c10_gtok) : Prop := forall b tb, gsepb b = true -> Tk b tb -> Tk (a ++ b) (ta ++ tb).
Definition RCFrag (a : str) (ta : list c10_gtok) : Prop := forall b tb, Tk b tb -> Tk (a ++ b) (ta ++ tb).

Lemma rfrag_compute a ta : c10_go_tokens (S (List.length a)) a = Some ta -> lc_free a = true -> RFrag a ta.
Proof.
  intros H L b tb Hs Hb. apply (tk_frame _ _ _ H); [|exact Hb]. right. unfold gglue, lcok. rewrite Hs, L. split; reflexivity.
Qed.
Lemma rcfrag_compute a ta : c10_go_tokens (S (List.length a)) a = Some ta -> lc_free a = true -> gclosedc (last a 32) = true -> RCFrag a ta.
Proof.
  intros H L Hc b tb Hb. apply (tk_frame _ _ _ H); [|exact Hb]. right. unfold gglue, lcok. rewrite Hc, L. split; [apply orb_true_r|reflexivity].
Qed.
Lemma rcfrag_nil : RCFrag [] [].
Proof. intros b tb Hb. exact Hb. Qed.
Lemma rcfrag_app a ta b tb : RCFrag a ta -> RCFrag b tb -> RCFrag (a ++ b) (ta ++ tb).
Proof. intros Ha Hb c tc Hc. rewrite <- !app_assoc. apply Ha, Hb, Hc. Qed.

(* identifiers of the Go grammar: letter { letter | digit } *)
Definition c10_go_ident_ok (s : str) : bool :=
  match s with [] => false | c :: r => c10_go_letter c && forallb c10_go_id_char r end.

Lemma letter_facts c : c10_go_letter c = true ->
  c10_go_blank c = false /\ (c =? ch_nl) = false /\ (c =? 47) = false /\ (c =? ch_dq) = false /\ (c =? ch_sq) = false /\ (c =? 96) = false.
Proof. unfold c10_go_letter, c10_go_blank, is_aalpha, is_alower, is_aupper, ch_us, ch_nl, ch_dq, ch_sq. lia. Qed.

Lemma rfrag_ident n : c10_go_ident_ok n = true -> RFrag n [QId n].
Proof.
  intros H b tb Hs Hb. destruct n as [|c r]; [discriminate|]. cbn [c10_go_ident_ok] in H. apply andb_true_iff in H as [Hc Hr].
  change ([QId (c :: r)] ++ tb) with (gotl (Some (QId (c :: r))) ++ tb). apply (tk_step _ _ b); [|exact Hb].
  destruct (letter_facts c Hc) as (F1 & F2 & F3 & F4 & F5 & F6).
  cbn [c10_go_next app]. rewrite F1, F2, F3, F4, F5, F6, Hc. cbn [andb].
  assert (E : c10_take_while c10_go_id_char (c :: r ++ b) = (c :: r, b)).
  { change (c :: r ++ b) with ((c :: r) ++ b). apply take_while_app.
    - cbn [forallb]. rewrite Hr. unfold c10_go_id_char. rewrite Hc. reflexivity.
    - destruct b as [|d b]; [exact I|]. unfold gsepb in Hs. rewrite !andb_true_iff in Hs. destruct Hs as [[Hs _] _].
      apply negb_true_iff in Hs. destruct (c10_go_id_char d) eqn:Ed; [|reflexivity]. rewrite (id_num_char d Ed) in Hs. discriminate. }
  rewrite E. reflexivity.
Qed.

(* a double-quoted literal whose body needs no escape *)
Lemma go_skip_string_plain body b : forallb c10_plain_char body = true -> c10_go_skip_string ch_dq GSNorm (body ++ ch_dq :: b) = Some b.
Proof.
  induction body as [|c r IH]; intros H; cbn [app c10_go_skip_string].
  - rewrite N.eqb_refl. reflexivity.
  - cbn [forallb] in H. apply andb_true_iff in H as [Hc Hr]. unfold c10_plain_char in Hc.
    apply negb_true_iff in Hc. rewrite !orb_false_iff in Hc. destruct Hc as [[[H1 H2] H3] H4].
    rewrite H1, H2, H3. exact (IH Hr).
Qed.
Lemma rcfrag_quoted body : forallb c10_plain_char body = true -> RCFrag (ch_dq :: body ++ [ch_dq]) [QStr].
Proof.
  intros H b tb Hb. change ([QStr] ++ tb) with (gotl (Some QStr) ++ tb). apply (tk_step _ (Some QStr) b); [|exact Hb].
  change ((ch_dq :: body ++ [ch_dq]) ++ b) with (ch_dq :: (body ++ [ch_dq]) ++ b). rewrite <- app_assoc.
  cbn [c10_go_next app]. change (c10_go_blank ch_dq) with false. change (ch_dq =? ch_nl) with false. cbv beta iota.
  change ((ch_dq =? 47) && _) with false. cbv beta iota. change (ch_dq =? ch_dq) with true. cbv beta iota.
  rewrite (go_skip_string_plain body b H). reflexivity.
Qed.

(* a raw string without a back-tick inside *)
Definition ch_bt : char := 96.
Definition gnotick (s : str) : bool := forallb (fun c => negb (c =? ch_bt)) s.
Lemma go_skip_raw_plain body b : gnotick body = true -> c10_go_skip_raw (body ++ ch_bt :: b) = Some b.
Proof.
  induction body as [|c r IH]; intros H; cbn [app c10_go_skip_raw]; [reflexivity|].
  unfold gnotick in H. cbn [forallb] in H. apply andb_true_iff in H as [Hc Hr]. apply negb_true_iff in Hc. unfold ch_bt in Hc. rewrite Hc. exact (IH Hr).
Qed.
Lemma rcfrag_raw body : gnotick body = true -> RCFrag (ch_bt :: body ++ [ch_bt]) [QStr].
Proof.
  intros H b tb Hb. change ([QStr] ++ tb) with (gotl (Some QStr) ++ tb). apply (tk_step _ (Some QStr) b); [|exact Hb].
  change ((ch_bt :: body ++ [ch_bt]) ++ b) with (ch_bt :: (body ++ [ch_bt]) ++ b). rewrite <- app_assoc.
  cbn [c10_go_next app]. change (c10_go_blank ch_bt) with false. change (ch_bt =? ch_nl) with false. cbv beta iota.
  change ((ch_bt =? 47) && _) with false. cbv beta iota. change (ch_bt =? ch_dq) with false. change (ch_bt =? ch_sq) with false.
  change (ch_bt =? 96) with true. cbv beta iota. rewrite (go_skip_raw_plain body b H). reflexivity.
Qed.

(* a decimal number followed by a character that cannot continue it *)
Lemma rcfrag_digits d x : d <> [] -> forallb is_adigit d = true -> c10_go_num_char x = false ->
  forall tx, RCFrag [x] tx -> RCFrag (d ++ [x]) (QNum :: tx).
Proof.
  intros Hne H Hx tx Hfx b tb Hb. destruct d as [|c r]; [congruence|]. pose proof H as H0. cbn [forallb] in H. apply andb_true_iff in H as [Hc Hr].
  change ((QNum :: tx) ++ tb) with (gotl (Some QNum) ++ tx ++ tb). rewrite <- app_assoc.
  apply (tk_step _ _ ([x] ++ b)); [|exact (Hfx b tb Hb)].
  assert (F : c10_go_blank c = false /\ (c =? ch_nl) = false /\ (c =? 47) = false /\ (c =? ch_dq) = false /\ (c =? ch_sq) = false /\ (c =? 96) = false /\ c10_go_letter c = false).
  { unfold c10_go_letter, c10_go_blank, is_aalpha, is_alower, is_aupper, is_adigit, ch_us, ch_nl, ch_dq, ch_sq in *. lia. }
  destruct F as (F1 & F2 & F3 & F4 & F5 & F6 & F7).
  cbn [c10_go_next app]. rewrite F1, F2, F3, F4, F5, F6, F7, Hc. cbn [andb].
  assert (E : c10_take_while c10_go_num_char (c :: r ++ x :: b) = (c :: r, x :: b)).
  { change (c :: r ++ x :: b) with ((c :: r) ++ x :: b). apply take_while_app; [|exact Hx].
    revert H0. apply Proofs.C10Lex.forallb_impl. intros y Hy. unfold c10_go_num_char, c10_go_id_char. rewrite Hy, orb_true_r. reflexivity. }
  rewrite E. reflexivity.
Qed.
