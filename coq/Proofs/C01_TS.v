(* C01 for TypeScript (template for the other back ends): the JSON key every generated member binds
   is the IR's key, and the token the printer emits for it reads back as that key. *)
From Coq Require Import List Bool Lia ZifyBool ZifyN.
From TS Require Import Model.Str Model.Outcome Model.Unicode Model.Types Model.Parse Model.Lang.Common Model.Lang.Decl Model.Lang.TypeScript.
From TS Require Import Proofs.BackCommon Proofs.FrontAttrs.
Import ListNotations.
Local Open Scope N_scope.

Section TS.
Variable uc : unicode.
Variable cfg : ts_config.

(* decisions: each member's key is the field's renamed id, whatever the type, state, generics *)
Lemma ts_member_key generics f st m st' : ts_member_of cfg generics f st = Ok (m, st') -> tm_key m = renamed (fid f).
Proof.
  unfold ts_member_of. intros H.
  apply mbind_ok in H as (ty & s1 & _ & H). apply mbind_ok in H as (s2 & s3 & _ & H).
  apply mbind_ok in H as (u & s4 & _ & H). unfold ret in H. injection H as <- _. reflexivity.
Qed.

Theorem ts_struct_keys s st d st' : ts_decl_of uc cfg (ItStruct s) st = Ok (d, st') ->
  d_kind (ts_obs d) = DStruct /\ d_name (ts_obs d) = renamed (sid s) /\
  map mb_key (d_members (ts_obs d)) = map (fun f => renamed (fid f)) (sfields s).
Proof.
  cbn [ts_decl_of]. intros H. apply mbind_ok in H as (ms & s1 & Hm & H). unfold ret in H. injection H as <- _.
  cbn [ts_obs d_kind d_name d_members]. repeat split. rewrite map_map.
  eapply Forall2_map_r; [eapply mmapM_Forall2; [|exact Hm]|].
  - intros f s0 m s0' Hf. exact (ts_member_key _ _ _ _ _ Hf).
  - intros f m E. cbn [ts_obs_member mb_key]. exact E.
Qed.

Theorem ts_struct_variant_keys tag content sh st d st' :
  ts_decl_of uc cfg (ItEnum (EAlgebraic tag content sh)) st = Ok (d, st') ->
  Forall2 (fun v vd => match v, vd_payload vd with
                       | VAnon fs _, PayInline ms => map mb_key ms = map (fun f => renamed (fid f)) fs
                       | VAnon _ _, _ => False
                       | _, _ => True
                       end) (evariants sh) (d_variants (ts_obs d)).
Proof.
  cbn [ts_decl_of]. intros H. apply mbind_ok in H as (vs & s1 & Hm & H). unfold ret in H. injection H as <- _.
  cbn [ts_obs d_variants].
  apply (mmapM_Forall2 _ (fun v tv => match v, vd_payload (ts_obs_variant tv) with
                                      | VAnon fs _, PayInline ms => map mb_key ms = map (fun f => renamed (fid f)) fs
                                      | VAnon _ _, _ => False
                                      | _, _ => True
                                      end)) in Hm.
  - induction Hm; cbn [map]; constructor; auto.
  - intros v s0 tv s0' Hv. destruct v as [vsh|t vsh|fs vsh]; cbn [ts_variant_of] in Hv.
    + unfold ret in Hv. injection Hv as <- _. exact I.
    + apply mbind_ok in Hv as (ty & s2 & _ & Hv). unfold ret in Hv. injection Hv as <- _. exact I.
    + apply mbind_ok in Hv as (ms & s2 & Hms & Hv). unfold ret in Hv. injection Hv as <- _.
      cbn [ts_obs_variant vd_payload]. rewrite map_map.
      eapply Forall2_map_r; [eapply mmapM_Forall2; [|exact Hms]|].
      * intros f s3 m s3' Hf. exact (ts_member_key _ _ _ _ _ Hf).
      * intros f m E. cbn [ts_obs_member mb_key]. exact E.
Qed.
End TS.

(* layout: the property-name token is the key itself, or the key in double quotes when it has a dash;
   either way it reads back as the key (on the key alphabet nothing needs escaping) *)
Definition ts_read_key (tok : str) : option str :=
  match tok with
  | c :: r => if c =? ch_dq then match rev r with c' :: r' => if c' =? ch_dq then Some (rev r') else None | [] => None end
              else Some tok
  | [] => None
  end.

Lemma key_char_plain c : key_char c = true -> escape_debug_char c = [c].
Proof.
  unfold key_char, is_aalpha, is_alower, is_aupper, is_adigit, ch_us, ch_dash. intros H.
  unfold escape_debug_char, ch_dq, ch_bs, ch_nl, ch_cr, ch_tab, ch_sq.
  repeat match goal with |- context [if ?b then _ else _] => let E := fresh in destruct b eqn:E; [lia|] end. reflexivity.
Qed.

Lemma debug_str_key k : forallb key_char k = true -> debug_str k = ch_dq :: k ++ [ch_dq].
Proof.
  intros H. unfold debug_str. cbn [app]. f_equal. f_equal.
  induction k as [|c r IH]; cbn [flat_map]; [reflexivity|].
  cbn [forallb] in H. apply andb_true_iff in H as [Hc Hr]. rewrite (key_char_plain c Hc), (IH Hr). reflexivity.
Qed.

Theorem ts_key_token_reads_back k : k <> [] -> forallb key_char k = true ->
  ts_read_key (typescript_property_aware_rename k) = Some k.
Proof.
  intros Hne H. unfold typescript_property_aware_rename.
  destruct (contains_char ch_dash k).
  - rewrite (debug_str_key k H). unfold ts_read_key. rewrite N.eqb_refl.
    rewrite rev_app_distr. cbn [rev app]. rewrite N.eqb_refl, rev_involutive. reflexivity.
  - destruct k as [|c r]; [congruence|]. unfold ts_read_key.
    cbn [forallb] in H. apply andb_true_iff in H as [Hc _].
    assert (c =? ch_dq = false) as -> by (unfold key_char, is_aalpha, is_alower, is_aupper, is_adigit, ch_us, ch_dash, ch_dq in *; lia).
    reflexivity.
Qed.
