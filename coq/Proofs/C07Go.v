(* C07, the Go back end: go_generate panics only
     - at go.rs:594 (String::replace_range off a char boundary inside convert_acronyms_to_uppercase; recorded
       finding C07-go.rs:594), and only when the acronym list is not empty;
     - at go.rs:301 (`unreachable!` for a non-unit variant inside a RustEnum::Unit), and only on parsed data the
       front end never delivers (Spec/C07BackSpec.v pd_wf).
   The proof is parametric in what the acronym conversion may do: [Hconv]. *)
From Coq Require Import String List Bool Permutation.
From TS Require Import Model.Str Model.Outcome Model.Unicode Model.Types Model.Parse Model.Rename
                       Model.TopsortAlgo Model.Topsort Model.Lang.Common Model.Lang.Decl Model.Lang.Go.
From TS Require Import Spec.C07BackSpec.
From TS Require Import Proofs.C07 Proofs.C07Monad Proofs.C07Topsort Proofs.C07TypeScript.
Import ListNotations.

Lemma go_lift_po {St A} P (o : outcome A) : panics_only P o -> mpo P (@go_lift St A o).
Proof. intros H s. unfold go_lift. destruct o; cbn in *; auto. Qed.

Section GOP.
Variable uc : unicode.
Variable cfg : go_config.
Variable P : string -> Prop.
Notation s301 := "go.rs:301"%string.
Notation conv := (go_convert_acronyms_to_uppercase uc (go_uppercase_acronyms cfg)).
Hypothesis Hconv : forall name, panics_only P (conv name).

Lemma go_acr_po name : mpo P (go_acronyms_to_uppercase uc cfg name).
Proof. unfold go_acronyms_to_uppercase. apply go_lift_po, Hconv. Qed.
Hint Resolve go_acr_po : c07.

Lemma go_ffn_po name b : mpo P (go_format_field_name uc cfg name b).
Proof. unfold go_format_field_name. apply go_acr_po. Qed.
Hint Resolve go_ffn_po : c07.

Lemma go_add_import_po n : mpo P (go_add_import n).
Proof. unfold go_add_import. po_walk. Qed.
Hint Resolve go_add_import_po : c07.

Lemma go_texp_po g t : mpo P (go_texp cfg g t).
Proof.
  induction t as [id|id ps IH|x IH|x n IH|x IH|k v IHk IHv|x IH|p] using rtype_ind'; cbn [go_texp].
  - apply mpo_ret.
  - destruct (tmap_get (go_type_mappings cfg) id); [apply mpo_ret|].
    apply mpo_bind; [|intros; apply mpo_ret].
    induction IH as [|x r Hx _ IHr]; [apply mpo_ret|].
    apply mpo_bind; [exact Hx|]. intros y. apply mpo_bind; [exact IHr|]. intros; apply mpo_ret.
  - po_walk.
  - po_walk.
  - po_walk.
  - po_walk.
  - po_walk.
  - destruct p; po_walk.
Qed.
Hint Resolve go_texp_po : c07.

Lemma go_acronyms_ty_po t : mpo P (go_acronyms_ty uc cfg t).
Proof. unfold go_acronyms_ty. apply mpo_bind; [apply go_acr_po|]. intros; apply mpo_ret. Qed.
Hint Resolve go_acronyms_ty_po : c07.

Lemma go_member_po g f : mpo P (go_member_of uc cfg g f).
Proof. unfold go_member_of. po_walk. Qed.
Hint Resolve go_member_po : c07.

Lemma go_struct_po rs : mpo P (go_struct_decl_of uc cfg rs).
Proof. unfold go_struct_decl_of. po_walk. Qed.
Hint Resolve go_struct_po : c07.

Lemma go_anon_name_po sh n : mpo P (go_make_anonymous_struct_name uc cfg sh n).
Proof. unfold go_make_anonymous_struct_name. apply go_acr_po. Qed.
Hint Resolve go_anon_name_po : c07.

Lemma go_anon_po sh : mpo P (go_anonymous_struct_decls uc cfg sh).
Proof. unfold go_anonymous_struct_decls. po_walk. Qed.
Hint Resolve go_anon_po : c07.

Lemma go_variant_po sh cs sn tk v : mpo P (go_variant_of uc cfg sh cs sn tk v).
Proof. unfold go_variant_of. po_walk. Qed.
Hint Resolve go_variant_po : c07.

Lemma camel_po' s : panics_only P (to_camel_case s).
Proof. apply no_panic_is_panic. apply camel_never_panics. Qed.

Lemma go_enum_po cs e : (item_wf (ItEnum e) = false -> P s301) -> mpo P (go_enum_decls_of uc cfg cs e).
Proof.
  intros H. unfold go_enum_decls_of. cbv zeta. apply mpo_bind; [apply go_anon_po|]. intros anon.
  destruct e as [sh|tg ct sh]; cbn [enum_shared].
  - apply mpo_bind; [apply go_acr_po|]. intros en. apply mpo_bind; [|intros; apply mpo_ret].
    apply mpo_mmapM. intros v Hv. unfold go_unit_variant_of.
    destruct v; [po_walk| |]; apply mpo_mpanic; apply H; cbn [item_wf enum_wf];
      eapply forallb_false_In; try eassumption; reflexivity.
  - apply mpo_bind; [apply go_acr_po|]. intros sn.
    apply mpo_bind; [apply go_lift_po, camel_po'|]. intros cf. po_walk.
Qed.

Lemma go_decl_po cs it : (item_wf it = false -> P s301) -> mpo P (go_decl_of uc cfg cs it).
Proof.
  intros H. destruct it as [st|e|a|c]; cbn [go_decl_of]; try solve [po_walk]. now apply go_enum_po.
Qed.

Lemma go_write_item_po cs it : (item_wf it = false -> P s301) -> mpo P (go_write_item uc cfg cs it).
Proof. intros H. unfold go_write_item. apply mpo_bind; [now apply go_decl_po|]. intros; apply mpo_ret. Qed.

Theorem go_generate_po pd : (pd_wf pd = false -> P s301) -> panics_only P (go_generate uc cfg pd).
Proof.
  intros H. unfold go_generate. destruct (topsort_total (items_of pd)) as (items & E & Pm). rewrite E. cbn [bind]. cbv zeta.
  match goal with |- panics_only P (match ?run [] with _ => _ end) => assert (Hm : mpo P run) end.
  { apply mpo_bind; [unfold go_begin_file; po_walk|]. intros header.
    apply mpo_bind; [|intros; po_walk].
    apply mpo_mconcat. intros it Hin. apply go_write_item_po. intros Ef. apply H.
    eapply items_wf; [|exact Ef]. eapply Permutation_in; eassumption. }
  specialize (Hm []). match goal with |- panics_only P (match ?r with _ => _ end) => destruct r as [[out st]| |]; auto end.
Qed.
End GOP.

(* ---- what the conversion itself can do ---- *)
Notation s594 := "go.rs:594"%string.

Lemma go_convert_sites uc acrs name : panics_only (fun s => s = s594) (go_convert_acronyms_to_uppercase uc acrs name).
Proof.
  unfold go_convert_acronyms_to_uppercase.
  assert (Hin : forall pat l acc, panics_only (fun s => s = s594) acc ->
            panics_only (fun s => s = s594)
              (fold_left (fun (acc : outcome str) (i : N) =>
                 do res <- acc;
                 if match nth_error name (N.to_nat (i + N.of_nat (List.length pat))) with
                    | Some c => negb (u_is_lower uc c) | None => true end
                 then match go_replace_range res i (i + N.of_nat (List.length pat)) (str_to_uppercase uc pat) with
                      | Some res' => Ok res' | None => Panic s594 end
                 else Ok res) l acc)).
  { intros pat l. induction l as [|i r IH]; intros acc Ha; cbn [fold_left]; [exact Ha|]. apply IH.
    apply po_bind; [exact Ha|]. intros res _. destruct (match nth_error name _ with Some c => _ | None => _ end); [|exact I].
    destruct (go_replace_range _ _ _ _); [exact I|reflexivity]. }
  assert (H0 : panics_only (fun s => s = s594) (@Ok str name)) by exact I. revert H0. generalize (@Ok str name).
  induction acrs as [|a r IH]; intros acc Ha; cbn [fold_left]; [exact Ha|]. apply IH. apply Hin. exact Ha.
Qed.

Lemma go_convert_nil uc name : go_convert_acronyms_to_uppercase uc [] name = Ok name.
Proof. reflexivity. Qed.

Definition go_sites (s : string) : Prop := s = s594 \/ s = "go.rs:301"%string.

(* EVERY Unicode table, configuration and parsed data: only the two sites; go.rs:301 only outside the front
   end's range, go.rs:594 only with a non-empty acronym list *)
Theorem go_generate_panics_only uc cfg pd :
  panics_only (fun s => (s = s594 /\ go_uppercase_acronyms cfg <> []) \/ (s = "go.rs:301"%string /\ pd_wf pd = false))
              (go_generate uc cfg pd).
Proof.
  apply go_generate_po; [|auto].
  intros name. destruct (go_uppercase_acronyms cfg) as [|a r] eqn:E; [exact I|].
  eapply po_weaken; [|apply go_convert_sites]. intros s ->. left. split; [reflexivity|discriminate].
Qed.

Theorem go_generate_never_panics_no_acronyms uc cfg pd :
  go_uppercase_acronyms cfg = [] -> pd_wf pd = true -> no_panic (go_generate uc cfg pd).
Proof.
  intros Ha Hw. eapply po_weaken; [|apply go_generate_panics_only]. cbv beta.
  intros s [[_ H]|[_ H]]; [now apply H|rewrite Hw in H; discriminate].
Qed.
