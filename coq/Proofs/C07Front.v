(* C07: the shape invariant [pd_wf] (Spec/C07BackSpec.v) - no 64-bit integer primitive in any type, unit
   enums made of unit variants only - holds of everything parser::parse returns, and is kept by the
   collector's `+=` and by reconcile.  These are the facts that make typescript.rs:137 / :276, go.rs:301 and
   python.rs:368 unreachable from source text. *)
From Coq Require Import String List Bool Lia.
From TS Require Import Model.Str Model.Outcome Model.Unicode Model.Syntax Model.Attrs Model.TargetOs
                       Model.Rename Model.Types Model.Parse Model.Reconcile Model.Collect.
From TS Require Import Spec.C07BackSpec.
From TS Require Import Proofs.FrontTypes Proofs.FrontItems Proofs.C07.
Import ListNotations.

(* ---------- types ---------- *)
Lemma prim_of_name_no64 id p : prim_of_name id = Some p -> prim_no64 p = true.
Proof.
  unfold prim_of_name.
  repeat match goal with |- (if ?b then _ else _) = _ -> _ => destruct b; [intros [= <-]; reflexivity|] end.
  discriminate.
Qed.

Lemma path_dispatch_no64 id ps r : forallb rtype_no64 ps = true -> path_dispatch id ps = Ok r -> rtype_no64 r = true.
Proof.
  intros Hps. unfold path_dispatch.
  destruct (str_eqb id (lit "Vec")).
  { destruct ps as [|x ?]; [discriminate|]. intros [= <-]. cbn [forallb] in Hps. apply andb_true_iff in Hps as [Hx _]. exact Hx. }
  destruct (str_eqb id (lit "Option")).
  { destruct ps as [|x ?]; [discriminate|]. intros [= <-]. cbn [forallb] in Hps. apply andb_true_iff in Hps as [Hx _]. exact Hx. }
  destruct (str_eqb id (lit "HashMap")).
  { destruct ps as [|k [|v ?]]; try discriminate. intros [= <-]. cbn [forallb] in Hps.
    apply andb_true_iff in Hps as [Hk Hps]. apply andb_true_iff in Hps as [Hv _]. cbn [rtype_no64]. now rewrite Hk, Hv. }
  destruct (mem_str id SMART_POINTERS).
  { destruct ps as [|x ?]; [discriminate|]. intros [= <-]. cbn [forallb] in Hps. apply andb_true_iff in Hps as [Hx _]. exact Hx. }
  destruct (mem_str id UNSUPPORTED_INTS); [discriminate|].
  destruct (prim_of_name id) as [p|] eqn:Ep.
  { intros [= <-]. cbn [rtype_no64]. eapply prim_of_name_no64; eassumption. }
  destruct ps; intros [= <-]; [reflexivity|exact Hps].
Qed.

Theorem parse_ty_no64 t : forall r, parse_ty t = Ok r -> rtype_no64 r = true.
Proof.
  induction t as [q id args IH|t IH|l IH|t n IH|t IH|] using ty_ind'; intros r H.
  - rewrite parse_ty_path in H. destruct (parse_args args) as [ps| |] eqn:E; cbn [bind] in H; try discriminate.
    eapply path_dispatch_no64; [|exact H]. clear H. revert ps E.
    induction IH as [|o rest Ho _ IHr]; intros ps E; cbn [parse_args] in E.
    + injection E as <-. reflexivity.
    + destruct o as [a|]; [|now apply IHr].
      destruct (parse_ty a) as [x| |] eqn:Ex; cbn [bind] in E; try discriminate.
      destruct (parse_args rest) as [xs| |] eqn:Er; cbn [bind] in E; try discriminate.
      injection E as <-. cbn [forallb]. rewrite (Ho x eq_refl), (IHr xs eq_refl). reflexivity.
  - cbn [parse_ty] in H. now apply IH.
  - cbn [parse_ty] in H. destruct l; [injection H as <-; reflexivity|discriminate].
  - cbn [parse_ty] in H. destruct n as [k|]; [|discriminate].
    destruct (parse_ty t) as [x| |] eqn:Ex; cbn [bind] in H; try discriminate.
    destruct k; [|discriminate]. injection H as <-. cbn [rtype_no64]. now apply IH.
  - cbn [parse_ty] in H. destruct (parse_ty t) as [x| |] eqn:Ex; cbn [bind] in H; try discriminate.
    injection H as <-. cbn [rtype_no64]. now apply IH.
  - discriminate.
Qed.

Lemma parse_ty_str_no64 tstr s r : parse_ty_str tstr s = Ok r -> rtype_no64 r = true.
Proof. unfold parse_ty_str. destruct (tstr s); [apply parse_ty_no64|discriminate]. Qed.

Lemma mapM_forallb {A B} (f : A -> outcome B) (Q : B -> bool) l r :
  (forall x y, f x = Ok y -> Q y = true) -> mapM f l = Ok r -> forallb Q r = true.
Proof.
  intros HQ. revert r. induction l as [|x l IH]; intros r; cbn [mapM].
  - intros [= <-]. reflexivity.
  - destruct (f x) as [y| |] eqn:Ex; cbn [bind]; try discriminate.
    destruct (mapM f l) as [ys| |]; cbn [bind]; try discriminate.
    intros [= <-]. cbn [forallb]. rewrite (HQ x y Ex), (IH ys eq_refl). reflexivity.
Qed.

Section U.
Variable uc : unicode.
Variable tstr : str -> option ty.
Variable T : list str.

Lemma field_type_no64 f r : field_type uc tstr f = Ok r -> rtype_no64 r = true.
Proof. unfold field_type. destruct (get_field_type_override uc (f_attrs f)); [apply parse_ty_str_no64|apply parse_ty_no64]. Qed.

Lemma parse_field_wf cf ra f rf : parse_field uc tstr cf ra f = Ok rf -> field_wf rf = true.
Proof.
  unfold parse_field. destruct (field_type uc tstr f) as [t| |] eqn:Et; cbn [bind]; try discriminate.
  destruct (cf && serde_flatten (f_attrs f)); [discriminate|].
  destruct (get_field_decorators uc (f_attrs f)); cbn [bind]; try discriminate.
  destruct (get_ident uc (f_ident f) (f_attrs f) ra); cbn [bind]; try discriminate.
  intros [= <-]. unfold field_wf. cbn [fty]. eapply field_type_no64; eassumption.
Qed.

Lemma mk_alias_wf attrs ident gens t it : rtype_no64 t = true -> mk_alias uc attrs ident gens t = Ok it -> item_wf it = true.
Proof.
  intros Ht. unfold mk_alias. destruct (get_ident uc (Some ident) attrs None); cbn [bind]; try discriminate.
  intros [= <-]. exact Ht.
Qed.

Lemma serialized_alias_wf attrs ident gens s it :
  (do i <- get_ident uc (Some ident) attrs None;
   do t <- parse_ty_str tstr s;
   Ok (ItAlias {| aid := i; agenerics := generic_types gens; atype := t;
                  acomments := parse_comment_attrs uc attrs; adecs := get_decorators uc attrs;
                  aredacted := is_redacted attrs |})) = Ok it -> item_wf it = true.
Proof.
  destruct (get_ident uc (Some ident) attrs None); cbn [bind]; try discriminate.
  destruct (parse_ty_str tstr s) as [t| |] eqn:Et; cbn [bind]; try discriminate.
  intros [= <-]. cbn [item_wf atype]. eapply parse_ty_str_no64; eassumption.
Qed.

Lemma parse_struct_wf attrs ident gens fs it : parse_struct uc tstr T attrs ident gens fs = Ok it -> item_wf it = true.
Proof.
  unfold parse_struct. destruct (get_serialized_as_type uc attrs) as [s|]; [apply serialized_alias_wf|].
  destruct fs as [l|l|].
  - destruct (mapM _ _) as [fields| |] eqn:Em; cbn [bind]; try discriminate.
    destruct (get_ident uc (Some ident) attrs None); cbn [bind]; try discriminate.
    intros [= <-]. cbn [item_wf sfields]. eapply mapM_forallb; [|exact Em]. intros x y. apply parse_field_wf.
  - destruct l as [|f [|? ?]]; try discriminate.
    destruct (field_type uc tstr f) as [t| |] eqn:Et; cbn [bind]; try discriminate.
    apply mk_alias_wf. eapply field_type_no64; eassumption.
  - destruct (get_ident uc (Some ident) attrs None); cbn [bind]; try discriminate.
    intros [= <-]. reflexivity.
Qed.

Lemma parse_variant_wf ra v rv : parse_enum_variant uc tstr T ra v = Ok rv -> variant_wf rv = true.
Proof.
  unfold parse_enum_variant. destruct (get_ident uc (Some (v_ident v)) (v_attrs v) ra); cbn [bind]; try discriminate.
  destruct (v_fields v) as [l|l|].
  - destruct (mapM _ _) as [fields| |] eqn:Em; cbn [bind]; try discriminate.
    intros [= <-]. cbn [variant_wf]. eapply mapM_forallb; [|exact Em]. intros x y. apply parse_field_wf.
  - destruct l as [|f [|? ?]]; try discriminate.
    destruct (field_type uc tstr f) as [t| |] eqn:Et; cbn [bind]; try discriminate.
    intros [= <-]. cbn [variant_wf]. eapply field_type_no64; eassumption.
  - intros [= <-]. reflexivity.
Qed.

Lemma parse_enum_wf attrs ident gens vs it : parse_enum uc tstr T attrs ident gens vs = Ok it -> item_wf it = true.
Proof.
  unfold parse_enum. destruct (get_serialized_as_type uc attrs) as [s|]; [apply serialized_alias_wf|].
  cbv zeta. destruct (mapM _ _) as [variants| |] eqn:Em; cbn [bind]; try discriminate.
  destruct (get_ident uc (Some ident) attrs None); cbn [bind]; try discriminate.
  destruct (forallb (fun v => match v with VUnit _ => true | _ => false end) variants) eqn:Eu.
  - destruct (get_tag_key uc attrs); [discriminate|]. destruct (get_content_key uc attrs); [discriminate|].
    intros [= <-]. cbn [item_wf enum_wf evariants]. exact Eu.
  - destruct (get_tag_key uc attrs); [|discriminate]. destruct (get_content_key uc attrs); [|discriminate].
    intros [= <-]. cbn [item_wf enum_wf evariants]. eapply mapM_forallb; [|exact Em]. intros x y. apply parse_variant_wf.
Qed.

Lemma parse_type_alias_wf attrs ident gens t it : parse_type_alias uc tstr attrs ident gens t = Ok it -> item_wf it = true.
Proof.
  unfold parse_type_alias.
  destruct (match get_serialized_as_type uc attrs with Some s => parse_ty_str tstr s | None => parse_ty t end) as [rt| |] eqn:E;
    cbn [bind]; try discriminate.
  apply mk_alias_wf. destruct (get_serialized_as_type uc attrs); [eapply parse_ty_str_no64|eapply parse_ty_no64]; eassumption.
Qed.

Lemma parse_const_wf attrs ident t e it : parse_const uc tstr attrs ident t e = Ok it -> item_wf it = true.
Proof.
  unfold parse_const. destruct (parse_const_expr e); cbn [bind]; try discriminate.
  destruct (match get_serialized_as_type uc attrs with Some s => parse_ty_str tstr s | None => parse_ty t end) as [rt| |] eqn:E;
    cbn [bind]; try discriminate.
  assert (Hrt : rtype_no64 rt = true).
  { destruct (get_serialized_as_type uc attrs); [eapply parse_ty_str_no64|eapply parse_ty_no64]; eassumption. }
  destruct rt; try discriminate;
    (destruct (get_ident uc (Some ident) attrs None); cbn [bind]; try discriminate; intros [= <-]; exact Hrt).
Qed.

Lemma parse_leaf_wf it rit : parse_leaf uc tstr T it = Ok rit -> item_wf rit = true.
Proof.
  destruct it; cbn [parse_leaf]; try discriminate;
    [apply parse_struct_wf|apply parse_enum_wf|apply parse_type_alias_wf|apply parse_const_wf].
Qed.
End U.

(* ---------- ParsedData ---------- *)
Lemma pd_wf_iff pd : pd_wf pd = true <->
  forallb (fun s => item_wf (ItStruct s)) (p_structs pd) = true /\
  forallb (fun e => item_wf (ItEnum e)) (p_enums pd) = true /\
  forallb (fun a => item_wf (ItAlias a)) (p_aliases pd) = true /\
  forallb (fun c => item_wf (ItConst c)) (p_consts pd) = true.
Proof. unfold pd_wf. rewrite !andb_true_iff. tauto. Qed.

Lemma forallb_snoc {A} (f : A -> bool) l x : forallb f (l ++ [x]) = forallb f l && f x.
Proof. rewrite forallb_app. cbn [forallb]. now rewrite andb_true_r. Qed.

Lemma push_wf pd it : pd_wf pd = true -> item_wf it = true -> pd_wf (push pd it) = true.
Proof.
  rewrite !pd_wf_iff. intros (H1 & H2 & H3 & H4) Hi.
  destruct it; cbn [push p_structs p_enums p_aliases p_consts]; rewrite ?forallb_snoc, ?H1, ?H2, ?H3, ?H4, ?Hi; auto.
Qed.

Lemma collect_result_wf pd r pd' : pd_wf pd = true -> (forall it, r = Ok it -> item_wf it = true) ->
  collect_result pd r = Ok pd' -> pd_wf pd' = true.
Proof.
  intros Hp Hr. destruct r as [it|e|s]; cbn [collect_result]; [|intros [= <-]; exact Hp|discriminate].
  intros [= <-]. apply push_wf; auto.
Qed.

Lemma fold_collect_wf results : forall pd pd', pd_wf pd = true ->
  (forall r it, In r results -> r = Ok it -> item_wf it = true) ->
  fold_collect results pd = Ok pd' -> pd_wf pd' = true.
Proof.
  induction results as [|r rest IH]; intros pd pd' Hp Hr H.
  - injection H as <-. exact Hp.
  - change (fold_collect (r :: rest) pd) with (fold_collect ([r] ++ rest) pd) in H. rewrite fold_collect_app in H.
    unfold fold_collect at 1 in H. cbn [fold_left bind] in H.
    destruct (collect_result pd r) as [p1| |] eqn:E1; cbn [bind] in H; try discriminate.
    eapply IH; [|intros r' it' Hin; apply Hr; now right|exact H].
    eapply collect_result_wf; [exact Hp| |exact E1]. intros it. apply Hr. now left.
Qed.

Theorem visit_items_wf uc tstr T l pd pd' : pd_wf pd = true -> visit_items uc tstr T l pd = Ok pd' -> pd_wf pd' = true.
Proof.
  intros Hp H. rewrite visit_items_spec in H. eapply fold_collect_wf; [exact Hp| |exact H].
  intros r it Hin ->. unfold wanted_results in Hin. apply in_map_iff in Hin as (x & Ex & _).
  eapply parse_leaf_wf; eassumption.
Qed.

(* what parser::parse returns for a file has the shape the back ends rely on *)
Theorem parse_file_wf uc tstr T f pd : parse_file uc tstr T f = Ok (Some pd) -> pd_wf pd = true.
Proof.
  unfold parse_file. destruct (negb (fl_marker f)); [discriminate|].
  destruct (accepts T (fl_attrs f)).
  - destruct (visit_items uc tstr T (fl_items f) empty_parsed) as [p| |] eqn:E; cbn [bind]; try discriminate.
    destruct (parsed_is_empty p); [discriminate|]. intros [= <-]. eapply visit_items_wf; [|exact E]. reflexivity.
  - cbn [bind]. destruct (parsed_is_empty empty_parsed); [discriminate|]. intros [= <-]. reflexivity.
Qed.

(* ---------- the collector and reconcile ---------- *)
Lemma pd_add_wf a b : pd_wf a = true -> pd_wf b = true -> pd_wf (pd_add a b) = true.
Proof.
  rewrite !pd_wf_iff. intros (A1 & A2 & A3 & A4) (B1 & B2 & B3 & B4).
  unfold pd_add. cbn [p_structs p_enums p_aliases p_consts]. rewrite !forallb_app, A1, A2, A3, A4, B1, B2, B3, B4. auto.
Qed.

Lemma collect_single_wf arrivals : Forall (fun pd => pd_wf pd = true) arrivals -> pd_wf (collect_single arrivals) = true.
Proof.
  unfold collect_single. assert (H0 : pd_wf empty_parsed = true) by reflexivity. revert H0. generalize empty_parsed.
  induction arrivals as [|a r IH]; intros acc Hacc H; cbn [fold_left]; [exact Hacc|].
  apply Forall_cons_iff in H as [Ha Hr]. apply IH; [|exact Hr]. now apply pd_add_wf.
Qed.

Lemma check_type_no64 cn rn im t : rtype_no64 (check_type cn rn im t) = rtype_no64 t.
Proof.
  induction t as [id|id ps IH|x IH|x n IH|x IH|k v IHk IHv|x IH|p] using rtype_ind'; cbn [check_type rtype_no64]; auto.
  - destruct (resolve_renamed cn rn im id); reflexivity.
  - induction IH as [|x r Hx _ IHr]; [reflexivity|]. cbn [map forallb]. now rewrite Hx, IHr.
  - now rewrite IHk, IHv.
Qed.

Lemma forallb_map {A B} (f : B -> bool) (g : A -> B) l : forallb f (map g l) = forallb (fun x => f (g x)) l.
Proof. induction l as [|x r IH]; [reflexivity|]. cbn [map forallb]. now rewrite IH. Qed.

Lemma forallb_ext' {A} (f g : A -> bool) l : (forall x, f x = g x) -> forallb f l = forallb g l.
Proof. intros H. induction l as [|x r IH]; [reflexivity|]. cbn [forallb]. now rewrite H, IH. Qed.

Lemma insert_stable_forallb {A} (key : A -> str) (f : A -> bool) x l :
  forallb f (insert_stable key x l) = f x && forallb f l.
Proof.
  induction l as [|y r IH]; cbn [insert_stable forallb]; [reflexivity|].
  destruct (str_ltb (key x) (key y)); cbn [forallb]; [reflexivity|]. rewrite IH.
  destruct (f x), (f y); reflexivity.
Qed.

Lemma stable_sort_forallb {A} (key : A -> str) (f : A -> bool) l : forallb f (stable_sort key l) = forallb f l.
Proof.
  unfold stable_sort.
  assert (H : forall acc, forallb f (fold_left (fun acc x => insert_stable key x acc) l acc) = forallb f acc && forallb f l).
  { induction l as [|x r IH]; intros acc; cbn [fold_left forallb]; [now rewrite andb_true_r|].
    rewrite IH, insert_stable_forallb. destruct (f x), (forallb f acc); reflexivity. }
  rewrite H. reflexivity.
Qed.

Lemma check_field_wf cn rn im f : field_wf (check_field cn rn im f) = field_wf f.
Proof. unfold field_wf, check_field. cbn [fty]. apply check_type_no64. Qed.

Lemma check_variant_wf cn rn im v : variant_wf (check_variant cn rn im v) = variant_wf v.
Proof.
  destruct v as [sh|t sh|fs sh]; cbn [check_variant variant_wf]; [reflexivity|apply check_type_no64|].
  rewrite forallb_map. apply forallb_ext'. intros f. apply check_field_wf.
Qed.

Lemma check_variant_unit cn rn im v : is_unit_variant (check_variant cn rn im v) = is_unit_variant v.
Proof. destruct v; reflexivity. Qed.

Theorem reconcile_crate_wf rn cn pd : pd_wf pd = true -> pd_wf (reconcile_crate rn cn pd) = true.
Proof.
  rewrite !pd_wf_iff. intros (H1 & H2 & H3 & H4). unfold reconcile_crate. cbn [p_structs p_enums p_aliases p_consts].
  rewrite !stable_sort_forallb, !forallb_map. repeat split.
  - rewrite <- H1. apply forallb_ext'. intros s. cbn [item_wf sfields]. rewrite forallb_map. apply forallb_ext'. intros f. apply check_field_wf.
  - rewrite <- H2. apply forallb_ext'. intros [sh|tg ct sh]; cbn [item_wf enum_wf check_eshared evariants]; rewrite forallb_map;
      apply forallb_ext'; intros v; [apply check_variant_unit|apply check_variant_wf].
  - rewrite <- H3. apply forallb_ext'. intros a. cbn [item_wf atype]. apply check_type_no64.
  - rewrite <- H4. apply forallb_ext'. intros c. cbn [item_wf check_const ctype]. apply check_type_no64.
Qed.

(* the input of the back end in single-file mode *)
Theorem single_file_input_wf arrivals : Forall (fun pd => pd_wf pd = true) arrivals -> pd_wf (single_file_input arrivals) = true.
Proof. intros H. unfold single_file_input. apply reconcile_crate_wf. now apply collect_single_wf. Qed.
