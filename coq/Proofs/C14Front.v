(* C14, front-end part: what one file contributes in multi-file mode.
   - the import set is a set (imp_extend), the use-tree iterator (item_use_iter) finds exactly the name
     leaves of the trees it is given, under the base crate fixed by the first path segment;
   - the multi-file visitor parses the same items as the single-file visitor (only p_imports differs);
   - p_type_names is the set of generated names of the parsed TYPES (structs, enums, aliases; not consts);
   - a glob leaf of a use tree is yielded as a `*` import under the tree's base crate and survives
     reconcile_referenced_types;
   - reconcile_referenced_types keeps the import of every referenced, non-local name. *)
From Coq Require Import List Bool Lia Permutation String.
From TS Require Import Model.Str Model.Outcome Model.Unicode Model.Syntax Model.Attrs Model.Rename Model.Types Model.Parse
                       Model.Reconcile Model.Collect Model.Lang.Common Model.MultiFile.
From TS Require Import Spec.C11Spec Spec.C14Spec.
From TS Require Import Proofs.FrontItems Proofs.C14.
Import ListNotations.

(* an order oracle: the iteration order of a hash container is some rearrangement of its elements *)
Definition oracle_ok {A} (h : list A -> list A) : Prop := forall l x, In x (h l) <-> In x l.

(* ====================================================================================== *)
(* HashSet<ImportedType>                                                                    *)
(* ====================================================================================== *)
Lemma imp_eqb_eq a b : imp_eqb a b = true <-> a = b.
Proof.
  unfold imp_eqb. rewrite andb_true_iff, !str_eqb_eq. destruct a, b; cbn. split; [intros [-> ->]; reflexivity|intros [= -> ->]; auto].
Qed.
Lemma imp_mem_in x l : imp_mem x l = true <-> In x l.
Proof.
  unfold imp_mem. rewrite existsb_exists. split.
  - intros (y & Hy & E). apply imp_eqb_eq in E. now subst.
  - intros H. exists x. split; [exact H|now apply imp_eqb_eq].
Qed.
Lemma imp_insert_in x y l : In x (imp_insert y l) <-> x = y \/ In x l.
Proof.
  unfold imp_insert. destruct (imp_mem y l) eqn:E.
  - apply imp_mem_in in E. split; [auto|]. intros [->|H]; assumption.
  - rewrite in_app_iff. cbn. intuition congruence.
Qed.
Lemma imp_extend_in x xs : forall l, In x (imp_extend l xs) <-> In x l \/ In x xs.
Proof.
  unfold imp_extend. induction xs as [|y xs IH]; intros l; cbn [fold_left]; [cbn; tauto|].
  rewrite IH, imp_insert_in. cbn [In]. intuition congruence.
Qed.

(* ====================================================================================== *)
(* ItemUseIter                                                                              *)
(* ====================================================================================== *)
Lemma name_leaf_group n l : name_leaf n (UGroup l) = existsb (name_leaf n) l.
Proof. cbn [name_leaf]. induction l as [|x l IH]; [reflexivity|]. cbn [existsb]. now rewrite IH. Qed.

Lemma glob_leaf_group l : glob_leaf (UGroup l) = existsb glob_leaf l.
Proof. cbn [glob_leaf]. induction l as [|x l IH]; [reflexivity|]. cbn [existsb]. now rewrite IH. Qed.

Section Iter.
Variable uc : unicode.
Variable own : str.

Ltac iter_step H :=
  match type of H with
  | bind ?X _ = Ok _ => let more := fresh "more" in let E := fresh "E" in
      destruct X as [more| |] eqn:E; cbn [bind] in H; [|discriminate H|discriminate H]
  end.

(* every import the iterator yields is a `*` or a name leaf of one of the trees on the stack *)
Lemma iter_origin fuel : forall stack bn res, item_use_iter uc fuel own stack bn = Ok res ->
  forall imp, In imp res -> type_name imp = GLOB \/ exists t, In t stack /\ name_leaf (type_name imp) t = true.
Proof.
  induction fuel as [|fuel IH]; intros stack bn res H imp Hin.
  - destruct stack; cbn [item_use_iter] in H; [injection H as <-; destruct Hin|discriminate].
  - destruct stack as [|t rest]; cbn [item_use_iter] in H; [injection H as <-; destruct Hin|].
    destruct t as [id sub|id|id al| |items].
    + destruct (IH _ _ _ H imp Hin) as [G|(t & Ht & Hn)]; [now left|right].
      destruct Ht as [<-|Ht]; [exists (UPath id sub); split; [now left|exact Hn]|exists t; split; [now right|exact Hn]].
    + destruct bn as [b|]; [|destruct (IH _ _ _ H imp Hin) as [G|(t & Ht & Hn)]; [now left|right; exists t; split; [now right|exact Hn]]].
      iter_step H. injection H as <-.
      assert (K : imp = {| base_crate := resolve_crate own b; type_name := id |} \/ In imp more).
      { destruct (accept_crate uc (resolve_crate own b) && accept_type uc id); [destruct Hin as [<-|Hin]; auto|auto]. }
      destruct K as [->|K].
      * right. exists (UName id). split; [now left|]. cbn. apply str_eqb_refl.
      * destruct (IH _ _ _ E imp K) as [G|(t & Ht & Hn)]; [now left|right]. exists t. split; [now right|exact Hn].
    + destruct (IH _ _ _ H imp Hin) as [G|(t & Ht & Hn)]; [now left|right]. exists t. split; [now right|exact Hn].
    + destruct bn as [b|]; [|destruct (IH _ _ _ H imp Hin) as [G|(t & Ht & Hn)]; [now left|right; exists t; split; [now right|exact Hn]]].
      iter_step H. injection H as <-.
      assert (K : imp = {| base_crate := resolve_crate own b; type_name := GLOB |} \/ In imp more).
      { destruct (accept_crate uc (resolve_crate own b)); [destruct Hin as [<-|Hin]; auto|auto]. }
      destruct K as [->|K]; [now left|].
      destruct (IH _ _ _ E imp K) as [G|(t & Ht & Hn)]; [now left|right]. exists t. split; [now right|exact Hn].
    + destruct (IH _ _ _ H imp Hin) as [G|(t & Ht & Hn)]; [now left|right].
      apply in_app_iff in Ht as [Ht|Ht].
      * exists (UGroup items). split; [now left|]. rewrite name_leaf_group. apply existsb_exists. exists t. split; [now apply in_rev|exact Hn].
      * exists t. split; [now right|exact Hn].
Qed.

(* once the base name is fixed, every import carries it *)
Lemma iter_base fuel b : forall stack res, item_use_iter uc fuel own stack (Some b) = Ok res ->
  forall imp, In imp res -> base_crate imp = resolve_crate own b.
Proof.
  induction fuel as [|fuel IH]; intros stack res H imp Hin.
  - destruct stack; cbn [item_use_iter] in H; [injection H as <-; destruct Hin|discriminate].
  - destruct stack as [|t rest]; cbn [item_use_iter] in H; [injection H as <-; destruct Hin|].
    destruct t as [id sub|id|id al| |items].
    + exact (IH _ _ H imp Hin).
    + iter_step H. injection H as <-.
      destruct (accept_crate uc (resolve_crate own b) && accept_type uc id); [destruct Hin as [<-|Hin]; [reflexivity|]|]; exact (IH _ _ E imp Hin).
    + exact (IH _ _ H imp Hin).
    + iter_step H. injection H as <-.
      destruct (accept_crate uc (resolve_crate own b)); [destruct Hin as [<-|Hin]; [reflexivity|]|]; exact (IH _ _ E imp Hin).
    + exact (IH _ _ H imp Hin).
Qed.

(* and every accepted name leaf of every tree on the stack is yielded *)
Lemma iter_complete fuel b n :
  accept_crate uc (resolve_crate own b) = true -> accept_type uc n = true ->
  forall stack res, item_use_iter uc fuel own stack (Some b) = Ok res ->
  forall t, In t stack -> name_leaf n t = true -> In {| base_crate := resolve_crate own b; type_name := n |} res.
Proof.
  intros Hc Hn. induction fuel as [|fuel IH]; intros stack res H t Ht Hl.
  - destruct stack; [destruct Ht|cbn [item_use_iter] in H; discriminate].
  - destruct stack as [|t0 rest]; [destruct Ht|]. cbn [item_use_iter] in H.
    destruct t0 as [id sub|id|id al| |items].
    + destruct Ht as [<-|Ht]; [apply (IH _ _ H sub); [now left|exact Hl]|apply (IH _ _ H t); [now right|exact Hl]].
    + iter_step H. injection H as <-.
      destruct Ht as [<-|Ht].
      * cbn [name_leaf] in Hl. apply str_eqb_eq in Hl. subst id. rewrite Hc, Hn. now left.
      * pose proof (IH _ _ E t Ht Hl) as K. destruct (_ && _); [now right|exact K].
    + destruct Ht as [<-|Ht]; [discriminate Hl|exact (IH _ _ H t Ht Hl)].
    + iter_step H. injection H as <-.
      destruct Ht as [<-|Ht]; [discriminate Hl|].
      pose proof (IH _ _ E t Ht Hl) as K. destruct (accept_crate uc _); [now right|exact K].
    + destruct Ht as [<-|Ht].
      * rewrite name_leaf_group in Hl. apply existsb_exists in Hl as (x & Hx & Hlx).
        apply (IH _ _ H x); [apply in_app_iff; left; now apply in_rev in Hx|exact Hlx].
      * apply (IH _ _ H t); [apply in_app_iff; now right|exact Hl].
Qed.

(* and every glob leaf of every tree on the stack is yielded as a `*` import *)
Lemma iter_glob_complete fuel b :
  accept_crate uc (resolve_crate own b) = true ->
  forall stack res, item_use_iter uc fuel own stack (Some b) = Ok res ->
  forall t, In t stack -> glob_leaf t = true -> In {| base_crate := resolve_crate own b; type_name := GLOB |} res.
Proof.
  intros Hc. induction fuel as [|fuel IH]; intros stack res H t Ht Hl.
  - destruct stack; [destruct Ht|cbn [item_use_iter] in H; discriminate].
  - destruct stack as [|t0 rest]; [destruct Ht|]. cbn [item_use_iter] in H.
    destruct t0 as [id sub|id|id al| |items].
    + destruct Ht as [<-|Ht]; [apply (IH _ _ H sub); [now left|exact Hl]|apply (IH _ _ H t); [now right|exact Hl]].
    + iter_step H. injection H as <-.
      destruct Ht as [<-|Ht]; [discriminate Hl|].
      pose proof (IH _ _ E t Ht Hl) as K. destruct (_ && _); [now right|exact K].
    + destruct Ht as [<-|Ht]; [discriminate Hl|exact (IH _ _ H t Ht Hl)].
    + iter_step H. injection H as <-. rewrite Hc.
      destruct Ht as [<-|Ht]; [now left|]. right. exact (IH _ _ E t Ht Hl).
    + destruct Ht as [<-|Ht].
      * rewrite glob_leaf_group in Hl. apply existsb_exists in Hl as (x & Hx & Hlx).
        apply (IH _ _ H x); [apply in_app_iff; left; now apply in_rev in Hx|exact Hlx].
      * apply (IH _ _ H t); [apply in_app_iff; now right|exact Hl].
Qed.

(* `use d::...` *)
Lemma parse_import_path d sub : parse_import uc own (UPath d sub) = item_use_iter uc (S (use_tree_size sub)) own [sub] (Some d).
Proof. reflexivity. Qed.
End Iter.

(* ====================================================================================== *)
(* the multi-file visitor = the single-file visitor + imports                               *)
(* ====================================================================================== *)
Definition core (pd : parsed) : parsed := with_imports pd [].

Lemma with_imports_id pd : with_imports pd (p_imports pd) = pd.
Proof. now destruct pd. Qed.
Lemma core_with_imports pd im : core (with_imports pd im) = core pd.
Proof. reflexivity. Qed.
Lemma items_of_core pd : items_of (core pd) = items_of pd.
Proof. reflexivity. Qed.
Lemma items_of_with_imports pd im : items_of (with_imports pd im) = items_of pd.
Proof. reflexivity. Qed.

Definition omap_wi (im : list imported) (o : outcome parsed) : outcome parsed :=
  match o with Ok p => Ok (with_imports p im) | Err e => Err e | Panic s => Panic s end.

Lemma collect_result_wi pd r im : collect_result (with_imports pd im) r = omap_wi im (collect_result pd r).
Proof. destruct r as [it|e|s]; [destruct it|..]; reflexivity. Qed.

Lemma fold_collect_wi rs : forall pd im, fold_collect rs (with_imports pd im) = omap_wi im (fold_collect rs pd).
Proof.
  induction rs as [|r rs IH] using rev_ind; intros pd im; [reflexivity|].
  rewrite !fold_collect_app, IH. destruct (fold_collect rs pd) as [p| |]; cbn [omap_wi bind]; try reflexivity.
  unfold fold_collect. cbn [fold_left bind]. apply collect_result_wi.
Qed.

Lemma item_uses_nest inner : item_uses (INest inner) = flat_map item_uses inner.
Proof. cbn [item_uses]. induction inner as [|x r IH]; [reflexivity|]. cbn [flat_map]. now rewrite IH. Qed.

Section Visit.
Variable uc : unicode.
Variable tstr : str -> option ty.
Variable T : list str.
Variable own : str.
Variable ign : list str.

Lemma visit_item_wi it pd im : visit_item uc tstr T it (with_imports pd im) = omap_wi im (visit_item uc tstr T it pd).
Proof. rewrite !visit_item_spec. apply fold_collect_wi. Qed.

Lemma visit_item_imports it pd pd' : visit_item uc tstr T it pd = Ok pd' -> p_imports pd' = p_imports pd.
Proof.
  intros H. pose proof (visit_item_wi it pd (p_imports pd)) as K. rewrite with_imports_id, H in K. cbn [omap_wi] in K.
  injection K as K. rewrite K. reflexivity.
Qed.
Lemma visit_item_core it pd pd' : visit_item uc tstr T it pd = Ok pd' -> visit_item uc tstr T it (core pd) = Ok (core pd').
Proof. intros H. unfold core. now rewrite visit_item_wi, H. Qed.

Lemma visit_nest inner pd : visit_item uc tstr T (INest inner) pd = visit_items uc tstr T inner pd.
Proof.
  cbn [visit_item]. revert pd. induction inner as [|x r IH]; intros pd; [reflexivity|].
  cbn [visit_items]. destruct (visit_item uc tstr T x pd); cbn [bind]; auto.
Qed.
Lemma visit_multi_nest inner pd : visit_item_multi uc tstr T own ign (INest inner) pd = visit_items_multi uc tstr T own ign inner pd.
Proof.
  cbn [visit_item_multi]. revert pd. induction inner as [|x r IH]; intros pd; [reflexivity|].
  cbn [visit_items_multi]. destruct (visit_item_multi uc tstr T own ign x pd); cbn [bind]; auto.
Qed.

(* what a successful visit of a list of use trees' worth of items establishes *)
Definition vim_post (uses : list use_tree) (single : outcome parsed -> Prop) (pd pd' : parsed) : Prop :=
  single (Ok (core pd')) /\
  (forall t, In t uses -> exists found, parse_import uc own t = Ok found /\
      forall imp, In imp found -> not_ignored ign imp = true -> In imp (p_imports pd')) /\
  (forall imp, In imp (p_imports pd) -> In imp (p_imports pd')) /\
  (forall imp, In imp (p_imports pd') -> In imp (p_imports pd) \/
      exists t found, In t uses /\ parse_import uc own t = Ok found /\ In imp found).

Definition vim_prop (it : item) : Prop := forall pd pd',
  visit_item_multi uc tstr T own ign it pd = Ok pd' ->
  vim_post (item_uses it) (fun o => visit_item uc tstr T it (core pd) = o) pd pd'.
Definition vims_prop (l : list item) : Prop := forall pd pd',
  visit_items_multi uc tstr T own ign l pd = Ok pd' ->
  vim_post (flat_map item_uses l) (fun o => visit_items uc tstr T l (core pd) = o) pd pd'.

Lemma vims_of_forall l : Forall vim_prop l -> vims_prop l.
Proof.
  induction 1 as [|x r Hx _ IH]; intros pd pd' H.
  - cbn [visit_items_multi] in H. injection H as <-. repeat split; auto. intros t [].
  - cbn [visit_items_multi] in H. destruct (visit_item_multi uc tstr T own ign x pd) as [p1| |] eqn:E1; cbn [bind] in H; try discriminate.
    destruct (Hx _ _ E1) as (S1 & U1 & M1 & O1). destruct (IH _ _ H) as (S2 & U2 & M2 & O2).
    split; [|split; [|split]].
    + cbn [visit_items]. rewrite S1. cbn [bind]. exact S2.
    + cbn [flat_map]. intros t Ht. apply in_app_iff in Ht as [Ht|Ht].
      * destruct (U1 t Ht) as (found & Hf & Hall). exists found. split; [exact Hf|]. intros imp Hi Hn. apply M2. now apply Hall.
      * exact (U2 t Ht).
    + intros imp Hi. apply M2, M1, Hi.
    + intros imp Hi. cbn [flat_map]. destruct (O2 imp Hi) as [K|(t & found & Ht & Hf & Hin)].
      * destruct (O1 imp K) as [K'|(t & found & Ht & Hf & Hin)]; [now left|right].
        exists t, found. split; [apply in_app_iff; now left|auto].
      * right. exists t, found. split; [apply in_app_iff; now right|auto].
Qed.

Lemma vim_leaf it : item_uses it = [] -> (forall pd, visit_item_multi uc tstr T own ign it pd = visit_item uc tstr T it pd) -> vim_prop it.
Proof.
  intros Hu Hv pd pd' H. rewrite Hv in H. rewrite Hu.
  split; [now apply visit_item_core|]. rewrite (visit_item_imports _ _ _ H).
  split; [intros t []|]. split; [auto|]. intros imp Hi. now left.
Qed.

Lemma vim_all it : vim_prop it.
Proof.
  induction it as [a i g fs|a i g vs|a i g t|a i t e|u|inner IH] using item_ind'.
  1-4: apply vim_leaf; reflexivity.
  - intros pd pd' H. cbn [visit_item_multi] in H.
    destruct (parse_import uc own u) as [found| |] eqn:E; cbn [bind] in H; try discriminate. injection H as <-.
    cbn [item_uses]. split; [reflexivity|]. cbn [p_imports with_imports]. split; [|split].
    + intros t [<-|[]]. exists found. split; [exact E|]. intros imp Hi Hn. apply imp_extend_in. right. apply filter_In. now split.
    + intros imp Hi. apply imp_extend_in. now left.
    + intros imp Hi. apply imp_extend_in in Hi as [Hi|Hi]; [now left|right].
      apply filter_In in Hi as [Hi _]. exists u, found. split; [now left|auto].
  - intros pd pd' H. rewrite visit_multi_nest in H. rewrite item_uses_nest.
    destruct (vims_of_forall inner IH pd pd' H) as (S1 & R). split; [|exact R]. now rewrite visit_nest.
Qed.

Lemma vims_all l : vims_prop l.
Proof. apply vims_of_forall. apply Forall_forall. intros x _. apply vim_all. Qed.
End Visit.

(* ====================================================================================== *)
(* p_type_names = the generated names of the parsed TYPES (a const is not entered: parser.rs push) *)
(* ====================================================================================== *)
Definition tn_ok (pd : parsed) : Prop :=
  forall n, In n (p_type_names pd) <-> exists it, In it (items_of pd) /\ is_type14 it = true /\ renamed (item_id it) = n.

Lemma tn_ok_core pd : tn_ok (core pd) <-> tn_ok pd.
Proof. reflexivity. Qed.

Lemma tn_insert_in x y l : In x (tn_insert y l) <-> x = y \/ In x l.
Proof.
  unfold tn_insert. destruct (mem_str y l) eqn:E.
  - apply mem_str_in in E. split; [auto|]. intros [->|H]; assumption.
  - rewrite in_app_iff. cbn. intuition congruence.
Qed.

Lemma push_items it' pd it : In it' (items_of (push pd it)) <-> it' = it \/ In it' (items_of pd).
Proof.
  unfold items_of. destruct it; cbn [push p_aliases p_structs p_enums p_consts];
    rewrite ?map_app, ?in_app_iff; cbn [map In]; intuition congruence.
Qed.
Lemma push_names pd it :
  p_type_names (push pd it) = if is_type14 it then tn_insert (renamed (item_id it)) (p_type_names pd) else p_type_names pd.
Proof. destruct it; reflexivity. Qed.

Lemma push_tn_ok pd it : tn_ok pd -> tn_ok (push pd it).
Proof.
  intros H n. unfold tn_ok in H. rewrite push_names. destruct (is_type14 it) eqn:Ty.
  - rewrite tn_insert_in, H. split.
    + intros [->|(x & Hx & T & E)]; [exists it; split; [apply push_items; now left|split; [exact Ty|reflexivity]]|exists x; split; [apply push_items; now right|split; [exact T|exact E]]].
    + intros (x & Hx & T & E). apply push_items in Hx as [->|Hx]; [now left|right; now exists x].
  - rewrite H. split.
    + intros (x & Hx & T & E). exists x. split; [apply push_items; now right|split; [exact T|exact E]].
    + intros (x & Hx & T & E). apply push_items in Hx as [->|Hx]; [congruence|now exists x].
Qed.

Lemma collect_result_tn_ok pd r pd' : tn_ok pd -> collect_result pd r = Ok pd' -> tn_ok pd'.
Proof.
  destruct r as [it|e|s]; cbn [collect_result]; intros H E; [|injection E as <-; exact H|discriminate].
  injection E as <-. now apply push_tn_ok.
Qed.

Lemma fold_collect_tn_ok rs : forall pd pd', tn_ok pd -> fold_collect rs pd = Ok pd' -> tn_ok pd'.
Proof.
  induction rs as [|r rs IH] using rev_ind; intros pd pd' H E.
  - injection E as <-. exact H.
  - rewrite fold_collect_app in E. destruct (fold_collect rs pd) as [p| |] eqn:F; cbn [bind] in E; try discriminate.
    unfold fold_collect in E. cbn [fold_left bind] in E. eapply collect_result_tn_ok; [|exact E]. eapply IH; eauto.
Qed.

Lemma tn_ok_empty : tn_ok empty_parsed.
Proof. intros n. split; [intros []|intros (it & [] & _)]. Qed.

(* the reading used downstream: a name of the table is the generated name of a type item, and conversely *)
Lemma tn_ok_type pd n : tn_ok pd -> In n (p_type_names pd) ->
  exists it, In it (filter is_type14 (items_of pd)) /\ renamed (item_id it) = n.
Proof. intros H Hn. apply H in Hn as (it & Hit & T & E). exists it. split; [apply filter_In; now split|exact E]. Qed.
Lemma tn_ok_of_type pd it : tn_ok pd -> In it (items_of pd) -> is_type14 it = true -> In (renamed (item_id it)) (p_type_names pd).
Proof. intros H Hit T. apply H. now exists it. Qed.

Lemma parse_file_tn_ok uc tstr T f pd : parse_file uc tstr T f = Ok (Some pd) -> tn_ok pd.
Proof.
  unfold parse_file. destruct (negb (fl_marker f)); [discriminate|].
  destruct (accepts T (fl_attrs f)).
  - rewrite visit_items_spec. destruct (fold_collect _ empty_parsed) as [p| |] eqn:F; cbn [bind]; try discriminate.
    destruct (parsed_is_empty p); [discriminate|]. intros [= <-]. eapply fold_collect_tn_ok; [apply tn_ok_empty|exact F].
  - cbn [bind]. change (parsed_is_empty empty_parsed) with true. discriminate.
Qed.

(* ====================================================================================== *)
(* a parsed item that is not serde-renamed is generated under its Rust name                 *)
(* (get_ident of an item: no rename_all applies to the item's own name)                     *)
(* ====================================================================================== *)
Definition id_plain (i : id) : Prop := via_serde_rename i = false -> renamed i = original i.
Definition ids_ok (pd : parsed) : Prop := forall it, In it (items_of pd) -> id_plain (item_id it).

Lemma get_ident_plain uc ident attrs i : get_ident uc (Some ident) attrs None = Ok i -> id_plain i.
Proof.
  unfold get_ident. cbn [rename_all_to_case bind]. destruct (serde_rename uc attrs); intros [= <-] V; cbn in *; [discriminate|reflexivity].
Qed.

Ltac plain_step :=
  match goal with
  | H : bind ?x _ = Ok _ |- _ => let E := fresh "E" in destruct x eqn:E; cbn [bind] in H; try discriminate
  | H : Ok _ = Ok _ |- _ => injection H as <-
  | H : Err _ = Ok _ |- _ => discriminate
  | H : Panic _ = Ok _ |- _ => discriminate
  end.

Lemma mk_alias_plain uc attrs ident gens t rit : mk_alias uc attrs ident gens t = Ok rit -> id_plain (item_id rit).
Proof. unfold mk_alias. intros H. repeat plain_step. cbn [item_id aid]. eauto using get_ident_plain. Qed.

Lemma parse_leaf_plain uc tstr T it rit : parse_leaf uc tstr T it = Ok rit -> id_plain (item_id rit).
Proof.
  destruct it as [a i g fs|a i g vs|a i g t|a i t e|u|inner]; cbn [parse_leaf]; try discriminate.
  - unfold parse_struct. destruct (get_serialized_as_type uc a).
    + intros H. repeat plain_step. cbn [item_id aid]. eauto using get_ident_plain.
    + destruct fs as [l|l|].
      * intros H. repeat plain_step. cbn [item_id sid]. eauto using get_ident_plain.
      * destruct l as [|f [|f2 r]]; try discriminate. intros H. plain_step. eauto using mk_alias_plain.
      * intros H. repeat plain_step. cbn [item_id sid]. eauto using get_ident_plain.
  - unfold parse_enum. destruct (get_serialized_as_type uc a).
    + intros H. repeat plain_step. cbn [item_id aid]. eauto using get_ident_plain.
    + cbv zeta. intros H. plain_step. plain_step.
      destruct (forallb _ _); destruct (get_tag_key uc a), (get_content_key uc a); try discriminate;
        injection H as <-; cbn [item_id enum_shared eid]; eauto using get_ident_plain.
  - unfold parse_type_alias. intros H. plain_step. eauto using mk_alias_plain.
  - unfold parse_const. intros H. plain_step. plain_step.
    match type of H with match ?r with _ => _ end = _ => destruct r end; try discriminate;
      repeat plain_step; cbn [item_id cid]; eauto using get_ident_plain.
Qed.

Lemma push_ids_ok pd it : ids_ok pd -> id_plain (item_id it) -> ids_ok (push pd it).
Proof. intros H Hi x Hx. apply push_items in Hx as [->|Hx]; [exact Hi|now apply H]. Qed.

Lemma fold_collect_ids_ok rs : (forall it, In (Ok it) rs -> id_plain (item_id it)) ->
  forall pd pd', ids_ok pd -> fold_collect rs pd = Ok pd' -> ids_ok pd'.
Proof.
  induction rs as [|r rs IH] using rev_ind; intros Hrs pd pd' H E.
  - injection E as <-. exact H.
  - rewrite fold_collect_app in E. destruct (fold_collect rs pd) as [p| |] eqn:F; cbn [bind] in E; try discriminate.
    unfold fold_collect in E. cbn [fold_left bind] in E.
    assert (Hp : ids_ok p) by (eapply IH; eauto; intros it Hit; apply Hrs, in_app_iff; now left).
    destruct r as [it|e|s]; cbn [collect_result] in E; [|injection E as <-; exact Hp|discriminate].
    injection E as <-. apply push_ids_ok; [exact Hp|]. apply Hrs, in_app_iff. right. now left.
Qed.

Lemma parse_file_ids_ok uc tstr T f pd : parse_file uc tstr T f = Ok (Some pd) -> ids_ok pd.
Proof.
  unfold parse_file. destruct (negb (fl_marker f)); [discriminate|].
  destruct (accepts T (fl_attrs f)).
  - rewrite visit_items_spec. destruct (fold_collect _ empty_parsed) as [p| |] eqn:F; cbn [bind]; try discriminate.
    destruct (parsed_is_empty p); [discriminate|]. intros [= <-]. refine (fold_collect_ids_ok _ _ empty_parsed p _ F).
    + intros it Hit. unfold wanted_results in Hit. apply in_map_iff in Hit as (x & Hx & _). eauto using parse_leaf_plain.
    + intros it Hit. cbn in Hit. destruct Hit.
  - cbn [bind]. change (parsed_is_empty empty_parsed) with true. discriminate.
Qed.

(* ====================================================================================== *)
(* one file in multi-file mode                                                              *)
(* ====================================================================================== *)
Lemma parsed_is_empty_core pd : parsed_is_empty (core pd) = parsed_is_empty pd.
Proof. reflexivity. Qed.

Section File.
Variable uc : unicode.
Variable tstr : str -> option ty.
Variable T : list str.
Variable own : str.
Variable ign : list str.
Variable ho_file : list imported -> list imported.

(* the import candidates of a file before reconcile_referenced_types: from its use trees and its paths *)
Definition file_candidates (f : file) (pd1 : parsed) : Prop :=
  (forall t, In t (file_uses_trees f) -> exists found, parse_import uc own t = Ok found /\
      forall imp, In imp found -> not_ignored ign imp = true -> In imp (p_imports pd1)) /\
  (forall p imp, In p (fl_paths f) -> path_candidate uc own ign p = Some imp -> In imp (p_imports pd1)) /\
  (forall imp, In imp (p_imports pd1) ->
      (exists t found, In t (file_uses_trees f) /\ parse_import uc own t = Ok found /\ In imp found) \/
      (exists p, In p (fl_paths f) /\ path_candidate uc own ign p = Some imp)).

Theorem parse_file_multi_spec f o : parse_file_multi uc tstr T own ign ho_file f = Ok o ->
  match o with
  | None => parse_file uc tstr T f = Ok None
  | Some pdm => parse_file uc tstr T f = Ok (Some (core pdm)) /\
                exists pd1, core pd1 = core pdm /\ pdm = reconcile_referenced_types uc ho_file pd1 /\ file_candidates f pd1
  end.
Proof.
  unfold parse_file_multi, parse_file. destruct (negb (fl_marker f)); [intros [= <-]; reflexivity|].
  destruct (accepts T (fl_attrs f)).
  - destruct (visit_items_multi uc tstr T own ign (fl_items f) empty_parsed) as [pd1| |] eqn:V; cbn [bind]; try discriminate.
    destruct (vims_all uc tstr T own ign _ _ _ V) as (S1 & U1 & M1 & O1).
    change (core empty_parsed) with empty_parsed in S1. rewrite S1. cbn [bind].
    set (pd2 := with_imports pd1 _).
    change (parsed_is_empty pd2) with (parsed_is_empty pd1). rewrite parsed_is_empty_core.
    destruct (parsed_is_empty pd1); intros [= <-]; [reflexivity|]. split; [reflexivity|].
    exists pd2. split; [reflexivity|]. split; [reflexivity|]. unfold pd2. cbn [p_imports with_imports]. split; [|split].
    + intros t Ht. destruct (U1 t Ht) as (found & Hf & Hall). exists found. split; [exact Hf|].
      intros imp Hi Hn. apply imp_extend_in. left. now apply Hall.
    + intros p imp Hp Hc. apply imp_extend_in. right. apply in_flat_map. exists p. split; [exact Hp|]. rewrite Hc. now left.
    + intros imp Hi. apply imp_extend_in in Hi as [Hi|Hi].
      * destruct (O1 imp Hi) as [[]|K]. now left.
      * right. apply in_flat_map in Hi as (p & Hp & Hi). exists p. split; [exact Hp|].
        destruct (path_candidate uc own ign p) as [c|]; [destruct Hi as [<-|[]]; reflexivity|destruct Hi].
  - cbn [bind]. change (parsed_is_empty empty_parsed) with true. intros [= <-]. reflexivity.
Qed.
End File.

(* ====================================================================================== *)
(* reconcile_referenced_types keeps what is referenced and not local                        *)
(* ====================================================================================== *)
Lemma unique_strs_in x l : forall seen, In x (unique_strs l seen) <-> In x l /\ ~ In x seen.
Proof.
  induction l as [|y l IH]; intros seen; cbn [unique_strs]; [cbn; tauto|].
  destruct (mem_str y seen) eqn:E.
  - apply mem_str_in in E. rewrite IH. cbn [In]. split; [tauto|]. intros [[->|H] Hn]; [contradiction|auto].
  - apply mem_str_notin in E. cbn [In]. rewrite IH. cbn [In].
    destruct (str_eq_dec y x) as [->|Hne]; [tauto|]. intuition congruence.
Qed.

Lemma rrt_core uc ho pd : core (reconcile_referenced_types uc ho pd) = core pd.
Proof. reflexivity. Qed.

Lemma rrt_keeps uc ho pd n target :
  oracle_ok ho ->
  In n (all_references uc pd) -> ~ In n (p_type_names pd) ->
  In target (p_imports pd) -> type_name target = n ->
  (forall imp, In imp (p_imports pd) -> type_name imp = n -> imp = target) ->
  In target (p_imports (reconcile_referenced_types uc ho pd)).
Proof.
  intros Ho Hr Hl Ht Hn Hu. unfold reconcile_referenced_types. cbn [p_imports with_imports].
  apply imp_extend_in. left. apply imp_extend_in. right. apply in_flat_map. exists n. split.
  - apply filter_In. split; [apply unique_strs_in; split; [exact Hr|intros []]|]. apply negb_true_iff. now apply mem_str_notin.
  - destruct (find (fun imp => str_eqb (type_name imp) n) (ho (p_imports pd))) as [x|] eqn:F.
    + apply find_some in F as [Hx Ex]. apply str_eqb_eq in Ex. apply (proj1 (Ho _ _)) in Hx. rewrite (Hu x Hx Ex). now left.
    + exfalso. pose proof (find_none _ _ F target (proj2 (Ho _ _) Ht)) as K. cbn in K. rewrite Hn, str_eqb_refl in K. discriminate K.
Qed.

(* every identifier the declarative `mentions` sees is one RustType::all_reference_type_names yields *)
Lemma type_idents_ids t n : In n (type_idents t) -> In n (all_type_ids t).
Proof.
  induction t as [id|id ps IH|t IH|t k IH|t IH|k v IHk IHv|t IH|p] using rtype_ind'; cbn [type_idents all_type_ids rtype_id].
  - intros [<-|[]]. now left.
  - intros [<-|H]; [now left|right]. apply in_flat_map in H as (p & Hp & Hn). apply in_flat_map. exists p. split; [exact Hp|].
    rewrite Forall_forall in IH. now apply IH.
  - intros H. right. auto.
  - intros H. right. auto.
  - intros H. right. auto.
  - intros H. right. apply in_app_iff in H. apply in_app_iff. tauto.
  - intros H. right. auto.
  - intros [].
Qed.

Lemma mentions_refs uc pd it n :
  In it (items_of pd) -> In n (mentions it) -> accept_type uc n = true -> In n (all_references uc pd).
Proof.
  intros Hit Hm Ha. unfold mentions in Hm. apply filter_In in Hm as [Hm _]. apply in_flat_map in Hm as (t & Ht & Hn).
  assert (K : In n (all_reference_type_names uc t)).
  { unfold all_reference_type_names. apply filter_In. split; [now apply type_idents_ids|exact Ha]. }
  clear Hn. unfold all_references. rewrite !in_app_iff.
  destruct it as [s|e|a|c]; cbn [item_types] in Ht.
  - apply in_items_struct in Hit. left. apply in_flat_map. exists s. split; [exact Hit|].
    apply in_map_iff in Ht as (f & <- & Hf). apply in_flat_map. now exists f.
  - apply in_items_enum in Hit. right. left. apply in_flat_map. exists e. split; [exact Hit|].
    apply in_flat_map in Ht as (v & Hv & Ht). apply in_flat_map. exists v. split; [exact Hv|].
    destruct v as [sh|t' sh|fs sh]; cbn [variant_types variant_reference_names] in *.
    + destruct Ht.
    + destruct Ht as [<-|[]]. exact K.
    + apply in_map_iff in Ht as (f & <- & Hf). apply in_flat_map. now exists f.
  - apply in_items_alias in Hit. right. right. left. apply in_flat_map. exists a. split; [exact Hit|]. destruct Ht as [<-|[]]. exact K.
  - apply in_items_const in Hit. right. right. right. apply in_flat_map. exists c. split; [exact Hit|]. destruct Ht as [<-|[]]. exact K.
Qed.

(* every `*` candidate survives reconcile_referenced_types, referenced or not *)
Lemma rrt_keeps_glob uc ho pd target :
  In target (p_imports pd) -> type_name target = GLOB ->
  In target (p_imports (reconcile_referenced_types uc ho pd)).
Proof.
  intros Ht Hg. unfold reconcile_referenced_types. cbn [p_imports with_imports].
  apply imp_extend_in. right. apply filter_In. split; [exact Ht|]. rewrite Hg. apply str_eqb_refl.
Qed.

Lemma all_references_core uc pd pd' : core pd = core pd' -> all_references uc pd = all_references uc pd'.
Proof.
  intros H. unfold all_references.
  change (p_structs pd) with (p_structs (core pd)). change (p_enums pd) with (p_enums (core pd)).
  change (p_aliases pd) with (p_aliases (core pd)). change (p_consts pd) with (p_consts (core pd)).
  rewrite H. reflexivity.
Qed.
