(* C09 in folder mode, Scala (no prefix, no state; the folder-mode file of a crate is sc_generate on the crate's data):
   the declarations sc_decl_of returns for the items of ANY program pd' have the shape of Proofs/C09MultiLang.v
   (definitions id.renamed except `type` aliases, id.original; every mentioned id verbatim; `extends` id.renamed for a
   unit enum and id.original for an algebraic one; the ...Inner helper defined from id.renamed and referred to from
   id.original); hence the file satisfies good_C09_multi. *)
From Coq Require Import List Bool String Permutation.
From TS Require Import Model.Str Model.Outcome Model.Unicode Model.Types Model.Parse Model.Reconcile Model.Collect Model.TopsortAlgo Model.Topsort
                       Model.Lang.Common Model.Lang.Decl Model.Lang.Scala Model.MultiFile.
From TS Require Import Spec.C09Spec Spec.C09MultiSpec Spec.C09MultiLangSpec.
From TS Require Import Proofs.C14Front Proofs.C09Common Proofs.C09Recon Proofs.C09Refs Proofs.C09Lang Proofs.C09_Kotlin Proofs.C09_Scala
                       Proofs.C09Multi Proofs.C09MultiLang.
Import ListNotations.

Local Notation sc_names_ok x t :=
  (forall n, In n (texp_names x) -> c09_builtin Scala n = true \/ exists form i, In (form, i) (c09_type_ids t) /\ n = i).

Section SCL.
Variable uc : unicode.
Variable cfg : sc_config.
Variable pd' : parsed.

Notation shape := (c9l_ref_shape Scala [] pd').
Notation decl_ok := (c9l_decl_ok Scala [] pd').
Notation defname := (c09_def_name Scala []).

Lemma scl_defines e : c09_defines Scala e = true.
Proof. unfold c09_defines. now destruct (c9e_kind e). Qed.

Lemma scl_refs tp' owner x :
  In tp' (c09_tposs pd') -> sc_names_ok x (c9t_type tp') ->
  forall r, In r (c09_type_refs Scala owner (c9t_pos tp') x) -> shape r.
Proof. intros Htp Hn. eapply (c9l_names_refs_plain Scala pd'); eauto. Qed.

(* write_struct: a source struct or the helper class of a struct variant *)
Lemma scl_class_shape s d (mk : rfield -> c09_tpos) :
  sc_class_of cfg s = Ok d ->
  (forall f, In f (sfields s) -> In (mk f) (c09_tposs pd') /\ c9t_pos (mk f) = C9Field /\ c9t_type (mk f) = fty f) ->
  exists d1, sc_obs d = [d1] /\ d_name d1 = renamed (sid s) /\ c09_is_def d1 = true /\ forall r, In r (c09_decl_refs Scala d1) -> shape r.
Proof.
  unfold sc_class_of. intros Hd Hmk. destruct (sfields s) as [|f0 fs0] eqn:Efs.
  - injection Hd as <-. eexists. split; [reflexivity|]. cbn. repeat split. intros r [].
  - rewrite <- Efs in *.
    match type of Hd with context [mapM ?f ?l] => destruct (mapM f l) as [ms| |] eqn:E end; cbn [bind] in Hd; try discriminate.
    injection Hd as <-. eexists. split; [reflexivity|]. cbn [d_name]. repeat split.
    intros r Hr. unfold c09_decl_refs in Hr. cbn [d_kind d_name d_members d_variants flat_map] in Hr. rewrite app_nil_r in Hr.
    apply in_flat_map in Hr as (m' & Hm' & Hr). apply in_map_iff in Hm' as (m & <- & Hm).
    apply c09_mapM_Forall2 in E. destruct (c09_Forall2_in_r _ _ _ _ E Hm) as (f & Hf & Em).
    destruct (Hmk f Hf) as (Htp & Hpos & Hty).
    rewrite <- Hpos in Hr. eapply scl_refs; [exact Htp| |exact Hr].
    rewrite Hty. exact (sc_member_names cfg _ _ _ Em).
Qed.

Lemma scl_item it ds : In it (items_of pd') -> sc_decl_of cfg it = Ok ds -> forall o, In o (flat_map sc_obs ds) -> decl_ok o.
Proof.
  intros Hit Hd. unfold items_of in Hit. rewrite !in_app_iff, !in_map_iff in Hit.
  destruct Hit as [(a & <- & Ha)|[(s & <- & Hs)|[(e & <- & He)|(c & <- & _)]]]; cbn [sc_decl_of] in Hd.
  - (* alias: declared under id.original *)
    match type of Hd with context [bind ?m _] => destruct m as [ty| |] eqn:E end; cbn [bind] in Hd; try discriminate. injection Hd as <-.
    assert (Hn : defname (c09_ent_alias a) = original (aid a)) by (unfold c09_def_name; cbn; apply app_nil_r).
    cbn [flat_map sc_obs app]. intros o [<-|[]]. split.
    + intros _. exists (c09_ent_alias a). split; [exact (c09_in_alias pd' a Ha)|]. split; [apply scl_defines|]. rewrite Hn. reflexivity.
    + intros r Hr. unfold c09_decl_refs in Hr. cbn [d_kind d_name d_type] in Hr.
      eapply (scl_refs {| c9t_owner := aid a; c9t_generics := agenerics a; c9t_pos := C9Alias; c9t_type := atype a |}); [exact (c09_tp_alias pd' a Ha)| |exact Hr].
      exact (sc_texp_names cfg _ _ _ E).
  - (* struct *)
    match type of Hd with context [bind ?m _] => destruct m as [d| |] eqn:E end; cbn [bind] in Hd; try discriminate. injection Hd as <-.
    assert (Hn : defname (c09_ent_struct s) = renamed (sid s)) by (unfold c09_def_name; cbn; apply app_nil_r).
    destruct (scl_class_shape s d (fun f => {| c9t_owner := sid s; c9t_generics := sgenerics s; c9t_pos := C9Field; c9t_type := fty f |}) E)
      as (d1 & Hobs & Hname & Hdef & Hrefs).
    { intros f Hf. split; [exact (c09_tp_struct pd' s f Hs Hf)|]. repeat split. }
    cbn [flat_map]. rewrite Hobs. cbn [app]. intros o [<-|[]]. split; [|exact Hrefs].
    intros _. exists (c09_ent_struct s). split; [exact (c09_in_struct pd' s Hs)|]. split; [apply scl_defines|]. rewrite Hn. exact Hname.
  - (* enum: helper classes, then the trait *)
    set (j := c09_ent_enum e).
    assert (Hj : In j (c09_entities pd')) by exact (c09_in_enum pd' e He).
    assert (Hnj : defname j = renamed (eid (enum_shared e))) by (unfold c09_def_name; destruct e; cbn; apply app_nil_r).
    cbv zeta in Hd.
    match type of Hd with context [bind ?m _] => destruct m as [inner| |] eqn:Ei end; cbn [bind] in Hd; try discriminate.
    match type of Hd with context [bind ?m _] => destruct m as [vs| |] eqn:Ev end; cbn [bind] in Hd; try discriminate. injection Hd as <-.
    unfold sc_inner_decls_of in Ei.
    match type of Ei with context [mapM ?f ?l] => destruct (mapM f l) as [dss| |] eqn:Em end; cbn [bind] in Ei; try discriminate.
    injection Ei as <-. apply c09_mapM_Forall2 in Em.
    intros o Ho. apply in_flat_map in Ho as (d0 & Hd0 & Ho). apply in_app_iff in Hd0 as [Hd0|[<-|[]]].
    + (* a helper class *)
      apply in_concat in Hd0 as (l & Hl & Hd0). destruct (c09_Forall2_in_r _ _ _ _ Em Hl) as (v & Hv & Ev').
      destruct v as [sh|t sh|fs vsh].
      * injection Ev' as <-. destruct Hd0.
      * injection Ev' as <-. destruct Hd0.
      * match type of Ev' with context [bind ?m _] => destruct m as [d1| |] eqn:E1 end; cbn [bind] in Ev'; try discriminate.
        injection Ev' as <-. destruct Hd0 as [<-|[]].
        destruct (scl_class_shape _ d1 (fun f => {| c9t_owner := eid (enum_shared e); c9t_generics := egenerics (enum_shared e); c9t_pos := C9Field; c9t_type := fty f |}) E1)
          as (d2 & Hobs & A & B & C).
        { intros f Hf. cbn [anon_struct sfields] in Hf. split; [exact (c09_tp_anon pd' e fs vsh f He Hv Hf)|]. repeat split. }
        rewrite Hobs in Ho. destruct Ho as [<-|[]]. split; [|exact C].
        intros _. exists (c09_ent_inner e vsh). split; [exact (c09_in_inner pd' e fs vsh He Hv)|]. split; [apply scl_defines|]. rewrite A. reflexivity.
    + (* the trait and its companion object *)
      cbn [sc_obs] in Ho. destruct Ho as [<-|[]]. split.
      * intros _. exists j. split; [exact Hj|]. split; [apply scl_defines|]. cbn [d_name]. rewrite Hnj. reflexivity.
      * intros r Hr. unfold c09_decl_refs in Hr. cbn [d_kind d_name d_members d_variants flat_map app] in Hr.
        apply in_flat_map in Hr as (vd & Hvd & Hr). apply in_map_iff in Hvd as (sv & <- & Hsv).
        destruct e as [sh|tag content sh]; cbn [sc_variants_of enum_shared] in *.
        -- (* unit enum: extends id.renamed *)
           apply c09_mapM_Forall2 in Ev. destruct (c09_Forall2_in_r _ _ _ _ Ev Hsv) as (v' & Hv' & Ev'). injection Ev' as <-.
           cbn [sc_obs_variant vd_parent vd_payload scv_parent scv_payload] in Hr. rewrite app_nil_r in Hr. destruct Hr as [<-|[]].
           eapply C9L_parent with (e := j) (w := C9Ren); cbn [c9_in c9_pos c9_name]; try assumption; try reflexivity.
           ++ rewrite Hnj. reflexivity.
           ++ cbn. rewrite app_nil_r. reflexivity.
        -- (* algebraic enum: extends id.original *)
           apply c09_mapM_Forall2 in Ev.
           destruct (c09_Forall2_in_r _ _ _ _ Ev Hsv) as (v & Hv & Ev').
           unfold sc_variant_of_algebraic in Ev'.
           match type of Ev' with context [bind ?m _] => destruct m as [pl| |] eqn:Ep end; cbn [bind] in Ev'; try discriminate.
           injection Ev' as <-. cbn [sc_obs_variant vd_parent vd_payload scv_parent scv_payload] in Hr.
           apply in_app_iff in Hr as [Hr|Hr].
           ++ destruct Hr as [<-|[]].
              eapply C9L_parent with (e := j) (w := C9Orig); cbn [c9_in c9_pos c9_name]; try assumption; try reflexivity.
              ** rewrite Hnj. reflexivity.
              ** cbn. rewrite app_nil_r. reflexivity.
           ++ destruct v as [vsh|t vsh|fs vsh].
              ** injection Ep as <-. destruct Hr.
              ** match type of Ep with context [bind ?m _] => destruct m as [ty| |] eqn:Et end; cbn [bind] in Ep; try discriminate.
                 injection Ep as <-.
                 assert (Hr' : In r (c09_type_refs Scala (renamed (eid sh)) C9Payload ty)) by (destruct ty; exact Hr).
                 eapply (scl_refs {| c9t_owner := eid sh; c9t_generics := egenerics sh; c9t_pos := C9Payload; c9t_type := t |});
                   [exact (c09_tp_tuple pd' (EAlgebraic tag content sh) t vsh He Hv)| |exact Hr'].
                 exact (sc_texp_names cfg _ _ _ Et).
              ** injection Ep as <-. destruct Hr as [<-|Hr].
                 --- eapply C9L_inner with (e := c09_ent_inner (EAlgebraic tag content sh) vsh); cbn [c9_in c9_pos c9_name]; try reflexivity.
                     exact (c09_in_inner pd' (EAlgebraic tag content sh) fs vsh He Hv).
                 --- apply in_map_iff in Hr as (g & <- & Hg).
                     eapply C9L_arg with (e := c09_ent_inner (EAlgebraic tag content sh) vsh); cbn [c9_in c9_pos c9_name]; try reflexivity.
                     +++ exact (c09_in_inner pd' (EAlgebraic tag content sh) fs vsh He Hv).
                     +++ unfold anon_struct_generics in Hg. apply c09_unique_strs_in in Hg as [Hg _]. apply in_flat_map in Hg as (f0 & _ & Hg).
                         apply filter_In in Hg as [Hg _]. exact Hg.
  - discriminate.
Qed.

Lemma scl_items its dss : mapM (sc_decl_of cfg) its = Ok dss -> (forall it, In it its -> In it (items_of pd')) ->
  forall o, In o (flat_map sc_obs (List.concat dss)) -> decl_ok o.
Proof.
  intros Em Hsub o Ho. apply c09_mapM_Forall2 in Em. apply in_flat_map in Ho as (d & Hd & Ho). apply in_concat in Hd as (ds & Hds & Hd).
  destruct (c09_Forall2_in_r _ _ _ _ Em Hds) as (it & Hit & E).
  apply (scl_item it ds (Hsub it Hit) E). apply in_flat_map. eauto.
Qed.

Theorem scl_decls objs pkgs : sc_decls uc cfg pd' = Ok (objs, pkgs) -> forall o, In o (flat_map sc_obs (objs ++ pkgs)) -> decl_ok o.
Proof.
  unfold sc_decls. intros H. cbv zeta in H.
  destruct (sc_begin_file cfg) as [hd| |]; cbn [bind] in H; try discriminate.
  destruct (mapM (sc_decl_of cfg) (map ItAlias (p_aliases pd'))) as [dA| |] eqn:EA; cbn [bind] in H; try discriminate.
  destruct (mapM (sc_decl_of cfg) (map ItStruct (p_structs pd'))) as [dS| |] eqn:ES; cbn [bind] in H; try discriminate.
  destruct (mapM (sc_decl_of cfg) (map ItEnum (p_enums pd'))) as [dE| |] eqn:EE; cbn [bind] in H; try discriminate.
  injection H as <- <-. intros o Ho. rewrite !flat_map_app, !in_app_iff in Ho.
  destruct Ho as [[Ho|Ho]|[Ho|Ho]].
  - apply c9l_decl_ok_helper. destruct (sc_unsigned_integer_used pd'); [|destruct Ho]. cbn in Ho.
    repeat (destruct Ho as [<-|Ho]; [reflexivity|]). destruct Ho.
  - apply (scl_items _ dA EA); [|exact Ho]. intros it Hit. unfold items_of. rewrite !in_app_iff. auto.
  - apply (scl_items _ dS ES); [|exact Ho]. intros it Hit. unfold items_of. rewrite !in_app_iff. auto.
  - apply (scl_items _ dE EE); [|exact Ho]. intros it Hit. unfold items_of. rewrite !in_app_iff. auto.
Qed.
End SCL.

(* the file of crate b in a folder-mode run *)
Theorem c9m_sc_file (uc : unicode) (cfg : sc_config) (ho : list imported -> list imported) (l : list (str * parsed)) :
  oracle_ok ho -> c9m_ids_wf l = true ->
  forall b pd', In (b, pd') (multi_crates ho l) ->
  forall fd, sc_file_decls uc cfg pd' = Ok fd ->
    Forall (fun d => (c09_is_def d = true -> c9m_ldef_ok Scala l b [] (d_name d)) /\
                     (forall r, In r (c09_decl_refs Scala d) -> c9m_lref_ok Scala l b [] r)) (fd_decls fd) /\
    good_C09_multi Scala [] l b (c09_observe Scala fd) = true.
Proof.
  intros Hho Hwf b pd' Hin fd Hfd. unfold sc_file_decls in Hfd.
  destruct (sc_decls uc cfg pd') as [[objs pkgs]| |] eqn:Ed; cbn [bind] in Hfd; try discriminate. injection Hfd as <-.
  pose proof (scl_decls uc cfg pd' objs pkgs Ed) as Hall. cbn [fd_decls]. split.
  - exact (c9l_forall_judged Scala [] ho l b pd' _ Hho Hwf Hin Hall).
  - apply (c9l_file_good Scala [] ho l b pd' _ Hho Hwf Hin). exact Hall.
Qed.
