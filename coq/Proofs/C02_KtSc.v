(* C02 for Kotlin (`enum class` / `sealed class`) and Scala (`sealed trait` + companion object). *)
From Coq Require Import List Bool Lia ZifyBool ZifyN.
From TS Require Import Model.Str Model.Outcome Model.Unicode Model.Rename Model.Types Model.Parse Model.Lang.Common Model.Lang.Decl
                       Model.Lang.Kotlin Model.Lang.Scala.
From TS Require Import Spec.C16Spec Spec.C02Spec Proofs.C16 Proofs.FrontItems Proofs.BackCommon Proofs.C02_Back.
Import ListNotations.
Local Open Scope N_scope.
Local Notation length := List.length (only parsing).

Lemma c02_mapM_length {A B} (f : A -> outcome B) l r : mapM f l = Ok r -> length r = length l.
Proof. intros H. apply mapM_Forall2 in H. induction H; cbn; auto. Qed.

(* ================= Kotlin ================= *)
Section KT.
Variable uc : unicode.
Variable cfg : kt_config.

Lemma c02_kt_struct_plain rs d : kt_struct_decl cfg rs = Ok d -> c02_plain (kt_obs d) = true.
Proof.
  unfold kt_struct_decl. destruct (sfields rs).
  - intros [= <-]. reflexivity.
  - destruct (mapM _ _); cbn [bind]; try discriminate. intros [= <-]. reflexivity.
Qed.

Lemma c02_kt_inner_plain e anon : kt_inner_decls cfg e = Ok anon -> forallb c02_plain (map kt_obs anon) = true.
Proof.
  unfold kt_inner_decls. destruct (mapM _ _) as [dss| |] eqn:Em; cbn [bind]; try discriminate. intros [= <-].
  rewrite c02_forallb_map. apply c02_Forall_forallb.
  apply (c02_mapM_concat_Forall _ _ _ _ Em). intros v ds Hv. destruct v as [|? ?|fields vsh].
  - injection Hv as <-. constructor.
  - injection Hv as <-. constructor.
  - destruct (kt_struct_decl cfg _) as [d| |] eqn:Ed; cbn [bind] in Hv; try discriminate. injection Hv as <-.
    constructor; [|constructor]. exact (c02_kt_struct_plain _ _ Ed).
Qed.

(* the name Kotlin gives the subclass of a variant *)
Definition c02_kt_name (s : str) : str :=
  let p := to_pascal_case s in match p with c :: _ => if is_adigit c then lit "_" ++ p else p | [] => p end.

Lemma c02_kt_name_conv s : conv_variant s = true -> c02_kt_name s = c02_caps_norm s.
Proof.
  intros H. unfold c02_kt_name. rewrite (c02_pascal_conv s H).
  destruct (c02_caps_norm_head s H) as (c & r & -> & Hc).
  assert (is_adigit c = false) as -> by (unfold is_aupper, is_adigit in *; lia). reflexivity.
Qed.

Lemma c02_kt_variant sh v kv : kt_variant_of cfg sh v = Ok kv ->
  vd_wire (kt_obs_variant kv) = renamed (vid (variant_shared v)) /\
  vd_name (kt_obs_variant kv) = c02_kt_name (original (vid (variant_shared v))) /\
  c02_payload_kind (vd_payload (kt_obs_variant kv)) = c02_rvariant_kind v.
Proof.
  unfold kt_variant_of. destruct v as [vsh|t vsh|fs vsh]; cbn [variant_shared].
  - cbn [bind]. intros [= <-]. repeat split.
  - destruct (kt_texp _ _ _) as [ty| |]; cbn [bind]; try discriminate. intros [= <-]. repeat split.
  - cbn [bind]. intros [= <-]. repeat split.
Qed.

Theorem C02_kt_core acr e ds : kt_decl_of cfg (ItEnum e) = Ok ds ->
  dom_C02_back (c02_expect_ir e) = true ->
  c02_good_core Kotlin (c02_expect_ir e) (map kt_obs ds) = true /\
  (known_C02_back Kotlin acr (c02_expect_ir e) = None -> c02_good_cases (map kt_obs ds) = true).
Proof.
  cbn [kt_decl_of]. unfold kt_enum_decls. intros H Hdom.
  destruct (kt_inner_decls cfg e) as [anon| |] eqn:Ea; cbn [bind] in H; try discriminate.
  pose proof (c02_kt_inner_plain e anon Ea) as Hplain.
  pose proof (c02_dom_back_parts _ Hdom) as (Hconv & Hdi & _ & _ & Hdata).
  destruct e as [sh|tag content sh]; cbn [enum_shared] in H.
  - (* enum class *)
    destruct (mapM kt_entry_of (evariants sh)) as [es| |] eqn:Em; cbn [bind] in H; try discriminate.
    injection H as <-. rewrite map_app. cbn [map].
    apply mapM_Forall2 in Em.
    set (d := kt_obs (KTEnumClass (ecomments sh) (kt_prefix cfg ++ renamed (eid sh)) (egenerics sh) es)).
    assert (Hw : map vd_wire (d_variants d) = map (fun v => renamed (vid (variant_shared v))) (evariants sh)).
    { subst d. cbn [kt_obs d_variants]. rewrite map_map. eapply Forall2_map_r; [exact Em|].
      intros v en Hv. unfold kt_entry_of in Hv. injection Hv as <-. reflexivity. }
    assert (Hn : map vd_name (d_variants d) = map (fun v => original (vid (variant_shared v))) (evariants sh)).
    { subst d. cbn [kt_obs d_variants]. rewrite map_map. eapply Forall2_map_r; [exact Em|].
      intros v en Hv. unfold kt_entry_of in Hv. injection Hv as <-. reflexivity. }
    assert (Hk : map (fun v => c02_payload_kind (vd_payload v)) (d_variants d) = map c02_rvariant_kind (evariants sh)).
    { cbn [c02_expect_ir c02_keys c02_kinds enum_shared] in Hdata. rewrite (c02_unit_kinds _ Hdata).
      subst d. cbn [kt_obs d_variants]. rewrite map_map. eapply Forall2_map_r; [exact Em|]. intros v en _. reflexivity. }
    split.
    + apply c02_good_core_intro; [now apply c02_plain_not_enum|reflexivity|].
      apply c02_good_enum_intro; [exact Hw|exact Hk|reflexivity].
    + intros _. rewrite c02_good_cases_app, (c02_plain_cases _ Hplain). apply c02_good_cases_one.
      rewrite Hn. exact Hdi.
  - (* sealed class *)
    destruct (mapM (kt_variant_of cfg sh) (evariants sh)) as [vs| |] eqn:Em; cbn [bind] in H; try discriminate.
    injection H as <-. rewrite map_app. cbn [map].
    apply mapM_Forall2 in Em.
    set (d := kt_obs (KTSealedClass (ecomments sh) (kt_prefix cfg ++ renamed (eid sh)) (egenerics sh) content vs)).
    assert (Hw : map vd_wire (d_variants d) = map (fun v => renamed (vid (variant_shared v))) (evariants sh)).
    { subst d. cbn [kt_obs d_variants]. rewrite map_map. eapply Forall2_map_r; [exact Em|].
      intros v kv Hv. now apply c02_kt_variant in Hv as (E & _). }
    assert (Hk : map (fun kv => c02_payload_kind (vd_payload (kt_obs_variant kv))) vs = map c02_rvariant_kind (evariants sh)).
    { eapply Forall2_map_r; [exact Em|]. intros v kv Hv. now apply c02_kt_variant in Hv as (_ & _ & E). }
    split.
    + apply c02_good_core_intro; [now apply c02_plain_not_enum|reflexivity|].
      apply c02_good_enum_intro; [exact Hw| |].
      * subst d. cbn [kt_obs d_variants]. rewrite map_map. exact Hk.
      * unfold c02_good_keys. cbn [c02_expect_ir c02_keys c02_kinds enum_shared].
        subst d. cbn [kt_obs d_tag_keys d_content_keys forallb andb c02_tag_carried c02_content_carried negb orb].
        rewrite c02_forallb_eq.
        2:{ apply c02_Forall_flat. intros kv. destruct (kv_payload kv); repeat constructor. }
        rewrite (c02_flat_nil (fun kv => c02_payload_kind (vd_payload (kt_obs_variant kv)))).
        2:{ intros kv. cbn [kt_obs_variant vd_payload]. destruct (kv_payload kv); reflexivity. }
        rewrite Hk. now destruct (c02_has_data _).
    + intros Hkn. rewrite c02_good_cases_app, (c02_plain_cases _ Hplain). apply c02_good_cases_one.
      cbn [known_C02_back c02_expect_ir c02_keys c02_idents enum_shared] in Hkn.
      destruct (c02_has_pair c02_caps_eq _) eqn:Hp; [discriminate|].
      cbn [c02_expect_ir c02_idents enum_shared] in Hconv.
      apply (c02_distinct_rel c02_caps_eq (fun a n => n = c02_kt_name a)
                              (map (fun v => original (vid (variant_shared v))) (evariants sh))); [| |exact Hp].
      * subst d. cbn [kt_obs d_variants]. rewrite map_map.
        eapply c02_Forall2_maps; [exact Em|]. intros v kv Hv. now apply c02_kt_variant in Hv as (_ & E & _).
      * intros a b na nb Ha Hb -> -> E. rewrite forallb_forall in Hconv.
        rewrite (c02_kt_name_conv a (Hconv a Ha)), (c02_kt_name_conv b (Hconv b Hb)) in E.
        unfold c02_caps_eq. rewrite E. apply str_eqb_refl.
Qed.

Theorem C02_back_kt acr e ds : kt_decl_of cfg (ItEnum e) = Ok ds ->
  dom_C02_back (c02_expect_ir e) = true ->
  known_C02_back Kotlin acr (c02_expect_ir e) = None ->
  good_C02 Kotlin (c02_expect_ir e) (map kt_obs ds) = true.
Proof.
  intros H Hd Hk. destruct (C02_kt_core acr e ds H Hd) as [Hc Hn]. unfold good_C02. now rewrite Hc, (Hn Hk).
Qed.
End KT.

(* ================= Scala ================= *)
Section SC.
Variable uc : unicode.
Variable cfg : sc_config.

Lemma c02_sc_class_plain s d : sc_class_of cfg s = Ok d -> forallb c02_plain (sc_obs d) = true.
Proof.
  unfold sc_class_of. destruct (sfields s).
  - intros [= <-]. reflexivity.
  - destruct (mapM _ _); cbn [bind]; try discriminate. intros [= <-]. reflexivity.
Qed.

Lemma c02_forallb_flat_map {A B} (p : B -> bool) (f : A -> list B) l :
  Forall (fun x => forallb p (f x) = true) l -> forallb p (flat_map f l) = true.
Proof. induction 1; cbn [flat_map]; [reflexivity|]. rewrite forallb_app. now rewrite H, IHForall. Qed.

Lemma c02_sc_inner_plain e inner : sc_inner_decls_of cfg e = Ok inner -> forallb c02_plain (flat_map sc_obs inner) = true.
Proof.
  unfold sc_inner_decls_of. destruct (mapM _ _) as [dss| |] eqn:Em; cbn [bind]; try discriminate. intros [= <-].
  apply c02_forallb_flat_map.
  apply (c02_mapM_concat_Forall _ _ _ _ Em). intros v ds Hv. destruct v as [|? ?|fields vsh].
  - injection Hv as <-. constructor.
  - injection Hv as <-. constructor.
  - destruct (sc_class_of cfg _) as [d| |] eqn:Ed; cbn [bind] in Hv; try discriminate. injection Hv as <-.
    constructor; [|constructor]. exact (c02_sc_class_plain _ _ Ed).
Qed.

Definition c02_sc_name (s : str) : str :=
  match s with c :: _ => if is_adigit c then ch_us :: s else s | [] => s end.
Lemma c02_sc_name_conv s : conv_variant s = true -> c02_sc_name s = s.
Proof.
  destruct s as [|c r]; [discriminate|]. cbn [conv_variant c02_sc_name]. intros H. apply andb_true_iff in H as [Hc _].
  assert (is_adigit c = false) as -> by (unfold is_aupper, is_adigit in *; lia). reflexivity.
Qed.

Definition c02_sc_contents (sv : sc_variant) : list str :=
  match scv_payload sv with SCPayUnit => [] | SCPayTuple _ content _ | SCPayInner _ content _ _ => [content] end.

Lemma c02_sc_variant content sh v sv : sc_variant_of_algebraic cfg content sh v = Ok sv ->
  vd_wire (sc_obs_variant sv) = renamed (vid (variant_shared v)) /\
  vd_name (sc_obs_variant sv) = c02_sc_name (original (vid (variant_shared v))) /\
  c02_payload_kind (vd_payload (sc_obs_variant sv)) = c02_rvariant_kind v /\
  Forall (eq content) (c02_sc_contents sv).
Proof.
  unfold sc_variant_of_algebraic, c02_sc_contents. destruct v as [vsh|t vsh|fs vsh]; cbn [variant_shared].
  - cbn [bind]. intros [= <-]. repeat split. constructor.
  - destruct (sc_texp _ _ _) as [ty| |]; cbn [bind]; try discriminate. intros [= <-]. repeat split.
    + cbn [sc_obs_variant vd_payload scv_payload]. now destruct ty.
    + repeat constructor.
  - cbn [bind]. intros [= <-]. repeat split. repeat constructor.
Qed.

Theorem C02_sc_core e ds : sc_decl_of cfg (ItEnum e) = Ok ds ->
  dom_C02_back (c02_expect_ir e) = true ->
  c02_good_core Scala (c02_expect_ir e) (flat_map sc_obs ds) = true /\
  c02_good_cases (flat_map sc_obs ds) = true.
Proof.
  cbn [sc_decl_of]. intros H Hdom.
  destruct (sc_inner_decls_of cfg (enum_shared e)) as [inner| |] eqn:Ea; cbn [bind] in H; try discriminate.
  pose proof (c02_sc_inner_plain _ inner Ea) as Hplain.
  pose proof (c02_dom_back_parts _ Hdom) as (Hconv & Hdi & _ & _ & Hdata).
  destruct (sc_variants_of cfg e) as [vs| |] eqn:Ev; cbn [bind] in H; try discriminate.
  injection H as <-. rewrite flat_map_app. cbn [flat_map sc_obs]. rewrite app_nil_r.
  destruct e as [sh|tag content sh]; cbn [enum_shared sc_variants_of] in *.
  - apply mapM_Forall2 in Ev.
    set (d := {| d_kind := DEnum; d_name := renamed (eid sh) |}) in *.
    assert (Hw : map vd_wire (d_variants d) = map (fun v => renamed (vid (variant_shared v))) (evariants sh)).
    { subst d. cbn [d_variants]. rewrite map_map. eapply Forall2_map_r; [exact Ev|].
      intros v sv Hv. unfold sc_variant_of_unit_enum in Hv. injection Hv as <-. reflexivity. }
    assert (Hn : map vd_name (d_variants d) = map (fun v => original (vid (variant_shared v))) (evariants sh)).
    { subst d. cbn [d_variants]. rewrite map_map. eapply Forall2_map_r; [exact Ev|].
      intros v sv Hv. unfold sc_variant_of_unit_enum in Hv. injection Hv as <-. reflexivity. }
    assert (Hk : map (fun v => c02_payload_kind (vd_payload v)) (d_variants d) = map c02_rvariant_kind (evariants sh)).
    { cbn [c02_expect_ir c02_keys c02_kinds enum_shared] in Hdata. rewrite (c02_unit_kinds _ Hdata).
      subst d. cbn [d_variants]. rewrite map_map. eapply Forall2_map_r; [exact Ev|].
      intros v sv Hv. unfold sc_variant_of_unit_enum in Hv. injection Hv as <-. reflexivity. }
    assert (Hc : flat_map (fun v => match scv_payload v with SCPayUnit => [] | SCPayTuple _ c _ | SCPayInner _ c _ _ => [c] end) vs = []).
    { clear -Ev. induction Ev as [|v sv l r Hv _ IH]; [reflexivity|]. cbn [flat_map]. rewrite IH.
      unfold sc_variant_of_unit_enum in Hv. injection Hv as <-. reflexivity. }
    split.
    + apply c02_good_core_intro; [now apply c02_plain_not_enum|reflexivity|].
      apply c02_good_enum_intro; [exact Hw|exact Hk|].
      unfold c02_good_keys. cbn [c02_expect_ir c02_keys]. subst d. cbn [d_tag_keys d_content_keys]. now rewrite Hc.
    + rewrite c02_good_cases_app, (c02_plain_cases _ Hplain). apply c02_good_cases_one. rewrite Hn. exact Hdi.
  - apply mapM_Forall2 in Ev.
    set (d := {| d_kind := DEnum; d_name := renamed (eid sh) |}) in *.
    assert (Hw : map vd_wire (d_variants d) = map (fun v => renamed (vid (variant_shared v))) (evariants sh)).
    { subst d. cbn [d_variants]. rewrite map_map. eapply Forall2_map_r; [exact Ev|].
      intros v sv Hv. now apply c02_sc_variant in Hv as (E & _). }
    assert (Hk : map (fun sv => c02_payload_kind (vd_payload (sc_obs_variant sv))) vs = map c02_rvariant_kind (evariants sh)).
    { eapply Forall2_map_r; [exact Ev|]. intros v sv Hv. now apply c02_sc_variant in Hv as (_ & _ & E & _). }
    split.
    + apply c02_good_core_intro; [now apply c02_plain_not_enum|reflexivity|].
      apply c02_good_enum_intro; [exact Hw| |].
      * subst d. cbn [d_variants]. rewrite map_map. exact Hk.
      * unfold c02_good_keys. cbn [c02_expect_ir c02_keys c02_kinds enum_shared].
        subst d. cbn [d_tag_keys d_content_keys forallb andb c02_tag_carried c02_content_carried negb orb].
        rewrite c02_forallb_eq.
        2:{ apply c02_Forall_flat'. eapply c02_Forall2_Forall_r; [exact Ev|].
            intros v sv Hv. apply c02_sc_variant in Hv as (_ & _ & _ & E). exact E. }
        rewrite (c02_flat_nil (fun sv => c02_payload_kind (vd_payload (sc_obs_variant sv)))).
        2:{ intros sv. cbn [sc_obs_variant vd_payload]. destruct (scv_payload sv) as [|? ? ty|]; try reflexivity. now destruct ty. }
        rewrite Hk. now destruct (c02_has_data _).
    + rewrite c02_good_cases_app, (c02_plain_cases _ Hplain). apply c02_good_cases_one.
      assert (Hn : map vd_name (d_variants d) = map (fun v => original (vid (variant_shared v))) (evariants sh)).
      { subst d. cbn [d_variants]. rewrite map_map.
        cbn [c02_expect_ir c02_idents enum_shared] in Hconv. rewrite forallb_forall in Hconv.
        clear -Ev Hconv. induction Ev as [|v sv l r Hv _ IH]; [reflexivity|]. cbn [map].
        rewrite IH by (intros x Hx; apply Hconv; now right). f_equal.
        apply c02_sc_variant in Hv as (_ & E & _). rewrite E. apply c02_sc_name_conv. apply Hconv. now left. }
      rewrite Hn. exact Hdi.
Qed.

Theorem C02_back_sc e ds : sc_decl_of cfg (ItEnum e) = Ok ds ->
  dom_C02_back (c02_expect_ir e) = true ->
  good_C02 Scala (c02_expect_ir e) (flat_map sc_obs ds) = true.
Proof.
  intros H Hd. destruct (C02_sc_core e ds H Hd) as [Hc Hn]. unfold good_C02. now rewrite Hc, Hn.
Qed.
End SC.
