(* C09, language-independent part: if the observation of a generated file has the SHAPE
   "every definition is declared under the name the table of Spec/C09Spec.v says, every reference is
   a generic parameter of its owner / the reconciled name of a mentioned item / the parent / the
   helper struct, spelled the way the table says", then outside the recorded classes the judgement
   good_C09 holds.  Also: what reconcile does to the names a type mentions. *)
From Coq Require Import List Bool String Permutation.
From TS Require Import Model.Str Model.Outcome Model.Types Model.Parse Model.Reconcile Model.Lang.Decl Spec.C09Spec.
From TS Require Import Proofs.SortLemmas.
Import ListNotations.
Local Notation length := List.length (only parsing).

(* ---------------------------------------------------------------- small facts *)
Lemma c09_mapM_Forall2 {A B} (f : A -> outcome B) l r : mapM f l = Ok r -> Forall2 (fun x y => f x = Ok y) l r.
Proof.
  revert r; induction l as [|x l IH]; intros r; cbn [mapM].
  - intros [= <-]. constructor.
  - destruct (f x) as [y| |] eqn:Ex; cbn [bind]; try discriminate.
    destruct (mapM f l) as [ys| |]; cbn [bind]; try discriminate.
    intros [= <-]. constructor; auto.
Qed.

Lemma c09_Forall2_in_r {A B} (R : A -> B -> Prop) l r y : Forall2 R l r -> In y r -> exists x, In x l /\ R x y.
Proof. induction 1; intros Hin; [destruct Hin|]. destruct Hin as [<-|Hin]; [eexists; split; [left; reflexivity|assumption]|]. destruct (IHForall2 Hin) as (x0 & ? & ?). eexists; split; [right; eassumption|assumption]. Qed.
Lemma c09_Forall2_in_l {A B} (R : A -> B -> Prop) l r x : Forall2 R l r -> In x l -> exists y, In y r /\ R x y.
Proof. induction 1; intros Hin; [destruct Hin|]. destruct Hin as [<-|Hin]; [eexists; split; [left; reflexivity|assumption]|]. destruct (IHForall2 Hin) as (y0 & ? & ?). eexists; split; [right; eassumption|assumption]. Qed.

Lemma c09_mem_str_in x l : mem_str x l = true <-> In x l.
Proof.
  unfold mem_str. rewrite existsb_exists. split.
  - intros (y & Hy & E). apply str_eqb_eq in E. subst. exact Hy.
  - intros H. exists x. split; [exact H|apply str_eqb_refl].
Qed.

Lemma c09_first_none {A} (l : list (option A)) : c09_first l = None -> forall x, In x l -> x = None.
Proof.
  induction l as [|y l IH]; intros H x Hin; [destruct Hin|]. cbn [c09_first fold_right] in H.
  destruct y as [a|]; [discriminate|]. destruct Hin as [<-|Hin]; [reflexivity|]. apply IH; assumption.
Qed.

(* ---------------------------------------------------------------- name equality is an equivalence *)
Lemma c09_name_eqb_refl L a : c09_name_eqb L a a = true.
Proof. destruct L; cbn [c09_name_eqb]; apply str_eqb_refl. Qed.
Lemma c09_name_eqb_sym L a b : c09_name_eqb L a b = c09_name_eqb L b a.
Proof. destruct L; cbn [c09_name_eqb]; apply str_eqb_sym. Qed.
Lemma c09_name_eqb_trans L a b c : c09_name_eqb L a b = true -> c09_name_eqb L b c = true -> c09_name_eqb L a c = true.
Proof.
  destruct L; cbn [c09_name_eqb]; intros H1 H2; apply str_eqb_eq in H1; apply str_eqb_eq in H2; apply str_eqb_eq; congruence.
Qed.

Lemma c09_denotes_spelling L pfx e s : In s (c09_spellings pfx e) -> c09_denotes L pfx e s = true.
Proof. intros H. unfold c09_denotes. apply existsb_exists. exists s. split; [exact H|apply c09_name_eqb_refl]. Qed.

(* two names that are equal up to the language's folding denote the same things *)
Lemma c09_denotes_trans L pfx e s s' : c09_name_eqb L s s' = true -> c09_denotes L pfx e s' = true -> c09_denotes L pfx e s = true.
Proof.
  unfold c09_denotes. intros E H. apply existsb_exists in H as (x & Hx & Ex). apply existsb_exists. exists x. split; [exact Hx|].
  eapply c09_name_eqb_trans; eassumption.
Qed.

(* ---------------------------------------------------------------- unambiguity *)
Definition c09_sep (L : lang) (pfx : str) (a b : c09_entity) : bool :=
  negb (existsb (c09_denotes L pfx b) (c09_spellings pfx a)).

Lemma c09_find_unamb L pfx ents j s :
  c09_pairwise (c09_sep L pfx) ents = true -> In j ents -> c09_denotes L pfx j s = true ->
  find (fun e => c09_denotes L pfx e s) ents = Some j.
Proof.
  induction ents as [|x rest IH]; intros Hp Hin Hd; [destruct Hin|].
  cbn [c09_pairwise] in Hp. apply andb_true_iff in Hp as [Hx Hrest]. cbn [find].
  destruct (c09_denotes L pfx x s) eqn:Ex.
  - destruct Hin as [->|Hin]; [reflexivity|]. exfalso.
    rewrite forallb_forall in Hx. specialize (Hx j Hin). unfold c09_sep in Hx. apply negb_true_iff in Hx.
    unfold c09_denotes in Ex. apply existsb_exists in Ex as (sx & Hsx & Esx).
    assert (existsb (c09_denotes L pfx j) (c09_spellings pfx x) = true) as Hc; [|congruence].
    apply existsb_exists. exists sx. split; [exact Hsx|].
    eapply c09_denotes_trans; [|exact Hd]. rewrite c09_name_eqb_sym. exact Esx.
  - destruct Hin as [->|Hin]; [congruence|]. apply IH; assumption.
Qed.

Lemma c09_unamb_eq L pfx ents a b s :
  c09_pairwise (c09_sep L pfx) ents = true -> In a ents -> In b ents ->
  c09_denotes L pfx a s = true -> c09_denotes L pfx b s = true -> a = b.
Proof.
  intros Hp Ha Hb Da Db.
  pose proof (c09_find_unamb L pfx ents a s Hp Ha Da) as Fa.
  pose proof (c09_find_unamb L pfx ents b s Hp Hb Db) as Fb. congruence.
Qed.

Lemma c09_dom_pairwise L pfx pd : dom_C09 L pfx pd = true -> c09_pairwise (c09_sep L pfx) (c09_entities pd) = true.
Proof.
  unfold dom_C09, c09_unambiguous. intros H.
  apply andb_true_iff in H as [H _]. apply andb_true_iff in H as [_ H]. apply andb_true_iff in H as [H _]. apply andb_true_iff in H as [H _]. exact H.
Qed.

(* ---------------------------------------------------------------- the table as names *)
Definition c09_pick (w : c09_which) (i : id) : str := match w with C9Orig => original i | C9Ren => renamed i end.
Definition c09_def_name (L : lang) (pfx : str) (e : c09_entity) : str :=
  pfx ++ c09_pick (c09_def_which L (c9e_kind e)) (c9e_id e) ++ c9e_suffix e.

Lemma c09_pick_spelling pfx w e : In (pfx ++ c09_pick w (c9e_id e) ++ c9e_suffix e) (c09_spellings pfx e).
Proof. unfold c09_spellings. destruct w; cbn [c09_pick]; [right; left|left]; reflexivity. Qed.

Lemma c09_pick_eq w1 w2 i : c09_which_eqb w1 w2 = true \/ c09_renamed_away i = false -> c09_pick w1 i = c09_pick w2 i.
Proof.
  intros [H|H].
  - destruct w1, w2; try discriminate; reflexivity.
  - unfold c09_renamed_away in H. apply negb_false_iff in H. apply str_eqb_eq in H. destruct w1, w2; cbn [c09_pick]; congruence.
Qed.

(* which entities a back end declares at all: TypeScript inlines struct variants (PayInline), so the
   <Enum><Variant>Inner helper structs exist in the other five languages only *)
Definition c09_has_inner (L : lang) : bool := match L with TypeScript => false | _ => true end.
Definition c09_defines (L : lang) (e : c09_entity) : bool :=
  match c9e_kind e with C9KInner => c09_has_inner L | _ => true end.

(* ---------------------------------------------------------------- shape of an observation *)
Inductive c09_ref_shape (L : lang) (pfx : str) (pd : parsed) (r : c09_ref) : Prop :=
| C9S_generic (j : c09_entity) :
    In j (c09_entities pd) -> c9_in r = c09_def_name L pfx j -> c9_pos r <> C9Parent ->
    In (c9_name r) (c9e_generics j) -> c09_ref_shape L pfx pd r
| C9S_type (tp : c09_tpos) (form : c09_form) (i : str) (e : c09_entity) :
    In tp (c09_tposs pd) -> In (form, i) (c09_type_ids (c9t_type tp)) -> c09_lookup pd i = Some e ->
    c9_pos r = c9t_pos tp ->
    c9_name r = pfx ++ c09_pick (c09_type_ref_which form (c9t_pos tp)) (c9e_id e) ++ c9e_suffix e ->
    c09_ref_shape L pfx pd r
| C9S_parent (j : c09_entity) (w : c09_which) :
    In j (c09_entities pd) -> c9_in r = c09_def_name L pfx j -> c9_pos r = C9Parent ->
    c09_parent_which L (c9e_kind j) = Some w ->
    c9_name r = pfx ++ c09_pick w (c9e_id j) ++ c9e_suffix j -> c09_ref_shape L pfx pd r
| C9S_inner (i : c09_entity) :
    In i (c09_entities pd) -> c9e_kind i = C9KInner -> c09_has_inner L = true -> c9_pos r = C9Payload ->
    c9_name r = pfx ++ c09_pick (c09_inner_ref_which L) (c9e_id i) ++ c9e_suffix i -> c09_ref_shape L pfx pd r.

Record c09_shape (L : lang) (pfx : str) (pd : parsed) (obs : c09_obs) : Prop := {
  c9sh_complete : forall e, In e (c09_entities pd) -> c09_defines L e = true -> In (c09_def_name L pfx e) (c9_defs obs);
  c9sh_sound : forall d, In d (c9_defs obs) -> exists e, In e (c09_entities pd) /\ d = c09_def_name L pfx e;
  c9sh_refs : forall r, In r (c9_refs obs) -> c09_ref_shape L pfx pd r }.

Lemma c09_tposs_pos pd tp : In tp (c09_tposs pd) -> c9t_pos tp <> C9Parent.
Proof.
  unfold c09_tposs. rewrite !in_app_iff, !in_flat_map, !in_map_iff.
  intros [(s & _ & H)|[(e & _ & H)|[(a & <- & _)|(c & <- & _)]]]; try (cbn; discriminate).
  - apply in_map_iff in H as (f & <- & _). cbn; discriminate.
  - apply in_flat_map in H as (v & _ & H). destruct v as [|t sh|fs sh]; cbn [c09_variant_tpos] in H.
    + destruct H.
    + destruct H as [<-|[]]. cbn; discriminate.
    + apply in_map_iff in H as (f & <- & _). cbn; discriminate.
Qed.

Lemma c09_lookup_in pd i e : c09_lookup pd i = Some e -> In e (c09_entities pd) /\ original (c9e_id e) = i /\ c9e_kind e <> C9KInner.
Proof.
  unfold c09_lookup, c09_item_ents. intros H. apply find_some in H as [Hin E]. apply filter_In in Hin as [Hin K].
  apply str_eqb_eq in E. repeat split; try assumption. intros C. rewrite C in K. discriminate.
Qed.

Section Generic.
Variables (L : lang) (pfx : str) (acrs : list str) (pd : parsed) (obs : c09_obs).
Hypothesis Hdom : dom_C09 L pfx pd = true.
Hypothesis Hknown : known_C09 L pfx acrs pd = None.
Hypothesis Hshape : c09_shape L pfx pd obs.

Let ents := c09_entities pd.
Let Hpw : c09_pairwise (c09_sep L pfx) ents = true := c09_dom_pairwise L pfx pd Hdom.

Lemma c09_class_none x : In x (c09_classes L pfx acrs pd) -> x = None.
Proof. apply c09_first_none. exact Hknown. Qed.

Lemma c09_defined_as_ok e : In e ents -> c09_defines L e = true -> c09_defined_as L pfx (c9_defs obs) e = Some (c09_def_name L pfx e).
Proof.
  intros He Hdef. unfold c09_defined_as.
  destruct (find (c09_denotes L pfx e) (c9_defs obs)) as [d|] eqn:F.
  - apply find_some in F as [Hd Dd]. destruct (c9sh_sound _ _ _ _ Hshape d Hd) as (e' & He' & ->).
    f_equal. assert (e = e') as <-; [|reflexivity].
    eapply c09_unamb_eq; [exact Hpw|exact He|exact He'|exact Dd|].
    apply c09_denotes_spelling. apply c09_pick_spelling.
  - exfalso. eapply find_none in F; [|apply (c9sh_complete _ _ _ _ Hshape e He Hdef)].
    rewrite c09_denotes_spelling in F; [discriminate|apply c09_pick_spelling].
Qed.

(* a name that is the [w]-spelling of entity [e] is a good target as soon as the table agrees *)
Lemma c09_target_ok_pick owner r e w :
  In e ents -> c09_defines L e = true -> c9_name r = pfx ++ c09_pick w (c9e_id e) ++ c9e_suffix e ->
  c09_pick w (c9e_id e) = c09_pick (c09_def_which L (c9e_kind e)) (c9e_id e) ->
  (c9_pos r = C9Parent -> owner = Some e) ->
  c09_target_ok L pfx ents (c9_defs obs) owner r = true.
Proof.
  intros He Hdef Hn Hw Hpar. unfold c09_target_ok.
  assert (c09_denotes L pfx e (c9_name r) = true) as Dn by (rewrite Hn; apply c09_denotes_spelling, c09_pick_spelling).
  rewrite (c09_find_unamb L pfx ents e (c9_name r) Hpw He Dn).
  rewrite (c09_defined_as_ok e He Hdef). apply andb_true_iff. split.
  - apply str_eqb_eq. rewrite Hn. unfold c09_def_name. rewrite Hw. reflexivity.
  - destruct (c9_pos r); try reflexivity. rewrite (Hpar eq_refl). unfold c09_same_entity. rewrite !str_eqb_refl. reflexivity.
Qed.

Lemma c09_ref_ok_of_target r :
  c9_pos r <> C9Parent ->
  (forall owner, c09_target_ok L pfx ents (c9_defs obs) owner r = true) ->
  c09_ref_ok L pfx ents (c9_defs obs) r = true.
Proof.
  intros Hp H. unfold c09_ref_ok. destruct (find _ ents) as [j|]; [|apply H].
  destruct (mem_str (c9_name r) (c9e_generics j) && negb (c09_pos_eqb (c9_pos r) C9Parent)); [reflexivity|apply H].
Qed.

Lemma c09_shape_ref_ok r : c09_ref_shape L pfx pd r -> c09_ref_ok L pfx ents (c9_defs obs) r = true.
Proof.
  intros [j Hj Hin Hpos Hg | tp form i e Htp Hid Hlk Hpos Hn | j w Hj Hin Hpos Hw Hn | i Hi Hk Hinner Hpos Hn].
  - (* generic parameter *)
    unfold c09_ref_ok.
    assert (c09_denotes L pfx j (c9_in r) = true) as Dj by (rewrite Hin; apply c09_denotes_spelling, c09_pick_spelling).
    rewrite (c09_find_unamb L pfx ents j (c9_in r) Hpw Hj Dj).
    apply c09_mem_str_in in Hg. rewrite Hg.
    destruct (c9_pos r); try reflexivity. congruence.
  - (* a mentioned item *)
    destruct (c09_lookup_in pd i e Hlk) as (He & Ho & Hk).
    apply c09_ref_ok_of_target; [rewrite Hpos; apply (c09_tposs_pos pd); exact Htp|].
    intros owner. eapply c09_target_ok_pick; [exact He|unfold c09_defines; destruct (c9e_kind e); try reflexivity; exfalso; apply Hk; reflexivity|exact Hn| |].
    + assert (c09_type_site_class L form (c9t_pos tp) e = None) as Hc.
      { apply c09_class_none. unfold c09_classes. apply in_or_app. left. apply in_flat_map. exists tp. split; [exact Htp|].
        unfold c09_tpos_classes. apply in_flat_map. exists (form, i). split; [exact Hid|]. cbn [snd fst]. rewrite Hlk. left. reflexivity. }
      unfold c09_type_site_class in Hc.
      destruct (c09_renamed_away (c9e_id e)) eqn:Era; [|apply c09_pick_eq; right; exact Era].
      destruct (c09_which_eqb (c09_def_which L (c9e_kind e)) (c09_type_ref_which form (c9t_pos tp))) eqn:Ew; [|cbn [andb negb] in Hc; discriminate].
      apply c09_pick_eq. left. destruct (c09_def_which L (c9e_kind e)), (c09_type_ref_which form (c9t_pos tp)); try discriminate; reflexivity.
    + intros C. exfalso. rewrite Hpos in C. revert C. apply (c09_tposs_pos pd). exact Htp.
  - (* the sealed parent *)
    unfold c09_ref_ok.
    assert (c09_denotes L pfx j (c9_in r) = true) as Dj by (rewrite Hin; apply c09_denotes_spelling, c09_pick_spelling).
    rewrite (c09_find_unamb L pfx ents j (c9_in r) Hpw Hj Dj).
    rewrite Hpos. cbn [c09_pos_eqb negb]. rewrite andb_false_r.
    eapply c09_target_ok_pick; [exact Hj|unfold c09_defines; destruct (c9e_kind j); try reflexivity; destruct L; discriminate|exact Hn| |reflexivity].
    assert (c09_parent_site_class L j = None) as Hc.
    { apply c09_class_none. unfold c09_classes. apply in_or_app. right. apply in_or_app. left. apply in_flat_map. exists j. split; [exact Hj|].
      destruct (c9e_kind j) eqn:K; try (left; reflexivity). destruct L; discriminate. }
    unfold c09_parent_site_class in Hc. rewrite Hw in Hc.
    destruct (c09_renamed_away (c9e_id j)) eqn:Era; [|apply c09_pick_eq; right; exact Era].
    destruct (c09_which_eqb w (c09_def_which L (c9e_kind j))) eqn:Ew; [|discriminate].
    apply c09_pick_eq. left. exact Ew.
  - (* the helper struct of a struct variant *)
    apply c09_ref_ok_of_target; [rewrite Hpos; discriminate|].
    intros owner. eapply c09_target_ok_pick; [exact Hi|unfold c09_defines; rewrite Hk; exact Hinner|exact Hn| |rewrite Hpos; discriminate].
    assert (c09_inner_site_class L i = None) as Hc.
    { apply c09_class_none. unfold c09_classes. apply in_or_app. right. apply in_or_app. left. apply in_flat_map. exists i. split; [exact Hi|].
      rewrite Hk. left. reflexivity. }
    unfold c09_inner_site_class in Hc. rewrite Hk.
    destruct (c09_renamed_away (c9e_id i)) eqn:Era; [|apply c09_pick_eq; right; exact Era].
    destruct (c09_which_eqb (c09_inner_ref_which L) (c09_def_which L C9KInner)) eqn:Ew; [|discriminate].
    apply c09_pick_eq. left. exact Ew.
Qed.

Theorem c09_shape_good : good_C09 L pfx pd obs = true.
Proof.
  unfold good_C09. apply forallb_forall. intros r Hr. apply c09_shape_ref_ok. apply (c9sh_refs _ _ _ _ Hshape). exact Hr.
Qed.
End Generic.
