(* C10 for Go: the textual acronym conversion of go.rs:579 (match_indices on the original name, replace_range at
   byte offsets in the running result) only ever replaces ASCII letters / digits by ASCII letters / digits when the
   configured acronyms are alphanumeric - and every lexer treats all ASCII letters and digits alike.  Hence the
   converted text lexes exactly like the original. *)
From Coq Require Import List Bool Lia ZifyBool ZifyN NArith.
From TS Require Import Model.Str Model.Outcome Model.Unicode Model.Types Model.Parse Model.Rename Model.Lang.Common Model.Lang.Go.
From TS Require Import Spec.C10Spec Proofs.BackCommon Proofs.C10Lex Proofs.C10Common.
Import ListNotations.
Local Open Scope N_scope.
Local Notation length := List.length (only parsing).

Definition an (c : char) : bool := is_aalpha c || is_adigit c.
Definition aR (c c' : char) : Prop := c = c' \/ (an c = true /\ an c' = true).
Definition arel (a b : str) : Prop := Forall2 aR a b.

Lemma arel_refl a : arel a a.
Proof. induction a; constructor; [left; reflexivity|assumption]. Qed.
Lemma arel_app a b c d : arel a b -> arel c d -> arel (a ++ c) (b ++ d).
Proof. apply Forall2_app. Qed.
(* ------------------------------------------------------------------ the lexers do not tell letters / digits apart *)
Definition quote_mode (m : c10_lmode) : Prop :=
  match m with
  | C10LQ1 q | C10LQ2 q | C10LStr q | C10LStrEsc q | C10LTri q | C10LTriEsc q | C10LTri1 q | C10LTri2 q => q = ch_dq \/ q = ch_sq
  | _ => True
  end.

Lemma an_facts c : an c = true -> c10_special c = false /\ c <> ch_dq /\ c <> ch_sq /\ c <> ch_bs /\ c <> ch_nl /\ c <> ch_cr /\ c <> c10_c_star /\ c <> c10_c_slash /\ c <> c10_c_tick.
Proof. unfold an, is_aalpha, is_alower, is_aupper, is_adigit. unfold_chars. lia. Qed.

Lemma code_step_an cfg st c c' : an c = true -> an c' = true -> c10_code_step cfg st c = c10_code_step cfg st c'.
Proof. intros H H'. rewrite !special_false_step; [reflexivity| |]; apply an_facts; assumption. Qed.

(* what every lexer does with an ASCII letter or digit *)
Definition astep (m : c10_lmode) (st : list char) : c10_lstate :=
  match m with
  | C10LCode | C10LSlash | C10LQ2 _ => (C10LCode, st)
  | C10LLine => (C10LLine, st)
  | C10LBlock d | C10LBlockStar d | C10LBlockSlash d => (C10LBlock d, st)
  | C10LQ1 q | C10LStr q | C10LStrEsc q => (C10LStr q, st)
  | C10LTri q | C10LTriEsc q | C10LTri1 q | C10LTri2 q => (C10LTri q, st)
  | C10LRaw => (C10LRaw, st)
  | C10LTpl | C10LTplEsc => (C10LTpl, st)
  | C10LTick => (C10LTick, st)
  | C10LErr => (C10LErr, st)
  end.

Lemma an_neq c k : an c = true -> existsb (N.eqb k) [42; 47; 92; 10; 13; 96; 34; 39] = true -> (c =? k) = false.
Proof. unfold an, is_aalpha, is_alower, is_aupper, is_adigit, existsb. lia. Qed.

Lemma lex_step_astep cfg m st c : quote_mode m -> an c = true -> c10_lex_step cfg (m, st) c = astep m st.
Proof.
  intros Hq H. pose proof (special_false_step cfg st c (proj1 (an_facts c H))) as Hcs.
  pose proof (an_neq c 42 H eq_refl) as E42. pose proof (an_neq c 47 H eq_refl) as E47. pose proof (an_neq c 92 H eq_refl) as E92.
  pose proof (an_neq c 10 H eq_refl) as E10. pose proof (an_neq c 13 H eq_refl) as E13. pose proof (an_neq c 96 H eq_refl) as E96.
  pose proof (an_neq c 34 H eq_refl) as E34. pose proof (an_neq c 39 H eq_refl) as E39.
  assert (Eq : forall q, q = ch_dq \/ q = ch_sq -> (c =? q) = false) by (intros q [-> | ->]; assumption).
  destruct m; cbn [c10_lex_step quote_mode astep] in *; unfold c10_is_line_end, c10_c_slash, c10_c_star, c10_c_tick, ch_bs, ch_nl, ch_cr;
    rewrite ?(Eq _ Hq), ?E42, ?E47, ?E92, ?E10, ?E13, ?E96, ?andb_false_r; cbn [andb orb]; try exact Hcs; try reflexivity.
Qed.

Lemma lex_step_an cfg m st c c' : quote_mode m -> an c = true -> an c' = true -> c10_lex_step cfg (m, st) c = c10_lex_step cfg (m, st) c'.
Proof. intros Hq H H'. rewrite !lex_step_astep; auto. Qed.

Lemma code_step_quote cfg st c m' st' : c10_code_step cfg st c = (m', st') -> quote_mode m'.
Proof.
  unfold c10_code_step. destruct (c10_closer_of c); [intros E; injection E as <- _; exact I|].
  destruct (c10_is_closer c).
  - destruct st as [|k r]; [intros E; injection E as <- _; exact I|]. destruct (k =? c); intros E; injection E as <- _; exact I.
  - repeat match goal with |- context [if ?b then _ else _] => destruct b end;
      repeat match goal with |- context [match ?x with _ => _ end] => destruct x end;
      intros E; injection E as <- _; cbn; auto.
Qed.
Lemma lex_step_quote cfg m st c m' st' : quote_mode m -> c10_lex_step cfg (m, st) c = (m', st') -> quote_mode m'.
Proof.
  intros Hq. destruct m; cbn [c10_lex_step quote_mode] in *;
    repeat match goal with |- context [if ?b then _ else _] => destruct b end;
    try (intros E; injection E as <- _; cbn; auto; fail); try apply code_step_quote.
  all: try (destruct d; intros E; injection E as <- _; cbn; auto).
Qed.

Lemma run_arel cfg a b : arel a b -> forall m st, quote_mode m -> run cfg (m, st) a = run cfg (m, st) b.
Proof.
  induction 1 as [|x y a b Hxy Hab IH]; intros m st Hq; [reflexivity|]. rewrite !run_cons.
  assert (E : c10_lex_step cfg (m, st) x = c10_lex_step cfg (m, st) y).
  { destruct Hxy as [-> | [H1 H2]]; [reflexivity|apply lex_step_an; assumption]. }
  rewrite E. destruct (c10_lex_step cfg (m, st) y) as [m1 s1] eqn:Es. apply IH. exact (lex_step_quote _ _ _ _ _ _ Hq Es).
Qed.
Lemma balanced_arel cfg a b : arel a b -> c10_balanced cfg b = c10_balanced cfg a.
Proof. intros H. unfold c10_balanced, c10_lex_init. rewrite (run_arel cfg a b H C10LCode [] I). reflexivity. Qed.
Lemma tok_arel a b : arel a b -> c10_tok_ok a = true -> c10_tok_ok b = true.
Proof.
  unfold c10_tok_ok. induction 1 as [|x y a b Hxy Hab IH]; [auto|]. cbn [forallb]. rewrite !andb_true_iff. intros [Hx Ha]. split; [|exact (IH Ha)].
  destruct Hxy as [<- | [_ Hy]]; [exact Hx|]. apply negb_true_iff. apply an_facts, Hy.
Qed.

(* ------------------------------------------------------------------ byte offsets *)
Lemma aR_len c c' : aR c c' -> go_utf8_len c = go_utf8_len c'.
Proof.
  intros [-> | [H H']]; [reflexivity|]. unfold go_utf8_len. unfold an, is_aalpha, is_alower, is_aupper, is_adigit in *.
  replace (c <? 128) with true by lia. replace (c' <? 128) with true by lia. reflexivity.
Qed.
Lemma utf8_len_pos c : 0 < go_utf8_len c.
Proof. unfold go_utf8_len. repeat match goal with |- context [if ?b then _ else _] => destruct b end; lia. Qed.

Lemma split_arel n r : arel n r -> forall i na nrest, go_split_at_byte n i = Some (na, nrest) ->
  exists ra rrest, go_split_at_byte r i = Some (ra, rrest) /\ arel na ra /\ arel nrest rrest.
Proof.
  induction 1 as [|x y n r Hxy Hnr IH]; intros i na nrest H; cbn [go_split_at_byte] in *.
  - destruct (i =? 0); [|discriminate]. injection H as <- <-. exists [], []. repeat split; constructor.
  - destruct (i =? 0).
    + injection H as <- <-. exists [], (y :: r). repeat split; [constructor|constructor; assumption].
    + rewrite <- (aR_len _ _ Hxy). destruct (i <? go_utf8_len x); [discriminate|].
      destruct (go_split_at_byte n (i - go_utf8_len x)) as [[a b]|] eqn:E; [|discriminate]. injection H as <- <-.
      destruct (IH _ _ _ E) as (ra & rrest & E' & Ha & Hb). rewrite E'. exists (y :: ra), rrest. repeat split; [constructor; assumption|exact Hb].
Qed.

Lemma byte_len_cons c s acc : fold_left (fun n x => n + go_utf8_len x) s (acc + go_utf8_len c) = go_utf8_len c + fold_left (fun n x => n + go_utf8_len x) s acc.
Proof. revert acc. induction s as [|x r IH]; intros acc; cbn [fold_left]; [lia|]. rewrite <- IH. f_equal. lia. Qed.
Lemma byte_len_step c s : go_byte_len (c :: s) = go_utf8_len c + go_byte_len s.
Proof. unfold go_byte_len. cbn [fold_left]. rewrite byte_len_cons. reflexivity. Qed.

Lemma split_at_app a rest : go_split_at_byte (a ++ rest) (go_byte_len a) = Some (a, rest).
Proof.
  induction a as [|c r IH]; cbn [app].
  - change (go_byte_len []) with 0. destruct rest; reflexivity.
  - rewrite byte_len_step. cbn [go_split_at_byte]. pose proof (utf8_len_pos c).
    destruct (go_utf8_len c + go_byte_len r =? 0) eqn:E0; [lia|].
    destruct (go_utf8_len c + go_byte_len r <? go_utf8_len c) eqn:E1; [lia|].
    replace (go_utf8_len c + go_byte_len r - go_utf8_len c) with (go_byte_len r) by lia. rewrite IH. reflexivity.
Qed.

Lemma byte_len_app a b : go_byte_len (a ++ b) = go_byte_len a + go_byte_len b.
Proof. induction a as [|c r IH]; cbn [app]; [reflexivity|]. rewrite !byte_len_step, IH. lia. Qed.
Lemma byte_len_an s : forallb an s = true -> go_byte_len s = N.of_nat (length s).
Proof.
  induction s as [|c r IH]; [reflexivity|]. cbn [forallb]. rewrite andb_true_iff. intros [Hc Hr]. rewrite byte_len_step, (IH Hr).
  unfold go_utf8_len. unfold an, is_aalpha, is_alower, is_aupper, is_adigit in Hc. replace (c <? 128) with true by lia. cbn [length]. lia.
Qed.

Lemma starts_with_split p s : starts_with p s = true -> s = p ++ skipn (length p) s.
Proof.
  revert s. induction p as [|x p IH]; intros s H; [reflexivity|]. destruct s as [|y s]; [discriminate|]. cbn [starts_with] in H.
  apply andb_true_iff in H as [Hx Hp]. apply N.eqb_eq in Hx. subst y. cbn [app length skipn]. f_equal. exact (IH s Hp).
Qed.

(* every index match_indices reports is the byte offset of an occurrence of the pattern *)
Lemma match_indices_sound fuel p : forall s pre off i, go_byte_len pre = off -> In i (go_match_indices_fuel fuel p s off) ->
  exists a rest, pre ++ s = a ++ p ++ rest /\ go_byte_len a = i.
Proof.
  induction fuel as [|f IH]; intros s pre off i Hoff Hin; cbn [go_match_indices_fuel] in Hin; [contradiction|].
  destruct s as [|c r]; [contradiction|]. destruct (starts_with p (c :: r)) eqn:Es.
  - destruct Hin as [<- | Hin].
    + exists pre, (skipn (length p) (c :: r)). split; [rewrite <- (starts_with_split _ _ Es); reflexivity|exact Hoff].
    + pose proof (starts_with_split _ _ Es) as Esp.
      destruct (IH (skipn (length p) (c :: r)) (pre ++ p) (off + go_byte_len p) i) as (a & rest & E & Ha); [rewrite byte_len_app; lia|exact Hin|].
      exists a, rest. split; [|exact Ha]. rewrite <- E, <- app_assoc, <- Esp. reflexivity.
  - destruct (IH r (pre ++ [c]) (off + go_utf8_len c) i) as (a & rest & E & Ha); [|exact Hin|].
    + rewrite byte_len_app, Hoff. unfold go_byte_len. cbn [fold_left]. lia.
    + exists a, rest. split; [|exact Ha]. rewrite <- E, <- app_assoc. reflexivity.
Qed.

(* ------------------------------------------------------------------ the conversion *)
Definition acr_ok (a : str) : bool := forallb an a && match a with [] => false | _ => true end.

Lemma pascal_go_an tolow cap s : forallb an s = true -> forallb an (pascal_go tolow cap s) = true /\ length (pascal_go tolow cap s) = length s.
Proof.
  revert cap. induction s as [|c r IH]; intros cap H; [split; reflexivity|]. cbn [forallb] in H. apply andb_true_iff in H as [Hc Hr].
  cbn [pascal_go]. assert (Hus : (c =? ch_us) = false) by (unfold an, is_aalpha, is_alower, is_aupper, is_adigit, ch_us in *; lia). rewrite Hus.
  assert (Hup : an (aupper c) = true) by (unfold an, aupper, is_aalpha, is_alower, is_aupper, is_adigit in *; destruct ((97 <=? c) && (c <=? 122)) eqn:E; lia).
  assert (Hlo : an (alower c) = true) by (unfold an, alower, is_aalpha, is_alower, is_aupper, is_adigit in *; destruct ((65 <=? c) && (c <=? 90)) eqn:E; lia).
  destruct (IH false Hr) as [I1 I2]. destruct cap; [|destruct tolow]; cbn [forallb length]; rewrite ?Hup, ?Hlo, ?Hc, I1, I2; split; reflexivity.
Qed.

Section Conv.
Variable uc : unicode.
Hypothesis Huc : unicode_ok uc.

Lemma upper_arel p : forallb an p = true -> arel p (str_to_uppercase uc p).
Proof.
  unfold str_to_uppercase. induction p as [|c r IH]; [constructor|]. cbn [forallb flat_map]. rewrite andb_true_iff. intros [Hc Hr].
  assert (Hlt : c < 128) by (unfold an, is_aalpha, is_alower, is_aupper, is_adigit in Hc; lia).
  rewrite (ok_to_upper uc Huc c Hlt). cbn [app]. constructor; [|exact (IH Hr)]. right. split; [exact Hc|].
  unfold an, aupper, is_aalpha, is_alower, is_aupper, is_adigit in *. destruct ((97 <=? c) && (c <=? 122)) eqn:E; lia.
Qed.

Lemma replace_arel name res i p rest a r' :
  forallb an p = true -> arel name res -> name = a ++ p ++ rest -> go_byte_len a = i ->
  go_replace_range res i (i + N.of_nat (length p)) (str_to_uppercase uc p) = Some r' -> arel name r'.
Proof.
  intros Hp Hrel Hname Hi H. unfold go_replace_range in H.
  pose proof (split_at_app a (p ++ rest)) as Es. rewrite <- Hname, Hi in Es.
  destruct (split_arel _ _ Hrel _ _ _ Es) as (ra & rrest & E1 & Ha & Hrest). rewrite E1 in H.
  replace (i + N.of_nat (length p) - i) with (go_byte_len p) in H by (rewrite (byte_len_an _ Hp); lia).
  pose proof (split_at_app p rest) as Es2.
  destruct (split_arel _ _ Hrest _ _ _ Es2) as (rmid & rb & E2 & Hmid & Hb). rewrite E2 in H. injection H as <-.
  rewrite Hname. apply arel_app; [exact Ha|]. apply arel_app; [exact (upper_arel p Hp)|exact Hb].
Qed.

Lemma inner_fold name p idxs : forallb an p = true ->
  (forall i, In i idxs -> exists a rest, name = a ++ p ++ rest /\ go_byte_len a = i) ->
  forall acc r,
    fold_left (fun (acc : outcome str) (i : N) =>
                 do res <- acc;
                 if match nth_error name (N.to_nat (i + N.of_nat (length p))) with Some c => negb (u_is_lower uc c) | None => true end
                 then match go_replace_range res i (i + N.of_nat (length p)) (str_to_uppercase uc p) with
                      | Some res' => Ok res' | None => Panic "go.rs:594" end
                 else Ok res) idxs acc = Ok r ->
    exists res0, acc = Ok res0 /\ (arel name res0 -> arel name r).
Proof.
  intros Hp. induction idxs as [|i l IH]; intros Hidx acc r H; cbn [fold_left] in H.
  - exists r. auto.
  - destruct (IH (fun j Hj => Hidx j (or_intror Hj)) _ _ H) as (res1 & E1 & Himp).
    destruct acc as [res0| |]; cbn [bind] in E1; try discriminate. exists res0. split; [reflexivity|]. intros Hrel. apply Himp.
    destruct (match nth_error name _ with Some c => _ | None => true end); [|injection E1 as <-; exact Hrel].
    destruct (go_replace_range res0 i _ _) as [res'|] eqn:Er; [|discriminate]. injection E1 as <-.
    destruct (Hidx i (or_introl eq_refl)) as (a & rest & Hn & Ha). exact (replace_arel _ _ _ _ _ _ _ Hp Hrel Hn Ha Er).
Qed.

Theorem convert_arel acrs name r : forallb acr_ok acrs = true -> go_convert_acronyms_to_uppercase uc acrs name = Ok r -> arel name r.
Proof.
  unfold go_convert_acronyms_to_uppercase. intros Hacr.
  assert (G : forall acc r, fold_left (fun (acc : outcome str) (a : str) =>
               let pat := to_pascal_case a in let acronym_len := N.of_nat (length pat) in
               fold_left (fun (acc : outcome str) (i : N) =>
                 do res <- acc;
                 if match nth_error name (N.to_nat (i + acronym_len)) with Some c => negb (u_is_lower uc c) | None => true end
                 then match go_replace_range res i (i + acronym_len) (str_to_uppercase uc pat) with
                      | Some res' => Ok res' | None => Panic "go.rs:594" end
                 else Ok res) (go_match_indices pat name) acc) acrs acc = Ok r ->
             exists res0, acc = Ok res0 /\ (arel name res0 -> arel name r)).
  { induction acrs as [|a l IH]; intros acc r0 H; cbn [fold_left] in H; [exists r0; auto|].
    cbn [forallb] in Hacr. apply andb_true_iff in Hacr as [Ha Hl]. destruct (IH Hl _ _ H) as (res1 & E1 & Himp). cbv zeta in E1.
    unfold acr_ok in Ha. apply andb_true_iff in Ha as [Han Hne].
    destruct (pascal_go_an (all_upper a) true a Han) as [Hpan Hplen]. fold (to_pascal_case a) in Hpan, Hplen.
    assert (Hidx : forall i, In i (go_match_indices (to_pascal_case a) name) -> exists x rest, name = x ++ to_pascal_case a ++ rest /\ go_byte_len x = i).
    { intros i Hin. unfold go_match_indices in Hin. destruct (to_pascal_case a) as [|p0 pr] eqn:Ep; [destruct a; [discriminate|cbn in Hplen; discriminate]|].
      destruct (match_indices_sound _ _ name [] 0 i eq_refl Hin) as (x & rest & E & Hx). exists x, rest. split; [exact E|exact Hx]. }
    destruct (inner_fold name (to_pascal_case a) _ Hpan Hidx _ _ E1) as (res0 & E0 & Himp0).
    exists res0. split; [exact E0|]. intros Hrel. apply Himp, Himp0, Hrel. }
  intros H. destruct (G _ _ H) as (res0 & E0 & Himp). injection E0 as <-. apply Himp, arel_refl.
Qed.
End Conv.
