(* Front end, part 1: typeshare's attribute helpers (Model/Attrs.v) against the serde-side reading of
   the same attributes (Spec/Serde.v). *)
From Coq Require Import Lia ZifyBool ZifyN.
From TS Require Import Model.Str Model.Outcome Model.Unicode Model.Syntax Model.Attrs Spec.Serde.
Local Open Scope N_scope.

Lemma path_is_ident_single p name : path_is_ident p name = true <-> p = [name].
Proof.
  unfold path_is_ident. destruct p as [|s [|? ?]]; split; try discriminate.
  - intros H. apply str_eqb_eq in H. now subst.
  - intros [= ->]. apply str_eqb_refl.
Qed.

(* the arguments of #[ident(...)] as the spec reads them *)
Definition list_args (a : attr) (which : str) : list meta :=
  match a_meta a with
  | MList [p] (Some args) _ => if str_eqb p which then args else []
  | _ => []
  end.

Lemma get_meta_items_spec a which : get_meta_items a which = list_args a which.
Proof.
  unfold get_meta_items, list_args. destruct (a_meta a) as [p|p args d|p v]; cbn [meta_path].
  - destruct (path_is_ident p which); reflexivity.
  - unfold path_is_ident. destruct p as [|s [|? ?]]; try (destruct args; reflexivity).
    destruct (str_eqb s which); destruct args; reflexivity.
  - destruct (path_is_ident p which); reflexivity.
Qed.

Section U.
Variable uc : unicode.

Definition nv_values_of (name : str) (args : list meta) : list str :=
  flat_map (fun m => match m with
                     | MNV [n] (VStr s) => if str_eqb n name then [s] else []
                     | _ => []
                     end) args.

Lemma nv_items_of_spec name args : nv_items_of uc name args = map (trim uc) (nv_values_of name args).
Proof.
  unfold nv_items_of, nv_values_of. induction args as [|m r IH]; cbn [flat_map map]; [reflexivity|].
  rewrite map_app, <- IH. f_equal.
  destruct m as [p|p a d|p v]; try reflexivity.
  unfold path_is_ident. destruct p as [|n [|? ?]]; try reflexivity.
  destruct (str_eqb n name); [|destruct v; reflexivity].
  destruct v; reflexivity.
Qed.

Lemma serde_nv_values_unfold attrs name :
  serde_nv_values attrs name = flat_map (fun a => nv_values_of name (list_args a (lit "serde"))) attrs.
Proof.
  unfold serde_nv_values. apply flat_map_ext. intros a. unfold list_args, nv_values_of.
  destruct (a_meta a) as [p|p args d|p v]; try reflexivity.
  destruct p as [|s [|? ?]]; try reflexivity. destruct args as [args|]; try reflexivity.
  destruct (str_eqb s (lit "serde")); reflexivity.
Qed.

(* typeshare reads the same name/value arguments serde does, trimmed *)
Theorem nv_items_serde attrs name :
  get_name_value_meta_items uc attrs name SERDE = map (trim uc) (serde_nv_values attrs name).
Proof.
  rewrite serde_nv_values_unfold. unfold get_name_value_meta_items.
  induction attrs as [|a r IH]; cbn [flat_map map]; [reflexivity|].
  rewrite map_app, <- IH. f_equal. rewrite get_meta_items_spec, nv_items_of_spec. reflexivity.
Qed.

Lemma first_map {A B} (f : A -> B) l : first (map f l) = option_map f (first l).
Proof. destruct l; reflexivity. Qed.

Lemma serde_nv_first attrs name : first (serde_nv_values attrs name) = serde_nv attrs name.
Proof. unfold serde_nv. destruct (serde_nv_values attrs name); reflexivity. Qed.

Theorem serde_rename_spec attrs : serde_rename uc attrs = option_map (trim uc) (serde_nv attrs (lit "rename")).
Proof. unfold serde_rename. now rewrite nv_items_serde, first_map, serde_nv_first. Qed.
Theorem serde_rename_all_spec attrs : serde_rename_all uc attrs = option_map (trim uc) (serde_nv attrs (lit "rename_all")).
Proof. unfold serde_rename_all. now rewrite nv_items_serde, first_map, serde_nv_first. Qed.
Theorem tag_key_spec attrs : get_tag_key uc attrs = option_map (trim uc) (serde_nv attrs (lit "tag")).
Proof. unfold get_tag_key. now rewrite nv_items_serde, first_map, serde_nv_first. Qed.
Theorem content_key_spec attrs : get_content_key uc attrs = option_map (trim uc) (serde_nv attrs (lit "content")).
Proof. unfold get_content_key. now rewrite nv_items_serde, first_map, serde_nv_first. Qed.
End U.

(* ---- bare words: skip, default, flatten ---- *)
Definition words_of (args : list meta) : list str :=
  flat_map (fun m => match m with MPath [w] => [w] | _ => [] end) args.

Lemma is_path_word_words w args : existsb (fun m => is_path_word m w) args = mem_str w (words_of args).
Proof.
  unfold mem_str, words_of. induction args as [|m r IH]; cbn [existsb flat_map]; [reflexivity|].
  rewrite existsb_app, <- IH. f_equal.
  destruct m as [p|p a d|p v]; cbn [is_path_word]; try reflexivity.
  unfold path_is_ident. destruct p as [|s [|? ?]]; cbn [existsb]; try reflexivity.
  now rewrite orb_false_r, str_eqb_sym.
Qed.

Lemma list_words_unfold attrs which :
  list_words attrs which = flat_map (fun a => words_of (list_args a which)) attrs.
Proof.
  unfold list_words. apply flat_map_ext. intros a. unfold list_args, words_of.
  destruct (a_meta a) as [p|p args d|p v]; try reflexivity.
  destruct p as [|s [|? ?]]; try reflexivity. destruct args as [args|]; try reflexivity.
  destruct (str_eqb s which); reflexivity.
Qed.

Lemma mem_str_flat_map {A} w (f : A -> list str) l :
  mem_str w (flat_map f l) = existsb (fun a => mem_str w (f a)) l.
Proof.
  unfold mem_str. induction l as [|a r IH]; cbn [flat_map existsb]; [reflexivity|].
  now rewrite existsb_app, IH.
Qed.

Lemma existsb_ext' {A} (f g : A -> bool) l : (forall a, f a = g a) -> existsb f l = existsb g l.
Proof. intros H. induction l as [|a r IH]; cbn [existsb]; [reflexivity|]. now rewrite H, IH. Qed.

Theorem serde_attr_spec attrs w : serde_attr attrs w = has_serde_word attrs w.
Proof.
  unfold serde_attr, has_serde_word. rewrite list_words_unfold, mem_str_flat_map.
  apply existsb_ext'. intros a. now rewrite get_meta_items_spec, is_path_word_words.
Qed.
Theorem serde_default_spec attrs : serde_default attrs = bare_default attrs.
Proof. apply serde_attr_spec. Qed.
Theorem serde_flatten_spec attrs : serde_flatten attrs = bare_flatten attrs.
Proof. apply serde_attr_spec. Qed.

Theorem skip_marker_spec attrs : has_skip_marker attrs = skip_marked attrs.
Proof.
  unfold has_skip_marker, skip_marked, has_serde_word, has_typeshare_word.
  rewrite !list_words_unfold, !mem_str_flat_map.
  induction attrs as [|a r IH]; cbn [existsb]; [reflexivity|].
  rewrite IH, existsb_app, !get_meta_items_spec, !is_path_word_words.
  unfold SERDE, TYPESHARE.
  destruct (mem_str (lit "skip") (words_of (list_args a (lit "serde"))));
  destruct (mem_str (lit "skip") (words_of (list_args a (lit "typeshare")))); cbn;
  destruct (existsb _ r); destruct (existsb _ r); reflexivity.
Qed.

(* ---- trim is the identity on strings without surrounding whitespace ---- *)
Definition not_ws (uc : unicode) (c : char) : bool := negb (u_is_ws uc c).

Lemma trim_start_id uc s : match s with [] => True | c :: _ => u_is_ws uc c = false end -> trim_start uc s = s.
Proof. destruct s as [|c r]; cbn [trim_start]; [reflexivity|]. now intros ->. Qed.

Lemma trim_id uc s :
  match s with [] => True | c :: _ => u_is_ws uc c = false end ->
  match rev s with [] => True | c :: _ => u_is_ws uc c = false end ->
  trim uc s = s.
Proof.
  intros H1 H2. unfold trim. rewrite (trim_start_id uc s H1), (trim_start_id uc (rev s) H2).
  apply rev_involutive.
Qed.

(* key alphabet of the properties: [A-Za-z0-9_-] *)
Definition key_char (c : char) : bool := is_aalpha c || is_adigit c || (c =? ch_us) || (c =? ch_dash).

Lemma key_char_not_ws uc (Huc : unicode_ok uc) c : key_char c = true -> u_is_ws uc c = false.
Proof.
  intros H. rewrite (ok_ws uc Huc).
  - unfold key_char, is_aalpha, is_alower, is_aupper, is_adigit, ch_us, ch_dash, ascii_ws in *. lia.
  - unfold key_char, is_aalpha, is_alower, is_aupper, is_adigit, ch_us, ch_dash in H. lia.
Qed.

Lemma forallb_rev {A} (p : A -> bool) l : forallb p (rev l) = forallb p l.
Proof.
  induction l as [|x r IH]; cbn [rev forallb]; [reflexivity|].
  rewrite forallb_app, IH. cbn. now rewrite andb_true_r, andb_comm.
Qed.

Theorem trim_key uc (Huc : unicode_ok uc) s : forallb key_char s = true -> trim uc s = s.
Proof.
  intros H. apply trim_id.
  - destruct s as [|c r]; [exact I|]. cbn [forallb] in H. apply andb_true_iff in H as [H _].
    now apply key_char_not_ws.
  - pose proof (forallb_rev key_char s) as Hr. rewrite H in Hr.
    destruct (rev s) as [|c r]; [exact I|]. cbn [forallb] in Hr. apply andb_true_iff in Hr as [Hr _].
    now apply key_char_not_ws.
Qed.
