(* C03: the expectation the check computes from the SOURCE (Spec.C03Spec.c03_src_expected_sigs, using
   serde's reading of the attributes) is, item by item, the expectation the back-end theorems are stated
   with (c03_expected_sigs on the IR the parser produces) - for conventional identifiers (dom_C03_src).
   Uses the C01 / C02 front-end agreement theorems of Proofs/FrontItems.v (which rest on C16). *)
From Coq Require Import String List Bool Arith Lia ZifyBool ZifyN.
From TS Require Import Model.Str Model.Outcome Model.Unicode Model.Syntax Model.Attrs Model.TargetOs
                       Model.Rename Model.Types Model.Parse Model.Lang.Decl.
From TS Require Import Spec.SerdeCase Spec.C16Spec Spec.Serde Spec.TargetOsRule Spec.C03Spec.
From TS Require Import Proofs.C16 Proofs.C13 Proofs.FrontAttrs Proofs.FrontTypes Proofs.FrontItems Proofs.C03 Proofs.C03Back.
Import ListNotations.
Local Open Scope N_scope.

Lemma is_nil_flat_map {A B} (f : A -> list B) l :
  c03_is_nil (flat_map f l) = negb (existsb (fun x => negb (c03_is_nil (f x))) l).
Proof.
  induction l as [|x l IH]; cbn [flat_map existsb]; [reflexivity|].
  destruct (f x) as [|y r]; cbn [app c03_is_nil negb orb]; [exact IH|reflexivity].
Qed.

Lemma is_nil_map {A B} (f : A -> B) l : c03_is_nil (map f l) = c03_is_nil l.
Proof. destruct l; reflexivity. Qed.

Section U.
Variable uc : unicode.
Hypothesis Huc : unicode_ok uc.
Variable tstr : str -> option ty.
Variable T : list str.
Local Notation parse_leaf := (parse_leaf uc tstr T).

(* typeshare(serialized_as = "..") as the spec reads it = as get_serialized_as_type finds it *)
Lemma serialized_as_spec attrs :
  c03_serialized_as attrs = match get_serialized_as_type uc attrs with Some _ => true | None => false end.
Proof.
  unfold get_serialized_as_type, get_name_value_meta_items.
  transitivity (negb (c03_is_nil (flat_map (fun a => nv_items_of uc (lit "serialized_as") (get_meta_items a TYPESHARE)) attrs))).
  2:{ destruct (flat_map _ attrs); reflexivity. }
  rewrite is_nil_flat_map, negb_involutive. unfold c03_serialized_as. apply existsb_ext'. intros a.
  rewrite get_meta_items_spec, nv_items_of_spec, is_nil_map. unfold list_args, nv_values_of.
  destruct (a_meta a) as [p|p args d|p v]; try reflexivity.
  destruct p as [|s [|? ?]]; try reflexivity. destruct args as [args|]; try reflexivity.
  change TYPESHARE with (lit "typeshare"). destruct (str_eqb s (lit "typeshare")); cbn [andb]; [|reflexivity].
  rewrite is_nil_flat_map, negb_involutive. apply existsb_ext'. intros m.
  destruct m as [q|q a' d'|q v]; try reflexivity. destruct q as [|n [|? ?]]; try reflexivity.
  destruct v; try reflexivity. destruct (str_eqb n (lit "serialized_as")); reflexivity.
Qed.

Lemma conv_fields_cfg cattrs l : c03_conv_fields T cattrs l = true -> Forall (fun f => cfg_parsable (f_attrs f) = true) l.
Proof.
  unfold c03_conv_fields. intros H. apply andb_true_iff in H as [_ H]. apply forallb_Forall' in H.
  eapply Forall_impl; [|exact H]. intros f Hf. unfold c03_conv_member_field in Hf. now apply andb_true_iff in Hf as [Hc _].
Qed.

Lemma kept_fields_conv cattrs l : c03_conv_fields T cattrs l = true ->
  filter (fun f => negb (is_skipped T (f_attrs f))) l = c03_kept_fields T l.
Proof.
  intros H. unfold c03_kept_fields. apply filter_ext_Forall. eapply Forall_impl; [|exact (conv_fields_cfg _ _ H)].
  intros f Hc. now rewrite (is_skipped_spec T _ Hc).
Qed.

(* the keys of the parsed fields are serde's keys of the kept source fields *)
Lemma fields_keys cf cattrs l fields : c03_conv_fields T cattrs l = true ->
  mapM (parse_field uc tstr cf (serde_rename_all uc cattrs)) (filter (fun f => negb (is_skipped T (f_attrs f))) l) = Ok fields ->
  c03_keys_of fields = c03_src_keys T cattrs l.
Proof.
  intros Hc Hm. rewrite (kept_fields_conv _ _ Hc) in Hm.
  unfold c03_keys_of, c03_src_keys.
  apply (Forall2_map_eq (fun f rf => c03_undash (renamed (fid rf)) =
           c03_undash (c03_okey (match f_ident f with
                                 | Some i => field_key (serde_nv cattrs (lit "rename_all")) (f_attrs f) i
                                 | None => None
                                 end)))); [|intros x y E; exact E].
  eapply mapM_Forall2_In; [|exact Hm]. intros f rf Hin Hf. cbn beta.
  unfold c03_kept_fields in Hin. apply filter_In in Hin as [Hin Hs]. apply negb_true_iff in Hs.
  unfold c03_conv_fields in Hc. apply andb_true_iff in Hc as [Hra Hall].
  pose proof (proj1 (forallb_forall _ _) Hall f Hin) as Hf'. unfold c03_conv_member_field in Hf'.
  apply andb_true_iff in Hf' as [_ Hf']. rewrite Hs in Hf'. cbn [orb] in Hf'. apply andb_true_iff in Hf' as [Hid Hrn].
  destruct (f_ident f) as [i|] eqn:Ei; [|discriminate].
  rewrite <- (field_key_agrees uc Huc tstr cf cattrs f i rf Hf Ei Hid Hra Hrn). reflexivity.
Qed.

(* what one kept variant parses to *)
Definition vsrc_rel (enum_attrs : list attr) (v : variant) (rv : rvariant) : Prop :=
  renamed (vid (variant_shared rv)) = c03_okey (variant_name uc (serde_nv enum_attrs (lit "rename_all")) (v_attrs v) (v_ident v)) /\
  match v_fields v with
  | FNamed l => exists fs sh, rv = VAnon fs sh /\ c03_keys_of fs = c03_src_keys T (v_attrs v) l
  | FUnnamed _ => exists t sh, rv = VTuple t sh
  | FUnit => exists sh, rv = VUnit sh
  end.

Lemma variant_src enum_attrs v rv :
  c03_rule_ok (serde_nv enum_attrs (lit "rename_all")) = true -> c03_conv_variant T v = true -> member_skipped T (v_attrs v) = false ->
  parse_enum_variant uc tstr T (serde_rename_all uc enum_attrs) v = Ok rv -> vsrc_rel enum_attrs v rv.
Proof.
  intros Hra Hcv Hs Hp. unfold c03_conv_variant in Hcv. apply andb_true_iff in Hcv as [_ Hcv]. rewrite Hs in Hcv. cbn [orb] in Hcv.
  apply andb_true_iff in Hcv as [Hcv Hfs]. apply andb_true_iff in Hcv as [Hk Hrn].
  assert (Hk' : known_C16 PVariant (unraw (v_ident v)) = None) by (destruct (known_C16 PVariant (unraw (v_ident v))); [discriminate|reflexivity]).
  split.
  - rewrite <- (variant_name_agrees uc Huc tstr T enum_attrs v rv Hp Hk' Hra Hrn). reflexivity.
  - unfold parse_enum_variant in Hp. destruct (get_ident uc (Some (v_ident v)) (v_attrs v) _) as [i| |]; cbn [bind] in Hp; try discriminate.
    destruct (v_fields v) as [l|l|].
    + destruct (mapM _ _) as [fields| |] eqn:Em; cbn [bind] in Hp; try discriminate. injection Hp as <-.
      eexists _, _. split; [reflexivity|]. exact (fields_keys _ _ _ _ Hfs Em).
    + destruct l as [|f [|? ?]]; try discriminate. destruct (field_type uc tstr f); cbn [bind] in Hp; try discriminate.
      injection Hp as <-. eauto.
    + injection Hp as <-. eauto.
Qed.

Lemma variants_src enum_attrs kept variants : Forall2 (vsrc_rel enum_attrs) kept variants ->
  c03_wires_of variants = map (fun v => c03_okey (variant_name uc (serde_nv enum_attrs (lit "rename_all")) (v_attrs v) (v_ident v))) kept /\
  c03_anon_keys variants = flat_map (fun v => match v_fields v with FNamed l => [c03_src_keys T (v_attrs v) l] | _ => [] end) kept /\
  forallb (fun v => match v with VUnit _ => true | _ => false end) variants = forallb c03_src_is_unit kept.
Proof.
  induction 1 as [|v rv kept variants [Hw Hf] _ (IH1 & IH2 & IH3)]; [repeat split|].
  cbn [c03_wires_of map c03_anon_keys flat_map forallb]. unfold c03_wires_of in IH1. unfold c03_anon_keys in IH2.
  rewrite Hw, IH1, IH2, IH3. unfold c03_src_is_unit.
  destruct (v_fields v) as [l|l|].
  - destruct Hf as (fs & sh & -> & Hk). rewrite Hk. repeat split.
  - destruct Hf as (t & sh & ->). repeat split.
  - destruct Hf as (sh & ->). repeat split.
Qed.

(* C03_src_item *)
Theorem src_item L x it : dom_C03_src T x = true -> parse_leaf x = Ok it ->
  c03_expected_sigs L it = c03_src_expected_sigs uc T L x.
Proof.
  destruct x as [a i g fs|a i g vs|a i g t|a i t e|u|inner]; cbn [FrontItems.parse_leaf c03_src_expected_sigs dom_C03_src]; try discriminate.
  - intros Hd. rewrite serialized_as_spec. unfold parse_struct. destruct (get_serialized_as_type uc a).
    + destruct (get_ident _ _ _ _); cbn [bind]; try discriminate. destruct (parse_ty_str _ _); cbn [bind]; try discriminate.
      intros [= <-]. reflexivity.
    + destruct fs as [l|l|].
      * destruct (mapM _ _) as [fields| |] eqn:Em; cbn [bind]; try discriminate.
        destruct (get_ident _ _ _ _); cbn [bind]; try discriminate. intros [= <-].
        cbn [c03_expected_sigs sfields]. now rewrite (fields_keys _ _ _ _ Hd Em).
      * destruct l as [|f [|? ?]]; try discriminate. destruct (field_type uc tstr f); cbn [bind]; try discriminate.
        intros H. apply mk_alias_name in H as (al & -> & _). reflexivity.
      * destruct (get_ident _ _ _ _); cbn [bind]; try discriminate. intros [= <-]. reflexivity.
  - intros Hd. apply andb_true_iff in Hd as [Hra Hvs]. rewrite serialized_as_spec. unfold parse_enum.
    destruct (get_serialized_as_type uc a).
    + destruct (get_ident _ _ _ _); cbn [bind]; try discriminate. destruct (parse_ty_str _ _); cbn [bind]; try discriminate.
      intros [= <-]. reflexivity.
    + destruct (mapM _ _) as [variants| |] eqn:Em; cbn [bind]; try discriminate.
      assert (Hkept : filter (fun v => negb (is_skipped T (v_attrs v))) vs = c03_kept_variants T vs).
      { unfold c03_kept_variants. apply filter_ext_Forall. apply forallb_Forall' in Hvs. eapply Forall_impl; [|exact Hvs].
        intros v Hv. unfold c03_conv_variant in Hv. apply andb_true_iff in Hv as [Hc _]. now rewrite (is_skipped_spec T _ Hc). }
      rewrite Hkept in Em.
      assert (F : Forall2 (vsrc_rel a) (c03_kept_variants T vs) variants).
      { eapply mapM_Forall2_In; [|exact Em]. intros v rv Hin Hp. unfold c03_kept_variants in Hin. apply filter_In in Hin as [Hin Hs].
        apply negb_true_iff in Hs. exact (variant_src a v rv Hra (proj1 (forallb_forall _ _) Hvs v Hin) Hs Hp). }
      destruct (variants_src a _ _ F) as (Hw & Hk & Hu).
      destruct (get_ident _ _ _ _); cbn [bind]; try discriminate.
      unfold c03_src_wires, c03_src_anon_keys. rewrite <- Hw, <- Hk, <- Hu.
      destruct (forallb _ variants).
      * destruct (get_tag_key uc a); [discriminate|]. destruct (get_content_key uc a); [discriminate|].
        intros [= <-]. reflexivity.
      * destruct (get_tag_key uc a); [|discriminate]. destruct (get_content_key uc a); [|discriminate].
        intros [= <-]. reflexivity.
  - intros _ H. unfold parse_type_alias in H.
    destruct (match get_serialized_as_type uc a with Some s => parse_ty_str tstr s | None => parse_ty t end); cbn [bind] in H; try discriminate.
    apply mk_alias_name in H as (al & -> & _). reflexivity.
  - intros _ H. destruct (parse_leaf_kind uc tstr T (IConst a i t e) it H) as [Hk _]. destruct it; cbn in Hk; try contradiction. reflexivity.
Qed.

(* ... and for a whole file: the expectation computed from the source is the concatenation, over the expected
   items in source order, of the expectations of the IR items they parse to *)
Theorem src_file L f its : forallb (dom_C03_src T) (expected_leaves T f) = true ->
  Forall2 (fun x it => parse_leaf x = Ok it) (expected_leaves T f) its ->
  c03_src_file_expected uc T L f = flat_map (c03_expected_sigs L) its.
Proof.
  unfold c03_src_file_expected. generalize (expected_leaves T f) as xs. intros xs Hd F.
  induction F as [|x it xs its Hx _ IH]; [reflexivity|]. cbn [forallb] in Hd. apply andb_true_iff in Hd as [Hdx Hds].
  cbn [flat_map]. now rewrite (src_item L x it Hdx Hx), (IH Hds).
Qed.
End U.
