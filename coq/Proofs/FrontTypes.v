(* Front end, part 2: TryFrom<&syn::Type> for RustType (Model/Types.v parse_ty). *)
From Coq Require Import String Lia.
From TS Require Import Model.Str Model.Outcome Model.Syntax Model.Types Spec.Serde.

(* induction principle for the nested inductive [ty] *)
Section TyInd.
  Variable P : ty -> Prop.
  Hypothesis HPath : forall q id args, Forall (fun o => match o with Some t => P t | None => True end) args -> P (TPath q id args).
  Hypothesis HRef : forall t, P t -> P (TRef t).
  Hypothesis HTuple : forall l, Forall P l -> P (TTuple l).
  Hypothesis HArray : forall t n, P t -> P (TArray t n).
  Hypothesis HSlice : forall t, P t -> P (TSlice t).
  Hypothesis HOther : P TOther.
  Fixpoint ty_ind' (t : ty) : P t :=
    match t with
    | TPath q id args =>
      HPath q id args ((fix go (l : list (option ty)) : Forall (fun o => match o with Some t => P t | None => True end) l :=
                          match l with
                          | [] => Forall_nil _
                          | None :: r => Forall_cons None I (go r)
                          | Some x :: r => Forall_cons (Some x) (ty_ind' x) (go r)
                          end) args)
    | TRef x => HRef x (ty_ind' x)
    | TTuple l => HTuple l ((fix go (l : list ty) : Forall P l :=
                               match l with [] => Forall_nil _ | x :: r => Forall_cons x (ty_ind' x) (go r) end) l)
    | TArray x n => HArray x n (ty_ind' x)
    | TSlice x => HSlice x (ty_ind' x)
    | TOther => HOther
    end.
End TyInd.

(* the argument loop of parse_ty, named *)
Fixpoint parse_args (l : list (option ty)) : outcome (list rtype) :=
  match l with
  | [] => Ok []
  | None :: r => parse_args r
  | Some a :: r => do x <- parse_ty a; do xs <- parse_args r; Ok (x :: xs)
  end.

Lemma parse_ty_path q id args : parse_ty (TPath q id args) = (do ps <- parse_args args; path_dispatch id ps).
Proof.
  cbn [parse_ty]. f_equal.
Qed.

(* ---------- C05: structural translation ---------- *)
(* references disappear *)
Theorem parse_ref t : parse_ty (TRef t) = parse_ty t.
Proof. reflexivity. Qed.

(* path qualification is dropped *)
Theorem parse_qualification q id args : parse_ty (TPath q id args) = parse_ty (TPath [] id args).
Proof. now rewrite !parse_ty_path. Qed.

Definition first_type_arg (args : list (option ty)) : option ty :=
  (fix first (l : list (option ty)) := match l with [] => None | None :: r => first r | Some x :: _ => Some x end) args.

Lemma str_eqb_lit_neq a b : str_eqb (lit a) (lit b) = false -> lit a <> lit b.
Proof. apply str_eqb_neq. Qed.

Ltac dispatch_compute :=
  unfold path_dispatch;
  repeat match goal with
  | |- context [str_eqb (lit ?a) (lit ?b)] =>
      let v := eval vm_compute in (str_eqb (lit a) (lit b)) in change (str_eqb (lit a) (lit b)) with v; cbv iota
  | |- context [mem_str (lit ?a) ?l] =>
      let v := eval vm_compute in (mem_str (lit a) l) in change (mem_str (lit a) l) with v; cbv iota
  end.

(* serde-transparent smart pointers disappear (one theorem per pointer name, any qualification,
   with or without a leading lifetime argument) *)
Theorem parse_smart_pointer q id t rest : mem_str id SMART_POINTERS = true ->
  parse_ty (TPath q id (Some t :: rest)) = (do x <- parse_ty t; do _ <- parse_args rest; Ok x).
Proof.
  intros H. rewrite parse_ty_path. cbn [parse_args].
  destruct (parse_ty t) as [x| |]; cbn [bind]; try reflexivity.
  destruct (parse_args rest) as [xs| |]; cbn [bind]; try reflexivity.
  unfold path_dispatch.
  assert (Hv : str_eqb id (lit "Vec") = false).
  { destruct (str_eqb id (lit "Vec")) eqn:E; [|reflexivity]. apply str_eqb_eq in E. subst. discriminate. }
  assert (Ho : str_eqb id (lit "Option") = false).
  { destruct (str_eqb id (lit "Option")) eqn:E; [|reflexivity]. apply str_eqb_eq in E. subst. discriminate. }
  assert (Hh : str_eqb id (lit "HashMap") = false).
  { destruct (str_eqb id (lit "HashMap")) eqn:E; [|reflexivity]. apply str_eqb_eq in E. subst. discriminate. }
  now rewrite Hv, Ho, Hh, H.
Qed.

(* sequences, options, maps, arrays, slices: the IR node of the translated children *)
Theorem parse_vec q t : parse_ty (TPath q (lit "Vec") [Some t]) = omap RVec (parse_ty t).
Proof. rewrite parse_ty_path. cbn [parse_args]. unfold omap. destruct (parse_ty t); reflexivity. Qed.
Theorem parse_option q t : parse_ty (TPath q (lit "Option") [Some t]) = omap ROption (parse_ty t).
Proof. rewrite parse_ty_path. cbn [parse_args]. unfold omap. destruct (parse_ty t); reflexivity. Qed.
Theorem parse_hashmap q k v :
  parse_ty (TPath q (lit "HashMap") [Some k; Some v]) = (do a <- parse_ty k; do b <- parse_ty v; Ok (RHashMap a b)).
Proof.
  rewrite parse_ty_path. cbn [parse_args].
  destruct (parse_ty k); cbn [bind]; try reflexivity. destruct (parse_ty v); reflexivity.
Qed.
Theorem parse_array t n : parse_ty (TArray t (ALit (Some n))) = omap (fun x => RArray x n) (parse_ty t).
Proof. cbn [parse_ty]. unfold omap. destruct (parse_ty t); reflexivity. Qed.
Theorem parse_slice t : parse_ty (TSlice t) = omap RSlice (parse_ty t).
Proof. cbn [parse_ty]. unfold omap. destruct (parse_ty t); reflexivity. Qed.
Theorem parse_unit : parse_ty (TTuple []) = Ok (RPrim PUnit).
Proof. reflexivity. Qed.

(* user types: name kept, generic arguments translated in order *)
Definition is_user_type_name (id : str) : bool :=
  negb (str_eqb id (lit "Vec") || str_eqb id (lit "Option") || str_eqb id (lit "HashMap") ||
        mem_str id SMART_POINTERS || mem_str id UNSUPPORTED_INTS ||
        match prim_of_name id with Some _ => true | None => false end).

Theorem parse_user_type q id args : is_user_type_name id = true ->
  parse_ty (TPath q id args) =
  (do ps <- parse_args args; Ok (match ps with [] => RSimple id | _ => RGeneric id ps end)).
Proof.
  unfold is_user_type_name. intros H. apply negb_true_iff in H.
  repeat (apply orb_false_iff in H; destruct H as [H ?]).
  rewrite parse_ty_path. destruct (parse_args args) as [ps| |]; cbn [bind]; try reflexivity.
  unfold path_dispatch.
  repeat match goal with E : _ = false |- _ => rewrite E; clear E end.
  destruct (prim_of_name id); [discriminate|]. destruct ps; reflexivity.
Qed.

(* primitives *)
Theorem parse_prim q id p : prim_of_name id = Some p -> parse_ty (TPath q id []) = Ok (RPrim p).
Proof.
  intros H. rewrite parse_ty_path. cbn [parse_args bind]. unfold path_dispatch.
  assert (Hne : forall s, prim_of_name (lit s) = None -> str_eqb id (lit s) = false).
  { intros s Hs. destruct (str_eqb id (lit s)) eqn:E; [|reflexivity]. apply str_eqb_eq in E. subst. congruence. }
  rewrite (Hne "Vec"%string eq_refl), (Hne "Option"%string eq_refl), (Hne "HashMap"%string eq_refl).
  assert (Hsp : mem_str id SMART_POINTERS = false).
  { unfold SMART_POINTERS, mem_str. cbn [existsb].
    rewrite (Hne "Box"%string eq_refl), (Hne "Weak"%string eq_refl), (Hne "Arc"%string eq_refl), (Hne "Rc"%string eq_refl), (Hne "Cow"%string eq_refl),
            (Hne "ArcWeak"%string eq_refl), (Hne "RcWeak"%string eq_refl), (Hne "Cell"%string eq_refl), (Hne "Mutex"%string eq_refl),
            (Hne "RefCell"%string eq_refl), (Hne "RwLock"%string eq_refl). reflexivity. }
  assert (Hun : mem_str id UNSUPPORTED_INTS = false).
  { unfold UNSUPPORTED_INTS, mem_str. cbn [existsb].
    rewrite (Hne "u64"%string eq_refl), (Hne "i64"%string eq_refl), (Hne "usize"%string eq_refl), (Hne "isize"%string eq_refl). reflexivity. }
  now rewrite Hsp, Hun, H.
Qed.

(* ---------- C08: unsupported constructs at any depth are never accepted ---------- *)
Lemma parse_args_unsupported args :
  Forall (fun o => match o with Some t => has_unsupported t = true -> is_ok (parse_ty t) = false | None => True end) args ->
  (fix go (l : list (option ty)) : bool :=
     match l with [] => false | None :: r => go r | Some x :: r => has_unsupported x || go r end) args = true ->
  is_ok (parse_args args) = false.
Proof.
  induction 1 as [|o r Ho _ IH]; intros H; [discriminate|].
  destruct o as [x|]; cbn [parse_args].
  - apply orb_true_iff in H as [H|H].
    + specialize (Ho H). destruct (parse_ty x); [discriminate|reflexivity|reflexivity].
    + specialize (IH H). destruct (parse_ty x); cbn [bind]; try reflexivity.
      destruct (parse_args r); [discriminate|reflexivity|reflexivity].
  - now apply IH.
Qed.

Theorem unsupported_never_ok t : has_unsupported t = true -> is_ok (parse_ty t) = false.
Proof.
  induction t as [q id args IH|t IH|l IH|t n IH|t IH|] using ty_ind'; intros H.
  - rewrite parse_ty_path. cbn [has_unsupported] in H. apply orb_true_iff in H as [H|H].
    + destruct (parse_args args) as [ps| |]; cbn [bind]; try reflexivity.
      unfold path_dispatch.
      assert (Hne : forall s, mem_str (lit s) UNSUPPORTED_INT_NAMES = false -> str_eqb id (lit s) = false).
      { intros s Hs. destruct (str_eqb id (lit s)) eqn:E; [|reflexivity]. apply str_eqb_eq in E. subst. congruence. }
      rewrite (Hne "Vec"%string eq_refl), (Hne "Option"%string eq_refl), (Hne "HashMap"%string eq_refl).
      assert (Hsp : mem_str id SMART_POINTERS = false).
      { unfold SMART_POINTERS, mem_str. cbn [existsb].
        rewrite (Hne "Box"%string eq_refl), (Hne "Weak"%string eq_refl), (Hne "Arc"%string eq_refl), (Hne "Rc"%string eq_refl), (Hne "Cow"%string eq_refl),
                (Hne "ArcWeak"%string eq_refl), (Hne "RcWeak"%string eq_refl), (Hne "Cell"%string eq_refl), (Hne "Mutex"%string eq_refl),
                (Hne "RefCell"%string eq_refl), (Hne "RwLock"%string eq_refl). reflexivity. }
      rewrite Hsp. change UNSUPPORTED_INTS with UNSUPPORTED_INT_NAMES. rewrite H. reflexivity.
    + pose proof (parse_args_unsupported args IH H) as Ha.
      destruct (parse_args args); [discriminate|reflexivity|reflexivity].
  - cbn [parse_ty]. now apply IH.
  - destruct l as [|x r]; [discriminate|reflexivity].
  - cbn [has_unsupported] in H. specialize (IH H). cbn [parse_ty]. destruct n as [n|].
    + destruct (parse_ty t); cbn [bind]; try reflexivity; try discriminate.
    + reflexivity.
  - cbn [has_unsupported] in H. specialize (IH H). cbn [parse_ty].
    destruct (parse_ty t); [discriminate|reflexivity|reflexivity].
  - discriminate.
Qed.

(* ---------- C04: optional iff Option<_> under references and transparent wrappers ---------- *)
Lemma path_dispatch_wrapper id x ps : mem_str id SMART_POINTERS = true -> path_dispatch id (x :: ps) = Ok x.
Proof.
  intros H. unfold path_dispatch.
  assert (Hne : forall s, mem_str (lit s) SMART_POINTERS = false -> str_eqb id (lit s) = false).
  { intros s Hs. destruct (str_eqb id (lit s)) eqn:E; [|reflexivity]. apply str_eqb_eq in E. subst. congruence. }
  now rewrite (Hne "Vec"%string eq_refl), (Hne "Option"%string eq_refl), (Hne "HashMap"%string eq_refl), H.
Qed.

Lemma path_dispatch_not_option id ps r : str_eqb id (lit "Option") = false -> mem_str id SMART_POINTERS = false ->
  path_dispatch id ps = Ok r -> is_optional r = false.
Proof.
  intros Ho Hs. unfold path_dispatch. rewrite Ho, Hs.
  destruct (str_eqb id (lit "Vec")); [destruct ps; [discriminate|intros [= <-]; reflexivity]|].
  destruct (str_eqb id (lit "HashMap")); [destruct ps as [|? [|? ?]]; try discriminate; intros [= <-]; reflexivity|].
  destruct (mem_str id UNSUPPORTED_INTS); [discriminate|].
  destruct (prim_of_name id); [intros [= <-]; reflexivity|].
  destruct ps; intros [= <-]; reflexivity.
Qed.

Theorem optional_iff_option_type t r : parse_ty t = Ok r -> is_optional r = is_option_type t.
Proof.
  revert r. induction t as [q id args IH|t IH|l IH|t n IH|t IH|] using ty_ind'; intros r H.
  - rewrite parse_ty_path in H. cbn [is_option_type].
    destruct (parse_args args) as [ps| |] eqn:Ea; cbn [bind] in H; try discriminate.
    destruct (str_eqb id (lit "Option")) eqn:Eo.
    + apply str_eqb_eq in Eo. subst id. unfold path_dispatch in H.
      change (str_eqb (lit "Option") (lit "Vec")) with false in H.
      change (str_eqb (lit "Option") (lit "Option")) with true in H. cbv iota in H.
      destruct ps; [discriminate|]. injection H as <-. reflexivity.
    + destruct (mem_str id TRANSPARENT) eqn:Et.
      * change TRANSPARENT with SMART_POINTERS in Et.
        (* the first type argument is what remains *)
        revert ps Ea H. induction IH as [|o rest Ho _ IHr]; intros ps Ea H.
        -- cbn [parse_args] in Ea. injection Ea as <-. unfold path_dispatch in H.
           rewrite Eo, Et in H.
           destruct (str_eqb id (lit "Vec")); [discriminate|].
           destruct (str_eqb id (lit "HashMap")); discriminate.
        -- destruct o as [x|]; cbn [parse_args] in Ea.
           ++ destruct (parse_ty x) as [rx| |] eqn:Ex; cbn [bind] in Ea; try discriminate.
              destruct (parse_args rest) as [rs| |]; cbn [bind] in Ea; try discriminate.
              injection Ea as <-. rewrite path_dispatch_wrapper in H by assumption. injection H as <-.
              now apply Ho.
           ++ now apply (IHr ps).
      * change TRANSPARENT with SMART_POINTERS in Et. eapply path_dispatch_not_option; eassumption.
  - cbn [parse_ty] in H. cbn [is_option_type]. now apply IH.
  - destruct l; cbn [parse_ty] in H; [injection H as <-; reflexivity|discriminate].
  - cbn [parse_ty] in H. destruct n as [[n|]|]; try discriminate.
    + destruct (parse_ty t); cbn [bind] in H; try discriminate. injection H as <-. reflexivity.
    + destruct (parse_ty t); cbn [bind] in H; discriminate.
  - cbn [parse_ty] in H. destruct (parse_ty t); cbn [bind] in H; try discriminate. injection H as <-. reflexivity.
  - discriminate.
Qed.
