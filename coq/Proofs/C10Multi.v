(* C10 (lexical half) in MULTI-FILE (folder output, `-d`) mode.  Every crate's file is written by the multi-file
   generators of Model/MultiFile.v; Proofs/C11Multi.v gives the exact layout of each of them:
       begin_file ++ import block ++ the pieces of the sorted items, one per item, printer state threaded ++ end_file.
   The per-item, header and trailer lemmas are those of the single-file proofs (Proofs/C10_<L>.v, C10_<L>File.v).
   New here: the import blocks of TypeScript and Kotlin (a fold over the sorted map of sorted sets), Kotlin's
   per-crate package line, the printer state that arrives from the previous crate (any state satisfying the
   invariant of the single-file proof, which every file re-establishes), and the re-assembly. *)
From Coq Require Import List Bool Lia ZifyBool ZifyN NArith Permutation String.
From TS Require Import Model.Str Model.Outcome Model.Unicode Model.Types Model.Parse Model.Reconcile Model.Collect Model.TopsortAlgo Model.Topsort
                       Model.Lang.Common Model.Lang.Decl Model.Lang.TypeScript Model.Lang.Kotlin Model.Lang.Swift
                       Model.Lang.Scala Model.Lang.Go Model.Lang.Python Model.MultiFile.
From TS Require Model.Writer.
From TS Require Import Spec.C10Spec Spec.C10MultiSpec.
From TS Require Import Proofs.BackCommon Proofs.C10Lex Proofs.C10Monad Proofs.C10Common Proofs.C11Multi.
From TS Require Proofs.C10_TS Proofs.C10_TSFile Proofs.C10_KT Proofs.C10_SC Proofs.C10_GO Proofs.C10_GOFile Proofs.C10_SW
                Proofs.C10_SWFile Proofs.C10_PY Proofs.C10_PYFile.
Import ListNotations.
Local Open Scope N_scope.
Local Open Scope list_scope.
Local Notation length := List.length (only parsing).

(* ---------------------------------------------------------------- generic *)

(* the sorted sequence is a permutation of the crate's items, so every item of it is in the domain *)
Lemma sorted_items_ok l pd out : dom_C10 l pd = true -> sorted_file pd out -> Forall (fun it => c10_item_ok l it = true) out.
Proof.
  intros Hdom (_ & Hperm & _). apply forallb_Forall in Hdom. fold (items_of pd) in Hdom.
  eapply Permutation_Forall; [apply Permutation_sym, Hperm|exact Hdom].
Qed.

(* a post-condition of the item writer, along a writes_seq *)
Lemma post_writes_seq {St A : Type} (Inv : St -> Prop) (f : A -> M St str) (Q : A -> Prop) (P : str -> Prop) :
  (forall x, Q x -> post Inv P (f x)) ->
  forall l st ps st', writes_seq f l st ps st' -> Forall Q l -> Inv st -> Forall P ps /\ Inv st'.
Proof.
  intros Hf l st ps st' Hw. induction Hw as [st|x r st p st1 ps st2 Ex _ IH]; intros HQ Hs.
  - split; [constructor|exact Hs].
  - inversion HQ as [|? ? Hx Hr]; subst. destruct (Hf x Hx _ _ _ Ex Hs) as [Pp Hs1].
    destruct (IH Hr Hs1) as [Pps Hs2]. split; [constructor; assumption|exact Hs2].
Qed.

(* the stateless form *)
Lemma writes_list_Forall {A : Type} (f : A -> outcome str) (Q : A -> Prop) (P : str -> Prop) :
  (forall x y, Q x -> f x = Ok y -> P y) -> forall l ps, writes_list f l ps -> Forall Q l -> Forall P ps.
Proof.
  intros Hf l ps Hw. induction Hw as [|x p l ps Ex _ IH]; intros HQ; [constructor|].
  inversion HQ as [|? ? Hx Hr]; subst. constructor; [exact (Hf x p Hx Ex)|exact (IH Hr)].
Qed.

(* ---------------------------------------------------------------- crate names, imported names *)
Lemma crate_tok c : c10_crate_ok c = true -> c10_tok_ok c = true.
Proof. unfold c10_crate_ok, c10_tok_ok. apply forallb_impl. intros x Hx. apply negb_true_iff, key_char_not_special, Hx. Qed.
Lemma crate_instr c : c10_crate_ok c = true -> c10_instr_ok c = true.
Proof. unfold c10_crate_ok. apply key_chars_instr. Qed.

Lemma imports_ok_entry im kv : c10_imports_ok im = true -> In kv im ->
  c10_crate_ok (fst kv) = true /\ forallb c10_ident_ok (snd kv) = true.
Proof.
  unfold c10_imports_ok. intros H Hin. rewrite forallb_forall in H. specialize (H kv Hin). apply andb_true_iff in H. exact H.
Qed.

(* ---------------------------------------------------------------- TypeScript *)
(* one line `import { A, B } from "./crate";` per entry of the map, then an empty line: the braces pair up (also for an
   empty set: `import {  } from ..`), the names are neutral tokens, the module path is the body of one string literal *)
Lemma ts_write_imports_bal im : c10_imports_ok im = true -> bal c10_lex_ts (ts_write_imports im).
Proof.
  intros Him. unfold ts_write_imports. apply (tr_app _ _ _ C10LCode); [|intros st; reflexivity].
  apply tr_flat_map. apply Forall_forall. intros kv Hin. destruct (imports_ok_entry _ _ Him Hin) as [Hc Hn].
  destruct kv as [c ns]. cbn [fst snd] in *.
  assert (H1 : bal c10_lex_ts (join (lit ", ") ns)).
  { apply tok_bal. apply tok_ok_join; [reflexivity|]. revert Hn. apply forallb_impl. apply ident_tok. }
  pose proof (instr_stay c10_lex_ts _ (crate_instr _ Hc)) as H2.
  intros st. set (J := join _ _) in *. walk. reflexivity.
Qed.

Section TSMulti.
Variable uc : unicode.
Hypothesis Huc : unicode_ok uc.
Variable cfg : ts_config.
Hypothesis Hcfg : Proofs.C10_TSFile.c10_ts_cfg_ok cfg = true.

Lemma ts_write_item_post it : c10_item_ok CTS it = true ->
  post (fun s => Proofs.C10_TSFile.c10_ts_state_ok s = true) (fun t => bal c10_lex_ts t) (ts_write_item uc cfg it).
Proof.
  intros Hit s y s' Hy Hs. unfold ts_write_item in Hy. apply mbind_ok in Hy as (d & s2 & Hd & Hy).
  unfold ret in Hy. injection Hy as <- <-. destruct (Proofs.C10_TSFile.ts_decl_of_ok uc Huc cfg Hcfg it Hit _ _ _ Hd Hs) as [Pd Hs2].
  split; [apply Proofs.C10_TS.ts_render_decl_bal, Pd|exact Hs2].
Qed.

(* the file of one crate, whatever printer state the previous crates left (the property names collected for the
   Date reviver stay printable); the state handed on satisfies the same invariant *)
Theorem ts_generate_multi_balanced st im pd text st' :
  dom_C10 CTS pd = true -> c10_imports_ok im = true -> Proofs.C10_TSFile.c10_ts_state_ok st = true ->
  ts_generate_multi uc cfg st im pd = Ok (text, st') ->
  good_C10_lex CTS text = true /\ Proofs.C10_TSFile.c10_ts_state_ok st' = true.
Proof.
  intros Hdom Him Hst H. apply ts_multi_sorted in H as (out & parts & Hsorted & Hw & ->).
  pose proof (sorted_items_ok CTS pd out Hdom Hsorted) as Hitems.
  destruct (post_writes_seq _ _ _ _ ts_write_item_post out st parts st' Hw Hitems Hst) as [Pparts Hst'].
  split; [|exact Hst']. unfold good_C10_lex. cbn [c10_cfg_of]. apply bal_balanced.
  eapply tr_app; [apply Proofs.C10_TSFile.ts_begin_file_bal, Hcfg|].
  eapply tr_app; [apply ts_write_imports_bal, Him|].
  eapply tr_app; [apply tr_concat, Pparts|apply Proofs.C10_TSFile.ts_end_file_bal, Hst'].
Qed.
End TSMulti.

(* ---------------------------------------------------------------- Kotlin *)
Section KTMulti.
Variable uc : unicode.
Variable cfg : kt_config.
Hypothesis Hcfg : Proofs.C10_KT.c10_kt_cfg_ok cfg = true.

Lemma kt_cfg_parts : c10_dotted_ok (kt_version cfg) = true /\ c10_dotted_ok (kt_package cfg) = true.
Proof. pose proof Hcfg as Hc. unfold Proofs.C10_KT.c10_kt_cfg_ok in Hc. rewrite !andb_true_iff in Hc. tauto. Qed.

(* `package <package>.<crate>` *)
Lemma kt_begin_file_multi_bal c : c10_crate_ok c = true -> bal c10_lex_kt (kt_begin_file_multi cfg c).
Proof.
  intros Hc. unfold kt_begin_file_multi. destruct kt_cfg_parts as [Hv Hp].
  destruct (kt_package cfg) as [|p0 pr] eqn:Ep; [apply tr_nil|]. rewrite <- Ep in *. clear Ep.
  pose proof (tok_bal c10_lex_kt _ (dotted_tok _ Hp)) as H1. pose proof (tok_bal c10_lex_kt _ (crate_tok _ Hc)) as H3.
  destruct (kt_no_version_header cfg).
  - intros st. cbn [app]. walk. reflexivity.
  - pose proof (nostarslash_stay c10_lex_kt 0 _ (dotted_nostarslash _ Hv)) as H2. intros st. walk. reflexivity.
Qed.

(* one line `import <package>.<crate>.<prefix><A>` per imported name (the prefix since fix 26 of /repo; its characters
   are identifier characters by c10_kt_cfg_ok), then an empty line: neutral tokens only *)
Lemma kt_write_imports_bal im : c10_imports_ok im = true -> bal c10_lex_kt (kt_write_imports cfg im).
Proof.
  intros Him. unfold kt_write_imports. destruct kt_cfg_parts as [_ Hp]. apply (tr_app _ _ _ C10LCode); [|intros st; reflexivity].
  apply tr_flat_map. apply Forall_forall. intros kv Hin. destruct (imports_ok_entry _ _ Him Hin) as [Hc Hn].
  destruct kv as [c ns]. cbn [fst snd] in *. apply tr_flat_map. apply Forall_forall. intros t Ht. rewrite forallb_forall in Hn.
  apply tok_bal. rewrite !tok_ok_app, (dotted_tok _ Hp), (crate_tok _ Hc), (ident_tok _ (Hn t Ht)),
    (Proofs.C10_TSFile.ident_chars_tok _ (Proofs.C10_KT.kt_prefix_chars cfg Hcfg)). reflexivity.
Qed.

Theorem kt_generate_multi_balanced c im pd text :
  dom_C10 CKT pd = true -> c10_crate_ok c = true -> c10_imports_ok im = true ->
  kt_generate_multi uc cfg c im pd = Ok text -> good_C10_lex CKT text = true.
Proof.
  intros Hdom Hc Him H. apply kt_multi_sorted in H as (out & parts & Hsorted & Hw & ->).
  pose proof (sorted_items_ok CKT pd out Hdom Hsorted) as Hitems.
  unfold good_C10_lex. cbn [c10_cfg_of]. apply bal_balanced.
  eapply tr_app; [apply kt_begin_file_multi_bal, Hc|]. eapply tr_app; [apply kt_write_imports_bal, Him|].
  apply tr_concat. eapply writes_list_Forall; [|exact Hw|exact Hitems].
  intros it t Hit Ht. cbn beta in Hit. unfold kt_write_item in Ht. apply bind_ok in Ht as (ds & Hds & Ht). injection Ht as <-.
  apply tr_concat_map. pose proof (Proofs.C10_KT.kt_decl_of_ok cfg Hcfg _ _ Hit Hds) as Hok. apply Forall_forall. intros d Hd.
  apply Proofs.C10_KT.kt_render_decl_bal. rewrite forallb_forall in Hok. exact (Hok d Hd).
Qed.
End KTMulti.

(* ---------------------------------------------------------------- Swift *)
(* no import lines, no CodableVoid trailer in multi-file mode: header and the pieces *)
Section SWMulti.
Variable uc : unicode.
Variable cfg : sw_config.
Hypothesis Hcfg : Proofs.C10_SWFile.c10_sw_cfg_ok cfg = true.

Lemma sw_write_item_post it : c10_item_ok CSW it = true ->
  post (fun _ : sw_state => True) (fun t => bal c10_lex_sw t) (sw_write_item uc cfg it).
Proof.
  intros Hit. unfold sw_write_item. eapply post_bind; [exact (Proofs.C10_SWFile.sw_decl_post uc cfg Hcfg it Hit)|].
  intros d Pd. apply post_ret. apply Proofs.C10_SW.sw_render_decl_bal, Pd.
Qed.

Theorem sw_generate_multi_balanced st pd text st' :
  dom_C10 CSW pd = true -> sw_generate_multi uc cfg st pd = Ok (text, st') -> good_C10_lex CSW text = true.
Proof.
  intros Hdom H. apply sw_multi_sorted in H as (out & parts & Hsorted & Hw & ->).
  pose proof (sorted_items_ok CSW pd out Hdom Hsorted) as Hitems.
  destruct (post_writes_seq _ _ _ _ sw_write_item_post out st parts st' Hw Hitems I) as [Pparts _].
  unfold good_C10_lex. cbn [c10_cfg_of]. apply bal_balanced.
  eapply tr_app; [apply Proofs.C10_SWFile.sw_begin_file_bal, Hcfg|apply tr_concat, Pparts].
Qed.

(* Codable.swift, the extra file post_generation writes when a file of the run needed CodableVoid: the struct
   end_file prints in single-file mode, without write_codable's final line break *)
Theorem sw_codable_contents_balanced : good_C10_lex CSW (sw_codable_contents cfg) = true.
Proof.
  unfold good_C10_lex. cbn [c10_cfg_of]. apply bal_balanced.
  unfold sw_codable_contents, sw_end_file, sw_trailing_decls. cbn [flat_map]. rewrite app_nil_r.
  unfold sw_codable_void. cbv zeta.
  set (decs := if mem_str sw_CODABLE (sw_get_default_decorators cfg ++ sw_codablevoid_constraints cfg)
               then sw_get_default_decorators cfg ++ sw_codablevoid_constraints cfg
               else (sw_get_default_decorators cfg ++ sw_codablevoid_constraints cfg) ++ [sw_CODABLE]).
  assert (Hd : forallb (c10_raw_ok c10_lex_sw) decs = true).
  { destruct (Proofs.C10_SWFile.sw_cfg_parts cfg Hcfg) as (_ & _ & _ & _ & _ & Hcv).
    assert (Hd0 : forallb (c10_raw_ok c10_lex_sw) (sw_get_default_decorators cfg ++ sw_codablevoid_constraints cfg) = true).
    { rewrite forallb_app, (Proofs.C10_SWFile.sw_default_decorators_raw cfg Hcfg), Hcv. reflexivity. }
    subst decs. destruct (mem_str sw_CODABLE _); [exact Hd0|]. rewrite forallb_app, Hd0. reflexivity. }
  cbn [sw_render_decl]. change sw_nl with [ch_nl]. rewrite !app_assoc, removelast_last, <- !app_assoc.
  pose proof (Proofs.C10_SW.sw_decs_bal _ Hd) as H1.
  assert (H2 : bal c10_lex_sw (sw_render_comments 0 [sw_CODABLE_VOID_DOC])) by (apply balanced_bal; vm_compute; reflexivity).
  intros st. set (D := join _ decs) in *. set (C := sw_render_comments 0 _) in *. walk. reflexivity.
Qed.
End SWMulti.

(* ---------------------------------------------------------------- Go *)
(* the import block is that of the state reached after the last item: whatever import paths the previous crates
   registered are still in it (the table is never cleared), all printable between double quotes *)
Section GOMulti.
Variable uc : unicode.
Hypothesis Huc : unicode_ok uc.
Variable cfg : go_config.
Hypothesis Hcfg : Proofs.C10_GOFile.c10_go_cfg_ok cfg = true.

Lemma go_write_item_post custom it : c10_item_ok CGO it = true ->
  post Proofs.C10_GOFile.go_inv (fun t => bal c10_lex_go t) (go_write_item uc cfg custom it).
Proof.
  intros Hit. unfold go_write_item. eapply post_bind; [exact (Proofs.C10_GOFile.go_decl_post uc Huc cfg Hcfg custom it Hit)|].
  intros ds Pds. apply post_ret. apply tr_concat_map. apply Forall_forall. intros d Hd.
  apply Proofs.C10_GO.go_render_decl_bal. rewrite forallb_forall in Pds. exact (Pds d Hd).
Qed.

Lemma go_begin_file_post : post Proofs.C10_GOFile.go_inv (fun t => bal c10_lex_go t) (go_begin_file cfg).
Proof.
  intros st header s1 Hh Hs. pose proof Hcfg as Hc. unfold Proofs.C10_GOFile.c10_go_cfg_ok in Hc. rewrite !andb_true_iff in Hc.
  destruct Hc as [[[_ Hver] Hpack] _].
  unfold go_begin_file in Hh. apply mbind_ok in Hh as (u & s0 & Ha & Hh). unfold ret in Hh. injection Hh as <- <-.
  destruct (Proofs.C10_GOFile.go_add_import_post (lit "encoding/json") eq_refl _ _ _ Ha Hs) as [_ Hs0]. split; [|exact Hs0].
  pose proof (tok_bal c10_lex_go _ (dotted_tok _ Hpack)) as Hp.
  destruct (go_no_version_header cfg).
  - intros st0. walk. reflexivity.
  - pose proof (line_stay c10_lex_go _ (dotted_line _ Hver)) as Hv. intros st0. walk. reflexivity.
Qed.

Theorem go_generate_multi_balanced st pd text st' :
  dom_C10 CGO pd = true -> Proofs.C10_GOFile.go_inv st ->
  go_generate_multi uc cfg st pd = Ok (text, st') -> good_C10_lex CGO text = true /\ Proofs.C10_GOFile.go_inv st'.
Proof.
  intros Hdom Hst H. apply go_multi_sorted in H as (out & header & st1 & parts & Hsorted & Hb & Hw & ->).
  pose proof (sorted_items_ok CGO pd out Hdom Hsorted) as Hitems.
  destruct (go_begin_file_post _ _ _ Hb Hst) as [Bh Hs1].
  destruct (post_writes_seq _ _ _ _ (go_write_item_post (go_types_mapping_to_struct out)) out st1 parts st' Hw Hitems Hs1) as [Pparts Hst'].
  split; [|exact Hst']. unfold good_C10_lex. cbn [c10_cfg_of]. apply bal_balanced.
  eapply tr_app; [exact Bh|]. eapply tr_app; [exact (Proofs.C10_GOFile.go_imports_bal _ Hst')|apply tr_concat, Pparts].
Qed.
End GOMulti.

(* ---------------------------------------------------------------- Python *)
(* import lines, TypeVars and custom translations are those of the state reached after the last item, which still
   holds what the previous crates registered *)
Section PYMulti.
Variable uc : unicode.
Hypothesis Huc : unicode_ok uc.
Variable cfg : py_config.
Hypothesis Hcfg : Proofs.C10_PYFile.c10_py_cfg_ok cfg = true.

Lemma py_write_item_post it : c10_item_ok CPY it = true ->
  post Proofs.C10_PYFile.py_inv (fun t => bal c10_lex_py t) (py_write_item uc cfg it).
Proof.
  intros Hit. unfold py_write_item. eapply post_bind; [exact (Proofs.C10_PYFile.py_decl_post uc Huc cfg Hcfg it Hit)|].
  intros ds Pds. apply post_ret. apply tr_concat_map. apply Forall_forall. intros d Hd.
  apply Proofs.C10_PY.py_render_decl_bal. rewrite forallb_forall in Pds. exact (Pds d Hd).
Qed.

Theorem py_generate_multi_balanced st pd text st' :
  dom_C10 CPY pd = true -> Proofs.C10_PYFile.py_inv st ->
  py_generate_multi uc cfg st pd = Ok (text, st') -> good_C10_lex CPY text = true /\ Proofs.C10_PYFile.py_inv st'.
Proof.
  intros Hdom Hst H. apply py_multi_sorted in H as (out & parts & Hsorted & Hw & ->).
  pose proof (sorted_items_ok CPY pd out Hdom Hsorted) as Hitems.
  destruct (post_writes_seq _ _ _ _ py_write_item_post out st parts st' Hw Hitems Hst) as [Pparts Hst'].
  split; [|exact Hst']. unfold good_C10_lex. cbn [c10_cfg_of]. apply bal_balanced.
  eapply tr_app; [apply Proofs.C10_PYFile.py_begin_file_bal, Hcfg|]. eapply tr_app; [exact (Proofs.C10_PYFile.py_imports_bal _ Hst')|].
  eapply tr_app; [apply Proofs.C10_PYFile.py_translations_bal|apply tr_concat, Pparts].
Qed.
End PYMulti.

(* ---------------------------------------------------------------- the whole run: generate_crates *)
(* a generator that, from a state satisfying Inv and on a plan entry satisfying Okp, writes a Good text and hands
   on a state satisfying Inv: every file generate_crates produces is Good *)
Lemma generate_crates_good {St : Type} (gen : St -> str -> scoped -> parsed -> outcome (str * St))
      (Inv : St -> Prop) (Okp : out_plan -> Prop) (Good : str -> Prop) :
  (forall st p text st', Inv st -> Okp p -> gen st (op_crate p) (op_imports p) (op_data p) = Ok (text, st') -> Good text /\ Inv st') ->
  forall plan st files fin, Forall Okp plan -> Inv st -> generate_crates gen st plan = (files, fin) ->
  forall f text, In (f, Writer.Generated text) files -> Good text.
Proof.
  intros Hg. induction plan as [|p r IH]; intros st files fin Hp Hs H f text Hin; cbn [generate_crates] in H.
  - injection H as <- _. destruct Hin.
  - inversion Hp as [|? ? Hp1 Hpr]; subst.
    destruct (gen st (op_crate p) (op_imports p) (op_data p)) as [[t st1]|e|s] eqn:Eg.
    + destruct (generate_crates gen st1 r) as [rest fin1] eqn:Er. injection H as <- _.
      destruct (Hg _ _ _ _ Hs Hp1 Eg) as [Gt Hs1]. destruct Hin as [E|Hin].
      * injection E as _ <-. exact Gt.
      * exact (IH st1 rest fin1 Hpr Hs1 Er f text Hin).
    + injection H as <- _. destruct Hin as [E|[]]. discriminate.
    + injection H as <- _. destruct Hin as [E|[]]. discriminate.
Qed.

(* what a plan must satisfy: every crate's data in the domain of the language, every crate name and every import
   map of the shapes of Spec/C10MultiSpec.v *)
Definition c10_plan_ok (l : c10_lang) (plan : list out_plan) : bool :=
  forallb (fun p => dom_C10 l (op_data p) && c10_crate_ok (op_crate p) && c10_imports_ok (op_imports p)) plan.

Lemma plan_ok_Forall l plan : c10_plan_ok l plan = true ->
  Forall (fun p => dom_C10 l (op_data p) = true /\ c10_crate_ok (op_crate p) = true /\ c10_imports_ok (op_imports p) = true) plan.
Proof.
  unfold c10_plan_ok. intros H. apply forallb_Forall in H. revert H. apply Forall_impl. intros p Hp.
  rewrite !andb_true_iff in Hp. tauto.
Qed.

(* the generators in the shape generate_crates takes (as in Proofs/C06Multi.v, Proofs/C11Multi.v) *)
Definition wrap_unit {A} (st : unit) (r : outcome A) : outcome (A * unit) :=
  match r with Ok t => Ok (t, st) | Err e => Err e | Panic s => Panic s end.

Theorem ts_run_balanced uc cfg plan files fin :
  unicode_ok uc -> Proofs.C10_TSFile.c10_ts_cfg_ok cfg = true -> c10_plan_ok CTS plan = true ->
  generate_crates (fun st (_ : str) im pd => ts_generate_multi uc cfg st im pd) [] plan = (files, fin) ->
  forall f text, In (f, Writer.Generated text) files -> good_C10_lex CTS text = true.
Proof.
  intros Huc Hcfg Hplan. eapply generate_crates_good with (Inv := fun s => Proofs.C10_TSFile.c10_ts_state_ok s = true);
    [|apply plan_ok_Forall, Hplan|reflexivity].
  intros st p text st' Hs (Hd & _ & Hi) Hg. cbn beta in Hg. exact (ts_generate_multi_balanced uc Huc cfg Hcfg _ _ _ _ _ Hd Hi Hs Hg).
Qed.

Theorem kt_run_balanced uc cfg plan files fin :
  Proofs.C10_KT.c10_kt_cfg_ok cfg = true -> c10_plan_ok CKT plan = true ->
  generate_crates (fun (st : unit) c im pd => wrap_unit st (kt_generate_multi uc cfg c im pd)) tt plan = (files, fin) ->
  forall f text, In (f, Writer.Generated text) files -> good_C10_lex CKT text = true.
Proof.
  intros Hcfg Hplan. eapply generate_crates_good with (Inv := fun _ => True); [|apply plan_ok_Forall, Hplan|exact I].
  intros st p text st' _ (Hd & Hc & Hi) Hg. cbn beta in Hg. split; [|exact I].
  destruct (kt_generate_multi uc cfg (op_crate p) (op_imports p) (op_data p)) as [t| |] eqn:E; try discriminate.
  injection Hg as <- _. exact (kt_generate_multi_balanced uc cfg Hcfg _ _ _ _ Hd Hc Hi E).
Qed.

Theorem sw_run_balanced uc cfg plan files fin :
  Proofs.C10_SWFile.c10_sw_cfg_ok cfg = true -> c10_plan_ok CSW plan = true ->
  generate_crates (fun st (_ : str) (_ : scoped) pd => sw_generate_multi uc cfg st pd) false plan = (files, fin) ->
  (forall f text, In (f, Writer.Generated text) files -> good_C10_lex CSW text = true) /\
  good_C10_lex CSW (sw_codable_contents cfg) = true.
Proof.
  intros Hcfg Hplan H. split; [|exact (sw_codable_contents_balanced cfg Hcfg)]. revert H.
  eapply generate_crates_good with (Inv := fun _ => True); [|apply plan_ok_Forall, Hplan|exact I].
  intros st p text st' _ (Hd & _ & _) Hg. cbn beta in Hg. split; [|exact I]. exact (sw_generate_multi_balanced uc cfg Hcfg _ _ _ _ Hd Hg).
Qed.

Theorem go_run_balanced uc cfg plan files fin :
  unicode_ok uc -> Proofs.C10_GOFile.c10_go_cfg_ok cfg = true -> c10_plan_ok CGO plan = true ->
  generate_crates (fun st (_ : str) (_ : scoped) pd => go_generate_multi uc cfg st pd) [] plan = (files, fin) ->
  forall f text, In (f, Writer.Generated text) files -> good_C10_lex CGO text = true.
Proof.
  intros Huc Hcfg Hplan. eapply generate_crates_good with (Inv := Proofs.C10_GOFile.go_inv); [|apply plan_ok_Forall, Hplan|reflexivity].
  intros st p text st' Hs (Hd & _ & _) Hg. cbn beta in Hg. exact (go_generate_multi_balanced uc Huc cfg Hcfg _ _ _ _ Hd Hs Hg).
Qed.

Theorem py_run_balanced uc cfg plan files fin :
  unicode_ok uc -> Proofs.C10_PYFile.c10_py_cfg_ok cfg = true -> c10_plan_ok CPY plan = true ->
  generate_crates (fun st (_ : str) (_ : scoped) pd => py_generate_multi uc cfg st pd) py_empty_state plan = (files, fin) ->
  forall f text, In (f, Writer.Generated text) files -> good_C10_lex CPY text = true.
Proof.
  intros Huc Hcfg Hplan. eapply generate_crates_good with (Inv := Proofs.C10_PYFile.py_inv);
    [|apply plan_ok_Forall, Hplan|split; reflexivity].
  intros st p text st' Hs (Hd & _ & _) Hg. cbn beta in Hg. exact (py_generate_multi_balanced uc Huc cfg Hcfg _ _ _ _ Hd Hs Hg).
Qed.

(* Scala's generate_types override is the same function in both modes: no import lines, no state *)
Theorem sc_run_balanced uc cfg plan files fin :
  Proofs.C10_SC.c10_sc_cfg_ok cfg = true -> c10_plan_ok CSC plan = true ->
  generate_crates (fun (st : unit) (_ : str) (_ : scoped) pd => wrap_unit st (sc_generate uc cfg pd)) tt plan = (files, fin) ->
  forall f text, In (f, Writer.Generated text) files -> good_C10_lex CSC text = true.
Proof.
  intros Hcfg Hplan. eapply generate_crates_good with (Inv := fun _ => True); [|apply plan_ok_Forall, Hplan|exact I].
  intros st p text st' _ (Hd & _ & _) Hg. cbn beta in Hg. split; [|exact I].
  destruct (sc_generate uc cfg (op_data p)) as [t| |] eqn:E; try discriminate.
  injection Hg as <- _. exact (Proofs.C10_SC.sc_generate_balanced uc cfg Hcfg _ _ Hd E).
Qed.

(* ---------------------------------------------------------------- where the import maps come from *)
(* used_imports only ever inserts (crate, name) pairs taken from the type table of the workspace (the crate is a key
   of the table, the name a member of that crate's set - also on the fallback path and for a wildcard): if every
   crate name and type name of the table has the shape of Spec/C10MultiSpec.v, so has every import map, whatever the
   import sets and their iteration order *)
Lemma sset_insert_ident x l : c10_ident_ok x = true -> forallb c10_ident_ok l = true -> forallb c10_ident_ok (sset_insert x l) = true.
Proof.
  intros Hx. induction l as [|y r IH]; cbn [sset_insert forallb]; [rewrite Hx; reflexivity|]. rewrite andb_true_iff. intros [H1 H2].
  destruct (str_eqb x y); [cbn [forallb]; rewrite H1, H2; reflexivity|].
  destruct (str_ltb x y); cbn [forallb]; [rewrite Hx, H1, H2; reflexivity|]. rewrite H1, (IH H2). reflexivity.
Qed.
Lemma sset_extend_ident v all : forallb c10_ident_ok v = true -> forallb c10_ident_ok all = true -> forallb c10_ident_ok (sset_extend v all) = true.
Proof.
  unfold sset_extend. revert v. induction all as [|n r IH]; intros v Hv Ha; cbn [fold_left]; [exact Hv|].
  cbn [forallb] in Ha. apply andb_true_iff in Ha as [Hn Hr]. apply IH; [apply sset_insert_ident; assumption|exact Hr].
Qed.
Lemma scoped_add_ok m k name : c10_imports_ok m = true -> c10_crate_ok k = true -> c10_ident_ok name = true ->
  c10_imports_ok (scoped_add m k name) = true.
Proof.
  unfold c10_imports_ok. intros Hm Hk Hn. induction m as [|[k' v] r IH]; cbn [scoped_add forallb fst snd].
  - rewrite Hk, Hn. reflexivity.
  - cbn [forallb fst snd] in Hm. rewrite !andb_true_iff in Hm. destruct Hm as [[Hk' Hv] Hr].
    destruct (str_eqb k' k); [cbn [forallb fst snd]; rewrite Hk', (sset_insert_ident _ _ Hn Hv), Hr; reflexivity|].
    destruct (str_ltb k k'); cbn [forallb fst snd]; [rewrite Hk, Hn, Hk', Hv, Hr; reflexivity|].
    rewrite Hk', Hv, (IH Hr). reflexivity.
Qed.
Lemma scoped_extend_ok m k all : c10_imports_ok m = true -> c10_crate_ok k = true -> forallb c10_ident_ok all = true ->
  c10_imports_ok (scoped_extend m k all) = true.
Proof.
  unfold c10_imports_ok. intros Hm Hk Ha. induction m as [|[k' v] r IH]; cbn [scoped_extend forallb fst snd].
  - rewrite Hk, (sset_extend_ident [] all eq_refl Ha). reflexivity.
  - cbn [forallb fst snd] in Hm. rewrite !andb_true_iff in Hm. destruct Hm as [[Hk' Hv] Hr].
    destruct (str_eqb k' k); [cbn [forallb fst snd]; rewrite Hk', (sset_extend_ident _ _ Hv Ha), Hr; reflexivity|].
    destruct (str_ltb k k'); cbn [forallb fst snd]; [rewrite Hk, (sset_extend_ident [] all eq_refl Ha), Hk', Hv, Hr; reflexivity|].
    rewrite Hk', Hv, (IH Hr). reflexivity.
Qed.
Lemma mem_str_all (P : str -> bool) x l : forallb P l = true -> mem_str x l = true -> P x = true.
Proof.
  unfold mem_str. induction l as [|y r IH]; cbn [forallb existsb]; [discriminate|]. rewrite andb_true_iff. intros [Hy Hr] H.
  apply orb_true_iff in H as [H|H]; [apply str_eqb_eq in H; subst; exact Hy|exact (IH Hr H)].
Qed.
Lemma crate_types_get_ok m k v : c10_crate_types_ok m = true -> crate_types_get m k = Some v ->
  c10_crate_ok k = true /\ forallb c10_ident_ok v = true.
Proof.
  unfold c10_crate_types_ok, c10_imports_ok. induction m as [|[a w] r IH]; cbn [crate_types_get forallb fst snd]; [discriminate|].
  rewrite !andb_true_iff. intros [[Ha Hw] Hr]. destruct (str_eqb a k) eqn:E; [|exact (IH Hr)].
  intros [= <-]. apply str_eqb_eq in E. subst. auto.
Qed.
Lemma import_fallback_ok hc_types own name m : c10_crate_types_ok hc_types = true -> c10_imports_ok m = true ->
  c10_imports_ok (import_fallback hc_types own name m) = true.
Proof.
  intros Ht Hm. unfold import_fallback.
  destruct (find _ hc_types) as [kv|] eqn:E; [|exact Hm]. apply find_some in E as [Hin Hp]. apply andb_true_iff in Hp as [_ Hmem].
  destruct (imports_ok_entry _ _ Ht Hin) as [Hc Hn]. apply scoped_add_ok; [exact Hm|exact Hc|exact (mem_str_all _ _ _ Hn Hmem)].
Qed.
Theorem used_imports_ok hc_types own imports_iter : c10_crate_types_ok hc_types = true ->
  c10_imports_ok (used_imports hc_types own imports_iter) = true.
Proof.
  intros Ht. unfold used_imports. assert (H0 : c10_imports_ok [] = true) by reflexivity. revert H0. generalize (@nil (str * list str)).
  induction imports_iter as [|imp r IH]; intros m Hm; cbn [fold_left]; [exact Hm|]. apply IH.
  destruct (str_eqb (base_crate imp) own); [exact Hm|].
  destruct (crate_types_get hc_types (base_crate imp)) as [names|] eqn:Eg; [|apply import_fallback_ok; assumption].
  destruct (crate_types_get_ok _ _ _ Ht Eg) as [Hc Hn].
  destruct (str_eqb (type_name imp) GLOB); [apply scoped_extend_ok; assumption|].
  destruct (mem_str (type_name imp) names) eqn:Em; [|apply import_fallback_ok; assumption].
  apply scoped_add_ok; [exact Hm|exact Hc|exact (mem_str_all _ _ _ Hn Em)].
Qed.

(* so: the plan of a workspace whose crates are in the domain, have crate names of the shape above and type tables
   of identifier-shaped names is c10_plan_ok, for every iteration order [hc] of the type table that only permutes it *)
Theorem multi_plan_ok (lg : lang) (l : c10_lang) (hc : crate_types -> crate_types) (cs : crates) :
  (forall m kv, In kv (hc m) -> In kv m) ->
  forallb (fun c => dom_C10 l (snd c) && c10_crate_ok (fst c) && forallb c10_ident_ok (p_type_names (snd c))) cs = true ->
  c10_plan_ok l (multi_plan lg hc cs) = true.
Proof.
  intros Hhc Hcs. unfold c10_plan_ok, multi_plan. rewrite forallb_forall. intros p Hp. apply in_map_iff in Hp as (c & <- & Hc).
  cbn [op_data op_crate op_imports]. rewrite forallb_forall in Hcs. pose proof (Hcs c Hc) as Hc0. rewrite !andb_true_iff in Hc0.
  destruct Hc0 as [[Hd Hn] _]. rewrite Hd, Hn. cbn [andb]. unfold crate_imports. apply used_imports_ok.
  unfold c10_crate_types_ok, c10_imports_ok. rewrite forallb_forall. intros kv Hkv. apply Hhc in Hkv.
  unfold all_types in Hkv. apply in_map_iff in Hkv as (c' & <- & Hc'). cbn [fst snd].
  pose proof (Hcs c' Hc') as H'. rewrite !andb_true_iff in H'. destruct H' as [[_ Hn'] Ht']. rewrite Hn', Ht'. reflexivity.
Qed.

(* ---------------------------------------------------------------- the per-file theorems in the argument order of Props/C10.v *)
Lemma lex_multi_typescript (uc : unicode) (cfg : ts_config) (st : ts_state) (im : scoped) (pd : parsed) (text : str) (st' : ts_state) :
  unicode_ok uc -> Proofs.C10_TSFile.c10_ts_cfg_ok cfg = true -> dom_C10 CTS pd = true -> c10_imports_ok im = true ->
  Proofs.C10_TSFile.c10_ts_state_ok st = true ->
  ts_generate_multi uc cfg st im pd = Ok (text, st') ->
  good_C10_lex CTS text = true /\ Proofs.C10_TSFile.c10_ts_state_ok st' = true.
Proof. intros Huc Hcfg Hd Hi Hs H. exact (ts_generate_multi_balanced uc Huc cfg Hcfg st im pd text st' Hd Hi Hs H). Qed.
Lemma lex_multi_kotlin (uc : unicode) (cfg : kt_config) (c : str) (im : scoped) (pd : parsed) (text : str) :
  Proofs.C10_KT.c10_kt_cfg_ok cfg = true -> dom_C10 CKT pd = true -> c10_crate_ok c = true -> c10_imports_ok im = true ->
  kt_generate_multi uc cfg c im pd = Ok text -> good_C10_lex CKT text = true.
Proof. intros Hcfg Hd Hc Hi H. exact (kt_generate_multi_balanced uc cfg Hcfg c im pd text Hd Hc Hi H). Qed.
Lemma lex_multi_swift (uc : unicode) (cfg : sw_config) (st : sw_state) (pd : parsed) (text : str) (st' : sw_state) :
  Proofs.C10_SWFile.c10_sw_cfg_ok cfg = true -> dom_C10 CSW pd = true ->
  sw_generate_multi uc cfg st pd = Ok (text, st') -> good_C10_lex CSW text = true.
Proof. intros Hcfg Hd H. exact (sw_generate_multi_balanced uc cfg Hcfg st pd text st' Hd H). Qed.
Lemma lex_multi_go (uc : unicode) (cfg : go_config) (st : go_state) (pd : parsed) (text : str) (st' : go_state) :
  unicode_ok uc -> Proofs.C10_GOFile.c10_go_cfg_ok cfg = true -> dom_C10 CGO pd = true -> Proofs.C10_GOFile.go_inv st ->
  go_generate_multi uc cfg st pd = Ok (text, st') -> good_C10_lex CGO text = true /\ Proofs.C10_GOFile.go_inv st'.
Proof. intros Huc Hcfg Hd Hs H. exact (go_generate_multi_balanced uc Huc cfg Hcfg st pd text st' Hd Hs H). Qed.
Lemma lex_multi_python (uc : unicode) (cfg : py_config) (st : py_state) (pd : parsed) (text : str) (st' : py_state) :
  unicode_ok uc -> Proofs.C10_PYFile.c10_py_cfg_ok cfg = true -> dom_C10 CPY pd = true -> Proofs.C10_PYFile.py_inv st ->
  py_generate_multi uc cfg st pd = Ok (text, st') -> good_C10_lex CPY text = true /\ Proofs.C10_PYFile.py_inv st'.
Proof. intros Huc Hcfg Hd Hs H. exact (py_generate_multi_balanced uc Huc cfg Hcfg st pd text st' Hd Hs H). Qed.
