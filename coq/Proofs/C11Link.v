(* C11, the completeness link: outside the finding classes of Spec/C11Spec.v (known_C11 = None) the
   graph collected by topsort.rs's get_dependencies is, row by row, exactly the declarative
   reference relation [refers] - for structs, aliases, consts and enums alike (since the repair of
   get_enum_dependencies an enum's row is an ordinary row: tuple payloads and struct-variant fields
   are followed, the enum's own name is not pushed; since the repair of the Generic arm of
   get_dependencies_from_type every argument of every generic type is followed, at any depth).  Hence,
   when [refers] is acyclic, topsort emits every definition after all definitions it refers to.

   Shape of the argument
   1. (a general fact about toposort_impl, no longer used by the link) toposort_impl g =
      toposort_impl (clean g), where [clean] empties every row that starts with its own index (the
      cycle `return` fires on the first entry of such a row).
   2. Kahn's peeling (Spec acyclic) yields a rank that strictly decreases along [refers].
   3. The collectors: a nested call get_dependencies(types[id]) made right after seen.insert(id) is
      a no-op (the callee's own seen.insert(id.original) fails), so every row is the list of names
      looked up directly in the item's own types: an exact, fuel-independent description [pushes].
      With the alias-generics loop idle (no alias generic is named like an item) fuel 2 suffices,
      so build_dag cannot run out of fuel and cannot hit its unwrap/expect.
   4. Without duplicate names, names and positions correspond one to one; rows of indices follow. *)
From Coq Require Import List Arith Bool Lia Permutation.
From TS Require Import Model.Str Model.Outcome Model.Types Model.TopsortAlgo Model.Topsort Spec.C11Spec.
From TS Require Import Proofs.ToposortPerm Proofs.SortByIndices Proofs.C11.
Import ListNotations.
Local Open Scope nat_scope.
Local Notation length := List.length (only parsing).

(* ------------------------------------------------------------------ small generic facts *)
Lemma c11_mem_str_In x l : mem_str x l = true <-> In x l.
Proof.
  unfold mem_str. rewrite existsb_exists. split.
  - intros (y & Hy & E). apply str_eqb_eq in E. now subst.
  - intros H. exists x. split; [exact H|apply str_eqb_refl].
Qed.
Lemma c11_mem_str_nIn x l : mem_str x l = false <-> ~ In x l.
Proof. rewrite <- c11_mem_str_In. destruct (mem_str x l); split; congruence. Qed.

Lemma mapM_In {A B} (f : A -> outcome B) l r :
  mapM f l = Ok r -> forall y, In y r <-> exists x, In x l /\ f x = Ok y.
Proof.
  revert r; induction l as [|x l IH]; intros r; cbn [mapM].
  - intros [= <-] y. split; [intros []|intros (x & [] & _)].
  - destruct (f x) as [y0| |] eqn:Ex; cbn [bind]; try discriminate.
    destruct (mapM f l) as [ys| |] eqn:El; cbn [bind]; try discriminate.
    intros [= <-] y. specialize (IH ys eq_refl y). split.
    + intros [<-|H]; [exists x; split; [now left|exact Ex]|].
      apply IH in H as (x' & Hx' & E'). exists x'. split; [now right|exact E'].
    + intros (x' & [<-|Hx'] & E').
      * left. congruence.
      * right. apply IH. eauto.
Qed.

Lemma mapM_total {A B} (f : A -> outcome B) l :
  (forall x, In x l -> exists y, f x = Ok y) -> exists r, mapM f l = Ok r.
Proof.
  induction l as [|x l IH]; intros H; cbn [mapM]; [eauto|].
  destruct (H x (or_introl eq_refl)) as (y & ->). cbn [bind].
  destruct IH as (r & ->); [intros z Hz; apply H; now right|]. cbn [bind]. eauto.
Qed.

Lemma mapM_nth {A B} (f : A -> outcome B) l r i x :
  mapM f l = Ok r -> nth_error l i = Some x -> exists y, nth_error r i = Some y /\ f x = Ok y.
Proof.
  revert r i; induction l as [|x0 l IH]; intros r i; cbn [mapM].
  - intros _ H. destruct i; discriminate.
  - destruct (f x0) as [y0| |] eqn:Ex; cbn [bind]; try discriminate.
    destruct (mapM f l) as [ys| |] eqn:El; cbn [bind]; try discriminate.
    intros [= <-]. destruct i as [|i]; cbn [nth_error].
    + intros [= <-]. eauto.
    + intros H. eapply IH; [reflexivity|exact H].
Qed.

Lemma mapM_head {A B} (f : A -> outcome B) x l r :
  mapM f (x :: l) = Ok r -> exists y ys, r = y :: ys /\ f x = Ok y.
Proof.
  cbn [mapM]. destruct (f x) as [y0| |]; cbn [bind]; try discriminate.
  destruct (mapM f l) as [ys| |]; cbn [bind]; try discriminate.
  intros [= <-]. eauto.
Qed.

(* ------------------------------------------------------------------ 1. rows starting with their own index *)
Definition self_started (i : nat) (row : list nat) : bool :=
  match row with j :: _ => Nat.eqb j i | [] => false end.
Definition clean_row (i : nat) (row : list nat) : list nat := if self_started i row then [] else row.
Fixpoint clean_from (i : nat) (g : graph) : graph :=
  match g with [] => [] | row :: r => clean_row i row :: clean_from (S i) r end.
Definition clean (g : graph) : graph := clean_from 0 g.

Lemma clean_from_length i g : length (clean_from i g) = length g.
Proof. revert i; induction g as [|row g IH]; intros i; cbn; [reflexivity|now rewrite IH]. Qed.

Lemma clean_from_nth i g k : nth_error (clean_from i g) k = option_map (clean_row (i + k)) (nth_error g k).
Proof.
  revert i k; induction g as [|row g IH]; intros i k; cbn [clean_from].
  - destruct k; reflexivity.
  - destruct k as [|k]; cbn [nth_error option_map].
    + now rewrite Nat.add_0_r.
    + rewrite IH. now rewrite Nat.add_succ_r.
Qed.

Lemma clean_nth g k : nth_error (clean g) k = option_map (clean_row k) (nth_error g k).
Proof. unfold clean. now rewrite clean_from_nth. Qed.

Lemma clean_row_incl i row : incl (clean_row i row) row.
Proof. unfold clean_row. destruct (self_started i row); [intros x []|apply incl_refl]. Qed.

Lemma inner_clean g fuel : forall nodes s, inner fuel g nodes s = inner fuel (clean g) nodes s.
Proof.
  induction fuel as [|f IHf]; intros nodes s; cbn [inner]; [reflexivity|].
  revert s; induction nodes as [|d rest IHn]; intros s; cbn [loop]; [reflexivity|].
  destruct (mem d (processed s)) eqn:Ep; [apply IHn|].
  destruct (mem d (TopsortAlgo.seen s)) eqn:Es; [reflexivity|].
  rewrite clean_nth. destruct (nth_error g d) as [deps|]; cbn [option_map]; [|reflexivity].
  set (s1 := {| res := res s; processed := processed s; seen := TopsortAlgo.seen s ++ [d] |}).
  assert (E : inner f g deps s1 = inner f (clean g) (clean_row d deps) s1).
  { unfold clean_row. destruct (self_started d deps) eqn:Ess; [|apply IHf].
    destruct deps as [|j deps']; [discriminate|]. cbn [self_started] in Ess.
    apply Nat.eqb_eq in Ess. subst j.
    destruct f as [|f']; cbn [inner loop]; [reflexivity|].
    unfold s1; cbn [processed TopsortAlgo.seen]. rewrite Ep.
    replace (mem d (TopsortAlgo.seen s ++ [d])) with true; [reflexivity|].
    symmetry. apply mem_In. apply in_or_app. right. now left. }
  rewrite E. destruct (inner f (clean g) (clean_row d deps) s1); try reflexivity. apply IHn.
Qed.

Lemma toposort_impl_clean g : toposort_impl g = toposort_impl (clean g).
Proof. unfold toposort_impl, clean. rewrite clean_from_length. now rewrite inner_clean. Qed.

(* ------------------------------------------------------------------ 2. a rank from Kahn's peeling *)
Fixpoint krank (fuel : nat) (left : list ritem) (x : ritem) : nat :=
  match fuel with
  | O => 0
  | S f => if existsb (fun b => refers x b) left
           then S (krank f (filter (fun a => existsb (fun b => refers a b) left) left) x)
           else 0
  end.

Lemma kahn_rank fuel : forall left, kahn fuel left = true ->
  forall a b, In a left -> In b left -> refers a b = true -> krank fuel left b < krank fuel left a.
Proof.
  induction fuel as [|f IH]; intros left HK a b Ha Hb Hr.
  - cbn [kahn] in HK. destruct left; [destruct Ha|discriminate].
  - cbn [kahn krank] in *.
    set (keep := filter (fun a => existsb (fun b => refers a b) left) left) in *.
    assert (Ea : existsb (fun b => refers a b) left = true).
    { apply existsb_exists. exists b. split; assumption. }
    assert (Ka : In a keep). { apply filter_In. split; assumption. }
    rewrite Ea.
    destruct (existsb (fun b0 => refers b b0) left) eqn:Eb; [|lia].
    assert (Kb : In b keep). { apply filter_In. split; assumption. }
    destruct keep as [|k0 keep'] eqn:Ek; [destruct Ka|]. rewrite <- Ek in *.
    destruct (Nat.eqb (length keep) (length left)); [discriminate|].
    specialize (IH keep HK a b Ka Kb Hr). lia.
Qed.

(* ------------------------------------------------------------------ 3. the collectors *)
Definition oname (it : ritem) : str := original (item_id it).

Lemma ritem_eqb_name a b : ritem_eqb a b = true -> oname a = oname b.
Proof.
  unfold oname. destruct a, b; cbn [ritem_eqb item_id]; try discriminate; intros H; now apply str_eqb_eq in H.
Qed.
Lemma ritem_eqb_refl a : ritem_eqb a a = true.
Proof. destruct a; cbn [ritem_eqb]; apply str_eqb_refl. Qed.

Lemma filter_drop_fresh id (seen : list str) : mem_str id seen = false ->
  filter (fun y => negb (str_eqb id y)) (id :: seen) = seen.
Proof.
  intros H. cbn [filter]. rewrite str_eqb_refl. cbn [negb].
  apply c11_mem_str_nIn in H. induction seen as [|y r IH]; cbn [filter]; [reflexivity|].
  destruct (str_eqb id y) eqn:E.
  - apply str_eqb_eq in E. subst y. exfalso. apply H. now left.
  - cbn [negb]. f_equal. apply IH. intros Hin. apply H. now right.
Qed.

Lemma dstate_eta s : {| dres := dres s; dseen := dseen s |} = s.
Proof. now destruct s. Qed.

Section Coll.
Variable things : list ritem.
Let T := types_get things.
Let known := is_known things.

Lemma T_some n it : T n = Some it -> oname it = n /\ In it things.
Proof.
  unfold T, types_get. intros H. apply find_some in H as (Hin & E).
  apply str_eqb_eq in E. split; [exact E|]. now apply in_rev.
Qed.
Lemma known_T n : known n = true -> exists it, T n = Some it.
Proof.
  unfold known, is_known, T, types_get. intros H. apply existsb_exists in H as (it & Hin & E).
  destruct (find _ (rev things)) as [x|] eqn:F; [eauto|].
  eapply find_none in F; [|apply in_rev; rewrite rev_involutive; exact Hin]. cbn beta in F. congruence.
Qed.
Lemma T_known n it : T n = Some it -> known n = true.
Proof.
  intros H. apply T_some in H as (E & Hin). unfold known, is_known. apply existsb_exists.
  exists it. split; [exact Hin|]. apply str_eqb_eq. exact E.
Qed.
Lemma unknown_T n : known n = false -> T n = None.
Proof. intros H. destruct (T n) eqn:E; [|reflexivity]. apply T_known in E. congruence. Qed.
Lemma In_known a : In a things -> known (oname a) = true.
Proof. intros H. apply existsb_exists. exists a. split; [exact H|apply str_eqb_refl]. Qed.

(* a name is pushed when it names an item and is not on the `seen` stack *)
Definition okp (seen : list str) (n : str) : bool := known n && negb (mem_str n seen).

(* what get_dependencies_from_type appends to `res` for one type, with `seen` on entry *)
Fixpoint pushes (seen : list str) (t : rtype) : list str :=
  match t with
  | RSimple id => if okp seen id then [id] else []
  | RGeneric id ps => (if okp seen id then [id] else []) ++ flat_map (pushes seen) ps
  | RVec x | RArray x _ | RSlice x | ROption x => pushes seen x
  | RHashMap k v => pushes seen k ++ pushes seen v
  | RPrim _ => []
  end.

(* get_dependencies(types[id]) right after seen.insert(id): the callee's own insert fails *)
Lemma gd_noop f y s : mem_str (oname y) (dseen s) = true -> get_dependencies (S f) T y s = Some s.
Proof.
  unfold oname. intros H. destruct y as [st|[sh|tg ct sh]|a|c]; cbn [get_dependencies deps_item]; try reflexivity;
    cbn [item_id enum_shared] in H; unfold seen_insert; rewrite H; reflexivity.
Qed.

Section Fuel.
Variable f : nat.
Let gd := get_dependencies (S f) T.

Lemma visit_name_spec id s :
  visit_name T gd id s = Some (if okp (dseen s) id then res_push id s else s).
Proof.
  unfold visit_name, okp. destruct (T id) as [tp|] eqn:ET.
  - rewrite (T_known _ _ ET). apply T_some in ET as (EN & _). cbn [andb].
    unfold seen_insert. destruct (mem_str id (dseen s)) eqn:EM; cbn [negb]; [reflexivity|].
    unfold gd. rewrite gd_noop.
    2:{ rewrite EN. cbn [res_push dseen mem_str existsb]. now rewrite str_eqb_refl. }
    cbn [obind]. f_equal. unfold seen_remove, res_push. cbn [dres dseen]. f_equal. now apply filter_drop_fresh.
  - destruct (known id) eqn:EK; [apply known_T in EK as (it & EK); fold T in EK; congruence|reflexivity].
Qed.

Definition deps_type_spec_at (t : rtype) : Prop := forall s,
  deps_type T gd t s = Some {| dres := dres s ++ pushes (dseen s) t; dseen := dseen s |}.

(* the argument loop of the Generic arm: each argument is a type in its own right *)
Lemma params_fold ps : Forall deps_type_spec_at ps -> forall s,
  fold_left (fun acc p => obind acc (deps_type T gd p)) ps (Some s) =
  Some {| dres := dres s ++ flat_map (pushes (dseen s)) ps; dseen := dseen s |}.
Proof.
  induction 1 as [|p ps Hp _ IH]; intros s; cbn [fold_left flat_map].
  - rewrite app_nil_r. now rewrite dstate_eta.
  - cbn [obind]. rewrite Hp. rewrite IH. cbn [dres dseen]. now rewrite <- app_assoc.
Qed.

Lemma deps_type_spec t : deps_type_spec_at t.
Proof.
  induction t as [id|id ps IHps|x IH|x n IH|x IH|k v IHk IHv|x IH|p] using rtype_ind'; intros s;
    cbn [deps_type pushes]; try apply IH.
  - rewrite visit_name_spec. destruct (okp (dseen s) id).
    + reflexivity.
    + rewrite app_nil_r. now rewrite dstate_eta.
  - rewrite visit_name_spec. cbn [obind]. destruct (okp (dseen s) id).
    + rewrite (params_fold ps IHps). unfold res_push. cbn [dres dseen]. now rewrite <- app_assoc.
    + rewrite (params_fold ps IHps). reflexivity.
  - rewrite IHk. cbn [obind]. rewrite IHv. cbn [dres dseen]. now rewrite <- app_assoc.
  - rewrite app_nil_r. now rewrite dstate_eta.
Qed.

Lemma deps_fields_spec fs : forall s,
  deps_fields T gd fs s = Some {| dres := dres s ++ flat_map (pushes (dseen s)) fs; dseen := dseen s |}.
Proof.
  unfold deps_fields. induction fs as [|t fs IH]; intros s; cbn [fold_left flat_map].
  - rewrite app_nil_r. now rewrite dstate_eta.
  - cbn [obind]. rewrite deps_type_spec. rewrite IH. cbn [dres dseen]. now rewrite <- app_assoc.
Qed.
End Fuel.

(* the `res` vector get_dependencies(thing, .., &mut deps, &mut HashSet::new()) leaves for one item:
   the same description for every kind of item (RustEnum::Unit has no visible types: []) *)
Definition row_names (it : ritem) : list str := flat_map (pushes [oname it]) (visible_types it).

(* the variant walk of get_enum_dependencies visits the types the spec calls [variant_types], in order *)
Lemma enum_walk_types vs :
  flat_map (fun v => match v with VUnit _ => [] | VAnon fs _ => map fty fs | VTuple t _ => [t] end) vs =
  flat_map variant_types vs.
Proof. apply flat_map_ext. intros [sh|t sh|fs sh]; reflexivity. Qed.

Hypothesis no_shadow : alias_generic_shadows things = false.

Lemma alias_generics_unknown a g : In (ItAlias a) things -> In g (agenerics a) -> T g = None.
Proof.
  intros Ha Hg. apply unknown_T. destruct (known g) eqn:E; [|reflexivity].
  exfalso. unfold alias_generic_shadows in no_shadow.
  assert (X : existsb (fun it => match it with ItAlias a => existsb (is_known things) (agenerics a) | _ => false end) things = true).
  { apply existsb_exists. exists (ItAlias a). split; [exact Ha|]. apply existsb_exists. exists g. split; assumption. }
  congruence.
Qed.

Lemma generics_fold_idle (rec : ritem -> dstate -> option dstate) gens : (forall g, In g gens -> T g = None) ->
  forall s, fold_left (fun acc gname => obind acc (fun sa => match T gname with Some thing => rec thing sa | None => Some sa end))
                      gens (Some s) = Some s.
Proof.
  induction gens as [|g gens IH]; intros H s; cbn [fold_left]; [reflexivity|].
  cbn [obind]. rewrite (H g (or_introl eq_refl)). apply IH. intros g' Hg'. apply H. now right.
Qed.

Lemma gd_unfold f it s : get_dependencies (S f) T it s = deps_item T (get_dependencies f T) it s.
Proof. reflexivity. Qed.

(* two levels of fuel are all the collection ever uses (outside the alias-generic-shadow class) *)
Lemma gd_row f it : In it things ->
  get_dependencies (S (S f)) T it {| dres := []; dseen := [] |} = Some {| dres := row_names it; dseen := [] |}.
Proof.
  intros Hin. rewrite gd_unfold.
  unfold row_names.
  destruct it as [st|[sh|tg ct sh]|a|c]; cbn [deps_item]; try reflexivity;
    unfold seen_insert; cbn [dseen dres mem_str existsb].
  - rewrite deps_fields_spec. cbn [obind dres dseen app]. unfold seen_remove. cbn [dres dseen filter].
    unfold oname; cbn [item_id visible_types]. now rewrite str_eqb_refl.
  - rewrite enum_walk_types, deps_fields_spec. cbn [obind dres dseen app]. unfold seen_remove. cbn [dres dseen filter].
    unfold oname; cbn [item_id enum_shared visible_types]. now rewrite str_eqb_refl.
  - rewrite deps_type_spec. cbn [obind dres dseen app].
    rewrite generics_fold_idle; [|intros g Hg; eapply alias_generics_unknown; eassumption].
    cbn [obind]. unfold seen_remove. cbn [dres dseen filter].
    unfold oname; cbn [item_id visible_types flat_map]. rewrite str_eqb_refl. cbn [negb]. now rewrite app_nil_r.
  - rewrite deps_type_spec. cbn [obind dres dseen app]. unfold seen_remove. cbn [dres dseen filter].
    unfold oname; cbn [item_id visible_types flat_map]. rewrite str_eqb_refl. cbn [negb]. now rewrite app_nil_r.
Qed.

(* membership in [pushes] at top level = the identifiers of the type (at any depth) that name an item other than the collecting one *)
Lemma okp_spec seen n : okp seen n = true <-> known n = true /\ ~ In n seen.
Proof. unfold okp. rewrite andb_true_iff, negb_true_iff, c11_mem_str_nIn. tauto. Qed.

Lemma okp_head own id n :
  In n (if okp [own] id then [id] else []) <-> n = id /\ known n = true /\ n <> own.
Proof.
  destruct (okp [own] id) eqn:E.
  - apply okp_spec in E as (K & NI). cbn [In] in *. split.
    + intros [E0|[]]. subst n. repeat split; auto.
    + intros (-> & _). now left.
  - split; [intros []|]. intros (-> & K & NE). exfalso.
    assert (X : okp [own] id = true) by (apply okp_spec; cbn [In]; split; [exact K|intros [X|[]]; congruence]).
    congruence.
Qed.

Lemma pushes_visible own t n :
  In n (pushes [own] t) <-> In n (type_idents t) /\ known n = true /\ n <> own.
Proof.
  induction t as [id|id ps IHps|x IH|x k IH|x IH|k v IHk IHv|x IH|p] using rtype_ind';
    cbn [pushes type_idents]; try exact IH.
  - rewrite okp_head. cbn [In]. split; [intros (-> & H); auto|intros ([->|[]] & H); auto].
  - rewrite in_app_iff, okp_head. cbn [In]. rewrite !in_flat_map.
    assert (X : (exists x, In x ps /\ In n (pushes [own] x)) <->
                (exists x, In x ps /\ In n (type_idents x)) /\ known n = true /\ n <> own).
    { rewrite Forall_forall in IHps. split.
      - intros (x & Hx & H). apply (IHps x Hx) in H as (H1 & H2 & H3). eauto.
      - intros ((x & Hx & H) & H2 & H3). exists x. split; [exact Hx|]. apply (IHps x Hx). auto. }
    rewrite X. split.
    + intros [(-> & H)|(H1 & H)]; auto.
    + intros ([->|H1] & H); auto.
  - rewrite !in_app_iff, IHk, IHv. tauto.
  - split; [intros []|intros ([] & _)].
Qed.

Lemma pushes_flat_visible own ts n :
  In n (flat_map (pushes [own]) ts) <-> In n (flat_map type_idents ts) /\ known n = true /\ n <> own.
Proof.
  rewrite !in_flat_map. split.
  - intros (t & Ht & H). apply pushes_visible in H as (H1 & H2 & H3). eauto.
  - intros ((t & Ht & H) & H2 & H3). exists t. split; [exact Ht|]. apply pushes_visible. auto.
Qed.

Lemma row_names_known it n : In n (row_names it) -> In it things -> known n = true.
Proof.
  intros H _. unfold row_names in H. now apply pushes_flat_visible in H.
Qed.

(* ------------------------------------------------------------------ 4. names and positions *)
Lemma existsb_false_forall {A} (p : A -> bool) l : existsb p l = false -> forall x, In x l -> p x = false.
Proof.
  intros H x Hx. destruct (p x) eqn:E; [|reflexivity].
  assert (X : existsb p l = true) by (apply existsb_exists; eauto). congruence.
Qed.

Lemma filter_len_pos {A} (p : A -> bool) l y : In y l -> p y = true -> 1 <= length (filter p l).
Proof.
  induction l as [|z l IH]; intros Hin Hp; [destruct Hin|]. destruct Hin as [->|H]; cbn [filter].
  - rewrite Hp. cbn. lia.
  - destruct (p z); cbn; [lia|auto].
Qed.

Lemma filter_len_two {A} (p : A -> bool) l : forall i j x y,
  nth_error l i = Some x -> nth_error l j = Some y -> i <> j -> p x = true -> p y = true ->
  2 <= length (filter p l).
Proof.
  induction l as [|z l IH]; intros i j x y Hi Hj Hne Hx Hy; [destruct i; discriminate|].
  destruct i as [|i], j as [|j]; cbn [nth_error] in *; [congruence| | |].
  - injection Hi as ->. cbn [filter]. rewrite Hx. cbn.
    apply nth_error_In in Hj. pose proof (filter_len_pos p l y Hj Hy). lia.
  - injection Hj as ->. cbn [filter]. rewrite Hy. cbn.
    apply nth_error_In in Hi. pose proof (filter_len_pos p l x Hi Hx). lia.
  - assert (H : 2 <= length (filter p l)) by (apply (IH i j x y Hi Hj); auto).
    cbn [filter]. destruct (p z); cbn; lia.
Qed.

Lemma get_index_some it l : In it l ->
  exists i x, get_index it l = Some i /\ nth_error l i = Some x /\ ritem_eqb x it = true.
Proof.
  induction l as [|z l IH]; intros Hin; [destruct Hin|]. cbn [get_index].
  destruct (ritem_eqb z it) eqn:E.
  - exists 0, z. auto.
  - destruct Hin as [->|Hin]; [rewrite ritem_eqb_refl in E; discriminate|].
    destruct (IH Hin) as (i & x & E1 & E2 & E3). exists (S i), x. rewrite E1. auto.
Qed.

(* the closure of topsort.rs:222-223: types.get(dep).unwrap() then get_index(..).expect(..) *)
Definition dep_index (dep : str) : outcome nat :=
  match types_get things dep with
  | None => Panic "topsort.rs:222"
  | Some it => match get_index it things with
               | None => Panic "topsort.rs:154"
               | Some i => Ok i
               end
  end.

Lemma dep_index_ok n : known n = true ->
  exists i x, dep_index n = Ok i /\ nth_error things i = Some x /\ oname x = n.
Proof.
  intros K. apply known_T in K as (it & ET). unfold dep_index. fold T. rewrite ET.
  apply T_some in ET as (EN & Hin).
  destruct (get_index_some it things Hin) as (i & x & E1 & E2 & E3). rewrite E1.
  exists i, x. repeat split; auto. apply ritem_eqb_name in E3. congruence.
Qed.

Lemma dag_row_names a : In a things -> dag_row things a = mapM dep_index (row_names a).
Proof.
  intros Hin. unfold dag_row.
  assert (EF : exists f, deps_fuel things = S (S f)) by (exists (4 * length things + 14); unfold deps_fuel; lia).
  destruct EF as (f & ->). fold T. rewrite (gd_row f a Hin). reflexivity.
Qed.

(* collection never fails: no fuel exhaustion, no unwrap/expect panic *)
Lemma dag_row_total a : In a things -> exists row, dag_row things a = Ok row.
Proof.
  intros Hin. rewrite (dag_row_names a Hin). apply mapM_total. intros n Hn.
  destruct (dep_index_ok n (row_names_known a n Hn Hin)) as (i & _ & E & _). eauto.
Qed.

Lemma build_dag_total : exists dag, build_dag things = Ok dag /\
  forall i a, nth_error things i = Some a -> exists row, nth_error dag i = Some row /\ dag_row things a = Ok row.
Proof.
  destruct (mapM_total (dag_row things) things) as (dag & E); [intros a Ha; now apply dag_row_total|].
  exists dag. split; [exact E|]. intros i a Hi. eapply mapM_nth; eassumption.
Qed.

Hypothesis no_dup : has_dup_names things = false.

Lemma name_inj i j x y : nth_error things i = Some x -> nth_error things j = Some y -> oname x = oname y -> i = j.
Proof.
  intros Hi Hj E. destruct (Nat.eq_dec i j) as [|Hne]; [assumption|exfalso].
  unfold has_dup_names in no_dup.
  pose proof (existsb_false_forall _ _ no_dup x (nth_error_In _ _ Hi)) as H. cbn beta in H.
  apply negb_false_iff, Nat.eqb_eq in H.
  assert (X : 2 <= length (filter (fun b => str_eqb (original (item_id x)) (original (item_id b))) things)).
  { eapply filter_len_two; [exact Hi|exact Hj|exact Hne|apply str_eqb_refl|]. apply str_eqb_eq. exact E. }
  lia.
Qed.

Lemma dag_row_members a row : In a things -> dag_row things a = Ok row ->
  forall j, In j row <-> exists b, nth_error things j = Some b /\ In (oname b) (row_names a).
Proof.
  intros Hin E j. rewrite (dag_row_names a Hin) in E. rewrite (mapM_In _ _ _ E j). split.
  - intros (n & Hn & En). destruct (dep_index_ok n (row_names_known a n Hn Hin)) as (i & x & E1 & E2 & E3).
    rewrite E1 in En. injection En as <-. exists x. split; [exact E2|]. now rewrite E3.
  - intros (b & Hb & Hn). exists (oname b). split; [exact Hn|].
    destruct (dep_index_ok (oname b) (row_names_known a _ Hn Hin)) as (i & x & E1 & E2 & E3).
    rewrite E1. f_equal. eapply name_inj; eassumption.
Qed.

(* ------------------------------------------------------------------ 5. rows = references *)
(* every kind of item, enums included *)
Lemma row_edge a b : In a things -> In b things ->
  (In (oname b) (row_names a) <-> edge_visible a b = true /\ oname b <> oname a).
Proof.
  intros Ha Hb. unfold edge_visible. rewrite c11_mem_str_In. fold (oname b).
  unfold row_names. rewrite pushes_flat_visible. pose proof (In_known b Hb). tauto.
Qed.

(* no row mentions its own position: the item's name sits in `seen` for the whole collection *)
Lemma dag_row_irreflexive i a row : nth_error things i = Some a -> dag_row things a = Ok row -> ~ In i row.
Proof.
  intros Ea Er H. pose proof (nth_error_In _ _ Ea) as Ha.
  apply (dag_row_members a row Ha Er) in H as (a' & Ea' & Hn). rewrite Ea in Ea'. injection Ea' as <-.
  apply (row_edge a a Ha Ha) in Hn as (_ & NE). now apply NE.
Qed.

Hypothesis complete : forall a b, In a things -> In b things -> refers a b = true -> edge_visible a b = true.
Hypothesis no_phantom : forall a b, In a things -> In b things ->
  edge_visible a b = true -> same_item a b = false -> refers a b = true.
Hypothesis acyc : acyclic things = true.

Definition irank (i : nat) : nat :=
  match nth_error things i with Some a => krank (length things) things a | None => 0 end.

Lemma clean_from_wf n g : forall i, Forall (Forall (fun x => x < n)) g -> Forall (Forall (fun x => x < n)) (clean_from i g).
Proof.
  induction g as [|row g IH]; intros i H; cbn [clean_from]; [constructor|].
  inversion H as [|? ? H1 H2]; subst. constructor; [|now apply IH].
  unfold clean_row. destruct (self_started i row); [constructor|exact H1].
Qed.

Lemma clean_row_keep i row : ~ In i row -> clean_row i row = row.
Proof.
  intros H. unfold clean_row, self_started. destruct row as [|j row']; [reflexivity|].
  destruct (Nat.eqb_spec j i); [subst; exfalso; apply H; now left|reflexivity].
Qed.

Lemma topo_ok_map (f : nat -> ritem) r :
  (forall r1 x r2 y, r = r1 ++ x :: r2 -> In y r2 -> refers (f x) (f y) = false) -> topo_ok (map f r) = true.
Proof.
  induction r as [|x r IH]; intros H; cbn [map topo_ok]; [reflexivity|].
  apply andb_true_intro. split.
  - apply negb_true_iff. destruct (existsb _ (map f r)) eqn:E; [|reflexivity].
    apply existsb_exists in E as (b & Hb & Eb). apply in_map_iff in Hb as (y & <- & Hy).
    rewrite (H [] x r y eq_refl Hy) in Eb. discriminate.
  - apply IH. intros r1 x' r2 y E Hy. apply (H (x :: r1) x' r2 y); [now rewrite E|exact Hy].
Qed.

Definition c11_default : ritem :=
  ItConst {| cid := {| original := []; renamed := []; via_serde_rename := false |}; ctype := RPrim PUnit; cvalue := Z0 |}.

Theorem topsort_topological_sec :
  exists out, topsort things = Ok out /\ Permutation out things /\ topo_ok out = true.
Proof.
  destruct build_dag_total as (dag & EB & Hrows).
  destruct (build_dag_wf things dag EB) as [HL HW].
  (* every edge of the collected graph is a reference, so it decreases the Kahn rank *)
  assert (Hrank : forall i deps x, nth_error dag i = Some deps -> In x deps -> irank x < irank i).
  { intros i row x Ed Hx.
    assert (Hlt : i < length things) by (rewrite <- HL; apply nth_error_Some; congruence).
    destruct (nth_error things i) as [a|] eqn:Ea; [|apply nth_error_None in Ea; lia].
    pose proof (nth_error_In _ _ Ea) as Ha.
    destruct (Hrows i a Ea) as (row0 & Ed0 & Er). rewrite Ed in Ed0. injection Ed0 as <-.
    apply (dag_row_members a row Ha Er) in Hx as (b & Eb & Hn).
    pose proof (nth_error_In _ _ Eb) as Hb.
    apply (row_edge a b Ha Hb) in Hn as (EV & NN).
    assert (SI : same_item a b = false).
    { unfold same_item. destruct (ritem_eqb a b) eqn:E; [|reflexivity]. apply ritem_eqb_name in E. congruence. }
    pose proof (no_phantom a b Ha Hb EV SI) as R.
    unfold irank. rewrite Ea, Eb. apply kahn_rank; auto. }
  destruct (toposort_acyclic dag HW irank Hrank) as (r & Er & Pr & Ho).
  rewrite HL in Pr.
  set (out := map (fun j => nth j things c11_default) r).
  assert (ET : topsort things = Ok out).
  { unfold topsort. rewrite EB. cbn [bind]. rewrite Er. cbn [bind].
    now apply sort_by_indices_spec. }
  exists out. split; [exact ET|]. split.
  { destruct (topsort_permutation things dag EB) as (out' & E' & P'). congruence. }
  assert (ND : NoDup r). { eapply Permutation_NoDup; [apply Permutation_sym; exact Pr|apply seq_NoDup]. }
  apply topo_ok_map. intros r1 x r2 y Er12 Hy.
  destruct (refers _ _) eqn:R; [exfalso|reflexivity].
  assert (Hx' : In x r) by (rewrite Er12; apply in_or_app; right; now left).
  assert (Hy' : In y r) by (rewrite Er12; apply in_or_app; right; now right).
  assert (Lx : x < length things).
  { apply (Permutation_in _ Pr) in Hx'. apply in_seq in Hx'. lia. }
  assert (Ly : y < length things).
  { apply (Permutation_in _ Pr) in Hy'. apply in_seq in Hy'. lia. }
  pose proof (nth_error_nth' things c11_default Lx) as Ea.
  pose proof (nth_error_nth' things c11_default Ly) as Eb.
  set (a := nth x things c11_default) in *. set (b := nth y things c11_default) in *.
  pose proof (nth_error_In _ _ Ea) as Ha. pose proof (nth_error_In _ _ Eb) as Hb.
  assert (Hxy : x <> y).
  { rewrite Er12 in ND. apply NoDup_remove_2 in ND. intros ->. apply ND. apply in_or_app. now right. }
  pose proof (complete a b Ha Hb R) as EV.
  assert (NN : oname b <> oname a).
  { intros E. apply Hxy. eapply name_inj; [exact Ea|exact Eb|]. now symmetry. }
  destruct (Hrows x a Ea) as (row & Ed & Erow).
  assert (Hyr : In y row).
  { apply (dag_row_members a row Ha Erow). exists b. split; [exact Eb|]. apply (row_edge a b Ha Hb). auto. }
  pose proof (Ho r1 x r2 row Er12 Ed y Hyr) as Hy1.
  apply in_split in Hy1 as (l1 & l2 & ->).
  rewrite Er12, <- app_assoc in ND. cbn [app] in ND. apply NoDup_remove_2 in ND.
  apply ND. apply in_or_app. right. apply in_or_app. right. now right.
Qed.
End Coll.

(* ------------------------------------------------------------------ 6. from the decidable class predicate *)
Lemma edge_class_some a b : edge_class a b <> None.
Proof.
  unfold edge_class, cls. destruct (negb _); discriminate.
Qed.
Lemma phantom_class_some a b : phantom_class a b <> None.
Proof. unfold phantom_class, cls. discriminate. Qed.

Lemma known_none things : known_C11 things = None ->
  has_dup_names things = false /\ alias_generic_shadows things = false /\
  (forall a b, In a things -> In b things -> refers a b = true -> edge_visible a b = true) /\
  (forall a b, In a things -> In b things -> edge_visible a b = true -> same_item a b = false -> refers a b = true).
Proof.
  unfold known_C11. destruct (has_dup_names things); [discriminate|].
  destruct (alias_generic_shadows things); [discriminate|].
  intros H. split; [reflexivity|]. split; [reflexivity|].
  assert (X : forall a b, In (a, b) (list_prod things things) ->
              (refers a b && negb (edge_visible a b) = false) /\
              (edge_visible a b && negb (same_item a b) && negb (refers a b) = false)).
  { revert H. generalize (list_prod things things) as pairs.
    induction pairs as [|[a0 b0] pairs IH]; intros H a b Hin; [destruct Hin|].
    destruct (refers a0 b0 && negb (edge_visible a0 b0)) eqn:C1.
    { exfalso. now apply (edge_class_some a0 b0). }
    destruct (edge_visible a0 b0 && negb (same_item a0 b0) && negb (refers a0 b0)) eqn:C2.
    { exfalso. now apply (phantom_class_some a0 b0). }
    destruct Hin as [[= <- <-]|Hin]; [auto|]. now apply IH. }
  split; intros a b Ha Hb.
  - intros R. destruct (X a b (in_prod _ _ _ _ Ha Hb)) as (C1 & _). rewrite R in C1. cbn [andb] in C1.
    now apply negb_false_iff in C1.
  - intros EV SI. destruct (X a b (in_prod _ _ _ _ Ha Hb)) as (_ & C2). rewrite EV, SI in C2. cbn [andb negb] in C2.
    now apply negb_false_iff in C2.
Qed.

(* what is left of the two edge classifications since every generic argument is followed *)
Lemma visible_types_incl a t : In t (visible_types a) -> In t (item_types a).
Proof.
  destruct a as [st|[sh|tg ct sh]|al|c]; cbn [visible_types item_types enum_shared]; auto. intros [].
Qed.

(* a recorded edge that is no reference: the looked-up name is one of the item's own generic parameters *)
Lemma phantom_is_param_shadow a b :
  edge_visible a b = true -> same_item a b = false -> refers a b = false ->
  mem_str (original (item_id b)) (item_generics a) = true.
Proof.
  unfold edge_visible, refers. intros EV SI R. rewrite SI in R. cbn [negb andb] in R.
  unfold defined_names in R. cbn [existsb] in R. apply orb_false_iff in R as (R & _).
  apply c11_mem_str_In in EV. apply in_flat_map in EV as (t & Ht & Hn).
  destruct (mem_str (original (item_id b)) (item_generics a)) eqn:G; [reflexivity|exfalso].
  apply c11_mem_str_nIn in R. apply R. unfold mentions. apply filter_In. split.
  - apply in_flat_map. exists t. split; [now apply visible_types_incl|exact Hn].
  - now rewrite G.
Qed.

(* a reference by ORIGINAL name that is not recorded: the referring item is a RustEnum::Unit whose
   variants carry types (a shape the parser never builds) *)
Lemma unrecorded_original_is_unit_enum a b :
  refers a b = true -> edge_visible a b = false -> mem_str (original (item_id b)) (mentions a) = true ->
  exists sh, a = ItEnum (EUnit sh) /\ flat_map variant_types (evariants sh) <> [].
Proof.
  intros _ EV M. apply c11_mem_str_In in M. unfold mentions in M. apply filter_In in M as (M & _).
  unfold edge_visible in EV. apply c11_mem_str_nIn in EV.
  destruct a as [st|[sh|tg ct sh]|al|c]; cbn [visible_types item_types enum_shared] in *; try (exfalso; now apply EV).
  exists sh. split; [reflexivity|]. intros E. rewrite E in M. destruct M.
Qed.

(* END-TO-END: outside the recorded finding classes, with an acyclic reference relation, topsort
   succeeds (no fuel exhaustion, no panic), emits a permutation of the items, and no emitted
   definition refers to one emitted later *)
Theorem topsort_topological things : known_C11 things = None -> acyclic things = true ->
  exists out, topsort things = Ok out /\ Permutation out things /\ topo_ok out = true.
Proof.
  intros HK HA. destruct (known_none things HK) as (H1 & H2 & H3 & H4).
  now apply topsort_topological_sec.
Qed.

(* totality + permutation need only the alias-generic-shadow exclusion (cycles, duplicate names allowed) *)
Theorem topsort_total things : alias_generic_shadows things = false ->
  exists out, topsort things = Ok out /\ Permutation out things.
Proof.
  intros H. destruct (build_dag_total things H) as (dag & EB & _). eapply topsort_permutation. exact EB.
Qed.

(* what topo_ok says, position-wise *)
Lemma topo_ok_spec out : topo_ok out = true <->
  forall o1 a o2 b, out = o1 ++ a :: o2 -> In b o2 -> refers a b = false.
Proof.
  induction out as [|x out IH]; cbn [topo_ok].
  - split; [|reflexivity]. intros _ o1 a o2 b E. destruct o1; discriminate.
  - rewrite andb_true_iff, negb_true_iff, IH. split.
    + intros (H1 & H2) o1 a o2 b E Hb. destruct o1 as [|z o1]; cbn [app] in E; injection E as -> ->.
      * apply (existsb_false_forall _ _ H1 b Hb).
      * eapply H2; [reflexivity|exact Hb].
    + intros H. split.
      * destruct (existsb _ out) eqn:E; [|reflexivity]. apply existsb_exists in E as (b & Hb & Eb).
        rewrite (H [] x out b eq_refl Hb) in Eb. discriminate.
      * intros o1 a o2 b E Hb. apply (H (x :: o1) a o2 b); [now rewrite E|exact Hb].
Qed.

Lemma filter_perm_length {A} (p : A -> bool) l l' : Permutation l l' -> length (filter p l) = length (filter p l').
Proof.
  induction 1; cbn [filter]; try congruence.
  - destruct (p x); cbn; congruence.
  - destruct (p x), (p y); reflexivity.
Qed.

Lemma perm_ok_of_Permutation things out : Permutation out things -> perm_ok things out = true.
Proof.
  intros P. unfold perm_ok. apply andb_true_intro. split.
  - apply Nat.eqb_eq. symmetry. now apply Permutation_length.
  - apply forallb_forall. intros x _. apply Nat.eqb_eq. unfold count_item. symmetry. now apply filter_perm_length.
Qed.

(* the verdict predicate the check evaluates on the real output holds of the model's output for
   every input outside the classes *)
Theorem topsort_good things : known_C11 things = None ->
  exists out, topsort things = Ok out /\ good_C11 things out = true.
Proof.
  intros HK. unfold good_C11. destruct (acyclic things) eqn:HA.
  - destruct (topsort_topological things HK HA) as (out & E & P & O). exists out. split; [exact E|].
    rewrite (perm_ok_of_Permutation _ _ P), O. reflexivity.
  - destruct (known_none things HK) as (_ & H2 & _).
    destruct (topsort_total things H2) as (out & E & P). exists out. split; [exact E|].
    rewrite (perm_ok_of_Permutation _ _ P). reflexivity.
Qed.

(* the link itself, row by row: outside the classes the row of EVERY item - struct, enum, alias,
   const - is exactly the set of positions of the items it refers to (in particular no row contains
   its own position) *)
Theorem collected_rows_are_references things : known_C11 things = None ->
  exists dag, build_dag things = Ok dag /\
    forall i a row, nth_error things i = Some a -> nth_error dag i = Some row ->
      forall j b, nth_error things j = Some b -> (In j row <-> refers a b = true).
Proof.
  intros HK. destruct (known_none things HK) as (H1 & H2 & H3 & H4).
  destruct (build_dag_total things H2) as (dag & EB & Hrows). exists dag. split; [exact EB|].
  intros i a row Ea Ed. destruct (Hrows i a Ea) as (row0 & Ed0 & Er). rewrite Ed in Ed0. injection Ed0 as <-.
  pose proof (nth_error_In _ _ Ea) as Ha.
  intros j b Eb. pose proof (nth_error_In _ _ Eb) as Hb.
  rewrite (dag_row_members things H2 H1 a row Ha Er j). split.
  - intros (b' & Eb' & Hn). rewrite Eb in Eb'. injection Eb' as <-.
    apply (row_edge things a b Ha Hb) in Hn as (EV & NN). apply H4; auto.
    unfold same_item. destruct (ritem_eqb a b) eqn:E; [|reflexivity]. apply ritem_eqb_name in E. congruence.
  - intros R. exists b. split; [exact Eb|]. apply (row_edge things a b Ha Hb). split; [now apply H3|].
    intros E. assert (i = j) by (eapply (name_inj things H1); [exact Ea|exact Eb|now symmetry]). subst j.
    rewrite Ea in Eb. injection Eb as <-. unfold refers, same_item in R. rewrite ritem_eqb_refl in R. discriminate.
Qed.

(* the rows of the collected graph never start with (or contain) their own index any more - cycles
   included: the self-started-row phenomenon of toposort_impl_clean cannot be triggered by topsort's
   own graph *)
Theorem collected_rows_irreflexive things : alias_generic_shadows things = false -> has_dup_names things = false ->
  exists dag, build_dag things = Ok dag /\
    forall i row, nth_error dag i = Some row -> ~ In i row.
Proof.
  intros H2 H1. destruct (build_dag_total things H2) as (dag & EB & Hrows). exists dag. split; [exact EB|].
  intros i row Ed. destruct (build_dag_wf things dag EB) as [HL _].
  assert (Hlt : i < length things) by (rewrite <- HL; apply nth_error_Some; congruence).
  destruct (nth_error things i) as [a|] eqn:Ea; [|apply nth_error_None in Ea; lia].
  destruct (Hrows i a Ea) as (row0 & Ed0 & Er). rewrite Ed in Ed0. injection Ed0 as <-.
  eapply dag_row_irreflexive; eassumption.
Qed.

(* ------------------------------------------------------------------ witnesses *)
Local Open Scope string_scope.
Definition w_id (n : string) : id := {| original := lit n; renamed := lit n; via_serde_rename := false |}.
Definition w_field (t : rtype) : rfield :=
  {| fid := w_id "f"; fty := t; fcomments := []; has_default := false; fdecs := [] |}.
Definition w_struct (n : string) (gens : list string) (tys : list rtype) : ritem :=
  ItStruct {| sid := w_id n; sgenerics := map lit gens; sfields := map w_field tys; scomments := [];
              sdecs := []; sredacted := false |}.
Definition w_alias (n : string) (gens : list string) (t : rtype) : ritem :=
  ItAlias {| aid := w_id n; agenerics := map lit gens; atype := t; acomments := []; adecs := []; aredacted := false |}.
Definition w_const (n : string) (t : rtype) : ritem := ItConst {| cid := w_id n; ctype := t; cvalue := Z0 |}.
Definition w_enum (n : string) (vs : list rvariant) : ritem :=
  ItEnum (EAlgebraic (lit "t") (lit "c")
            {| eid := w_id n; egenerics := []; ecomments := []; evariants := vs; edecs := []; erecursive := false; eredacted := false |}).
Definition w_vsh : vshared := {| vid := w_id "V"; vcomments := [] |}.
Definition w_s (n : string) : rtype := RSimple (lit n).

(* a failing input of class [c]: acyclic references, the model's topsort succeeds, and a definition
   is emitted before one it refers to *)
Definition c11_refutes (c : string) (w : list ritem) : Prop :=
  known_C11 w = Some c /\ acyclic w = true /\ exists out, topsort w = Ok out /\ topo_ok out = false.

Ltac refute :=
  split; [vm_compute; reflexivity|split; [vm_compute; reflexivity|]];
  eexists; split; vm_compute; reflexivity.

(* struct A<T> { f: T, g: B }  struct B {}  struct T { f: A<u8> }: the parameter T of A is looked up as
   if it were the struct T; the phantom edge A -> T closes a cycle with the reference T -> A *)
Lemma C11_generic_param_shadow_refuted :
  c11_refutes "C11-generic-param-shadow"
    [w_struct "A" ["T"] [w_s "T"; w_s "B"]; w_struct "B" [] []; w_struct "T" [] [RGeneric (lit "A") [RPrim PU8]]].
Proof. refute. Qed.

(* type A<T> = Vec<T>;  struct T { f: A<u8> }: the alias's generic parameter T is looked up and the
   struct T's own dependencies are collected into the row of A *)
Lemma C11_alias_generic_shadow_refuted :
  c11_refutes "C11-alias-generic-shadow"
    [w_alias "A" ["T"] (RVec (w_s "T")); w_struct "T" [] [RGeneric (lit "A") [RPrim PU8]]].
Proof. refute. Qed.

(* struct A { f: X }  struct X {}  const X: u32: the lookup table keeps the later of two items of one name *)
Lemma C11_duplicate_names_refuted :
  c11_refutes "C11-duplicate-names" [w_struct "A" [] [w_s "X"]; w_struct "X" [] []; w_const "X" (RPrim PU32)].
Proof. refute. Qed.

(* REGRESSION PINS of the two classes repaired in get_enum_dependencies (they were `_refuted`
   witnesses before): the input is outside every class, its references are acyclic, it really
   contains a reference, and the model's topsort now emits every definition after what it uses *)
Definition c11_pinned_ok (w : list ritem) : Prop :=
  known_C11 w = None /\ acyclic w = true /\ existsb (fun a => existsb (refers a) w) w = true /\
  exists out, topsort w = Ok out /\ topo_ok out = true.

Ltac pinned :=
  split; [vm_compute; reflexivity|split; [vm_compute; reflexivity|split; [vm_compute; reflexivity|]]];
  eexists; split; vm_compute; reflexivity.

(* enum E { V { f: B } }  struct B {}: formerly C11-variant-fields (struct-variant fields ignored) *)
Lemma C11_variant_fields_fixed :
  c11_pinned_ok [w_enum "E" [VAnon [w_field (w_s "B")] w_vsh]; w_struct "B" [] []].
Proof. pinned. Qed.

(* enum E { V(B) }  struct B {}: formerly C11-enum-self-edge (own name pushed first, row dropped by the cycle cut) *)
Lemma C11_enum_self_edge_fixed :
  c11_pinned_ok [w_enum "E" [VTuple (w_s "B") w_vsh]; w_struct "B" [] []].
Proof. pinned. Qed.

(* enum A { V(B) }  enum B { W { f: Vec<C> }, U }  struct C {} fed as A, B, C: a chain through both variant shapes *)
Lemma C11_enum_chain_fixed :
  c11_pinned_ok [w_enum "A" [VTuple (w_s "B") w_vsh]; w_enum "B" [VAnon [w_field (RVec (w_s "C"))] w_vsh; VUnit w_vsh];
                 w_struct "C" [] []].
Proof. pinned. Qed.

(* REGRESSION PINS of the two classes repaired in the Generic arm of get_dependencies_from_type (fix 25; they
   were `_refuted` witnesses before): c11_pinned_ok, and the exact order the model's topsort emits *)
Definition c11_pinned_as (w : list ritem) (names : list string) : Prop :=
  c11_pinned_ok w /\ exists out, topsort w = Ok out /\ map oname out = map lit names.

Ltac pinned_as := split; [pinned|eexists; split; vm_compute; reflexivity].

(* struct A { f: Unknown<B> }  struct B {}: formerly C11-generic-arg-depth (arguments of a generic type that is no item) *)
Lemma C11_generic_arg_depth_fixed :
  c11_pinned_as [w_struct "A" [] [RGeneric (lit "Unknown") [w_s "B"]]; w_struct "B" [] []] ["B"; "A"].
Proof. pinned_as. Qed.

(* struct Foo<T> { f: Foo<Zed> }  struct Zed {}: formerly C11-generic-arg-depth (a Generic named like the collecting
   item never had its arguments visited) *)
Lemma C11_generic_arg_depth_own_name_fixed :
  c11_pinned_as [w_struct "Foo" ["T"] [RGeneric (lit "Foo") [w_s "Zed"]]; w_struct "Zed" [] []] ["Zed"; "Foo"].
Proof. pinned_as. Qed.

(* struct A { f: G<Vec<B>>, g: Option<G<G<HashMap<String, C>>>> }  struct B {}  struct C {}  struct G<T> { f: T }:
   formerly C11-generic-arg-depth (nested arguments of a typeshared generic: only the outermost id() was looked up) *)
Lemma C11_generic_arg_depth_nested_fixed :
  c11_pinned_as
    [w_struct "A" [] [RGeneric (lit "G") [RVec (w_s "B")];
                      ROption (RGeneric (lit "G") [RGeneric (lit "G") [RHashMap (RPrim PString) (w_s "C")]])];
     w_struct "B" [] []; w_struct "C" [] []; w_struct "G" ["T"] [w_s "T"]]
    ["G"; "B"; "C"; "A"].
Proof. pinned_as. Qed.

(* struct A { f: G<Vec<u8>>, g: B }  struct B {}  struct G<T> { f: T }  struct Vec { f: A }: formerly
   C11-special-id-collision (the id() "Vec" of the special type standing as an argument of the typeshared generic G was
   looked up as an item name; the phantom edge A -> Vec closed a cycle with the reference Vec -> A) *)
Lemma C11_special_id_collision_fixed :
  c11_pinned_as
    [w_struct "A" [] [RGeneric (lit "G") [RVec (RPrim PU8)]; w_s "B"]; w_struct "B" [] [];
     w_struct "G" ["T"] [w_s "T"]; w_struct "Vec" [] [w_s "A"]]
    ["G"; "B"; "A"; "Vec"].
Proof. pinned_as. Qed.

(* enum U { V(B) } given as RustEnum::Unit  struct B {}: the one shape left in which a reference by original name is
   not recorded - IR the parser never builds (a RustEnum::Unit has unit variants only); kept outside the theorems'
   domain by the class C11-unit-enum-payload, which is no finding of the tool *)
Lemma C11_unit_enum_payload_outside_domain :
  c11_refutes "C11-unit-enum-payload"
    [ItEnum (EUnit {| eid := w_id "U"; egenerics := []; ecomments := []; evariants := [VTuple (w_s "B") w_vsh]; edecs := [];
                      erecursive := false; eredacted := false |}); w_struct "B" [] []].
Proof. refute. Qed.

(* type A = Vec<SR>;  #[serde(rename = "SR")] struct S {} *)
Lemma C11_renamed_refuted :
  c11_refutes "C11-renamed"
    [w_alias "A" [] (RVec (w_s "SR"));
     ItStruct {| sid := {| original := lit "S"; renamed := lit "SR"; via_serde_rename := true |}; sgenerics := [];
                 sfields := []; scomments := []; sdecs := []; sredacted := false |}].
Proof. refute. Qed.

(* the hypotheses of the end-to-end theorem are satisfiable on a non-trivial input: references through
   Vec, a typeshared generic's argument, a nested argument of a generic type that is no item, Option
   inside an alias, HashMap, a const type; source order against the references *)
Definition c11_example : list ritem :=
  [w_struct "A" [] [RVec (w_s "B"); RGeneric (lit "G") [w_s "C"]; RGeneric (lit "Unknown") [RGeneric (lit "G") [RVec (w_s "D")]]];
   w_struct "B" [] [RHashMap (RPrim PString) (w_s "D")];
   w_struct "G" ["T"] [w_s "T"];
   w_alias "C" [] (ROption (w_s "B"));
   w_const "D" (RPrim PU32);
   ItEnum (EUnit {| eid := w_id "U"; egenerics := []; ecomments := []; evariants := [VUnit w_vsh]; edecs := [];
                    erecursive := false; eredacted := false |});
   w_const "K" (w_s "A")].

Example C11_nonvacuous :
  known_C11 c11_example = None /\ acyclic c11_example = true /\
  existsb (fun a => existsb (refers a) c11_example) c11_example = true /\
  (exists out, topsort c11_example = Ok out /\ out <> c11_example).
Proof.
  split; [vm_compute; reflexivity|]. split; [vm_compute; reflexivity|]. split; [vm_compute; reflexivity|].
  eexists. split; [vm_compute; reflexivity|]. intros H. discriminate H.
Qed.
