(* C06: in single-file mode the data handed to the back end does not depend on the order in which
   the per-file parse results reach the collector. *)
From Coq Require Import List Bool Lia Permutation.
From TS Require Import Model.Str Model.Outcome Model.Types Model.Parse Model.Reconcile Model.Collect.
From TS Require Import Proofs.SortLemmas.
Import ListNotations.

(* ---------- the collector concatenates ---------- *)
Lemma fold_add_structs a acc : p_structs (fold_left pd_add a acc) = p_structs acc ++ flat_map p_structs a.
Proof. revert acc; induction a as [|x a IH]; intros acc; cbn [fold_left flat_map]; [now rewrite app_nil_r|].
  rewrite IH. cbn [pd_add p_structs]. now rewrite app_assoc. Qed.
Lemma fold_add_enums a acc : p_enums (fold_left pd_add a acc) = p_enums acc ++ flat_map p_enums a.
Proof. revert acc; induction a as [|x a IH]; intros acc; cbn [fold_left flat_map]; [now rewrite app_nil_r|].
  rewrite IH. cbn [pd_add p_enums]. now rewrite app_assoc. Qed.
Lemma fold_add_aliases a acc : p_aliases (fold_left pd_add a acc) = p_aliases acc ++ flat_map p_aliases a.
Proof. revert acc; induction a as [|x a IH]; intros acc; cbn [fold_left flat_map]; [now rewrite app_nil_r|].
  rewrite IH. cbn [pd_add p_aliases]. now rewrite app_assoc. Qed.
Lemma fold_add_consts a acc : p_consts (fold_left pd_add a acc) = p_consts acc ++ flat_map p_consts a.
Proof. revert acc; induction a as [|x a IH]; intros acc; cbn [fold_left flat_map]; [now rewrite app_nil_r|].
  rewrite IH. cbn [pd_add p_consts]. now rewrite app_assoc. Qed.
Lemma fold_add_imports a acc : p_imports (fold_left pd_add a acc) = p_imports acc ++ flat_map p_imports a.
Proof. revert acc; induction a as [|x a IH]; intros acc; cbn [fold_left flat_map]; [now rewrite app_nil_r|].
  rewrite IH. cbn [pd_add p_imports]. now rewrite app_assoc. Qed.

Lemma Permutation_flat_map' {A B} (f : A -> list B) l l' : Permutation l l' -> Permutation (flat_map f l) (flat_map f l').
Proof.
  induction 1 as [|x l l' _ IH|x y l|l l' l'' _ IH1 _ IH2]; cbn [flat_map].
  - constructor.
  - now apply Permutation_app_head.
  - rewrite !app_assoc. apply Permutation_app_tail. apply Permutation_app_comm.
  - now transitivity (flat_map f l').
Qed.

Definition rn_part {X : Type} (idof : X -> id) (L : list X) : renames :=
  flat_map (fun x => if via_serde_rename (idof x) then [(original (idof x), @nil char, renamed (idof x))] else []) L.

Lemma crate_renames_parts pd :
  crate_renames [] pd = rn_part (fun s => sid s) (p_structs pd) ++ rn_part (fun e => eid (enum_shared e)) (p_enums pd) ++
                        rn_part (fun a => aid a) (p_aliases pd).
Proof. reflexivity. Qed.

Lemma flat_imports_nil a : Forall (fun pd => p_imports pd = []) a -> flat_map p_imports a = [].
Proof. induction 1 as [|x l Hx _ IH]; cbn; [reflexivity|]. now rewrite Hx, IH. Qed.

Section Perm.
Variables a1 a2 : list parsed.
Hypothesis HP : Permutation a1 a2.
Let pd1 := collect_single a1.
Let pd2 := collect_single a2.

Lemma perm_structs : Permutation (p_structs pd1) (p_structs pd2).
Proof. unfold pd1, pd2, collect_single. rewrite !fold_add_structs. cbn. now apply Permutation_flat_map'. Qed.
Lemma perm_enums : Permutation (p_enums pd1) (p_enums pd2).
Proof. unfold pd1, pd2, collect_single. rewrite !fold_add_enums. cbn. now apply Permutation_flat_map'. Qed.
Lemma perm_aliases : Permutation (p_aliases pd1) (p_aliases pd2).
Proof. unfold pd1, pd2, collect_single. rewrite !fold_add_aliases. cbn. now apply Permutation_flat_map'. Qed.
Lemma perm_consts : Permutation (p_consts pd1) (p_consts pd2).
Proof. unfold pd1, pd2, collect_single. rewrite !fold_add_consts. cbn. now apply Permutation_flat_map'. Qed.

(* every item kind has pairwise distinct (original) names *)
Definition names_distinct (pd : parsed) : Prop :=
  NoDup (map (fun s => original (sid s)) (p_structs pd)) /\
  NoDup (map (fun e => original (eid (enum_shared e))) (p_enums pd)) /\
  NoDup (map (fun a => original (aid a)) (p_aliases pd)) /\
  NoDup (map (fun c => original (cid c)) (p_consts pd)).
Hypothesis HD : names_distinct pd1.
(* single-file mode: the visitor collects no imports *)
Hypothesis HI : Forall (fun pd => p_imports pd = []) a1.

Lemma imports_nil1 : p_imports pd1 = [].
Proof. unfold pd1, collect_single. rewrite fold_add_imports. cbn. now apply flat_imports_nil. Qed.
Lemma imports_nil2 : p_imports pd2 = [].
Proof.
  assert (H2 : Forall (fun pd => p_imports pd = []) a2).
  { rewrite Forall_forall in *. intros x Hx. apply HI. eapply Permutation_in; [apply Permutation_sym; exact HP|exact Hx]. }
  unfold pd2, collect_single. rewrite fold_add_imports. cbn. now apply flat_imports_nil. Qed.

(* ---------- the rename table answers the same questions for both arrival orders ---------- *)
Lemma NoDup_map_inj {A} (f : A -> str) l x y : NoDup (map f l) -> In x l -> In y l -> f x = f y -> x = y.
Proof.
  induction l as [|z l IH]; intros ND Hx Hy E; [destruct Hx|].
  cbn in ND. inversion ND as [|? ? Hn ND']; subst.
  destruct Hx as [->|Hx], Hy as [->|Hy]; auto.
  - exfalso. apply Hn. rewrite E. now apply in_map.
  - exfalso. apply Hn. rewrite <- E. now apply in_map.
Qed.

Definition matches (id cn : str) (r : str * str * str) : bool := str_eqb (fst (fst r)) id && str_eqb (snd (fst r)) cn.

Lemma find_app {A} (p : A -> bool) l1 l2 : find p (l1 ++ l2) = match find p l1 with Some v => Some v | None => find p l2 end.
Proof. induction l1 as [|x l1 IH]; cbn; [reflexivity|]. destruct (p x); auto. Qed.

Section Part.
  Context {X : Type} (idof : X -> id) (L1 L2 : list X).
  Hypothesis HPL : Permutation L1 L2.
  Hypothesis HND : NoDup (map (fun x => original (idof x)) L1).
  Let part (L : list X) : renames := rn_part idof L.

  Lemma part_perm : Permutation (part L1) (part L2).
  Proof. unfold part, rn_part. now apply Permutation_flat_map'. Qed.

  Lemma part_unique id cn x y : In x (part L1) -> In y (part L1) -> matches id cn x = true -> matches id cn y = true -> x = y.
  Proof.
    unfold part, rn_part. intros Hx Hy Mx My.
    apply in_flat_map in Hx as (sx & Hsx & Hx). apply in_flat_map in Hy as (sy & Hsy & Hy).
    destruct (via_serde_rename (idof sx)); [|destruct Hx]. destruct (via_serde_rename (idof sy)); [|destruct Hy].
    destruct Hx as [<-|[]]. destruct Hy as [<-|[]].
    unfold matches in Mx, My. cbn in Mx, My.
    apply andb_true_iff in Mx as [Mx _]. apply andb_true_iff in My as [My _].
    apply str_eqb_eq in Mx, My.
    assert (sx = sy) as ->; [|reflexivity].
    eapply (NoDup_map_inj (fun x => original (idof x))); eauto. congruence.
  Qed.

  Lemma part_find id cn : find (matches id cn) (rev (part L1)) = find (matches id cn) (rev (part L2)).
  Proof.
    apply find_unique_perm.
    - rewrite <- !Permutation_rev. apply part_perm.
    - intros x y Hx Hy. apply in_rev in Hx, Hy. now apply part_unique.
  Qed.
End Part.

Definition rn1 : renames := crate_renames [] pd1.
Definition rn2 : renames := crate_renames [] pd2.

Lemma rn_perm : Permutation rn1 rn2.
Proof.
  unfold rn1, rn2. rewrite !crate_renames_parts. unfold rn_part.
  repeat apply Permutation_app; apply Permutation_flat_map'; [apply perm_structs|apply perm_enums|apply perm_aliases].
Qed.

Lemma rn_has_original id : has_original rn1 id = has_original rn2 id.
Proof. unfold has_original. apply existsb_perm. apply rn_perm. Qed.

Lemma rn_lookup id cn : lookup_rename rn1 id cn = lookup_rename rn2 id cn.
Proof.
  destruct HD as (Ds & De & Da & _).
  unfold lookup_rename. f_equal.
  change (fun r : str * str * str => str_eqb (fst (fst r)) id && str_eqb (snd (fst r)) cn) with (matches id cn).
  unfold rn1, rn2. rewrite !crate_renames_parts, !rev_app_distr, !find_app.
  rewrite (part_find (fun a => aid a) (p_aliases pd1) (p_aliases pd2) perm_aliases Da id cn).
  rewrite (part_find (fun e => eid (enum_shared e)) (p_enums pd1) (p_enums pd2) perm_enums De id cn).
  rewrite (part_find (fun s => sid s) (p_structs pd1) (p_structs pd2) perm_structs Ds id cn).
  reflexivity.
Qed.

Lemma resolve_same id : resolve_renamed [] rn1 [] id = resolve_renamed [] rn2 [] id.
Proof. unfold resolve_renamed. cbn [flat_map]. now rewrite rn_has_original, rn_lookup. Qed.

Lemma check_type_same t : check_type [] rn1 [] t = check_type [] rn2 [] t.
Proof.
  induction t as [id|id ps IH|t IH|t n IH|t IH|k v IHk IHv|t IH|p] using rtype_ind'; cbn [check_type].
  - now rewrite resolve_same.
  - rewrite resolve_same. f_equal. induction IH as [|x r Hx _ IHr]; cbn [map]; [reflexivity|]. now rewrite Hx, IHr.
  - now rewrite IH.
  - now rewrite IH.
  - now rewrite IH.
  - now rewrite IHk, IHv.
  - now rewrite IH.
  - reflexivity.
Qed.

Lemma check_field_same f : check_field [] rn1 [] f = check_field [] rn2 [] f.
Proof. unfold check_field. now rewrite check_type_same. Qed.
Lemma check_variant_same v : check_variant [] rn1 [] v = check_variant [] rn2 [] v.
Proof. destruct v as [sh|t sh|fs sh]; cbn [check_variant]; [reflexivity|now rewrite check_type_same|].
  f_equal. apply map_ext. apply check_field_same. Qed.
Lemma check_eshared_same sh : check_eshared [] rn1 [] sh = check_eshared [] rn2 [] sh.
Proof. unfold check_eshared. f_equal. apply map_ext. apply check_variant_same. Qed.
Lemma check_const_same c : check_const [] rn1 [] c = check_const [] rn2 [] c.
Proof. unfold check_const. now rewrite check_type_same. Qed.

(* ---------- the theorem ---------- *)
Definition same_items (p q : parsed) : Prop :=
  p_structs p = p_structs q /\ p_enums p = p_enums q /\ p_aliases p = p_aliases q /\ p_consts p = p_consts q.

Definition fix_struct (rn : renames) (s : rstruct) : rstruct :=
  {| sid := sid s; sgenerics := sgenerics s; sfields := map (check_field [] rn []) (sfields s);
     scomments := scomments s; sdecs := sdecs s; sredacted := sredacted s |}.
Definition fix_enum (rn : renames) (e : renum) : renum :=
  match e with
  | EUnit sh => EUnit (check_eshared [] rn [] sh)
  | EAlgebraic t c sh => EAlgebraic t c (check_eshared [] rn [] sh)
  end.
Definition fix_alias (rn : renames) (a : ralias) : ralias :=
  {| aid := aid a; agenerics := agenerics a; atype := check_type [] rn [] (atype a);
     acomments := acomments a; adecs := adecs a; aredacted := aredacted a |}.

Lemma fix_struct_same s : fix_struct rn1 s = fix_struct rn2 s.
Proof. unfold fix_struct. f_equal. apply map_ext. apply check_field_same. Qed.
Lemma fix_enum_same e : fix_enum rn1 e = fix_enum rn2 e.
Proof. destruct e; cbn [fix_enum]; now rewrite check_eshared_same. Qed.
Lemma fix_alias_same a : fix_alias rn1 a = fix_alias rn2 a.
Proof. unfold fix_alias. now rewrite check_type_same. Qed.

Theorem arrival_order_irrelevant : same_items (single_file_input a1) (single_file_input a2).
Proof.
  destruct HD as (Ds & De & Da & Dc).
  unfold single_file_input, reconcile_crate. fold pd1 pd2 rn1 rn2. cbn [p_structs p_enums p_aliases p_consts].
  rewrite imports_nil1, imports_nil2.
  change (fun s : rstruct => {| sid := sid s; sgenerics := sgenerics s; sfields := map (check_field [] rn1 []) (sfields s);
                               scomments := scomments s; sdecs := sdecs s; sredacted := sredacted s |}) with (fix_struct rn1).
  change (fun s : rstruct => {| sid := sid s; sgenerics := sgenerics s; sfields := map (check_field [] rn2 []) (sfields s);
                               scomments := scomments s; sdecs := sdecs s; sredacted := sredacted s |}) with (fix_struct rn2).
  change (fun e : renum => match e with
                           | EUnit sh => EUnit (check_eshared [] rn1 [] sh)
                           | EAlgebraic t c sh => EAlgebraic t c (check_eshared [] rn1 [] sh)
                           end) with (fix_enum rn1).
  change (fun e : renum => match e with
                           | EUnit sh => EUnit (check_eshared [] rn2 [] sh)
                           | EAlgebraic t c sh => EAlgebraic t c (check_eshared [] rn2 [] sh)
                           end) with (fix_enum rn2).
  change (fun a : ralias => {| aid := aid a; agenerics := agenerics a; atype := check_type [] rn1 [] (atype a);
                               acomments := acomments a; adecs := adecs a; aredacted := aredacted a |}) with (fix_alias rn1).
  change (fun a : ralias => {| aid := aid a; agenerics := agenerics a; atype := check_type [] rn2 [] (atype a);
                               acomments := acomments a; adecs := adecs a; aredacted := aredacted a |}) with (fix_alias rn2).
  repeat split.
  - rewrite <- (map_ext _ _ fix_struct_same (p_structs pd2)).
    apply stable_sort_unique; [apply Permutation_map; apply perm_structs|].
    rewrite map_map. exact Ds.
  - rewrite <- (map_ext _ _ fix_enum_same (p_enums pd2)).
    apply stable_sort_unique; [apply Permutation_map; apply perm_enums|].
    rewrite map_map. erewrite map_ext; [exact De|]. intros e. destruct e; reflexivity.
  - rewrite <- (map_ext _ _ fix_alias_same (p_aliases pd2)).
    apply stable_sort_unique; [apply Permutation_map; apply perm_aliases|].
    rewrite map_map. exact Da.
  - rewrite <- (map_ext _ _ check_const_same (p_consts pd2)).
    apply stable_sort_unique; [apply Permutation_map; apply perm_consts|].
    rewrite map_map. exact Dc.
Qed.
End Perm.

(* ---------- equal names: the unrestricted statement is false (arrival order shows through) ---------- *)
Definition mk_const (name : str) (v : Z) : parsed :=
  {| p_structs := []; p_enums := []; p_aliases := [];
     p_consts := [{| cid := {| original := name; renamed := name; via_serde_rename := false |}; ctype := RPrim PU32; cvalue := v |}];
     p_type_names := [name]; p_errors := []; p_imports := [] |}.

Lemma equal_names_refuted :
  let a := mk_const (lit "X") (Zpos xH) in let b := mk_const (lit "X") (Zpos (xO xH)) in
  Permutation [a; b] [b; a] /\ p_consts (single_file_input [a; b]) <> p_consts (single_file_input [b; a]).
Proof. split; [constructor|]. vm_compute. discriminate. Qed.

Example C06_nonvacuous :
  let a := mk_const (lit "ZED") (Zpos xH) in let b := mk_const (lit "ALPHA") (Zpos (xO xH)) in
  names_distinct (collect_single [a; b]) /\ p_consts (single_file_input [a; b]) = p_consts (single_file_input [b; a]) /\
  map (fun c => original (cid c)) (p_consts (single_file_input [a; b])) = [lit "ALPHA"; lit "ZED"].
Proof.
  cbv zeta. split; [|split; vm_compute; reflexivity].
  unfold names_distinct. vm_compute. repeat split; repeat constructor; cbn; intuition discriminate.
Qed.

(* ---------- every back end reads only the four item lists (single-file mode) ---------- *)
From TS Require Import Model.Unicode Model.Lang.Common Model.Lang.TypeScript Model.Lang.Kotlin Model.Lang.Swift
                       Model.Lang.Scala Model.Lang.Go Model.Lang.Python.

Ltac only_items :=
  intros p q (H1 & H2 & H3 & H4); destruct p, q; cbn [p_structs p_enums p_aliases p_consts] in *; subst; reflexivity.

Lemma ts_reads_items uc cfg : forall p q, same_items p q -> ts_generate uc cfg p = ts_generate uc cfg q.
Proof. only_items. Qed.
Lemma kt_reads_items uc cfg : forall p q, same_items p q -> kt_generate uc cfg p = kt_generate uc cfg q.
Proof. only_items. Qed.
Lemma sw_reads_items uc cfg : forall p q, same_items p q -> sw_generate uc cfg p = sw_generate uc cfg q.
Proof. only_items. Qed.
Lemma sc_reads_items uc cfg : forall p q, same_items p q -> sc_generate uc cfg p = sc_generate uc cfg q.
Proof. only_items. Qed.
Lemma go_reads_items uc cfg : forall p q, same_items p q -> go_generate uc cfg p = go_generate uc cfg q.
Proof. only_items. Qed.
Lemma py_reads_items uc cfg : forall p q, same_items p q -> py_generate uc cfg p = py_generate uc cfg q.
Proof. only_items. Qed.

(* ---------- single_file_input is what the real pipeline computes ---------- *)
Lemma collect_all_empty_crate a acc :
  fold_left (fun m x => crate_upsert m (fst x) (snd x)) (map (fun pd => (@nil char, pd)) a) [([], acc)] =
  [([], fold_left pd_add a acc)].
Proof.
  revert acc; induction a as [|x a IH]; intros acc; cbn [map fold_left]; [reflexivity|].
  cbn [crate_upsert fst snd str_eqb]. apply IH.
Qed.

Theorem pipeline_single_file a : a <> [] ->
  reconcile_aliases (collect (map (fun pd => (@nil char, pd)) a)) = [([], single_file_input a)].
Proof.
  destruct a as [|x a]; [congruence|]. intros _.
  unfold collect. cbn [map fold_left crate_upsert fst snd].
  rewrite collect_all_empty_crate.
  unfold reconcile_aliases, collect_serde_renames, single_file_input, collect_single.
  cbn [map flat_map fst snd fold_left]. now rewrite app_nil_r.
Qed.

Theorem bytes_arrival :
  forall (uc : unicode) (a1 a2 : list parsed), Permutation a1 a2 ->
    names_distinct (collect_single a1) -> Forall (fun pd => p_imports pd = []) a1 ->
    (forall c, ts_generate uc c (single_file_input a1) = ts_generate uc c (single_file_input a2)) /\
    (forall c, kt_generate uc c (single_file_input a1) = kt_generate uc c (single_file_input a2)) /\
    (forall c, sw_generate uc c (single_file_input a1) = sw_generate uc c (single_file_input a2)) /\
    (forall c, sc_generate uc c (single_file_input a1) = sc_generate uc c (single_file_input a2)) /\
    (forall c, go_generate uc c (single_file_input a1) = go_generate uc c (single_file_input a2)) /\
    (forall c, py_generate uc c (single_file_input a1) = py_generate uc c (single_file_input a2)).
Proof.
  intros uc a1 a2 HP HD HI.
  pose proof (arrival_order_irrelevant a1 a2 HP HD HI) as H.
  repeat split; intros c.
  - now apply ts_reads_items.
  - now apply kt_reads_items.
  - now apply sw_reads_items.
  - now apply sc_reads_items.
  - now apply go_reads_items.
  - now apply py_reads_items.
Qed.
