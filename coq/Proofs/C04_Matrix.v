(* C04: the finite marker matrix, closed by computation through the WHOLE model pipeline of each back end
   (topsort, decision layer, reader), the refutation witness of the recorded class (Scala), the regression pins of the repaired one (TypeScript), and
   non-vacuity examples.
   Bound of the matrix (stated in the lemma): 6 languages x 10 base types x 18 cells
   (struct field and struct-variant field: Option depth 0..2 x has_default; newtype payload and alias
   target: depth 0..2) = 1080 cells.  Each cell is judged against its TWIN (one Option layer and the
   default removed), exactly as checks/c04.py judges the real tool's output. *)
From Coq Require Import String List Bool Arith.
From TS Require Import Model.Str Model.Outcome Model.Unicode Model.Types Model.Parse Model.Lang.Common Model.Lang.Decl
                       Model.Lang.TypeScript Model.Lang.Kotlin Model.Lang.Swift Model.Lang.Scala Model.Lang.Go Model.Lang.Python.
From TS Require Import Spec.C04Spec Spec.C04Readers.
From TS Require Import Proofs.C04 Proofs.C04_Back.
Import ListNotations.
Local Open Scope nat_scope.

Definition c04m_id (n : str) : id := {| original := n; renamed := n; via_serde_rename := false |}.
Definition c04m_field (n : str) (t : rtype) (d : bool) : rfield :=
  {| fid := c04m_id n; fty := t; fcomments := []; has_default := d; fdecs := [] |}.
Fixpoint c04m_opt (n : nat) (t : rtype) : rtype := match n with 0 => t | S k => ROption (c04m_opt k t) end.

(* the six field cells (depth, default) with their names *)
Definition c04m_cells : list (str * (nat * bool)) :=
  [(lit "fa", (0, false)); (lit "fb", (0, true)); (lit "fc", (1, false)); (lit "fd", (1, true)); (lit "fe", (2, false)); (lit "ff", (2, true))].
Definition c04m_depths : list (str * nat) := [(lit "Va", 0); (lit "Vb", 1); (lit "Vc", 2)].

Definition c04m_fields (twin : bool) (base : rtype) : list rfield :=
  map (fun c => c04m_field (fst c) (c04m_opt (if twin then pred (fst (snd c)) else fst (snd c)) base)
                           (if twin then false else snd (snd c))) c04m_cells.

Definition c04m_pd (structs : list rstruct) (enums : list renum) (aliases : list ralias) : parsed :=
  {| p_structs := structs; p_enums := enums; p_aliases := aliases; p_consts := []; p_type_names := []; p_errors := []; p_imports := [] |}.
Definition c04m_eshared (vs : list rvariant) : eshared :=
  {| eid := c04m_id (lit "Em"); egenerics := [lit "T"]; ecomments := []; evariants := vs; edecs := []; erecursive := false; eredacted := false |}.

Definition c04m_pd_struct (twin : bool) (base : rtype) : parsed :=
  c04m_pd [{| sid := c04m_id (lit "Sm"); sgenerics := [lit "T"]; sfields := c04m_fields twin base; scomments := []; sdecs := []; sredacted := false |}] [] [].
Definition c04m_pd_variant (twin : bool) (base : rtype) : parsed :=
  c04m_pd [] [EAlgebraic (lit "t") (lit "c") (c04m_eshared [VAnon (c04m_fields twin base) {| vid := c04m_id (lit "Wa"); vcomments := [] |}])] [].
Definition c04m_pd_payload (twin : bool) (base : rtype) : parsed :=
  c04m_pd [] [EAlgebraic (lit "t") (lit "c")
                (c04m_eshared (map (fun c => VTuple (c04m_opt (if twin then pred (snd c) else snd c) base) {| vid := c04m_id (fst c); vcomments := [] |}) c04m_depths))] [].
Definition c04m_pd_alias (twin : bool) (base : rtype) (d : nat) : parsed :=
  c04m_pd [] [] [{| aid := c04m_id (lit "Am"); agenerics := [lit "T"]; atype := c04m_opt (if twin then pred d else d) base;
                    acomments := []; adecs := []; aredacted := false |}].

(* fixed configurations *)
Definition c04m_rows (L : lang) (pd : parsed) : list c04_row :=
  let r := match L with
           | TypeScript => ts_c04_file uc_exec {| ts_type_mappings := []; ts_no_version_header := true; ts_version := [] |} pd
           | Kotlin => kt_c04_file uc_exec {| kt_package := lit "com.p"; kt_module_name := []; kt_prefix := lit "OP"; kt_type_mappings := [];
                                               kt_no_version_header := true; kt_version := [] |} pd
           | Swift => sw_c04_file uc_exec {| sw_prefix := lit "OP"; sw_type_mappings := []; sw_default_decorators := []; sw_default_generic_constraints := [];
                                             sw_codablevoid_constraints := []; sw_no_version_header := true; sw_version := [] |} pd
           | Scala => sc_c04_file uc_exec {| sc_package := lit "com.p"; sc_module_name := []; sc_type_mappings := []; sc_no_version_header := true; sc_version := [] |} pd
           | Go => go_c04_file uc_exec {| go_package := lit "p"; go_type_mappings := []; go_uppercase_acronyms := [lit "id"; lit "url"];
                                          go_no_version_header := true; go_no_pointer_slice := false; go_version := [] |} pd
           | Python => py_c04_file uc_exec {| py_type_mappings := []; py_no_version_header := true; py_version := [] |} pd
           end in
  match r with Ok rows => rows | _ => [] end.

(* every cell: inside dom; outside the recorded classes good, inside them NOT good (the class is exact) *)
Definition c04m_judge (L : lang) (pos : c04_pos) (cells : list (nat * bool)) (rows twin_rows : list c04_row) : bool :=
  (List.length rows =? List.length cells) && (List.length twin_rows =? List.length cells) &&
  forallb (fun x =>
             let e := {| c04e_pos := pos; c04e_depth := fst (fst x); c04e_default := snd (fst x); c04e_ref := c04r_raw (snd (snd x)) |} in
             dom_C04 L e &&
             match known_C04 L e with
             | None => good_C04 L e (c04r_seen (fst (snd x)))
             | Some _ => negb (good_C04 L e (c04r_seen (fst (snd x))))
             end)
          (combine cells (combine rows twin_rows)).

Definition c04m_ok (L : lang) (base : rtype) : bool :=
  c04m_judge L C04Field (map snd c04m_cells) (c04m_rows L (c04m_pd_struct false base)) (c04m_rows L (c04m_pd_struct true base)) &&
  c04m_judge L C04VariantField (map snd c04m_cells) (c04m_rows L (c04m_pd_variant false base)) (c04m_rows L (c04m_pd_variant true base)) &&
  c04m_judge L C04Payload (map (fun c => (snd c, false)) c04m_depths) (c04m_rows L (c04m_pd_payload false base)) (c04m_rows L (c04m_pd_payload true base)) &&
  forallb (fun d => c04m_judge L C04Alias [(d, false)] (c04m_rows L (c04m_pd_alias false base d)) (c04m_rows L (c04m_pd_alias true base d))) [0; 1; 2].

Definition c04m_bases : list rtype :=
  [RPrim PString; RPrim PU32; RPrim PBool; RVec (RPrim PString); RVec (ROption (RPrim PU8)); RHashMap (RPrim PString) (RPrim PU32);
   RArray (RPrim PU8) 3%N; RSimple (lit "UserId"); RGeneric (lit "Pair") [RPrim PString; ROption (RPrim PU32)]; RSimple (lit "T")].

Lemma matrix_closed : forallb (fun L => forallb (c04m_ok L) c04m_bases) all_langs = true.
Proof. vm_compute. reflexivity. Qed.

(* ---------------- refutation witness of the recorded class, regression pins of the repaired class ---------------- *)
Definition c04w_sc_cfg : sc_config := {| sc_package := lit "com.p"; sc_module_name := []; sc_type_mappings := []; sc_no_version_header := true; sc_version := [] |}.
Definition c04w_field : rfield := c04m_field (lit "d") (RVec (RPrim PString)) true.

(* #[serde(default)] d: Vec<String>  ->  `d: Vector[String] = _` *)
Lemma scala_default_refuted :
  exists m y, type_override c04w_field Scala = None /\ sc_member_of c04w_sc_cfg [] c04w_field = Ok m /\
    sc_texp c04w_sc_cfg [] (c04_strip (fty c04w_field)) = Ok y /\
    known_C04 Scala (c04_expect_of C04Field (fty c04w_field) (has_default c04w_field) (sc_show y)) = Some "C04-scala-default"%string /\
    good_C04 Scala (c04_expect_of C04Field (fty c04w_field) (has_default c04w_field) (sc_show y)) (c04r_seen (sc_c04_member (lit "S") m)) = false.
Proof. eexists. eexists. vm_compute. repeat split. Qed.

Definition c04w_ts_cfg : ts_config := {| ts_type_mappings := []; ts_no_version_header := true; ts_version := [] |}.
Definition c04w_double : rtype := ROption (ROption (RPrim PString)).

(* regression pins of the repaired class C04-ts-double-nonfield (typescript.rs write_type_alias / write_enum_variants wrote no
   `| null`): C(Option<Option<String>>)  ->  `{ t: "C", c?: string | null }` ;  type A = Option<Option<String>>  ->
   `string | null | undefined`; the position is outside every recorded class and good; with ONE Option layer the text has no `| null` *)
Definition c04w_alias (t : rtype) : ritem :=
  ItAlias {| aid := c04m_id (lit "A"); agenerics := []; atype := t; acomments := []; adecs := []; aredacted := false |}.

Lemma ts_double_payload_fixed :
  exists v st v1 st1,
    ts_variant_of c04w_ts_cfg [] false (VTuple c04w_double {| vid := c04m_id (lit "C"); vcomments := [] |}) [] = Ok (v, st) /\
    ts_variant_of c04w_ts_cfg [] false (VTuple (ROption (RPrim PString)) {| vid := c04m_id (lit "C"); vcomments := [] |}) [] = Ok (v1, st1) /\
    ts_render_variant (lit "t") (lit "c") v = nl ++ [ch_tab] ++ lit "| { t: ""C"", c?: string | null }" /\
    ts_render_variant (lit "t") (lit "c") v1 = nl ++ [ch_tab] ++ lit "| { t: ""C"", c?: string }" /\
    known_C04 TypeScript (c04_expect_of C04Payload c04w_double false (lit "string")) = None /\
    exists r, ts_c04_rows (TSUnion [] (lit "E") [] (lit "t") (lit "c") [v]) = [r] /\
      c04s_null_union (c04r_seen r) = true /\
      good_C04 TypeScript (c04_expect_of C04Payload c04w_double false (lit "string")) (c04r_seen r) = true.
Proof. do 4 eexists. vm_compute. repeat split. eexists. repeat split. Qed.

Lemma ts_double_alias_fixed :
  exists d st d1 st1 r,
    ts_decl_of uc_exec c04w_ts_cfg (c04w_alias c04w_double) [] = Ok (d, st) /\
    ts_decl_of uc_exec c04w_ts_cfg (c04w_alias (ROption (RPrim PString))) [] = Ok (d1, st1) /\
    ts_render_decl d = lit "export type A = string | null | undefined;" ++ nl ++ nl /\
    ts_render_decl d1 = lit "export type A = string | undefined;" ++ nl ++ nl /\
    ts_c04_rows d = [r] /\
    known_C04 TypeScript (c04_expect_of C04Alias c04w_double false (lit "string")) = None /\
    c04s_null_union (c04r_seen r) = true /\
    good_C04 TypeScript (c04_expect_of C04Alias c04w_double false (lit "string")) (c04r_seen r) = true.
Proof. do 5 eexists. vm_compute. repeat split. Qed.

(* ---------------- non-vacuity: the hypotheses of the back-end theorems are satisfiable on non-trivial inputs ---------------- *)
Definition c04w_kt_cfg : kt_config := {| kt_package := lit "com.p"; kt_module_name := []; kt_prefix := lit "OP"; kt_type_mappings := [];
                                         kt_no_version_header := true; kt_version := [] |}.
Definition c04w_rich : rfield :=
  c04m_field (lit "g") (ROption (ROption (RHashMap (RPrim PString) (RVec (RSimple (lit "UserId")))))) true.

(* #[serde(default)] g: Option<Option<HashMap<String, Vec<UserId>>>>  in Kotlin:  `val g: HashMap<String, List<OPUserId>>?? = null` *)
Example kotlin_field_nonvacuous :
  exists m, c04_fieldlike C04Field = true /\ type_override c04w_rich Kotlin = None /\
    kt_member_of c04w_kt_cfg c04w_rich [] false KtPublic = Ok m /\
    rtype_opt_depth (fty c04w_rich) = 2 /\ has_default c04w_rich = true /\
    c04r_raw (kt_c04_member (lit "S") C04Field m) = lit "HashMap<String, List<OPUserId>>??".
Proof. eexists. vm_compute. repeat split. Qed.

(* Scala, outside the recorded class although a default is present: #[serde(default)] on an Option field *)
Example scala_field_nonvacuous :
  exists m y, sc_member_of c04w_sc_cfg [] (c04m_field (lit "e") (ROption (RPrim PU32)) true) = Ok m /\
    sc_texp c04w_sc_cfg [] (RPrim PU32) = Ok y /\
    known_C04 Scala (c04_expect_of C04Field (ROption (RPrim PU32)) true (sc_show y)) = None /\
    good_C04 Scala (c04_expect_of C04Field (ROption (RPrim PU32)) true (sc_show y)) (c04r_seen (sc_c04_member (lit "S") m)) = true.
Proof. eexists. eexists. vm_compute. repeat split. Qed.

(* TypeScript: `?` and `| null` are both present for a double Option field and only `?` for a single one *)
Example ts_double_field_nonvacuous :
  exists m1 m2 s1 s2,
    ts_member_of c04w_ts_cfg [] (c04m_field (lit "c") c04w_double false) [] = Ok (m1, s1) /\
    ts_member_of c04w_ts_cfg [] (c04m_field (lit "c") (ROption (RPrim PString)) false) [] = Ok (m2, s2) /\
    (tm_optional m1, tm_null_union m1) = (true, true) /\ (tm_optional m2, tm_null_union m2) = (true, false) /\
    tm_type m1 = tm_type m2 /\ ts_render_member m1 <> ts_render_member m2.
Proof. do 4 eexists. vm_compute. repeat split. discriminate. Qed.
