(* C03: refutation witnesses of the two finding classes and non-vacuity examples of the back-end theorems. *)
From Coq Require Import String List Bool.
From TS Require Import Model.Str Model.Outcome Model.Unicode Model.Types Model.Parse Model.Lang.Common Model.Lang.Decl
                       Model.Lang.TypeScript Model.Lang.Kotlin Model.Lang.Swift Model.Lang.Scala Model.Lang.Go Model.Lang.Python.
From TS Require Import Spec.C03Spec.
Import ListNotations.

Definition c03_mkid (s : string) : id := {| original := lit s; renamed := lit s; via_serde_rename := false |}.
Definition c03_mkid2 (o r : string) : id := {| original := lit o; renamed := lit r; via_serde_rename := true |}.
Definition c03_fld_u8 (name : string) : rfield :=
  {| fid := c03_mkid name; fty := RPrim PU8; fcomments := []; has_default := false; fdecs := [] |}.
Definition c03_struct_S : rstruct :=
  {| sid := c03_mkid "S"; sgenerics := []; sfields := [c03_fld_u8 "a"; c03_fld_u8 "b"]; scomments := []; sdecs := []; sredacted := false |}.
Definition c03_const_X : rconst := {| cid := c03_mkid "X"; ctype := RPrim PU32; cvalue := Zpos 5 |}.
Definition c03_sc_cfg : sc_config :=
  {| sc_package := lit "com.example"; sc_module_name := []; sc_type_mappings := []; sc_no_version_header := true; sc_version := [] |}.
Definition c03_py_cfg : py_config := {| py_type_mappings := []; py_no_version_header := true; py_version := [] |}.

Definition c03_pd (ss : list rstruct) (es : list renum) (cs : list rconst) : parsed :=
  {| p_structs := ss; p_enums := es; p_aliases := []; p_consts := cs; p_type_names := []; p_errors := []; p_imports := [] |}.

(* #[typeshare] const X: u32 = 5; #[typeshare] struct S { a: u8, b: u8 }  --lang scala: the file defines S only *)
Lemma scala_const_refuted :
  exists pd fd, dom_C03_file pd = true /\ known_C03_file uc_exec Scala pd = Some "C03-scala-const"%string /\
                sc_file_decls uc_exec c03_sc_cfg pd = Ok fd /\ good_C03_file Scala pd fd = false.
Proof. exists (c03_pd [c03_struct_S] [] [c03_const_X]). eexists. vm_compute. repeat split. Qed.

(* enum E { #[serde(rename = "fooBar")] A(u8), #[serde(rename = "foo_bar")] B(u8) } with tag/content, --lang python *)
Definition c03_enum_E : renum :=
  EAlgebraic (lit "t") (lit "c")
    {| eid := c03_mkid "E"; egenerics := []; ecomments := [];
       evariants := [VTuple (RPrim PU8) {| vid := c03_mkid2 "A" "fooBar"; vcomments := [] |};
                     VTuple (RPrim PU8) {| vid := c03_mkid2 "B" "foo_bar"; vcomments := [] |}];
       edecs := []; erecursive := false; eredacted := false |}.

Lemma python_typekey_collision_refuted :
  exists pd fd, dom_C03_file pd = true /\ known_C03_file uc_exec Python pd = Some "C03-python-typekey-collision"%string /\
                py_file_decls uc_exec c03_py_cfg pd = Ok fd /\ good_C03_file Python pd fd = false.
Proof. exists (c03_pd [] [c03_enum_E] []). eexists. vm_compute. repeat split. Qed.

(* non-vacuity: a struct, a data-carrying enum with a struct variant, outside both classes; every back end answers *)
Definition c03_enum_F : renum :=
  EAlgebraic (lit "t") (lit "c")
    {| eid := c03_mkid "F"; egenerics := []; ecomments := [];
       evariants := [VUnit {| vid := c03_mkid "U"; vcomments := [] |};
                     VTuple (RPrim PU8) {| vid := c03_mkid "T"; vcomments := [] |};
                     VAnon [c03_fld_u8 "x"; c03_fld_u8 "y"] {| vid := c03_mkid "V"; vcomments := [] |}];
       edecs := []; erecursive := false; eredacted := false |}.
Definition c03_pd_ok : parsed := c03_pd [c03_struct_S] [c03_enum_F] [].

Example back_nonvacuous :
  dom_C03_file c03_pd_ok = true /\
  known_C03_file uc_exec Scala c03_pd_ok = None /\ known_C03_file uc_exec Python c03_pd_ok = None /\
  (exists fd, sc_file_decls uc_exec c03_sc_cfg c03_pd_ok = Ok fd /\ good_C03_file Scala c03_pd_ok fd = true) /\
  (exists fd, py_file_decls uc_exec c03_py_cfg c03_pd_ok = Ok fd /\ good_C03_file Python c03_pd_ok fd = true) /\
  (exists fd, ts_file_decls uc_exec {| ts_type_mappings := []; ts_no_version_header := true; ts_version := [] |} c03_pd_ok = Ok fd /\
              map c03_sig_of (fd_decls fd) =
              [c03_x_struct [lit "a"; lit "b"]; c03_x_enum [lit "U"; lit "T"; lit "V"] [[lit "x"; lit "y"]]]).
Proof.
  repeat (split; [vm_compute; reflexivity|]).
  repeat split; eexists; (split; [vm_compute; reflexivity|vm_compute; reflexivity]).
Qed.
