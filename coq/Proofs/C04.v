(* C04, front end: the IR's optionality flags are what the source says.
     - the number of Option layers of the parsed type is the number of Option layers of the declared
       type with references and serde-transparent wrappers invisible at every layer (induction over the
       nested type syntax; any stack of wrappers, by induction on the stack);
     - has_default is the bare `default` word inside some #[serde(..)] attribute. *)
From Coq Require Import String List Bool Arith Lia.
From TS Require Import Model.Str Model.Outcome Model.Unicode Model.Syntax Model.Attrs Model.Types Model.Parse.
From TS Require Import Spec.Serde Spec.C04Spec.
From TS Require Import Proofs.FrontTypes Proofs.FrontAttrs.
Import ListNotations.
Local Open Scope nat_scope.

(* Option layers of an IR type *)
Fixpoint rtype_opt_depth (r : rtype) : nat :=
  match r with ROption x => S (rtype_opt_depth x) | _ => 0 end.

Definition c04_strip (r : rtype) : rtype := match r with ROption x => x | _ => r end.

Lemma is_optional_depth r : is_optional r = (0 <? rtype_opt_depth r).
Proof. destruct r; reflexivity. Qed.
Lemma is_double_optional_depth r : is_double_optional r = (2 <=? rtype_opt_depth r).
Proof. destruct r as [| | | | | |x|]; try reflexivity. destruct x; reflexivity. Qed.
Lemma not_optional_depth r : is_optional r = false -> rtype_opt_depth r = 0.
Proof. destruct r; try reflexivity; discriminate. Qed.
Lemma strip_depth r : rtype_opt_depth (c04_strip r) = pred (rtype_opt_depth r).
Proof. destruct r; reflexivity. Qed.

(* the first type argument's depth, named *)
Fixpoint c04_first_depth (l : list (option ty)) : nat :=
  match l with [] => 0 | None :: r => c04_first_depth r | Some x :: _ => c04_opt_depth x end.

Lemma c04_opt_depth_path q id args :
  c04_opt_depth (TPath q id args) =
  if str_eqb id (lit "Option") then S (c04_first_depth args)
  else if mem_str id TRANSPARENT then c04_first_depth args else 0.
Proof. reflexivity. Qed.

Lemma transparent_not_option id : mem_str id TRANSPARENT = true -> str_eqb id (lit "Option") = false.
Proof.
  intros H. destruct (str_eqb id (lit "Option")) eqn:E; [|reflexivity].
  apply str_eqb_eq in E. subst id. discriminate.
Qed.

Lemma first_arg_depth args :
  Forall (fun o => match o with
                   | Some t => forall r, parse_ty t = Ok r -> rtype_opt_depth r = c04_opt_depth t
                   | None => True
                   end) args ->
  forall x ps, parse_args args = Ok (x :: ps) -> rtype_opt_depth x = c04_first_depth args.
Proof.
  induction 1 as [|o rest Ho _ IH]; intros x ps Ea; [discriminate|].
  destruct o as [a|]; cbn [parse_args c04_first_depth] in *.
  - destruct (parse_ty a) as [ra| |] eqn:Ex; cbn [bind] in Ea; try discriminate.
    destruct (parse_args rest) as [rs| |]; cbn [bind] in Ea; try discriminate.
    injection Ea as <- _. now apply Ho.
  - now apply (IH x ps).
Qed.

Theorem depth_parse t r : parse_ty t = Ok r -> rtype_opt_depth r = c04_opt_depth t.
Proof.
  revert r. induction t as [q id args IH|t IH|l IH|t n IH|t IH|] using ty_ind'; intros r H.
  - rewrite parse_ty_path in H. rewrite c04_opt_depth_path.
    destruct (parse_args args) as [ps| |] eqn:Ea; cbn [bind] in H; try discriminate.
    destruct (str_eqb id (lit "Option")) eqn:Eo.
    + apply str_eqb_eq in Eo. subst id. unfold path_dispatch in H.
      change (str_eqb (lit "Option") (lit "Vec")) with false in H.
      change (str_eqb (lit "Option") (lit "Option")) with true in H. cbv iota in H.
      destruct ps as [|x ps']; [discriminate|]. injection H as <-. cbn [rtype_opt_depth]. f_equal.
      eapply first_arg_depth; eassumption.
    + destruct (mem_str id TRANSPARENT) eqn:Et.
      * change TRANSPARENT with SMART_POINTERS in Et.
        destruct ps as [|x ps'].
        -- unfold path_dispatch in H. rewrite Eo, Et in H.
           destruct (str_eqb id (lit "Vec")); [discriminate|].
           destruct (str_eqb id (lit "HashMap")); discriminate.
        -- rewrite path_dispatch_wrapper in H by assumption. injection H as <-.
           eapply first_arg_depth; eassumption.
      * change TRANSPARENT with SMART_POINTERS in Et. apply not_optional_depth.
        eapply path_dispatch_not_option; eassumption.
  - cbn [parse_ty] in H. cbn [c04_opt_depth]. now apply IH.
  - destruct l; cbn [parse_ty] in H; [injection H as <-; reflexivity|discriminate].
  - cbn [parse_ty] in H. destruct n as [[n|]|]; try discriminate.
    + destruct (parse_ty t); cbn [bind] in H; try discriminate. injection H as <-. reflexivity.
    + destruct (parse_ty t); cbn [bind] in H; discriminate.
  - cbn [parse_ty] in H. destruct (parse_ty t); cbn [bind] in H; try discriminate. injection H as <-. reflexivity.
  - discriminate.
Qed.

(* Option<T> adds exactly one layer, whatever the path qualification *)
Lemma depth_option q t : c04_opt_depth (c04_option_of q t) = S (c04_opt_depth t).
Proof. reflexivity. Qed.

Lemma first_depth_lifetimes n t : c04_first_depth (repeat None n ++ [Some t]) = c04_opt_depth t.
Proof. induction n as [|n IH]; cbn [repeat app c04_first_depth]; [reflexivity|exact IH]. Qed.

(* one reference / transparent wrapper leaves the depth unchanged ... *)
Lemma depth_wrap_one w t : c04_wrap_ok w = true -> c04_opt_depth (c04_wrap_one w t) = c04_opt_depth t.
Proof.
  destruct w as [|q name n]; cbn [c04_wrap_ok c04_wrap_one]; intros H; [reflexivity|].
  rewrite c04_opt_depth_path, (transparent_not_option _ H), H. apply first_depth_lifetimes.
Qed.

(* ... hence any stack of them does (induction on the stack) *)
Theorem depth_wrap_stack stack t :
  forallb c04_wrap_ok stack = true -> c04_opt_depth (c04_wrap_ty stack t) = c04_opt_depth t.
Proof.
  induction stack as [|w r IH]; cbn [forallb c04_wrap_ty fold_right]; intros H; [reflexivity|].
  apply andb_true_iff in H as [Hw Hr]. rewrite (depth_wrap_one _ _ Hw). now apply IH.
Qed.

(* the nine wrapper names of the property text (and the two aliases ArcWeak / RcWeak) are transparent *)
Lemma wrapper_names_ok :
  forallb (fun n => mem_str n TRANSPARENT)
          [lit "Box"; lit "Arc"; lit "Rc"; lit "Cow"; lit "Cell"; lit "RefCell"; lit "Mutex"; lit "RwLock"; lit "Weak"] = true.
Proof. vm_compute. reflexivity. Qed.

(* T / Option<T> / Option<Option<T>> with wrapper stacks around, between and inside the layers *)
Theorem depth_layers s0 s1 s2 q1 q2 t :
  forallb c04_wrap_ok s0 = true -> forallb c04_wrap_ok s1 = true -> forallb c04_wrap_ok s2 = true ->
  c04_opt_depth (c04_wrap_ty s2 (c04_option_of q2 (c04_wrap_ty s1 (c04_option_of q1 (c04_wrap_ty s0 t))))) = 2 + c04_opt_depth t.
Proof.
  intros H0 H1 H2.
  now rewrite (depth_wrap_stack _ _ H2), depth_option, (depth_wrap_stack _ _ H1), depth_option, (depth_wrap_stack _ _ H0).
Qed.

Lemma is_option_type_depth t : is_option_type t = (0 <? c04_opt_depth t).
Proof.
  induction t as [q id args IH|t IH|l IH|t n IH|t IH|] using ty_ind'; try reflexivity.
  - rewrite c04_opt_depth_path. cbn [is_option_type].
    destruct (str_eqb id (lit "Option")); [reflexivity|].
    destruct (mem_str id TRANSPARENT); [|reflexivity].
    induction IH as [|o rest Ho _ IHr]; [reflexivity|].
    destruct o as [x|]; cbn [c04_first_depth]; [exact Ho|exact IHr].
  - cbn [is_option_type c04_opt_depth]. exact IH.
Qed.

(* ---- a named field, through parse_field ---- *)
Section Field.
Variable uc : unicode.
Variable tstr : str -> option ty.

Theorem front_field check_flatten rename_all f rf :
  get_field_type_override uc (f_attrs f) = None ->
  parse_field uc tstr check_flatten rename_all f = Ok rf ->
  rtype_opt_depth (fty rf) = c04_opt_depth (f_ty f) /\ has_default rf = bare_default (f_attrs f).
Proof.
  intros Hov H. unfold parse_field, field_type in H. rewrite Hov in H.
  destruct (parse_ty (f_ty f)) as [t| |] eqn:Et; cbn [bind] in H; try discriminate.
  destruct (check_flatten && serde_flatten (f_attrs f)); [discriminate|].
  destruct (get_field_decorators uc (f_attrs f)) as [decs| |]; cbn [bind] in H; try discriminate.
  destruct (get_ident uc (f_ident f) (f_attrs f) rename_all) as [i| |]; cbn [bind] in H; try discriminate.
  injection H as <-. cbn [fty has_default]. split.
  - now apply depth_parse.
  - apply serde_default_spec.
Qed.

(* the two flags every back end consults *)
Corollary front_field_flags check_flatten rename_all f rf :
  get_field_type_override uc (f_attrs f) = None ->
  parse_field uc tstr check_flatten rename_all f = Ok rf ->
  (is_optional (fty rf) || has_default rf) = c04_src_optional (f_attrs f) (f_ty f) /\
  is_double_optional (fty rf) = (2 <=? c04_opt_depth (f_ty f)).
Proof.
  intros Hov H. destruct (front_field _ _ _ _ Hov H) as [Hd Hb].
  unfold c04_src_optional. now rewrite is_optional_depth, is_double_optional_depth, is_option_type_depth, Hd, Hb.
Qed.

(* payload of a newtype variant and alias target: no attribute is consulted *)
Theorem front_payload T enum_rename_all v rv t sh :
  parse_enum_variant uc tstr T enum_rename_all v = Ok rv -> rv = VTuple t sh ->
  forall f, v_fields v = FUnnamed [f] -> get_field_type_override uc (f_attrs f) = None ->
  rtype_opt_depth t = c04_opt_depth (f_ty f).
Proof.
  intros H -> f Hf Hov. unfold parse_enum_variant in H. rewrite Hf in H.
  destruct (get_ident uc (Some (v_ident v)) (v_attrs v) enum_rename_all) as [i| |]; cbn [bind] in H; try discriminate.
  unfold field_type in H. rewrite Hov in H.
  destruct (parse_ty (f_ty f)) as [t'| |] eqn:Et; cbn [bind] in H; try discriminate.
  injection H as <- _. now apply depth_parse.
Qed.

Theorem front_alias attrs ident gens t a :
  get_serialized_as_type uc attrs = None ->
  parse_type_alias uc tstr attrs ident gens t = Ok (ItAlias a) ->
  rtype_opt_depth (atype a) = c04_opt_depth t.
Proof.
  intros Hov H. unfold parse_type_alias in H. rewrite Hov in H.
  destruct (parse_ty t) as [rt| |] eqn:Et; cbn [bind] in H; try discriminate.
  unfold mk_alias in H.
  destruct (get_ident uc (Some ident) attrs None) as [i| |]; cbn [bind] in H; try discriminate.
  injection H as <-. cbn [atype]. now apply depth_parse.
Qed.
End Field.
