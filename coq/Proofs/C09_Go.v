(* C09 for Go with an EMPTY uppercase_acronyms list (then acronyms_to_uppercase is the identity):
   no prefix; structs are defined under id.renamed, enums, aliases and ...Inner helper structs under
   id.original (the table of Spec/C09Spec.v); every mentioned id is spelled verbatim.
   With a non-empty acronym list the conversion rewrites definition names and member / payload types
   (on the printed text) but not alias targets and const types: that configuration is Proofs/C09_GoAcr.v
   (every alphanumeric acronym list, ASCII programs), which reuses go_texp_names and go_names_strip. *)
From Coq Require Import List Bool String Permutation.
From TS Require Import Model.Str Model.Outcome Model.Unicode Model.Types Model.Parse Model.Reconcile Model.TopsortAlgo Model.Topsort
                       Model.Lang.Common Model.Lang.Decl Model.Lang.Go Spec.C09Spec.
From TS Require Import Proofs.C09Common Proofs.C09Recon Proofs.C09Refs Proofs.C09Lang Proofs.C09_Kotlin.
Import ListNotations.
Local Notation length := List.length (only parsing).

Section GoTyInd.
Variable P : go_ty -> Prop.
Hypothesis HN : forall n args, Forall P args -> P (GName n args).
Hypothesis HS : forall e, P e -> P (GSlice e).
Hypothesis HA : forall n e, P e -> P (GArray n e).
Hypothesis HM : forall k v, P k -> P v -> P (GMap k v).
Hypothesis HP : forall e, P e -> P (GPtr e).
Hypothesis HR : forall t, P (GRaw t).
Fixpoint go_ty_ind' (t : go_ty) : P t :=
  match t with
  | GName n args => HN n args ((fix go (l : list go_ty) : Forall P l :=
                                  match l with [] => Forall_nil P | x :: r => Forall_cons x (go_ty_ind' x) (go r) end) args)
  | GSlice e => HS e (go_ty_ind' e)
  | GArray n e => HA n e (go_ty_ind' e)
  | GMap k v => HM k v (go_ty_ind' k) (go_ty_ind' v)
  | GPtr e => HP e (go_ty_ind' e)
  | GRaw t => HR t
  end.
End GoTyInd.

Local Notation go_names_ok x t :=
  (forall n, In n (texp_names (go_obs_ty x)) -> c09_builtin Go n = true \/ exists form i, In (form, i) (c09_type_ids t) /\ n = i).

Section GON.
Variable uc : unicode.
Variable cfg : go_config.
Hypothesis Hacr : go_uppercase_acronyms cfg = [].

(* without acronyms the conversion is the identity *)
Lemma go_acr_nil name s y s' : go_acronyms_to_uppercase uc cfg name s = Ok (y, s') -> y = name /\ s' = s.
Proof. unfold go_acronyms_to_uppercase, go_lift, go_convert_acronyms_to_uppercase. rewrite Hacr. cbn [fold_left]. intros [= <- <-]. auto. Qed.

Lemma go_ty_acronyms_nil t : go_ty_acronyms uc cfg t = Ok t.
Proof.
  induction t using go_ty_ind'; cbn [go_ty_acronyms]; unfold go_convert_acronyms_to_uppercase; rewrite ?Hacr; cbn [fold_left bind].
  - assert ((fix go (l : list go_ty) : outcome (list go_ty) :=
               match l with [] => Ok [] | x :: r => do y <- go_ty_acronyms uc cfg x; do ys <- go r; Ok (y :: ys) end) args = Ok args) as ->; [|reflexivity].
    induction H as [|x l Hx Hl IH]; [reflexivity|]. rewrite Hx. cbn [bind]. rewrite IH. reflexivity.
  - rewrite IHt. reflexivity.
  - rewrite IHt. reflexivity.
  - rewrite IHt1, IHt2. reflexivity.
  - rewrite IHt. reflexivity.
  - reflexivity.
Qed.

Lemma go_acronyms_ty_nil t s y s' : go_acronyms_ty uc cfg t s = Ok (y, s') -> y = t.
Proof.
  unfold go_acronyms_ty. intros H. c09_bind H text s1 E. apply go_acr_nil in E as [-> ->]. c09_ret H.
  rewrite go_ty_acronyms_nil, str_eqb_refl. reflexivity.
Qed.

Lemma go_special_mapped_names key (k : M go_state go_ty) (P : go_ty -> Prop) s x s' :
  match tmap_get (go_type_mappings cfg) key with
  | Some mapped => ret (GRaw mapped)
  | None => k
  end s = Ok (x, s') ->
  (forall m, P (GRaw m)) -> (forall s x s', k s = Ok (x, s') -> P x) -> P x.
Proof. destruct (tmap_get (go_type_mappings cfg) key); intros Hx Hraw Hk; [|eauto]. c09_ret Hx. apply Hraw. Qed.

Lemma go_texp_names gs t : forall s x s', go_texp cfg gs t s = Ok (x, s') -> go_names_ok x t.
Proof.
  induction t using rtype_ind'; intros s x s' Hx; cbn [go_texp] in Hx.
  - c09_ret Hx. intros nm Hn. destruct (tmap_get (go_type_mappings cfg) id); cbn [go_obs_ty texp_names map flat_map] in Hn; [destruct Hn|]. destruct Hn as [<-|[]].
    right. exists C9Simple, id. split; [left; reflexivity|reflexivity].
  - destruct (tmap_get (go_type_mappings cfg) id); [c09_ret Hx; intros nm []|].
    c09_bind Hx parts s1 E. c09_ret Hx. apply c09_mgo_Forall2 in E. intros nm Hn. cbn [go_obs_ty texp_names] in Hn. destruct Hn as [<-|Hn].
    + right. exists C9Generic, id. split; [left; reflexivity|reflexivity].
    + apply in_flat_map in Hn as (y' & Hy' & Hn). apply in_map_iff in Hy' as (y & <- & Hy).
      destruct (c09_Forall2_in_r _ _ _ _ E Hy) as (p & Hp & sa & sb & Ep).
      rewrite Forall_forall in H. destruct (H p Hp sa y sb Ep nm Hn) as [B|(form & i & Hi & ->)]; [left; exact B|].
      right. exists form, i. split; [|reflexivity]. cbn [c09_type_ids]. right. apply in_flat_map. exists p. split; assumption.
  - eapply (go_special_mapped_names _ _ (fun x => go_names_ok x (RVec t))); [exact Hx|intros m n []|]. clear Hx. intros s0 x0 s0' Hx.
    c09_bind Hx e s1 E. c09_ret Hx. exact (IHt _ _ _ E).
  - eapply (go_special_mapped_names _ _ (fun x => go_names_ok x (RArray t n))); [exact Hx|intros m n0 []|]. clear Hx. intros s0 x0 s0' Hx.
    c09_bind Hx e s1 E. c09_ret Hx. exact (IHt _ _ _ E).
  - eapply (go_special_mapped_names _ _ (fun x => go_names_ok x (RSlice t))); [exact Hx|intros m n []|]. clear Hx. intros s0 x0 s0' Hx.
    c09_bind Hx e s1 E. c09_ret Hx. exact (IHt _ _ _ E).
  - eapply (go_special_mapped_names _ _ (fun x => go_names_ok x (RHashMap t1 t2))); [exact Hx|intros m n []|]. clear Hx. intros s0 x0 s0' Hx.
    c09_bind Hx ks s1 E1. c09_bind Hx vs s2 E2. c09_ret Hx. intros nm Hn. cbn [go_obs_ty texp_names] in Hn. apply in_app_iff in Hn as [Hn|Hn].
    + destruct (IHt1 _ _ _ E1 nm Hn) as [B|(form & i & Hi & ->)]; [left; exact B|]. right. exists form, i. split; [cbn [c09_type_ids]; apply in_app_iff; auto|reflexivity].
    + destruct (IHt2 _ _ _ E2 nm Hn) as [B|(form & i & Hi & ->)]; [left; exact B|]. right. exists form, i. split; [cbn [c09_type_ids]; apply in_app_iff; auto|reflexivity].
  - eapply (go_special_mapped_names _ _ (fun x => go_names_ok x (ROption t))); [exact Hx|intros m n []|]. clear Hx. intros s0 x0 s0' Hx.
    c09_bind Hx e s1 E. c09_ret Hx. intros nm Hn. apply (IHt _ _ _ E nm). destruct (is_vec t && go_no_pointer_slice cfg); exact Hn.
  - eapply (go_special_mapped_names _ _ (fun x => go_names_ok x (RPrim p))); [exact Hx|intros m n []|]. clear Hx. intros s0 x0 s0' Hx.
    intros nm Hn. left. destruct p; try (c09_bind Hx u sa E0); c09_ret Hx; destruct Hn as [<-|[]]; reflexivity.
Qed.

Lemma go_names_strip m : texp_names (mb_type (go_obs_member m)) = texp_names (go_obs_ty (gm_type m)).
Proof. unfold go_obs_member. cbn [mb_type]. destruct (gm_omitempty m && negb (gm_star m)); [|reflexivity]. destruct (gm_type m); reflexivity. Qed.

Lemma go_member_names gs f s m s' : go_member_of uc cfg gs f s = Ok (m, s') ->
  forall n, In n (texp_names (mb_type (go_obs_member m))) -> c09_builtin Go n = true \/ exists form i, In (form, i) (c09_type_ids (fty f)) /\ n = i.
Proof.
  unfold go_member_of. intros H. c09_bind H tn s1 E. c09_bind H gt s2 E2. c09_bind H fname s3 E3. c09_ret H.
  apply go_acronyms_ty_nil in E2. subst gt. intros n Hn. rewrite go_names_strip in Hn. cbn [gm_type] in Hn.
  destruct (type_override f Go); [c09_ret E; destruct Hn|]. exact (go_texp_names gs _ _ _ _ E n Hn).
Qed.
End GON.

Section GOI.
Variable uc : unicode.
Variable cfg : go_config.
Hypothesis Hacr : go_uppercase_acronyms cfg = [].
Variable pd : parsed.
Hypothesis Hdom : dom_C09 Go [] pd = true.
Let rn := c09_rn pd.
Let pd' := c09_reconciled pd.
Notation shape := (c09_ref_shape Go [] pd).
Notation ownercond := (c09_ownercond pd Go []).
Notation defname := (c09_def_name Go []).
Notation has_def := (c09_has_def Go []).
Notation names_ok x t :=
  (forall n, In n (texp_names x) -> c09_builtin Go n = true \/ exists form i, In (form, i) (c09_type_ids t) /\ n = i).

Lemma go_refs tp owner x :
  In tp (c09_tposs pd) -> names_ok x (c09_recon_type pd tp) -> ownercond tp owner ->
  forall r, In r (c09_type_refs Go owner (c9t_pos tp) x) -> shape r.
Proof. intros Htp Hn Hown. eapply (c09_names_refs_plain pd Go [] Hdom); eauto. Qed.

(* write_struct: a source struct or the helper struct of a struct variant *)
Lemma go_struct_shape rs d sa sb owner (mk : rfield -> c09_tpos) fs :
  go_struct_decl_of uc cfg rs sa = Ok (d, sb) -> sfields rs = map (check_field [] rn []) fs -> owner = renamed (sid rs) ->
  (forall f, In f fs -> In (mk f) (c09_tposs pd) /\ c9t_pos (mk f) = C9Field /\ c9t_type (mk f) = fty f /\ ownercond (mk f) owner) ->
  exists d1, go_obs d = [d1] /\ d_name d1 = owner /\ c09_is_def d1 = true /\ forall r, In r (c09_decl_refs Go d1) -> shape r.
Proof.
  unfold go_struct_decl_of. intros Hd Hfs -> Hmk. c09_bind Hd name s1 E1. apply (go_acr_nil uc cfg Hacr) in E1 as [-> ->].
  c09_bind Hd ms s2 E. c09_ret Hd. eexists. split; [reflexivity|]. cbn [d_name]. repeat split.
  intros r Hr. unfold c09_decl_refs in Hr. cbn [d_kind d_name d_members d_variants flat_map] in Hr. rewrite app_nil_r in Hr.
  apply in_flat_map in Hr as (m' & Hm' & Hr). apply in_map_iff in Hm' as (m & <- & Hm).
  apply c09_mmapM_Forall2 in E. rewrite Hfs in E. destruct (c09_Forall2_in_r _ _ _ _ E Hm) as (f' & Hf' & sc & sd & Em).
  apply in_map_iff in Hf' as (f & <- & Hf). destruct (Hmk f Hf) as (Htp & Hpos & Hty & Hown).
  rewrite <- Hpos in Hr. eapply go_refs; [exact Htp| |exact Hown|exact Hr].
  unfold c09_recon_type. rewrite Hty. exact (go_member_names uc cfg Hacr _ _ _ _ _ Em).
Qed.

Lemma go_has_def_1 g d en : In d g -> c09_is_def d = true -> d_name d = defname en -> has_def g en.
Proof. intros. exists d. auto. Qed.

Lemma go_item custom it' ds s1 s2 : In it' (items_of pd') -> go_decl_of uc cfg custom it' s1 = Ok (ds, s2) ->
  c09_item_ok pd Go [] it' (flat_map go_obs ds).
Proof.
  intros Hit Hd. destruct (c09_items_cases pd Go [] Hdom it' Hit) as [(a & Ha & ->)|[(s & Hs & ->)|[(e & He & ->)|(c & Hc & ->)]]];
    cbn [go_decl_of] in Hd.
  - (* alias: declared under id.original *)
    cbn [c09_ra agenerics atype acomments aid] in Hd. c09_bind Hd name s3 E1. apply (go_acr_nil uc cfg Hacr) in E1 as [-> ->].
    c09_bind Hd ty s4 E. c09_ret Hd.
    assert (Hn : defname (c09_ent_alias a) = original (aid a)) by (unfold c09_def_name; cbn; apply app_nil_r).
    cbn [flat_map go_obs app]. split.
    + intros d [<-|[]]. split.
      * intros _. exists (c09_ent_alias a). split; [apply c09_in_alias; exact Ha|]. rewrite Hn. reflexivity.
      * intros r Hr. unfold c09_decl_refs in Hr. cbn [d_kind d_name d_type] in Hr.
        eapply (go_refs {| c9t_owner := aid a; c9t_generics := agenerics a; c9t_pos := C9Alias; c9t_type := atype a |}); [apply c09_tp_alias; exact Ha| | |exact Hr].
        -- exact (go_texp_names cfg _ _ _ _ _ E).
        -- right. exists (c09_ent_alias a). split; [apply c09_in_alias; exact Ha|]. split; [rewrite Hn; reflexivity|reflexivity].
    + intros a0 Ha0 Ea. eexists. split; [left; reflexivity|]. split; [reflexivity|]. cbn [d_name].
      assert (aid a0 = aid a) as <- by (apply (f_equal aid) in Ea; cbn in Ea; congruence).
      unfold c09_def_name. cbn. symmetry. apply app_nil_r.
  - (* struct *)
    c09_bind Hd d s3 E. c09_ret Hd.
    assert (Hn : defname (c09_ent_struct s) = renamed (sid s)) by (unfold c09_def_name; cbn; apply app_nil_r).
    destruct (go_struct_shape (c09_rs rn s) d _ _ (renamed (sid s))
                (fun f => {| c9t_owner := sid s; c9t_generics := sgenerics s; c9t_pos := C9Field; c9t_type := fty f |}) (sfields s) E eq_refl eq_refl)
      as (d1 & Hobs & Hname & Hdef & Hrefs).
    { intros f Hf. split; [apply c09_tp_struct; assumption|]. repeat split.
      right. exists (c09_ent_struct s). split; [apply c09_in_struct; exact Hs|]. split; [rewrite Hn; reflexivity|reflexivity]. }
    cbn [flat_map]. rewrite Hobs. cbn [app]. split.
    + intros d0 [<-|[]]. split; [|exact Hrefs]. intros _. exists (c09_ent_struct s). split; [apply c09_in_struct; exact Hs|]. rewrite Hn. exact Hname.
    + intros s0 Hs0 Es. apply (go_has_def_1 _ d1); [left; reflexivity|exact Hdef|]. rewrite Hname.
      assert (sid s0 = sid s) as <- by (apply (f_equal sid) in Es; cbn in Es; congruence).
      unfold c09_def_name. cbn. symmetry. apply app_nil_r.
  - (* enum: helper structs, then the enum; everything is named from id.original *)
    destruct (c09_sh_recon pd e) as (Hid & Hgs & Hvs). fold rn in Hid, Hgs, Hvs.
    set (j := c09_ent_enum e).
    assert (Hj : In j (c09_entities pd)) by (apply c09_in_enum; exact He).
    assert (Hnj : defname j = original (eid (enum_shared e))) by (unfold c09_def_name; destruct e; cbn; apply app_nil_r).
    unfold go_enum_decls_of in Hd. cbv zeta in Hd. fold rn in Hd. c09_bind Hd anon s3 Ea.
    unfold go_anonymous_struct_decls in Ea. c09_bind Ea dss s4 Em. c09_ret Ea. apply c09_mmapM_Forall2 in Em. rewrite Hvs in Em.
    assert (Hinner : forall fs vsh d sa sb, In (VAnon fs vsh) (evariants (enum_shared e)) ->
              go_struct_decl_of uc cfg (anon_struct (enum_shared (c09_re rn e)) (original (eid (enum_shared e)) ++ original (vid vsh) ++ lit "Inner")
                                          (original (vid vsh)) (map (check_field [] rn []) fs)) sa = Ok (d, sb) ->
              exists d1, go_obs d = [d1] /\ d_name d1 = defname (c09_ent_inner e vsh) /\ c09_is_def d1 = true /\
                         forall r, In r (c09_decl_refs Go d1) -> shape r).
    { intros fs vsh d sa sb Hv Ec.
      eapply (go_struct_shape _ d sa sb _ (fun f => {| c9t_owner := eid (enum_shared e); c9t_generics := egenerics (enum_shared e); c9t_pos := C9Field; c9t_type := fty f |}) fs Ec);
        [reflexivity|reflexivity|].
      intros f Hf. split; [apply (c09_tp_anon pd e fs vsh f He Hv Hf)|]. repeat split.
      right. exists (c09_ent_inner e vsh). split; [eapply c09_in_inner; eassumption|]. split; reflexivity. }
    assert (Hvar : forall v' l sa sb,
              (match v' with
               | VAnon fs vsh => mdo struct_name <- go_make_anonymous_struct_name uc cfg (enum_shared (c09_re rn e)) (original (vid vsh));
                                 mdo d <- go_struct_decl_of uc cfg (anon_struct (enum_shared (c09_re rn e)) struct_name (original (vid vsh)) fs); ret [d]
               | _ => ret []
               end) sa = Ok (l, sb) ->
              match v' with
              | VAnon fs' vsh => exists d sc sd, l = [d] /\
                   go_struct_decl_of uc cfg (anon_struct (enum_shared (c09_re rn e)) (original (eid (enum_shared e)) ++ original (vid vsh) ++ lit "Inner")
                                               (original (vid vsh)) fs') sc = Ok (d, sd)
              | _ => l = []
              end).
    { intros v' l sa sb Hv'. destruct v' as [?|? ?|fs' vsh]; [c09_ret Hv'; reflexivity|c09_ret Hv'; reflexivity|].
      c09_bind Hv' sn sc E1. unfold go_make_anonymous_struct_name in E1. apply (go_acr_nil uc cfg Hacr) in E1 as [-> ->]. rewrite Hid in Hv'.
      c09_bind Hv' d sd E2. c09_ret Hv'. exists d, sa, sd. auto. }
    assert (Hanon : forall d, In d (List.concat dss) -> exists fs vsh sa sb, In (VAnon fs vsh) (evariants (enum_shared e)) /\
              go_struct_decl_of uc cfg (anon_struct (enum_shared (c09_re rn e)) (original (eid (enum_shared e)) ++ original (vid vsh) ++ lit "Inner")
                                          (original (vid vsh)) (map (check_field [] rn []) fs)) sa = Ok (d, sb)).
    { intros d Hd0. apply in_concat in Hd0 as (l & Hl & Hd0). destruct (c09_Forall2_in_r _ _ _ _ Em Hl) as (v' & Hv' & sa & sb & Ev').
      apply in_map_iff in Hv' as (v & <- & Hv). apply Hvar in Ev'. destruct v as [sh|t sh|fs sh]; cbn [check_variant] in Ev'.
      - subst l. destruct Hd0.
      - subst l. destruct Hd0.
      - destruct Ev' as (d1 & sc & sd & -> & Ec). destruct Hd0 as [<-|[]]. exists fs, sh, sc, sd. auto. }
    assert (Hanon' : forall fs vsh, In (VAnon fs vsh) (evariants (enum_shared e)) -> exists d sa sb, In d (List.concat dss) /\
              go_struct_decl_of uc cfg (anon_struct (enum_shared (c09_re rn e)) (original (eid (enum_shared e)) ++ original (vid vsh) ++ lit "Inner")
                                          (original (vid vsh)) (map (check_field [] rn []) fs)) sa = Ok (d, sb)).
    { intros fs vsh Hv. assert (In (check_variant [] rn [] (VAnon fs vsh)) (map (check_variant [] rn []) (evariants (enum_shared e)))) as Hv' by (apply in_map; exact Hv).
      destruct (c09_Forall2_in_l _ _ _ _ Em Hv') as (l & Hl & sa & sb & Ev'). apply Hvar in Ev'. cbn [check_variant] in Ev'.
      destruct Ev' as (d1 & sc & sd & -> & Ec). exists d1, sc, sd. split; [|exact Ec]. apply in_concat. exists [d1]. split; [exact Hl|left; reflexivity]. }
    (* the enum itself *)
    assert (Hself : exists dE, ds = List.concat dss ++ [dE] /\ (exists dS, In dS (go_obs dE) /\ c09_is_def dS = true) /\
              forall d, In d (go_obs dE) -> (d_kind d = DHelper) \/
                (d_name d = defname j /\ c09_is_def d = true /\ forall r, In r (c09_decl_refs Go d) -> shape r)).
    { destruct e as [sh|tag content sh]; cbn [c09_re enum_shared] in *.
      - c09_bind Hd en s5 E0. apply (go_acr_nil uc cfg Hacr) in E0 as [-> ->]. c09_bind Hd vs s6 Ev. c09_ret Hd. eexists. split; [reflexivity|].
        split; [eexists; split; [left; reflexivity|reflexivity]|].
        intros d [<-|[]]. right. cbn [d_name check_eshared eid]. rewrite Hnj. repeat split.
        intros r Hr. unfold c09_decl_refs in Hr. cbn [d_kind d_name d_members d_variants flat_map app] in Hr.
        apply in_flat_map in Hr as (v & Hv & Hr). apply in_map_iff in Hv as ([[vd vc] vw] & <- & _). cbn in Hr. destruct Hr.
      - c09_bind Hd sn s5 E0. apply (go_acr_nil uc cfg Hacr) in E0 as [-> ->]. c09_bind Hd cf s6 E1. c09_bind Hd tf s7 E2.
        c09_bind Hd ssn s8 E3. c09_bind Hd ta s9 E4. cbv zeta in Hd. c09_bind Hd vs s10 Ev. c09_ret Hd. eexists. split; [reflexivity|].
        split; [eexists; split; [right; left; reflexivity|reflexivity]|].
        cbn [go_obs gt_name gt_key_type gt_variants gt_docs gt_tag_key gt_content_key check_eshared eid]. intros d [<-|[<-|[]]]; [left; reflexivity|right].
        cbn [d_name]. rewrite Hnj. repeat split.
        intros r Hr. unfold c09_decl_refs in Hr. cbn [d_kind d_name d_members d_variants flat_map app] in Hr.
        apply in_flat_map in Hr as (vd & Hvd & Hr). apply in_map_iff in Hvd as (gv & <- & Hgv).
        apply c09_mmapM_Forall2 in Ev. cbn [check_eshared evariants] in Ev.
        destruct (c09_Forall2_in_r _ _ _ _ Ev Hgv) as (v' & Hv' & sc & sd & Ev'). apply in_map_iff in Hv' as (v & <- & Hv).
        unfold go_variant_of in Ev'. cbv zeta in Ev'. c09_bind Ev' vn se E5. apply (go_acr_nil uc cfg Hacr) in E5 as [-> ->].
        c09_bind Ev' vt sf Evt. c09_bind Ev' tp sg E6. c09_bind Ev' ct sh0 Ec. c09_ret Ev'.
        cbn [go_obs_variant vd_parent vd_payload gv_content app] in Hr.
        destruct v as [vsh|t vsh|fs vsh]; cbn [check_variant variant_shared] in Evt.
        + c09_ret Evt. c09_ret Ec. destruct Hr.
        + c09_bind Evt x sx Et. c09_ret Evt. c09_bind Ec fvt sy Ef. c09_ret Ec. apply (go_acronyms_ty_nil uc cfg Hacr) in Ef. subst fvt.
          eapply (go_refs {| c9t_owner := eid sh; c9t_generics := egenerics sh; c9t_pos := C9Payload; c9t_type := t |});
            [apply (c09_tp_tuple pd (EAlgebraic tag content sh) t vsh He Hv)| | |exact Hr].
          * exact (go_texp_names cfg _ _ _ _ _ Et).
          * right. exists j. split; [exact Hj|]. split; [rewrite Hnj; reflexivity|reflexivity].
        + c09_bind Evt sn sx Et. unfold go_make_anonymous_struct_name in Et. apply (go_acr_nil uc cfg Hacr) in Et as [-> ->]. c09_ret Evt.
          c09_bind Ec fvt sy Ef. apply (go_acr_nil uc cfg Hacr) in Ef as [-> ->]. c09_ret Ec.
          cbn [map] in Hr. destruct Hr as [<-|[]].
          eapply C9S_inner with (i := c09_ent_inner (EAlgebraic tag content sh) vsh); cbn [c9_in c9_pos c9_name check_eshared eid variant_shared]; try reflexivity.
          eapply c09_in_inner; [exact He|exact Hv]. }
    destruct Hself as (dE & -> & (dS & HdS & HdefS) & HselfE).
    assert (Hg : forall d, In d (flat_map go_obs (List.concat dss ++ [dE])) <->
                (exists d0, In d0 (List.concat dss) /\ In d (go_obs d0)) \/ In d (go_obs dE)).
    { intros d. rewrite flat_map_app, in_app_iff, in_flat_map. cbn [flat_map]. rewrite app_nil_r. reflexivity. }
    split.
    + intros d Hd0. apply Hg in Hd0 as [(d0 & Hd0 & Hdd)|Hdd].
      * destruct (Hanon d0 Hd0) as (fs & vsh & sa & sb & Hv & Ec). destruct (Hinner fs vsh d0 sa sb Hv Ec) as (d1 & Ho & A & B & C).
        rewrite Ho in Hdd. destruct Hdd as [<-|[]]. split; [|exact C]. intros _. exists (c09_ent_inner e vsh). split; [eapply c09_in_inner; eassumption|exact A].
      * destruct (HselfE d Hdd) as [K|(A & B & C)]; [apply (c09_decl_ok_helper pd Go []); exact K|].
        split; [|exact C]. intros _. exists j. split; [exact Hj|exact A].
    + intros e0 He0 Ee.
      assert (eid (enum_shared e0) = eid (enum_shared e) /\ egenerics (enum_shared e0) = egenerics (enum_shared e) /\ c09_enum_kind e0 = c09_enum_kind e) as (Ei0 & Eg0 & Ek0).
      { pose proof (f_equal (fun x => eid (enum_shared x)) Ee) as A. pose proof (f_equal (fun x => egenerics (enum_shared x)) Ee) as B.
        pose proof (f_equal c09_enum_kind Ee) as C. destruct e, e0; cbn in A, B, C |- *; try discriminate; repeat split; congruence. }
      split.
      * destruct (HselfE dS HdS) as [K|(A & B & C)]; [unfold c09_is_def in HdefS; rewrite K in HdefS; discriminate|].
        apply (go_has_def_1 _ dS); [apply Hg; right; exact HdS|exact B|]. rewrite A. unfold j, c09_ent_enum. rewrite Ei0, Eg0, Ek0. reflexivity.
      * intros _ fs vsh Hv0.
        assert (evariants (enum_shared (c09_re rn e)) = map (check_variant [] rn []) (evariants (enum_shared e0))) as Hv1eq.
        { destruct (c09_sh_recon pd e0) as (_ & _ & A). transitivity (evariants (enum_shared (c09_re rn e0))); [f_equal; f_equal; exact Ee|exact A]. }
        assert (In (check_variant [] rn [] (VAnon fs vsh)) (map (check_variant [] rn []) (evariants (enum_shared e)))) as Hv1.
        { rewrite <- Hvs, Hv1eq. apply in_map. exact Hv0. }
        apply in_map_iff in Hv1 as (v & Ev1 & Hv1). destruct v as [?|? ?|fs1 vsh1]; try discriminate. injection Ev1 as Efs <-.
        destruct (Hanon' fs1 vsh1 Hv1) as (d0 & sa & sb & Hd0 & Ec). destruct (Hinner fs1 vsh1 d0 sa sb Hv1 Ec) as (d1 & Ho & A & B & C).
        apply (go_has_def_1 _ d1); [apply Hg; left; exists d0; split; [exact Hd0|rewrite Ho; left; reflexivity]|exact B|]. rewrite A.
        unfold c09_ent_inner. rewrite Ei0, Eg0. reflexivity.
  - (* const: not a definition; its type is reconciled like every other type position *)
    c09_bind Hd ty s3 E. c09_ret Hd. split; [|exact I].
    cbn [flat_map go_obs app]. intros d [<-|[]]. split; [cbn; discriminate|].
    intros r Hr. unfold c09_decl_refs in Hr. cbn [d_kind d_name d_type] in Hr.
    eapply (go_refs {| c9t_owner := cid c; c9t_generics := []; c9t_pos := C9Const; c9t_type := ctype c |}); [apply c09_tp_const; exact Hc| |left; reflexivity|exact Hr].
    exact (go_texp_names cfg _ _ _ _ _ E).
Qed.

Theorem go_shape fd : go_file_decls uc cfg pd' = Ok fd -> c09_shape Go [] pd (c09_observe Go fd).
Proof.
  unfold go_file_decls, go_decls. intros H.
  destruct (topsort (items_of pd')) as [items| |] eqn:Et; cbn [bind] in H; try discriminate. cbv zeta in H.
  match type of H with context [bind ?m _] => destruct m as [[ds imports]| |] eqn:Er end; cbn [bind] in H; try discriminate.
  injection H as <-. pose proof (c09_topsort_in' _ _ Et) as Hperm.
  c09_bind Er u s1 E0. c09_bind Er dss s2 Em. c09_ret Er. apply c09_mmapM_Forall2 in Em.
  set (custom := go_types_mapping_to_struct items) in Em.
  apply (c09_shape_of_items pd Go [] Hdom
           (fun it' g => exists ds s1 s2, go_decl_of uc cfg custom it' s1 = Ok (ds, s2) /\ g = flat_map go_obs ds)
           [] (map (flat_map go_obs) dss)); cbn [fd_decls].
  - intros d. rewrite in_flat_map. split.
    + intros (x & Hx & Hd). right. apply in_concat in Hx as (ds & Hds & Hx). exists (flat_map go_obs ds). split; [apply in_map; exact Hds|apply in_flat_map; eauto].
    + intros [[]|(g & Hg & Hd)]. apply in_map_iff in Hg as (ds & <- & Hds). apply in_flat_map in Hd as (x & Hx & Hd). exists x. split; [apply in_concat; eauto|exact Hd].
  - intros d [].
  - intros it' Hit _. apply Hperm in Hit. destruct (c09_Forall2_in_l _ _ _ _ Em Hit) as (ds & Hds & sa & sb & E).
    exists (flat_map go_obs ds). split; [apply in_map; exact Hds|]. exists ds, sa, sb. auto.
  - intros g Hg. apply in_map_iff in Hg as (ds & <- & Hds). destruct (c09_Forall2_in_r _ _ _ _ Em Hds) as (it' & Hit & sa & sb & E).
    exists it'. split; [apply Hperm; exact Hit|]. exists ds, sa, sb. auto.
  - intros it' g Hit (ds & sa & sb & E & ->). exact (go_item custom it' ds sa sb Hit E).
Qed.

Theorem c09_go (acrs : list str) fd :
  known_C09 Go [] acrs pd = None -> go_file_decls uc cfg pd' = Ok fd ->
  good_C09 Go [] pd (c09_observe Go fd) = true.
Proof. intros Hknown H. exact (c09_shape_good Go [] acrs pd _ Hdom Hknown (go_shape fd H)). Qed.
End GOI.

Theorem c09_go_no_acronyms (uc : unicode) (cfg : go_config) (pd : parsed) :
  go_uppercase_acronyms cfg = [] ->
  dom_C09 Go [] pd = true -> known_C09 Go [] (go_uppercase_acronyms cfg) pd = None ->
  forall fd : file_decls, go_file_decls uc cfg (c09_reconciled pd) = Ok fd ->
    good_C09 Go [] pd (c09_observe Go fd) = true.
Proof. intros Ha Hd Hk fd H. exact (c09_go uc cfg Ha pd Hd _ fd Hk H). Qed.
