(* C03 end to end, instantiated for the six back ends (Proofs/C03E2E.v + the file theorems). *)
From Coq Require Import String List Bool.
From TS Require Import Model.Str Model.Outcome Model.Unicode Model.Syntax Model.Types Model.Parse Model.Reconcile
                       Model.Lang.Common Model.Lang.Decl Model.Lang.TypeScript Model.Lang.Kotlin Model.Lang.Swift
                       Model.Lang.Scala Model.Lang.Go Model.Lang.Python.
From TS Require Import Spec.C03Spec.
From TS Require Import Proofs.C03E2E Proofs.C03_TS Proofs.C03_Kotlin Proofs.C03_Swift Proofs.C03_Scala Proofs.C03_Go Proofs.C03_Python.
Import ListNotations.

Section All.
Variable uc : unicode.
Hypothesis Huc : unicode_ok uc.
Variable tstr : str -> option ty.
Variable T : list str.

Definition e2e_statement (L : lang) (decls_L : parsed -> outcome file_decls) : Prop :=
  forall (f : file) (pd : parsed) (cn : str) (rn : renames) (fd : file_decls),
    dom_C03_src_file T f = true -> known_C03_src_file uc T L f = None ->
    parse_file uc tstr T f = Ok (Some pd) -> p_errors pd = [] ->
    decls_L (reconcile_crate rn cn pd) = Ok fd ->
    good_C03_src_file uc T L f (map c03_sig_of (fd_decls fd)) = true.

Lemma e2e_ts cfg : e2e_statement TypeScript (ts_file_decls uc cfg).
Proof. intros f pd cn rn fd. apply (end_to_end uc Huc tstr T TypeScript (ts_file_decls uc cfg)). intros p d H _ _. exact (ts_file uc cfg p d H). Qed.
Lemma e2e_kt cfg : e2e_statement Kotlin (kt_file_decls uc cfg).
Proof. intros f pd cn rn fd. apply (end_to_end uc Huc tstr T Kotlin (kt_file_decls uc cfg)). intros p d H Hd _. exact (kt_file uc cfg p d H Hd). Qed.
Lemma e2e_sw cfg : e2e_statement Swift (sw_file_decls uc cfg).
Proof. intros f pd cn rn fd. apply (end_to_end uc Huc tstr T Swift (sw_file_decls uc cfg)). intros p d H Hd _. exact (sw_file uc cfg p d H Hd). Qed.
Lemma e2e_sc cfg : e2e_statement Scala (sc_file_decls uc cfg).
Proof. intros f pd cn rn fd. apply (end_to_end uc Huc tstr T Scala (sc_file_decls uc cfg)). intros p d H Hd Hk. exact (sc_file uc cfg p d H Hd Hk). Qed.
Lemma e2e_go cfg : e2e_statement Go (go_file_decls uc cfg).
Proof. intros f pd cn rn fd. apply (end_to_end uc Huc tstr T Go (go_file_decls uc cfg)). intros p d H _ _. exact (go_file uc cfg p d H). Qed.
Lemma e2e_py cfg : e2e_statement Python (py_file_decls uc cfg).
Proof. intros f pd cn rn fd. apply (end_to_end uc Huc tstr T Python (py_file_decls uc cfg)). intros p d H Hd Hk. exact (py_file uc cfg p d H Hd Hk). Qed.
End All.
