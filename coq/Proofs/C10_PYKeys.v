(* C10, Python: witness of the open finding C10-python-key-keyword (class Spec/C10PyKeys.v). *)
From Coq Require Import List Bool Arith NArith String.
From TS Require Import Model.Str Model.Outcome Model.Unicode Model.Types Model.Parse Model.Rename Model.TopsortAlgo Model.Topsort
                       Model.Lang.Common Model.Lang.Decl Model.Lang.Python.
From TS Require Import Spec.C10Spec Spec.C10PyKeys.
From TS Require Proofs.C10 Proofs.C10_TSGrammarFile.
Import ListNotations.
Local Open Scope N_scope.

(* #[typeshare] #[serde(tag = "class", content = "in")] pub enum E { A(u8), B } *)
Definition pk_prog : parsed :=
  {| p_structs := [];
     p_enums := [EAlgebraic (lit "class") (lit "in")
                   {| eid := Proofs.C10_TSGrammarFile.g_id "E"; egenerics := []; ecomments := [];
                      evariants := [VTuple (RPrim PU8) {| vid := Proofs.C10_TSGrammarFile.g_id "A"; vcomments := [] |};
                                    VUnit {| vid := Proofs.C10_TSGrammarFile.g_id "B"; vcomments := [] |}];
                      edecs := []; erecursive := false; eredacted := false |}];
     p_aliases := []; p_consts := []; p_type_names := []; p_errors := []; p_imports := [] |}.

(* the same enum with the keys `t` / `c`: in no class *)
Definition pk_plain : parsed :=
  {| p_structs := [];
     p_enums := [EAlgebraic (lit "t") (lit "c")
                   {| eid := Proofs.C10_TSGrammarFile.g_id "E"; egenerics := []; ecomments := [];
                      evariants := [VTuple (RPrim PU8) {| vid := Proofs.C10_TSGrammarFile.g_id "A"; vcomments := [] |};
                                    VUnit {| vid := Proofs.C10_TSGrammarFile.g_id "B"; vcomments := [] |}];
                      edecs := []; erecursive := false; eredacted := false |}];
     p_aliases := []; p_consts := []; p_type_names := []; p_errors := []; p_imports := [] |}.

(* a keyword CONTENT key on an enum without a data-carrying variant is never printed: not in the class *)
Definition pk_unit_only : parsed :=
  {| p_structs := [];
     p_enums := [EAlgebraic (lit "t") (lit "in")
                   {| eid := Proofs.C10_TSGrammarFile.g_id "E"; egenerics := []; ecomments := [];
                      evariants := [VUnit {| vid := Proofs.C10_TSGrammarFile.g_id "B"; vcomments := [] |}];
                      edecs := []; erecursive := false; eredacted := false |}];
     p_aliases := []; p_consts := []; p_type_names := []; p_errors := []; p_imports := [] |}.

Lemma python_key_keyword_refuted :
  exists cfg pd text, dom_C10 CPY pd = true /\ known_C10 CPY [] pd = [] /\ known_C10_py_keys pd = ["C10-python-key-keyword"%string] /\
    py_generate uc_exec cfg pd = Ok text /\
    contains_sub (lit "    class: Literal[ETypes.A] = ETypes.A") text = true /\ contains_sub (lit "    in: int") text = true /\
    mem_str (lit "class") c10_python_keywords = true /\ mem_str (lit "in") c10_python_keywords = true.
Proof.
  exists Proofs.C10.w_py_cfg, pk_prog, (match py_generate uc_exec Proofs.C10.w_py_cfg pk_prog with Ok t => t | _ => [] end).
  repeat split; vm_compute; reflexivity.
Qed.

Lemma python_key_keyword_class_boundaries :
  known_C10_py_keys pk_plain = [] /\ known_C10_py_keys pk_unit_only = [] /\
  (exists text, py_generate uc_exec Proofs.C10.w_py_cfg pk_unit_only = Ok text /\ contains_sub (lit "    in:") text = false).
Proof.
  split; [vm_compute; reflexivity|]. split; [vm_compute; reflexivity|].
  exists (match py_generate uc_exec Proofs.C10.w_py_cfg pk_unit_only with Ok t => t | _ => [] end).
  split; vm_compute; reflexivity.
Qed.
