(* C15 for Python, WHOLE FILES (py_generate: the version docstring, then - printed from the state the body left
   behind - `from __future__ import annotations`, the sorted import lines, the TypeVar lines, the helper functions of
   the custom JSON translations, then the body: the items in topological order with the printer state threaded through
   them), without the neutrality hypothesis.  On top of Proofs/C15_PythonItem.v:
   - the version header IS a docstring fragment (its doc string is the line typeshare writes itself; with a version
     string free of three double quotes in a row it is its own escaped form);
   - the printer state: the import map only ever receives the module / identifier names python.rs adds itself (plain
     text), the TypeVar set only generic parameters of the items (plain, and fine between double quotes on the class),
     the set of custom-translation types only selects among two fixed texts: import block, TypeVar block and helper
     functions are neutral code whatever the items are;
   - the items, one after the other, by C15_PythonItem.pyn_item_decomp. *)
From Coq Require Import List NArith Bool Lia ZifyBool ZifyN String Permutation.
From TS Require Import Model.Str Model.Outcome Model.Unicode Model.Types Model.Parse Model.Rename
                       Model.TopsortAlgo Model.Topsort Model.Lang.Common Model.Lang.ConvertCase Model.Lang.Decl Model.Lang.Python.
From TS Require Import Spec.Lexers Spec.C10Spec Spec.C15Spec Spec.C15Render Spec.C15RenderScPy Spec.C15RenderPyFile.
From TS Require Import Proofs.BackCommon Proofs.C10Monad Proofs.C15 Proofs.C15_Render Proofs.C15_Python Proofs.C15_Kotlin
                       Proofs.C15_Front Proofs.C15_PythonItem.
From TS Require Proofs.C10_TSFile Proofs.C10_PYFile Proofs.C15_Replace.
Import ListNotations.
Local Open Scope N_scope.

(* ================= the printer state ================= *)
Definition py_tv_ok (s : str) : bool := plain s && py_raw_ok s.
Definition py_imp_ok (mi : str * list str) : bool := plain (fst mi) && forallb plain (snd mi).
Definition pyf_inv (st : py_state) : Prop :=
  forallb py_imp_ok (py_imports st) = true /\ forallb py_tv_ok (py_type_variables st) = true.
Notation pp := (post pyf_inv (fun _ => True)).

Lemma pyf_typevar_raw s : c15_py_typevar_ok s = py_raw_ok s.
Proof. reflexivity. Qed.

Lemma pyf_imports_insert_ok m k v : plain k = true -> plain v = true ->
  forallb py_imp_ok m = true -> forallb py_imp_ok (py_imports_insert m k v) = true.
Proof.
  intros Hk Hv. unfold py_imp_ok. induction m as [|[a s] r IH]; cbn [py_imports_insert forallb fst snd]; [now rewrite Hk, Hv|].
  rewrite !andb_true_iff. intros [[Ha Hs] Hr]. destruct (str_eqb a k).
  - cbn [forallb fst snd]. now rewrite Ha, (Proofs.C10_PYFile.sset_insert_all plain v s Hv Hs), Hr.
  - destruct (str_ltb k a); cbn [forallb fst snd]; [now rewrite Hk, Hv, Ha, Hs, Hr|]. now rewrite Ha, Hs, (IH Hr).
Qed.

Lemma pp_add_import m i : plain m = true -> plain i = true -> pp (py_add_import m i).
Proof.
  intros Hm Hi s y s' H [Hs1 Hs2]. unfold py_add_import in H. apply mbind_ok in H as (st & s1 & Hg & H).
  unfold mget in Hg. injection Hg as <- <-. unfold mput in H. injection H as _ <-. split; [exact I|].
  split; cbn [py_imports py_type_variables]; [|exact Hs2]. now apply pyf_imports_insert_ok.
Qed.
Lemma pp_add_type_var n : py_tv_ok n = true -> pp (py_add_type_var n).
Proof.
  intros Hn. unfold py_add_type_var. eapply (post_bind pyf_inv (fun _ => True)); [apply pp_add_import; reflexivity|]. intros _ _.
  intros s y s' H [Hs1 Hs2]. apply mbind_ok in H as (st & s1 & Hg & H). unfold mget in Hg. injection Hg as <- <-.
  unfold mput in H. injection H as _ <-. split; [exact I|]. split; cbn [py_imports py_type_variables]; [exact Hs1|].
  now apply Proofs.C10_PYFile.sset_insert_all.
Qed.
Lemma pp_add_type_vars ns : forallb py_tv_ok ns = true -> pp (py_add_type_vars ns).
Proof.
  induction ns as [|n r IH]; intros H; cbn [py_add_type_vars]; [apply post_ret; exact I|].
  cbn [forallb] in H. apply andb_true_iff in H as [Hn Hr].
  eapply (post_bind pyf_inv (fun _ => True)); [exact (pp_add_type_var n Hn)|]. intros _ _. exact (IH Hr).
Qed.
Lemma pp_add_custom_type t : pp (py_add_custom_type t).
Proof.
  intros s y s' H [Hs1 Hs2]. unfold py_add_custom_type in H. apply mbind_ok in H as (st & s1 & Hg & H).
  unfold mget in Hg. injection Hg as <- <-. unfold mput in H. injection H as _ <-. split; [exact I|]. split; assumption.
Qed.

Ltac pp_step :=
  match goal with
  | |- post _ _ (ret _) => apply post_ret; exact I
  | |- post _ _ (mpanic _) => apply post_mpanic
  | |- post _ _ (fail _) => apply post_fail
  | |- post _ _ (py_add_import _ _) => apply pp_add_import; reflexivity
  | |- post _ _ (py_add_custom_type _) => apply pp_add_custom_type
  | |- post _ _ (mbind _ _) => eapply (post_bind pyf_inv (fun _ => True)); [|intros ? _]
  | |- post _ _ (match ?x with _ => _ end) => destruct x
  end.

Lemma pp_add_imports tp : pp (py_add_imports tp).
Proof. unfold py_add_imports. repeat pp_step. Qed.
Lemma pp_add_common_imports a b c : pp (py_add_common_imports a b c).
Proof. unfold py_add_common_imports. repeat pp_step. Qed.

Lemma pp_mmapM {A B} (f : A -> M py_state B) l : (forall x, pp (f x)) -> pp (mmapM f l).
Proof.
  intros Hf. eapply post_weaken; [|apply (post_mmapM pyf_inv f (fun _ => True) (fun _ => True)); [intros x _; apply Hf|]].
  - intros; exact I.
  - induction l; constructor; auto.
Qed.

Lemma pyf_forallb_andb {A} (p q : A -> bool) l : forallb p l = true -> forallb q l = true -> forallb (fun x => p x && q x) l = true.
Proof. intros Hp Hq. rewrite forallb_forall in *. intros x Hx. now rewrite (Hp x Hx), (Hq x Hx). Qed.

Section PYState.
Variable uc : unicode.
Variable cfg : py_config.

Ltac pp_special IH :=
  destruct (tmap_get (py_type_mappings cfg) _); [repeat pp_step|]; repeat first [exact IH | pp_step].

Lemma pp_texp g t : pp (py_texp cfg g t).
Proof.
  induction t as [id|id ps IH|t IH|t n IH|t IH|k v IHk IHv|t IH|p] using rtype_ind'; cbn [py_texp].
  - repeat first [apply pp_add_imports | pp_step].
  - eapply (post_bind pyf_inv (fun _ => True)); [apply pp_add_imports|intros ? _].
    destruct (tmap_get (py_type_mappings cfg) id); [apply post_ret; exact I|].
    rewrite c15_go_is_mmapM. eapply (post_bind pyf_inv (fun _ => True)); [|intros ? _; apply post_ret; exact I].
    eapply post_weaken; [|apply (post_mmapM pyf_inv (py_texp cfg g) (fun t => pp (py_texp cfg g t)) (fun _ => True)); [auto|exact IH]].
    intros; exact I.
  - pp_special IH.
  - pp_special IH.
  - pp_special IH.
  - destruct (tmap_get (py_type_mappings cfg) _); [repeat pp_step|].
    eapply (post_bind pyf_inv (fun _ => True)); [apply pp_add_import; reflexivity|intros ? _].
    eapply (post_bind pyf_inv (fun _ => True)).
    { destruct k; try exact IHk. destruct (mem_str id g); [apply post_fail|exact IHk]. }
    intros ? _. repeat first [exact IHv | pp_step].
  - pp_special IH.
  - destruct (tmap_get (py_type_mappings cfg) _); [repeat pp_step|]. destruct p; repeat pp_step.
Qed.

Lemma pp_member gs f : pp (py_member_of uc cfg gs f).
Proof.
  unfold py_member_of. cbv zeta.
  repeat first [apply pp_texp | apply pp_add_common_imports | pp_step].
Qed.

Lemma pp_class rs : forallb py_tv_ok (sgenerics rs) = true -> pp (py_class_of uc cfg rs).
Proof.
  intros Hg. unfold py_class_of, py_populate_by_name.
  eapply (post_bind pyf_inv (fun _ => True)); [apply pp_add_import; reflexivity|intros ? _].
  eapply (post_bind pyf_inv (fun _ => True)); [exact (pp_add_type_vars _ Hg)|intros ? _].
  repeat first [apply pp_mmapM; intros; apply pp_member | pp_step].
Qed.

Lemma pp_inner e vs : forallb py_tv_ok (egenerics e) = true -> pp (py_inner_classes_of uc cfg e vs).
Proof.
  intros Hg. induction vs as [|v r IH]; cbn [py_inner_classes_of]; [apply post_ret; exact I|].
  destruct v as [vsh|t vsh|fs vsh]; try exact IH.
  eapply (post_bind pyf_inv (fun _ => True)).
  - apply pp_class. cbn [anon_struct sgenerics]. now apply c15_anon_generics_plain.
  - intros ? _. eapply (post_bind pyf_inv (fun _ => True)); [exact IH|intros ? _]. apply post_ret. exact I.
Qed.

Lemma pp_variant en tn sh v : pp (py_variant_of uc cfg en tn sh v).
Proof. unfold py_variant_of. cbv zeta. destruct v; repeat first [apply pp_texp | pp_step]. Qed.

Definition py_item_gens (it : ritem) : list str :=
  match it with ItStruct s => sgenerics s | ItEnum e => egenerics (enum_shared e) | ItAlias a => agenerics a | _ => [] end.

Lemma pp_decl it : forallb py_tv_ok (py_item_gens it) = true -> pp (py_decl_of uc cfg it).
Proof.
  intros Hg. destruct it as [rs|e|a|c]; cbn [py_decl_of py_item_gens] in *.
  - eapply (post_bind pyf_inv (fun _ => True)); [exact (pp_class rs Hg)|intros ? _]. apply post_ret. exact I.
  - eapply (post_bind pyf_inv (fun _ => True)); [exact (pp_inner _ _ Hg)|intros ? _].
    destruct e as [sh|tag content sh]; cbn [enum_shared] in *.
    + unfold py_unit_variant_of.
      repeat first [apply pp_mmapM; intros [?|? ?|? ?] | pp_step].
    + eapply (post_bind pyf_inv (fun _ => True)); [|intros ? _; apply post_ret; exact I].
      unfold py_algebraic_of.
      eapply (post_bind pyf_inv (fun _ => True)); [exact (pp_add_type_vars _ Hg)|intros ? _].
      repeat first [apply pp_mmapM; intros; apply pp_variant | pp_step].
  - eapply (post_bind pyf_inv (fun _ => True)); [apply pp_texp|intros ? _].
    eapply (post_bind pyf_inv (fun _ => True)); [exact (pp_add_type_vars _ Hg)|intros ? _]. apply post_ret. exact I.
  - repeat first [apply pp_texp | pp_step].
Qed.

Lemma pp_write_item it : forallb py_tv_ok (py_item_gens it) = true -> pp (py_write_item uc cfg it).
Proof. intros Hg. unfold py_write_item. repeat first [exact (pp_decl it Hg) | pp_step]. Qed.

Lemma py_item_gens_ok it : c15_py_item_ok it = true -> c15_py_item_typevars_ok it = true ->
  forallb py_tv_ok (py_item_gens it) = true.
Proof.
  destruct it as [s|e|a|c]; cbn [c15_py_item_ok c15_py_item_typevars_ok py_item_gens]; intros Hs Ht; try reflexivity;
    c15_split_andb; unfold py_tv_ok; apply pyf_forallb_andb; assumption.
Qed.
End PYState.

(* ================= what is printed from the final state ================= *)
Lemma pyf_typevar_neutral n : py_tv_ok n = true -> NP (n ++ lit " = TypeVar(""" ++ n ++ lit """)").
Proof.
  unfold py_tv_ok. intros H. apply andb_true_iff in H as [Hp Hr].
  apply c15_neutral_app; [now apply c15_neutral_plain|].
  replace (lit " = TypeVar(""" ++ n ++ lit """)") with ((lit " = TypeVar(" ++ [ch_dq] ++ n ++ [ch_dq]) ++ lit ")")
    by (now rewrite <- !app_assoc).
  apply c15_neutral_app; [|vm_compute; reflexivity]. apply py_quoted_neutral; [vm_compute; reflexivity|exact Hr].
Qed.

Lemma pyf_imports_neutral st : pyf_inv st -> NP (py_write_all_imports st).
Proof.
  intros [Hi Ht]. unfold py_write_all_imports. cbv zeta.
  assert (H1 : NP (join py_nl (py_sort (map (fun mi : str * list str =>
                     lit "from " ++ fst mi ++ lit " import " ++ join (lit ", ") (snd mi)) (py_imports st))))).
  { apply c15_neutral_join; [vm_compute; reflexivity|]. apply Proofs.C10_PYFile.py_sort_all. apply Forall_map.
    apply Forall_forall. intros mi Hin. rewrite forallb_forall in Hi. specialize (Hi mi Hin).
    unfold py_imp_ok in Hi. apply andb_true_iff in Hi as [Hm Hids]. apply c15_neutral_plain.
    rewrite !c15_plain_app, Hm, c15_plain_join; [reflexivity|reflexivity|exact Hids]. }
  set (tvs := map (fun name => name ++ lit " = TypeVar(""" ++ name ++ lit """)") (py_type_variables st)).
  assert (Hj : NP (join py_nl tvs)).
  { subst tvs. apply c15_neutral_join; [vm_compute; reflexivity|]. apply Forall_map. apply Forall_forall. intros n Hn.
    rewrite forallb_forall in Ht. exact (pyf_typevar_neutral n (Ht n Hn)). }
  clearbody tvs.
  apply c15_neutral_app; [vm_compute; reflexivity|]. apply c15_neutral_app; [vm_compute; reflexivity|].
  apply c15_neutral_app; [vm_compute; reflexivity|]. apply c15_neutral_app; [exact H1|].
  apply c15_neutral_app; [vm_compute; reflexivity|]. apply c15_neutral_app; [vm_compute; reflexivity|].
  destruct tvs as [|t0 tr0]; [vm_compute; reflexivity|].
  apply c15_neutral_app; [exact Hj|]. vm_compute; reflexivity.
Qed.

Lemma pyf_translations_neutral st : NP (py_write_custom_translations st).
Proof.
  unfold py_write_custom_translations. apply c15_neutral_flat_map. intros t _. unfold py_json_translation_for_type.
  destruct (str_eqb t (lit "bytes")); [vm_compute; reflexivity|].
  destruct (str_eqb t (lit "datetime")); [vm_compute; reflexivity|reflexivity].
Qed.

(* ---- the version docstring ---- *)
Lemma pyf_esc_cons c r : (c =? ch_dq) = false -> c15_esc_py (c :: r) = c :: c15_esc_py r.
Proof. intros H. destruct r as [|c2 [|c3 r3]]; cbn [c15_esc_py]; try reflexivity. now rewrite H. Qed.

Lemma pyf_esc_app p v : forallb (fun c => negb (c =? ch_dq)) p = true -> c15_esc_py (p ++ v) = p ++ c15_esc_py v.
Proof.
  induction p as [|c r IH]; intros H; [reflexivity|]. cbn [forallb] in H. apply andb_true_iff in H as [Hc Hr].
  cbn [app]. rewrite pyf_esc_cons by (now apply negb_true_iff). now rewrite (IH Hr).
Qed.

Lemma pyf_esc_id v : c15_py_version_ok v = true -> c15_esc_py v = v.
Proof.
  unfold c15_py_version_ok. rewrite negb_true_iff. induction v as [|c r IH]; intros H; [reflexivity|].
  cbn [contains_sub] in H. apply orb_false_iff in H as [H1 H2]. specialize (IH H2).
  destruct r as [|c2 [|c3 r3]]; [reflexivity|reflexivity|].
  change (c15_esc_py (c :: c2 :: c3 :: r3))
    with (if (c =? ch_dq) && (c2 =? ch_dq) && (c3 =? ch_dq)
          then [ch_bs; ch_dq; ch_bs; ch_dq; ch_bs; ch_dq] ++ c15_esc_py r3 else c :: c15_esc_py (c2 :: c3 :: r3)).
  assert (E : (c =? ch_dq) && (c2 =? ch_dq) && (c3 =? ch_dq) = false).
  { cbn [starts_with] in H1. rewrite andb_true_r in H1. rewrite <- H1, <- andb_assoc.
    now rewrite (N.eqb_sym c), (N.eqb_sym c2), (N.eqb_sym c3). }
  rewrite E. now rewrite IH.
Qed.

Section PYFile.
Variable uc : unicode.
Hypothesis Huc : unicode_ok uc.
Variable cfg : py_config.
Hypothesis Hmap : c15_mappings_plain C15py (py_type_mappings cfg) = true.
Hypothesis Hver : c15_py_version_ok (py_version cfg) = true.

(* the documented position typeshare adds at the top of the file *)
Definition c15_py_header_sites : list c15_doc_site :=
  if py_no_version_header cfg then [] else [(true, c15_py_header_line (py_version cfg))].

Lemma pyf_header_written : map (c15_site_text C15py) c15_py_header_sites = map snd c15_py_header_sites.
Proof.
  unfold c15_py_header_sites. destruct (py_no_version_header cfg); [reflexivity|].
  cbn [map snd]. unfold c15_site_text, c15_written. cbn [fst snd]. unfold c15_py_header_line.
  now rewrite pyf_esc_app, (pyf_esc_id _ Hver) by reflexivity.
Qed.

Lemma pyf_header_decomp : DP (py_begin_file cfg) c15_py_header_sites.
Proof.
  unfold py_begin_file, c15_py_header_sites. destruct (py_no_version_header cfg); [apply Decomp_nil|].
  eapply Decomp_text; [apply (pyn_comments_decomp true [c15_py_header_line (py_version cfg)] 0)|].
  unfold py_write_comments. cbn [map join py_indent repeat_str app].
  rewrite Proofs.C15_Replace.py_escape_docstring_spec. unfold c15_py_header_line.
  rewrite pyf_esc_app, (pyf_esc_id _ Hver) by reflexivity. now rewrite <- !app_assoc.
Qed.

Lemma pyf_items_decomp items : forall s texts s',
  forallb c15_py_item_ok items = true -> forallb c15_py_item_typevars_ok items = true ->
  mmapM (py_write_item uc cfg) items s = Ok (texts, s') -> pyf_inv s ->
  DP (List.concat texts) (flat_map c15_py_item_sites items) /\ pyf_inv s'.
Proof.
  induction items as [|it r IH]; intros s texts s' Hp Hq H Hs; cbn [mmapM] in H.
  - unfold ret in H. injection H as <- <-. split; [apply Decomp_nil|exact Hs].
  - cbn [forallb] in Hp, Hq. apply andb_true_iff in Hp as [Hp1 Hp2]. apply andb_true_iff in Hq as [Hq1 Hq2].
    apply mbind_ok in H as (t & s1 & Ht & H). apply mbind_ok in H as (ts & s2 & Hts & H).
    unfold ret in H. injection H as <- <-.
    destruct (pp_write_item uc cfg it (py_item_gens_ok it Hp1 Hq1) _ _ _ Ht Hs) as [_ Hs1].
    destruct (IH _ _ _ Hp2 Hq2 Hts Hs1) as [HD Hs2]. split; [|exact Hs2].
    cbn [List.concat flat_map]. apply Decomp_app; [|exact HD].
    exact (pyn_item_decomp uc Huc cfg Hmap _ _ _ _ Hp1 Ht).
Qed.

Lemma pyf_assemble st body sites : pyf_inv st -> DP body sites ->
  DP (py_begin_file cfg ++ py_write_all_imports st ++ py_write_custom_translations st ++ body) (c15_py_header_sites ++ sites).
Proof.
  intros Hs Db. apply Decomp_app; [exact pyf_header_decomp|].
  change sites with ([] ++ [] ++ sites). apply Decomp_app; [apply Decomp_code; now apply pyf_imports_neutral|].
  apply Decomp_app; [apply Decomp_code; apply pyf_translations_neutral|exact Db].
Qed.

Theorem pyf_file_decomp pd text :
  forallb c15_py_item_ok (items_of pd) = true -> forallb c15_py_item_typevars_ok (items_of pd) = true ->
  py_generate uc cfg pd = Ok text ->
  exists items,
    topsort (items_of pd) = Ok items /\ Permutation items (items_of pd) /\
    DP text (c15_py_header_sites ++ flat_map c15_py_item_sites items).
Proof.
  intros Hp Hq H. unfold py_generate in H. apply c15_bind_ok in H as (items & Hitems & H).
  pose proof (Proofs.C10_TSFile.topsort_ok_perm _ _ Hitems) as Hperm.
  rewrite <- (c15_forallb_perm _ _ _ Hperm) in Hp. rewrite <- (c15_forallb_perm _ _ _ Hperm) in Hq.
  destruct (mconcat (py_write_item uc cfg) items py_empty_state) as [[body st]| |] eqn:Em; try discriminate.
  injection H as <-. unfold mconcat in Em. apply mbind_ok in Em as (parts & s1 & Hparts & Em).
  unfold ret in Em. injection Em as <- <-.
  destruct (pyf_items_decomp items _ _ _ Hp Hq Hparts (conj eq_refl eq_refl)) as [Db Hs1].
  exists items. repeat split; auto.
  now apply pyf_assemble.
Qed.

Theorem C15_py_file pd text :
  forallb c15_py_item_ok (items_of pd) = true -> forallb c15_py_item_typevars_ok (items_of pd) = true ->
  py_generate uc cfg pd = Ok text ->
  exists items parts,
    topsort (items_of pd) = Ok items /\ Permutation items (items_of pd) /\
    text = text_of (c15_file_pieces C15py parts) /\
    docs_of (c15_file_pieces C15py parts) =
      map snd c15_py_header_sites ++ map (c15_site_text C15py) (flat_map c15_py_item_sites items) /\
    c15_contained C15py LCode (mark (c15_file_pieces C15py parts)) =
      forallb (c15_site_ok C15py) (flat_map c15_py_item_sites items).
Proof.
  intros Hp Hq H. destruct (pyf_file_decomp _ _ Hp Hq H) as (items & Ht & Hperm & HD).
  destruct (Decomp_contained _ _ _ HD) as (ps & Htext & Hd & Hc).
  exists items, ps. rewrite map_app, pyf_header_written in Hd. rewrite forallb_app in Hc.
  replace (forallb (c15_site_ok C15py) c15_py_header_sites) with true in Hc.
  - repeat split; auto.
  - unfold c15_py_header_sites. destruct (py_no_version_header cfg); [reflexivity|]. symmetry. apply (py_sites_ok_true [_]).
Qed.

(* parsed programs: doc strings free of line breaks *)
Theorem C15_py_file_line_free pd text :
  forallb c15_py_item_ok (items_of pd) = true -> forallb c15_py_item_typevars_ok (items_of pd) = true ->
  Forall (fun d => safe_line eol_lf_cr d = true) (flat_map c15_item_docs (items_of pd)) ->
  py_generate uc cfg pd = Ok text ->
  exists items parts,
    topsort (items_of pd) = Ok items /\ Permutation items (items_of pd) /\
    text = text_of (c15_file_pieces C15py parts) /\
    docs_of (c15_file_pieces C15py parts) =
      map snd c15_py_header_sites ++ map (c15_site_text C15py) (flat_map c15_py_item_sites items) /\
    c15_contained C15py LCode (mark (c15_file_pieces C15py parts)) = true.
Proof.
  intros Hp Hq Hfree H. destruct (C15_py_file _ _ Hp Hq H) as (items & ps & Ht & Hperm & Htext & Hd & Hc).
  exists items, ps. repeat split; auto. rewrite Hc. apply forallb_forall. intros x Hx.
  apply in_flat_map in Hx as (it & Hit & Hx). pose proof (Permutation_in _ Hperm Hit) as Hin.
  assert (Hfr : Forall c15_line_free (c15_item_docs it)).
  { apply Forall_forall. intros d Hd'. rewrite Forall_forall in Hfree. apply Hfree. apply in_flat_map. eauto. }
  pose proof (py_item_sites_ok it Hfr) as Hs. rewrite forallb_forall in Hs. now apply Hs.
Qed.
End PYFile.

(* the statements in the argument order of Props/C15.v *)
Theorem C15_py_file_stmt (uc : unicode) : unicode_ok uc -> forall (cfg : py_config),
  c15_mappings_plain C15py (py_type_mappings cfg) = true ->
  c15_py_version_ok (py_version cfg) = true ->
  forall pd text,
  forallb c15_py_item_ok (items_of pd) = true ->
  forallb c15_py_item_typevars_ok (items_of pd) = true ->
  py_generate uc cfg pd = Ok text ->
  let header := if py_no_version_header cfg then [] else [c15_py_header_line (py_version cfg)] in
  exists items parts,
    topsort (items_of pd) = Ok items /\ Permutation items (items_of pd) /\
    text = text_of (c15_file_pieces C15py parts) /\
    docs_of (c15_file_pieces C15py parts) = header ++ map (c15_site_text C15py) (flat_map c15_py_item_sites items) /\
    c15_contained C15py LCode (mark (c15_file_pieces C15py parts)) =
      forallb (c15_site_ok C15py) (flat_map c15_py_item_sites items).
Proof.
  intros Huc cfg Hm Hv pd text Hp Hq H header.
  destruct (C15_py_file uc Huc cfg Hm Hv pd text Hp Hq H) as (items & ps & Ht & Hperm & Htext & Hd & Hc).
  exists items, ps. repeat split; auto. rewrite Hd. f_equal. unfold c15_py_header_sites, header.
  destruct (py_no_version_header cfg); reflexivity.
Qed.

Theorem C15_py_file_line_free_stmt (uc : unicode) : unicode_ok uc -> forall (cfg : py_config),
  c15_mappings_plain C15py (py_type_mappings cfg) = true ->
  c15_py_version_ok (py_version cfg) = true ->
  forall pd text,
  forallb c15_py_item_ok (items_of pd) = true ->
  forallb c15_py_item_typevars_ok (items_of pd) = true ->
  Forall (fun d => safe_line eol_lf_cr d = true) (flat_map c15_item_docs (items_of pd)) ->
  py_generate uc cfg pd = Ok text ->
  let header := if py_no_version_header cfg then [] else [c15_py_header_line (py_version cfg)] in
  exists items parts,
    topsort (items_of pd) = Ok items /\ Permutation items (items_of pd) /\
    text = text_of (c15_file_pieces C15py parts) /\
    docs_of (c15_file_pieces C15py parts) = header ++ map (c15_site_text C15py) (flat_map c15_py_item_sites items) /\
    c15_contained C15py LCode (mark (c15_file_pieces C15py parts)) = true.
Proof.
  intros Huc cfg Hm Hv pd text Hp Hq Hfree H header.
  destruct (C15_py_file_line_free uc Huc cfg Hm Hv pd text Hp Hq Hfree H) as (items & ps & Ht & Hperm & Htext & Hd & Hc).
  exists items, ps. repeat split; auto. rewrite Hd. f_equal. unfold c15_py_header_sites, header.
  destruct (py_no_version_header cfg); reflexivity.
Qed.

(* non-vacuity for whole files: a version header, a type mapping, a generic struct with a DateTime field (so that the
   import block has several lines, a TypeVar line is printed and the datetime helper functions are defined), the tagged
   enum of C15_py_item_nonvacuous (generic, with a struct variant, hence a helper class), a unit enum, a generic alias
   and a constant *)
Definition c15_pynv_file_cfg : py_config :=
  {| py_type_mappings := [(lit "Url", lit "AnyUrl")]; py_no_version_header := false; py_version := lit "1.13.2" |}.
Definition c15_pynv_unwrap_enum (it : ritem) : list renum := match it with ItEnum e => [e] | _ => [] end.
Definition c15_pynv_unwrap_alias (it : ritem) : list ralias := match it with ItAlias a => [a] | _ => [] end.
Definition c15_pynv_unwrap_const (it : ritem) : list rconst := match it with ItConst c => [c] | _ => [] end.
Definition c15_pynv_pd : parsed :=
  {| p_structs := [ {| sid := c15_ktnv_id "Foo" "Foo"; sgenerics := [lit "T"];
                       sfields := [c15_ktnv_field "when" "when" (RPrim PDateTime) [c15_doc_nasty_line];
                                   c15_ktnv_field "payload" "pay-load" (ROption (RSimple (lit "T"))) [lit "aliased doc"];
                                   c15_ktnv_field "site" "site" (RSimple (lit "Url")) [lit "mapped doc"]];
                       scomments := [lit "a struct doc"]; sdecs := []; sredacted := false |} ];
     p_enums := c15_pynv_unwrap_enum c15_ktnv_enum ++ c15_pynv_unwrap_enum c15_pynv_unit;
     p_aliases := c15_pynv_unwrap_alias c15_pynv_alias; p_consts := c15_pynv_unwrap_const c15_pynv_const;
     p_type_names := [lit "Foo"; lit "E"; lit "Color"; lit "Al"]; p_errors := []; p_imports := [] |}.
Example C15_py_file_nonvacuous :
  c15_mappings_plain C15py (py_type_mappings c15_pynv_file_cfg) = true /\
  c15_py_version_ok (py_version c15_pynv_file_cfg) = true /\
  forallb c15_py_item_ok (items_of c15_pynv_pd) = true /\
  forallb c15_py_item_typevars_ok (items_of c15_pynv_pd) = true /\
  Nat.eqb (List.length (items_of c15_pynv_pd)) 5 = true /\
  match py_generate uc_exec c15_pynv_file_cfg c15_pynv_pd, topsort (items_of c15_pynv_pd) with
  | Ok text, Ok items =>
    good_C15 C15py (map snd (c15_py_header_sites c15_pynv_file_cfg) ++
                    map (c15_site_text C15py) (flat_map c15_py_item_sites items)) text &&
    contains_sub (lit """""""" ++ [ch_nl] ++ lit " Generated by typeshare 1.13.2" ++ [ch_nl] ++ lit """""""") text &&
    contains_sub (lit "from datetime import datetime") text &&
    contains_sub (lit "T = TypeVar(""T"")") text &&
    contains_sub (lit "def parse_rfc3339(date_str: str) -> datetime:") text &&
    contains_sub (lit "Field(alias=""pay-load""") text &&
    contains_sub (lit "class ECInner(BaseModel):") text
  | _, _ => false
  end = true.
Proof. repeat split; vm_compute; reflexivity. Qed.
