(* C10 for Swift, the tag / content key of an algebraic enum (fix 29 of /repo: swift.rs write_enum and write_enum_variants pass
   both keys through swift_keyword_aware_rename before they are printed as the two cases of ContainerCodingKeys and as the member
   accesses `forKey: .key`).

   (1) sw_render_enum_keys_block: the text of EVERY algebraic enum contains the ContainerCodingKeys block [sw_keys_block tag content],
       spelled with the keys after swift_keyword_aware_rename;
   (2) sw_keys_block_gram: for identifier-shaped keys that are not reserved words the back end does not know ([c10_swg_key_ok]:
       a key in SWIFT_KEYWORDS is fine - it is back-ticked), that block tokenises to a line break followed by an enum declaration
       of the grammar of Spec/C10SwGrammar.v (private enum, inheritance clause, one case clause with two cases), at any place;
   (3) the regression pins of the former witness `#[serde(tag = "case", content = "default")] pub enum E { A(u8), B }`: the exact
       text of the model, lexically good, recognised, its keyword judgement true; the text the unrepaired code printed is rejected. *)
From Coq Require Import List Bool Lia ZifyBool ZifyN NArith String.
From TS Require Import Model.Str Model.Outcome Model.Unicode Model.Types Model.Parse Model.Rename Model.Lang.Common Model.Lang.Decl Model.Lang.Swift.
From TS Require Import Spec.C10Spec Spec.C10TsGrammar Spec.C10SwGrammar Proofs.C10_SWGrammarTok Proofs.C10_SWGrammarParse Proofs.C10_SWGrammarDecl
                       Proofs.C10_SWGrammar.
From TS Require Proofs.C10_SWFile Proofs.C10_SWGrammarFile.
Import ListNotations.
Local Open Scope N_scope.
Local Notation length := List.length (only parsing).

(* ------------------------------------------------------------------ (1) the block inside the text of an algebraic enum *)
Definition sw_keys_block (tag content : str) : str :=
  sw_line 1 (lit "private enum ContainerCodingKeys: String, CodingKey {") ++
  sw_line 2 (lit "case " ++ swift_keyword_aware_rename tag ++ lit ", " ++ swift_keyword_aware_rename content) ++
  sw_line 1 (lit "}").

Lemma peel_l (a y mid : str) : (exists pre post, y = pre ++ mid ++ post) -> exists pre post, a ++ y = pre ++ mid ++ post.
Proof. intros (pre & post & ->). exists (a ++ pre), post. now rewrite <- app_assoc. Qed.
Lemma found_block (c k l1 l2 l3 r z : str) : exists pre post, (c ++ k ++ l1 ++ l2 ++ l3 ++ r) ++ z = pre ++ (l1 ++ l2 ++ l3) ++ post.
Proof. exists (c ++ k), (r ++ z). now rewrite <- !app_assoc. Qed.

Lemma sw_render_enum_keys_block e tag content : swe_tagged e = Some (tag, content) ->
  exists pre post, sw_render_enum e = pre ++ sw_keys_block tag content ++ post.
Proof.
  intros H. unfold sw_render_enum. rewrite H. cbv beta iota zeta. unfold sw_keys_block.
  do 12 apply peel_l. apply found_block.
Qed.

(* ------------------------------------------------------------------ (2) the block is a declaration of the grammar *)
(* a key the printed block is well-formed for: an identifier; when it is a reserved word, one of SWIFT_KEYWORDS (then it is
   back-ticked).  Reserved words of the language that SWIFT_KEYWORDS does not list (precedencegroup, the wildcard _) are outside. *)
Definition c10_swg_key_ok (k : str) : bool := c10_swg_name_ok k (sw_is_keyword k).

Definition keytok (k : str) : c10_wtok := nametok k (sw_is_keyword k).

Lemma key_frag k : c10_swg_key_ok k = true -> Frag (swift_keyword_aware_rename k) [keytok k].
Proof. intros H. unfold swift_keyword_aware_rename, keytok. apply name_frag, H. Qed.

Lemma L_keys_head : CFrag (sw_line 1 (lit "private enum ContainerCodingKeys: String, CodingKey {") ++ sw_line 2 (lit "case "))
                          [WNl; kw "private"; kw "enum"; WId (lit "ContainerCodingKeys"); WP 58; WId (lit "String"); WP 44; WId (lit "CodingKey"); WP 123;
                           WNl; kw "case"].
Proof. lit_cfrag. Qed.
Lemma L_keys_end : CFrag (sw_line 1 (lit "}")) [WNl; WP 125]. Proof. lit_cfrag. Qed.

Definition keys_decl_toks (tag content : str) : list c10_wtok :=
  [kw "private"] ++ kw "enum" :: WId (lit "ContainerCodingKeys") :: gparams_toks [] ++ inherit_toks [[WId (lit "String")]; [WId (lit "CodingKey")]] ++
  WP 123 :: ([WNl] ++ (kw "case" :: cases_toks false [[keytok tag]; [keytok content]]) ++ WNl :: ([] ++ [WP 125])).

Theorem sw_keys_block_gram tag content : c10_swg_key_ok tag = true -> c10_swg_key_ok content = true ->
  CFrag (sw_keys_block tag content) (WNl :: keys_decl_toks tag content) /\ forall P, DeclOk P (keys_decl_toks tag content).
Proof.
  intros Ht Hc. split.
  - unfold sw_keys_block. intros b tb Hb.
    change (sw_line 2 (lit "case " ++ ?x)) with (sw_line 2 (lit "case ") ++ x). repeat (rewrite <- !app_assoc; cbn [app]).
    rewrite (app_assoc (sw_line 1 _) (sw_line 2 _)).
    change (WNl :: keys_decl_toks tag content ++ tb) with
      ([WNl; kw "private"; kw "enum"; WId (lit "ContainerCodingKeys"); WP 58; WId (lit "String"); WP 44; WId (lit "CodingKey"); WP 123; WNl; kw "case"] ++
       [keytok tag] ++ [WP 44] ++ [keytok content] ++ [WNl; WP 125] ++ tb).
    apply L_keys_head. apply (key_frag tag Ht); [reflexivity|]. apply L_comma_sp.
    apply (key_frag content Hc); [reflexivity|]. apply L_keys_end, Hb.
  - intros P. unfold keys_decl_toks. apply (decl_enum_ok P true).
    + right; right; reflexivity.
    + reflexivity.
    + constructor.
    + repeat constructor.
    + discriminate.
    + apply B_mem; [apply allnl_one| |apply B_end, allnl_nil].
      apply clause_ok; [|discriminate].
      constructor; [apply C_plain, nametok_name, Ht|]. constructor; [apply C_plain, nametok_name, Hc|constructor].
Qed.

(* the same in terms of the specification alone: the block, followed by a line break, is a file of the grammar with one declaration *)
Theorem sw_keys_block_recognised tag content : c10_swg_key_ok tag = true -> c10_swg_key_ok content = true ->
  c10_sw_recognise (sw_keys_block tag content ++ sw_nl) = Some 1%nat.
Proof.
  intros Ht Hc. destruct (sw_keys_block_gram tag content Ht Hc) as [Hf Hd].
  assert (Hp : Forall Proofs.C10_SWGrammar.DeclText [sw_keys_block tag content ++ sw_nl]).
  { constructor; [|constructor]. exists [WNl], (keys_decl_toks tag content). split; [apply allnl_one|]. split; [|apply Hd].
    change ([WNl] ++ keys_decl_toks tag content ++ [WNl]) with ((WNl :: keys_decl_toks tag content) ++ [WNl]).
    apply cfrag_app; [exact Hf|exact L_nl]. }
  destruct (Proofs.C10_SWGrammarFile.parts_file _ Hp) as (toks & Hfs & Hfile). cbn [List.concat List.length] in *. rewrite app_nil_r in Hfs.
  unfold c10_sw_recognise. rewrite (tk_run _ _ (cfrag_tk _ _ Hfs)). apply file_ok; [exact Hfile|lia].
Qed.

(* the hypothesis is satisfiable, by plain keys and by keywords alike *)
Example sw_keys_block_gram_nonvacuous :
  c10_swg_key_ok (lit "type") = true /\ c10_swg_key_ok (lit "case") = true /\ c10_swg_key_ok (lit "default") = true /\
  c10_swg_key_ok (lit "precedencegroup") = false.
Proof. vm_compute. repeat split. Qed.

(* ------------------------------------------------------------------ (3) the former witness *)
Import Proofs.C10_SWGrammarFile.

Definition k_cfg : sw_config :=
  {| sw_prefix := []; sw_type_mappings := []; sw_default_decorators := []; sw_default_generic_constraints := [];
     sw_codablevoid_constraints := []; sw_no_version_header := true; sw_version := [] |}.
(* #[typeshare] #[serde(tag = "case", content = "default")] pub enum E { A(u8), B } *)
Definition k_prog : parsed :=
  {| p_structs := [];
     p_enums := [EAlgebraic (lit "case") (lit "default")
                   {| eid := w_id "E"; egenerics := []; ecomments := [];
                      evariants := [VTuple (RPrim PU8) {| vid := w_id "A"; vcomments := [] |}; VUnit {| vid := w_id "B"; vcomments := [] |}];
                      edecs := []; erecursive := false; eredacted := false |}];
     p_aliases := []; p_consts := []; p_type_names := []; p_errors := []; p_imports := [] |}.

Definition k_text_with (tag content : string) : str :=
  lit "import Foundation" ++ sw_nl ++ sw_nl ++
  lit "public enum E: Codable {" ++ sw_nl ++
  lit "	case a(UInt8)" ++ sw_nl ++
  lit "	case b" ++ sw_nl ++ sw_nl ++
  lit "	enum CodingKeys: String, CodingKey, Codable {" ++ sw_nl ++
  lit "		case a = ""A""," ++ sw_nl ++
  lit "			b = ""B""" ++ sw_nl ++
  lit "	}" ++ sw_nl ++ sw_nl ++
  lit "	private enum ContainerCodingKeys: String, CodingKey {" ++ sw_nl ++
  lit "		case " ++ lit tag ++ lit ", " ++ lit content ++ sw_nl ++
  lit "	}" ++ sw_nl ++ sw_nl ++
  lit "	public init(from decoder: Decoder) throws {" ++ sw_nl ++
  lit "		let container = try decoder.container(keyedBy: ContainerCodingKeys.self)" ++ sw_nl ++
  lit "		if let type = try? container.decode(CodingKeys.self, forKey: ." ++ lit tag ++ lit ") {" ++ sw_nl ++
  lit "			switch type {" ++ sw_nl ++
  lit "			case .a:" ++ sw_nl ++
  lit "				if let content = try? container.decode(UInt8.self, forKey: ." ++ lit content ++ lit ") {" ++ sw_nl ++
  lit "					self = .a(content)" ++ sw_nl ++
  lit "					return" ++ sw_nl ++
  lit "				}" ++ sw_nl ++
  lit "			case .b:" ++ sw_nl ++
  lit "				self = .b" ++ sw_nl ++
  lit "				return" ++ sw_nl ++
  lit "			}" ++ sw_nl ++
  lit "		}" ++ sw_nl ++
  lit "		throw DecodingError.typeMismatch(E.self, DecodingError.Context(codingPath: decoder.codingPath, debugDescription: ""Wrong type for E""))" ++ sw_nl ++
  lit "	}" ++ sw_nl ++ sw_nl ++
  lit "	public func encode(to encoder: Encoder) throws {" ++ sw_nl ++
  lit "		var container = encoder.container(keyedBy: ContainerCodingKeys.self)" ++ sw_nl ++
  lit "		switch self {" ++ sw_nl ++
  lit "		case .a(let content):" ++ sw_nl ++
  lit "			try container.encode(CodingKeys.a, forKey: ." ++ lit tag ++ lit ")" ++ sw_nl ++
  lit "			try container.encode(content, forKey: ." ++ lit content ++ lit ")" ++ sw_nl ++
  lit "		case .b:" ++ sw_nl ++
  lit "			try container.encode(CodingKeys.b, forKey: ." ++ lit tag ++ lit ")" ++ sw_nl ++
  lit "		}" ++ sw_nl ++
  lit "	}" ++ sw_nl ++
  lit "}" ++ sw_nl.

(* the file of the repaired code, and the file the unrepaired code printed *)
Definition k_text : str := k_text_with "`case`" "`default`".
Definition k_text_before : str := k_text_with "case" "default".

(* regression pin of fix 29: the witness is in the domain and in no finding class; the model prints exactly [k_text]; that text is
   lexically good and a file of the Swift grammar with 2 declarations (the import and the enum); the keyword judgement holds
   of its declarations; the observation still reports the BARE keys (the wire keys: the raw value of a back-ticked case is the
   name without back ticks).  The text of the unrepaired code - the same bytes without the back ticks - is lexically good all
   the same but NOT in the grammar: that is what the check reports on the unrepaired code. *)
Lemma swift_key_keyword_fixed :
  exists fd,
    Proofs.C10_SWFile.c10_sw_cfg_ok k_cfg = true /\ dom_C10 CSW k_prog = true /\ known_C10 CSW [] k_prog = [] /\
    sw_generate uc_exec k_cfg k_prog = Ok k_text /\
    good_C10_lex CSW k_text = true /\ c10_sw_recognise k_text = Some 2%nat /\
    sw_file_decls uc_exec k_cfg k_prog = Ok fd /\ good_C10_kw CSW (fd_decls fd) = true /\
    map d_tag_keys (fd_decls fd) = [[lit "case"; lit "case"; lit "case"; lit "case"]] /\
    map d_content_keys (fd_decls fd) = [[lit "default"; lit "default"; lit "default"]] /\
    contains_sub (sw_keys_block (lit "case") (lit "default")) k_text = true /\
    good_C10_lex CSW k_text_before = true /\ c10_sw_recognise k_text_before = None.
Proof. eexists. repeat (split; [vm_compute; reflexivity|]). vm_compute. reflexivity. Qed.
