(* C09 for Kotlin, part 2: the declarations of one item have the shapes of Proofs/C09Common.v. *)
From Coq Require Import List Bool String Permutation.
From TS Require Import Model.Str Model.Outcome Model.Unicode Model.Types Model.Parse Model.Reconcile Model.TopsortAlgo Model.Topsort
                       Model.Lang.Common Model.Lang.Decl Model.Lang.Kotlin Spec.C09Spec.
From TS Require Import Proofs.C09Common Proofs.C09Recon Proofs.C09Refs Proofs.C09_Kotlin.
Import ListNotations.
Local Notation length := List.length (only parsing).

Section KTI.
Variable cfg : kt_config.
Let pfx := kt_prefix cfg.
Variable acrs : list str.
Variable pd : parsed.
Hypothesis Hdom : dom_C09 Kotlin pfx pd = true.
Hypothesis Hknown : known_C09 Kotlin pfx acrs pd = None.
Let rn := c09_rn pd.
Let pd' := c09_reconciled pd.

Lemma kt_imp : p_imports pd = [].
Proof.
  pose proof Hdom as H. unfold dom_C09 in H. apply andb_true_iff in H as [H _]. apply andb_true_iff in H as [H _]. apply andb_true_iff in H as [H _].
  destruct (p_imports pd); [reflexivity|discriminate].
Qed.

Notation shape := (c09_ref_shape Kotlin pfx pd).
Notation ownercond tp owner :=
  (c9t_generics tp = [] \/ exists j, In j (c09_entities pd) /\ owner = c09_def_name Kotlin pfx j /\ c9e_generics j = c9t_generics tp).

Lemma kt_names_strip m : texp_names (mb_type (kt_obs_member m)) = texp_names (km_type m).
Proof. unfold kt_obs_member. cbn [mb_type]. destruct (km_default m), (km_type m); reflexivity. Qed.

Lemma kt_texp_refs tp gs owner t' x :
  In tp (c09_tposs pd) -> t' = c09_recon_type pd tp -> kt_texp cfg gs t' = Ok x ->
  (forall form i', In (form, i') (c09_type_ids t') -> mem_str i' gs = mem_str i' (c9t_generics tp)) ->
  ownercond tp owner ->
  forall x', texp_names x' = texp_names x ->
  forall r, In r (c09_type_refs Kotlin owner (c9t_pos tp) x') -> shape r.
Proof.
  intros Htp -> Hx Hgs Hown x' Hn'. eapply (c09_type_refs_shape pd Kotlin pfx Hdom tp gs owner x'); try assumption.
  intros n Hn. rewrite Hn' in Hn. exact (kt_texp_names cfg gs _ x Hx n Hn).
Qed.

Lemma kt_member_refs f' gs tp owner rsn vis m :
  kt_member_of cfg f' gs rsn vis = Ok m -> In tp (c09_tposs pd) -> c9t_pos tp = C9Field -> fty f' = c09_recon_type pd tp ->
  (forall form i', In (form, i') (c09_type_ids (fty f')) -> mem_str i' gs = mem_str i' (c9t_generics tp)) ->
  ownercond tp owner ->
  forall r, In r (c09_type_refs Kotlin owner C9Field (mb_type (kt_obs_member m))) -> shape r.
Proof.
  unfold kt_member_of. intros Hm Htp Hpos Hty Hgs Hown r Hr.
  destruct (type_override f' Kotlin) as [o|]; cbn [bind] in Hm.
  - injection Hm as <-. unfold c09_type_refs in Hr. rewrite kt_names_strip in Hr. cbn in Hr. destruct Hr.
  - destruct (kt_texp cfg gs (fty f')) as [ty| |] eqn:E; cbn [bind] in Hm; try discriminate. injection Hm as <-.
    rewrite <- Hpos in Hr. eapply (kt_texp_refs tp gs owner (fty f') ty); try eassumption. apply kt_names_strip.
Qed.

Lemma kt_struct_shape s' owner d :
  kt_struct_decl cfg s' = Ok d -> owner = pfx ++ renamed (sid s') ->
  (forall f', In f' (sfields s') -> exists tp, In tp (c09_tposs pd) /\ c9t_pos tp = C9Field /\ fty f' = c09_recon_type pd tp /\
      (forall form i', In (form, i') (c09_type_ids (fty f')) -> mem_str i' (sgenerics s') = mem_str i' (c9t_generics tp)) /\ ownercond tp owner) ->
  d_name (kt_obs d) = owner /\ c09_is_def (kt_obs d) = true /\ forall r, In r (c09_decl_refs Kotlin (kt_obs d)) -> shape r.
Proof.
  unfold kt_struct_decl. intros Hd -> Hf. destruct (sfields s') as [|f0 fs] eqn:Efs.
  - injection Hd as <-. cbn. repeat split. intros r [].
  - rewrite <- Efs in *.
    match type of Hd with context [mapM ?f ?l] => destruct (mapM f l) as [ms| |] eqn:E end; cbn [bind] in Hd; try discriminate.
    injection Hd as <-. cbn [kt_obs d_name]. repeat split.
    intros r Hr. unfold c09_decl_refs in Hr. cbn [kt_obs d_kind d_name d_members d_variants flat_map] in Hr. rewrite app_nil_r in Hr.
    apply in_flat_map in Hr as (m' & Hm' & Hr). apply in_map_iff in Hm' as (m & <- & Hm).
    apply c09_mapM_Forall2 in E. destruct (c09_Forall2_in_r _ _ _ _ E Hm) as (f' & Hf' & Em).
    destruct (Hf f' Hf') as (tp & Htp & Hpos & Hty & Hgs & Hown).
    eapply kt_member_refs; eassumption.
Qed.

(* the entities *)
Definition kt_ent_struct (s : rstruct) : c09_entity := {| c9e_id := sid s; c9e_suffix := []; c9e_generics := sgenerics s; c9e_kind := C9KStruct |}.
Definition kt_ent_enum (e : renum) : c09_entity :=
  {| c9e_id := eid (enum_shared e); c9e_suffix := []; c9e_generics := egenerics (enum_shared e); c9e_kind := c09_enum_kind e |}.
Definition kt_ent_inner (e : renum) (vsh : vshared) : c09_entity :=
  {| c9e_id := eid (enum_shared e); c9e_suffix := original (vid vsh) ++ lit "Inner"; c9e_generics := egenerics (enum_shared e); c9e_kind := C9KInner |}.
Definition kt_ent_alias (a : ralias) : c09_entity :=
  {| c9e_id := aid a; c9e_suffix := []; c9e_generics := agenerics a; c9e_kind := C9KAlias (c09_alias_inline a) |}.

Lemma kt_in_struct s : In s (p_structs pd) -> In (kt_ent_struct s) (c09_entities pd).
Proof. intros H. unfold c09_entities. apply in_or_app. left. apply in_map_iff. exists s. auto. Qed.
Lemma kt_in_enum e : In e (p_enums pd) -> In (kt_ent_enum e) (c09_entities pd).
Proof. intros H. unfold c09_entities. apply in_or_app. right. apply in_or_app. left. apply in_flat_map. exists e. split; [exact H|left; reflexivity]. Qed.
Lemma kt_in_inner e fs vsh : In e (p_enums pd) -> In (VAnon fs vsh) (evariants (enum_shared e)) -> In (kt_ent_inner e vsh) (c09_entities pd).
Proof.
  intros H Hv. unfold c09_entities. apply in_or_app. right. apply in_or_app. left. apply in_flat_map. exists e. split; [exact H|right].
  apply in_flat_map. exists (VAnon fs vsh). split; [exact Hv|left; reflexivity].
Qed.
Lemma kt_in_alias a : In a (p_aliases pd) -> In (kt_ent_alias a) (c09_entities pd).
Proof. intros H. unfold c09_entities. apply in_or_app. right. apply in_or_app. right. apply in_map_iff. exists a. auto. Qed.

Lemma kt_tp_struct s f : In s (p_structs pd) -> In f (sfields s) ->
  In {| c9t_owner := sid s; c9t_generics := sgenerics s; c9t_pos := C9Field; c9t_type := fty f |} (c09_tposs pd).
Proof. intros Hs Hf. unfold c09_tposs. apply in_or_app. left. apply in_flat_map. exists s. split; [exact Hs|]. apply in_map_iff. exists f. auto. Qed.
Lemma kt_tp_variant e v tp : In e (p_enums pd) -> In v (evariants (enum_shared e)) ->
  In tp (c09_variant_tpos (eid (enum_shared e)) (egenerics (enum_shared e)) v) -> In tp (c09_tposs pd).
Proof.
  intros He Hv Htp. unfold c09_tposs. apply in_or_app. right. apply in_or_app. left. apply in_flat_map. exists e. split; [exact He|].
  apply in_flat_map. exists v. auto.
Qed.
Lemma kt_tp_alias a : In a (p_aliases pd) ->
  In {| c9t_owner := aid a; c9t_generics := agenerics a; c9t_pos := C9Alias; c9t_type := atype a |} (c09_tposs pd).
Proof. intros Ha. unfold c09_tposs. apply in_or_app. right. apply in_or_app. right. apply in_or_app. left. apply in_map_iff. exists a. auto. Qed.

Lemma kt_is_inline_spec a : kt_is_inline (adecs a) = c09_alias_inline a.
Proof.
  unfold kt_is_inline, c09_alias_inline. generalize (adecs a). intros m.
  assert (kt_decmap_get DKKotlin m = c09_decmap_get DKKotlin m) as -> by (induction m as [|[k v] m IH]; cbn; [reflexivity|destruct (deckind_eqb k DKKotlin); auto]).
  reflexivity.
Qed.

(* ---- a struct ---- *)
Lemma kt_item_struct s d : In s (p_structs pd) -> kt_struct_decl cfg (c09_rs rn s) = Ok d ->
  d_name (kt_obs d) = c09_def_name Kotlin pfx (kt_ent_struct s) /\ c09_is_def (kt_obs d) = true /\
  forall r, In r (c09_decl_refs Kotlin (kt_obs d)) -> shape r.
Proof.
  intros Hs Hd.
  assert (c09_def_name Kotlin pfx (kt_ent_struct s) = pfx ++ renamed (sid (c09_rs rn s))) as Hn by (unfold c09_def_name; cbn; rewrite app_nil_r; reflexivity).
  rewrite Hn. eapply kt_struct_shape; [exact Hd|reflexivity|].
  intros f' Hf'. cbn [c09_rs sfields] in Hf'. apply in_map_iff in Hf' as (f & <- & Hf).
  eexists. split; [exact (kt_tp_struct s f Hs Hf)|]. cbn [c9t_pos c9t_generics]. repeat split.
  right. exists (kt_ent_struct s). split; [apply kt_in_struct; exact Hs|]. split; [symmetry; exact Hn|reflexivity].
Qed.

(* ---- an enum ---- *)
Lemma kt_item_inner e fs vsh d : In e (p_enums pd) -> In (VAnon fs vsh) (evariants (enum_shared e)) ->
  kt_struct_decl cfg (anon_struct (enum_shared (c09_re rn e))
                        (renamed (eid (enum_shared e)) ++ original (vid vsh) ++ lit "Inner") (original (vid vsh))
                        (map (check_field [] rn []) fs)) = Ok d ->
  d_name (kt_obs d) = c09_def_name Kotlin pfx (kt_ent_inner e vsh) /\ c09_is_def (kt_obs d) = true /\
  forall r, In r (c09_decl_refs Kotlin (kt_obs d)) -> shape r.
Proof.
  intros He Hv Hd.
  eapply kt_struct_shape; [exact Hd|reflexivity|].
  intros f' Hf'. cbn [anon_struct sfields] in Hf'. apply in_map_iff in Hf' as (f & <- & Hf).
  exists {| c9t_owner := eid (enum_shared e); c9t_generics := egenerics (enum_shared e); c9t_pos := C9Field; c9t_type := fty f |}.
  split; [eapply kt_tp_variant; [exact He|exact Hv|cbn [c09_variant_tpos]; apply in_map_iff; exists f; auto]|].
  cbn [c9t_pos c9t_generics]. repeat split.
  - intros form i' Hi. cbn [anon_struct sgenerics].
    assert (egenerics (enum_shared (c09_re rn e)) = egenerics (enum_shared e)) as -> by (destruct e; reflexivity).
    eapply c09_anon_generics_mem; [apply in_map; exact Hf|exact Hi].
  - right. exists (kt_ent_inner e vsh). split; [eapply kt_in_inner; eassumption|]. split; [|reflexivity].
    unfold c09_def_name. cbn. reflexivity.
Qed.

Lemma kt_sh_recon e : eid (enum_shared (c09_re rn e)) = eid (enum_shared e) /\ egenerics (enum_shared (c09_re rn e)) = egenerics (enum_shared e) /\
  evariants (enum_shared (c09_re rn e)) = map (check_variant [] rn []) (evariants (enum_shared e)).
Proof. destruct e; repeat split. Qed.

Lemma kt_item_enum e ds : In e (p_enums pd) -> kt_enum_decls cfg (c09_re rn e) = Ok ds ->
  (forall d, In d ds -> (exists en, In en (c09_entities pd) /\ d_name (kt_obs d) = c09_def_name Kotlin pfx en) /\ c09_is_def (kt_obs d) = true /\
                        forall r, In r (c09_decl_refs Kotlin (kt_obs d)) -> shape r) /\
  (exists d, In d ds /\ d_name (kt_obs d) = c09_def_name Kotlin pfx (kt_ent_enum e)) /\
  (forall fs vsh, In (VAnon fs vsh) (evariants (enum_shared e)) -> exists d, In d ds /\ d_name (kt_obs d) = c09_def_name Kotlin pfx (kt_ent_inner e vsh)).
Proof.
  intros He Hds. unfold kt_enum_decls in Hds. destruct (kt_sh_recon e) as (Hid & Hgs & Hvs).
  destruct (kt_inner_decls cfg (c09_re rn e)) as [anon| |] eqn:Ea; cbn [bind] in Hds; try discriminate.
  match type of Hds with context [bind ?m _] => destruct m as [d0| |] eqn:Ed end; cbn [bind] in Hds; try discriminate.
  injection Hds as <-.
  (* the helper structs *)
  unfold kt_inner_decls in Ea.
  match type of Ea with context [mapM ?f ?l] => destruct (mapM f l) as [dss| |] eqn:Em end; cbn [bind] in Ea; try discriminate.
  injection Ea as <-. apply c09_mapM_Forall2 in Em. rewrite Hvs in Em.
  assert (Hanon : forall d, In d (List.concat dss) -> exists fs vsh, In (VAnon fs vsh) (evariants (enum_shared e)) /\
             kt_struct_decl cfg (anon_struct (enum_shared (c09_re rn e)) (renamed (eid (enum_shared e)) ++ original (vid vsh) ++ lit "Inner")
                                  (original (vid vsh)) (map (check_field [] rn []) fs)) = Ok d).
  { intros d Hd. apply in_concat in Hd as (l & Hl & Hd). destruct (c09_Forall2_in_r _ _ _ _ Em Hl) as (v' & Hv' & Ev).
    apply in_map_iff in Hv' as (v & <- & Hv). destruct v as [sh|t sh|fs sh]; cbn [check_variant] in Ev.
    - injection Ev as <-. destruct Hd.
    - injection Ev as <-. destruct Hd.
    - rewrite Hid in Ev.
      match type of Ev with context [bind ?m _] => destruct m as [d1| |] eqn:E1 end; cbn [bind] in Ev; try discriminate.
      injection Ev as <-. destruct Hd as [<-|[]]. exists fs, sh. split; [exact Hv|exact E1]. }
  assert (Hanon' : forall fs vsh, In (VAnon fs vsh) (evariants (enum_shared e)) -> exists d, In d (List.concat dss) /\
             kt_struct_decl cfg (anon_struct (enum_shared (c09_re rn e)) (renamed (eid (enum_shared e)) ++ original (vid vsh) ++ lit "Inner")
                                  (original (vid vsh)) (map (check_field [] rn []) fs)) = Ok d).
  { intros fs vsh Hv. assert (In (check_variant [] rn [] (VAnon fs vsh)) (map (check_variant [] rn []) (evariants (enum_shared e)))) as Hv' by (apply in_map; exact Hv).
    destruct (c09_Forall2_in_l _ _ _ _ Em Hv') as (l & Hl & Ev). cbn [check_variant] in Ev. rewrite Hid in Ev.
    match type of Ev with context [bind ?m _] => destruct m as [d1| |] eqn:E1 end; cbn [bind] in Ev; try discriminate.
    injection Ev as <-. exists d1. split; [|first [exact E1|reflexivity]]. apply in_concat. exists (d1 :: nil). split; [exact Hl|left; reflexivity]. }
  (* the enum itself *)
  assert (Hself : d_name (kt_obs d0) = c09_def_name Kotlin pfx (kt_ent_enum e) /\ c09_is_def (kt_obs d0) = true /\
                  forall r, In r (c09_decl_refs Kotlin (kt_obs d0)) -> shape r).
  { assert (Hname : c09_def_name Kotlin pfx (kt_ent_enum e) = pfx ++ renamed (eid (enum_shared e))) by (unfold c09_def_name; destruct e; cbn; rewrite app_nil_r; reflexivity).
    rewrite Hname. destruct e as [sh|tag content sh]; cbn [c09_re enum_shared] in *.
    - match type of Ed with context [mapM ?f ?l] => destruct (mapM f l) as [es| |] eqn:Ee end; cbn [bind] in Ed; try discriminate.
      injection Ed as <-. cbn [kt_obs d_name]. repeat split.
      intros r Hr. unfold c09_decl_refs in Hr. cbn [kt_obs d_kind d_name d_members d_variants flat_map app] in Hr.
      apply in_flat_map in Hr as (v & Hv & Hr). apply in_map_iff in Hv as (en & <- & _). cbn in Hr. destruct Hr.
    - match type of Ed with context [mapM ?f ?l] => destruct (mapM f l) as [vs| |] eqn:Ee end; cbn [bind] in Ed; try discriminate.
      injection Ed as <-. cbn [kt_obs d_name]. repeat split.
      intros r Hr. unfold c09_decl_refs in Hr. cbn [kt_obs d_kind d_name d_members d_variants flat_map app] in Hr.
      apply in_flat_map in Hr as (vd & Hvd & Hr). apply in_map_iff in Hvd as (kv & <- & Hkv).
      apply c09_mapM_Forall2 in Ee. cbn [check_eshared evariants] in Ee.
      destruct (c09_Forall2_in_r _ _ _ _ Ee Hkv) as (v' & Hv' & Ev). apply in_map_iff in Hv' as (v & <- & Hv).
      set (j := kt_ent_enum (EAlgebraic tag content sh)).
      assert (Hj : In j (c09_entities pd)) by (apply kt_in_enum; exact He).
      unfold kt_variant_of in Ev. cbn [check_eshared eid egenerics] in Ev.
      match type of Ev with context [bind ?m _] => destruct m as [pl| |] eqn:Ep end; cbn [bind] in Ev; try discriminate.
      injection Ev as <-. cbn [kt_obs_variant vd_parent vd_payload kv_parent kv_payload] in Hr.
      apply in_app_iff in Hr as [Hr|Hr].
      + destruct Hr as [<-|[]].
        eapply C9S_parent with (j := j) (w := C9Orig); cbn [c9_in c9_pos c9_name]; try assumption; try reflexivity.
        * unfold j. rewrite Hname. reflexivity.
        * cbn. rewrite app_nil_r. reflexivity.
      + destruct v as [vsh|t vsh|fs vsh]; cbn [check_variant] in Ep.
        * injection Ep as <-. destruct Hr.
        * match type of Ep with context [bind ?m _] => destruct m as [ty| |] eqn:Et end; cbn [bind] in Ep; try discriminate.
          injection Ep as <-.
          set (tp := {| c9t_owner := eid sh; c9t_generics := egenerics sh; c9t_pos := C9Payload; c9t_type := t |}).
          eapply (kt_texp_refs tp (egenerics sh) _ _ ty); [| |exact Et| | |reflexivity|exact Hr].
          -- eapply (kt_tp_variant (EAlgebraic tag content sh) (VTuple t vsh)); [exact He|exact Hv|left; reflexivity].
          -- reflexivity.
          -- reflexivity.
          -- right. exists j. split; [exact Hj|]. split; [unfold j; rewrite Hname; reflexivity|reflexivity].
        * injection Ep as <-. destruct Hr as [<-|Hr].
          -- eapply C9S_inner with (i := kt_ent_inner (EAlgebraic tag content sh) vsh); cbn [c9_in c9_pos c9_name]; try reflexivity.
             eapply kt_in_inner; [exact He|exact Hv].
          -- apply in_map_iff in Hr as (g & <- & Hg).
             eapply C9S_generic with (j := j); cbn [c9_in c9_pos c9_name]; try assumption; try discriminate.
             ++ unfold j. rewrite Hname. reflexivity.
             ++ unfold anon_struct_generics in Hg. apply c09_unique_strs_in in Hg as [Hg _]. apply in_flat_map in Hg as (f0 & _ & Hg).
                apply filter_In in Hg as [Hg _]. exact Hg. }
  split; [|split].
  - intros d Hd. apply in_app_iff in Hd as [Hd|[<-|[]]].
    + destruct (Hanon d Hd) as (fs & vsh & Hv & Es). destruct (kt_item_inner e fs vsh d He Hv Es) as (A & B & C).
      split; [exists (kt_ent_inner e vsh); split; [eapply kt_in_inner; eassumption|exact A]|]. split; assumption.
    + destruct Hself as (A & B & C). split; [exists (kt_ent_enum e); split; [apply kt_in_enum; exact He|exact A]|]. split; assumption.
  - exists d0. split; [apply in_or_app; right; left; reflexivity|apply Hself].
  - intros fs vsh Hv. destruct (Hanon' fs vsh Hv) as (d & Hd & Es). exists d. split; [apply in_or_app; left; exact Hd|].
    apply (kt_item_inner e fs vsh d He Hv Es).
Qed.
End KTI.
