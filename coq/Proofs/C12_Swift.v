(* C12, Swift: whenever a declaration spells CodableVoid (the translation of () at any depth, in a
   stored property, an init parameter, a case payload, a helper struct of a struct variant or an
   alias), should_emit_codable_void is set when the file ends, so end_file (single file) or
   post_generation (Codable.swift, multi-file) writes its definition.
   Shape: the formatter sets the flag exactly where it prints the name (induction on the type), the
   flag is never cleared (the state only moves upwards), and it is read after all formatting. *)
From Coq Require Import List Bool Permutation.
From TS Require Import Model.Str Model.Outcome Model.Unicode Model.Types Model.Parse Model.TopsortAlgo Model.Topsort
                       Model.Lang.Common Model.Lang.Decl Model.Lang.Swift Spec.C12Spec.
From TS Require Import Proofs.BackCommon Proofs.C12Common.
Import ListNotations.

Definition c12_sle (s s' : sw_state) : Prop := s = true -> s' = true.
Lemma c12_sle_refl s : c12_sle s s. Proof. unfold c12_sle; auto. Qed.
Lemma c12_sle_trans a b c : c12_sle a b -> c12_sle b c -> c12_sle a c. Proof. unfold c12_sle; auto. Qed.

Section SW.
Variable uc : unicode.
Variable cfg : sw_config.

Let CV := sw_CODABLE_VOID.
Definition c12_sw_id_ok (id : str) : Prop := ~ In id c12_sw_vocab /\ ~ In (sw_prefix cfg ++ id) c12_sw_vocab.

(* a translated type that spells CodableVoid leaves the flag set *)
Definition c12_sw_Qt (x : texp) (s : sw_state) : Prop := In CV (texp_names x) -> s = true.
Lemma c12_sw_Qt_up x s s' : c12_sw_Qt x s -> c12_sle s s' -> c12_sw_Qt x s'.
Proof. unfold c12_sw_Qt, c12_sle. auto. Qed.

Lemma c12_sw_simple_names base gs args :
  c12_sw_id_ok base ->
  In CV (texp_names (sw_simple_texp cfg base gs args)) -> In CV (flat_map texp_names args).
Proof.
  intros [H1 H2]. unfold sw_simple_texp. destruct (tmap_get (sw_type_mappings cfg) base); cbn [texp_names]; [intros []|].
  intros [E|H]; [|exact H]. exfalso.
  destruct (mem_str base gs); [apply H1|apply H2]; rewrite E; left; reflexivity.
Qed.

Lemma c12_sw_texp_flag gs t :
  Forall c12_sw_id_ok (c12_rtype_ids t) ->
  forall s x s', sw_texp cfg gs t s = Ok (x, s') -> c12_sle s s' /\ c12_sw_Qt x s'.
Proof.
  induction t as [id|id ps IH|t IH|t n IH|t IH|k v IHk IHv|t IH|p] using rtype_ind'; intros Hid s x s' H; cbn [sw_texp] in H.
  - unfold ret in H. injection H as <- <-. split; [apply c12_sle_refl|].
    intros Hin. apply c12_sw_simple_names in Hin; [destruct Hin|]. now inversion Hid.
  - cbn [c12_rtype_ids] in Hid. apply Forall_cons_iff in Hid as [Hid0 Hids].
    destruct (tmap_get (sw_type_mappings cfg) id).
    + unfold ret in H. injection H as <- <-. split; [apply c12_sle_refl|intros []].
    + rewrite c12_go_is_mmapM in H. apply mbind_ok in H as (xs & s1 & Exs & H).
      unfold ret in H. injection H as <- <-.
      apply (c12_mmapM_mono c12_sle c12_sle_refl c12_sle_trans _ c12_sw_Qt) in Exs as [L Q].
      * split; [exact L|]. intros Hin. apply c12_sw_simple_names in Hin; [|exact Hid0].
        apply in_flat_map in Hin as (y & Hy & Hin). rewrite Forall_forall in Q. exact (Q y Hy Hin).
      * exact c12_sw_Qt_up.
      * rewrite Forall_forall in IH |- *. intros t Ht s0 y s0' E. apply (IH t Ht); [|exact E].
        rewrite Forall_forall in Hids |- *. intros i Hi. apply Hids. apply in_flat_map. eauto.
  - apply mbind_ok in H as (e & s1 & Ee & H). unfold ret in H. injection H as <- <-. exact (IH Hid _ _ _ Ee).
  - apply mbind_ok in H as (e & s1 & Ee & H). unfold ret in H. injection H as <- <-. exact (IH Hid _ _ _ Ee).
  - apply mbind_ok in H as (e & s1 & Ee & H). unfold ret in H. injection H as <- <-. exact (IH Hid _ _ _ Ee).
  - cbn [c12_rtype_ids] in Hid. apply Forall_app in Hid as [Hk Hv].
    apply mbind_ok in H as (ke & s1 & Ek & H). apply mbind_ok in H as (ve & s2 & Ev & H).
    unfold ret in H. injection H as <- <-.
    destruct (IHk Hk _ _ _ Ek) as [L1 Q1]. destruct (IHv Hv _ _ _ Ev) as [L2 Q2].
    split; [eapply c12_sle_trans; eauto|].
    unfold c12_sw_Qt. cbn [texp_names]. rewrite in_app_iff. intros [Hin|Hin]; [apply L2, Q1, Hin|apply Q2, Hin].
  - apply mbind_ok in H as (e & s1 & Ee & H). unfold ret in H. injection H as <- <-. exact (IH Hid _ _ _ Ee).
  - destruct p; try (unfold ret in H; injection H as <- <-; split; [apply c12_sle_refl|];
                     unfold c12_sw_Qt; cbn [texp_names flat_map app]; intros [E|[]]; discriminate E).
    + discriminate H.
    + apply mbind_ok in H as (u & s1 & Eu & H). unfold mput in Eu. injection Eu as _ <-.
      unfold ret in H. injection H as <- <-. split; [intros _; reflexivity|intros _; reflexivity].
Qed.

(* a field: its override is verbatim text, else its translated type *)
Lemma c12_sw_field_flag gs f :
  Forall c12_sw_id_ok (c12_rtype_ids (fty f)) ->
  forall s x s', sw_field_texp cfg gs f s = Ok (x, s') -> c12_sle s s' /\ c12_sw_Qt x s'.
Proof.
  intros Hid s x s' H. unfold sw_field_texp in H. destruct (type_override f Swift).
  - unfold ret in H. injection H as <- <-. split; [apply c12_sle_refl|intros []].
  - eapply c12_sw_texp_flag; eauto.
Qed.

Definition c12_sw_Qs (d : sw_struct) (s : sw_state) : Prop := c12_sw_struct_uses d <> [] -> s = true.

Lemma c12_sw_vnames_Qt x s : c12_sw_Qt x s -> c12_vnames c12_sw_vocab x <> [] -> s = true.
Proof.
  intros Q Hne. destruct (c12_vnames c12_sw_vocab x) as [|u r] eqn:E; [congruence|].
  assert (Hu : In u (c12_vnames c12_sw_vocab x)) by (rewrite E; now left).
  apply c12_vnames_In in Hu as [Hn Hv]. destruct Hv as [<-|[]]. exact (Q Hn).
Qed.

Lemma c12_flat_map_nonempty {A B} (f : A -> list B) l : flat_map f l <> [] -> exists x, In x l /\ f x <> [].
Proof.
  induction l as [|a l IH]; cbn [flat_map]; [congruence|].
  destruct (f a) eqn:E.
  - cbn [app]. intros H. destruct (IH H) as (x & Hx & Hf). exists x. split; [now right|exact Hf].
  - intros _. exists a. split; [now left|congruence].
Qed.

Lemma c12_sw_struct_flag rs :
  Forall (fun f => Forall c12_sw_id_ok (c12_rtype_ids (fty f))) (sfields rs) ->
  forall s d s', sw_struct_of uc cfg rs s = Ok (d, s') -> c12_sle s s' /\ c12_sw_Qs d s'.
Proof.
  intros Hid s d s' H. unfold sw_struct_of in H.
  apply mbind_ok in H as (tys & s1 & E1 & H). apply mbind_ok in H as (itys & s2 & E2 & H).
  unfold ret in H. injection H as <- <-.
  assert (HF : Forall (fun f => forall s y s', sw_field_texp cfg (sgenerics rs) f s = Ok (y, s') -> c12_sle s s' /\ c12_sw_Qt y s') (sfields rs)).
  { eapply Forall_impl; [|exact Hid]. cbn. intros f Hf. apply c12_sw_field_flag. exact Hf. }
  apply (c12_mmapM_mono c12_sle c12_sle_refl c12_sle_trans _ c12_sw_Qt _ c12_sw_Qt_up HF) in E1 as [L1 Q1].
  apply (c12_mmapM_mono c12_sle c12_sle_refl c12_sle_trans _ c12_sw_Qt _ c12_sw_Qt_up HF) in E2 as [L2 Q2].
  split; [eapply c12_sle_trans; eauto|].
  unfold c12_sw_Qs, c12_sw_struct_uses. cbn [sws_members]. intros Hne.
  apply c12_flat_map_nonempty in Hne as (m & Hm & Hne).
  apply in_map_iff in Hm as ((f & ty & ity) & <- & Hc). cbn [fst snd] in Hne.
  apply in_combine_r in Hc. assert (Hty := in_combine_l _ _ _ _ Hc). assert (Hity := in_combine_r _ _ _ _ Hc).
  unfold c12_sw_member_uses in Hne. cbn [sw_member_of swm_type swm_init_type] in Hne.
  rewrite Forall_forall in Q1, Q2.
  destruct (c12_vnames c12_sw_vocab ty) eqn:Ety.
  - cbn [app] in Hne. eapply c12_sw_vnames_Qt; [apply Q2; exact Hity|exact Hne].
  - apply L2. eapply c12_sw_vnames_Qt; [apply Q1; exact Hty|congruence].
Qed.

Lemma c12_sw_lift_state {A} (o : outcome A) s a s' : sw_lift o s = Ok (a, s') -> s' = s.
Proof. unfold sw_lift. destruct o; try discriminate. intros [= _ <-]. reflexivity. Qed.

Lemma c12_sw_inner_flag sh vs :
  Forall (fun v => Forall (fun t => Forall c12_sw_id_ok (c12_rtype_ids t)) (c12_variant_types v)) vs ->
  forall s ds s', sw_inner_structs_of uc cfg sh vs s = Ok (ds, s') ->
    c12_sle s s' /\ Forall (fun d => c12_sw_Qs d s') ds.
Proof.
  induction 1 as [|v vs Hv Hvs IH]; intros s ds s' H; cbn [sw_inner_structs_of] in H.
  - unfold ret in H. injection H as <- <-. split; [apply c12_sle_refl|constructor].
  - destruct v as [vsh|t vsh|fs vsh]; try (exact (IH _ _ _ H)).
    apply mbind_ok in H as (d & s1 & Ed & H). apply mbind_ok in H as (ds' & s2 & Eds & H).
    unfold ret in H. injection H as <- <-.
    apply c12_sw_struct_flag in Ed as [L1 Q1].
    + destruct (IH _ _ _ Eds) as [L2 Q2]. split; [eapply c12_sle_trans; eauto|].
      constructor; [|exact Q2]. intros Hne. apply L2, Q1, Hne.
    + cbn [anon_struct sfields]. cbn [c12_variant_types] in Hv. rewrite Forall_map in Hv. exact Hv.
Qed.

Definition c12_sw_Qv (v : sw_variant) (s : sw_state) : Prop := c12_sw_variant_uses v <> [] -> s = true.

Lemma c12_sw_variant_flag sh v :
  Forall (fun t => Forall c12_sw_id_ok (c12_rtype_ids t)) (c12_variant_types v) ->
  forall s d s', sw_variant_of uc cfg sh v s = Ok (d, s') -> c12_sle s s' /\ c12_sw_Qv d s'.
Proof.
  intros Hid s d s' H. unfold sw_variant_of in H.
  apply mbind_ok in H as (camel & s1 & Ec & H). apply c12_sw_lift_state in Ec as ->.
  apply mbind_ok in H as (payload & s2 & Ep & H). unfold ret in H. injection H as <- <-.
  unfold c12_sw_Qv, c12_sw_variant_uses. cbn [swv_payload].
  destruct v as [vsh|t vsh|fs vsh].
  - unfold ret in Ep. injection Ep as <- <-. split; [apply c12_sle_refl|congruence].
  - apply mbind_ok in Ep as (ct & s3 & Et & Ep). unfold ret in Ep. injection Ep as <- <-.
    cbn [c12_variant_types] in Hid. apply Forall_cons_iff in Hid as [Ht _].
    destruct (c12_sw_texp_flag _ _ Ht _ _ _ Et) as [L Q]. split; [exact L|].
    intros Hne. eapply c12_sw_vnames_Qt; eauto.
  - unfold ret in Ep. injection Ep as <- <-. split; [apply c12_sle_refl|congruence].
Qed.

Lemma c12_sw_unit_variant_flag v s d s' :
  sw_unit_variant_of uc v s = Ok (d, s') -> c12_sle s s' /\ c12_sw_Qv d s'.
Proof.
  unfold sw_unit_variant_of. intros H. apply mbind_ok in H as (n & s1 & En & H).
  apply c12_sw_lift_state in En as ->. unfold ret in H. injection H as <- <-.
  split; [apply c12_sle_refl|]. unfold c12_sw_Qv, c12_sw_variant_uses. cbn [swv_payload]. congruence.
Qed.

Lemma c12_sw_Qv_up d s s' : c12_sw_Qv d s -> c12_sle s s' -> c12_sw_Qv d s'.
Proof. unfold c12_sw_Qv, c12_sle. auto. Qed.

Definition c12_sw_item_ok (it : ritem) : Prop := Forall (fun t => Forall c12_sw_id_ok (c12_rtype_ids t)) (c12_item_types it).
Definition c12_sw_Qd (d : sw_decl) (s : sw_state) : Prop := c12_sw_decl_uses d <> [] -> s = true.
Lemma c12_sw_Qd_up d s s' : c12_sw_Qd d s -> c12_sle s s' -> c12_sw_Qd d s'.
Proof. unfold c12_sw_Qd, c12_sle. auto. Qed.

Lemma c12_variant_types_Forall (P : rtype -> Prop) vs :
  Forall P (flat_map c12_variant_types vs) -> Forall (fun v => Forall P (c12_variant_types v)) vs.
Proof.
  induction vs as [|v vs IH]; cbn [flat_map]; [constructor|].
  intros H. apply Forall_app in H as [H1 H2]. constructor; auto.
Qed.

(* one item: whatever state it starts from, the flag only goes up, and it is up when the item's
   declaration spells CodableVoid *)
Lemma c12_sw_decl_flag it :
  c12_sw_item_ok it ->
  forall s d s', sw_decl_of uc cfg it s = Ok (d, s') -> c12_sle s s' /\ c12_sw_Qd d s'.
Proof.
  intros Hid s d s' H. destruct it as [rs|e|a|c]; cbn [sw_decl_of] in H.
  - apply mbind_ok in H as (d0 & s1 & E & H). unfold ret in H. injection H as <- <-.
    apply c12_sw_struct_flag in E; [exact E|]. unfold c12_sw_item_ok in Hid. cbn [c12_item_types] in Hid.
    rewrite Forall_map in Hid. exact Hid.
  - apply mbind_ok in H as (d0 & s1 & E & H). unfold ret in H. injection H as <- <-.
    unfold sw_enum_of in E. apply mbind_ok in E as (inner & s2 & Ei & E). apply mbind_ok in E as (vs & s3 & Ev & E).
    unfold ret in E. injection E as <- <-.
    unfold c12_sw_item_ok in Hid. cbn [c12_item_types] in Hid. apply c12_variant_types_Forall in Hid.
    apply c12_sw_inner_flag in Ei as [L1 Q1]; [|exact Hid].
    assert (LV : c12_sle s2 s3 /\ Forall (fun v => c12_sw_Qv v s3) vs).
    { destruct e as [sh|tag content sh]; cbn [enum_shared] in *.
      - eapply (c12_mmapM_mono c12_sle c12_sle_refl c12_sle_trans _ c12_sw_Qv); [exact c12_sw_Qv_up| |exact Ev].
        apply Forall_forall. intros v _ s0 y s0' E0. exact (c12_sw_unit_variant_flag _ _ _ _ E0).
      - eapply (c12_mmapM_mono c12_sle c12_sle_refl c12_sle_trans _ c12_sw_Qv); [exact c12_sw_Qv_up| |exact Ev].
        eapply Forall_impl; [|exact Hid]. cbn. intros v Hv s0 y s0' E0. exact (c12_sw_variant_flag _ _ Hv _ _ _ E0). }
    destruct LV as [L2 Q2]. split; [eapply c12_sle_trans; eauto|].
    unfold c12_sw_Qd. cbn [c12_sw_decl_uses swe_inner swe_variants]. intros Hne.
    destruct (flat_map c12_sw_struct_uses inner) eqn:Ein.
    + cbn [app] in Hne. apply c12_flat_map_nonempty in Hne as (v & Hv & Hne).
      rewrite Forall_forall in Q2. exact (Q2 v Hv Hne).
    + apply L2. assert (Hne' : flat_map c12_sw_struct_uses inner <> []) by congruence.
      apply c12_flat_map_nonempty in Hne' as (d & Hd & Hne').
      rewrite Forall_forall in Q1. exact (Q1 d Hd Hne').
  - apply mbind_ok in H as (t & s1 & E & H). unfold ret in H. injection H as <- <-.
    unfold c12_sw_item_ok in Hid. cbn [c12_item_types] in Hid. apply Forall_cons_iff in Hid as [Ht _].
    destruct (c12_sw_texp_flag _ _ Ht _ _ _ E) as [L Q]. split; [exact L|].
    unfold c12_sw_Qd. cbn [c12_sw_decl_uses]. intros Hne. eapply c12_sw_vnames_Qt; eauto.
  - discriminate H.
Qed.

(* a sequence of items (one file, or the files of a multi-file run one after the other: the flag is
   never reset), from any initial state *)
Theorem c12_sw_items_flag items :
  Forall c12_sw_item_ok items ->
  forall s ds s', mmapM (sw_decl_of uc cfg) items s = Ok (ds, s') ->
    c12_sle s s' /\ (c12_sw_uses ds <> [] -> s' = true).
Proof.
  intros Hid s ds s' H.
  apply (c12_mmapM_mono c12_sle c12_sle_refl c12_sle_trans _ c12_sw_Qd _ c12_sw_Qd_up) in H as [L Q].
  - split; [exact L|]. intros Hne. apply c12_flat_map_nonempty in Hne as (d & Hd & Hne).
    rewrite Forall_forall in Q. exact (Q d Hd Hne).
  - eapply Forall_impl; [|exact Hid]. cbn. intros it Hit. apply c12_sw_decl_flag. exact Hit.
Qed.

Lemma c12_sw_dom_items items : c12_sw_dom cfg items = true -> Forall c12_sw_item_ok items.
Proof.
  intros H. apply Forall_forall. intros it Hit.
  destruct (c12_ids_avoid_spec _ _ _ H it Hit) as [Hids _].
  unfold c12_sw_item_ok. apply Forall_forall. intros t Ht. apply Forall_forall. intros id Hid.
  apply Hids. unfold c12_item_ids. apply in_flat_map. eauto.
Qed.

Lemma c12_sw_uses_only_cv ds u : In u (c12_sw_uses ds) -> u = CV.
Proof.
  assert (V : forall x, In u (c12_vnames c12_sw_vocab x) -> u = CV).
  { intros x Hx. apply c12_vnames_In in Hx as [_ [<-|[]]]. reflexivity. }
  assert (S : forall d, In u (c12_sw_struct_uses d) -> u = CV).
  { intros d Hd. unfold c12_sw_struct_uses in Hd. apply in_flat_map in Hd as (m & _ & Hm).
    unfold c12_sw_member_uses in Hm. apply in_app_iff in Hm as [Hm|Hm]; eauto. }
  unfold c12_sw_uses. intros H. apply in_flat_map in H as (d & _ & Hd).
  destruct d as [st|? ? ? ? ty|e|?]; cbn [c12_sw_decl_uses] in Hd.
  - eauto.
  - eauto.
  - apply in_app_iff in Hd as [Hd|Hd].
    + apply in_flat_map in Hd as (d' & _ & Hd'). eauto.
    + apply in_flat_map in Hd as (v & _ & Hv). unfold c12_sw_variant_uses in Hv.
      destruct (swv_payload v); try contradiction. eauto.
  - contradiction.
Qed.

(* single file: the declarations of the file, end_file's trailing declarations included, define
   every helper name they use *)
Theorem c12_sw_file pd ds st :
  sw_decls uc cfg pd = Ok (ds, st) -> c12_sw_dom cfg (items_of pd) = true ->
  c12_good (c12_sw_uses (ds ++ sw_trailing_decls cfg st)) (c12_sw_defs (ds ++ sw_trailing_decls cfg st)) = true.
Proof.
  unfold sw_decls. intros H Hdom. apply c12_bind_ok in H as (items & Et & H).
  apply c12_topsort_perm in Et. apply (c12_ids_avoid_perm _ _ _ _ Et) in Hdom.
  apply c12_sw_dom_items in Hdom. destruct (c12_sw_items_flag _ Hdom _ _ _ H) as [_ Q].
  apply c12_good_spec. intros u Hu.
  unfold c12_sw_uses in Hu. rewrite flat_map_app in Hu. apply in_app_iff in Hu as [Hu|Hu].
  - assert (E := c12_sw_uses_only_cv _ _ Hu). subst u.
    assert (Hst : st = true). { apply Q. intros E. unfold c12_sw_uses in E. rewrite E in Hu. destruct Hu. }
    subst st. unfold c12_sw_defs. rewrite flat_map_app. apply in_app_iff. right.
    cbn. left. reflexivity.
  - exfalso. unfold sw_trailing_decls in Hu. destruct st; cbn in Hu; exact Hu.
Qed.
End SW.
