(* C13: the LIFO stack walk of target_os_check.rs yields, up to order, exactly the OS names the
   structural rule speaks about, for cfg predicates of any depth and arity; hence
   accept_target_os = the documented rule. *)
From Coq Require Import Lia Permutation.
From TS Require Import Model.Str Model.Syntax Model.Attrs Model.TargetOs Spec.TargetOsRule.

Definition names_stack (st : list (bool * meta)) : list (bool * str) :=
  flat_map (fun p => os_names (fst p) (snd p)) st.

Lemma ssize_app a b : ssize (a ++ b) = (ssize a + ssize b)%nat.
Proof. unfold ssize. induction a as [|x a IH]; simpl; lia. Qed.
Lemma names_stack_app a b : names_stack (a ++ b) = names_stack a ++ names_stack b.
Proof. unfold names_stack. now rewrite flat_map_app. Qed.
Lemma ssize_map sc args :
  ssize (map (fun a => (sc, a)) args) = fold_right (fun a acc => (msize a + acc)%nat) 0%nat args.
Proof. unfold ssize. induction args as [|x r IH]; simpl; auto. Qed.
Lemma names_stack_map sc args : names_stack (map (fun a => (sc, a)) args) = flat_map (os_names sc) args.
Proof. unfold names_stack. induction args as [|x r IH]; simpl; auto. now rewrite IH. Qed.
Lemma msize_pos m : (1 <= msize m)%nat.
Proof. destruct m as [p|p [args|] d|p v]; simpl; lia. Qed.

Definition stack_parsable (st : list (bool * meta)) : bool := forallb (fun p => meta_parsable (snd p)) st.
Lemma stack_parsable_app a b : stack_parsable (a ++ b) = stack_parsable a && stack_parsable b.
Proof. unfold stack_parsable. apply forallb_app. Qed.
Lemma stack_parsable_map sc args : stack_parsable (map (fun a => (sc, a)) args) = forallb meta_parsable args.
Proof. unfold stack_parsable. induction args as [|x r IH]; simpl; auto. now rewrite IH. Qed.

Lemma scope_flip sc m : (if path_is_ident (meta_path m) NOT then true else sc) = sc || is_not m.
Proof. unfold is_not, NOT. destruct (path_is_ident (meta_path m) (lit "not")); destruct sc; reflexivity. Qed.

Theorem walk_spec : forall fuel st, (ssize st < fuel)%nat -> stack_parsable st = true ->
  exists r, walk fuel st = Some r /\ Permutation r (names_stack st).
Proof.
  induction fuel as [|f IH]; intros st H HP; [lia|].
  cbn [walk]. destruct (rev st) as [|[sc m] rr] eqn:E.
  - exists []. split; auto. apply (f_equal (@rev _)) in E. rewrite rev_involutive in E. subst. constructor.
  - assert (Est : st = rev rr ++ [(sc,m)]).
    { apply (f_equal (@rev _)) in E. rewrite rev_involutive in E. now subst. }
    rewrite Est in H, HP |- *. rewrite ssize_app in H. cbn [ssize fold_right snd] in H.
    rewrite stack_parsable_app in HP. apply andb_true_iff in HP as [HP1 HP2].
    cbn [stack_parsable forallb snd] in HP2. rewrite andb_true_r in HP2.
    rewrite names_stack_app. cbn [names_stack flat_map fst snd]. rewrite app_nil_r.
    rewrite scope_flip.
    destruct m as [nm|nm [args|] d|nm v].
    + destruct (IH (rev rr)) as (r & Er & Pr); [simpl in H; lia|assumption|].
      exists r. split; auto. cbn [os_names]. now rewrite app_nil_r.
    + destruct (IH (rev rr ++ map (fun a => (sc || is_not (MList nm (Some args) d), a)) args)) as (r & Er & Pr).
      { rewrite ssize_app, ssize_map. cbn [msize] in H. lia. }
      { rewrite stack_parsable_app, stack_parsable_map, HP1. cbn [meta_parsable] in HP2. now rewrite HP2. }
      exists r. split; auto. rewrite names_stack_app, names_stack_map in Pr. exact Pr.
    + discriminate.
    + cbn [os_names]. pose proof (msize_pos (MNV nm v)) as Hm.
      destruct (IH (rev rr)) as (r & Er & Pr); [lia|assumption|].
      change (lit "target_os") with TARGET_OS.
      destruct (path_is_ident nm TARGET_OS); [destruct v as [s|]|].
      * rewrite Er. exists ((sc || is_not (MNV nm (VStr s)), s) :: r). split; auto.
        apply Permutation_cons_app. now rewrite app_nil_r.
      * exists r. split; auto. now rewrite app_nil_r.
      * exists r. split; auto. now rewrite app_nil_r.
Qed.

Lemma iter_spec m : meta_parsable m = true ->
  exists r, target_os_iter m = Some r /\ Permutation r (os_names false m).
Proof.
  intros HP. unfold target_os_iter.
  destruct (walk_spec (S (msize m)) [(false, m)]) as (r & E & P).
  - cbn. lia.
  - cbn. now rewrite HP.
  - exists r. split; auto. cbn in P. now rewrite app_nil_r in P.
Qed.

Lemma collect_spec ms : forallb meta_parsable ms = true ->
  exists r, collect_yields ms = Some r /\ Permutation r (flat_map (os_names false) ms).
Proof.
  induction ms as [|m ms IH]; intros HP; cbn [collect_yields flat_map].
  - exists []. split; auto.
  - cbn [forallb] in HP. apply andb_true_iff in HP as [H1 H2].
    destruct (iter_spec m H1) as (a & Ea & Pa). destruct (IH H2) as (b & Eb & Pb).
    rewrite Ea, Eb. exists (a ++ b). split; auto. now apply Permutation_app.
Qed.

(* decide depends on the yields only as a multiset *)
Lemma Permutation_filter {A} (f : A -> bool) l l' : Permutation l l' -> Permutation (filter f l) (filter f l').
Proof.
  induction 1 as [|x l l' _ IH|x y l|l l' l'' _ IH1 _ IH2]; cbn [filter].
  - constructor.
  - destruct (f x); [now constructor|assumption].
  - destruct (f x), (f y); try reflexivity; try constructor; reflexivity.
  - now transitivity (filter f l').
Qed.

Lemma mem_str_In x l : mem_str x l = true <-> In x l.
Proof.
  unfold mem_str. rewrite existsb_exists. split.
  - intros (y & Hy & E). apply str_eqb_eq in E. now subst.
  - intros H. exists x. split; [assumption|apply str_eqb_refl].
Qed.

Lemma existsb_swap T l : existsb (fun t => mem_str t l) T = existsb (fun o => mem_str o T) l.
Proof.
  apply eq_true_iff_eq. rewrite !existsb_exists. split.
  - intros (t & Ht & E). apply mem_str_In in E. exists t. split; [assumption|now apply mem_str_In].
  - intros (o & Ho & E). apply mem_str_In in E. exists o. split; [assumption|now apply mem_str_In].
Qed.

Lemma existsb_perm {A} (f : A -> bool) l l' : Permutation l l' -> existsb f l = existsb f l'.
Proof.
  intros P. apply eq_true_iff_eq. rewrite !existsb_exists.
  split; intros (x & Hx & E); exists x; split; auto.
  - eapply Permutation_in; eassumption.
  - eapply Permutation_in; [apply Permutation_sym|]; eassumption.
Qed.

Definition decide_spec (y : list (bool * str)) (T : list str) : bool :=
  negb (existsb (fun o => mem_str o T) (map snd (filter (fun p => fst p) y))) &&
  match map snd (filter (fun p => negb (fst p)) y) with
  | [] => true
  | outside => existsb (fun o => mem_str o T) outside
  end.

Lemma decide_is_spec y T : decide y T = decide_spec y T.
Proof.
  unfold decide, decide_spec. rewrite existsb_swap. f_equal.
  destruct (map snd (filter (fun p => negb (fst p)) y)) eqn:E; [reflexivity|]. apply existsb_swap.
Qed.

Lemma decide_spec_perm y y' T : Permutation y y' -> decide_spec y T = decide_spec y' T.
Proof.
  intros P. unfold decide_spec.
  pose proof (Permutation_map snd (Permutation_filter (fun p => fst p) _ _ P)) as P1.
  pose proof (Permutation_map snd (Permutation_filter (fun p => negb (fst p)) _ _ P)) as P2.
  rewrite (existsb_perm _ _ _ P1). f_equal.
  destruct (map snd (filter (fun p => negb (fst p)) y)) as [|a l] eqn:E1;
  destruct (map snd (filter (fun p => negb (fst p)) y')) as [|a' l'] eqn:E2; auto.
  - apply Permutation_nil in P2. discriminate.
  - apply Permutation_sym, Permutation_nil in P2. discriminate.
  - now apply existsb_perm.
Qed.

Theorem accept_is_rule attrs T : cfg_parsable attrs = true ->
  accept_target_os attrs T = Some (os_rule attrs T).
Proof.
  intros HP. unfold accept_target_os, os_rule. destruct T as [|t T]; [reflexivity|].
  destruct (collect_spec (cfg_metas attrs) HP) as (r & E & P).
  rewrite E. cbn [option_map]. f_equal.
  rewrite decide_is_spec, (decide_spec_perm _ _ _ P). reflexivity.
Qed.

Theorem no_target_list attrs : accept_target_os attrs [] = Some true.
Proof. reflexivity. Qed.

(* items that name no OS at all are always kept, whatever else their cfg predicates say *)
Theorem no_os_named attrs T : cfg_parsable attrs = true -> attrs_os_names attrs = [] ->
  accept_target_os attrs T = Some true.
Proof.
  intros HP HN. rewrite accept_is_rule by assumption. f_equal.
  unfold os_rule, named_under_not, named_outside_not. rewrite HN. destruct T; reflexivity.
Qed.

(* the iterator always terminates within its fuel, parsable or not *)
Theorem walk_terminates : forall fuel st, (ssize st < fuel)%nat -> exists r, walk fuel st = Some r.
Proof.
  induction fuel as [|f IH]; intros st H; [lia|].
  cbn [walk]. destruct (rev st) as [|[sc m] rr] eqn:E; [eauto|].
  assert (Est : st = rev rr ++ [(sc,m)]).
  { apply (f_equal (@rev _)) in E. rewrite rev_involutive in E. now subst. }
  rewrite Est in H. rewrite ssize_app in H. cbn [ssize fold_right snd] in H.
  pose proof (msize_pos m) as Hm.
  destruct m as [nm|nm [args|] d|nm v].
  - apply IH. lia.
  - apply IH. rewrite ssize_app, ssize_map. cbn [msize] in H. lia.
  - eauto.
  - destruct (IH (rev rr)) as (r & Er); [lia|]. rewrite Er.
    destruct (path_is_ident nm TARGET_OS); [destruct v|]; cbn; eauto.
Qed.

Theorem accept_total attrs T : exists b, accept_target_os attrs T = Some b.
Proof.
  unfold accept_target_os. destruct T as [|t T]; [eauto|].
  assert (H : exists r, collect_yields (cfg_metas attrs) = Some r).
  { induction (cfg_metas attrs) as [|m ms IH]; cbn [collect_yields]; [eauto|].
    destruct (walk_terminates (S (msize m)) [(false, m)]) as (a & Ea); [cbn; lia|].
    unfold target_os_iter. rewrite Ea. destruct IH as (b & Eb). rewrite Eb. eauto. }
  destruct H as (r & E). rewrite E. cbn. eauto.
Qed.

(* ---- non-vacuity: the documentation's own example and a nested one ---- *)
Definition mk_cfg (m : meta) : attr := {| a_inner := false; a_meta := MList [lit "cfg"] (Some [m]) None |}.
Definition os (s : string) : meta := MNV [lit "target_os"] (VStr (lit s)).
Definition mlist (n : string) (l : list meta) : meta := MList [lit n] (Some l) None.

Example C13_nonvacuous :
  let a := [mk_cfg (mlist "any" [os "android"; mlist "not" [mlist "all" [os "ios"; MPath [lit "unix"]]]])] in
  cfg_parsable a = true /\
  accept_target_os a [lit "android"] = Some true /\
  accept_target_os a [lit "ios"] = Some false /\
  accept_target_os a [lit "linux"] = Some false /\
  accept_target_os a [lit "ios"; lit "android"] = Some false.
Proof. vm_compute. repeat split. Qed.
