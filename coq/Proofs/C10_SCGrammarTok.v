(* C10, grammar half for Scala, part 1: the TOKENIZER of Spec/C10ScGrammar.v.
     - [Tk s ts]: "s tokenises to ts with every sufficient fuel" (fuel-free view), [tokens_tk], [tk_run];
     - [tk_frame]: the FRAME lemma - the raw tokens of a text do not depend on what follows it as soon as the junction is a
       token boundary ([glue]: the follower does not start with an identifier / number character, a star or a slash, or the
       text ends with a character that is none of these; and a line comment of the text, if any, is closed by its line end);
     - [Frag] / [CFrag]: open / closed fragments, composition, fragments of LITERAL text by computation, the holes:
       identifiers, quoted strings without escapes, line comments, blanks. *)
From Coq Require Import List Bool Lia ZifyBool ZifyN NArith.
From TS Require Import Model.Str Spec.C10TsGrammar Spec.C10ScGrammar.
From TS Require Proofs.C10_TSGrammarTok.
Import ListNotations.
Local Open Scope N_scope.
Local Notation length := List.length (only parsing).

Definition otl (o : option c10_utok) : list c10_utok := match o with Some t => [t] | None => [] end.

Lemma tokens_unfold f s : c10_sc_tokens (S f) s =
  match s with
  | [] => Some []
  | _ => match c10_sc_next s with
         | None => None
         | Some (ot, r) => match c10_sc_tokens f r with Some ts => Some (otl ot ++ ts) | None => None end
         end
  end.
Proof.
  destruct s as [|c r]; [reflexivity|]. cbn [c10_sc_tokens]. destruct (c10_sc_next (c :: r)) as [[[t|] r']|]; try reflexivity;
    destruct (c10_sc_tokens f r'); reflexivity.
Qed.

(* ------------------------------------------------------------------ the scanners: what they consume *)
Lemma skip_block_frame s : forall d seen sn r, c10_sc_skip_block d seen s = Some (sn, r) ->
  (exists p, s = p ++ r) /\ forall b, c10_sc_skip_block d seen (s ++ b) = Some (sn, r ++ b).
Proof.
  assert (G : forall n s, (List.length s <= n)%nat -> forall d seen sn r, c10_sc_skip_block d seen s = Some (sn, r) ->
              (exists p, s = p ++ r) /\ forall b, c10_sc_skip_block d seen (s ++ b) = Some (sn, r ++ b)).
  { clear s. induction n as [|n IH]; intros s Hn d seen sn r H; (destruct s as [|c s]; [discriminate|]); [cbn in Hn; lia|].
    destruct s as [|e s']; [discriminate|]. cbn [List.length] in Hn. cbn [c10_sc_skip_block] in H.
    change ((c :: e :: s') ++ ?b) with (c :: e :: s' ++ b). cbn [c10_sc_skip_block].
    destruct ((c =? 42) && (e =? 47)).
    { destruct d as [|k].
      - injection H as <- <-. split; [exists [c; e]; reflexivity|reflexivity].
      - destruct (IH s' ltac:(lia) _ _ _ _ H) as [[p Hp] Hb]. split; [exists (c :: e :: p); rewrite Hp; reflexivity|exact Hb]. }
    destruct ((c =? 47) && (e =? 42)).
    { destruct (IH s' ltac:(lia) _ _ _ _ H) as [[p Hp] Hb]. split; [exists (c :: e :: p); rewrite Hp; reflexivity|exact Hb]. }
    destruct (IH (e :: s') ltac:(cbn [List.length]; lia) _ _ _ _ H) as [[p Hp] Hb]. split; [exists (c :: p); rewrite Hp; reflexivity|exact Hb]. }
  exact (G (List.length s) s (le_n _)).
Qed.

Lemma skip_string_frame s : forall st r, c10_sc_skip_string st s = Some r ->
  (exists p, s = p ++ r) /\ forall b, c10_sc_skip_string st (s ++ b) = Some (r ++ b).
Proof.
  induction s as [|c s IH]; intros st r H; [discriminate|]. cbn [c10_sc_skip_string] in H. cbn [app c10_sc_skip_string].
  assert (Fin : forall st', c10_sc_skip_string st' s = Some r ->
            (exists p, c :: s = p ++ r) /\ forall b, c10_sc_skip_string st' (s ++ b) = Some (r ++ b)).
  { intros st' H'. destruct (IH _ _ H') as [[p Hp] Hb]. split; [exists (c :: p); rewrite Hp; reflexivity|exact Hb]. }
  destruct st as [| | |n].
  - destruct (c =? ch_dq); [injection H as <-; split; [exists [c]; reflexivity|reflexivity]|].
    destruct (c =? ch_bs); [exact (Fin _ H)|]. destruct (c =? ch_nl); [discriminate|exact (Fin _ H)].
  - destruct ((c =? 98) || (c =? 116) || (c =? 110) || (c =? 102) || (c =? 114) || (c =? ch_dq) || (c =? ch_sq) || (c =? ch_bs)); [exact (Fin _ H)|].
    destruct (c =? 117); [exact (Fin _ H)|discriminate].
  - destruct (c =? 117); [exact (Fin _ H)|]. destruct (c10_sc_hex c); [exact (Fin _ H)|discriminate].
  - destruct (c10_sc_hex c); [exact (Fin _ H)|discriminate].
Qed.

Lemma skip_bq_frame s : forall seen r, c10_sc_skip_bq seen s = Some r ->
  (exists p, s = p ++ r) /\ forall b, c10_sc_skip_bq seen (s ++ b) = Some (r ++ b).
Proof.
  induction s as [|c s IH]; intros seen r H; [discriminate|]. cbn [c10_sc_skip_bq] in H. cbn [app c10_sc_skip_bq].
  destruct (c =? 96).
  - destruct seen; [|discriminate]. injection H as <-. split; [exists [c]; reflexivity|reflexivity].
  - destruct (c =? ch_nl); [discriminate|]. destruct (IH _ _ H) as [[p Hp] Hb]. split; [exists (c :: p); rewrite Hp; reflexivity|exact Hb].
Qed.

Definition notnl (x : char) : bool := negb (x =? ch_nl).

(* one step consumes a non-empty prefix *)
Lemma next_suffix s ot r : c10_sc_next s = Some (ot, r) -> exists p, p <> [] /\ s = p ++ r.
Proof.
  destruct s as [|c s]; [discriminate|]. cbn [c10_sc_next].
  destruct (c10_sc_blank c); [intros H; injection H as <- <-; exists [c]; split; [discriminate|reflexivity]|].
  destruct (c =? ch_nl); [intros H; injection H as <- <-; exists [c]; split; [discriminate|reflexivity]|].
  destruct ((c =? 47) && match s with d :: _ => d =? 47 | [] => false end).
  { destruct (c10_take_while (fun x => negb (x =? ch_nl)) s) as [x y] eqn:E. intros H. injection H as <- <-.
    destruct (C10_TSGrammarTok.take_while_spec _ _ _ _ E) as (H1 & _ & _). exists (c :: x). split; [discriminate|]. rewrite H1. reflexivity. }
  destruct ((c =? 47) && match s with d :: _ => d =? 42 | [] => false end) eqn:Ec.
  { destruct (c10_sc_skip_block 0 false (tl s)) as [[sn r']|] eqn:E; [|discriminate]. intros H. injection H as <- <-.
    destruct (proj1 (skip_block_frame _ _ _ _ _ E)) as [p Hp]. destruct s as [|d s']; [rewrite andb_false_r in Ec; discriminate|].
    cbn [tl] in Hp. exists (c :: d :: p). split; [discriminate|]. rewrite Hp. reflexivity. }
  destruct (c =? ch_dq).
  { destruct (c10_sc_skip_string USNorm s) as [r'|] eqn:E; [|discriminate]. intros H. injection H as <- <-.
    destruct (proj1 (skip_string_frame _ _ _ E)) as [p Hp]. exists (c :: p). split; [discriminate|]. rewrite Hp. reflexivity. }
  destruct (c =? 96).
  { destruct (c10_sc_skip_bq false s) as [r'|] eqn:E; [|discriminate]. intros H. injection H as <- <-.
    destruct (proj1 (skip_bq_frame _ _ _ E)) as [p Hp]. exists (c :: p). split; [discriminate|]. rewrite Hp. reflexivity. }
  destruct (c10_sc_letter c) eqn:Ei.
  { destruct (c10_take_while c10_sc_id_char (c :: s)) as [a b] eqn:E. intros H. injection H as <- <-.
    destruct (C10_TSGrammarTok.take_while_spec _ _ _ _ E) as (H1 & _ & _). exists a. split; [|exact H1].
    cbn [c10_take_while] in E. unfold c10_sc_id_char at 1 in E. rewrite Ei in E. cbn [orb] in E.
    destruct (c10_take_while c10_sc_id_char s). injection E as <- _. discriminate. }
  destruct (is_adigit c) eqn:Ed.
  { destruct (c10_take_while c10_sc_num_char (c :: s)) as [a b] eqn:E. intros H. injection H as <- <-.
    destruct (C10_TSGrammarTok.take_while_spec _ _ _ _ E) as (H1 & _ & _). exists a. split; [|exact H1].
    cbn [c10_take_while] in E. unfold c10_sc_num_char at 1, c10_sc_id_char at 1 in E. rewrite Ed in E. rewrite orb_true_r in E. cbn [orb] in E.
    destruct (c10_take_while c10_sc_num_char s). injection E as <- _. discriminate. }
  intros H. injection H as <- <-. exists [c]. split; [discriminate|reflexivity].
Qed.

Lemma next_shorter s ot r : c10_sc_next s = Some (ot, r) -> (List.length r < List.length s)%nat.
Proof. intros H. destruct (next_suffix _ _ _ H) as (p & Hp & ->). apply C10_TSGrammarTok.app_len_lt, Hp. Qed.

(* ------------------------------------------------------------------ the fuel-free view *)
Definition Tk (s : str) (ts : list c10_utok) : Prop := forall f, (List.length s < f)%nat -> c10_sc_tokens f s = Some ts.

Lemma tk_nil : Tk [] [].
Proof. intros f Hf. destruct f; [cbn in Hf; lia|reflexivity]. Qed.

Lemma tk_step s ot r ts : c10_sc_next s = Some (ot, r) -> Tk r ts -> Tk s (otl ot ++ ts).
Proof.
  intros H Hr f Hf. destruct f as [|f]; [lia|]. rewrite tokens_unfold. destruct s as [|c s]; [discriminate|].
  rewrite H, (Hr f); [reflexivity|]. pose proof (next_shorter _ _ _ H). lia.
Qed.

Lemma tokens_tk f : forall s ts, c10_sc_tokens f s = Some ts -> Tk s ts.
Proof.
  induction f as [|f IH]; intros s ts H; [discriminate|]. rewrite tokens_unfold in H.
  destruct s as [|c s]; [injection H as <-; apply tk_nil|].
  destruct (c10_sc_next (c :: s)) as [[ot r]|] eqn:E; [|discriminate].
  destruct (c10_sc_tokens f r) as [ts'|] eqn:E2; [|discriminate]. injection H as <-.
  exact (tk_step _ _ _ _ E (IH _ _ E2)).
Qed.

Lemma tk_run s ts : Tk s ts -> c10_sc_tokens (S (List.length s)) s = Some ts.
Proof. intros H. apply H. lia. Qed.

(* ------------------------------------------------------------------ the frame lemma *)
(* the follower cannot extend an identifier / a number, nor turn a final slash into a comment opener *)
Definition sepb (b : str) : bool := match b with [] => true | c :: _ => negb (c10_sc_num_char c) && negb (c =? 42) && negb (c =? 47) end.
(* a character that ends a token whatever follows *)
Definition closedc (c : char) : bool := negb (c10_sc_num_char c) && negb (c =? 47).
(* no line comment, or the text ends with a line end (which closes it) *)
Definition nss2 (a : str) : bool := negb (contains_sub [47; 47] a).
Definition glue (a b : str) : bool := (sepb b || closedc (last a 32)) && (nss2 a || (last a 32 =? ch_nl)).

Lemma contains_sub_suffix x p r : contains_sub x r = true -> contains_sub x (p ++ r) = true.
Proof.
  intros H. induction p as [|c p IH]; [exact H|]. cbn [app].
  change (contains_sub x (c :: p ++ r)) with (starts_with x (c :: p ++ r) || contains_sub x (p ++ r)). rewrite IH. apply orb_true_r.
Qed.
Lemma nss2_suffix p r : nss2 (p ++ r) = true -> nss2 r = true.
Proof.
  unfold nss2. rewrite !negb_true_iff. intros H. destruct (contains_sub [47; 47] r) eqn:E; [|reflexivity].
  rewrite (contains_sub_suffix _ p r E) in H. discriminate.
Qed.

Lemma id_num_char c : c10_sc_id_char c = true -> c10_sc_num_char c = true.
Proof. unfold c10_sc_num_char. intros ->. reflexivity. Qed.

Lemma next_frame a b ot r : c10_sc_next a = Some (ot, r) -> glue a b = true -> c10_sc_next (a ++ b) = Some (ot, r ++ b).
Proof.
  destruct a as [|c s]; [discriminate|]. intros H G. apply andb_true_iff in G as [G G2]. cbn [c10_sc_next app] in *.
  destruct (c10_sc_blank c); [injection H as <- <-; reflexivity|].
  destruct (c =? ch_nl); [injection H as <- <-; reflexivity|].
  assert (Ec : forall x, (x =? 42) || (x =? 47) = true ->
               ((c =? 47) && match s ++ b with d :: _ => d =? x | [] => false end) =
               ((c =? 47) && match s with d :: _ => d =? x | [] => false end)).
  { intros x Hx. destruct s as [|d s']; [|reflexivity]. cbn [app]. rewrite andb_false_r.
    cbn [last] in G. destruct b as [|d b]; [apply andb_false_r|].
    unfold sepb, closedc in G. destruct (c =? 47) eqn:E47; [|reflexivity]. destruct (d =? x) eqn:Edx; [|reflexivity].
    exfalso. rewrite !andb_false_r in G. rewrite orb_false_r in G. rewrite !andb_true_iff, !negb_true_iff in G. lia. }
  rewrite (Ec 47 ltac:(reflexivity)), (Ec 42 ltac:(reflexivity)).
  destruct ((c =? 47) && match s with d :: _ => d =? 47 | [] => false end) eqn:Ec1.
  { destruct (c10_take_while (fun x => negb (x =? ch_nl)) s) as [x y] eqn:E. injection H as <- <-.
    destruct (C10_TSGrammarTok.take_while_spec _ _ _ _ E) as (H1 & H2 & H3).
    destruct s as [|d s']; [rewrite andb_false_r in Ec1; discriminate|]. apply andb_true_iff in Ec1 as [Ea Eb].
    assert (Hnl : last (c :: d :: s') 32 = ch_nl).
    { apply orb_true_iff in G2 as [G2|G2]; [|lia]. unfold nss2 in G2. cbn [contains_sub starts_with] in G2.
      replace (47 =? c) with true in G2 by lia. replace (47 =? d) with true in G2 by lia. discriminate. }
    assert (Hy : y <> []).
    { intros ->. rewrite app_nil_r in H1. rewrite H1 in Hnl.
      assert (Hl : notnl (last (c :: x) 32) = true).
      { apply (C10_TSGrammarTok.forallb_last notnl (c :: x) 32); [discriminate|]. cbn [forallb]. apply andb_true_iff. split; [unfold notnl, ch_nl; lia|exact H2]. }
      unfold notnl in Hl. rewrite Hnl in Hl. discriminate. }
    rewrite H1, <- app_assoc. rewrite C10_TSGrammarTok.take_while_app; [reflexivity|exact H2|].
    destruct y as [|e y]; [congruence|exact H3]. }
  destruct ((c =? 47) && match s with d :: _ => d =? 42 | [] => false end) eqn:Ec2.
  { destruct s as [|d s']; [rewrite andb_false_r in Ec2; discriminate|]. cbn [tl app] in *.
    destruct (c10_sc_skip_block 0 false s') as [[sn r']|] eqn:E; [|discriminate]. injection H as <- <-.
    rewrite (proj2 (skip_block_frame _ _ _ _ _ E) b). reflexivity. }
  destruct (c =? ch_dq).
  { destruct (c10_sc_skip_string USNorm s) as [r'|] eqn:E; [|discriminate]. injection H as <- <-.
    rewrite (proj2 (skip_string_frame _ _ _ E) b). reflexivity. }
  destruct (c =? 96).
  { destruct (c10_sc_skip_bq false s) as [r'|] eqn:E; [|discriminate]. injection H as <- <-.
    rewrite (proj2 (skip_bq_frame _ _ _ E) b). reflexivity. }
  assert (Gen : forall p, (forall x, p x = true -> c10_sc_num_char x = true) -> p c = true ->
                forall x y, c10_take_while p (c :: s) = (x, y) -> c10_take_while p (c :: s ++ b) = (x, y ++ b)).
  { intros p Hp Hc x y E. destruct (C10_TSGrammarTok.take_while_spec _ _ _ _ E) as (H1 & H2 & H3).
    change (c :: s ++ b) with ((c :: s) ++ b). rewrite H1, <- app_assoc. apply C10_TSGrammarTok.take_while_app; [exact H2|].
    destruct y as [|d y]; [|exact H3]. cbn [app]. destruct b as [|d b]; [exact I|].
    rewrite app_nil_r in H1. apply orb_true_iff in G as [G | G].
    - unfold sepb in G. rewrite !andb_true_iff in G. destruct G as [[G _] _]. apply negb_true_iff in G.
      destruct (p d) eqn:Epd; [|reflexivity]. rewrite (Hp d Epd) in G. discriminate.
    - exfalso. unfold closedc in G. apply andb_true_iff in G as [G _]. apply negb_true_iff in G.
      rewrite H1 in G. rewrite (Hp _ (C10_TSGrammarTok.forallb_last p x 32 ltac:(rewrite <- H1; discriminate) H2)) in G. discriminate. }
  destruct (c10_sc_letter c) eqn:Ei.
  { destruct (c10_take_while c10_sc_id_char (c :: s)) as [x y] eqn:E. injection H as <- <-.
    rewrite (Gen c10_sc_id_char id_num_char ltac:(unfold c10_sc_id_char; rewrite Ei; reflexivity) x y E). reflexivity. }
  destruct (is_adigit c) eqn:Ed.
  { destruct (c10_take_while c10_sc_num_char (c :: s)) as [x y] eqn:E. injection H as <- <-.
    rewrite (Gen c10_sc_num_char (fun x H => H) ltac:(unfold c10_sc_num_char, c10_sc_id_char; rewrite Ed; rewrite orb_true_r; reflexivity) x y E). reflexivity. }
  injection H as <- <-. reflexivity.
Qed.

Lemma tk_frame f : forall a ta, c10_sc_tokens f a = Some ta ->
  forall b tb, a = [] \/ glue a b = true -> Tk b tb -> Tk (a ++ b) (ta ++ tb).
Proof.
  induction f as [|f IH]; intros a ta H b tb G Hb; [discriminate|]. rewrite tokens_unfold in H.
  destruct a as [|c s]; [injection H as <-; exact Hb|]. destruct G as [G|G]; [discriminate|].
  destruct (c10_sc_next (c :: s)) as [[ot r]|] eqn:E; [|discriminate].
  destruct (c10_sc_tokens f r) as [ts'|] eqn:E2; [|discriminate]. injection H as <-.
  rewrite <- app_assoc. apply (tk_step _ ot (r ++ b)); [exact (next_frame _ _ _ _ E G)|].
  apply IH; [exact E2| |exact Hb]. destruct r as [|d r]; [left; reflexivity|right].
  destruct (next_suffix _ _ _ E) as (p & _ & Hp). unfold glue in *. rewrite Hp in G.
  rewrite C10_TSGrammarTok.last_app_ne in G by discriminate. apply andb_true_iff in G as [G1 G2]. rewrite G1. cbn [andb].
  apply orb_true_iff in G2 as [G2|G2]; [rewrite (nss2_suffix _ _ G2); reflexivity|rewrite G2; apply orb_true_r].
Qed.

(* ------------------------------------------------------------------ fragments *)
Definition Frag (a : str) (ta : list c10_utok) : Prop := forall b tb, sepb b = true -> Tk b tb -> Tk (a ++ b) (ta ++ tb).
Definition CFrag (a : str) (ta : list c10_utok) : Prop := forall b tb, Tk b tb -> Tk (a ++ b) (ta ++ tb).
Definition ssep (b : str) : bool := match b with c :: _ => negb (c10_sc_num_char c) && negb (c =? 42) && negb (c =? 47) | [] => false end.

Lemma ssep_app b c : ssep b = true -> sepb (b ++ c) = true.
Proof. destruct b; [discriminate|]. intros H. exact H. Qed.

Lemma frag_of_tk a ta : Tk a ta -> nss2 a = true -> Frag a ta.
Proof.
  intros H Hn b tb Hs Hb. apply (tk_frame _ _ _ (tk_run _ _ H)); [|exact Hb]. right. unfold glue. rewrite Hs, Hn. reflexivity.
Qed.
Lemma frag_compute a ta : c10_sc_tokens (S (List.length a)) a = Some ta -> nss2 a = true -> Frag a ta.
Proof. intros H. apply frag_of_tk. exact (tokens_tk _ _ _ H). Qed.
Lemma cfrag_compute a ta : c10_sc_tokens (S (List.length a)) a = Some ta -> closedc (last a 32) = true -> nss2 a = true -> CFrag a ta.
Proof. intros H Hc Hn b tb Hb. apply (tk_frame _ _ _ H); [|exact Hb]. right. unfold glue. rewrite Hc, Hn. rewrite orb_true_r. reflexivity. Qed.

Lemma cfrag_frag a ta : CFrag a ta -> Frag a ta.
Proof. intros H b tb _ Hb. exact (H b tb Hb). Qed.
Lemma cfrag_nil : CFrag [] [].
Proof. intros b tb Hb. exact Hb. Qed.
Lemma cfrag_app a ta b tb : CFrag a ta -> CFrag b tb -> CFrag (a ++ b) (ta ++ tb).
Proof. intros Ha Hb c tc Hc. rewrite <- !app_assoc. apply Ha, Hb, Hc. Qed.
Lemma frag_cfrag_app a ta b tb : Frag a ta -> CFrag b tb -> ssep b = true -> CFrag (a ++ b) (ta ++ tb).
Proof. intros Ha Hb Hs c tc Hc. rewrite <- !app_assoc. apply Ha; [apply ssep_app, Hs|]. apply Hb, Hc. Qed.
Lemma cfrag_frag_app a ta b tb : CFrag a ta -> Frag b tb -> Frag (a ++ b) (ta ++ tb).
Proof. intros Ha Hb c tc Hs Hc. rewrite <- !app_assoc. apply Ha, Hb; [exact Hs|exact Hc]. Qed.
Lemma frag_frag_app a ta b tb : Frag a ta -> Frag b tb -> ssep b = true -> Frag (a ++ b) (ta ++ tb).
Proof. intros Ha Hb Hs c tc Hsc Hc. rewrite <- !app_assoc. apply Ha; [apply ssep_app, Hs|]. apply Hb; [exact Hsc|exact Hc]. Qed.

Lemma cfrag_tk a ta : CFrag a ta -> Tk a ta.
Proof. intros H. pose proof (H [] [] tk_nil) as G. rewrite !app_nil_r in G. exact G. Qed.

Lemma cfrag_if (c : bool) a ta : CFrag a ta -> CFrag (if c then a else []) (if c then ta else []).
Proof. destruct c; [auto|intros _; apply cfrag_nil]. Qed.

(* ------------------------------------------------------------------ holes *)
(* identifier-shaped for the Scala tokenizer: [A-Za-z_$][A-Za-z0-9_$]* (or letters >= 128) *)
Definition c10_sc_ident_ok (s : str) : bool :=
  match s with [] => false | c :: r => c10_sc_letter c && forallb c10_sc_id_char r end.

Lemma frag_ident n : c10_sc_ident_ok n = true -> Frag n [UId n].
Proof.
  intros H b tb Hs Hb. destruct n as [|c r]; [discriminate|]. cbn [c10_sc_ident_ok] in H. apply andb_true_iff in H as [Hc Hr].
  change ([UId (c :: r)] ++ tb) with (otl (Some (UId (c :: r))) ++ tb). apply (tk_step _ _ b); [|exact Hb].
  assert (Hlt : c10_sc_blank c = false /\ (c =? ch_nl) = false /\ (c =? 47) = false /\ (c =? ch_dq) = false /\ (c =? 96) = false).
  { unfold c10_sc_blank, c10_sc_letter, is_aalpha, is_alower, is_aupper, ch_us, ch_nl, ch_dq in *. lia. }
  destruct Hlt as (H1 & H2 & H3 & H4 & H5).
  cbn [c10_sc_next app]. rewrite H1, H2, H3, H4, H5, Hc. cbn [andb].
  assert (E : c10_take_while c10_sc_id_char (c :: r ++ b) = (c :: r, b)).
  { change (c :: r ++ b) with ((c :: r) ++ b). apply C10_TSGrammarTok.take_while_app.
    - cbn [forallb]. rewrite Hr. unfold c10_sc_id_char. rewrite Hc. reflexivity.
    - destruct b as [|d b]; [exact I|]. unfold sepb in Hs. rewrite !andb_true_iff, !negb_true_iff in Hs. destruct Hs as [[Hs _] _].
      destruct (c10_sc_id_char d) eqn:Ed; [|reflexivity]. rewrite (id_num_char _ Ed) in Hs. discriminate. }
  rewrite E. reflexivity.
Qed.

Lemma skip_string_plain body b : forallb C10_TSGrammarTok.c10_plain_char body = true -> c10_sc_skip_string USNorm (body ++ ch_dq :: b) = Some b.
Proof.
  induction body as [|c r IH]; intros H; cbn [app c10_sc_skip_string].
  - rewrite N.eqb_refl. reflexivity.
  - cbn [forallb] in H. apply andb_true_iff in H as [Hc Hr]. unfold C10_TSGrammarTok.c10_plain_char in Hc.
    apply negb_true_iff in Hc. rewrite !orb_false_iff in Hc. destruct Hc as [[[H1 H2] H3] H4].
    rewrite H1, H2, H3. exact (IH Hr).
Qed.

Lemma cfrag_quoted body : forallb C10_TSGrammarTok.c10_plain_char body = true -> CFrag (ch_dq :: body ++ [ch_dq]) [UStr].
Proof.
  intros H b tb Hb. change ([UStr] ++ tb) with (otl (Some UStr) ++ tb). apply (tk_step _ (Some UStr) b); [|exact Hb].
  change ((ch_dq :: body ++ [ch_dq]) ++ b) with (ch_dq :: (body ++ [ch_dq]) ++ b). rewrite <- app_assoc.
  cbn [c10_sc_next app]. change (c10_sc_blank ch_dq) with false. change (ch_dq =? ch_nl) with false. cbv beta iota.
  change ((ch_dq =? 47) && _) with false. cbv beta iota. change (ch_dq =? ch_dq) with true. cbv beta iota.
  rewrite (skip_string_plain body b H). reflexivity.
Qed.

(* a line comment with its line end: one raw line-end token *)
Lemma cfrag_line_comment body : forallb notnl body = true -> CFrag (47 :: 47 :: body ++ [ch_nl]) [UNl].
Proof.
  intros H b tb Hb. change ([UNl] ++ tb) with (otl None ++ otl (Some UNl) ++ tb).
  change ((47 :: 47 :: body ++ [ch_nl]) ++ b) with (47 :: 47 :: (body ++ [ch_nl]) ++ b). rewrite <- app_assoc. cbn [app].
  apply (tk_step _ None (ch_nl :: b)).
  - cbn [c10_sc_next]. change (c10_sc_blank 47) with false. change (47 =? ch_nl) with false. cbv beta iota.
    change ((47 =? 47) && (47 =? 47)) with true. cbv beta iota.
    assert (E : c10_take_while (fun x => negb (x =? ch_nl)) (47 :: body ++ ch_nl :: b) = (47 :: body, ch_nl :: b)).
    { change (47 :: body ++ ch_nl :: b) with ((47 :: body) ++ ch_nl :: b). apply C10_TSGrammarTok.take_while_app; [|reflexivity].
      cbn [forallb]. exact H. }
    rewrite E. reflexivity.
  - apply (tk_step _ (Some UNl) b); [reflexivity|exact Hb].
Qed.

(* blanks *)
Lemma cfrag_blank x : forallb c10_sc_blank x = true -> CFrag x [].
Proof.
  induction x as [|c r IH]; intros H; [apply cfrag_nil|]. cbn [forallb] in H. apply andb_true_iff in H as [Hc Hr].
  intros b tb Hb. change ([] ++ tb) with (otl None ++ tb). apply (tk_step _ None (r ++ b)); [|exact (IH Hr b tb Hb)].
  cbn [app c10_sc_next]. rewrite Hc. reflexivity.
Qed.

(* the frame lemma in terms of the function the recogniser runs *)
Theorem tokens_frame a ta b tb :
  c10_sc_tokens (S (List.length a)) a = Some ta -> c10_sc_tokens (S (List.length b)) b = Some tb -> glue a b = true ->
  c10_sc_tokens (S (List.length (a ++ b))) (a ++ b) = Some (ta ++ tb).
Proof. intros Ha Hb G. apply tk_run. apply (tk_frame _ _ _ Ha); [right; exact G|exact (tokens_tk _ _ _ Hb)]. Qed.
