(* C10, grammar half for TypeScript, part 2: the PARSER of Spec/C10TsGrammar.v is complete for a declarative
   token-level grammar [Gr] (types, type lists, object bodies, members), with the fuel it is given:
     - [Gr]: the grammar of the header comment of Spec/C10TsGrammar.v, as an inductive family over token lists;
     - [gr_complete]: the recursive-descent function [c10_g] consumes exactly the tokens of a derivation, whatever
       follows (provided the follower is not one the greedy loops would eat: [<], [|], [[]), with fuel 2n+3;
     - [decl_*]: [c10_ts_decl] accepts each of the five declaration forms; [decls_ok]: a sequence of them. *)
From Coq Require Import List Bool Lia ZifyBool ZifyN NArith String.
From TS Require Import Model.Str Spec.C10TsGrammar.
Import ListNotations.
Local Open Scope N_scope.
Local Notation length := List.length (only parsing).

(* ------------------------------------------------------------------ the GType step, named *)
Definition strip_bar (ts : list c10_tok) : list c10_tok :=
  match ts with t :: r => if c10_is_p 124 t then r else ts | [] => ts end.

Definition c10_prim (f : nat) (ts1 : list c10_tok) : option (list c10_tok) :=
  match ts1 with
  | KIdent _ :: r =>
    match r with
    | t :: r2 => if c10_is_p 60 t
                 then match c10_g f GType r2 with Some r3 => c10_g f (GTypeListTail 62) r3 | None => None end
                 else Some r
    | [] => Some r
    end
  | KStr :: r => Some r
  | t :: r =>
    if c10_is_p 91 t then
      match r with
      | t2 :: r2 => if c10_is_p 93 t2 then Some r2
                    else match c10_g f GType r with Some r3 => c10_g f (GTypeListTail 93) r3 | None => None end
      | [] => None
      end
    else if c10_is_p 40 t then match c10_g f GType r with Some r3 => c10_eat 41 r3 | None => None end
    else if c10_is_p 123 t then c10_g f GObjectBody r
    else None
  | [] => None
  end.

Lemma g_type_unfold f ts : c10_g (S f) GType ts =
  match c10_prim f (strip_bar ts) with
  | Some r => match c10_g f GPostfixTail r with Some r' => c10_g f GUnionTail r' | None => None end
  | None => None
  end.
Proof. reflexivity. Qed.

(* ------------------------------------------------------------------ the grammar *)
Inductive gsort := SPrim | SPost | SUn | STy | STyList | SObj | SMem.

Fixpoint brackets (k : nat) : list c10_tok := match k with O => [] | S k => KP 91 :: KP 93 :: brackets k end.
Definition is_key (t : c10_tok) : bool := match t with KIdent _ | KStr => true | _ => false end.

Inductive Gr : gsort -> list c10_tok -> Prop :=
| G_ident n : Gr SPrim [KIdent n]
| G_app n args : Gr STyList args -> Gr SPrim (KIdent n :: KP 60 :: args ++ [KP 62])
| G_str : Gr SPrim [KStr]
| G_tuple0 : Gr SPrim [KP 91; KP 93]
| G_tuple args : Gr STyList args -> Gr SPrim (KP 91 :: args ++ [KP 93])
| G_paren t : Gr STy t -> Gr SPrim (KP 40 :: t ++ [KP 41])
| G_obj body : Gr SObj body -> Gr SPrim (KP 123 :: body)
| G_post p k : Gr SPrim p -> Gr SPost (p ++ brackets k)
| G_un1 p : Gr SPost p -> Gr SUn p
| G_un p u : Gr SPost p -> Gr SUn u -> Gr SUn (p ++ KP 124 :: u)
| G_ty u : Gr SUn u -> Gr STy u
| G_ty_bar u : Gr SUn u -> Gr STy (KP 124 :: u)
| G_tl1 t : Gr STy t -> Gr STyList t
| G_tl t l : Gr STy t -> Gr STyList l -> Gr STyList (t ++ KP 44 :: l)
| G_obj_end : Gr SObj [KP 125]
| G_obj_last m : Gr SMem m -> Gr SObj (m ++ [KP 125])
| G_obj_cons m sep body : Gr SMem m -> sep = 59 \/ sep = 44 -> Gr SObj body -> Gr SObj (m ++ KP sep :: body)
| G_mem (ro opt : bool) key t : is_key key = true -> Gr STy t ->
    Gr SMem ((if ro then [KIdent (lit "readonly")] else []) ++ key :: (if opt then [KP 63] else []) ++ KP 58 :: t).

(* first tokens *)
Definition primhead (ts : list c10_tok) : bool :=
  match ts with
  | KIdent _ :: _ | KStr :: _ => true
  | KP c :: _ => (c =? 91) || (c =? 40) || (c =? 123)
  | _ => false
  end.
Definition tyhead (ts : list c10_tok) : bool :=
  match ts with KP c :: _ => (c =? 124) || primhead ts | _ => primhead ts end.
Definition memhead (ts : list c10_tok) : bool := match ts with t :: _ => is_key t | [] => false end.

Definition Head (s : gsort) (ts : list c10_tok) : Prop :=
  match s with
  | SPrim | SPost | SUn => primhead ts = true
  | STy | STyList => tyhead ts = true
  | SObj => True
  | SMem => memhead ts = true
  end.

Lemma primhead_app a b : primhead a = true -> primhead (a ++ b) = true.
Proof. destruct a as [|t a]; [discriminate|]. intros H. exact H. Qed.
Lemma tyhead_app a b : tyhead a = true -> tyhead (a ++ b) = true.
Proof. destruct a as [|t a]; [discriminate|]. intros H. exact H. Qed.
Lemma primhead_tyhead a : primhead a = true -> tyhead a = true.
Proof. destruct a as [|[n| | |c] a]; try discriminate; try (intros H; exact H). unfold tyhead. intros ->. apply orb_true_r. Qed.

Lemma gr_head s ts : Gr s ts -> Head s ts.
Proof.
  induction 1; cbn [Head] in *; try reflexivity; try exact I;
    try solve [assumption | apply primhead_app; assumption | apply primhead_tyhead; assumption | apply tyhead_app; assumption].
  destruct ro; [reflexivity|]. cbn [app memhead]. assumption.
Qed.

(* ------------------------------------------------------------------ completeness of c10_g *)
(* followers the greedy loops of a type do not eat *)
Definition fol (rest : list c10_tok) : Prop :=
  match rest with t :: _ => c10_is_p 60 t = false /\ c10_is_p 124 t = false /\ c10_is_p 91 t = false | [] => True end.

Definition folp (rest : list c10_tok) : Prop :=
  match rest with t :: _ => c10_is_p 60 t = false /\ c10_is_p 91 t = false | [] => True end.
Lemma fol_folp rest : fol rest -> folp rest.
Proof. destruct rest; [trivial|]. cbn. tauto. Qed.
Lemma folp_kp c rest : c <> 60 -> c <> 91 -> folp (KP c :: rest).
Proof. intros H1 H3. cbn [folp c10_is_p]. lia. Qed.

Lemma fol_kp c rest : c <> 60 -> c <> 124 -> c <> 91 -> fol (KP c :: rest).
Proof. intros H1 H2 H3. cbn [fol c10_is_p]. lia. Qed.

Lemma postfix_brackets k : forall rest f, folp rest -> (k + 1 <= f)%nat -> c10_g f GPostfixTail (brackets k ++ rest) = Some rest.
Proof.
  induction k as [|k IH]; intros rest f Hr Hf; (destruct f as [|f]; [lia|]).
  - cbn [brackets app c10_g]. destruct rest as [|t [|t2 r]]; try reflexivity. destruct Hr as (_ & ->). reflexivity.
  - cbn [brackets app c10_g]. change (c10_is_p 91 (KP 91) && c10_is_p 93 (KP 93)) with true. cbv beta iota. apply IH; [exact Hr|lia].
Qed.

Lemma union_tail_stop f rest : fol rest -> c10_g (S f) GUnionTail rest = Some rest.
Proof. intros Hr. cbn [c10_g]. destruct rest as [|t r]; [reflexivity|]. destruct Hr as (_ & -> & _). reflexivity. Qed.

Definition Complete (s : gsort) (ts : list c10_tok) : Prop :=
  match s with
  | SPrim => forall rest f, match rest with t :: _ => c10_is_p 60 t = false | [] => True end ->
                            (2 * List.length ts + 1 <= f)%nat -> c10_prim f (ts ++ rest) = Some rest
  | SPost => forall rest f, folp rest -> (2 * List.length ts + 1 <= f)%nat ->
                            match c10_prim f (ts ++ rest) with Some r => c10_g f GPostfixTail r | None => None end = Some rest
  | SUn => forall rest f, fol rest -> (2 * List.length ts + 2 <= f)%nat ->
                          c10_g f GType (ts ++ rest) = Some rest /\ c10_g f GType (KP 124 :: ts ++ rest) = Some rest
  | STy => forall rest f, fol rest -> (2 * List.length ts + 2 <= f)%nat -> c10_g f GType (ts ++ rest) = Some rest
  | STyList => forall closer rest f, closer = 62 \/ closer = 93 -> (2 * List.length ts + 2 <= f)%nat ->
                 match c10_g f GType (ts ++ KP closer :: rest) with
                 | Some r3 => c10_g f (GTypeListTail closer) r3
                 | None => None
                 end = Some rest
  | SObj => forall rest f, (2 * List.length ts + 2 <= f)%nat -> c10_g f GObjectBody (ts ++ rest) = Some rest
  | SMem => forall rest f, fol rest -> (2 * List.length ts + 3 <= f)%nat -> c10_g f GMember (ts ++ rest) = Some rest
  end.

Lemma strip_bar_primhead ts : primhead ts = true -> strip_bar ts = ts.
Proof. destruct ts as [|[n| | |c] r]; try discriminate; try reflexivity. cbn [primhead strip_bar c10_is_p]. intros H. destruct (c =? 124) eqn:E; [lia|reflexivity]. Qed.

Lemma tyhead_not_rbrack t r : tyhead (t :: r) = true -> c10_is_p 93 t = false.
Proof. destruct t as [n| | |c]; try reflexivity. cbn [tyhead primhead c10_is_p]. lia. Qed.
Lemma memhead_not_rbrace t r : memhead (t :: r) = true -> c10_is_p 125 t = false.
Proof. destruct t as [n| | |c]; try reflexivity. discriminate. Qed.

Lemma brackets_len k : (2 * k <= List.length (brackets k))%nat.
Proof. induction k; cbn [brackets List.length]; lia. Qed.

Theorem gr_complete s ts : Gr s ts -> Complete s ts.
Proof.
  induction 1 as [n | n args Hargs IH | | | args Hargs IH | t Ht IH | body Hb IH | p k Hp IH | p Hp IH | p u Hp IHp Hu IHu
                  | u Hu IH | u Hu IH | t Ht IH | t l Ht IHt Hl IHl | | m Hm IH | m sep body Hm IHm Hsep Hb IHb
                  | ro opt key t Hkey Ht IH]; cbn [Complete] in *.
  - (* ident *) intros rest f Hr _. cbn [app c10_prim]. destruct rest as [|t r]; [reflexivity|]. rewrite Hr. reflexivity.
  - (* ident<args> *) intros rest f _ Hf. cbn [app c10_prim c10_is_p]. change (60 =? 60) with true. cbv beta iota.
    rewrite <- app_assoc. cbn [app]. apply IH; [left; reflexivity|]. cbn [List.length] in Hf. rewrite app_length in Hf. cbn [List.length] in Hf. lia.
  - (* string *) intros rest f _ _. reflexivity.
  - (* [] *) intros rest f _ _. reflexivity.
  - (* [args] *) intros rest f _ Hf. pose proof (gr_head _ _ Hargs) as Hh. cbn [Head] in Hh.
    cbn [app c10_prim c10_is_p]. change (91 =? 91) with true. cbv beta iota.
    destruct args as [|t0 r0]; [discriminate|]. cbn [app]. rewrite (tyhead_not_rbrack _ _ Hh).
    change (t0 :: r0 ++ [KP 93] ++ rest) with ((t0 :: r0) ++ KP 93 :: rest).
    change (t0 :: (r0 ++ [KP 93]) ++ rest) with (((t0 :: r0) ++ [KP 93]) ++ rest). rewrite <- app_assoc. cbn [app].
    apply IH; [right; reflexivity|]. cbn [List.length] in Hf. rewrite app_length in Hf. cbn [List.length] in Hf. cbn [List.length]. lia.
  - (* (t) *) intros rest f _ Hf. cbn [app c10_prim c10_is_p]. change (40 =? 91) with false. change (40 =? 40) with true. cbv beta iota.
    rewrite <- app_assoc. cbn [app]. rewrite IH; [cbn [c10_eat c10_is_p]; rewrite N.eqb_refl; reflexivity|apply fol_kp; lia|].
    cbn [List.length] in Hf. rewrite app_length in Hf. cbn [List.length] in Hf. lia.
  - (* { body *) intros rest f _ Hf. cbn [app c10_prim c10_is_p]. change (123 =? 91) with false. change (123 =? 40) with false.
    change (123 =? 123) with true. cbv beta iota. apply IH. cbn [List.length] in Hf. lia.
  - (* postfix *) intros rest f Hr Hf. rewrite <- app_assoc. rewrite app_length in Hf.
    pose proof (brackets_len k) as Hk.
    rewrite IH; [apply postfix_brackets; [exact Hr|lia]| |lia].
    destruct k as [|k]; [|reflexivity]. cbn [brackets app]. destruct rest as [|t r]; [exact I|]. destruct Hr as (-> & _). reflexivity.
  - (* union, one alternative *) intros rest f Hr Hf. pose proof (gr_head _ _ Hp) as Hh. cbn [Head] in Hh.
    destruct f as [|f]; [lia|]. rewrite !g_type_unfold.
    assert (E1 : strip_bar (p ++ rest) = p ++ rest) by (apply strip_bar_primhead, primhead_app, Hh).
    assert (E2 : strip_bar (KP 124 :: p ++ rest) = p ++ rest) by reflexivity.
    rewrite E1, E2. specialize (IH rest f (fol_folp _ Hr) ltac:(lia)).
    destruct (c10_prim f (p ++ rest)) as [r|]; [|discriminate]. rewrite IH.
    destruct f as [|f]; [lia|]. rewrite (union_tail_stop f rest Hr). auto.
  - (* union, more alternatives *) intros rest f Hr Hf. pose proof (gr_head _ _ Hp) as Hh. cbn [Head] in Hh.
    rewrite app_length in Hf. cbn [List.length] in Hf. rewrite <- app_assoc. cbn [app].
    destruct f as [|f]; [lia|]. rewrite !g_type_unfold.
    assert (E1 : strip_bar (p ++ KP 124 :: u ++ rest) = p ++ KP 124 :: u ++ rest) by (apply strip_bar_primhead, primhead_app, Hh).
    assert (E2 : strip_bar (KP 124 :: p ++ KP 124 :: u ++ rest) = p ++ KP 124 :: u ++ rest) by reflexivity.
    rewrite E1, E2. specialize (IHp (KP 124 :: u ++ rest) f ltac:(apply folp_kp; lia) ltac:(lia)).
    destruct (c10_prim f (p ++ KP 124 :: u ++ rest)) as [r|]; [|discriminate]. rewrite IHp.
    destruct f as [|f]; [lia|]. cbn [c10_g c10_is_p]. change (124 =? 124) with true. cbv beta iota.
    destruct (IHu rest f Hr ltac:(lia)) as [_ G]. fold c10_g. rewrite G. auto.
  - (* type = union *) intros rest f Hr Hf. exact (proj1 (IH rest f Hr Hf)).
  - (* type = | union *) intros rest f Hr Hf. cbn [List.length] in Hf. cbn [app]. exact (proj2 (IH rest f Hr ltac:(lia))).
  - (* type list, one *) intros closer rest f Hc Hf. rewrite IH; [|apply fol_kp; lia|exact Hf].
    destruct f as [|f]; [lia|]. cbn [c10_g c10_is_p]. rewrite N.eqb_refl. reflexivity.
  - (* type list, more *) intros closer rest f Hc Hf. rewrite app_length in Hf. cbn [List.length] in Hf. rewrite <- app_assoc. cbn [app].
    rewrite IHt; [|apply fol_kp; lia|lia]. destruct f as [|f]; [lia|]. cbn [c10_g c10_is_p].
    replace (44 =? closer) with false by lia. change (44 =? 44) with true. cbv beta iota. fold c10_g. apply IHl; [exact Hc|lia].
  - (* } *) intros rest f Hf. destruct f as [|f]; [lia|]. reflexivity.
  - (* member } *) intros rest f Hf. pose proof (gr_head _ _ Hm) as Hh. cbn [Head] in Hh. rewrite app_length in Hf. cbn [List.length] in Hf.
    destruct f as [|f]; [lia|]. rewrite <- app_assoc. cbn [app]. destruct m as [|t0 r0]; [discriminate|].
    cbn [app c10_g]. rewrite (memhead_not_rbrace _ _ Hh). fold c10_g.
    change (t0 :: r0 ++ KP 125 :: rest) with ((t0 :: r0) ++ KP 125 :: rest).
    rewrite IH; [|apply fol_kp; lia|lia]. reflexivity.
  - (* member ; body *) intros rest f Hf. pose proof (gr_head _ _ Hm) as Hh. cbn [Head] in Hh. rewrite app_length in Hf. cbn [List.length] in Hf.
    destruct f as [|f]; [lia|]. rewrite <- app_assoc. cbn [app]. destruct m as [|t0 r0]; [discriminate|].
    cbn [app c10_g]. rewrite (memhead_not_rbrace _ _ Hh). fold c10_g.
    change (t0 :: r0 ++ KP sep :: body ++ rest) with ((t0 :: r0) ++ KP sep :: body ++ rest).
    rewrite IHm; [|apply fol_kp; lia|lia].
    replace (c10_is_p 59 (KP sep) || c10_is_p 44 (KP sep)) with true by (cbn [c10_is_p]; lia). apply IHb. lia.
  - (* member *) intros rest f Hr Hf.
    assert (Hlen : le (plus (List.length t) 2%nat) (List.length ((if ro then [KIdent (lit "readonly")] else []) ++ key :: (if opt then [KP 63] else []) ++ KP 58 :: t))).
    { rewrite app_length. cbn [List.length]. rewrite app_length. cbn [List.length]. lia. }
    destruct f as [|f]; [lia|].
    assert (Hkp : c10_is_p 58 key = false /\ c10_is_p 63 key = false) by (destruct key; try discriminate; split; reflexivity).
    destruct Hkp as [Hk1 Hk2].
    assert (Core : forall X, c10_g f GType (t ++ rest) = Some rest ->
              match key :: (if opt then [KP 63] else []) ++ KP 58 :: t ++ rest with
              | (KIdent _ | KStr) :: r =>
                let r1 := match r with t :: r' => if c10_is_p 63 t then r' else r | [] => r end in
                match c10_eat 58 r1 with Some r2 => c10_g f GType r2 | None => None end
              | _ => X
              end = Some rest).
    { intros X G. destruct key; try discriminate; destruct opt; cbn [app c10_eat c10_is_p]; exact G. }
    specialize (IH rest f Hr ltac:(lia)).
    destruct ro; cbn [app]; rewrite <- ?app_assoc; cbn [app].
    + cbn [c10_g]. change (c10_is_kw "readonly" (KIdent (lit "readonly"))) with true. rewrite Hk1, Hk2. cbn [negb andb]. fold c10_g.
      exact (Core None IH).
    + cbn [c10_g]. fold c10_g.
      assert (E : match key :: (if opt then [KP 63] else []) ++ KP 58 :: t ++ rest with
                  | t0 :: (t2 :: _) as r => if c10_is_kw "readonly" t0 && negb (c10_is_p 58 t2) && negb (c10_is_p 63 t2) then r
                                           else key :: (if opt then [KP 63] else []) ++ KP 58 :: t ++ rest
                  | _ => key :: (if opt then [KP 63] else []) ++ KP 58 :: t ++ rest
                  end = key :: (if opt then [KP 63] else []) ++ KP 58 :: t ++ rest).
      { destruct opt; cbn [app c10_is_p]; [change (63 =? 63) with true|change (58 =? 58) with true]; cbn [negb]; rewrite ?andb_false_r; reflexivity. }
      rewrite E. exact (Core None IH).
Qed.

(* the entry points *)
Lemma ts_type_ok t rest : Gr STy t -> fol rest -> c10_ts_type (t ++ rest) = Some rest.
Proof.
  intros H Hr. unfold c10_ts_type. apply (gr_complete _ _ H rest); [exact Hr|]. rewrite app_length. lia.
Qed.

(* closure: a union followed by [] is a union (the brackets go to its last alternative) *)
Lemma brackets_snoc k : brackets k ++ [KP 91; KP 93] = brackets (S k).
Proof. induction k as [|k IH]; [reflexivity|]. cbn [brackets app]. rewrite IH. reflexivity. Qed.

Lemma gr_post_arr p : Gr SPost p -> Gr SPost (p ++ [KP 91; KP 93]).
Proof. intros H. inversion H as [| | | | | | |p0 k Hp| | | | | | | | | |]; subst. rewrite <- app_assoc, brackets_snoc. apply G_post, Hp. Qed.

Lemma gr_un_arr_gen s u : Gr s u -> s = SUn -> Gr SUn (u ++ [KP 91; KP 93]).
Proof.
  induction 1; intros Es; try discriminate.
  - apply G_un1, gr_post_arr. assumption.
  - rewrite <- app_assoc. cbn [app]. apply G_un; [assumption|]. apply IHGr2. reflexivity.
Qed.
Lemma gr_un_arr u : Gr SUn u -> Gr SUn (u ++ [KP 91; KP 93]).
Proof. intros H. exact (gr_un_arr_gen _ _ H eq_refl). Qed.

Lemma gr_un_app_gen s u : Gr s u -> s = SUn -> forall v, Gr SUn v -> Gr SUn (u ++ KP 124 :: v).
Proof.
  induction 1; intros Es v Hv; try discriminate.
  - apply G_un; assumption.
  - rewrite <- app_assoc. cbn [app]. apply G_un; [assumption|]. apply IHGr2; [reflexivity|exact Hv].
Qed.
Lemma gr_un_app u v : Gr SUn u -> Gr SUn v -> Gr SUn (u ++ KP 124 :: v).
Proof. intros H Hv. exact (gr_un_app_gen _ _ H eq_refl v Hv). Qed.

Lemma gr_prim_un p : Gr SPrim p -> Gr SUn p.
Proof. intros H. apply G_un1. rewrite <- (app_nil_r p). exact (G_post p 0 H). Qed.

(* ------------------------------------------------------------------ declarations *)
Definition gen_go := fix go (fuel : nat) (ts : list c10_tok) : option (list c10_tok) :=
  match fuel with
  | O => None
  | S f => match ts with
           | KIdent _ :: t2 :: r2 => if c10_is_p 62 t2 then Some r2 else if c10_is_p 44 t2 then go f r2 else None
           | _ => None
           end
  end.
Lemma generics_unfold ts : c10_ts_generics ts =
  match ts with t :: r => if c10_is_p 60 t then gen_go (List.length r) r else Some ts | [] => Some ts end.
Proof. reflexivity. Qed.

Fixpoint gens_body (gs : list str) : list c10_tok :=
  match gs with
  | [] => []
  | [g] => [KIdent g; KP 62]
  | g :: r => KIdent g :: KP 44 :: gens_body r
  end.
Definition gens_toks (gs : list str) : list c10_tok := match gs with [] => [] | _ => KP 60 :: gens_body gs end.

Lemma gen_go_ok gs : gs <> [] -> forall rest n, (List.length gs <= n)%nat -> gen_go n (gens_body gs ++ rest) = Some rest.
Proof.
  induction gs as [|g r IH]; [congruence|]. intros _ rest n Hn. destruct n as [|n]; [cbn in Hn; lia|].
  destruct r as [|g2 r].
  - reflexivity.
  - change (gens_body (g :: g2 :: r)) with (KIdent g :: KP 44 :: gens_body (g2 :: r)). cbn [app gen_go c10_is_p].
    change (44 =? 62) with false. change (44 =? 44) with true. cbv beta iota. apply IH; [discriminate|]. cbn [List.length] in *. lia.
Qed.

Lemma gens_body_len gs : (List.length gs <= List.length (gens_body gs))%nat.
Proof. induction gs as [|g [|g2 r] IH]; cbn [gens_body List.length] in *; lia. Qed.

Lemma generics_ok gs c rest : c <> 60 -> c10_ts_generics (gens_toks gs ++ KP c :: rest) = Some (KP c :: rest).
Proof.
  intros Hc. rewrite generics_unfold. destruct gs as [|g r].
  - cbn [gens_toks app c10_is_p]. replace (c =? 60) with false by lia. reflexivity.
  - cbn [gens_toks app c10_is_p]. change (60 =? 60) with true. cbv beta iota. apply gen_go_ok; [discriminate|].
    rewrite app_length. pose proof (gens_body_len (g :: r)). lia.
Qed.

Definition kw (w : string) : c10_tok := KIdent (lit w).

(* export interface N<G> { members } *)
Lemma decl_interface name gs body rest : Gr SObj body ->
  c10_ts_decl (kw "export" :: kw "interface" :: KIdent name :: gens_toks gs ++ KP 123 :: body ++ rest) = Some rest.
Proof.
  intros H. unfold c10_ts_decl, kw. cbn [c10_eat_kw]. change (c10_is_kw "export" (KIdent (lit "export"))) with true. cbv beta iota.
  change (str_eqb (lit "interface") (lit "interface")) with true. cbv beta iota. cbn [c10_eat_ident].
  rewrite generics_ok by lia. cbn [c10_eat c10_is_p]. change (123 =? 123) with true. cbv beta iota.
  apply (gr_complete _ _ H rest). rewrite app_length. lia.
Qed.

(* export type N<G> = T ; *)
Lemma decl_alias name gs t rest : Gr STy t ->
  c10_ts_decl (kw "export" :: kw "type" :: KIdent name :: gens_toks gs ++ KP 61 :: t ++ KP 59 :: rest) = Some rest.
Proof.
  intros H. unfold c10_ts_decl, kw. cbn [c10_eat_kw]. change (c10_is_kw "export" (KIdent (lit "export"))) with true. cbv beta iota.
  change (str_eqb (lit "type") (lit "interface")) with false. change (str_eqb (lit "type") (lit "type")) with true. cbv beta iota. cbn [c10_eat_ident].
  rewrite generics_ok by lia. cbn [c10_eat c10_is_p]. change (61 =? 61) with true. cbv beta iota.
  rewrite (ts_type_ok t (KP 59 :: rest) H) by (apply fol_kp; lia). cbn [c10_is_p]. change (59 =? 59) with true. reflexivity.
Qed.

(* export enum N<G> { A = "a", ... } *)
Fixpoint enum_toks (cases : list str) : list c10_tok :=
  match cases with [] => [KP 125] | c :: r => KIdent c :: KP 61 :: KStr :: KP 44 :: enum_toks r end.

Lemma enum_body_ok cases : forall rest n, (List.length cases + 1 <= n)%nat -> c10_ts_enum_body n (enum_toks cases ++ rest) = Some rest.
Proof.
  induction cases as [|c r IH]; intros rest n Hn; (destruct n as [|n]; [lia|]).
  - reflexivity.
  - cbn [enum_toks app c10_ts_enum_body c10_is_p]. change (61 =? 61) with true. change (44 =? 44) with true. cbv beta iota.
    apply IH. cbn [List.length] in Hn. lia.
Qed.
Lemma enum_toks_len cases : (List.length cases + 1 <= List.length (enum_toks cases))%nat.
Proof. induction cases as [|c r IH]; cbn [enum_toks List.length]; lia. Qed.

Lemma decl_enum name gs cases rest :
  c10_ts_decl (kw "export" :: kw "enum" :: KIdent name :: gens_toks gs ++ KP 123 :: enum_toks cases ++ rest) = Some rest.
Proof.
  unfold c10_ts_decl, kw. cbn [c10_eat_kw]. change (c10_is_kw "export" (KIdent (lit "export"))) with true. cbv beta iota.
  change (str_eqb (lit "enum") (lit "interface")) with false. change (str_eqb (lit "enum") (lit "type")) with false.
  change (str_eqb (lit "enum") (lit "enum")) with true. cbv beta iota. cbn [c10_eat_ident].
  rewrite generics_ok by lia. cbn [c10_eat c10_is_p]. change (123 =? 123) with true. cbv beta iota.
  apply enum_body_ok. rewrite app_length. pose proof (enum_toks_len cases). lia.
Qed.

(* export const N : T = [-] NUMBER ; *)
Lemma decl_const name t (neg : bool) rest : Gr STy t ->
  c10_ts_decl (kw "export" :: kw "const" :: KIdent name :: KP 58 :: t ++ KP 61 :: (if neg then [KP 45] else []) ++ KNum :: KP 59 :: rest) = Some rest.
Proof.
  intros H. unfold c10_ts_decl, kw. cbn [c10_eat_kw]. change (c10_is_kw "export" (KIdent (lit "export"))) with true. cbv beta iota.
  change (str_eqb (lit "const") (lit "interface")) with false. change (str_eqb (lit "const") (lit "type")) with false.
  change (str_eqb (lit "const") (lit "enum")) with false. change (str_eqb (lit "const") (lit "const")) with true. cbv beta iota. cbn [c10_eat_ident c10_is_p].
  change (58 =? 58) with true. cbv beta iota.
  rewrite (ts_type_ok t _ H) by (apply fol_kp; lia). cbn [c10_eat c10_is_p]. change (61 =? 61) with true. cbv beta iota.
  destruct neg; cbn [app c10_is_p c10_eat]; change (59 =? 59) with true; reflexivity.
Qed.

(* export const N = balanced-tokens ; *)
Definition is_open (t : c10_tok) : bool := c10_is_p 40 t || c10_is_p 91 t || c10_is_p 123 t.
Definition is_close (t : c10_tok) : bool := c10_is_p 41 t || c10_is_p 93 t || c10_is_p 125 t.
(* the bracket depth after a run of tokens (None: a closer without opener, or a semicolon at depth 0) *)
Fixpoint soup_depth (d : nat) (ts : list c10_tok) : option nat :=
  match ts with
  | [] => Some d
  | t :: r =>
    if c10_is_p 59 t && Nat.eqb d 0 then None
    else if is_open t then soup_depth (S d) r
    else if is_close t then match d with O => None | S d' => soup_depth d' r end
    else soup_depth d r
  end.

Lemma soup_run ts : forall d d' rest n, soup_depth d ts = Some d' -> (List.length ts <= n)%nat ->
  c10_ts_soup (n + S (List.length rest)) d (ts ++ rest) = c10_ts_soup (n - List.length ts + S (List.length rest)) d' rest.
Proof.
  induction ts as [|t r IH]; intros d d' rest n H Hn.
  - cbn in H. injection H as <-. cbn [app List.length]. replace (n - 0)%nat with n by lia. reflexivity.
  - cbn [List.length] in Hn. destruct n as [|n]; [lia|]. cbn [soup_depth] in H. cbn [app plus c10_ts_soup].
    destruct (c10_is_p 59 t && Nat.eqb d 0); [discriminate|]. unfold is_open, is_close in H.
    destruct (c10_is_p 40 t || c10_is_p 91 t || c10_is_p 123 t).
    { rewrite (IH _ _ rest n H) by lia. reflexivity. }
    destruct (c10_is_p 41 t || c10_is_p 93 t || c10_is_p 125 t).
    { destruct d as [|d0]; [discriminate|]. rewrite (IH _ _ rest n H) by lia. reflexivity. }
    rewrite (IH _ _ rest n H) by lia. reflexivity.
Qed.

Lemma soup_ok ts rest : soup_depth 0 ts = Some O ->
  c10_ts_soup (S (List.length (ts ++ KP 59 :: rest))) 0 (ts ++ KP 59 :: rest) = Some rest.
Proof.
  intros H. rewrite app_length. cbn [List.length].
  replace (S (List.length ts + S (List.length rest)))%nat with (S (List.length ts) + S (List.length rest))%nat by lia.
  pose proof (soup_run ts 0 0 (KP 59 :: rest) (S (List.length ts)) H ltac:(lia)) as G. cbn [List.length] in G.
  replace (S (List.length ts) + S (List.length rest))%nat with (List.length ts + S (S (List.length rest)))%nat by lia.
  replace (S (List.length ts) + S (S (List.length rest)))%nat with (S (List.length ts + S (S (List.length rest))))%nat in G by lia.
  assert (Gm : forall n d x, c10_ts_soup n d x = Some rest -> c10_ts_soup (S n) d x = Some rest).
  { clear. induction n as [|n IH]; intros d x Hx; [discriminate|]. cbn [c10_ts_soup] in Hx |- *.
    destruct x as [|t r]; [discriminate|]. destruct (c10_is_p 59 t && Nat.eqb d 0); [exact Hx|].
    destruct (c10_is_p 40 t || c10_is_p 91 t || c10_is_p 123 t); [exact (IH _ _ Hx)|].
    destruct (c10_is_p 41 t || c10_is_p 93 t || c10_is_p 125 t); [destruct d; [discriminate|exact (IH _ _ Hx)]|exact (IH _ _ Hx)]. }
  pose proof (soup_run ts 0 0 (KP 59 :: rest) (List.length ts) H (le_n _)) as G2. cbn [List.length] in G2.
  rewrite G2. replace (List.length ts - List.length ts + S (S (List.length rest)))%nat with (S (S (List.length rest))) by lia.
  reflexivity.
Qed.

Lemma decl_soup name ts rest : soup_depth 0 ts = Some O ->
  c10_ts_decl (kw "export" :: kw "const" :: KIdent name :: KP 61 :: ts ++ KP 59 :: rest) = Some rest.
Proof.
  intros H. unfold c10_ts_decl, kw. cbn [c10_eat_kw]. change (c10_is_kw "export" (KIdent (lit "export"))) with true. cbv beta iota.
  change (str_eqb (lit "const") (lit "interface")) with false. change (str_eqb (lit "const") (lit "type")) with false.
  change (str_eqb (lit "const") (lit "enum")) with false. change (str_eqb (lit "const") (lit "const")) with true. cbv beta iota. cbn [c10_eat_ident c10_is_p].
  change (61 =? 58) with false. change (61 =? 61) with true. cbv beta iota. apply soup_ok, H.
Qed.

(* ------------------------------------------------------------------ sequences of declarations *)
Definition DeclToks (d : list c10_tok) : Prop := d <> [] /\ forall rest, c10_ts_decl (d ++ rest) = Some rest.

Lemma decls_ok ds : Forall DeclToks ds -> forall f, (List.length (List.concat ds) < f)%nat ->
  c10_ts_decls f (List.concat ds) = Some (List.length ds).
Proof.
  induction 1 as [|d ds [Hne Hd] _ IH]; intros f Hf; (destruct f as [|f]; [lia|]); [reflexivity|].
  cbn [List.concat c10_ts_decls List.length]. destruct (d ++ List.concat ds) as [|t0 r0] eqn:E.
  { destruct d; [congruence|discriminate]. }
  rewrite <- E, Hd, IH; [reflexivity|]. cbn [List.concat] in Hf. rewrite app_length in Hf. destruct d; [congruence|cbn [List.length] in Hf; lia].
Qed.
