(* C10, grammar half for Go, part 2: the PARSER of Spec/C10GoGrammar.v is complete for a declarative token-level
   grammar [GGr] (types, type-argument lists, struct bodies, field declarations), with the fuel it is given:
     - [GGr]: the Type / TypeArgs / StructType / FieldDecl productions of the header comment of Spec/C10GoGrammar.v
       (without parenthesised types, identifier array lengths and identifier lists, which the back end never prints),
       as an inductive family over token lists;
     - [ggr_complete]: the recursive-descent function [c10_gg] consumes exactly the tokens of a derivation, whatever
       follows (provided the follower is not one the parser would take for more of the type: a dot or an opening bracket);
     - the declaration forms: type declarations (with type parameters), constants (single and grouped), functions and
       methods with a balanced body ([Neutral]), imports, the package clause; [go_file_ok]: a whole source file. *)
From Coq Require Import List Bool Lia ZifyBool ZifyN NArith String.
From TS Require Import Model.Str Spec.C10TsGrammar Spec.C10GoGrammar Proofs.C10_GOGrammarTok Proofs.C10_GOGrammarSemi.
Import ListNotations.
Local Open Scope N_scope.
Local Notation length := List.length (only parsing).

Definition qkw (w : string) : c10_gtok := QId (lit w).
Definition nkw (n : str) : Prop := c10_go_kw n = false.

Lemma nkw_not n w : nkw n -> c10_go_kw (lit w) = true -> str_eqb n (lit w) = false.
Proof.
  intros H Hw. destruct (str_eqb n (lit w)) eqn:E; [|reflexivity]. apply str_eqb_eq in E. subst n. unfold nkw in H. congruence.
Qed.

(* ------------------------------------------------------------------ the grammar *)
Inductive gosort := GTy | GArgs | GFields | GField.

Inductive GGr : gosort -> list c10_gtok -> Prop :=
| GG_name n : nkw n -> GGr GTy [QId n]
| GG_qual p n : nkw p -> nkw n -> GGr GTy [QId p; QP 46; QId n]
| GG_app n args : nkw n -> GGr GArgs args -> GGr GTy (QId n :: QP 91 :: args ++ [QP 93])
| GG_ptr t : GGr GTy t -> GGr GTy (QP 42 :: t)
| GG_slice t : GGr GTy t -> GGr GTy (QP 91 :: QP 93 :: t)
| GG_array t : GGr GTy t -> GGr GTy (QP 91 :: QNum :: QP 93 :: t)
| GG_map k v : GGr GTy k -> GGr GTy v -> GGr GTy (qkw "map" :: QP 91 :: k ++ QP 93 :: v)
| GG_struct body : GGr GFields body -> GGr GTy (qkw "struct" :: QP 123 :: body)
| GG_iface : GGr GTy [qkw "interface"; QP 123; QP 125]
| GG_args1 t : GGr GTy t -> GGr GArgs t
| GG_args t l : GGr GTy t -> GGr GArgs l -> GGr GArgs (t ++ QP 44 :: l)
| GG_fields_end : GGr GFields [QP 125]
| GG_fields_last f : GGr GField f -> GGr GFields (f ++ [QP 125])
| GG_fields_cons f body : GGr GField f -> GGr GFields body -> GGr GFields (f ++ QP 59 :: body)
| GG_field n t (tag : bool) : nkw n -> GGr GTy t -> GGr GField (QId n :: t ++ if tag then [QStr] else []).

(* first tokens of a type *)
Definition tyhead (ts : list c10_gtok) : bool :=
  match ts with
  | QId _ :: _ => true
  | QP c :: r => (c =? 42) || ((c =? 91) && match r with QP d :: _ => d =? 93 | QNum :: QP d :: _ => d =? 93 | _ => false end)
  | _ => false
  end.
Lemma tyhead_app a b : tyhead a = true -> tyhead (a ++ b) = true.
Proof.
  destruct a as [|[n| | |c|] r]; try discriminate; try (intros H; exact H). cbn [tyhead app].
  destruct (c =? 42); [reflexivity|]. destruct (c =? 91); [|discriminate]. cbn [orb andb].
  destruct r as [|[m| | |d|] [|[m2| | |d2|] r2]]; try discriminate; intros H; exact H.
Qed.
Lemma ggr_tyhead s ts : GGr s ts -> match s with GTy | GArgs => tyhead ts = true | GField => exists n r, ts = QId n :: r /\ nkw n | GFields => True end.
Proof.
  induction 1; try reflexivity; try exact I; try (apply tyhead_app; assumption); try assumption.
  eexists _, _. split; [reflexivity|assumption].
Qed.

(* followers the parser does not take for more of a type *)
Definition folt (rest : list c10_gtok) : Prop :=
  match rest with t :: _ => c10_go_is_p 46 t = false /\ c10_go_is_p 91 t = false | [] => True end.
Lemma folt_kp c rest : c <> 46 -> c <> 91 -> folt (QP c :: rest).
Proof. intros H1 H2. cbn [folt c10_go_is_p]. lia. Qed.
Lemma folt_id n rest : folt (QId n :: rest). Proof. split; reflexivity. Qed.
Lemma folt_str rest : folt (QStr :: rest). Proof. split; reflexivity. Qed.
(* ... nor for a struct tag *)
Definition folf (rest : list c10_gtok) : Prop := folt rest /\ match rest with QStr :: _ => False | _ => True end.

(* ------------------------------------------------------------------ the QType step, case by case *)
Lemma gg_name f n rest : nkw n -> folt rest -> c10_gg (S f) QType (QId n :: rest) = Some rest.
Proof.
  intros Hn Hr. cbn [c10_gg]. rewrite (nkw_not n "struct" Hn eq_refl), (nkw_not n "interface" Hn eq_refl), (nkw_not n "map" Hn eq_refl), Hn.
  destruct rest as [|t [|t2 r']]; [reflexivity| |]; destruct Hr as [H1 H2]; rewrite H1; cbn [andb]; rewrite H2; reflexivity.
Qed.
Lemma gg_qual f p n rest : nkw p -> nkw n -> match rest with t :: _ => c10_go_is_p 91 t = false | [] => True end ->
  c10_gg (S f) QType (QId p :: QP 46 :: QId n :: rest) = Some rest.
Proof.
  intros Hp Hn Hr. cbn [c10_gg]. rewrite (nkw_not p "struct" Hp eq_refl), (nkw_not p "interface" Hp eq_refl), (nkw_not p "map" Hp eq_refl), Hp.
  cbn [c10_go_is_p c10_go_is_name]. change (46 =? 46) with true. unfold nkw in Hn. rewrite Hn. cbn [negb andb].
  destruct rest as [|t r']; [reflexivity|]. rewrite Hr. reflexivity.
Qed.
Lemma gg_app f n r2 : nkw n -> c10_gg (S f) QType (QId n :: QP 91 :: r2) =
  match c10_gg f QType r2 with Some r3 => c10_gg f QArgsTail r3 | None => None end.
Proof.
  intros Hn. cbn [c10_gg]. rewrite (nkw_not n "struct" Hn eq_refl), (nkw_not n "interface" Hn eq_refl), (nkw_not n "map" Hn eq_refl), Hn.
  cbn [c10_go_is_p]. change (91 =? 46) with false. cbn [andb]. change (91 =? 91) with true.
  destruct r2 as [|t2 r']; reflexivity.
Qed.
Lemma gg_ptr f r : c10_gg (S f) QType (QP 42 :: r) = c10_gg f QType r.
Proof. reflexivity. Qed.
Lemma gg_slice f r : c10_gg (S f) QType (QP 91 :: QP 93 :: r) = c10_gg f QType r.
Proof. reflexivity. Qed.
Lemma gg_array f r : c10_gg (S f) QType (QP 91 :: QNum :: QP 93 :: r) = c10_gg f QType r.
Proof. reflexivity. Qed.
Lemma gg_map f r : c10_gg (S f) QType (qkw "map" :: QP 91 :: r) =
  match c10_gg f QType r with
  | Some r2 => match c10_go_eat 93 r2 with Some r3 => c10_gg f QType r3 | None => None end
  | None => None
  end.
Proof. reflexivity. Qed.
Lemma gg_struct f r : c10_gg (S f) QType (qkw "struct" :: QP 123 :: r) = c10_gg f QFields r.
Proof. reflexivity. Qed.
Lemma gg_iface f r : c10_gg (S f) QType (qkw "interface" :: QP 123 :: QP 125 :: r) = Some r.
Proof. reflexivity. Qed.

Definition GComplete (s : gosort) (ts : list c10_gtok) : Prop :=
  match s with
  | GTy => forall rest f, folt rest -> (2 * List.length ts + 1 <= f)%nat -> c10_gg f QType (ts ++ rest) = Some rest
  | GArgs => forall rest f, (2 * List.length ts + 2 <= f)%nat ->
               match c10_gg f QType (ts ++ QP 93 :: rest) with Some r3 => c10_gg f QArgsTail r3 | None => None end = Some rest
  | GFields => forall rest f, (2 * List.length ts + 2 <= f)%nat -> c10_gg f QFields (ts ++ rest) = Some rest
  | GField => forall rest f, folf rest -> (2 * List.length ts + 2 <= f)%nat -> c10_gg f QField (ts ++ rest) = Some rest
  end.

Lemma tyhead_facts t r : tyhead (t :: r) = true -> c10_go_is_p 93 t = false /\ c10_go_is_p 44 t = false.
Proof.
  destruct t as [n| | |c|]; try discriminate; try (split; reflexivity). cbn [tyhead c10_go_is_p]. intros H.
  destruct (c =? 42) eqn:E1; [lia|]. destruct (c =? 91) eqn:E2; [lia|discriminate].
Qed.

Theorem ggr_complete s ts : GGr s ts -> GComplete s ts.
Proof.
  induction 1 as [n Hn | p n Hp Hn | n args Hn Hargs IH | t Ht IH | t Ht IH | t Ht IH | k v Hk IHk Hv IHv | body Hb IH |
                  | t Ht IH | t l Ht IHt Hl IHl | | fd Hfd IH | fd body Hfd IHf Hb IHb | n t tag Hn Ht IH]; cbn [GComplete] in *.
  - intros rest f Hr Hf. destruct f as [|f]; [cbn in Hf; lia|]. apply gg_name; assumption.
  - intros rest f Hr Hf. destruct f as [|f]; [cbn in Hf; lia|]. apply gg_qual; try assumption. destruct rest; [exact I|apply Hr].
  - intros rest f _ Hf. destruct f as [|f]; [cbn in Hf; lia|]. cbn [app]. rewrite gg_app by assumption.
    rewrite <- app_assoc. cbn [app]. apply IH. cbn [List.length] in Hf. rewrite app_length in Hf. cbn [List.length] in Hf. lia.
  - intros rest f Hr Hf. destruct f as [|f]; [cbn in Hf; lia|]. cbn [app]. rewrite gg_ptr. apply IH; [exact Hr|cbn [List.length] in Hf; lia].
  - intros rest f Hr Hf. destruct f as [|f]; [cbn in Hf; lia|]. cbn [app]. rewrite gg_slice. apply IH; [exact Hr|cbn [List.length] in Hf; lia].
  - intros rest f Hr Hf. destruct f as [|f]; [cbn in Hf; lia|]. cbn [app]. rewrite gg_array. apply IH; [exact Hr|cbn [List.length] in Hf; lia].
  - intros rest f Hr Hf. destruct f as [|f]; [cbn in Hf; lia|]. cbn [app]. rewrite gg_map. rewrite <- app_assoc. cbn [app].
    cbn [List.length] in Hf. rewrite app_length in Hf. cbn [List.length] in Hf.
    rewrite IHk; [|apply folt_kp; lia|lia]. cbn [c10_go_eat c10_go_is_p]. change (93 =? 93) with true. cbv beta iota.
    apply IHv; [exact Hr|lia].
  - intros rest f _ Hf. destruct f as [|f]; [cbn in Hf; lia|]. cbn [app]. rewrite gg_struct. apply IH. cbn [List.length] in Hf. lia.
  - intros rest f _ Hf. destruct f as [|f]; [cbn in Hf; lia|]. cbn [app]. apply gg_iface.
  - (* one argument *) intros rest f Hf. rewrite IH; [|apply folt_kp; lia|lia]. destruct f as [|f]; [lia|]. cbn [c10_gg c10_go_is_p].
    change (93 =? 93) with true. reflexivity.
  - (* more arguments *) intros rest f Hf. rewrite app_length in Hf. cbn [List.length] in Hf. rewrite <- app_assoc. cbn [app].
    rewrite IHt; [|apply folt_kp; lia|lia]. destruct f as [|f]; [lia|]. cbn [c10_gg c10_go_is_p].
    change (44 =? 93) with false. change (44 =? 44) with true. cbv beta iota.
    pose proof (ggr_tyhead _ _ Hl) as Hh. cbn in Hh. destruct l as [|t0 r0]; [discriminate|]. cbn [app].
    rewrite (proj1 (tyhead_facts _ _ Hh)). fold c10_gg. change (t0 :: r0 ++ QP 93 :: rest) with ((t0 :: r0) ++ QP 93 :: rest).
    apply IHl. lia.
  - intros rest f Hf. destruct f as [|f]; [lia|]. reflexivity.
  - (* field } *) intros rest f Hf. rewrite app_length in Hf. cbn [List.length] in Hf. destruct f as [|f]; [lia|].
    destruct (ggr_tyhead _ _ Hfd) as (n & r & -> & Hn). rewrite <- app_assoc. cbn [app c10_gg c10_go_is_p]. fold c10_gg.
    change (QId n :: r ++ QP 125 :: rest) with ((QId n :: r) ++ QP 125 :: rest).
    rewrite IH; [|split; [apply folt_kp; lia|exact I]|cbn [List.length] in *; lia].
    cbn [c10_go_is_p]. change (125 =? 59) with false. change (125 =? 125) with true. reflexivity.
  - (* field ; body *) intros rest f Hf. rewrite app_length in Hf. cbn [List.length] in Hf. destruct f as [|f]; [lia|].
    destruct (ggr_tyhead _ _ Hfd) as (n & r & -> & Hn). rewrite <- app_assoc. cbn [app c10_gg c10_go_is_p]. fold c10_gg.
    change (QId n :: r ++ QP 59 :: body ++ rest) with ((QId n :: r) ++ QP 59 :: body ++ rest).
    rewrite IHf; [|split; [apply folt_kp; lia|exact I]|cbn [List.length] in *; lia].
    cbn [c10_go_is_p]. change (59 =? 59) with true. cbv beta iota. apply IHb. lia.
  - (* field *) intros rest f [Hr Hs] Hf. cbn [List.length] in Hf. rewrite app_length in Hf. destruct f as [|f]; [lia|].
    pose proof (ggr_tyhead _ _ Ht) as Hh. cbn in Hh. destruct t as [|t0 r0]; [discriminate|].
    cbn [app c10_gg c10_go_is_name]. unfold nkw in Hn. rewrite Hn. cbn [negb]. rewrite (proj2 (tyhead_facts _ _ Hh)). fold c10_gg.
    rewrite <- app_assoc. change (t0 :: r0 ++ ?x) with ((t0 :: r0) ++ x).
    destruct tag; cbn [app].
    + change (t0 :: r0 ++ QStr :: rest) with ((t0 :: r0) ++ QStr :: rest). rewrite IH; [reflexivity|apply folt_str|cbn [List.length] in *; lia].
    + change (t0 :: r0 ++ rest) with ((t0 :: r0) ++ rest). rewrite IH; [|exact Hr|cbn [List.length] in *; lia]. destruct rest as [|[m| | |c|] r']; try reflexivity. contradiction.
Qed.

Lemma go_type_ok t rest : GGr GTy t -> folt rest -> c10_go_type (t ++ rest) = Some rest.
Proof. intros H Hr. unfold c10_go_type. apply (ggr_complete _ _ H rest); [exact Hr|]. rewrite app_length. lia. Qed.

Lemma ggr_name_ty n : nkw n -> GGr GTy [QId n]. Proof. apply GG_name. Qed.

(* ------------------------------------------------------------------ type declarations *)
Fixpoint gparams_body (gs : list str) : list c10_gtok :=
  match gs with
  | [] => []
  | [g] => [QId g; qkw "any"; QP 93]
  | g :: r => QId g :: qkw "any" :: QP 44 :: gparams_body r
  end.
Definition gparams (gs : list str) : list c10_gtok := match gs with [] => [] | _ => QP 91 :: gparams_body gs end.

Lemma nkw_any : nkw (lit "any"). Proof. reflexivity. Qed.

Lemma tparams_ok gs : gs <> [] -> Forall nkw gs -> forall rest n, (List.length gs <= n)%nat ->
  c10_go_tparams n (gparams_body gs ++ rest) = Some rest.
Proof.
  induction gs as [|g r IH]; [congruence|]. intros _ H rest n Hn. inversion H as [|g0 r0 Hg Hr]; subst.
  destruct n as [|n]; [cbn in Hn; lia|]. destruct r as [|g2 r].
  - cbn [gparams_body app c10_go_tparams c10_go_is_name c10_go_is_p]. unfold nkw in Hg. rewrite Hg. cbn [negb].
    change (qkw "any" :: QP 93 :: rest) with ([qkw "any"] ++ QP 93 :: rest).
    rewrite (go_type_ok _ _ (GG_name _ nkw_any)) by (apply folt_kp; lia). cbn [c10_go_is_p]. change (93 =? 93) with true. reflexivity.
  - change (gparams_body (g :: g2 :: r)) with (QId g :: qkw "any" :: QP 44 :: gparams_body (g2 :: r)).
    cbn [app c10_go_tparams c10_go_is_name c10_go_is_p]. unfold nkw in Hg. rewrite Hg. cbn [negb].
    change (qkw "any" :: QP 44 :: ?x) with ([qkw "any"] ++ QP 44 :: x).
    rewrite (go_type_ok _ _ (GG_name _ nkw_any)) by (apply folt_kp; lia). cbn [c10_go_is_p]. change (44 =? 93) with false. change (44 =? 44) with true. cbv beta iota.
    destruct r as [|g3 r']; cbn [gparams_body app c10_go_is_p]; (apply IH; [discriminate|exact Hr|cbn [List.length] in *; lia]).
Qed.

Lemma gparams_body_len gs : (List.length gs <= List.length (gparams_body gs))%nat.
Proof. induction gs as [|g [|g2 r] IH]; cbn [gparams_body List.length] in *; lia. Qed.

Lemma opt_tparams_some gs rest : gs <> [] -> Forall nkw gs -> c10_go_opt_tparams (gparams gs ++ rest) = Some rest.
Proof.
  intros Hne H. destruct gs as [|g r]; [congruence|]. unfold gparams.
  assert (E : exists x, gparams_body (g :: r) = QId g :: qkw "any" :: x) by (destruct r; eexists; reflexivity).
  destruct E as [x E]. pose proof (tparams_ok (g :: r) Hne H rest) as T. pose proof (gparams_body_len (g :: r)) as L.
  rewrite E in *. cbn [app] in *. unfold c10_go_opt_tparams. cbn [c10_go_is_p]. change (91 =? 91) with true. cbn [andb negb].
  apply T. cbn [List.length] in *. rewrite app_length. lia.
Qed.

Lemma opt_tparams_none ts : tyhead ts = true -> c10_go_opt_tparams ts = Some ts.
Proof.
  intros H. destruct ts as [|a [|b l2]]; try reflexivity. destruct b as [g| | |d|]; try reflexivity. destruct l2 as [|c r]; try reflexivity.
  unfold c10_go_opt_tparams. destruct a as [n| | |x|]; try reflexivity; try (cbn in H; discriminate H).
  cbn [tyhead] in H. cbn [c10_go_is_p]. replace (x =? 91) with false by lia. reflexivity.
Qed.

Lemma ty_head_not t rest k : tyhead t = true -> k <> 42 -> k <> 91 -> match t ++ rest with t0 :: _ => c10_go_is_p k t0 = false | [] => False end.
Proof.
  destruct t as [|[n| | |c|] r]; try discriminate; try reflexivity. cbn [tyhead app c10_go_is_p]. intros H H1 H2.
  destruct (c =? 42) eqn:E1; [lia|]. destruct (c =? 91) eqn:E2; [lia|discriminate].
Qed.

Lemma decl_type name gs t rest : nkw name -> Forall nkw gs -> GGr GTy t ->
  c10_go_decl (qkw "type" :: QId name :: gparams gs ++ t ++ QP 59 :: rest) = Some (QP 59 :: rest).
Proof.
  intros Hn Hg Ht. unfold c10_go_decl, qkw. change (str_eqb (lit "type") (lit "type")) with true. cbv beta iota.
  unfold c10_go_type_decl. cbn [c10_go_eat_name c10_go_is_name]. unfold nkw in Hn. rewrite Hn. cbn [negb].
  pose proof (ggr_tyhead _ _ Ht) as Hh. cbn in Hh.
  assert (E : c10_go_opt_tparams (gparams gs ++ t ++ QP 59 :: rest) = Some (t ++ QP 59 :: rest)).
  { destruct gs as [|g r]; [apply opt_tparams_none, tyhead_app, Hh|apply opt_tparams_some; [discriminate|exact Hg]]. }
  rewrite E. pose proof (ty_head_not t (QP 59 :: rest) 61 Hh ltac:(lia) ltac:(lia)) as E61.
  destruct (t ++ QP 59 :: rest) as [|t0 r0] eqn:Et; [contradiction|]. rewrite E61, <- Et.
  apply go_type_ok; [exact Ht|apply folt_kp; lia].
Qed.

(* ------------------------------------------------------------------ constants *)
Lemma const_spec_num name t (neg : bool) rest : nkw name -> GGr GTy t ->
  c10_go_const_spec (QId name :: t ++ QP 61 :: (if neg then [QP 45] else []) ++ QNum :: rest) = Some rest.
Proof.
  intros Hn Ht. unfold c10_go_const_spec. cbn [c10_go_eat_name c10_go_is_name]. unfold nkw in Hn. rewrite Hn. cbn [negb].
  pose proof (ggr_tyhead _ _ Ht) as Hh. cbn in Hh.
  pose proof (ty_head_not t (QP 61 :: (if neg then [QP 45] else []) ++ QNum :: rest) 61 Hh ltac:(lia) ltac:(lia)) as E.
  destruct (t ++ QP 61 :: (if neg then [QP 45] else []) ++ QNum :: rest) as [|t0 r0] eqn:Et; [contradiction|]. rewrite E, <- Et.
  rewrite (go_type_ok _ _ Ht) by (apply folt_kp; lia). cbn [c10_go_eat c10_go_is_p]. change (61 =? 61) with true. cbv beta iota.
  destruct neg; reflexivity.
Qed.
Lemma const_spec_str name ty rest : nkw name -> nkw ty ->
  c10_go_const_spec (QId name :: QId ty :: QP 61 :: QStr :: rest) = Some rest.
Proof.
  intros Hn Ht. unfold c10_go_const_spec. cbn [c10_go_eat_name c10_go_is_name c10_go_is_p]. unfold nkw in Hn. rewrite Hn. cbn [negb].
  change (QId ty :: QP 61 :: QStr :: rest) with ([QId ty] ++ QP 61 :: QStr :: rest).
  rewrite (go_type_ok _ _ (GG_name _ Ht)) by (apply folt_kp; lia). reflexivity.
Qed.

Lemma decl_const name t (neg : bool) rest : nkw name -> GGr GTy t ->
  c10_go_decl (qkw "const" :: QId name :: t ++ QP 61 :: (if neg then [QP 45] else []) ++ QNum :: QP 59 :: rest) = Some (QP 59 :: rest).
Proof.
  intros Hn Ht. unfold c10_go_decl, qkw. change (str_eqb (lit "const") (lit "type")) with false. change (str_eqb (lit "const") (lit "const")) with true. cbv beta iota.
  unfold c10_go_const_decl. cbn [c10_go_is_p]. apply const_spec_num; assumption.
Qed.

(* const ( NAME TYPE = STRING ; ... ) *)
Fixpoint cgroup_toks (ty : str) (cs : list str) : list c10_gtok :=
  match cs with [] => [QP 41] | c :: r => QId c :: QId ty :: QP 61 :: QStr :: QP 59 :: cgroup_toks ty r end.

Lemma cgroup_ok ty cs : nkw ty -> Forall nkw cs -> forall rest n, (List.length cs < n)%nat ->
  c10_go_group c10_go_const_spec n (cgroup_toks ty cs ++ rest) = Some rest.
Proof.
  intros Ht. induction 1 as [|c r Hc Hr IH]; intros rest n Hn; (destruct n as [|n]; [lia|]).
  - reflexivity.
  - assert (E41 : c10_go_is_p 41 (QId c) = false) by reflexivity.
    cbn [cgroup_toks app c10_go_group]. rewrite E41. rewrite (const_spec_str c ty _ Hc Ht). cbn [c10_go_is_p]. change (59 =? 59) with true. cbv beta iota.
    apply IH. cbn [List.length] in Hn. lia.
Qed.
Lemma cgroup_len ty cs : (List.length cs < List.length (cgroup_toks ty cs))%nat.
Proof. induction cs; cbn [cgroup_toks List.length]; lia. Qed.

Lemma decl_const_group ty cs rest : nkw ty -> Forall nkw cs ->
  c10_go_decl (qkw "const" :: QP 40 :: cgroup_toks ty cs ++ rest) = Some rest.
Proof.
  intros Ht Hc. unfold c10_go_decl, qkw. change (str_eqb (lit "const") (lit "type")) with false. change (str_eqb (lit "const") (lit "const")) with true. cbv beta iota.
  unfold c10_go_const_decl. cbn [c10_go_is_p]. change (40 =? 40) with true. cbv beta iota. apply cgroup_ok; [exact Ht|exact Hc|].
  rewrite app_length. pose proof (cgroup_len ty cs). lia.
Qed.

(* ------------------------------------------------------------------ blocks: balanced token runs *)
Definition Neutral (bs : list c10_gtok) : Prop := forall k st rest, c10_go_block (k :: st) (bs ++ rest) = c10_go_block (k :: st) rest.

Lemma neutral_nil : Neutral []. Proof. intros k st rest. reflexivity. Qed.
Lemma neutral_app a b : Neutral a -> Neutral b -> Neutral (a ++ b).
Proof. intros Ha Hb k st rest. rewrite <- app_assoc, Ha, Hb. reflexivity. Qed.
Lemma neutral_tok t : c10_go_closer t = None -> c10_go_is_close t = false -> Neutral [t].
Proof. intros H1 H2 k st rest. cbn [app c10_go_block]. rewrite H1, H2. reflexivity. Qed.
Lemma neutral_id n : Neutral [QId n]. Proof. apply neutral_tok; reflexivity. Qed.
Lemma neutral_wrap o c bs : c10_go_closer (QP o) = Some c -> Neutral bs -> Neutral (QP o :: bs ++ [QP c]).
Proof.
  intros Ho Hb k st rest. cbn [app c10_go_block]. rewrite Ho. rewrite <- app_assoc, Hb. cbn [app c10_go_block].
  assert (Hc : c = 41 \/ c = 93 \/ c = 125).
  { cbn [c10_go_closer] in Ho. destruct (o =? 40); [injection Ho; auto|]. destruct (o =? 91); [injection Ho; auto|]. destruct (o =? 123); [injection Ho; auto|discriminate]. }
  assert (E1 : c10_go_closer (QP c) = None) by (cbn [c10_go_closer]; destruct Hc as [-> | [-> | ->]]; reflexivity).
  assert (E2 : c10_go_is_close (QP c) = true) by (destruct Hc as [-> | [-> | ->]]; reflexivity).
  rewrite E1, E2. cbn [c10_go_is_p]. rewrite N.eqb_refl. reflexivity.
Qed.

(* a computable sufficient condition *)
Fixpoint bal_run (st : list char) (ts : list c10_gtok) : option (list char) :=
  match ts with
  | [] => Some st
  | t :: r =>
    match c10_go_closer t with
    | Some k => bal_run (k :: st) r
    | None => if c10_go_is_close t then match st with k :: st' => if c10_go_is_p k t then bal_run st' r else None | [] => None end
              else bal_run st r
    end
  end.
Lemma bal_run_block ts : forall s s', bal_run s ts = Some s' ->
  forall k st rest, c10_go_block (s ++ k :: st) (ts ++ rest) = c10_go_block (s' ++ k :: st) rest.
Proof.
  induction ts as [|t r IH]; intros s s' H k st rest; cbn [bal_run] in H; [injection H as <-; reflexivity|].
  cbn [app c10_go_block]. destruct (c10_go_closer t) as [c|].
  - exact (IH (c :: s) s' H k st rest).
  - destruct (c10_go_is_close t); [|exact (IH s s' H k st rest)].
    destruct s as [|c s0]; [discriminate|]. cbn [app]. destruct (c10_go_is_p c t); [|discriminate].
    rewrite <- (IH s0 s' H k st rest). destruct s0; reflexivity.
Qed.
Lemma neutral_compute ts : bal_run [] ts = Some [] -> Neutral ts.
Proof. intros H k st rest. exact (bal_run_block ts [] [] H k st rest). Qed.

Lemma block_ok body rest : Neutral body -> c10_go_block [125] (body ++ QP 125 :: rest) = Some rest.
Proof. intros H. rewrite H. reflexivity. Qed.

(* ------------------------------------------------------------------ parameters, functions *)
Lemma param_named_ty n t rest : nkw n -> tyhead t = true -> c10_go_param_named (QId n :: t ++ rest) = true.
Proof.
  intros Hn Hh. unfold c10_go_param_named. destruct t as [|[m| | |c|] r]; try discriminate; cbn [app c10_go_is_name]; unfold nkw in Hn; rewrite Hn; cbn [negb andb orb]; [reflexivity|].
  cbn [tyhead] in Hh. cbn [c10_go_is_p]. destruct (c =? 42); [reflexivity|]. cbn [orb] in *. destruct (c =? 91); [|discriminate]. cbn [andb] in *.
  destruct r as [|[m| | |d|] r2]; try discriminate; cbn [app c10_go_is_p].
  - destruct r2 as [|[m| | |d|] r3]; try discriminate. cbn [app c10_go_is_p]. rewrite Hh. reflexivity.
  - rewrite Hh. reflexivity.
Qed.

Definition Pars (p : list c10_gtok) : Prop := (exists r, p = QP 40 :: r) /\ forall X, c10_go_params (p ++ X) = Some X.

Lemma pars_empty : Pars [QP 40; QP 41].
Proof. split; [eexists; reflexivity|]. intros X. reflexivity. Qed.

Lemma pars_named n t : nkw n -> GGr GTy t -> Pars (QP 40 :: QId n :: t ++ [QP 41]).
Proof.
  intros Hn Ht. split; [eexists; reflexivity|]. intros X. unfold c10_go_params. cbn [app c10_go_eat c10_go_is_p]. change (40 =? 40) with true. cbv beta iota.
  rewrite <- app_assoc. cbn [app c10_go_params_tail].
  pose proof (ggr_tyhead _ _ Ht) as Hh. cbn in Hh. rewrite (param_named_ty n t _ Hn Hh). cbn [tl].
  rewrite (go_type_ok _ _ Ht) by (apply folt_kp; lia). cbn [c10_go_is_p]. change (41 =? 41) with true. reflexivity.
Qed.

Lemma params_tail_step t sep more f : GGr GTy t -> sep = 41 \/ sep = 44 -> c10_go_param_named (t ++ QP sep :: more) = false ->
  c10_go_params_tail (S f) (t ++ QP sep :: more) =
    if sep =? 41 then Some more
    else match more with t2 :: r2 => if c10_go_is_p 41 t2 then Some r2 else c10_go_params_tail f more | [] => None end.
Proof.
  intros Ht Hs Hn. cbn [c10_go_params_tail]. rewrite Hn. rewrite (go_type_ok _ _ Ht) by (apply folt_kp; lia). cbn [c10_go_is_p].
  destruct Hs as [-> | ->]; reflexivity.
Qed.

(* ( []byte , error ): the result list of MarshalJSON *)
Lemma pars_bytes_error : Pars [QP 40; QP 91; QP 93; QId (lit "byte"); QP 44; QId (lit "error"); QP 41].
Proof.
  split; [eexists; reflexivity|]. intros X. unfold c10_go_params. cbn [app c10_go_eat].
  change (c10_go_is_p 40 (QP 40)) with true. cbv beta iota. change (c10_go_is_p 41 (QP 91)) with false. cbv beta iota. cbn [List.length].
  change (QP 91 :: QP 93 :: QId (lit "byte") :: QP 44 :: ?m) with ([QP 91; QP 93; QId (lit "byte")] ++ QP 44 :: m).
  rewrite (params_tail_step _ 44 _ _ (GG_slice _ (GG_name (lit "byte") eq_refl)) (or_intror eq_refl) eq_refl).
  change (44 =? 41) with false. cbv beta iota. change (c10_go_is_p 41 (QId (lit "error"))) with false. cbv beta iota.
  change (QId (lit "error") :: QP 41 :: X) with ([QId (lit "error")] ++ QP 41 :: X).
  rewrite (params_tail_step _ 41 _ _ (GG_name (lit "error") eq_refl) (or_introl eq_refl) eq_refl). reflexivity.
Qed.

Definition ResOk (res : list c10_gtok) : Prop := res = [] \/ GGr GTy res \/ Pars res.

Lemma decl_func recv name ps res body rest : recv = [] \/ Pars recv -> nkw name -> Pars ps -> ResOk res -> Neutral body ->
  c10_go_decl (qkw "func" :: recv ++ QId name :: ps ++ res ++ QP 123 :: body ++ QP 125 :: rest) = Some rest.
Proof.
  intros Hrecv Hn [[pr Hp1] Hp2] Hres Hb. unfold c10_go_decl, qkw. change (str_eqb (lit "func") (lit "type")) with false.
  change (str_eqb (lit "func") (lit "const")) with false. change (str_eqb (lit "func") (lit "func")) with true. cbv beta iota.
  unfold c10_go_func_decl.
  assert (E1 : match recv ++ QId name :: ps ++ res ++ QP 123 :: body ++ QP 125 :: rest with
               | t :: _ => if c10_go_is_p 40 t then c10_go_params (recv ++ QId name :: ps ++ res ++ QP 123 :: body ++ QP 125 :: rest)
                           else Some (recv ++ QId name :: ps ++ res ++ QP 123 :: body ++ QP 125 :: rest)
               | [] => None
               end = Some (QId name :: ps ++ res ++ QP 123 :: body ++ QP 125 :: rest)).
  { destruct Hrecv as [-> | [[rr Hr1] Hr2]]; [reflexivity|]. rewrite Hr2. rewrite Hr1. reflexivity. }
  rewrite E1. cbn [c10_go_eat_name c10_go_is_name]. unfold nkw in Hn. rewrite Hn. cbn [negb]. rewrite Hp2.
  destruct Hres as [-> | [Ht | [[rr Hr1] Hr2]]].
  - cbn [app c10_go_is_p]. change (123 =? 123) with true. cbv beta iota. apply block_ok, Hb.
  - pose proof (ggr_tyhead _ _ Ht) as Hh. cbn in Hh.
    pose proof (ty_head_not res (QP 123 :: body ++ QP 125 :: rest) 123 Hh ltac:(lia) ltac:(lia)) as Ea.
    pose proof (ty_head_not res (QP 123 :: body ++ QP 125 :: rest) 40 Hh ltac:(lia) ltac:(lia)) as Eb.
    destruct (res ++ QP 123 :: body ++ QP 125 :: rest) as [|t0 r0] eqn:Et; [contradiction|]. rewrite Ea, Eb, <- Et.
    rewrite (go_type_ok _ _ Ht) by (apply folt_kp; lia). cbn [c10_go_is_p]. change (123 =? 123) with true. cbv beta iota. apply block_ok, Hb.
  - rewrite Hr1 at 1. cbn [app c10_go_is_p]. change (40 =? 123) with false. change (40 =? 40) with true. cbv beta iota.
    change (QP 40 :: rr ++ ?x) with ((QP 40 :: rr) ++ x). rewrite <- Hr1, Hr2. cbn [c10_go_is_p]. change (123 =? 123) with true. cbv beta iota. apply block_ok, Hb.
Qed.

(* ------------------------------------------------------------------ imports, the whole file *)
Fixpoint igroup_toks (n : nat) : list c10_gtok := match n with O => [QP 41] | S k => QStr :: QP 59 :: igroup_toks k end.
Definition imports_toks (n : nat) : list c10_gtok :=
  match n with
  | O => []
  | S O => [qkw "import"; QStr; QP 59]
  | _ => qkw "import" :: QP 40 :: igroup_toks n ++ [QP 59]
  end.

Lemma igroup_ok k : forall rest n, (k < n)%nat -> c10_go_group c10_go_import_spec n (igroup_toks k ++ rest) = Some rest.
Proof.
  induction k as [|k IH]; intros rest n Hn; (destruct n as [|n]; [lia|]); [reflexivity|].
  cbn [igroup_toks app c10_go_group c10_go_is_p c10_go_import_spec]. change (59 =? 59) with true. cbv beta iota. apply IH. lia.
Qed.
Lemma igroup_len k : (k < List.length (igroup_toks k))%nat.
Proof. induction k; cbn [igroup_toks List.length]; lia. Qed.

Definition DeclToks (d : list c10_gtok) : Prop :=
  (exists k r, d = QId k :: r /\ str_eqb k (lit "import") = false) /\ forall rest, c10_go_decl (d ++ QP 59 :: rest) = Some (QP 59 :: rest).

Definition decls_toks (ds : list (list c10_gtok)) : list c10_gtok := List.concat (map (fun d => d ++ [QP 59]) ds).

Lemma decls_ok ds : Forall DeclToks ds -> forall f, (List.length (decls_toks ds) < f)%nat ->
  c10_go_decls f (decls_toks ds) = Some (List.length ds).
Proof.
  unfold decls_toks. induction 1 as [|d ds [(k & r & -> & _) Hd] _ IH]; intros f Hf; (destruct f as [|f]; [lia|]); [reflexivity|].
  cbn [map List.concat]. rewrite <- app_assoc. cbn [app c10_go_decls List.length].
  change (QId k :: r ++ QP 59 :: ?x) with ((QId k :: r) ++ QP 59 :: x). rewrite Hd. cbn [c10_go_eat c10_go_is_p]. change (59 =? 59) with true. cbv beta iota.
  rewrite IH; [reflexivity|]. cbn [map List.concat] in Hf. rewrite !app_length in Hf. cbn [List.length] in Hf. lia.
Qed.

Lemma imports_ok n rest f : match rest with t :: _ => c10_go_is_kw "import" t = false | [] => True end -> (List.length (imports_toks n) < f)%nat ->
  c10_go_imports f (imports_toks n ++ rest) = Some rest.
Proof.
  intros Hr Hf. assert (Stop : forall g, c10_go_imports (S g) rest = Some rest).
  { intros g. cbn [c10_go_imports]. destruct rest as [|t r]; [reflexivity|]. rewrite Hr. reflexivity. }
  destruct n as [|[|n]]; [destruct f as [|f]; [cbn in Hf; lia|apply Stop]| |]; (destruct f as [|[|f]]; [cbn in Hf; lia|cbn in Hf; lia|]).
  - cbn [imports_toks app c10_go_imports]. change (c10_go_is_kw "import" (qkw "import")) with true. cbv beta iota.
    cbn [c10_go_import_decl c10_go_is_p c10_go_import_spec c10_go_eat]. change (59 =? 59) with true. cbv beta iota. apply Stop.
  - unfold imports_toks. cbn [app c10_go_imports]. change (c10_go_is_kw "import" (qkw "import")) with true. cbv beta iota.
    cbn [c10_go_import_decl c10_go_is_p]. change (40 =? 40) with true. cbv beta iota. rewrite <- app_assoc.
    rewrite igroup_ok; [|rewrite app_length; pose proof (igroup_len (S (S n))); lia].
    cbn [app c10_go_eat c10_go_is_p]. change (59 =? 59) with true. cbv beta iota. apply Stop.
Qed.

Theorem go_file_ok pkg n ds : nkw pkg -> Forall DeclToks ds ->
  c10_go_file (qkw "package" :: QId pkg :: QP 59 :: imports_toks n ++ decls_toks ds) = Some (List.length ds).
Proof.
  intros Hp Hd. unfold c10_go_file, qkw. cbn [c10_go_eat_kw c10_go_is_kw]. change (str_eqb (lit "package") (lit "package")) with true. cbv beta iota.
  cbn [c10_go_eat_name c10_go_is_name]. unfold nkw in Hp. rewrite Hp. cbn [negb c10_go_eat c10_go_is_p]. change (59 =? 59) with true. cbv beta iota.
  rewrite imports_ok.
  - apply decls_ok; [exact Hd|lia].
  - destruct Hd as [|d ds' [(k & r & -> & Hk) _] _]; [exact I|]. unfold decls_toks. cbn [map List.concat app c10_go_is_kw]. exact Hk.
  - rewrite app_length. lia.
Qed.
