(* C15 in MULTI-FILE (folder output, `-d`) mode, TypeScript and Kotlin (the two back ends that print import lines).
   The multi-file generators of Model/MultiFile.v write, per crate,
       begin_file ++ import lines ++ the items in topological order ++ end_file
   (Proofs/C11Multi.v gives this layout).  On top of the single-file proofs (Proofs/C15_TypeScript.v,
   Proofs/C15_KotlinFile.v): the import block - and Kotlin's per-crate package line - is code that keeps the reference
   lexer in code mode when the crate names and imported names are of the shapes of Spec/C15MultiSpec.v, so it
   contributes no doc site and the whole file decomposes into neutral code and the comment fragments of its items.
   TypeScript's printer state arrives from the previous crate: any state whose collected property names are printable raw
   between double quotes (ts_state_ok), re-established for the next crate. *)
From Coq Require Import List NArith Bool Lia ZifyBool ZifyN String Permutation.
From TS Require Import Model.Str Model.Outcome Model.Unicode Model.Types Model.Parse Model.Rename
                       Model.TopsortAlgo Model.Topsort Model.Lang.Common Model.Lang.Decl Model.Lang.TypeScript Model.Lang.Kotlin
                       Model.MultiFile.
From TS Require Import Spec.Lexers Spec.C15Spec Spec.C15Render Spec.C15RenderKtSc Spec.C15MultiSpec.
From TS Require Import Proofs.BackCommon Proofs.C15 Proofs.C15_Render Proofs.C15_Front Proofs.C15_TypeScript Proofs.C15_Kotlin
                       Proofs.C15_KotlinFile Proofs.C11Multi.
From TS Require Model.Writer Proofs.C10Multi.
Import ListNotations.
Local Open Scope N_scope.
Local Open Scope list_scope.

Lemma imports_entry {P : str * list str -> bool} im kv : forallb P im = true -> In kv im -> P kv = true.
Proof. intros H Hin. rewrite forallb_forall in H. exact (H kv Hin). Qed.

(* ---------------------------------------------------------------- TypeScript *)
(* `import { A, B } from "./crate";` *)
Lemma ts_import_line_neutral c ns : c15_ts_key_ok c = true -> forallb (c15_plain C15ts) ns = true ->
  NT (lit "import { " ++ join (lit ", ") ns ++ lit " } from ""./" ++ c ++ lit """;" ++ nl).
Proof.
  intros Hc Hn. apply c15_neutral_app; [vm_compute; reflexivity|]. apply c15_neutral_app.
  - apply c15_neutral_join; [vm_compute; reflexivity|]. apply Forall_forall. intros n Hin. apply c15_neutral_plain.
    rewrite forallb_forall in Hn. exact (Hn n Hin).
  - unfold c15_neutral. rewrite !lex_str_app. change (c15_cfg C15ts) with cfg_ts.
    change (lex_str_gen cfg_ts LCode (lit " } from ""./")) with (LStr ch_dq false). rewrite (ts_raw_lex c Hc). reflexivity.
Qed.

Lemma ts_write_imports_neutral im : c15_ts_imports_ok im = true -> NT (ts_write_imports im).
Proof.
  intros Him. unfold ts_write_imports. apply c15_neutral_app; [|vm_compute; reflexivity].
  apply c15_neutral_flat_map. intros [c ns] Hin. pose proof (imports_entry _ _ Him Hin) as H. cbn [fst snd] in H.
  apply andb_true_iff in H as [Hc Hn]. cbn [fst snd]. exact (ts_import_line_neutral c ns Hc Hn).
Qed.

Section TSMulti.
Variable uc : unicode.
Variable cfg : ts_config.
Hypothesis Hmap : c15_mappings_plain C15ts (ts_type_mappings cfg) = true.

Theorem ts_multi_file_decomp st im pd text st' :
  c15_no_star (ts_version cfg) = true ->
  forallb (c15_item_plain C15ts TypeScript (ts_const_name uc)) (items_of pd) = true ->
  forallb c15_ts_item_keys_ok (items_of pd) = true ->
  c15_ts_imports_ok im = true -> ts_state_ok st = true ->
  ts_generate_multi uc cfg st im pd = Ok (text, st') ->
  exists items trailer,
    topsort (items_of pd) = Ok items /\ Permutation items (items_of pd) /\
    (trailer = [] \/ trailer = c15_ts_trailer_docs) /\
    D text (c15_sites false (flat_map c15_item_docs items ++ trailer)) /\ ts_state_ok st' = true.
Proof.
  intros Hv Hp Hk Him Hst H. apply ts_multi_sorted in H as (items & parts & (Htop & Hperm & _) & Hw & ->).
  rewrite <- (c15_forallb_perm _ _ _ Hperm) in Hp. rewrite <- (c15_forallb_perm _ _ _ Hperm) in Hk.
  apply mmapM_writes_seq in Hw.
  destruct (ts_items_decomp uc cfg Hmap items _ _ _ Hp Hk Hw Hst) as [HD Hst'].
  exists items, (match st' with [] => [] | _ => c15_ts_trailer_docs end). repeat split; auto.
  - destruct st'; auto.
  - unfold c15_sites. rewrite map_app, <- (app_nil_l (map _ (flat_map _ _) ++ _)).
    apply Decomp_app; [apply Decomp_code; now apply ts_begin_neutral|].
    rewrite <- (app_nil_l (map _ (flat_map _ _) ++ _)).
    apply Decomp_app; [apply Decomp_code; now apply ts_write_imports_neutral|].
    apply Decomp_app; [exact HD|]. now apply ts_end_file_decomp.
Qed.

Theorem C15_ts_multi_file st im pd text st' :
  c15_no_star (ts_version cfg) = true ->
  forallb (c15_item_plain C15ts TypeScript (ts_const_name uc)) (items_of pd) = true ->
  forallb c15_ts_item_keys_ok (items_of pd) = true ->
  c15_ts_imports_ok im = true -> ts_state_ok st = true ->
  ts_generate_multi uc cfg st im pd = Ok (text, st') ->
  exists items trailer parts,
    topsort (items_of pd) = Ok items /\ Permutation items (items_of pd) /\
    (trailer = [] \/ trailer = c15_ts_trailer_docs) /\
    text = text_of (c15_file_pieces C15ts parts) /\
    docs_of (c15_file_pieces C15ts parts) = map c15_esc_ts (flat_map c15_item_docs items ++ trailer) /\
    c15_contained C15ts LCode (mark (c15_file_pieces C15ts parts)) = true /\
    ts_state_ok st' = true.
Proof.
  intros Hv Hp Hk Him Hst H.
  destruct (ts_multi_file_decomp _ _ _ _ _ Hv Hp Hk Him Hst H) as (items & trailer & Ht & Hperm & Htr & HD & Hst').
  destruct (Decomp_contained _ _ _ HD) as (ps & Htext & Hd & Hc).
  exists items, trailer, ps. rewrite c15_sites_text_ts in Hd. rewrite c15_sites_ok_ts in Hc.
  repeat split; auto.
Qed.
End TSMulti.

(* ---------------------------------------------------------------- Kotlin *)
Section KTMulti.
Variable uc : unicode.
Variable cfg : kt_config.
Hypothesis Hprefix : c15_plain C15kt (kt_prefix cfg) = true.
Hypothesis Hmap : c15_mappings_plain C15kt (kt_type_mappings cfg) = true.
Hypothesis Hpkg : c15_plain C15kt (kt_package cfg) = true.
Hypothesis Hversion : c15_version_nested_ok (kt_version cfg) = true.

(* version comment, `package <package>.<crate>`, the two fixed imports *)
Lemma kt_begin_multi_neutral c : c15_plain C15kt c = true -> NK (kt_begin_file_multi cfg c).
Proof.
  intros Hc. unfold kt_begin_file_multi. destruct (kt_package cfg) as [|p0 pr] eqn:Ep; [reflexivity|]. rewrite <- Ep in *.
  apply c15_neutral_app.
  - destruct (kt_no_version_header cfg); [reflexivity|]. now apply kt_version_comment_neutral.
  - apply c15_neutral_app; [vm_compute; reflexivity|].
    apply c15_neutral_app; [now apply c15_neutral_plain|].
    apply c15_neutral_app; [vm_compute; reflexivity|].
    apply c15_neutral_app; [now apply c15_neutral_plain|]. vm_compute; reflexivity.
Qed.

(* `import <package>.<crate>.<prefix><A>` per imported name (the prefix since fix 26 of /repo), then an empty line *)
Lemma kt_write_imports_neutral im : c15_kt_imports_ok im = true -> NK (kt_write_imports cfg im).
Proof.
  intros Him. unfold kt_write_imports. apply c15_neutral_app; [|vm_compute; reflexivity].
  apply c15_neutral_flat_map. intros [c ns] Hin. pose proof (imports_entry _ _ Him Hin) as H. cbn [fst snd] in H.
  apply andb_true_iff in H as [Hc Hn]. cbn [fst snd].
  apply c15_neutral_flat_map. intros t Ht. rewrite forallb_forall in Hn.
  apply c15_neutral_app; [vm_compute; reflexivity|].
  apply c15_neutral_app; [now apply c15_neutral_plain|].
  apply c15_neutral_app; [vm_compute; reflexivity|].
  apply c15_neutral_app; [now apply c15_neutral_plain|].
  apply c15_neutral_app; [vm_compute; reflexivity|].
  apply c15_neutral_app; [now apply c15_neutral_plain|].
  apply c15_neutral_app; [apply c15_neutral_plain, (Hn t Ht)|vm_compute; reflexivity].
Qed.

Theorem kt_multi_file_decomp c im pd text :
  forallb (c15_item_strict C15kt Kotlin) (items_of pd) = true ->
  c15_plain C15kt c = true -> c15_kt_imports_ok im = true ->
  kt_generate_multi uc cfg c im pd = Ok text ->
  exists items,
    topsort (items_of pd) = Ok items /\ Permutation items (items_of pd) /\
    DK text (c15_sites false (flat_map c15_item_docs_helpers_first items)).
Proof.
  intros Hp Hc Him H. apply kt_multi_sorted in H as (items & parts & (Htop & Hperm & _) & Hw & ->).
  rewrite <- (c15_forallb_perm _ _ _ Hperm) in Hp. apply mapM_writes_list in Hw.
  exists items. repeat split; auto.
  rewrite <- (app_nil_l (c15_sites false _)). apply Decomp_app; [apply Decomp_code; now apply kt_begin_multi_neutral|].
  rewrite <- (app_nil_l (c15_sites false _)). apply Decomp_app; [apply Decomp_code; now apply kt_write_imports_neutral|].
  exact (kt_items_decomp cfg Hprefix Hmap items _ Hp Hw).
Qed.

Theorem C15_kt_multi_file c im pd text :
  forallb (c15_item_strict C15kt Kotlin) (items_of pd) = true ->
  c15_plain C15kt c = true -> c15_kt_imports_ok im = true ->
  kt_generate_multi uc cfg c im pd = Ok text ->
  exists items parts,
    topsort (items_of pd) = Ok items /\ Permutation items (items_of pd) /\
    text = text_of (c15_file_pieces C15kt parts) /\
    docs_of (c15_file_pieces C15kt parts) = flat_map c15_item_docs_helpers_first items /\
    c15_contained C15kt LCode (mark (c15_file_pieces C15kt parts)) =
    forallb safe_kt (flat_map c15_item_docs_helpers_first items).
Proof.
  intros Hp Hc Him H. destruct (kt_multi_file_decomp _ _ _ _ Hp Hc Him H) as (items & Ht & Hperm & HD).
  destruct (Decomp_contained _ _ _ HD) as (ps & Htext & Hd & Hcont).
  exists items, ps. rewrite c15_sites_text_line in Hd by discriminate. rewrite c15_sites_ok_false in Hcont by discriminate.
  repeat split; auto.
Qed.

(* parsed programs: all doc strings free of line breaks, the file is contained *)
Theorem C15_kt_multi_file_line_free c im pd text :
  forallb (c15_item_strict C15kt Kotlin) (items_of pd) = true ->
  Forall (fun it => Forall c15_line_free (c15_item_docs it)) (items_of pd) ->
  c15_plain C15kt c = true -> c15_kt_imports_ok im = true ->
  kt_generate_multi uc cfg c im pd = Ok text ->
  exists items parts,
    topsort (items_of pd) = Ok items /\ Permutation items (items_of pd) /\
    text = text_of (c15_file_pieces C15kt parts) /\
    docs_of (c15_file_pieces C15kt parts) = flat_map c15_item_docs_helpers_first items /\
    c15_contained C15kt LCode (mark (c15_file_pieces C15kt parts)) = true.
Proof.
  intros Hp Hfree Hc Him H. destruct (C15_kt_multi_file _ _ _ _ Hp Hc Him H) as (items & ps & Ht & Hperm & Htext & Hd & Hcont).
  exists items, ps. repeat split; auto. rewrite Hcont.
  apply forallb_forall. intros d Hin. apply in_flat_map in Hin as (it & Hit & Hd0).
  assert (Hin0 : In it (items_of pd)) by (eapply Permutation_in; eauto).
  rewrite Forall_forall in Hfree. rewrite forallb_forall in Hp.
  specialize (Hfree it Hin0). specialize (Hp it Hin0).
  assert (Hall : forallb (c15_safe C15kt false) (c15_item_docs_helpers_first it) = true).
  { rewrite c15_helpers_first_safe.
    rewrite (c15_line_free_forallb _ (c15_generated_free _ _ _ Hp) C15kt false).
    exact (c15_line_free_forallb _ Hfree C15kt false). }
  rewrite forallb_forall in Hall. exact (Hall d Hd0).
Qed.
End KTMulti.

(* ---------------------------------------------------------------- the whole run: generate_crates *)
(* TypeScript: the printer state is threaded from the empty initial state through the crates of the plan; every file that
   is generated is code parts and comment fragments, and contained - whatever the doc strings are *)
Definition c15_ts_plan_ok (uc : unicode) (plan : list out_plan) : bool :=
  forallb (fun p => forallb (c15_item_plain C15ts TypeScript (ts_const_name uc)) (items_of (op_data p)) &&
                    forallb c15_ts_item_keys_ok (items_of (op_data p)) && c15_ts_imports_ok (op_imports p)) plan.

Theorem C15_ts_multi_run uc cfg (plan : list out_plan) files fin :
  c15_mappings_plain C15ts (ts_type_mappings cfg) = true -> c15_no_star (ts_version cfg) = true ->
  c15_ts_plan_ok uc plan = true ->
  generate_crates (fun st (_ : str) im pd => ts_generate_multi uc cfg st im pd) [] plan = (files, fin) ->
  forall f text, In (f, Model.Writer.Generated text) files ->
    exists parts, text = text_of (c15_file_pieces C15ts parts) /\
                  c15_contained C15ts LCode (mark (c15_file_pieces C15ts parts)) = true.
Proof.
  intros Hmap Hv Hplan.
  eapply Proofs.C10Multi.generate_crates_good with
    (Inv := fun s => ts_state_ok s = true)
    (Okp := fun p => forallb (c15_item_plain C15ts TypeScript (ts_const_name uc)) (items_of (op_data p)) = true /\
                     forallb c15_ts_item_keys_ok (items_of (op_data p)) = true /\ c15_ts_imports_ok (op_imports p) = true);
    [| |reflexivity].
  - intros st p text st' Hs (Hp & Hk & Hi) Hg. cbn beta in Hg.
    destruct (C15_ts_multi_file uc cfg Hmap _ _ _ _ _ Hv Hp Hk Hi Hs Hg) as (items & trailer & ps & _ & _ & _ & Ht & _ & Hc & Hs').
    split; [exists ps; split; assumption|exact Hs'].
  - unfold c15_ts_plan_ok in Hplan. rewrite forallb_forall in Hplan. apply Forall_forall. intros p Hin.
    specialize (Hplan p Hin). rewrite !andb_true_iff in Hplan. tauto.
Qed.

(* Kotlin (stateless): every generated file of a plan whose doc strings are free of line breaks (every parsed item) is
   contained *)
Definition c15_kt_plan_ok (plan : list out_plan) : bool :=
  forallb (fun p => forallb (c15_item_strict C15kt Kotlin) (items_of (op_data p)) && c15_plain C15kt (op_crate p) &&
                    c15_kt_imports_ok (op_imports p)) plan.

Theorem C15_kt_multi_run uc cfg (plan : list out_plan) files fin :
  c15_plain C15kt (kt_prefix cfg) = true -> c15_mappings_plain C15kt (kt_type_mappings cfg) = true ->
  c15_plain C15kt (kt_package cfg) = true -> c15_version_nested_ok (kt_version cfg) = true ->
  c15_kt_plan_ok plan = true ->
  Forall (fun p => Forall (fun it => Forall c15_line_free (c15_item_docs it)) (items_of (op_data p))) plan ->
  generate_crates (fun (st : unit) c im pd => Proofs.C10Multi.wrap_unit st (kt_generate_multi uc cfg c im pd)) tt plan = (files, fin) ->
  forall f text, In (f, Model.Writer.Generated text) files ->
    exists parts, text = text_of (c15_file_pieces C15kt parts) /\
                  c15_contained C15kt LCode (mark (c15_file_pieces C15kt parts)) = true.
Proof.
  intros Hprefix Hmap Hpkg Hver Hplan Hfree.
  eapply Proofs.C10Multi.generate_crates_good with
    (Inv := fun _ : unit => True)
    (Okp := fun p => (forallb (c15_item_strict C15kt Kotlin) (items_of (op_data p)) = true /\ c15_plain C15kt (op_crate p) = true /\
                      c15_kt_imports_ok (op_imports p) = true) /\
                     Forall (fun it => Forall c15_line_free (c15_item_docs it)) (items_of (op_data p)));
    [| |exact I].
  - intros st p text st' _ ((Hp & Hc & Hi) & Hf) Hg. cbn beta in Hg. split; [|exact I].
    destruct (kt_generate_multi uc cfg (op_crate p) (op_imports p) (op_data p)) as [t| |] eqn:E; try discriminate.
    injection Hg as <- _.
    destruct (C15_kt_multi_file_line_free uc cfg Hprefix Hmap Hpkg Hver _ _ _ _ Hp Hf Hc Hi E) as (items & ps & _ & _ & Ht & _ & Hcont).
    exists ps. split; assumption.
  - unfold c15_kt_plan_ok in Hplan. rewrite forallb_forall in Hplan. rewrite Forall_forall in Hfree. apply Forall_forall. intros p Hin.
    specialize (Hplan p Hin). rewrite !andb_true_iff in Hplan. split; [tauto|exact (Hfree p Hin)].
Qed.
