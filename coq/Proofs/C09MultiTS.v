(* C09 in folder mode, TypeScript: the names spelled in the file generated for crate b.  Decision layer
   (ts_decl_of, for every printer state: the state only collects the types that need a reviver), then the whole
   text of ts_generate_multi: header, import lines, one rendered declaration per item. *)
From Coq Require Import List Bool String Permutation.
From TS Require Import Model.Str Model.Outcome Model.Unicode Model.Types Model.Parse Model.Reconcile Model.Collect
                       Model.TopsortAlgo Model.Topsort Model.Lang.Common Model.Lang.Decl Model.Lang.TypeScript Model.MultiFile.
From TS Require Import Spec.C09Spec Spec.C09MultiSpec.
From TS Require Import Proofs.C14Front Proofs.C06Multi Proofs.C09Common Proofs.C09Recon Proofs.C09Refs Proofs.C09Lang
                       Proofs.C09_TypeScript Proofs.C09Multi Proofs.C11Multi.
Import ListNotations.

Local Notation ts_names_ok x t :=
  (forall n, In n (texp_names x) -> c09_builtin TypeScript n = true \/ exists form i, In (form, i) (c09_type_ids t) /\ n = i).

(* the types of a reconciled crate are the types of the crate *)
Lemma c9m_type_ids_reconciled rn cn pd x : In x (type_ids (reconcile_crate rn cn pd)) -> In x (type_ids pd).
Proof.
  unfold type_ids, reconcile_crate. cbn [p_structs p_enums p_aliases]. rewrite !in_app_iff, !in_map_iff.
  intros [(s' & <- & H)|[(e' & <- & H)|(a' & <- & H)]].
  - apply c09_stable_sort_in, in_map_iff in H as (s & <- & Hs). left. exists s. auto.
  - apply c09_stable_sort_in, in_map_iff in H as (e & <- & He). right. left. exists e. split; [destruct e; reflexivity|exact He].
  - apply c09_stable_sort_in, in_map_iff in H as (a & <- & Ha). right. right. exists a. auto.
Qed.

Lemma c9m_multi_type_ids ho (l : list (str * parsed)) b pd' x :
  In (b, pd') (multi_crates ho l) -> In x (type_ids pd') -> In x (c9m_crate_types l b).
Proof.
  intros Hin Hx. unfold multi_crates, reconcile_aliases in Hin. apply in_map_iff in Hin as ([k pd] & E & Hpd). cbn [fst snd] in E. injection E as <- <-.
  apply c9m_type_ids_reconciled in Hx. apply order_imports_entry in Hpd as (p & Hp & ->).
  change (type_ids (with_imports p (imports_iter ho p))) with (type_ids p) in Hx.
  apply collect_entry in Hp as [_ ->]. apply collect_single_type_ids in Hx. exact Hx.
Qed.

Section TSM.
Variables (uc : unicode) (cfg : ts_config) (ho : list imported -> list imported) (l : list (str * parsed)).
Hypothesis Hho : oracle_ok ho.
Hypothesis Hwf : c9m_ids_wf l = true.
Variables (b : str) (pd' : parsed).
Hypothesis Hin : In (b, pd') (multi_crates ho l).

Notation ref_ok := (c9m_ref_ok l b []).

Lemma c9m_ts_refs tp' owner x :
  In tp' (c09_tposs pd') -> ts_names_ok x (c9t_type tp') ->
  forall r, In r (c09_type_refs TypeScript owner (c9t_pos tp') x) -> ref_ok r.
Proof.
  intros Htp Hn r Hr. unfold c09_type_refs in Hr. apply in_map_iff in Hr as (n & <- & Hnn). apply filter_In in Hnn as [Hnn Hb].
  apply negb_true_iff in Hb. destruct (Hn n Hnn) as [C|(form & i' & Hi & ->)]; [congruence|].
  destruct (c9m_multi_reconciled_mentions ho l Hho Hwf b pd' Hin tp' form i' Htp Hi) as (tp & i & _ & _ & Hpos & Hi0 & (f & Hf & Htpf) & Hall).
  exists f, tp, form, i. split; [exact Hf|]. split; [exact Htpf|]. split; [exact Hi0|]. split; [exact Hpos|].
  intros Hk s Hs. cbn [c9_name]. rewrite (Hall f Hf Htpf Hk s Hs). destruct (mem_str i (c9t_generics tp)); reflexivity.
Qed.

Lemma c9m_ts_members gs fs ms owner (mk : rfield -> c09_tpos) :
  Forall2 (fun f' m => exists s1 s2, ts_member_of cfg gs f' s1 = Ok (m, s2)) fs ms ->
  (forall f, In f fs -> In (mk f) (c09_tposs pd') /\ c9t_pos (mk f) = C9Field /\ c9t_type (mk f) = fty f) ->
  forall r, In r (flat_map (fun m => c09_type_refs TypeScript owner C9Field (mb_type m)) (map ts_obs_member ms)) -> ref_ok r.
Proof.
  intros F Hmk r Hr. apply in_flat_map in Hr as (m' & Hm' & Hr). apply in_map_iff in Hm' as (m & <- & Hm).
  destruct (c09_Forall2_in_r _ _ _ _ F Hm) as (f & Hf & s1 & s2 & Em).
  destruct (Hmk f Hf) as (Htp & Hpos & Hty). cbn [ts_obs_member mb_type] in Hr. rewrite <- Hpos in Hr.
  eapply c9m_ts_refs; [exact Htp| |exact Hr]. rewrite Hty. exact (ts_member_names cfg gs _ _ _ _ Em).
Qed.

Definition c9m_ts_decl_ok (d : ts_decl) : Prop :=
  (c09_is_def (ts_obs d) = true -> c9m_def_ok l b [] (d_name (ts_obs d))) /\
  (forall r, In r (c09_decl_refs TypeScript (ts_obs d)) -> ref_ok r).

Lemma c9m_def_of_id i : In i (type_ids pd') -> c9m_def_ok l b [] (renamed i).
Proof. intros H. exists i. split; [exact (c9m_multi_type_ids ho l b pd' i Hin H)|reflexivity]. Qed.

(* one item of the reconciled crate, any printer state *)
Theorem c9m_ts_item it' d s1 s2 : In it' (items_of pd') -> ts_decl_of uc cfg it' s1 = Ok (d, s2) -> c9m_ts_decl_ok d.
Proof.
  intros Hit Hd. unfold items_of in Hit. rewrite !in_app_iff, !in_map_iff in Hit.
  destruct Hit as [(a & <- & Ha)|[(s & <- & Hs)|[(e & <- & He)|(c & <- & Hc)]]]; cbn [ts_decl_of] in Hd.
  - (* alias *)
    c09_bind Hd ty s3 E. c09_ret Hd. split.
    + intros _. cbn [ts_obs d_name]. apply c9m_def_of_id. unfold type_ids. rewrite !in_app_iff, !in_map_iff. right. right. exists a. auto.
    + intros r Hr. unfold c09_decl_refs in Hr. cbn [ts_obs d_kind d_name d_type] in Hr.
      eapply (c9m_ts_refs {| c9t_owner := aid a; c9t_generics := agenerics a; c9t_pos := C9Alias; c9t_type := atype a |});
        [apply c09_tp_alias; exact Ha| |exact Hr].
      exact (ts_texp_names cfg _ _ _ _ _ E).
  - (* struct *)
    c09_bind Hd ms s3 E. c09_ret Hd. apply c09_mmapM_Forall2 in E. split.
    + intros _. cbn [ts_obs d_name]. apply c9m_def_of_id. unfold type_ids. rewrite !in_app_iff, !in_map_iff. left. exists s. auto.
    + intros r Hr. unfold c09_decl_refs in Hr. cbn [ts_obs d_kind d_name d_members d_variants flat_map] in Hr. rewrite app_nil_r in Hr.
      eapply (c9m_ts_members (sgenerics s) (sfields s) ms _
                (fun f => {| c9t_owner := sid s; c9t_generics := sgenerics s; c9t_pos := C9Field; c9t_type := fty f |})); [exact E| |exact Hr].
      intros f Hf. split; [apply c09_tp_struct; assumption|]. split; reflexivity.
  - (* enum *)
    assert (Hid : In (eid (enum_shared e)) (type_ids pd')).
    { unfold type_ids. rewrite !in_app_iff, !in_map_iff. right. left. exists e. auto. }
    destruct e as [sh|tag content sh]; cbn [enum_shared] in *.
    + c09_bind Hd vs s3 E. c09_ret Hd. split.
      * intros _. cbn [ts_obs d_name]. apply c9m_def_of_id. exact Hid.
      * intros r Hr. unfold c09_decl_refs in Hr. cbn [ts_obs d_kind d_name d_members d_variants flat_map app] in Hr.
        apply in_flat_map in Hr as (v & Hv & Hr). apply in_map_iff in Hv as ([[vd vc] vw] & <- & _). cbn in Hr. destruct Hr.
    + c09_bind Hd vs s3 E. c09_ret Hd. split.
      * intros _. cbn [ts_obs d_name]. apply c9m_def_of_id. exact Hid.
      * intros r Hr. unfold c09_decl_refs in Hr. cbn [ts_obs d_kind d_name d_members d_variants flat_map app] in Hr.
        apply in_flat_map in Hr as (vd & Hvd & Hr). apply in_map_iff in Hvd as (tv & <- & Htv).
        apply c09_mmapM_Forall2 in E.
        destruct (c09_Forall2_in_r _ _ _ _ E Htv) as (v & Hv & sa & sb & Ev).
        destruct v as [vsh|t vsh|fs vsh]; cbn [ts_variant_of] in Ev.
        -- c09_ret Ev. cbn in Hr. destruct Hr.
        -- c09_bind Ev ty s4 Et. c09_ret Ev. cbn [ts_obs_variant vd_parent vd_payload app] in Hr.
           eapply (c9m_ts_refs {| c9t_owner := eid sh; c9t_generics := egenerics sh; c9t_pos := C9Payload; c9t_type := t |});
             [apply (c09_tp_tuple pd' (EAlgebraic tag content sh) t vsh He Hv)| |exact Hr].
           exact (ts_texp_names cfg _ _ _ _ _ Et).
        -- c09_bind Ev ms s4 Em. c09_ret Ev. cbn [ts_obs_variant vd_parent vd_payload app] in Hr. apply c09_mmapM_Forall2 in Em.
           eapply (c9m_ts_members (egenerics sh) fs ms _
                     (fun f => {| c9t_owner := eid sh; c9t_generics := egenerics sh; c9t_pos := C9Field; c9t_type := fty f |})); [exact Em| |exact Hr].
           intros f Hf. split; [apply (c09_tp_anon pd' (EAlgebraic tag content sh) fs vsh f He Hv Hf)|]. split; reflexivity.
  - (* const: not a definition *)
    c09_bind Hd ty s3 E. c09_ret Hd. split; [cbn; discriminate|].
    intros r Hr. unfold c09_decl_refs in Hr. cbn [ts_obs d_kind d_name d_type] in Hr.
    eapply (c9m_ts_refs {| c9t_owner := cid c; c9t_generics := []; c9t_pos := C9Const; c9t_type := ctype c |}); [apply c09_tp_const; exact Hc| |exact Hr].
    exact (ts_texp_names cfg _ _ _ _ _ E).
Qed.

(* the pieces of a file are the rendered declarations of its items *)
Lemma c9m_ts_pieces items : forall st parts st',
  writes_seq (ts_write_item uc cfg) items st parts st' -> (forall it, In it items -> In it (items_of pd')) ->
  exists ds, parts = map ts_render_decl ds /\ Forall c9m_ts_decl_ok ds.
Proof.
  induction items as [|it items IH]; intros st parts st' Hw Hsub; inversion Hw as [|x r st0 p st1 ps st2 Ex Hr]; subst.
  - exists []. split; [reflexivity|constructor].
  - unfold ts_write_item in Ex. c09_bind Ex d s3 Ed. c09_ret Ex.
    destruct (IH _ _ _ Hr (fun it0 H => Hsub it0 (or_intror H))) as (ds & -> & Hds).
    exists (d :: ds). split; [reflexivity|]. constructor; [|exact Hds].
    exact (c9m_ts_item it d st s3 (Hsub it (or_introl eq_refl)) Ed).
Qed.

(* the whole file of crate b, whatever state the TypeScript value is in when the crate is reached *)
Theorem c9m_ts_file st im text st' :
  ts_generate_multi uc cfg st im pd' = Ok (text, st') ->
  exists ds, text = ts_begin_file cfg ++ ts_write_imports im ++ List.concat (map ts_render_decl ds) ++ ts_end_file st' /\
             Forall c9m_ts_decl_ok ds.
Proof.
  intros H. apply ts_multi_sorted in H as (out & parts & (_ & Hperm & _) & Hw & ->).
  destruct (c9m_ts_pieces out st parts st' Hw) as (ds & -> & Hds).
  - intros it Hit. eapply Permutation_in; [exact Hperm|exact Hit].
  - exists ds. split; [reflexivity|exact Hds].
Qed.
End TSM.
