(* Pinned statements for C14: compiled on every check run. A statement weakened in Props/ fails here. *)
From Coq Require Import List Permutation String.
From TS Require Import Model.Str Model.Outcome Model.Unicode Model.Syntax Model.Types Model.Parse Model.Reconcile Model.Collect Model.MultiFile.
From TS Require Import Spec.C14Spec.
From TS Require Proofs.C14.
Import ListNotations.
From TS Require Props.C14.

Goal forall pre above post, ~ In SRC post ->
    find_crate_name (pre ++ above :: SRC :: post) = Some (replace_char ch_dash ch_us above).
Proof. exact Props.C14.C14_find_crate_name_last_src. Qed.
Print Assumptions Props.C14.C14_find_crate_name_last_src.
