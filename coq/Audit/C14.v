(* Pinned statements for C14: compiled on every check run. A statement weakened in Props/ fails here. *)
From Coq Require Import List Permutation String.
From TS Require Import Model.Str Model.Outcome Model.Unicode Model.Syntax Model.Rename Model.Types Model.Parse Model.Reconcile Model.Collect Model.Lang.Common Model.MultiFile.
From TS Require Model.Writer.
From TS Require Import Spec.C14Spec.
From TS Require Import Model.Lang.Decl Model.Lang.Kotlin Spec.C14KotlinSpec.
From TS Require Proofs.C14 Proofs.C14Front Proofs.C14Main Proofs.C14Imports Proofs.C14Order Proofs.C14Witness Proofs.C14Kotlin.
Import ListNotations.
Local Open Scope string_scope.
From TS Require Props.C14.

Goal forall pre above post, ~ In SRC post ->
    find_crate_name (pre ++ above :: SRC :: post) = Some (replace_char ch_dash ch_us above).
Proof. exact Props.C14.C14_find_crate_name_last_src. Qed.
Print Assumptions Props.C14.C14_find_crate_name_last_src.
Goal forall components, find_crate_name components = crate_of components.
Proof. exact Props.C14.C14_find_crate_name_spec. Qed.
Print Assumptions Props.C14.C14_find_crate_name_spec.
Goal forall components c, crate_of components = Some c <-> is_crate_of components c.
Proof. exact Props.C14.C14_crate_of_iff. Qed.
Print Assumptions Props.C14.C14_crate_of_iff.
Goal forall components, ~ In SRC components -> find_crate_name components = None.
Proof. exact Props.C14.C14_find_crate_name_no_src. Qed.
Print Assumptions Props.C14.C14_find_crate_name_no_src.
Goal forall components c, find_crate_name components = Some c -> ~ In ch_dash c.
Proof. exact Props.C14.C14_find_crate_name_dashes. Qed.
Print Assumptions Props.C14.C14_find_crate_name_dashes.
Goal forall l c, l <> Swift -> output_file_name l c = file_name14 l c.
Proof. exact Props.C14.C14_output_file_name_spec. Qed.
Print Assumptions Props.C14.C14_output_file_name_spec.
Goal forall c, conventional_crate c = true -> output_file_name Swift c = file_name14 Swift c.
Proof. exact Props.C14.C14_swift_file_name_spec. Qed.
Print Assumptions Props.C14.C14_swift_file_name_spec.
Goal forall l a b, l <> Swift -> output_file_name l a = output_file_name l b -> a = b.
Proof. exact Props.C14.C14_output_file_name_injective. Qed.
Print Assumptions Props.C14.C14_output_file_name_injective.
Goal lit "a_b" <> lit "a__b" /\ output_file_name Swift (lit "a_b") = output_file_name Swift (lit "a__b").
Proof. exact Props.C14.C14_swift_file_collision_refuted. Qed.
Print Assumptions Props.C14.C14_swift_file_collision_refuted.
Goal forall (uc : unicode) (T ign : list str) (ho_file ho_crate : list imported -> list imported)
         (hc : crate_types -> crate_types) (l : lang) (ws : list ws_entry) (arrivals : list (str * parsed)),
    parse_workspace uc T ign ho_file ws = Ok arrivals ->
    let plan := multi_plan l hc (multi_crates ho_crate arrivals) in
    NoDup (map op_crate plan) /\
    (forall p, In p plan -> op_file p = output_file_name l (op_crate p)) /\
    (forall c, In c (map op_crate plan) <->
       exists e pd0, In e ws /\ find_crate_name (we_path e) = Some c /\ parse_file uc (we_tstr e) T (we_file e) = Ok (Some pd0)) /\
    (forall p, In p plan ->
       Permutation (map c14_decl (items_of (op_data p)))
                   (map c14_decl (crate_items (Proofs.C14Main.c14_infos uc T ws) (op_crate p)))).
Proof. exact Props.C14.C14_partition. Qed.
Print Assumptions Props.C14.C14_partition.
Goal forall (uc : unicode) (T ign : list str) (ho_file ho_crate : list imported -> list imported)
         (hc : crate_types -> crate_types) (l : lang) (ws : list ws_entry) (arrivals : list (str * parsed)),
    parse_workspace uc T ign ho_file ws = Ok arrivals -> l <> Swift ->
    NoDup (map op_file (multi_plan l hc (multi_crates ho_crate arrivals))).
Proof. exact Props.C14.C14_partition_files_distinct. Qed.
Print Assumptions Props.C14.C14_partition_files_distinct.
Goal forall (uc : unicode) (T ign : list str) (ho_file ho_crate : list imported -> list imported)
         (hc : crate_types -> crate_types) (l : lang) (ws : list ws_entry) (arrivals : list (str * parsed)) (singles : list parsed),
    parse_workspace uc T ign ho_file ws = Ok arrivals ->
    parse_workspace_single uc T (crate_entries ws) = Ok singles ->
    Permutation (flat_map (fun p => map c14_decl (items_of (op_data p))) (multi_plan l hc (multi_crates ho_crate arrivals)))
                (map c14_decl (items_of (single_file_input singles))).
Proof. exact Props.C14.C14_partition_same_as_single_file. Qed.
Print Assumptions Props.C14.C14_partition_same_as_single_file.
Goal forall (uc : unicode) (T ign : list str) (ho_file : list imported -> list imported) (ws : list ws_entry) (arrivals : list (str * parsed)),
    parse_workspace uc T ign ho_file ws = Ok arrivals ->
    parse_workspace_single uc T (crate_entries ws) = Ok (map (fun a => Proofs.C14Front.core (snd a)) arrivals).
Proof. exact Props.C14.C14_single_file_front_end_agrees. Qed.
Print Assumptions Props.C14.C14_single_file_front_end_agrees.
Goal forall (St : Type) (gen : St -> str -> scoped -> parsed -> outcome (str * St)) (plan : list out_plan) (st st' : St),
    snd (generate_crates gen st plan) = Ok st' ->
    map fst (fst (generate_crates gen st plan)) = map op_file plan /\
    Forall (fun r => exists text, snd r = Writer.Generated text) (fst (generate_crates gen st plan)).
Proof. exact Props.C14.C14_files_written. Qed.
Print Assumptions Props.C14.C14_files_written.
Goal forall (hc : crate_types -> crate_types) (cs : crates) (cn : str) (pd : parsed) (k n : str),
    (forall l x, In x (hc l) -> In x l) ->
    In (k, n) (scoped_pairs (crate_imports hc cs cn pd)) ->
    k <> cn /\ exists names, In (k, names) (all_types cs) /\ In n names.
Proof. exact Props.C14.C14_imports_sound. Qed.
Print Assumptions Props.C14.C14_imports_sound.
Goal forall (uc : unicode) (T ign : list str) (ho_file ho_crate : list imported -> list imported)
         (hc : crate_types -> crate_types) (ws : list ws_entry) (arrivals : list (str * parsed)),
    parse_workspace uc T ign ho_file ws = Ok arrivals ->
    forall c pd, (forall l x, In x (hc l) -> In x l) ->
      unsound_imports (Proofs.C14Main.c14_infos uc T ws) c
        (scoped_pairs (crate_imports hc (multi_crates ho_crate arrivals) c pd)) = [].
Proof. exact Props.C14.C14_imports_sound_spec. Qed.
Print Assumptions Props.C14.C14_imports_sound_spec.
Goal forall (uc : unicode), unicode_ok uc ->
  forall (T ign : list str) (ho_file ho_crate : list imported -> list imported) (hc : crate_types -> crate_types)
         (ws : list ws_entry) (arrivals : list (str * parsed)),
    parse_workspace uc T ign ho_file ws = Ok arrivals ->
    Proofs.C14Front.oracle_ok ho_file -> Proofs.C14Front.oracle_ok ho_crate -> Proofs.C14Front.oracle_ok hc ->
    forall c pd v,
      In (c, pd) (multi_crates ho_crate arrivals) ->
      In v (judge_crate (Proofs.C14Main.c14_infos uc T ws) ign c
              (scoped_pairs (crate_imports hc (multi_crates ho_crate arrivals) c pd))) ->
      rv_dom v = true -> rv_imported v = true.
Proof. exact Props.C14.C14_imports_complete. Qed.
Print Assumptions Props.C14.C14_imports_complete.
Goal forall (uc : unicode), unicode_ok uc ->
  forall (T ign : list str) (ho_file ho_crate : list imported -> list imported) (hc : crate_types -> crate_types)
         (ws : list ws_entry) (arrivals : list (str * parsed)),
    parse_workspace uc T ign ho_file ws = Ok arrivals ->
    Proofs.C14Front.oracle_ok ho_file -> Proofs.C14Front.oracle_ok ho_crate -> Proofs.C14Front.oracle_ok hc ->
    forall c pd,
      In (c, pd) (multi_crates ho_crate arrivals) ->
      good_C14 (Proofs.C14Main.c14_infos uc T ws) ign c
        (scoped_pairs (crate_imports hc (multi_crates ho_crate arrivals) c pd)) = true.
Proof. exact Props.C14.C14_imports_good. Qed.
Print Assumptions Props.C14.C14_imports_good.
Goal forall ws mapped s c d n, dom_C14 ws mapped s c d n = true -> known_C14 ws mapped s c d n = None.
Proof. exact Props.C14.C14_dom_excludes_known. Qed.
Print Assumptions Props.C14.C14_dom_excludes_known.
Goal exists arrivals pd v,
    parse_workspace uc_exec [] [] (fun l => l) Proofs.C14Witness.ws_plain = Ok arrivals /\
    In (lit "my_crate", pd) (multi_crates (fun l => l) arrivals) /\
    In v (judge_crate (Proofs.C14Main.c14_infos uc_exec [] Proofs.C14Witness.ws_plain) [] (lit "my_crate")
            (scoped_pairs (crate_imports (fun l => l) (multi_crates (fun l => l) arrivals) (lit "my_crate") pd))) /\
    rv_dom v = true /\ rv_known v = None /\ rv_imported v = true.
Proof. exact Props.C14.C14_imports_complete_nonvacuous. Qed.
Print Assumptions Props.C14.C14_imports_complete_nonvacuous.
Goal one_generated_name (Proofs.C14Main.c14_infos uc_exec [] Proofs.C14Witness.ws_two_names) (lit "a") (lit "A2") = false /\
  renamed_in (Proofs.C14Main.c14_infos uc_exec [] Proofs.C14Witness.ws_two_names) (lit "a") (lit "A2") = lit "A2" /\
  Proofs.C14Witness.w_run (fun l => l) (fun l => l) Proofs.C14Witness.ws_two_names (lit "my_crate") =
    Some ([(lit "a", lit "A2Other")], [(lit "A2", lit "a", false, None, false)]) /\
  Proofs.C14Witness.w_field_types Proofs.C14Witness.ws_two_names (lit "my_crate") = [RSimple (lit "A2Other")].
Proof. exact Props.C14.C14_two_generated_names_outside_domain. Qed.
Print Assumptions Props.C14.C14_two_generated_names_outside_domain.
Goal renamed_in (Proofs.C14Main.c14_infos uc_exec [] Proofs.C14Witness.ws_glob_renamed) (lit "a") (lit "A2") = lit "A2Renamed" /\
  exists arrivals pd v,
    parse_workspace uc_exec [] [] (fun l => l) Proofs.C14Witness.ws_glob_renamed = Ok arrivals /\
    In (lit "my_crate", pd) (multi_crates (fun l => l) arrivals) /\
    In v (judge_crate (Proofs.C14Main.c14_infos uc_exec [] Proofs.C14Witness.ws_glob_renamed) [] (lit "my_crate")
            (scoped_pairs (crate_imports (fun l => l) (multi_crates (fun l => l) arrivals) (lit "my_crate") pd))) /\
    rv_name v = lit "A2" /\ rv_from v = lit "a" /\ rv_dom v = true /\ rv_known v = None /\ rv_imported v = true.
Proof. exact Props.C14.C14_imports_complete_glob_nonvacuous. Qed.
Print Assumptions Props.C14.C14_imports_complete_glob_nonvacuous.
Goal forall (ct : crate_types) (own : str) (l1 l2 : list imported),
    (forall x, In x l1 <-> In x l2) ->
    forall k n, In (k, n) (scoped_pairs (used_imports ct own l1)) <-> In (k, n) (scoped_pairs (used_imports ct own l2)).
Proof. exact Props.C14.C14_imports_iteration_order_irrelevant. Qed.
Print Assumptions Props.C14.C14_imports_iteration_order_irrelevant.
Goal (forall (ct : crate_types) (own : str) (l1 l2 : list imported),
     (forall x, In x l1 <-> In x l2) -> used_imports ct own l1 = used_imports ct own l2) /\
  (forall (hc : crate_types -> crate_types) (cs : crates) (cn : str) (pd : parsed) (ho : list imported -> list imported),
     Proofs.C14Front.oracle_ok ho ->
     crate_imports hc cs cn (with_imports pd (ho (p_imports pd))) = crate_imports hc cs cn pd).
Proof. exact Props.C14.C14_import_list_order_irrelevant. Qed.
Print Assumptions Props.C14.C14_import_list_order_irrelevant.
Goal exists arrivals pd v,
    parse_workspace uc_exec [] [] (fun l => l) Proofs.C14Witness.ws_same_name = Ok arrivals /\
    In (lit "my_crate", pd) (multi_crates (fun l => l) arrivals) /\
    In v (judge_crate (Proofs.C14Main.c14_infos uc_exec [] Proofs.C14Witness.ws_same_name) [] (lit "my_crate")
            (scoped_pairs (crate_imports (@rev _) (multi_crates (fun l => l) arrivals) (lit "my_crate") pd))) /\
    rv_known v = Some "C14-same-name" /\ rv_imported v = false.
Proof. exact Props.C14.C14_same_name_refuted. Qed.
Print Assumptions Props.C14.C14_same_name_refuted.
Goal Proofs.C14Witness.w_run (fun l => l) (fun l => l) Proofs.C14Witness.ws_same_name (lit "my_crate") =
    Some ([(lit "a", lit "S")], [(lit "S", lit "a", false, Some "C14-same-name", true)]) /\
  Proofs.C14Witness.w_run (fun l => l) (@rev _) Proofs.C14Witness.ws_same_name (lit "my_crate") =
    Some ([(lit "c", lit "S")], [(lit "S", lit "a", false, Some "C14-same-name", false)]).
Proof. exact Props.C14.C14_same_name_order_refuted. Qed.
Print Assumptions Props.C14.C14_same_name_order_refuted.
Goal exists arrivals pd v,
    parse_workspace uc_exec [] [] (fun l => l) Proofs.C14Witness.ws_glob = Ok arrivals /\
    In (lit "my_crate", pd) (multi_crates (fun l => l) arrivals) /\
    In v (judge_crate (Proofs.C14Main.c14_infos uc_exec [] Proofs.C14Witness.ws_glob) [] (lit "my_crate")
            (scoped_pairs (crate_imports (fun l => l) (multi_crates (fun l => l) arrivals) (lit "my_crate") pd))) /\
    rv_dom v = true /\ rv_known v = None /\ rv_imported v = true.
Proof. exact Props.C14.C14_glob_fixed. Qed.
Print Assumptions Props.C14.C14_glob_fixed.
Goal Proofs.C14Witness.w_run (fun l => l) (fun l => l) Proofs.C14Witness.ws_glob_explicit (lit "my_crate") =
    Some ([(lit "a", lit "A1"); (lit "a", lit "A2Renamed"); (lit "a", lit "A3")], [(lit "A1", lit "a", true, None, true)]) /\
  Proofs.C14Witness.w_run (@rev _) (fun l => l) Proofs.C14Witness.ws_glob_explicit (lit "my_crate") =
    Some ([(lit "a", lit "A1"); (lit "a", lit "A2Renamed"); (lit "a", lit "A3")], [(lit "A1", lit "a", true, None, true)]).
Proof. exact Props.C14.C14_glob_order_fixed. Qed.
Print Assumptions Props.C14.C14_glob_order_fixed.
Goal renamed_in (Proofs.C14Main.c14_infos uc_exec [] Proofs.C14Witness.ws_renamed) (lit "a") (lit "A2") = lit "A2Renamed" /\
  exists arrivals pd v,
    parse_workspace uc_exec [] [] (fun l => l) Proofs.C14Witness.ws_renamed = Ok arrivals /\
    In (lit "my_crate", pd) (multi_crates (fun l => l) arrivals) /\
    In v (judge_crate (Proofs.C14Main.c14_infos uc_exec [] Proofs.C14Witness.ws_renamed) [] (lit "my_crate")
            (scoped_pairs (crate_imports (fun l => l) (multi_crates (fun l => l) arrivals) (lit "my_crate") pd))) /\
    rv_name v = lit "A2" /\ rv_from v = lit "a" /\ rv_dom v = true /\ rv_known v = None /\ rv_imported v = true.
Proof. exact Props.C14.C14_renamed_import_fixed. Qed.
Print Assumptions Props.C14.C14_renamed_import_fixed.
Goal Proofs.C14Witness.w_run (fun l => l) (fun l => l) Proofs.C14Witness.ws_renamed (lit "my_crate") =
    Some ([(lit "a", lit "A2Renamed")], [(lit "A2", lit "a", true, None, true)]) /\
  Proofs.C14Witness.w_run (fun l => l) (fun l => l) Proofs.C14Witness.ws_renamed_path (lit "my_crate") =
    Some ([(lit "a", lit "A2Renamed")], [(lit "A2", lit "a", true, None, true)]) /\
  Proofs.C14Witness.w_field_types Proofs.C14Witness.ws_renamed (lit "my_crate") = [RSimple (lit "A2Renamed")] /\
  Proofs.C14Witness.w_import_text Proofs.C14Witness.ws_renamed (lit "my_crate") = (lit "import { A2Renamed } from ""./a"";" ++ [10%N; 10%N])%list /\
  Proofs.C14Witness.w_field_types Proofs.C14Witness.ws_renamed_path (lit "my_crate") = [RSimple (lit "A2Renamed")] /\
  Proofs.C14Witness.w_import_text Proofs.C14Witness.ws_renamed_path (lit "my_crate") = (lit "import { A2Renamed } from ""./a"";" ++ [10%N; 10%N])%list.
Proof. exact Props.C14.C14_renamed_import_fixed_exact. Qed.
Print Assumptions Props.C14.C14_renamed_import_fixed_exact.
Goal Proofs.C14Witness.w_run (fun l => l) (fun l => l) Proofs.C14Witness.ws_glob_const (lit "my_crate") =
    Some ([(lit "k", lit "K1")], [(lit "K1", lit "k", true, None, true)]) /\
  Proofs.C14Witness.w_run (@rev _) (fun l => l) Proofs.C14Witness.ws_glob_const (lit "my_crate") =
    Some ([(lit "k", lit "K1")], [(lit "K1", lit "k", true, None, true)]) /\
  unsound_imports (Proofs.C14Main.c14_infos uc_exec [] Proofs.C14Witness.ws_glob_const) (lit "my_crate")
    [(lit "k", lit "K1"); (lit "k", lit "MyConst")] = [(lit "k", lit "MyConst")] /\
  const_imports (Proofs.C14Main.c14_infos uc_exec [] Proofs.C14Witness.ws_glob_const) [(lit "k", lit "K1"); (lit "k", lit "MyConst")]
    = [(lit "k", lit "MyConst")].
Proof. exact Props.C14.C14_glob_const_fixed. Qed.
Print Assumptions Props.C14.C14_glob_const_fixed.
Goal forall (cfg : kt_config) (im : scoped),
    kt_write_imports cfg im = c14_kt_import_block (kt_package cfg) (kt_prefix cfg) (scoped_pairs im).
Proof. exact Props.C14.C14_kotlin_import_block. Qed.
Print Assumptions Props.C14.C14_kotlin_import_block.
Goal forall (cfg : kt_config) (it : ritem) (ds : list kt_decl),
    is_type14 it = true -> kt_decl_of cfg it = Ok ds -> c14_kt_alias_class it = false ->
    exists d, In d ds /\ d_name (kt_obs d) = (kt_prefix cfg ++ renamed (item_id it))%list.
Proof. exact Props.C14.C14_kotlin_declared_name. Qed.
Print Assumptions Props.C14.C14_kotlin_declared_name.
Goal forall (uc : unicode) (cfg : kt_config) (T ign : list str) (ho_file ho_crate : list imported -> list imported)
         (hc : crate_types -> crate_types) (ws : list ws_entry) (arrivals : list (str * parsed)),
    parse_workspace uc T ign ho_file ws = Ok arrivals ->
    (forall l x, In x (hc l) -> In x l) ->
    forall c pd k n,
      In (k, n) (scoped_pairs (crate_imports hc (multi_crates ho_crate arrivals) c pd)) ->
      k <> c /\
      exists pdk, In (k, pdk) (multi_crates ho_crate arrivals) /\
        (exists it, In it (items_of pdk) /\ is_type14 it = true /\ renamed (item_id it) = n) /\
        forall imk text, kt_generate_multi uc cfg k imk pdk = Ok text ->
          forall it, In it (items_of pdk) -> is_type14 it = true -> renamed (item_id it) = n ->
            exists ds pre post,
              kt_decl_of cfg it = Ok ds /\
              text = (kt_begin_file_multi cfg k ++ c14_kt_import_block (kt_package cfg) (kt_prefix cfg) (scoped_pairs imk) ++
                      pre ++ List.concat (map kt_render_decl ds) ++ post)%list /\
              (c14_kt_alias_class it = false -> exists d, In d ds /\ d_name (kt_obs d) = (kt_prefix cfg ++ n)%list).
Proof. exact Props.C14.C14_kotlin_imports_name_declared_classes. Qed.
Print Assumptions Props.C14.C14_kotlin_imports_name_declared_classes.
Goal exists arrivals pd,
    parse_workspace uc_exec [] [] (fun l => l) Proofs.C14Kotlin.ws_kt_prefix = Ok arrivals /\
    In (lit "b", pd) (multi_crates (fun l => l) arrivals) /\
    scoped_pairs (crate_imports (fun l => l) (multi_crates (fun l => l) arrivals) (lit "b") pd) = [(lit "a", lit "A1")].
Proof. exact Props.C14.C14_kotlin_imports_nonvacuous. Qed.
Print Assumptions Props.C14.C14_kotlin_imports_nonvacuous.
Goal Proofs.C14Kotlin.w_kt_text (lit "KP") Proofs.C14Kotlin.ws_kt_prefix (lit "b") =
    Some (lit "package p.b" ++ [10%N; 10%N] ++ lit "import kotlinx.serialization.Serializable" ++ [10%N] ++
          lit "import kotlinx.serialization.SerialName" ++ [10%N; 10%N] ++ lit "import p.a.KPA1" ++ [10%N; 10%N] ++
          lit "@Serializable" ++ [10%N] ++ lit "data class KPB1 (" ++ [10%N; 9%N] ++ lit "val f: KPA1" ++ [10%N] ++ lit ")" ++ [10%N; 10%N])%list /\
  Proofs.C14Kotlin.w_kt_text (lit "KP") Proofs.C14Kotlin.ws_kt_prefix (lit "a") =
    Some (lit "package p.a" ++ [10%N; 10%N] ++ lit "import kotlinx.serialization.Serializable" ++ [10%N] ++
          lit "import kotlinx.serialization.SerialName" ++ [10%N; 10%N; 10%N] ++
          lit "@Serializable" ++ [10%N] ++ lit "data class KPA1 (" ++ [10%N; 9%N] ++ lit "val x: UByte" ++ [10%N] ++ lit ")" ++ [10%N; 10%N])%list /\
  match Proofs.C14Kotlin.w_kt_text [] Proofs.C14Kotlin.ws_kt_prefix (lit "b") with
  | Some t => contains_sub (lit "import p.a.A1") t | None => false end = true.
Proof. exact Props.C14.C14_kotlin_import_prefix_fixed. Qed.
Print Assumptions Props.C14.C14_kotlin_import_prefix_fixed.
Goal let a := {| aid := {| original := lit "Id"; renamed := lit "UserId"; via_serde_rename := true |}; agenerics := [];
              atype := RPrim PString; acomments := []; adecs := []; aredacted := false |} in
  c14_kt_alias_class (ItAlias a) = true /\
  match kt_decl_of (Proofs.C14Kotlin.w_kt (lit "KP")) (ItAlias a) with
  | Ok [d] => str_eqb (d_name (kt_obs d)) (lit "KPId")
  | _ => false
  end = true.
Proof. exact Props.C14.C14_kotlin_alias_class_needed. Qed.
Print Assumptions Props.C14.C14_kotlin_alias_class_needed.
