(* Pinned statements for C19: compiled on every check run. A statement weakened in Props/ fails here. *)
From TS Require Import Model.Str Model.Syntax Model.Annotation Spec.C19Spec.
From TS Require Proofs.C19.
From TS Require Props.C19.

Goal forall (i : macro_input), typeshare_macro i = erase i.
Proof. exact Props.C19.C19_macro_is_erase. Qed.
Print Assumptions Props.C19.C19_macro_is_erase.
Goal forall (sp : str) (a : attr),
    str_eqb (ann_path_to_string sp (meta_path (a_meta a))) CONFIG_ATTRIBUTE_NAME = is_typeshare_attr a.
Proof. exact Props.C19.C19_configuration_attribute_is_single_segment_typeshare. Qed.
Print Assumptions Props.C19.C19_configuration_attribute_is_single_segment_typeshare.
Goal forall (i : macro_input), obs_members (typeshare_macro i) = obs_members i.
Proof. exact Props.C19.C19_same_members_same_order. Qed.
Print Assumptions Props.C19.C19_same_members_same_order.
Goal forall (i : macro_input), c19_skeleton (typeshare_macro i) = c19_skeleton i.
Proof. exact Props.C19.C19_same_skeleton. Qed.
Print Assumptions Props.C19.C19_same_skeleton.
Goal forall (i : macro_input), obs_other_attrs (typeshare_macro i) = obs_other_attrs i.
Proof. exact Props.C19.C19_other_attributes_preserved. Qed.
Print Assumptions Props.C19.C19_other_attributes_preserved.
Goal forall (i : macro_input) (p : mpos) (attrs : list attr),
    In (p, attrs) (member_positions i) -> In (p, other_attrs attrs) (member_positions (typeshare_macro i)).
Proof. exact Props.C19.C19_only_typeshare_attributes_removed. Qed.
Print Assumptions Props.C19.C19_only_typeshare_attributes_removed.
Goal forall (i : macro_input), obs_ts_count (typeshare_macro i) = 0%nat.
Proof. exact Props.C19.C19_no_typeshare_attribute_remains. Qed.
Print Assumptions Props.C19.C19_no_typeshare_attribute_remains.
Goal forall (i : macro_input), typeshare_macro (typeshare_macro i) = typeshare_macro i.
Proof. exact Props.C19.C19_idempotent. Qed.
Print Assumptions Props.C19.C19_idempotent.
Goal forall (a : list attr) (t : str), typeshare_macro (Other a t) = Other a t.
Proof. exact Props.C19.C19_other_items_unchanged. Qed.
Print Assumptions Props.C19.C19_other_items_unchanged.
Goal forall (i : macro_input), obs_item_attrs (typeshare_macro i) = obs_item_attrs i.
Proof. exact Props.C19.C19_item_attributes_untouched. Qed.
Print Assumptions Props.C19.C19_item_attributes_untouched.
Goal forall (i : macro_input), has_invocation i = true -> rustc_expand i = stripped_twin i.
Proof. exact Props.C19.C19_expansion_is_stripped_twin_partial. Qed.
Print Assumptions Props.C19.C19_expansion_is_stripped_twin_partial.
Goal forall (parses : bool) (full : macro_input),
    known_C19 parses full = None <-> (parses = true \/ obs_ts_count full = 0%nat \/ exists a t, full = Other a t).
Proof. exact Props.C19.C19_known_class_exact. Qed.
Print Assumptions Props.C19.C19_known_class_exact.
Goal known_C19 false Proofs.C19.wit_unparsed = Some "C19-derive-parse-needs-syn-full"%string /\
  dom_C19 Proofs.C19.wit_unparsed = true /\
  typeshare_macro_on false Proofs.C19.wit_unparsed = Proofs.C19.wit_unparsed /\
  rustc_macro_attrs_at_members (typeshare_macro_on false Proofs.C19.wit_unparsed) = 1%nat /\
  rustc_macro_attrs_at_members (typeshare_macro_on true Proofs.C19.wit_unparsed) = 0%nat.
Proof. exact Props.C19.C19_unparsed_item_keeps_helpers_refuted. Qed.
Print Assumptions Props.C19.C19_unparsed_item_keeps_helpers_refuted.
