(* Pinned statements for C13: compiled on every check run. A statement weakened in Props/ fails here. *)
From Coq Require Import Permutation.
From TS Require Import Model.Str Model.Syntax Model.Attrs Model.TargetOs Spec.TargetOsRule.
From TS Require Proofs.C13 Proofs.C13Levels Proofs.FrontItems.
From TS Require Import Model.Outcome Model.Unicode Model.Types Model.Parse Spec.Serde Spec.C03Spec.
From TS Require Props.C13.

Goal forall (attrs : list attr) (T : list str),
    cfg_parsable attrs = true -> accept_target_os attrs T = Some (os_rule attrs T).
Proof. exact Props.C13.C13_accept_is_documented_rule. Qed.
Print Assumptions Props.C13.C13_accept_is_documented_rule.
Goal forall (m : meta), meta_parsable m = true ->
    exists r, target_os_iter m = Some r /\ Permutation r (os_names false m).
Proof. exact Props.C13.C13_iterator_yields_spec_names. Qed.
Print Assumptions Props.C13.C13_iterator_yields_spec_names.
Goal forall (attrs : list attr), accept_target_os attrs [] = Some true.
Proof. exact Props.C13.C13_no_target_list_filters_nothing. Qed.
Print Assumptions Props.C13.C13_no_target_list_filters_nothing.
Goal forall (attrs : list attr) (T : list str),
    cfg_parsable attrs = true -> attrs_os_names attrs = [] -> accept_target_os attrs T = Some true.
Proof. exact Props.C13.C13_items_naming_no_os_are_kept. Qed.
Print Assumptions Props.C13.C13_items_naming_no_os_are_kept.
Goal forall (attrs : list attr) (T : list str), exists b, accept_target_os attrs T = Some b.
Proof. exact Props.C13.C13_decision_total. Qed.
Print Assumptions Props.C13.C13_decision_total.
Goal forall (uc : unicode) (tstr : str -> option ty) (T : list str) attrs ident gens l s,
  (forall f, In f l -> cfg_parsable (f_attrs f) = true) ->
  parse_struct uc tstr T attrs ident gens (FNamed l) = Ok (ItStruct s) ->
  map (fun rf => original (fid rf)) (sfields s) =
  map Proofs.FrontItems.field_name (filter (fun f => negb (skip_marked (f_attrs f)) && os_rule (f_attrs f) T) l).
Proof. exact Props.C13.C13_field_level. Qed.
Print Assumptions Props.C13.C13_field_level.
Goal forall (uc : unicode) (tstr : str -> option ty) (T : list str) attrs ident gens vs e,
  (forall v, In v vs -> cfg_parsable (v_attrs v) = true) ->
  parse_enum uc tstr T attrs ident gens vs = Ok (ItEnum e) ->
  map (fun rv => original (vid (variant_shared rv))) (evariants (enum_shared e)) =
  map (fun v => replace_sub (lit "r#") [] (v_ident v))
      (filter (fun v => negb (skip_marked (v_attrs v)) && os_rule (v_attrs v) T) vs).
Proof. exact Props.C13.C13_variant_level. Qed.
Print Assumptions Props.C13.C13_variant_level.
Goal forall (uc : unicode) (tstr : str -> option ty) (T : list str) ra attrs ident l rv,
  (forall f, In f l -> cfg_parsable (f_attrs f) = true) ->
  parse_enum_variant uc tstr T ra {| v_attrs := attrs; v_ident := ident; v_fields := FNamed l |} = Ok rv ->
  exists fs sh, rv = VAnon fs sh /\
    map (fun rf => original (fid rf)) fs =
    map Proofs.FrontItems.field_name (filter (fun f => negb (skip_marked (f_attrs f)) && os_rule (f_attrs f) T) l).
Proof. exact Props.C13.C13_variant_field_level. Qed.
Print Assumptions Props.C13.C13_variant_field_level.
Goal forall (T : list str) attrs, cfg_parsable attrs = true -> wanted T attrs = annotated attrs && os_rule attrs T.
Proof. exact Props.C13.C13_item_level. Qed.
Print Assumptions Props.C13.C13_item_level.
Goal forall (uc : unicode) (tstr : str -> option ty) (T : list str) f,
  cfg_parsable (fl_attrs f) = true -> os_rule (fl_attrs f) T = false -> parse_file uc tstr T f = Ok None.
Proof. exact Props.C13.C13_file_level. Qed.
Print Assumptions Props.C13.C13_file_level.
