(* Pinned statements for C13: compiled on every check run. A statement weakened in Props/ fails here. *)
From Coq Require Import Permutation.
From TS Require Import Model.Str Model.Syntax Model.Attrs Model.TargetOs Spec.TargetOsRule.
From TS Require Proofs.C13.
From TS Require Props.C13.

Goal forall (attrs : list attr) (T : list str),
    cfg_parsable attrs = true -> accept_target_os attrs T = Some (os_rule attrs T).
Proof. exact Props.C13.C13_accept_is_documented_rule. Qed.
Print Assumptions Props.C13.C13_accept_is_documented_rule.
Goal forall (m : meta), meta_parsable m = true ->
    exists r, target_os_iter m = Some r /\ Permutation r (os_names false m).
Proof. exact Props.C13.C13_iterator_yields_spec_names. Qed.
Print Assumptions Props.C13.C13_iterator_yields_spec_names.
Goal forall (attrs : list attr), accept_target_os attrs [] = Some true.
Proof. exact Props.C13.C13_no_target_list_filters_nothing. Qed.
Print Assumptions Props.C13.C13_no_target_list_filters_nothing.
Goal forall (attrs : list attr) (T : list str),
    cfg_parsable attrs = true -> attrs_os_names attrs = [] -> accept_target_os attrs T = Some true.
Proof. exact Props.C13.C13_items_naming_no_os_are_kept. Qed.
Print Assumptions Props.C13.C13_items_naming_no_os_are_kept.
Goal forall (attrs : list attr) (T : list str), exists b, accept_target_os attrs T = Some b.
Proof. exact Props.C13.C13_decision_total. Qed.
Print Assumptions Props.C13.C13_decision_total.
