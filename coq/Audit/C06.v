(* Pinned statements for C06: compiled on every check run. A statement weakened in Props/ fails here. *)
From Coq Require Import List Permutation String.
From TS Require Import Model.Str Model.Outcome Model.Unicode Model.Types Model.Parse Model.Reconcile Model.Collect.
From TS Require Import Model.Lang.TypeScript Model.Lang.Kotlin Model.Lang.Swift Model.Lang.Scala Model.Lang.Go Model.Lang.Python.
From TS Require Import Model.Lang.Common Model.MultiFile.
From TS Require Model.Writer.
From TS Require Import Spec.C06MultiSpec.
From TS Require Proofs.C06 Proofs.C14Front Proofs.C14Witness Proofs.C06Multi Proofs.C06MultiWitness.
Import ListNotations.
From TS Require Props.C06.

Goal forall a1 a2 : list parsed, Permutation a1 a2 ->
    Proofs.C06.names_distinct (collect_single a1) ->
    Forall (fun pd => p_imports pd = []) a1 ->
    Proofs.C06.same_items (single_file_input a1) (single_file_input a2).
Proof. exact Props.C06.C06_arrival_order_irrelevant. Qed.
Print Assumptions Props.C06.C06_arrival_order_irrelevant.
Goal forall a : list parsed, a <> [] ->
    reconcile_aliases (collect (map (fun pd => (@nil char, pd)) a)) = [([], single_file_input a)].
Proof. exact Props.C06.C06_single_file_input_is_the_pipeline. Qed.
Print Assumptions Props.C06.C06_single_file_input_is_the_pipeline.
Goal forall (uc : unicode) (a1 a2 : list parsed), Permutation a1 a2 ->
    Proofs.C06.names_distinct (collect_single a1) -> Forall (fun pd => p_imports pd = []) a1 ->
    (forall c, ts_generate uc c (single_file_input a1) = ts_generate uc c (single_file_input a2)) /\
    (forall c, kt_generate uc c (single_file_input a1) = kt_generate uc c (single_file_input a2)) /\
    (forall c, sw_generate uc c (single_file_input a1) = sw_generate uc c (single_file_input a2)) /\
    (forall c, sc_generate uc c (single_file_input a1) = sc_generate uc c (single_file_input a2)) /\
    (forall c, go_generate uc c (single_file_input a1) = go_generate uc c (single_file_input a2)) /\
    (forall c, py_generate uc c (single_file_input a1) = py_generate uc c (single_file_input a2)).
Proof. exact Props.C06.C06_bytes_do_not_depend_on_arrival_order. Qed.
Print Assumptions Props.C06.C06_bytes_do_not_depend_on_arrival_order.
Goal let a := Proofs.C06.mk_const (lit "X") (Zpos xH) in let b := Proofs.C06.mk_const (lit "X") (Zpos (xO xH)) in
  Permutation [a; b] [b; a] /\ p_consts (single_file_input [a; b]) <> p_consts (single_file_input [b; a]).
Proof. exact Props.C06.C06_equal_names_refuted. Qed.
Print Assumptions Props.C06.C06_equal_names_refuted.
Goal forall l1 l2 : list (str * parsed), Permutation l1 l2 ->
    Proofs.C06Multi.all_distinct (collect l1) ->
    forall ho : list imported -> list imported, Proofs.C06Multi.oracle_set_determined ho ->
    Proofs.C06Multi.cs_same (multi_crates ho l1) (multi_crates ho l2).
Proof. exact Props.C06.C06_multi_arrival_order_irrelevant. Qed.
Print Assumptions Props.C06.C06_multi_arrival_order_irrelevant.
Goal forall l1 l2 : list (str * parsed), Permutation l1 l2 -> Proofs.C06Multi.cs_rel (collect l1) (collect l2).
Proof. exact Props.C06.C06_multi_collector_arrival_order. Qed.
Print Assumptions Props.C06.C06_multi_collector_arrival_order.
Goal forall (lang : lang) (l1 l2 : list (str * parsed)) (ho1 ho2 : list imported -> list imported) (hc1 hc2 : crate_types -> crate_types),
    Permutation l1 l2 -> Proofs.C06Multi.all_distinct (collect l1) -> Proofs.C06Multi.ws_ambiguity (collect l1) = None ->
    Proofs.C14Front.oracle_ok ho1 -> Proofs.C14Front.oracle_ok ho2 -> Proofs.C14Front.oracle_ok hc1 -> Proofs.C14Front.oracle_ok hc2 ->
    Proofs.C06Multi.cs_same (multi_crates ho1 l1) (multi_crates ho2 l2) /\
    Forall2 Proofs.C06Multi.plan_same (multi_plan lang hc1 (multi_crates ho1 l1)) (multi_plan lang hc2 (multi_crates ho2 l2)) /\
    (forall (St : Type) (gen : St -> str -> scoped -> parsed -> outcome (str * St)), Proofs.C06Multi.reads_items gen ->
       forall st, generate_crates gen st (multi_plan lang hc1 (multi_crates ho1 l1)) =
                  generate_crates gen st (multi_plan lang hc2 (multi_crates ho2 l2))).
Proof. exact Props.C06.C06_multi_hash_order_irrelevant. Qed.
Print Assumptions Props.C06.C06_multi_hash_order_irrelevant.
Goal forall uc : unicode,
  (forall cfg, Proofs.C06Multi.reads_items (fun st (_ : str) im pd => ts_generate_multi uc cfg st im pd)) /\
  (forall cfg, Proofs.C06Multi.reads_items (fun (st : unit) c im pd => match kt_generate_multi uc cfg c im pd with
                                                       | Ok text => Ok (text, st) | Err e => Err e | Panic s => Panic s end)) /\
  (forall cfg, Proofs.C06Multi.reads_items (fun st (_ : str) (_ : scoped) pd => sw_generate_multi uc cfg st pd)) /\
  (forall cfg, Proofs.C06Multi.reads_items (fun (st : unit) (_ : str) (_ : scoped) pd => match sc_generate uc cfg pd with
                                                                         | Ok text => Ok (text, st) | Err e => Err e | Panic s => Panic s end)) /\
  (forall cfg, Proofs.C06Multi.reads_items (fun st (_ : str) (_ : scoped) pd => go_generate_multi uc cfg st pd)) /\
  (forall cfg, Proofs.C06Multi.reads_items (fun st (_ : str) (_ : scoped) pd => py_generate_multi uc cfg st pd)).
Proof. exact Props.C06.C06_multi_generators_read_items. Qed.
Print Assumptions Props.C06.C06_multi_generators_read_items.
Goal exists arrivals,
    parse_workspace uc_exec [] [] (fun l => l) Proofs.C06MultiWitness.ws_amb = Ok arrivals /\
    Proofs.C06Multi.all_distinct (collect arrivals) /\
    Proofs.C06Multi.ws_ambiguity (collect arrivals) = Some "one-name-imported-from-two-crates-that-rename-it-differently"%string /\
    Proofs.C14Front.oracle_ok (@Proofs.C14Witness.idl imported) /\ Proofs.C14Front.oracle_ok (@rev imported) /\
    Proofs.C06MultiWitness.app_field_types (multi_crates Proofs.C14Witness.idl arrivals) = [RSimple (lit "AlphaItem"); RSimple (lit "AlphaItem")] /\
    Proofs.C06MultiWitness.app_field_types (multi_crates (@rev _) arrivals) = [RSimple (lit "BetaItem"); RSimple (lit "BetaItem")] /\
    (exists a b, Proofs.C06MultiWitness.m_run Proofs.C14Witness.idl Proofs.C14Witness.idl Proofs.C06MultiWitness.ws_amb = Some a /\
                 Proofs.C06MultiWitness.m_run (@rev _) Proofs.C14Witness.idl Proofs.C06MultiWitness.ws_amb = Some b /\ a <> b).
Proof. exact Props.C06.C06_ambiguous_imports_refuted. Qed.
Print Assumptions Props.C06.C06_ambiguous_imports_refuted.
Goal exists arrivals,
    parse_workspace uc_exec [] [] (fun l => l) Proofs.C06MultiWitness.ws_clean = Ok arrivals /\
    Permutation arrivals (rev arrivals) /\ Proofs.C06Multi.all_distinct (collect arrivals) /\ Proofs.C06Multi.ws_ambiguity (collect arrivals) = None /\
    Proofs.C14Front.oracle_ok (@Proofs.C14Witness.idl imported) /\ Proofs.C14Front.oracle_ok (@rev imported) /\
    Proofs.C14Front.oracle_ok (@Proofs.C14Witness.idl (str * list str)) /\ Proofs.C14Front.oracle_ok (@rev (str * list str)) /\
    map fst (multi_crates Proofs.C14Witness.idl arrivals) = [lit "alpha"; lit "app"; lit "beta"] /\
    Proofs.C06MultiWitness.app_field_types (multi_crates (@rev _) (rev arrivals)) = [RSimple (lit "Item"); RSimple (lit "Leaf"); RSimple (lit "AlphaNode")] /\
    Proofs.C06MultiWitness.app_imports (@rev _) (multi_crates (@rev _) (rev arrivals)) = [(lit "alpha", lit "AlphaNode"); (lit "alpha", lit "Item"); (lit "beta", lit "Edge"); (lit "beta", lit "Leaf")] /\
    generate_crates Proofs.C06MultiWitness.m_ts_gen [] (multi_plan TypeScript Proofs.C14Witness.idl (multi_crates Proofs.C14Witness.idl arrivals)) =
    generate_crates Proofs.C06MultiWitness.m_ts_gen [] (multi_plan TypeScript (@rev _) (multi_crates (@rev _) (rev arrivals))).
Proof. exact Props.C06.C06_multi_nonvacuous. Qed.
Print Assumptions Props.C06.C06_multi_nonvacuous.
Goal forall (uc : unicode) (ho1 ho2 : list imported -> list imported) (pd : parsed),
    Proofs.C14Front.oracle_ok ho1 -> Proofs.C14Front.oracle_ok ho2 ->
    file_import_ambiguous (all_references uc pd) (p_type_names pd) (p_imports pd) = false ->
    reconcile_referenced_types uc ho1 pd = reconcile_referenced_types uc ho2 pd.
Proof. exact Props.C06.C06_multi_file_hash_order_irrelevant. Qed.
Print Assumptions Props.C06.C06_multi_file_hash_order_irrelevant.
Goal forall (uc : unicode) (T ign : list str) (ho1 ho2 : list imported -> list imported) (ws : list ws_entry),
    Proofs.C14Front.oracle_ok ho1 -> Proofs.C14Front.oracle_ok ho2 ->
    forallb (Proofs.C06Multi.file_unambiguous uc T ign) ws = true ->
    parse_workspace uc T ign ho1 ws = parse_workspace uc T ign ho2 ws.
Proof. exact Props.C06.C06_multi_workspace_parse_hash_order_irrelevant. Qed.
Print Assumptions Props.C06.C06_multi_workspace_parse_hash_order_irrelevant.
Goal forall (uc : unicode) (T ign : list str) tstr own ho f,
    parse_file_multi uc tstr T own ign ho f =
    match Proofs.C06Multi.parse_file_pre uc T ign tstr own f with
    | Ok o => Ok (option_map (reconcile_referenced_types uc ho) o) | Err e => Err e | Panic s => Panic s
    end.
Proof. exact Props.C06.C06_multi_parse_file_front_half. Qed.
Print Assumptions Props.C06.C06_multi_parse_file_front_half.
Goal forall (uc : unicode) (T ign : list str) (lang : lang) (ws : list ws_entry)
         (hf1 hf2 ho1 ho2 : list imported -> list imported) (hc1 hc2 : crate_types -> crate_types) (a1 : list (str * parsed)),
    Proofs.C14Front.oracle_ok hf1 -> Proofs.C14Front.oracle_ok hf2 -> Proofs.C14Front.oracle_ok ho1 -> Proofs.C14Front.oracle_ok ho2 ->
    Proofs.C14Front.oracle_ok hc1 -> Proofs.C14Front.oracle_ok hc2 ->
    forallb (Proofs.C06Multi.file_unambiguous uc T ign) ws = true ->
    parse_workspace uc T ign hf1 ws = Ok a1 ->
    Proofs.C06Multi.all_distinct (collect a1) -> Proofs.C06Multi.ws_ambiguity (collect a1) = None ->
    parse_workspace uc T ign hf2 ws = Ok a1 /\
    forall a2, Permutation a1 a2 ->
      forall (St : Type) (gen : St -> str -> scoped -> parsed -> outcome (str * St)), Proofs.C06Multi.reads_items gen ->
        forall st, generate_crates gen st (multi_plan lang hc1 (multi_crates ho1 a1)) =
                   generate_crates gen st (multi_plan lang hc2 (multi_crates ho2 a2)).
Proof. exact Props.C06.C06_multi_end_to_end. Qed.
Print Assumptions Props.C06.C06_multi_end_to_end.
Goal forallb (Proofs.C06Multi.file_unambiguous uc_exec [] []) Proofs.C06MultiWitness.ws_clean = true /\
  exists arrivals, parse_workspace uc_exec [] [] (@rev _) Proofs.C06MultiWitness.ws_clean = Ok arrivals /\
                   Proofs.C06Multi.all_distinct (collect arrivals) /\ Proofs.C06Multi.ws_ambiguity (collect arrivals) = None.
Proof. exact Props.C06.C06_multi_end_to_end_nonvacuous. Qed.
Print Assumptions Props.C06.C06_multi_end_to_end_nonvacuous.
Goal forallb (Proofs.C06Multi.file_unambiguous uc_exec [] []) Proofs.C06MultiWitness.ws_file_amb = false /\
  Proofs.C06MultiWitness.kept_imports Proofs.C14Witness.idl Proofs.C06MultiWitness.ws_file_amb =
    [(lit "app", [{| base_crate := lit "alpha"; type_name := lit "Item" |}])] /\
  Proofs.C06MultiWitness.kept_imports (@rev _) Proofs.C06MultiWitness.ws_file_amb =
    [(lit "app", [{| base_crate := lit "beta"; type_name := lit "Item" |}])].
Proof. exact Props.C06.C06_multi_file_ambiguous_refuted. Qed.
Print Assumptions Props.C06.C06_multi_file_ambiguous_refuted.
