(* Pinned statements for C06: compiled on every check run. A statement weakened in Props/ fails here. *)
From Coq Require Import List Permutation.
From TS Require Import Model.Str Model.Outcome Model.Unicode Model.Types Model.Parse Model.Reconcile Model.Collect.
From TS Require Import Model.Lang.TypeScript Model.Lang.Kotlin Model.Lang.Swift Model.Lang.Scala Model.Lang.Go Model.Lang.Python.
From TS Require Proofs.C06.
Import ListNotations.
From TS Require Props.C06.

Goal forall a1 a2 : list parsed, Permutation a1 a2 ->
    Proofs.C06.names_distinct (collect_single a1) ->
    Forall (fun pd => p_imports pd = []) a1 ->
    Proofs.C06.same_items (single_file_input a1) (single_file_input a2).
Proof. exact Props.C06.C06_arrival_order_irrelevant. Qed.
Print Assumptions Props.C06.C06_arrival_order_irrelevant.
Goal forall a : list parsed, a <> [] ->
    reconcile_aliases (collect (map (fun pd => (@nil char, pd)) a)) = [([], single_file_input a)].
Proof. exact Props.C06.C06_single_file_input_is_the_pipeline. Qed.
Print Assumptions Props.C06.C06_single_file_input_is_the_pipeline.
Goal forall (uc : unicode) (a1 a2 : list parsed), Permutation a1 a2 ->
    Proofs.C06.names_distinct (collect_single a1) -> Forall (fun pd => p_imports pd = []) a1 ->
    (forall c, ts_generate uc c (single_file_input a1) = ts_generate uc c (single_file_input a2)) /\
    (forall c, kt_generate uc c (single_file_input a1) = kt_generate uc c (single_file_input a2)) /\
    (forall c, sw_generate uc c (single_file_input a1) = sw_generate uc c (single_file_input a2)) /\
    (forall c, sc_generate uc c (single_file_input a1) = sc_generate uc c (single_file_input a2)) /\
    (forall c, go_generate uc c (single_file_input a1) = go_generate uc c (single_file_input a2)) /\
    (forall c, py_generate uc c (single_file_input a1) = py_generate uc c (single_file_input a2)).
Proof. exact Props.C06.C06_bytes_do_not_depend_on_arrival_order. Qed.
Print Assumptions Props.C06.C06_bytes_do_not_depend_on_arrival_order.
Goal let a := Proofs.C06.mk_const (lit "X") (Zpos xH) in let b := Proofs.C06.mk_const (lit "X") (Zpos (xO xH)) in
  Permutation [a; b] [b; a] /\ p_consts (single_file_input [a; b]) <> p_consts (single_file_input [b; a]).
Proof. exact Props.C06.C06_equal_names_refuted. Qed.
Print Assumptions Props.C06.C06_equal_names_refuted.
