(* Pinned statements for C09: compiled on every check run. A statement weakened in Props/ fails here. *)
From Coq Require Import List Bool String.
From TS Require Import Model.Str Model.Outcome Model.Unicode Model.Types Model.Parse Model.Reconcile Model.Lang.Decl
                       Model.Lang.TypeScript Model.Lang.Kotlin Model.Lang.Scala Model.Lang.Go Spec.C09Spec.
From TS Require Import Model.Lang.Swift Model.Lang.Python.
From TS Require Proofs.C09Common Proofs.C09Recon Proofs.C09Refs Proofs.C09_KotlinFile Proofs.C09Witness Proofs.C09Final.
From TS Require Proofs.C09_TypeScript Proofs.C09_Scala Proofs.C09_Python Proofs.C09_Swift Proofs.C09_Go Proofs.GoAcronyms Proofs.C09_GoAcr.
From TS Require Import Model.Lang.Common Model.Collect Model.MultiFile Spec.C09MultiSpec.
From TS Require Spec.C14Spec Proofs.C14Main Proofs.C14Front Proofs.C14Witness Proofs.C09Multi Proofs.C09MultiWitness Proofs.C09MultiTS Proofs.C09MultiC14.
From TS Require Import Spec.C09MultiLangSpec.
From TS Require Spec.C14KotlinSpec Proofs.C12MultiStateless Proofs.C09MultiLang Proofs.C09MultiKotlin Proofs.C09MultiKotlinC14 Proofs.C09MultiLangWitness.
From TS Require Proofs.C12MultiSwift Proofs.C12Multi Proofs.C12MultiGo Proofs.C09MultiSwift Proofs.C09MultiScala Proofs.C09MultiPython Proofs.C09MultiGo.
Import ListNotations.
From TS Require Props.C09.

Goal forall pd : parsed, reconcile_aliases [([], pd)] = [([], Proofs.C09Recon.c09_reconciled pd)].
Proof. exact Props.C09.C09_reconcile_single. Qed.
Print Assumptions Props.C09.C09_reconcile_single.
Goal forall (pd : parsed) (L : lang) (pfx : str), dom_C09 L pfx pd = true ->
  forall (tp : c09_tpos) (form : c09_form) (i' : str), In tp (c09_tposs pd) ->
    In (form, i') (c09_type_ids (check_type [] (Proofs.C09Recon.c09_rn pd) [] (c9t_type tp))) ->
    (In i' (c9t_generics tp) /\ In (form, i') (c09_type_ids (c9t_type tp))) \/
    (exists i e, In (form, i) (c09_type_ids (c9t_type tp)) /\ c09_lookup pd i = Some e /\
                 i' = Proofs.C09Common.c09_pick (c09_type_ref_which form (c9t_pos tp)) (c9e_id e)).
Proof. exact Props.C09.C09_reconciled_mentions. Qed.
Print Assumptions Props.C09.C09_reconciled_mentions.
Goal forall (pd : parsed) (L : lang) (pfx : str), dom_C09 L pfx pd = true ->
  forall (tp : c09_tpos) (form : c09_form) (i' : str), In tp (c09_tposs pd) ->
    In (form, i') (c09_type_ids (check_type [] (Proofs.C09Recon.c09_rn pd) [] (c9t_type tp))) ->
    (In i' (c9t_generics tp) /\ In (form, i') (c09_type_ids (c9t_type tp))) \/
    (exists i e, In (form, i) (c09_type_ids (c9t_type tp)) /\ c09_lookup pd i = Some e /\ i' = renamed (c9e_id e)).
Proof. exact Props.C09.C09_reconciled_mentions_renamed. Qed.
Print Assumptions Props.C09.C09_reconciled_mentions_renamed.
Goal forall pd : parsed, p_imports pd = [] -> forall c' : rconst,
    In c' (p_consts (Proofs.C09Recon.c09_reconciled pd)) <->
    exists c, In c (p_consts pd) /\
              c' = {| cid := cid c; ctype := check_type [] (Proofs.C09Recon.c09_rn pd) [] (ctype c); cvalue := cvalue c |}.
Proof. exact Props.C09.C09_reconciled_consts. Qed.
Print Assumptions Props.C09.C09_reconciled_consts.
Goal forall (L : lang) (pfx : str) (acrs : list str) (pd : parsed) (obs : c09_obs),
    dom_C09 L pfx pd = true -> known_C09 L pfx acrs pd = None ->
    Proofs.C09Common.c09_shape L pfx pd obs -> good_C09 L pfx pd obs = true.
Proof. exact Props.C09.C09_all_languages_partial. Qed.
Print Assumptions Props.C09.C09_all_languages_partial.
Goal forall (uc : unicode) (cfg : kt_config) (acrs : list str) (pd : parsed),
    dom_C09 Kotlin (kt_prefix cfg) pd = true -> known_C09 Kotlin (kt_prefix cfg) acrs pd = None ->
    forall fd : file_decls, kt_file_decls uc cfg (Proofs.C09Recon.c09_reconciled pd) = Ok fd ->
      good_C09 Kotlin (kt_prefix cfg) pd (c09_observe Kotlin fd) = true.
Proof. exact Props.C09.C09_Kotlin. Qed.
Print Assumptions Props.C09.C09_Kotlin.
Goal forall (uc : unicode) (cfg : kt_config) (pd : parsed),
    dom_C09 Kotlin (kt_prefix cfg) pd = true ->
    (forall e, In e (c09_entities pd) -> c09_renamed_away (c9e_id e) = false) ->
    (forall a, In a (p_aliases pd) -> c09_inline_generic_class Kotlin (kt_prefix cfg) a = None) ->
    forall fd : file_decls, kt_file_decls uc cfg (Proofs.C09Recon.c09_reconciled pd) = Ok fd ->
      good_C09 Kotlin (kt_prefix cfg) pd (c09_observe Kotlin fd) = true.
Proof. exact Props.C09.C09_no_rename_Kotlin. Qed.
Print Assumptions Props.C09.C09_no_rename_Kotlin.
Goal forall (uc : unicode) (cfg : ts_config) (acrs : list str) (pd : parsed),
    dom_C09 TypeScript [] pd = true -> known_C09 TypeScript [] acrs pd = None ->
    forall fd : file_decls, ts_file_decls uc cfg (Proofs.C09Recon.c09_reconciled pd) = Ok fd ->
      good_C09 TypeScript [] pd (c09_observe TypeScript fd) = true.
Proof. exact Props.C09.C09_TypeScript. Qed.
Print Assumptions Props.C09.C09_TypeScript.
Goal forall (uc : unicode) (cfg : ts_config) (pd : parsed),
    dom_C09 TypeScript [] pd = true ->
    (forall e, In e (c09_entities pd) -> c09_renamed_away (c9e_id e) = false) ->
    forall fd : file_decls, ts_file_decls uc cfg (Proofs.C09Recon.c09_reconciled pd) = Ok fd ->
      good_C09 TypeScript [] pd (c09_observe TypeScript fd) = true.
Proof. exact Props.C09.C09_no_rename_TypeScript. Qed.
Print Assumptions Props.C09.C09_no_rename_TypeScript.
Goal forall (uc : unicode) (cfg : sc_config) (acrs : list str) (pd : parsed),
    dom_C09 Scala [] pd = true -> known_C09 Scala [] acrs pd = None ->
    forall fd : file_decls, sc_file_decls uc cfg (Proofs.C09Recon.c09_reconciled pd) = Ok fd ->
      good_C09 Scala [] pd (c09_observe Scala fd) = true.
Proof. exact Props.C09.C09_Scala. Qed.
Print Assumptions Props.C09.C09_Scala.
Goal forall (uc : unicode) (cfg : sc_config) (pd : parsed),
    dom_C09 Scala [] pd = true ->
    (forall e, In e (c09_entities pd) -> c09_renamed_away (c9e_id e) = false) ->
    forall fd : file_decls, sc_file_decls uc cfg (Proofs.C09Recon.c09_reconciled pd) = Ok fd ->
      good_C09 Scala [] pd (c09_observe Scala fd) = true.
Proof. exact Props.C09.C09_no_rename_Scala. Qed.
Print Assumptions Props.C09.C09_no_rename_Scala.
Goal forall (uc : unicode) (cfg : py_config) (acrs : list str) (pd : parsed),
    dom_C09 Python [] pd = true -> known_C09 Python [] acrs pd = None ->
    forall fd : file_decls, py_file_decls uc cfg (Proofs.C09Recon.c09_reconciled pd) = Ok fd ->
      good_C09 Python [] pd (c09_observe Python fd) = true.
Proof. exact Props.C09.C09_Python. Qed.
Print Assumptions Props.C09.C09_Python.
Goal forall (uc : unicode) (cfg : py_config) (pd : parsed),
    dom_C09 Python [] pd = true ->
    (forall e, In e (c09_entities pd) -> c09_renamed_away (c9e_id e) = false) ->
    forall fd : file_decls, py_file_decls uc cfg (Proofs.C09Recon.c09_reconciled pd) = Ok fd ->
      good_C09 Python [] pd (c09_observe Python fd) = true.
Proof. exact Props.C09.C09_no_rename_Python. Qed.
Print Assumptions Props.C09.C09_no_rename_Python.
Goal forall (uc : unicode) (cfg : sw_config) (acrs : list str) (pd : parsed),
    dom_C09 Swift (sw_prefix cfg) pd = true -> known_C09 Swift (sw_prefix cfg) acrs pd = None ->
    forall fd : file_decls, sw_file_decls uc cfg (Proofs.C09Recon.c09_reconciled pd) = Ok fd ->
      good_C09 Swift (sw_prefix cfg) pd (c09_observe Swift fd) = true.
Proof. exact Props.C09.C09_Swift. Qed.
Print Assumptions Props.C09.C09_Swift.
Goal forall (uc : unicode) (cfg : sw_config) (pd : parsed),
    dom_C09 Swift (sw_prefix cfg) pd = true ->
    (forall e, In e (c09_entities pd) -> c09_renamed_away (c9e_id e) = false) ->
    forall fd : file_decls, sw_file_decls uc cfg (Proofs.C09Recon.c09_reconciled pd) = Ok fd ->
      good_C09 Swift (sw_prefix cfg) pd (c09_observe Swift fd) = true.
Proof. exact Props.C09.C09_no_rename_Swift. Qed.
Print Assumptions Props.C09.C09_no_rename_Swift.
Goal forall (uc : unicode) (cfg : go_config) (pd : parsed),
    go_uppercase_acronyms cfg = [] ->
    dom_C09 Go [] pd = true -> known_C09 Go [] (go_uppercase_acronyms cfg) pd = None ->
    forall fd : file_decls, go_file_decls uc cfg (Proofs.C09Recon.c09_reconciled pd) = Ok fd ->
      good_C09 Go [] pd (c09_observe Go fd) = true.
Proof. exact Props.C09.C09_Go_partial. Qed.
Print Assumptions Props.C09.C09_Go_partial.
Goal forall (uc : unicode) (cfg : go_config) (pd : parsed),
    go_uppercase_acronyms cfg = [] ->
    dom_C09 Go [] pd = true ->
    (forall e, In e (c09_entities pd) -> c09_renamed_away (c9e_id e) = false) ->
    forall fd : file_decls, go_file_decls uc cfg (Proofs.C09Recon.c09_reconciled pd) = Ok fd ->
      good_C09 Go [] pd (c09_observe Go fd) = true.
Proof. exact Props.C09.C09_no_rename_Go_partial. Qed.
Print Assumptions Props.C09.C09_no_rename_Go_partial.
Goal forall (uc : unicode), unicode_ok uc -> forall (acrs : list str) (name : str),
    forallb (forallb is_ascii) acrs = true -> forallb is_ascii name = true ->
    go_convert_acronyms_to_uppercase uc acrs name = Ok (c09_acr_conv acrs name).
Proof. exact Props.C09.C09_go_conv_is_model. Qed.
Print Assumptions Props.C09.C09_go_conv_is_model.
Goal forall (acrs : list str) (s : str), c09_name_eqb Go (c09_acr_conv acrs s) s = true.
Proof. exact Props.C09.C09_go_conv_case_only. Qed.
Print Assumptions Props.C09.C09_go_conv_case_only.
Goal forall (acrs : list str) (pd : parsed) (obs : c09_obs),
    dom_C09 Go [] pd = true -> known_C09 Go [] acrs pd = None ->
    Proofs.C09_GoAcr.c09_go_shape acrs pd obs -> good_C09 Go [] pd obs = true.
Proof. exact Props.C09.C09_Go_shape_good. Qed.
Print Assumptions Props.C09.C09_Go_shape_good.
Goal forall (uc : unicode), unicode_ok uc ->
  forall (cfg : go_config) (pd : parsed),
    forallb (forallb Proofs.GoAcronyms.ga_alnum) (go_uppercase_acronyms cfg) = true ->
    Proofs.C09_GoAcr.c09_go_ascii cfg pd = true ->
    dom_C09 Go [] pd = true -> known_C09 Go [] (go_uppercase_acronyms cfg) pd = None ->
    forall fd : file_decls, go_file_decls uc cfg (Proofs.C09Recon.c09_reconciled pd) = Ok fd ->
      good_C09 Go [] pd (c09_observe Go fd) = true.
Proof. exact Props.C09.C09_Go. Qed.
Print Assumptions Props.C09.C09_Go.
Goal forallb (forallb Proofs.GoAcronyms.ga_alnum) Proofs.C09Witness.w_acr_list = true /\
  Proofs.C09_GoAcr.c09_go_ascii (Proofs.C09Witness.w_go Proofs.C09Witness.w_acr_list) Proofs.C09Witness.w_acr_clean = true /\
  Proofs.C09Witness.c09_nonvacuous_go Proofs.C09Witness.w_acr_list Proofs.C09Witness.w_acr_clean
    (go_file_decls uc_exec (Proofs.C09Witness.w_go Proofs.C09Witness.w_acr_list) (Proofs.C09Recon.c09_reconciled Proofs.C09Witness.w_acr_clean))
    [lit "UserID"; lit "APIEvent"; lit "APIEventV1Inner"; lit "Holder"] = true.
Proof. exact Props.C09.C09_Go_nonvacuous_acronyms. Qed.
Print Assumptions Props.C09.C09_Go_nonvacuous_acronyms.
Goal forall (L : lang) (pfx : str) (pd : parsed),
    (forall e, In e (c09_entities pd) -> c09_renamed_away (c9e_id e) = false) ->
    (forall a, In a (p_aliases pd) -> c09_inline_generic_class L pfx a = None) ->
    known_C09 L pfx [] pd = None.
Proof. exact Props.C09.C09_no_rename_no_class. Qed.
Print Assumptions Props.C09.C09_no_rename_no_class.
Goal Proofs.C09Witness.c09_pinned TypeScript [] [] Proofs.C09Witness.w_prog
    (ts_file_decls uc_exec Proofs.C09Witness.w_ts (Proofs.C09Recon.c09_reconciled Proofs.C09Witness.w_prog))
    {| c9_in := lit "H"; c9_pos := C9Field; c9_name := lit "GRen" |} = true.
Proof. exact Props.C09.C09_generic_ref_fixed. Qed.
Print Assumptions Props.C09.C09_generic_ref_fixed.
Goal Proofs.C09Witness.c09_pinned Python [] [] Proofs.C09Witness.w_prog
    (py_file_decls uc_exec {| py_type_mappings := []; py_no_version_header := true; py_version := [] |}
                   (Proofs.C09Recon.c09_reconciled Proofs.C09Witness.w_prog))
    {| c9_in := lit "H"; c9_pos := C9Field; c9_name := lit "GRen" |} = true.
Proof. exact Props.C09.C09_generic_ref_fixed_python. Qed.
Print Assumptions Props.C09.C09_generic_ref_fixed_python.
Goal Proofs.C09Witness.c09_pinned Swift (lit "OP") [] Proofs.C09Witness.w_prog
    (sw_file_decls uc_exec {| sw_prefix := lit "OP"; sw_type_mappings := []; sw_default_decorators := []; sw_default_generic_constraints := [];
                              sw_codablevoid_constraints := []; sw_no_version_header := true; sw_version := [] |}
                   (Proofs.C09Recon.c09_reconciled Proofs.C09Witness.w_prog))
    {| c9_in := lit "OPH"; c9_pos := C9Field; c9_name := lit "OPGRen" |} = true.
Proof. exact Props.C09.C09_generic_ref_fixed_swift. Qed.
Print Assumptions Props.C09.C09_generic_ref_fixed_swift.
Goal Proofs.C09Witness.c09_pinned TypeScript [] [] Proofs.C09Witness.w_prog_const
    (ts_file_decls uc_exec Proofs.C09Witness.w_ts (Proofs.C09Recon.c09_reconciled Proofs.C09Witness.w_prog_const))
    {| c9_in := lit "LIMIT"; c9_pos := C9Const; c9_name := lit "ARen" |} = true.
Proof. exact Props.C09.C09_const_type_fixed. Qed.
Print Assumptions Props.C09.C09_const_type_fixed.
Goal Proofs.C09Witness.c09_pinned Python [] [] Proofs.C09Witness.w_prog_const
    (py_file_decls uc_exec {| py_type_mappings := []; py_no_version_header := true; py_version := [] |}
                   (Proofs.C09Recon.c09_reconciled Proofs.C09Witness.w_prog_const))
    {| c9_in := lit "LIMIT"; c9_pos := C9Const; c9_name := lit "ARen" |} = true.
Proof. exact Props.C09.C09_const_type_fixed_python. Qed.
Print Assumptions Props.C09.C09_const_type_fixed_python.
Goal Proofs.C09Witness.c09_witness Kotlin (lit "KP") [] Proofs.C09Witness.w_prog
    (kt_file_decls uc_exec Proofs.C09Witness.w_kt (Proofs.C09Recon.c09_reconciled Proofs.C09Witness.w_prog)) "C09-kotlin-enum-parent" = true.
Proof. exact Props.C09.C09_kotlin_enum_parent_refuted. Qed.
Print Assumptions Props.C09.C09_kotlin_enum_parent_refuted.
Goal Proofs.C09Witness.c09_witness Kotlin (lit "KP") [] Proofs.C09Witness.w_prog
    (kt_file_decls uc_exec Proofs.C09Witness.w_kt (Proofs.C09Recon.c09_reconciled Proofs.C09Witness.w_prog)) "C09-kotlin-inner" = true.
Proof. exact Props.C09.C09_kotlin_inner_refuted. Qed.
Print Assumptions Props.C09.C09_kotlin_inner_refuted.
Goal Proofs.C09Witness.c09_witness Kotlin (lit "KP") [] Proofs.C09Witness.w_prog
    (kt_file_decls uc_exec Proofs.C09Witness.w_kt (Proofs.C09Recon.c09_reconciled Proofs.C09Witness.w_prog)) "C09-kotlin-alias" = true.
Proof. exact Props.C09.C09_kotlin_alias_refuted. Qed.
Print Assumptions Props.C09.C09_kotlin_alias_refuted.
Goal Proofs.C09Witness.c09_witness Kotlin (lit "KP") [] Proofs.C09Witness.w_prog_inline
    (kt_file_decls uc_exec Proofs.C09Witness.w_kt (Proofs.C09Recon.c09_reconciled Proofs.C09Witness.w_prog_inline)) "C09-kotlin-inline-generic" = true.
Proof. exact Props.C09.C09_kotlin_inline_generic_refuted. Qed.
Print Assumptions Props.C09.C09_kotlin_inline_generic_refuted.
Goal Proofs.C09Witness.c09_witness Scala [] [] Proofs.C09Witness.w_prog
    (sc_file_decls uc_exec Proofs.C09Witness.w_sc (Proofs.C09Recon.c09_reconciled Proofs.C09Witness.w_prog)) "C09-scala-enum-parent" = true.
Proof. exact Props.C09.C09_scala_enum_parent_refuted. Qed.
Print Assumptions Props.C09.C09_scala_enum_parent_refuted.
Goal Proofs.C09Witness.c09_witness Scala [] [] Proofs.C09Witness.w_prog
    (sc_file_decls uc_exec Proofs.C09Witness.w_sc (Proofs.C09Recon.c09_reconciled Proofs.C09Witness.w_prog)) "C09-scala-inner" = true.
Proof. exact Props.C09.C09_scala_inner_refuted. Qed.
Print Assumptions Props.C09.C09_scala_inner_refuted.
Goal Proofs.C09Witness.c09_witness Scala [] [] Proofs.C09Witness.w_prog
    (sc_file_decls uc_exec Proofs.C09Witness.w_sc (Proofs.C09Recon.c09_reconciled Proofs.C09Witness.w_prog)) "C09-scala-alias" = true.
Proof. exact Props.C09.C09_scala_alias_refuted. Qed.
Print Assumptions Props.C09.C09_scala_alias_refuted.
Goal Proofs.C09Witness.c09_witness Go [] [] Proofs.C09Witness.w_prog
    (go_file_decls uc_exec (Proofs.C09Witness.w_go []) (Proofs.C09Recon.c09_reconciled Proofs.C09Witness.w_prog)) "C09-go-alias" = true.
Proof. exact Props.C09.C09_go_alias_refuted. Qed.
Print Assumptions Props.C09.C09_go_alias_refuted.
Goal Proofs.C09Witness.c09_witness Go [] [] Proofs.C09Witness.w_prog
    (go_file_decls uc_exec (Proofs.C09Witness.w_go []) (Proofs.C09Recon.c09_reconciled Proofs.C09Witness.w_prog)) "C09-go-enum" = true.
Proof. exact Props.C09.C09_go_enum_refuted. Qed.
Print Assumptions Props.C09.C09_go_enum_refuted.
Goal Proofs.C09Witness.c09_witness Go [] [lit "id"] Proofs.C09Witness.w_prog
    (go_file_decls uc_exec (Proofs.C09Witness.w_go [lit "id"]) (Proofs.C09Recon.c09_reconciled Proofs.C09Witness.w_prog)) "C09-go-acronym-target" = true.
Proof. exact Props.C09.C09_go_acronym_target_refuted. Qed.
Print Assumptions Props.C09.C09_go_acronym_target_refuted.
Goal Proofs.C09Witness.c09_witness Go [] Proofs.C09Witness.w_acrs Proofs.C09Witness.w_prog_acr
    (go_file_decls uc_exec (Proofs.C09Witness.w_go Proofs.C09Witness.w_acrs) (Proofs.C09Recon.c09_reconciled Proofs.C09Witness.w_prog_acr))
    "C09-go-acronym-inner" = true.
Proof. exact Props.C09.C09_go_acronym_inner_refuted. Qed.
Print Assumptions Props.C09.C09_go_acronym_inner_refuted.
Goal Proofs.C09Witness.c09_witness Go [] [lit "ID"] Proofs.C09Witness.w_prog_gen
    (go_file_decls uc_exec (Proofs.C09Witness.w_go [lit "ID"]) (Proofs.C09Recon.c09_reconciled Proofs.C09Witness.w_prog_gen))
    "C09-go-acronym-generic" = true.
Proof. exact Props.C09.C09_go_acronym_generic_refuted. Qed.
Print Assumptions Props.C09.C09_go_acronym_generic_refuted.
Goal dom_C09 Kotlin (lit "KP") Proofs.C09Witness.w_clean = true /\ known_C09 Kotlin (lit "KP") [] Proofs.C09Witness.w_clean = None /\
  exists fd, kt_file_decls uc_exec Proofs.C09Witness.w_kt (Proofs.C09Recon.c09_reconciled Proofs.C09Witness.w_clean) = Ok fd /\
             Nat.leb 8 (List.length (c9_refs (c09_observe Kotlin fd))) = true /\
             good_C09 Kotlin (lit "KP") Proofs.C09Witness.w_clean (c09_observe Kotlin fd) = true.
Proof. exact Props.C09.C09_Kotlin_nonvacuous. Qed.
Print Assumptions Props.C09.C09_Kotlin_nonvacuous.
Goal Proofs.C09Witness.c09_nonvacuous TypeScript [] Proofs.C09Witness.w_clean
    (ts_file_decls uc_exec Proofs.C09Witness.w_ts (Proofs.C09Recon.c09_reconciled Proofs.C09Witness.w_clean)) = true.
Proof. exact Props.C09.C09_TypeScript_nonvacuous. Qed.
Print Assumptions Props.C09.C09_TypeScript_nonvacuous.
Goal Proofs.C09Witness.c09_nonvacuous Scala [] Proofs.C09Witness.w_clean
    (sc_file_decls uc_exec Proofs.C09Witness.w_sc (Proofs.C09Recon.c09_reconciled Proofs.C09Witness.w_clean)) = true.
Proof. exact Props.C09.C09_Scala_nonvacuous. Qed.
Print Assumptions Props.C09.C09_Scala_nonvacuous.
Goal Proofs.C09Witness.c09_nonvacuous Python [] Proofs.C09Witness.w_clean
    (py_file_decls uc_exec Proofs.C09Witness.w_py (Proofs.C09Recon.c09_reconciled Proofs.C09Witness.w_clean)) = true.
Proof. exact Props.C09.C09_Python_nonvacuous. Qed.
Print Assumptions Props.C09.C09_Python_nonvacuous.
Goal Proofs.C09Witness.c09_nonvacuous Swift (lit "OP") Proofs.C09Witness.w_clean
    (sw_file_decls uc_exec Proofs.C09Witness.w_sw (Proofs.C09Recon.c09_reconciled Proofs.C09Witness.w_clean)) = true.
Proof. exact Props.C09.C09_Swift_nonvacuous. Qed.
Print Assumptions Props.C09.C09_Swift_nonvacuous.
Goal Proofs.C09Witness.c09_nonvacuous Go [] Proofs.C09Witness.w_clean
    (go_file_decls uc_exec (Proofs.C09Witness.w_go []) (Proofs.C09Recon.c09_reconciled Proofs.C09Witness.w_clean)) = true.
Proof. exact Props.C09.C09_Go_nonvacuous. Qed.
Print Assumptions Props.C09.C09_Go_nonvacuous.
Goal forall (cn : str) (rn : renames) (im : list imported) (t : rtype),
    c09_type_ids (check_type cn rn im t) =
    map (fun fi => (fst fi, match resolve_renamed cn rn im (snd fi) with Some r => r | None => snd fi end)) (c09_type_ids t).
Proof. exact Props.C09.C09_multi_reconciled_ids. Qed.
Print Assumptions Props.C09.C09_multi_reconciled_ids.
Goal forall (ho : list imported -> list imported) (arrivals : list (str * parsed)),
    Proofs.C14Front.oracle_ok ho -> c9m_ids_wf arrivals = true ->
    forall (b : str) (pd' : parsed), In (b, pd') (multi_crates ho arrivals) ->
    forall (tp' : c09_tpos) (form : c09_form) (i' : str),
      In tp' (c09_tposs pd') -> In (form, i') (c09_type_ids (c9t_type tp')) ->
      exists (tp : c09_tpos) (i : str),
        c9t_owner tp' = c9t_owner tp /\ c9t_generics tp' = c9t_generics tp /\ c9t_pos tp' = c9t_pos tp /\
        In (form, i) (c09_type_ids (c9t_type tp)) /\
        (exists f, In (b, f) arrivals /\ In tp (c09_tposs f)) /\
        (forall f, In (b, f) arrivals -> In tp (c09_tposs f) ->
           c9m_known arrivals b f (c9t_generics tp) i = None ->
           forall s, c9m_spelling arrivals b f (c9t_generics tp) i = Some s -> i' = s).
Proof. exact Props.C09.C09_multi_reconciled_mentions. Qed.
Print Assumptions Props.C09.C09_multi_reconciled_mentions.
Goal Proofs.C09MultiWitness.wm_dom Proofs.C14Witness.ws_renamed = Some (true, None) /\
  Proofs.C09MultiWitness.wm_dom Proofs.C14Witness.ws_renamed_path = Some (true, None) /\
  Proofs.C09MultiWitness.wm_spec Proofs.C14Witness.ws_renamed Proofs.C14Witness.MY (lit "A2") = [(Some (lit "a"), Some (lit "A2Renamed"), None)] /\
  Proofs.C09MultiWitness.wm_spec Proofs.C14Witness.ws_renamed_path Proofs.C14Witness.MY (lit "A2") = [(Some (lit "a"), Some (lit "A2Renamed"), None)] /\
  Proofs.C09MultiWitness.wm_ts_text Proofs.C14Witness.ws_renamed Proofs.C14Witness.MY = Some Proofs.C09MultiWitness.MY_TS /\
  Proofs.C09MultiWitness.wm_ts_text Proofs.C14Witness.ws_renamed_path Proofs.C14Witness.MY = Some Proofs.C09MultiWitness.MY_TS /\
  match Proofs.C09MultiWitness.wm_ts_text Proofs.C14Witness.ws_renamed (lit "a") with
  | Some t => contains_sub (lit "export interface A2Renamed {") t | None => false end = true.
Proof. exact Props.C09.C09_multi_renamed_import_pin. Qed.
Print Assumptions Props.C09.C09_multi_renamed_import_pin.
Goal Proofs.C09MultiWitness.MY_TS =
    (lit "import { A2Renamed } from ""./a"";" ++ [10%N; 10%N] ++
     lit "export interface B1 {" ++ [10%N; 9%N] ++ lit "f: A2Renamed;" ++ [10%N] ++ lit "}" ++ [10%N; 10%N])%list.
Proof. exact Props.C09.C09_multi_renamed_import_text. Qed.
Print Assumptions Props.C09.C09_multi_renamed_import_text.
Goal Proofs.C09MultiWitness.wm_dom Proofs.C09MultiWitness.ws_c09d = Some (true, None) /\
  Proofs.C09MultiWitness.wm_spec Proofs.C09MultiWitness.ws_c09d (lit "b") (lit "A2") = [(Some (lit "b"), Some (lit "A2"), None)] /\
  Proofs.C09MultiWitness.wm_ts_text Proofs.C09MultiWitness.ws_c09d (lit "b") =
    Some (lit "import { A1, A2Renamed, A3 } from ""./a"";" ++ [10%N; 10%N] ++
          lit "export interface A2 {" ++ [10%N; 9%N] ++ lit "z: number;" ++ [10%N] ++ lit "}" ++ [10%N; 10%N] ++
          lit "export interface B1 {" ++ [10%N; 9%N] ++ lit "f: A2;" ++ [10%N] ++ lit "}" ++ [10%N; 10%N])%list.
Proof. exact Props.C09.C09_multi_local_shadows_glob_pin. Qed.
Print Assumptions Props.C09.C09_multi_local_shadows_glob_pin.
Goal Proofs.C09MultiWitness.wm_dom Proofs.C14Witness.ws_glob_renamed = Some (true, Some "C09-multi-glob-renamed"%string) /\
  Proofs.C09MultiWitness.wm_spec Proofs.C14Witness.ws_glob_renamed Proofs.C14Witness.MY (lit "A2") =
    [(Some (lit "a"), Some (lit "A2Renamed"), Some "C09-multi-glob-renamed"%string)] /\
  Proofs.C09MultiWitness.wm_ts_text Proofs.C14Witness.ws_glob_renamed Proofs.C14Witness.MY =
    Some (lit "import { A1, A2Renamed, A3 } from ""./a"";" ++ [10%N; 10%N] ++
          lit "export interface B1 {" ++ [10%N; 9%N] ++ lit "f: A2;" ++ [10%N] ++ lit "}" ++ [10%N; 10%N])%list.
Proof. exact Props.C09.C09_multi_glob_renamed_refuted. Qed.
Print Assumptions Props.C09.C09_multi_glob_renamed_refuted.
Goal Proofs.C09MultiWitness.wm_kt_text [] Proofs.C14Witness.ws_renamed Proofs.C14Witness.MY =
    Some (lit "package p.my_crate" ++ [10%N; 10%N] ++ lit "import kotlinx.serialization.Serializable" ++ [10%N] ++
          lit "import kotlinx.serialization.SerialName" ++ [10%N; 10%N] ++ lit "import p.a.A2Renamed" ++ [10%N; 10%N] ++
          lit "@Serializable" ++ [10%N] ++ lit "data class B1 (" ++ [10%N; 9%N] ++ lit "val f: A2Renamed" ++ [10%N] ++ lit ")" ++ [10%N; 10%N])%list /\
  Proofs.C09MultiWitness.wm_kt_text (lit "KP") Proofs.C14Witness.ws_renamed Proofs.C14Witness.MY =
    Some (lit "package p.my_crate" ++ [10%N; 10%N] ++ lit "import kotlinx.serialization.Serializable" ++ [10%N] ++
          lit "import kotlinx.serialization.SerialName" ++ [10%N; 10%N] ++ lit "import p.a.KPA2Renamed" ++ [10%N; 10%N] ++
          lit "@Serializable" ++ [10%N] ++ lit "data class KPB1 (" ++ [10%N; 9%N] ++ lit "val f: KPA2Renamed" ++ [10%N] ++ lit ")" ++ [10%N; 10%N])%list /\
  match Proofs.C09MultiWitness.wm_kt_text (lit "KP") Proofs.C14Witness.ws_renamed Proofs.C14Witness.MY with
  | Some t => negb (contains_sub (lit "import p.a.A2Renamed") t)
  | None => false
  end = true /\
  match Proofs.C09MultiWitness.wm_kt_text (lit "KP") Proofs.C14Witness.ws_renamed (lit "a") with
  | Some t => contains_sub (lit "data class KPA2Renamed (") t | None => false end = true.
Proof. exact Props.C09.C09_multi_renamed_import_kotlin_pin. Qed.
Print Assumptions Props.C09.C09_multi_renamed_import_kotlin_pin.
Goal forall (uc : unicode) (cfg : ts_config) (ho : list imported -> list imported) (arrivals : list (str * parsed)),
    Proofs.C14Front.oracle_ok ho -> c9m_ids_wf arrivals = true ->
    forall (b : str) (pd' : parsed), In (b, pd') (multi_crates ho arrivals) ->
    forall (st : ts_state) (im : scoped) (text : str) (st' : ts_state),
      ts_generate_multi uc cfg st im pd' = Ok (text, st') ->
      exists ds : list ts_decl,
        text = (ts_begin_file cfg ++ ts_write_imports im ++ List.concat (map ts_render_decl ds) ++ ts_end_file st')%list /\
        Forall (fun d => (c09_is_def (ts_obs d) = true -> c9m_def_ok arrivals b [] (d_name (ts_obs d))) /\
                         (forall r, In r (c09_decl_refs TypeScript (ts_obs d)) -> c9m_ref_ok arrivals b [] r)) ds.
Proof. exact Props.C09.C09_multi_TypeScript. Qed.
Print Assumptions Props.C09.C09_multi_TypeScript.
Goal forall (uc : unicode) (cfg : ts_config) (ho : list imported -> list imported) (arrivals : list (str * parsed)),
    Proofs.C14Front.oracle_ok ho -> c9m_ids_wf arrivals = true ->
    forall (b : str) (pd' : parsed), In (b, pd') (multi_crates ho arrivals) ->
    forall (it' : ritem) (d : ts_decl) (s1 s2 : ts_state),
      In it' (items_of pd') -> ts_decl_of uc cfg it' s1 = Ok (d, s2) ->
      (c09_is_def (ts_obs d) = true -> c9m_def_ok arrivals b [] (d_name (ts_obs d))) /\
      (forall r, In r (c09_decl_refs TypeScript (ts_obs d)) -> c9m_ref_ok arrivals b [] r).
Proof. exact Props.C09.C09_multi_TypeScript_item. Qed.
Print Assumptions Props.C09.C09_multi_TypeScript_item.
Goal forall (uc : unicode) (T ign : list str) (ho_file : list imported -> list imported) (ws : list ws_entry) (arrivals : list (str * parsed)),
    parse_workspace uc T ign ho_file ws = Ok arrivals ->
    forall d n, c9m_two_names arrivals d n = false ->
      Spec.C14Spec.renamed_in (Proofs.C14Main.c14_infos uc T ws) d n = c9m_emitted_name arrivals d n.
Proof. exact Props.C09.C09_multi_emitted_name_is_import_name. Qed.
Print Assumptions Props.C09.C09_multi_emitted_name_is_import_name.
Goal forall (uc : unicode), unicode_ok uc ->
  forall (cfg : ts_config) (T ign : list str) (ho_file ho_crate : list imported -> list imported) (hc : crate_types -> crate_types)
         (ws : list ws_entry) (arrivals : list (str * parsed)),
    parse_workspace uc T ign ho_file ws = Ok arrivals ->
    Proofs.C14Front.oracle_ok ho_file -> Proofs.C14Front.oracle_ok ho_crate -> Proofs.C14Front.oracle_ok hc ->
    c9m_ids_wf arrivals = true ->
    forall c pd, In (c, pd) (multi_crates ho_crate arrivals) ->
    let imports := crate_imports hc (multi_crates ho_crate arrivals) c pd in
    forall st text st', ts_generate_multi uc cfg st imports pd = Ok (text, st') ->
      (exists ds : list ts_decl,
         text = (ts_begin_file cfg ++ ts_write_imports imports ++ List.concat (map ts_render_decl ds) ++ ts_end_file st')%list /\
         Forall (fun d => (c09_is_def (ts_obs d) = true -> c9m_def_ok arrivals c [] (d_name (ts_obs d))) /\
                          (forall r, In r (c09_decl_refs TypeScript (ts_obs d)) -> c9m_ref_ok arrivals c [] r)) ds) /\
      (forall v, In v (Spec.C14Spec.judge_crate (Proofs.C14Main.c14_infos uc T ws) ign c (scoped_pairs imports)) ->
         Spec.C14Spec.rv_dom v = true ->
         Spec.C14Spec.rv_imported v = true /\
         (c9m_two_names arrivals (Spec.C14Spec.rv_from v) (Spec.C14Spec.rv_name v) = false ->
          Spec.C14Spec.rv_generated_name v = c9m_emitted_name arrivals (Spec.C14Spec.rv_from v) (Spec.C14Spec.rv_name v))).
Proof. exact Props.C09.C09_multi_TypeScript_spelled_and_imported. Qed.
Print Assumptions Props.C09.C09_multi_TypeScript_spelled_and_imported.
Goal forall (L : lang) (pfx : str) (ws : c9m_ws) (b : str) (obs : c09_obs),
    good_C09_multi L pfx ws b obs = true <->
    (forall d, In d (c9_defs obs) -> c9m_ldef_ok L ws b pfx d) /\ (forall r, In r (c9_refs obs) -> c9m_lref_ok L ws b pfx r).
Proof. exact Props.C09.C09_multi_good_reflect. Qed.
Print Assumptions Props.C09.C09_multi_good_reflect.
Goal forall (L : lang) (ws : c9m_ws) (b pfx : str) (r : c09_ref), c9m_lref_okb L ws b pfx r = true <-> c9m_lref_ok L ws b pfx r.
Proof. exact Props.C09.C09_multi_ref_reflect. Qed.
Print Assumptions Props.C09.C09_multi_ref_reflect.
Goal forall (L : lang) (ws : c9m_ws) (b pfx d : str), c9m_ldef_okb L ws b pfx d = true <-> c9m_ldef_ok L ws b pfx d.
Proof. exact Props.C09.C09_multi_def_reflect. Qed.
Print Assumptions Props.C09.C09_multi_def_reflect.
Goal forall (L : lang) (pfx : str) (e : c09_entity), c9e_kind e <> C9KInner -> c9m_def_class L e = None ->
    c9m_def_name L pfx e = (pfx ++ renamed (c9e_id e) ++ c9e_suffix e)%list.
Proof. exact Props.C09.C09_multi_def_name_wanted. Qed.
Print Assumptions Props.C09.C09_multi_def_name_wanted.
Goal forall (L : lang) (pfx : str) (ho : list imported -> list imported) (arrivals : list (str * parsed)) (b : str) (pd' : parsed) (fd : file_decls),
    Proofs.C14Front.oracle_ok ho -> c9m_ids_wf arrivals = true -> In (b, pd') (multi_crates ho arrivals) ->
    (forall d, In d (fd_decls fd) -> Proofs.C09MultiLang.c9l_decl_ok L pfx pd' d) ->
    good_C09_multi L pfx arrivals b (c09_observe L fd) = true.
Proof. exact Props.C09.C09_multi_shape_good. Qed.
Print Assumptions Props.C09.C09_multi_shape_good.
Goal forall (uc : unicode) (cfg : kt_config) (ho : list imported -> list imported) (arrivals : list (str * parsed)),
    Proofs.C14Front.oracle_ok ho -> c9m_ids_wf arrivals = true ->
    forall (b : str) (pd' : parsed), In (b, pd') (multi_crates ho arrivals) ->
    forall (c : str) (im : scoped) (text : str), kt_generate_multi uc cfg c im pd' = Ok text ->
    exists (ds : list kt_decl) (fd : file_decls),
      kt_decls uc cfg pd' = Ok ds /\ kt_file_decls uc cfg pd' = Ok fd /\ fd_decls fd = map kt_obs ds /\
      text = (kt_render_header (Proofs.C12MultiStateless.kt_header_multi cfg c) ++ kt_write_imports cfg im ++ List.concat (map kt_render_decl ds))%list /\
      Forall (fun d => (c09_is_def (kt_obs d) = true -> c9m_ldef_ok Kotlin arrivals b (kt_prefix cfg) (d_name (kt_obs d))) /\
                       (forall r, In r (c09_decl_refs Kotlin (kt_obs d)) -> c9m_lref_ok Kotlin arrivals b (kt_prefix cfg) r)) ds /\
      good_C09_multi Kotlin (kt_prefix cfg) arrivals b (c09_observe Kotlin fd) = true.
Proof. exact Props.C09.C09_multi_Kotlin. Qed.
Print Assumptions Props.C09.C09_multi_Kotlin.
Goal forall (uc : unicode) (cfg : kt_config) (pd' : parsed) (ds : list kt_decl), kt_decls uc cfg pd' = Ok ds ->
    forall d, In d ds -> Proofs.C09MultiLang.c9l_decl_ok Kotlin (kt_prefix cfg) pd' (kt_obs d).
Proof. exact Props.C09.C09_multi_Kotlin_shape. Qed.
Print Assumptions Props.C09.C09_multi_Kotlin_shape.
Goal forall (uc : unicode), unicode_ok uc ->
  forall (cfg : kt_config) (T ign : list str) (ho_file ho_crate : list imported -> list imported) (hc : crate_types -> crate_types)
         (ws : list ws_entry) (arrivals : list (str * parsed)),
    parse_workspace uc T ign ho_file ws = Ok arrivals ->
    Proofs.C14Front.oracle_ok ho_file -> Proofs.C14Front.oracle_ok ho_crate -> Proofs.C14Front.oracle_ok hc ->
    c9m_ids_wf arrivals = true ->
    forall c pd, In (c, pd) (multi_crates ho_crate arrivals) ->
    let imports := crate_imports hc (multi_crates ho_crate arrivals) c pd in
    forall text, kt_generate_multi uc cfg c imports pd = Ok text ->
      (exists ds fd,
         kt_decls uc cfg pd = Ok ds /\ kt_file_decls uc cfg pd = Ok fd /\ fd_decls fd = map kt_obs ds /\
         text = (kt_render_header (Proofs.C12MultiStateless.kt_header_multi cfg c) ++
                 Spec.C14KotlinSpec.c14_kt_import_block (kt_package cfg) (kt_prefix cfg) (scoped_pairs imports) ++
                 List.concat (map kt_render_decl ds))%list /\
         good_C09_multi Kotlin (kt_prefix cfg) arrivals c (c09_observe Kotlin fd) = true) /\
      (forall v, In v (Spec.C14Spec.judge_crate (Proofs.C14Main.c14_infos uc T ws) ign c (scoped_pairs imports)) ->
         Spec.C14Spec.rv_dom v = true ->
         Spec.C14Spec.rv_imported v = true /\
         (c9m_two_names arrivals (Spec.C14Spec.rv_from v) (Spec.C14Spec.rv_name v) = false ->
          Spec.C14Spec.rv_generated_name v = c9m_emitted_name arrivals (Spec.C14Spec.rv_from v) (Spec.C14Spec.rv_name v))) /\
      (forall k n, In (k, n) (scoped_pairs imports) ->
         k <> c /\
         exists pdk, In (k, pdk) (multi_crates ho_crate arrivals) /\
           (exists it, In it (items_of pdk) /\ Spec.C14Spec.is_type14 it = true /\ renamed (item_id it) = n) /\
           forall imk textk, kt_generate_multi uc cfg k imk pdk = Ok textk ->
             forall it, In it (items_of pdk) -> Spec.C14Spec.is_type14 it = true -> renamed (item_id it) = n ->
               exists ds pre post,
                 kt_decl_of cfg it = Ok ds /\
                 textk = (kt_begin_file_multi cfg k ++ Spec.C14KotlinSpec.c14_kt_import_block (kt_package cfg) (kt_prefix cfg) (scoped_pairs imk) ++
                          pre ++ List.concat (map kt_render_decl ds) ++ post)%list /\
                 (Spec.C14KotlinSpec.c14_kt_alias_class it = false -> exists d, In d ds /\ d_name (kt_obs d) = (kt_prefix cfg ++ n)%list)).
Proof. exact Props.C09.C09_multi_Kotlin_spelled_and_imported. Qed.
Print Assumptions Props.C09.C09_multi_Kotlin_spelled_and_imported.
Goal Proofs.C09MultiLangWitness.wl_dom Kotlin (lit "KP") Proofs.C09MultiLangWitness.ws_rich = Some (true, None) /\
  Proofs.C09MultiLangWitness.wl_dom Kotlin [] Proofs.C09MultiLangWitness.ws_rich = Some (true, None) /\
  Proofs.C09MultiLangWitness.wl_kt (lit "KP") Proofs.C09MultiLangWitness.ws_rich Proofs.C14Witness.MY = Some (5, 16, true)%nat /\
  Proofs.C09MultiLangWitness.wl_kt [] Proofs.C09MultiLangWitness.ws_rich Proofs.C14Witness.MY = Some (5, 16, true)%nat /\
  Proofs.C09MultiLangWitness.wl_kt (lit "KP") Proofs.C09MultiLangWitness.ws_rich (lit "a") = Some (3, 0, true)%nat /\
  Proofs.C09MultiLangWitness.wl_kt_respelled (lit "KP") Proofs.C09MultiLangWitness.ws_rich Proofs.C14Witness.MY (lit "KPA2Renamed") (lit "KPA2") = Some false /\
  Proofs.C09MultiLangWitness.wl_kt_respelled (lit "KP") Proofs.C09MultiLangWitness.ws_rich Proofs.C14Witness.MY (lit "KPA2Renamed") (lit "A2Renamed") = Some false /\
  Proofs.C09MultiLangWitness.wl_kt_respelled (lit "KP") Proofs.C09MultiLangWitness.ws_rich Proofs.C14Witness.MY (lit "T") (lit "KPT") = Some false /\
  Proofs.C09MultiLangWitness.wl_kt_respelled (lit "KP") Proofs.C09MultiLangWitness.ws_rich Proofs.C14Witness.MY (lit "KPEVInner") (lit "KPEV") = Some false.
Proof. exact Props.C09.C09_multi_Kotlin_nonvacuous. Qed.
Print Assumptions Props.C09.C09_multi_Kotlin_nonvacuous.
Goal Proofs.C09MultiLangWitness.wl_dom Kotlin (lit "KP") Proofs.C09MultiLangWitness.ws_emitted_generic = Some (true, Some "C09-multi-emitted-generic"%string) /\
  Proofs.C09MultiLangWitness.wl_dom Kotlin [] Proofs.C09MultiLangWitness.ws_emitted_generic = Some (true, None) /\
  Proofs.C09MultiWitness.wm_spec Proofs.C09MultiLangWitness.ws_emitted_generic Proofs.C14Witness.MY (lit "A2") = [(Some (lit "a"), Some (lit "X2"), None)] /\
  Proofs.C09MultiWitness.wm_kt_text (lit "KP") Proofs.C09MultiLangWitness.ws_emitted_generic Proofs.C14Witness.MY =
    Some (lit "package p.my_crate" ++ [10%N; 10%N] ++ lit "import kotlinx.serialization.Serializable" ++ [10%N] ++
          lit "import kotlinx.serialization.SerialName" ++ [10%N; 10%N] ++ lit "import p.a.KPX2" ++ [10%N; 10%N] ++
          lit "@Serializable" ++ [10%N] ++ lit "data class KPG<X2> (" ++ [10%N; 9%N] ++ lit "val f: X2," ++ [10%N; 9%N] ++ lit "val g: X2" ++ [10%N] ++
          lit ")" ++ [10%N; 10%N])%list /\
  match Proofs.C09MultiWitness.wm_kt_text (lit "KP") Proofs.C09MultiLangWitness.ws_emitted_generic (lit "a") with
  | Some t => contains_sub (lit "data class KPX2 (") t | None => false end = true.
Proof. exact Props.C09.C09_multi_emitted_generic_refuted. Qed.
Print Assumptions Props.C09.C09_multi_emitted_generic_refuted.
Goal forall (L : lang) (fd : file_decls), c09_observe L fd = c9m_observe_decls L (fd_decls fd).
Proof. exact Props.C09.C09_multi_observe_decls. Qed.
Print Assumptions Props.C09.C09_multi_observe_decls.
Goal forall (uc : unicode) (cfg : sw_config) (ho : list imported -> list imported) (arrivals : list (str * parsed)),
    Proofs.C14Front.oracle_ok ho -> c9m_ids_wf arrivals = true ->
    forall (b : str) (pd' : parsed), In (b, pd') (multi_crates ho arrivals) ->
    forall (st : sw_state) (text : str) (st' : sw_state), sw_generate_multi uc cfg st pd' = Ok (text, st') ->
    exists ds : list sw_decl,
      Proofs.C12MultiSwift.sw_multi_decls uc cfg st pd' = Ok (ds, st') /\
      text = (sw_begin_file cfg ++ List.concat (map sw_render_decl ds))%list /\
      Forall (fun d => (c09_is_def d = true -> c9m_ldef_ok Swift arrivals b (sw_prefix cfg) (d_name d)) /\
                       (forall r, In r (c09_decl_refs Swift d) -> c9m_lref_ok Swift arrivals b (sw_prefix cfg) r)) (flat_map sw_obs ds) /\
      good_C09_multi Swift (sw_prefix cfg) arrivals b (c9m_observe_decls Swift (flat_map sw_obs ds)) = true.
Proof. exact Props.C09.C09_multi_Swift. Qed.
Print Assumptions Props.C09.C09_multi_Swift.
Goal forall (uc : unicode) (cfg : sw_config) (pd' : parsed) (st : sw_state) (ds : list sw_decl) (st' : sw_state),
    Proofs.C12MultiSwift.sw_multi_decls uc cfg st pd' = Ok (ds, st') ->
    forall o, In o (flat_map sw_obs ds) -> Proofs.C09MultiLang.c9l_decl_ok Swift (sw_prefix cfg) pd' o.
Proof. exact Props.C09.C09_multi_Swift_shape. Qed.
Print Assumptions Props.C09.C09_multi_Swift_shape.
Goal forall (uc : unicode) (cfg : sc_config) (ho : list imported -> list imported) (arrivals : list (str * parsed)),
    Proofs.C14Front.oracle_ok ho -> c9m_ids_wf arrivals = true ->
    forall (b : str) (pd' : parsed), In (b, pd') (multi_crates ho arrivals) ->
    forall fd : file_decls, sc_file_decls uc cfg pd' = Ok fd ->
      Forall (fun d => (c09_is_def d = true -> c9m_ldef_ok Scala arrivals b [] (d_name d)) /\
                       (forall r, In r (c09_decl_refs Scala d) -> c9m_lref_ok Scala arrivals b [] r)) (fd_decls fd) /\
      good_C09_multi Scala [] arrivals b (c09_observe Scala fd) = true.
Proof. exact Props.C09.C09_multi_Scala. Qed.
Print Assumptions Props.C09.C09_multi_Scala.
Goal forall (uc : unicode) (cfg : sc_config) (pd' : parsed) (objs pkgs : list sc_decl), sc_decls uc cfg pd' = Ok (objs, pkgs) ->
    forall o, In o (flat_map sc_obs (objs ++ pkgs)) -> Proofs.C09MultiLang.c9l_decl_ok Scala [] pd' o.
Proof. exact Props.C09.C09_multi_Scala_shape. Qed.
Print Assumptions Props.C09.C09_multi_Scala_shape.
Goal forall (uc : unicode) (cfg : py_config) (ho : list imported -> list imported) (arrivals : list (str * parsed)),
    Proofs.C14Front.oracle_ok ho -> c9m_ids_wf arrivals = true ->
    forall (b : str) (pd' : parsed), In (b, pd') (multi_crates ho arrivals) ->
    forall (st : py_state) (text : str) (st' : py_state), py_generate_multi uc cfg st pd' = Ok (text, st') ->
    exists ds : list py_decl,
      Proofs.C12Multi.py_multi_decls uc cfg st pd' = Ok (ds, st') /\
      text = (py_begin_file cfg ++ py_write_all_imports st' ++ py_write_custom_translations st' ++ List.concat (map py_render_decl ds))%list /\
      Forall (fun d => (c09_is_def d = true -> c9m_ldef_ok Python arrivals b [] (d_name d)) /\
                       (forall r, In r (c09_decl_refs Python d) -> c9m_lref_ok Python arrivals b [] r)) (flat_map py_obs ds) /\
      good_C09_multi Python [] arrivals b (c9m_observe_decls Python (flat_map py_obs ds)) = true.
Proof. exact Props.C09.C09_multi_Python. Qed.
Print Assumptions Props.C09.C09_multi_Python.
Goal forall (uc : unicode) (cfg : py_config) (pd' : parsed) (st : py_state) (ds : list py_decl) (st' : py_state),
    Proofs.C12Multi.py_multi_decls uc cfg st pd' = Ok (ds, st') ->
    forall o, In o (flat_map py_obs ds) -> Proofs.C09MultiLang.c9l_decl_ok Python [] pd' o.
Proof. exact Props.C09.C09_multi_Python_shape. Qed.
Print Assumptions Props.C09.C09_multi_Python_shape.
Goal Proofs.C09MultiLangWitness.wl_dom Swift (lit "OP") Proofs.C09MultiLangWitness.ws_rich = Some (true, None) /\
  Proofs.C09MultiLangWitness.wl_dom Scala [] Proofs.C09MultiLangWitness.ws_rich = Some (true, None) /\
  Proofs.C09MultiLangWitness.wl_dom Python [] Proofs.C09MultiLangWitness.ws_rich = Some (true, None) /\
  Proofs.C09MultiLangWitness.wl_sw (lit "OP") Proofs.C09MultiLangWitness.ws_rich Proofs.C14Witness.MY (lit "OPA2Renamed") (lit "OPA2") = Some (5, 13, true, false)%nat /\
  Proofs.C09MultiLangWitness.wl_sw (lit "OP") Proofs.C09MultiLangWitness.ws_rich Proofs.C14Witness.MY (lit "T") (lit "OPT") = Some (5, 13, true, false)%nat /\
  Proofs.C09MultiLangWitness.wl_sc Proofs.C09MultiLangWitness.ws_rich Proofs.C14Witness.MY (lit "A2Renamed") (lit "A2") = Some (5, 16, true, false)%nat /\
  Proofs.C09MultiLangWitness.wl_sc Proofs.C09MultiLangWitness.ws_rich Proofs.C14Witness.MY (lit "E") (lit "E2") = Some (5, 16, true, false)%nat /\
  Proofs.C09MultiLangWitness.wl_py Proofs.C09MultiLangWitness.ws_rich Proofs.C14Witness.MY (lit "A2Renamed") (lit "A2") = Some (5, 12, true, false)%nat /\
  Proofs.C09MultiLangWitness.wl_py Proofs.C09MultiLangWitness.ws_rich Proofs.C14Witness.MY (lit "EVInner") (lit "EV") = Some (5, 12, true, false)%nat.
Proof. exact Props.C09.C09_multi_Swift_Scala_Python_nonvacuous. Qed.
Print Assumptions Props.C09.C09_multi_Swift_Scala_Python_nonvacuous.
Goal Proofs.C09MultiLangWitness.wl_dom Kotlin [] Proofs.C09MultiLangWitness.ws_alias_renamed = Some (true, Some "C09-kotlin-alias"%string) /\
  Proofs.C09MultiLangWitness.wl_dom Scala [] Proofs.C09MultiLangWitness.ws_alias_renamed = Some (true, Some "C09-scala-alias"%string) /\
  Proofs.C09MultiLangWitness.wl_dom Go [] Proofs.C09MultiLangWitness.ws_alias_renamed = Some (true, Some "C09-go-alias"%string) /\
  Proofs.C09MultiLangWitness.wl_dom Swift [] Proofs.C09MultiLangWitness.ws_alias_renamed = Some (true, None) /\
  Proofs.C09MultiLangWitness.wl_dom Python [] Proofs.C09MultiLangWitness.ws_alias_renamed = Some (true, None).
Proof. exact Props.C09.C09_multi_alias_classes. Qed.
Print Assumptions Props.C09.C09_multi_alias_classes.
Goal forall (uc : unicode) (cfg : go_config) (ho : list imported -> list imported) (arrivals : list (str * parsed)),
    go_uppercase_acronyms cfg = [] ->
    Proofs.C14Front.oracle_ok ho -> c9m_ids_wf arrivals = true ->
    forall (b : str) (pd' : parsed), In (b, pd') (multi_crates ho arrivals) ->
    forall (st : go_state) (text : str) (st' : go_state), go_generate_multi uc cfg st pd' = Ok (text, st') ->
    exists (ds : list go_decl) (header : str) (st1 : go_state),
      Proofs.C12MultiGo.go_multi_decls uc cfg st pd' = Ok (ds, st') /\ go_begin_file cfg st = Ok (header, st1) /\
      text = (header ++ go_write_all_imports st' ++ List.concat (map go_render_decl ds))%list /\
      Forall (fun d => (c09_is_def d = true -> c9m_ldef_ok Go arrivals b [] (d_name d)) /\
                       (forall r, In r (c09_decl_refs Go d) -> c9m_lref_ok Go arrivals b [] r)) (flat_map go_obs ds) /\
      good_C09_multi Go [] arrivals b (c9m_observe_decls Go (flat_map go_obs ds)) = true.
Proof. exact Props.C09.C09_multi_Go_partial. Qed.
Print Assumptions Props.C09.C09_multi_Go_partial.
Goal forall (uc : unicode) (cfg : go_config), go_uppercase_acronyms cfg = [] ->
  forall (pd' : parsed) (st : go_state) (ds : list go_decl) (st' : go_state),
    Proofs.C12MultiGo.go_multi_decls uc cfg st pd' = Ok (ds, st') ->
    forall o, In o (flat_map go_obs ds) -> Proofs.C09MultiLang.c9l_decl_ok Go [] pd' o.
Proof. exact Props.C09.C09_multi_Go_shape_partial. Qed.
Print Assumptions Props.C09.C09_multi_Go_shape_partial.
Goal Proofs.C09MultiLangWitness.wl_dom Go [] Proofs.C09MultiLangWitness.ws_rich = Some (true, None) /\
  Proofs.C09MultiLangWitness.wl_go Proofs.C09MultiLangWitness.ws_rich Proofs.C14Witness.MY (lit "A2Renamed") (lit "A2") = Some (5, 12, true, false)%nat /\
  Proofs.C09MultiLangWitness.wl_go Proofs.C09MultiLangWitness.ws_rich Proofs.C14Witness.MY (lit "EVInner") (lit "EV") = Some (5, 12, true, false)%nat.
Proof. exact Props.C09.C09_multi_Go_nonvacuous. Qed.
Print Assumptions Props.C09.C09_multi_Go_nonvacuous.
Goal forall (L : lang) (pfx : str) (ws : c9m_ws), c9m_lknown_ws L pfx ws = None ->
  forall b f, In (b, f) ws ->
    (forall tp form i, In tp (c09_tposs f) -> In (form, i) (c09_type_ids (c9t_type tp)) -> c9m_lknown L pfx ws b f tp i = None) /\
    (forall e, In e (c9m_entities ws b) ->
       match c9e_kind e with
       | C9KInner => c09_inner_site_class L e = None
       | _ => c9m_def_class L e = None /\ c09_parent_site_class L e = None
       end).
Proof. exact Props.C09.C09_multi_no_class. Qed.
Print Assumptions Props.C09.C09_multi_no_class.
