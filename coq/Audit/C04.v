(* Pinned statements for C04: compiled on every check run. A statement weakened in Props/ fails here. *)
From Coq Require Import String List Bool Arith.
From TS Require Import Model.Str Model.Outcome Model.Unicode Model.Syntax Model.Attrs Model.Types Model.Parse Model.Lang.Common Model.Lang.Decl.
From TS Require Import Model.Lang.TypeScript Model.Lang.Kotlin Model.Lang.Swift Model.Lang.Scala Model.Lang.Go Model.Lang.Python.
From TS Require Import Spec.Serde Spec.C04Spec Spec.C04Readers.
From TS Require Proofs.FrontTypes Proofs.FrontAttrs Proofs.C04 Proofs.C04_Back.
Import ListNotations.
Local Open Scope nat_scope.
From TS Require Props.C04.

Goal forall attrs : list attr, serde_default attrs = bare_default attrs.
Proof. exact Props.C04.C04_front_default. Qed.
Print Assumptions Props.C04.C04_front_default.
Goal forall (t : ty) (r : rtype), parse_ty t = Ok r -> Proofs.C04.rtype_opt_depth r = c04_opt_depth t.
Proof. exact Props.C04.C04_front_depth. Qed.
Print Assumptions Props.C04.C04_front_depth.
Goal forall (t : ty) (r : rtype), parse_ty t = Ok r -> is_optional r = is_option_type t.
Proof. exact Props.C04.C04_front_optional. Qed.
Print Assumptions Props.C04.C04_front_optional.
Goal forall (stack : list c04_wrap) (t : ty),
    forallb c04_wrap_ok stack = true -> c04_opt_depth (c04_wrap_ty stack t) = c04_opt_depth t.
Proof. exact Props.C04.C04_front_wrapper_stack. Qed.
Print Assumptions Props.C04.C04_front_wrapper_stack.
Goal forallb (fun n => mem_str n TRANSPARENT)
          [lit "Box"; lit "Arc"; lit "Rc"; lit "Cow"; lit "Cell"; lit "RefCell"; lit "Mutex"; lit "RwLock"; lit "Weak"] = true.
Proof. exact Props.C04.C04_front_wrapper_names. Qed.
Print Assumptions Props.C04.C04_front_wrapper_names.
Goal forall s0 s1 s2 q1 q2 t,
    forallb c04_wrap_ok s0 = true -> forallb c04_wrap_ok s1 = true -> forallb c04_wrap_ok s2 = true ->
    c04_opt_depth (c04_wrap_ty s2 (c04_option_of q2 (c04_wrap_ty s1 (c04_option_of q1 (c04_wrap_ty s0 t))))) = 2 + c04_opt_depth t.
Proof. exact Props.C04.C04_front_layers. Qed.
Print Assumptions Props.C04.C04_front_layers.
Goal forall (uc : unicode) (tstr : str -> option ty) check_flatten rename_all (f : field) (rf : rfield),
    get_field_type_override uc (f_attrs f) = None ->
    parse_field uc tstr check_flatten rename_all f = Ok rf ->
    Proofs.C04.rtype_opt_depth (fty rf) = c04_opt_depth (f_ty f) /\ has_default rf = bare_default (f_attrs f).
Proof. exact Props.C04.C04_front_field. Qed.
Print Assumptions Props.C04.C04_front_field.
Goal forall (uc : unicode) (tstr : str -> option ty) check_flatten rename_all (f : field) (rf : rfield),
    get_field_type_override uc (f_attrs f) = None ->
    parse_field uc tstr check_flatten rename_all f = Ok rf ->
    (is_optional (fty rf) || has_default rf) = c04_src_optional (f_attrs f) (f_ty f) /\
    is_double_optional (fty rf) = (2 <=? c04_opt_depth (f_ty f)).
Proof. exact Props.C04.C04_front_field_flags. Qed.
Print Assumptions Props.C04.C04_front_field_flags.
Goal forall (uc : unicode) (tstr : str -> option ty) T enum_rename_all v rv t sh,
    parse_enum_variant uc tstr T enum_rename_all v = Ok rv -> rv = VTuple t sh ->
    forall f, v_fields v = FUnnamed [f] -> get_field_type_override uc (f_attrs f) = None ->
    Proofs.C04.rtype_opt_depth t = c04_opt_depth (f_ty f).
Proof. exact Props.C04.C04_front_payload. Qed.
Print Assumptions Props.C04.C04_front_payload.
Goal forall (uc : unicode) (tstr : str -> option ty) attrs ident gens t a,
    get_serialized_as_type uc attrs = None ->
    parse_type_alias uc tstr attrs ident gens t = Ok (ItAlias a) ->
    Proofs.C04.rtype_opt_depth (atype a) = c04_opt_depth t.
Proof. exact Props.C04.C04_front_alias. Qed.
Print Assumptions Props.C04.C04_front_alias.
Goal forall (cfg : kt_config) (f : rfield) g rsn vis m decl pos,
    c04_fieldlike pos = true -> type_override f Kotlin = None ->
    kt_member_of cfg f g rsn vis = Ok m ->
    exists y, kt_texp cfg g (Proofs.C04.c04_strip (fty f)) = Ok y /\
      good_C04 Kotlin (Proofs.C04_Back.c04_expect_of pos (fty f) (has_default f) (kt_show y))
               (c04r_seen (kt_c04_member decl pos m)) = true.
Proof. exact Props.C04.C04_back_kotlin_field. Qed.
Print Assumptions Props.C04.C04_back_kotlin_field.
