(* Pinned statements for C07: compiled on every check run. A statement weakened in Props/ fails here. *)
From Coq Require Import String.
From TS Require Import Model.Str Model.Outcome Model.Unicode Model.Syntax Model.Attrs Model.Rename Model.Types Model.Parse.
From TS Require Import Model.MultiFile Model.Lang.Common Model.Lang.Kotlin Model.Lang.Swift Model.Lang.Scala Model.Lang.Go.
From TS Require Import Spec.TargetOsRule Spec.C03Spec Spec.C07Spec.
From TS Require Proofs.FrontItems Proofs.C07 Proofs.C07Back.
From TS Require Props.C07.

Goal forall t : ty, is_panic (parse_ty t) = false.
Proof. exact Props.C07.C07_type_parser_never_panics. Qed.
Print Assumptions Props.C07.C07_type_parser_never_panics.
Goal forall t : ty, ty_complete t = false -> exists e, parse_ty t = Err e.
Proof. exact Props.C07.C07_incomplete_type_is_error. Qed.
Print Assumptions Props.C07.C07_incomplete_type_is_error.
Goal forall (uc : unicode) (rule : option str) (ident : str),
    is_panic (rename_all_to_case uc ident rule) = false.
Proof. exact Props.C07.C07_rename_never_panics. Qed.
Print Assumptions Props.C07.C07_rename_never_panics.
Goal forall s : str,
    to_camel_case s = Ok (match to_pascal_case s with [] => [] | c :: r => alower c :: r end).
Proof. exact Props.C07.C07_camel_case_value. Qed.
Print Assumptions Props.C07.C07_camel_case_value.
Goal forall (uc : unicode) (attrs : list attr), is_panic (get_field_decorators uc attrs) = false.
Proof. exact Props.C07.C07_decorators_never_panic. Qed.
Print Assumptions Props.C07.C07_decorators_never_panic.
Goal forall (uc : unicode) (tstr : str -> option ty) (T : list str) (it : item),
    Proofs.C07.is_leaf_item it = true ->
    is_panic (Proofs.FrontItems.parse_leaf uc tstr T it) = false.
Proof. exact Props.C07.C07_leaf_never_panics. Qed.
Print Assumptions Props.C07.C07_leaf_never_panics.
Goal forall (uc : unicode) (tstr : str -> option ty) (T : list str) (f : file),
    is_panic (parse_file uc tstr T f) = false.
Proof. exact Props.C07.C07_front_end_never_panics_partial. Qed.
Print Assumptions Props.C07.C07_front_end_never_panics_partial.
Goal forall (uc : unicode) (tstr : str -> option ty) (T : list str) (f : file),
    exists r, parse_file uc tstr T f = Ok r.
Proof. exact Props.C07.C07_front_end_total_partial. Qed.
Print Assumptions Props.C07.C07_front_end_total_partial.
Goal forall (uc : unicode) (tstr : str -> option ty) (T : list str),
    (forall attrs, is_skipped T attrs = skipped7 T attrs) ->
  forall it : item,
    Proofs.C07.is_leaf_item it = true -> leaf_complete uc tstr T it = false ->
    exists e, Proofs.FrontItems.parse_leaf uc tstr T it = Err e.
Proof. exact Props.C07.C07_incomplete_leaf_is_error. Qed.
Print Assumptions Props.C07.C07_incomplete_leaf_is_error.
Goal forall (uc : unicode) (tstr : str -> option ty) (it : item),
    Proofs.C07.is_leaf_item it = true -> leaf_complete uc tstr [] it = false ->
    exists e, Proofs.FrontItems.parse_leaf uc tstr [] it = Err e.
Proof. exact Props.C07.C07_incomplete_leaf_is_error_no_target. Qed.
Print Assumptions Props.C07.C07_incomplete_leaf_is_error_no_target.
Goal forall (uc : unicode) (tstr : str -> option ty) (T : list str),
    (forall attrs, accepts T attrs = os_rule attrs T) ->
  forall f : file,
    exists r, parse_file uc tstr T f = Ok r /\
              (front_incomplete_leaves uc tstr T f <=
               match r with Some pd => List.length (p_errors pd) | None => 0 end)%nat.
Proof. exact Props.C07.C07_incomplete_file_is_diagnosed. Qed.
Print Assumptions Props.C07.C07_incomplete_file_is_diagnosed.
Goal forall (T : list str) (attrs : list attr), cfg_parsable attrs = true -> accepts T attrs = os_rule attrs T.
Proof. exact Props.C07.C07_target_os_hypothesis_when_cfg_parses. Qed.
Print Assumptions Props.C07.C07_target_os_hypothesis_when_cfg_parses.
Goal forall (uc : unicode) (tstr : str -> option ty) (f : file),
    exists r, parse_file uc tstr [] f = Ok r /\
              (front_incomplete_leaves uc tstr [] f <=
               match r with Some pd => List.length (p_errors pd) | None => 0 end)%nat.
Proof. exact Props.C07.C07_incomplete_file_is_diagnosed_no_target. Qed.
Print Assumptions Props.C07.C07_incomplete_file_is_diagnosed_no_target.
Goal forall (uc : unicode) (tstr : str -> option ty) (T : list str),
    (forall attrs, accepts T attrs = os_rule attrs T) ->
  forall (l : list item) (pd pd' : parsed),
    visit_items uc tstr T l pd = Ok pd' ->
    Proofs.FrontItems.count_items pd' =
    (Proofs.FrontItems.count_items pd + List.length (filter (expected_leaf T) (leaves_of l)))%nat.
Proof. exact Props.C07.C07_every_expected_item_accounted. Qed.
Print Assumptions Props.C07.C07_every_expected_item_accounted.
Goal Proofs.C07.diagnosed (IStruct [Proofs.C07.a_ts] (lit "S") [] (FUnnamed [])) (EUnsupportedTypeP (lit "S()")).
Proof. exact Props.C07.C07_parser_287_fixed. Qed.
Print Assumptions Props.C07.C07_parser_287_fixed.
Goal Proofs.C07.diagnosed (IEnum [Proofs.C07.a_ts; Proofs.C07.a_tagc] (lit "E") []
                          [{| v_attrs := []; v_ident := lit "V"; v_fields := FUnnamed [] |}]) (EUnsupportedTypeP (lit "V()")).
Proof. exact Props.C07.C07_parser_445_fixed. Qed.
Print Assumptions Props.C07.C07_parser_445_fixed.
Goal get_field_decorators uc_exec [Proofs.C07.a_foo_bar] = Ok [] /\
  is_ok (Proofs.FrontItems.parse_leaf uc_exec Proofs.C07.no_tstr []
           (Proofs.C07.st1 [] (Proofs.C07.fld [Proofs.C07.a_foo_bar] (lit "a") Proofs.C07.t_u8))) = true /\
  Proofs.FrontItems.parse_leaf uc_exec Proofs.C07.no_tstr [] (Proofs.C07.st1 [] (Proofs.C07.fld [Proofs.C07.a_foo_bar] (lit "a") Proofs.C07.t_u8)) =
  Proofs.FrontItems.parse_leaf uc_exec Proofs.C07.no_tstr [] (Proofs.C07.st1 [] (Proofs.C07.fld [] (lit "a") Proofs.C07.t_u8)).
Proof. exact Props.C07.C07_parser_737_fixed. Qed.
Print Assumptions Props.C07.C07_parser_737_fixed.
Goal Proofs.C07.diagnosed (Proofs.C07.st1 [] (Proofs.C07.fld [] (lit "a") (TPath [] (lit "Vec") []))) (EUnsupportedType [lit "Vec"]).
Proof. exact Props.C07.C07_rust_types_366_fixed. Qed.
Print Assumptions Props.C07.C07_rust_types_366_fixed.
Goal Proofs.C07.diagnosed (Proofs.C07.st1 [] (Proofs.C07.fld [] (lit "a") (TPath [] (lit "Option") []))) (EUnsupportedType [lit "Option"]).
Proof. exact Props.C07.C07_rust_types_369_fixed. Qed.
Print Assumptions Props.C07.C07_rust_types_369_fixed.
Goal Proofs.C07.diagnosed (Proofs.C07.st1 [] (Proofs.C07.fld [] (lit "a") (TPath [] (lit "HashMap") []))) (EUnsupportedType [lit "HashMap"]).
Proof. exact Props.C07.C07_rust_types_374_fixed. Qed.
Print Assumptions Props.C07.C07_rust_types_374_fixed.
Goal Proofs.C07.diagnosed (Proofs.C07.st1 [] (Proofs.C07.fld [] (lit "a") (TPath [] (lit "HashMap") [Some (TPath [] (lit "String") [])])))
                       (EUnsupportedType [lit "HashMap"]).
Proof. exact Props.C07.C07_rust_types_375_fixed. Qed.
Print Assumptions Props.C07.C07_rust_types_375_fixed.
Goal Proofs.C07.diagnosed (Proofs.C07.st1 [] (Proofs.C07.fld [] (lit "a") (TPath [] (lit "Cow") [None]))) (EUnsupportedType [lit "Cow"]).
Proof. exact Props.C07.C07_rust_types_383_fixed. Qed.
Print Assumptions Props.C07.C07_rust_types_383_fixed.
Goal Proofs.C07.field_names_of (Proofs.FrontItems.parse_leaf uc_exec Proofs.C07.no_tstr []
     (Proofs.C07.st1 [Proofs.C07.a_camel] (Proofs.C07.fld [] (lit "__") Proofs.C07.t_u8))) = Some [[]].
Proof. exact Props.C07.C07_rename_22_underscores_fixed. Qed.
Print Assumptions Props.C07.C07_rename_22_underscores_fixed.
Goal Proofs.C07.field_names_of (Proofs.FrontItems.parse_leaf uc_exec Proofs.C07.no_tstr []
     (Proofs.C07.st1 [Proofs.C07.a_camel] (Proofs.C07.fld [] (233%N :: lit "toile") Proofs.C07.t_u8))) = Some [233%N :: lit "toile"] /\
  Proofs.C07.field_names_of (Proofs.FrontItems.parse_leaf uc_exec Proofs.C07.no_tstr []
     (Proofs.C07.st1 [Proofs.C07.a_camel] (Proofs.C07.fld [] (201%N :: lit "toile_du_nord") Proofs.C07.t_u8))) = Some [201%N :: lit "toileDuNord"].
Proof. exact Props.C07.C07_rename_22_nonascii_fixed. Qed.
Print Assumptions Props.C07.C07_rename_22_nonascii_fixed.
Goal forall (uc : unicode) (own : str) (t : use_tree), exists found, parse_import uc own t = Ok found.
Proof. exact Props.C07.C07_use_import_total. Qed.
Print Assumptions Props.C07.C07_use_import_total.
Goal forall (uc : unicode) (tstr : str -> option ty) (T : list str) (own : str) (ign : list str)
         (ho_file : list imported -> list imported) (f : file),
    exists r, parse_file_multi uc tstr T own ign ho_file f = Ok r.
Proof. exact Props.C07.C07_multi_file_front_end_total_partial. Qed.
Print Assumptions Props.C07.C07_multi_file_front_end_total_partial.
Goal forall (uc : unicode) (T ign : list str) (ho_file : list imported -> list imported) (ws : list ws_entry),
    exists arrivals, parse_workspace uc T ign ho_file ws = Ok arrivals.
Proof. exact Props.C07.C07_workspace_parse_total. Qed.
Print Assumptions Props.C07.C07_workspace_parse_total.
Goal parse_import uc_exec Proofs.C07Back.w_own (UName (lit "foo")) = Ok [] /\
  parse_import uc_exec Proofs.C07Back.w_own (UGroup [UName (lit "a"); UName (lit "b")]) = Ok [] /\
  parse_import uc_exec Proofs.C07Back.w_own UGlob = Ok [] /\
  parse_import uc_exec Proofs.C07Back.w_own (UGroup [UGroup [UName (lit "Foo")]; UGlob; URename (lit "a") (lit "b")]) = Ok [].
Proof. exact Props.C07.C07_visitors_401_fixed. Qed.
Print Assumptions Props.C07.C07_visitors_401_fixed.
Goal parse_import uc_exec Proofs.C07Back.w_own (UGroup [UPath (lit "a") (UName (lit "B")); UName (lit "c")]) = Ok [Proofs.C07Back.w_imp "a" "B"] /\
  parse_import uc_exec Proofs.C07Back.w_own (UPath (lit "other_crate") (UGroup [UName (lit "Thing"); UPath (lit "sub") UGlob])) =
    Ok [Proofs.C07Back.w_imp "other_crate" "*"; Proofs.C07Back.w_imp "other_crate" "Thing"].
Proof. exact Props.C07.C07_visitors_401_fixed_keeps_paths. Qed.
Print Assumptions Props.C07.C07_visitors_401_fixed_keeps_paths.
Goal match parse_file_multi uc_exec Proofs.C07.no_tstr [] Proofs.C07Back.w_own [] (fun l => l) Proofs.C07Back.w_use_file with
  | Ok (Some pd) => List.length (p_structs pd) = 1%nat /\ p_errors pd = [] /\ p_imports pd = []
  | _ => False
  end.
Proof. exact Props.C07.C07_visitors_401_fixed_file. Qed.
Print Assumptions Props.C07.C07_visitors_401_fixed_file.
Goal forall (uc : unicode) (cfg : go_config) (custom : list str) (tag content : str) (sh : eshared) (s : go_state) ds s',
    go_enum_decls_of uc cfg custom (EAlgebraic tag content sh) s = Ok (ds, s') ->
    exists anon t, ds = anon ++ [GOTagged t] /\
                   gt_short t = match original (eid sh) with [] => [] | c :: _ => u_lower uc c end.
Proof. exact Props.C07.C07_go_receiver_value. Qed.
Print Assumptions Props.C07.C07_go_receiver_value.
Goal Proofs.C07Back.w_go_short (201%N :: lit "toile") = Some [233%N] /\
  Proofs.C07Back.w_go_short (304%N :: lit "x") = Some [105%N; 775%N] /\
  Proofs.C07Back.w_go_short (453%N :: lit "x") = Some [454%N] /\
  Proofs.C07Back.w_go_short [20013%N] = Some [20013%N] /\
  Proofs.C07Back.w_go_short (lit "Plain") = Some (lit "p") /\
  Proofs.C07Back.w_go_short [] = Some [] /\
  is_ok (go_generate uc_exec Proofs.C07Back.w_go_cfg (Proofs.C07Back.w_pd (Proofs.C07Back.w_tagged (201%N :: lit "toile")))) = true.
Proof. exact Props.C07.C07_go_315_fixed. Qed.
Print Assumptions Props.C07.C07_go_315_fixed.
Goal forall (cfg : kt_config) (c : rconst), kt_decl_of cfg (ItConst c) = Err (EConstUnsupported (original (cid c))).
Proof. exact Props.C07.C07_kotlin_const_is_error. Qed.
Print Assumptions Props.C07.C07_kotlin_const_is_error.
Goal forall (uc : unicode) (cfg : sw_config) (c : rconst) (st : sw_state),
    sw_decl_of uc cfg (ItConst c) st = Err (EConstUnsupported (original (cid c))).
Proof. exact Props.C07.C07_swift_const_is_error. Qed.
Print Assumptions Props.C07.C07_swift_const_is_error.
Goal kt_generate uc_exec Proofs.C07Back.w_kt_cfg Proofs.C07Back.w_const_pd = Err (EConstUnsupported (lit "X")).
Proof. exact Props.C07.C07_kotlin_183_fixed. Qed.
Print Assumptions Props.C07.C07_kotlin_183_fixed.
Goal sw_generate uc_exec Proofs.C07Back.w_sw_cfg Proofs.C07Back.w_const_pd = Err (EConstUnsupported (lit "X")).
Proof. exact Props.C07.C07_swift_268_fixed. Qed.
Print Assumptions Props.C07.C07_swift_268_fixed.
Goal forall cfg : sc_config,
    (sc_package cfg = [] -> sc_begin_file cfg = Err EPackageRequired) /\
    (sc_package cfg <> [] -> is_ok (sc_begin_file cfg) = true).
Proof. exact Props.C07.C07_scala_package_error_iff. Qed.
Print Assumptions Props.C07.C07_scala_package_error_iff.
Goal forall (uc : unicode) (cfg : sc_config) (pd : parsed), sc_package cfg = [] -> sc_generate uc cfg pd = Err EPackageRequired.
Proof. exact Props.C07.C07_scala_no_package_is_error. Qed.
Print Assumptions Props.C07.C07_scala_no_package_is_error.
Goal sc_generate uc_exec (Proofs.C07Back.w_sc_cfg []) Proofs.C07Back.w_struct_pd = Err EPackageRequired /\
  is_ok (sc_generate uc_exec (Proofs.C07Back.w_sc_cfg (lit "p")) Proofs.C07Back.w_struct_pd) = true.
Proof. exact Props.C07.C07_scala_131_fixed. Qed.
Print Assumptions Props.C07.C07_scala_131_fixed.
Goal List.length (expected_leaves [] Proofs.C07.nonvacuous_file) = 8%nat /\
  front_incomplete_leaves uc_exec Proofs.C07.no_tstr [] Proofs.C07.nonvacuous_file = 3%nat /\
  match parse_file uc_exec Proofs.C07.no_tstr [] Proofs.C07.nonvacuous_file with
  | Ok (Some pd) => Proofs.FrontItems.count_items pd = 8%nat /\
                    p_errors pd = [EUnsupportedTypeP (lit "Empty()"); EUnsupportedType [lit "Box"]; EUnsupportedType [lit "HashMap"]]
  | _ => False
  end.
Proof. exact Props.C07.C07_nonvacuous_witness. Qed.
Print Assumptions Props.C07.C07_nonvacuous_witness.
