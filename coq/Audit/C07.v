(* Pinned statements for C07: compiled on every check run. A statement weakened in Props/ fails here. *)
From Coq Require Import String.
From TS Require Import Model.Str Model.Outcome Model.Unicode Model.Syntax Model.Attrs Model.Rename Model.Types Model.Parse.
From TS Require Import Spec.TargetOsRule Spec.C03Spec Spec.C07Spec.
From TS Require Proofs.FrontItems Proofs.C07.
Definition refuted_at (it : item) (site : string) : Prop :=
  Proofs.C07.is_leaf_item it = true /\ leaf_safe uc_exec (fun _ => None) [] it = false /\
  Proofs.FrontItems.parse_leaf uc_exec (fun _ => None) [] it = Panic site.
From TS Require Props.C07.

Goal forall t : ty, ty_safe t = true -> is_panic (parse_ty t) = false.
Proof. exact Props.C07.C07_type_parser_panic_free. Qed.
Print Assumptions Props.C07.C07_type_parser_panic_free.
Goal forall (uc : unicode) (rule : option str) (ident : str),
    rename_safe rule ident = true -> is_panic (rename_all_to_case uc ident rule) = false.
Proof. exact Props.C07.C07_rename_panic_free. Qed.
Print Assumptions Props.C07.C07_rename_panic_free.
Goal forall s : str,
    is_panic (to_camel_case s) = negb (match first_significant s with Some c => N.ltb c 128%N | None => false end).
Proof. exact Props.C07.C07_camel_case_panics_exactly. Qed.
Print Assumptions Props.C07.C07_camel_case_panics_exactly.
Goal forall (uc : unicode) (attrs : list attr),
    decorators_safe uc attrs = true -> is_panic (get_field_decorators uc attrs) = false.
Proof. exact Props.C07.C07_decorators_panic_free. Qed.
Print Assumptions Props.C07.C07_decorators_panic_free.
Goal forall (uc : unicode) (tstr : str -> option ty) (T : list str),
    (forall attrs, is_skipped T attrs = skipped7 T attrs) ->
  forall it : item,
    Proofs.C07.is_leaf_item it = true -> leaf_safe uc tstr T it = true ->
    is_panic (Proofs.FrontItems.parse_leaf uc tstr T it) = false.
Proof. exact Props.C07.C07_leaf_panic_free. Qed.
Print Assumptions Props.C07.C07_leaf_panic_free.
Goal forall (uc : unicode) (tstr : str -> option ty) (it : item),
    Proofs.C07.is_leaf_item it = true -> leaf_safe uc tstr [] it = true ->
    is_panic (Proofs.FrontItems.parse_leaf uc tstr [] it) = false.
Proof. exact Props.C07.C07_leaf_panic_free_no_target. Qed.
Print Assumptions Props.C07.C07_leaf_panic_free_no_target.
Goal forall (uc : unicode) (tstr : str -> option ty) (T : list str),
    (forall attrs, accepts T attrs = os_rule attrs T) ->
  forall f : file,
    front_safe uc tstr T f = true -> is_panic (parse_file uc tstr T f) = false.
Proof. exact Props.C07.C07_front_end_panic_free_partial. Qed.
Print Assumptions Props.C07.C07_front_end_panic_free_partial.
Goal forall (T : list str) (attrs : list attr), cfg_parsable attrs = true -> accepts T attrs = os_rule attrs T.
Proof. exact Props.C07.C07_target_os_hypothesis_when_cfg_parses. Qed.
Print Assumptions Props.C07.C07_target_os_hypothesis_when_cfg_parses.
Goal forall (uc : unicode) (tstr : str -> option ty) (f : file),
    front_safe uc tstr [] f = true -> is_panic (parse_file uc tstr [] f) = false.
Proof. exact Props.C07.C07_front_end_panic_free_no_target_partial. Qed.
Print Assumptions Props.C07.C07_front_end_panic_free_no_target_partial.
Goal forall (uc : unicode) (tstr : str -> option ty) (T : list str),
    (forall attrs, accepts T attrs = os_rule attrs T) ->
  forall (l : list item) (pd pd' : parsed),
    visit_items uc tstr T l pd = Ok pd' ->
    Proofs.FrontItems.count_items pd' =
    (Proofs.FrontItems.count_items pd + List.length (filter (expected_leaf T) (leaves_of l)))%nat.
Proof. exact Props.C07.C07_every_expected_item_accounted. Qed.
Print Assumptions Props.C07.C07_every_expected_item_accounted.
Goal refuted_at (IStruct [Proofs.C07.a_ts] (lit "S") [] (FUnnamed [])) "parser.rs:287".
Proof. exact Props.C07.C07_parser_287_refuted. Qed.
Print Assumptions Props.C07.C07_parser_287_refuted.
Goal refuted_at (IEnum [Proofs.C07.a_ts; Proofs.C07.a_tagc] (lit "E") []
                    [{| v_attrs := []; v_ident := lit "V"; v_fields := FUnnamed [] |}]) "parser.rs:445".
Proof. exact Props.C07.C07_parser_445_refuted. Qed.
Print Assumptions Props.C07.C07_parser_445_refuted.
Goal refuted_at (Proofs.C07.st1 [] (Proofs.C07.fld
                [{| a_inner := false;
                    a_meta := MList [lit "typeshare"] (Some [MList [lit "foo"] (Some [MPath [lit "bar"]]) (Some [(lit "bar", None)])]) None |}]
                (lit "a") Proofs.C07.t_u8)) "parser.rs:737".
Proof. exact Props.C07.C07_parser_737_refuted. Qed.
Print Assumptions Props.C07.C07_parser_737_refuted.
Goal refuted_at (Proofs.C07.st1 [] (Proofs.C07.fld [] (lit "a") (TPath [] (lit "Vec") []))) "rust_types.rs:366".
Proof. exact Props.C07.C07_rust_types_366_refuted. Qed.
Print Assumptions Props.C07.C07_rust_types_366_refuted.
Goal refuted_at (Proofs.C07.st1 [] (Proofs.C07.fld [] (lit "a") (TPath [] (lit "Option") []))) "rust_types.rs:369".
Proof. exact Props.C07.C07_rust_types_369_refuted. Qed.
Print Assumptions Props.C07.C07_rust_types_369_refuted.
Goal refuted_at (Proofs.C07.st1 [] (Proofs.C07.fld [] (lit "a") (TPath [] (lit "HashMap") []))) "rust_types.rs:374".
Proof. exact Props.C07.C07_rust_types_374_refuted. Qed.
Print Assumptions Props.C07.C07_rust_types_374_refuted.
Goal refuted_at (Proofs.C07.st1 [] (Proofs.C07.fld [] (lit "a") (TPath [] (lit "HashMap") [Some (TPath [] (lit "String") [])])))
             "rust_types.rs:375".
Proof. exact Props.C07.C07_rust_types_375_refuted. Qed.
Print Assumptions Props.C07.C07_rust_types_375_refuted.
Goal refuted_at (Proofs.C07.st1 [] (Proofs.C07.fld [] (lit "a") (TPath [] (lit "Cow") [None]))) "rust_types.rs:383".
Proof. exact Props.C07.C07_rust_types_383_refuted. Qed.
Print Assumptions Props.C07.C07_rust_types_383_refuted.
Goal refuted_at (Proofs.C07.st1 [Proofs.C07.a_camel] (Proofs.C07.fld [] (lit "__") Proofs.C07.t_u8)) "rename.rs:22".
Proof. exact Props.C07.C07_rename_22_underscores_refuted. Qed.
Print Assumptions Props.C07.C07_rename_22_underscores_refuted.
Goal refuted_at (Proofs.C07.st1 [Proofs.C07.a_camel] (Proofs.C07.fld [] (233%N :: lit "toile") Proofs.C07.t_u8)) "rename.rs:22".
Proof. exact Props.C07.C07_rename_22_nonascii_refuted. Qed.
Print Assumptions Props.C07.C07_rename_22_nonascii_refuted.
Goal front_safe uc_exec Proofs.C07.no_tstr [] Proofs.C07.nonvacuous_file = true /\
  List.length (expected_leaves [] Proofs.C07.nonvacuous_file) = 5%nat /\
  match parse_file uc_exec Proofs.C07.no_tstr [] Proofs.C07.nonvacuous_file with
  | Ok (Some pd) => Proofs.FrontItems.count_items pd = 5%nat /\ p_errors pd = []
  | _ => False
  end.
Proof. exact Props.C07.C07_nonvacuous_witness. Qed.
Print Assumptions Props.C07.C07_nonvacuous_witness.
